(* Proofs about the rendering model Lang/Render.v. *)
From GV Require Import Base.Prelude Lang.Location Lang.LocationProps Lang.Render.

(* ---------- splitting: shape lemmas --------------------------------------------------- *)

(* the first line of a split starts with the pending characters *)
Lemma split_aux_head cur s : exists x rest, split_lines_aux cur s = (rev cur ++ x) :: rest.
Proof.
  revert cur; induction s as [|c t IH]; intros cur; cbn [split_lines_aux].
  - exists [], []. rewrite app_nil_r. reflexivity.
  - destruct (c =? CR).
    + destruct t as [|d t'].
      * exists [], [[]]. rewrite app_nil_r. reflexivity.
      * destruct (d =? LF); eexists [], _; rewrite app_nil_r; reflexivity.
    + destruct (c =? LF).
      * eexists [], _; rewrite app_nil_r; reflexivity.
      * destruct (IH (c :: cur)) as (x & rest & E). rewrite E.
        exists (c :: x), rest. cbn [rev]. rewrite <- app_assoc. reflexivity.
Qed.

(* pending characters only affect the first line *)
Lemma split_aux_shift s : forall cur,
  split_lines_aux cur s =
  match split_lines_aux [] s with h :: r => (rev cur ++ h) :: r | [] => [] end.
Proof.
  induction s as [|c t IH]; intros cur; cbn [split_lines_aux].
  - cbn. rewrite app_nil_r. reflexivity.
  - destruct (c =? CR).
    + destruct t as [|d t'].
      * cbn. rewrite app_nil_r. reflexivity.
      * destruct (d =? LF); cbn [rev app]; rewrite app_nil_r; reflexivity.
    + destruct (c =? LF).
      * cbn [rev app]. rewrite app_nil_r. reflexivity.
      * rewrite (IH (c :: cur)), (IH [c]).
        destruct (split_lines_aux [] t) as [|h r]; [reflexivity|].
        cbn [rev app]. rewrite <- app_assoc. reflexivity.
Qed.

Lemma split_pad pad s : forall cur,
  split_lines_aux cur (repeat SP pad ++ s) = split_lines_aux (repeat SP pad ++ cur) s.
Proof.
  induction pad as [|p IH]; intros cur; [reflexivity|].
  cbn [repeat app split_lines_aux].
  change (SP =? CR) with false. change (SP =? LF) with false. cbv iota.
  rewrite IH. f_equal.
  clear. induction p as [|p IH]; [reflexivity|]. cbn [repeat app]. rewrite IH. reflexivity.
Qed.

Lemma rev_repeat {A} (x : A) n : rev (repeat x n) = repeat x n.
Proof.
  induction n as [|n IH]; [reflexivity|]. cbn [repeat rev]. rewrite IH.
  clear. induction n as [|n IH]; [reflexivity|]. cbn [repeat app]. rewrite IH. reflexivity.
Qed.

(* the line in which a prefix ends is, in the whole text, a line that starts with the
   prefix's last (partial) line *)
Lemma split_prefix_n n : forall P cur R, (length P <= n)%nat ->
  exists ll suffix,
    nth_error (split_lines_aux cur (P ++ R)) (length (split_lines_aux cur P) - 1) = Some ll /\
    ll = last (split_lines_aux cur P) [] ++ suffix.
Proof.
  induction n as [|n IH]; intros P cur R Hn.
  - destruct P; [|cbn in Hn; lia]. cbn [app split_lines_aux length Nat.sub last].
    destruct (split_aux_head cur R) as (x & rest & E). rewrite E. exists (rev cur ++ x), x.
    split; reflexivity.
  - destruct P as [|c P'].
    { cbn [app split_lines_aux length Nat.sub last].
      destruct (split_aux_head cur R) as (x & rest & E). rewrite E. exists (rev cur ++ x), x.
      split; reflexivity. }
    assert (Hlen : forall cur' Q, (length (split_lines_aux cur' Q) - 1 =
                  S (length (split_lines_aux cur' Q) - 1) - 1)%nat) by (intros; lia).
    assert (Hstep : forall (h : list N) cur' Q,
              (length (h :: split_lines_aux cur' Q) - 1 = S (length (split_lines_aux cur' Q) - 1))%nat).
    { intros h cur' Q. cbn [length]. pose proof (split_aux_nonempty cur' Q) as Hne.
      destruct (split_lines_aux cur' Q); [congruence|]. cbn [length]. lia. }
    cbn [app]. cbn [split_lines_aux].
    destruct (c =? CR) eqn:Ec.
    + destruct P' as [|d P''].
      * (* P = [CR] *)
        cbn [app length Nat.sub last].
        destruct R as [|d R'].
        -- exists [], []. split; reflexivity.
        -- destruct (d =? LF).
           ++ destruct (split_aux_head [] R') as (x & rest & E). rewrite E.
              exists x, x. split; reflexivity.
           ++ destruct (split_aux_head [] (d :: R')) as (x & rest & E). rewrite E.
              exists x, x. split; reflexivity.
      * cbn [app]. destruct (d =? LF) eqn:Ed.
        -- destruct (IH P'' [] R) as (ll & sfx & H1 & H2); [cbn in Hn; lia|].
           exists ll, sfx. rewrite Hstep. cbn [nth_error].
           rewrite last_cons_nonempty by apply split_aux_nonempty. split; assumption.
        -- destruct (IH (d :: P'') [] R) as (ll & sfx & H1 & H2); [cbn in Hn; cbn; lia|].
           exists ll, sfx. rewrite Hstep. cbn [nth_error].
           rewrite last_cons_nonempty by apply split_aux_nonempty. split; assumption.
    + destruct (c =? LF) eqn:El.
      * destruct (IH P' [] R) as (ll & sfx & H1 & H2); [cbn in Hn; lia|].
        exists ll, sfx. rewrite Hstep. cbn [nth_error].
        rewrite last_cons_nonempty by apply split_aux_nonempty. split; assumption.
      * destruct (IH P' (c :: cur) R) as (ll & sfx & H1 & H2); [cbn in Hn; lia|].
        exists ll, sfx. split; assumption.
Qed.

(* ---------- chunks ------------------------------------------------------------------------ *)

Lemma firstn_add {A} : forall n m (l : list A),
  firstn (n + m) l = firstn n l ++ firstn m (skipn n l).
Proof.
  induction n as [|n IH]; intros m l; [reflexivity|].
  destruct l as [|x l]; [cbn; rewrite firstn_nil; reflexivity|].
  cbn [plus firstn skipn app]. rewrite IH. reflexivity.
Qed.

Lemma chunks_concat_firstn : forall f s k, (length s <= f)%nat ->
  concat (firstn k (chunks f s)) = firstn (80 * k) s.
Proof.
  induction f as [|f IH]; intros s k Hf.
  - destruct s; [|cbn in Hf; lia]. cbn. destruct k; rewrite ?firstn_nil; reflexivity.
  - destruct s as [|c t].
    { cbn [chunks]. rewrite !firstn_nil. reflexivity. }
    remember (c :: t) as s eqn:Es.
    assert (Hch : chunks (S f) s = firstn 80 s :: chunks f (skipn 80 s)) by (rewrite Es; reflexivity).
    rewrite Hch. destruct k as [|k]; [reflexivity|].
    rewrite firstn_cons, concat_cons.
    rewrite IH by (rewrite skipn_length; subst s; cbn [length] in *; lia).
    replace (80 * S k)%nat with (80 + 80 * k)%nat by lia.
    symmetry. apply firstn_add.
Qed.

Lemma chunks_cons f c t :
  chunks (S f) (c :: t) = firstn 80 (c :: t) :: chunks f (skipn 80 (c :: t)).
Proof. reflexivity. Qed.

Lemma skipn_add {A} : forall n m (l : list A), skipn n (skipn m l) = skipn (m + n) l.
Proof.
  intros n m; revert n; induction m as [|m IH]; intros n l; [reflexivity|].
  destruct l as [|x l]; [cbn; apply skipn_nil|]. cbn [plus skipn]. apply IH.
Qed.

Lemma chunks_length : forall f s, (length s <= f)%nat ->
  (80 * length (chunks f s) < length s + 80 /\ length s <= 80 * length (chunks f s))%nat.
Proof.
  induction f as [|f IH]; intros s Hf.
  - destruct s; [cbn; lia|cbn in Hf; lia].
  - destruct s as [|c t]; [cbn; lia|].
    rewrite chunks_cons. remember (c :: t) as s eqn:Es.
    assert (Hs : (length (skipn 80 s) <= f)%nat) by (rewrite skipn_length; subst s; cbn [length] in *; lia).
    specialize (IH _ Hs). rewrite skipn_length in IH.
    assert (0 < length s)%nat by (subst s; cbn; lia).
    cbn [length]. lia.
Qed.

Lemma chunks_nth : forall f s k, (length s <= f)%nat -> (k < length (chunks f s))%nat ->
  nth_error (chunks f s) k = Some (firstn 80 (skipn (80 * k) s)).
Proof.
  induction f as [|f IH]; intros s k Hf Hk.
  - cbn in Hk. lia.
  - destruct s as [|c t]; [cbn in Hk; lia|].
    rewrite chunks_cons in *. remember (c :: t) as s eqn:Es.
    destruct k as [|k].
    + reflexivity.
    + cbn [nth_error length] in *.
      assert (Hs : (length (skipn 80 s) <= f)%nat) by (rewrite skipn_length; subst s; cbn [length] in *; lia).
      rewrite IH; [|exact Hs|lia].
      rewrite skipn_add. replace (80 * S k)%nat with (80 + 80 * k)%nat by lia. reflexivity.
Qed.

Lemma slice_tail_firstn {A} (x : A) l k :
  x :: slice 1 (S k) (x :: l) = firstn (S k) (x :: l).
Proof. unfold slice. cbn [skipn firstn]. replace (S k - 1)%nat with k by lia. reflexivity. Qed.

(* ---------- rows --------------------------------------------------------------------------- *)

Lemma guarded_spec g l i : (g = true -> (i < length l)%nat) ->
  guarded g l i = Some (if g then nth_error l i else None).
Proof.
  intros H. unfold guarded. destruct g; [|reflexivity].
  destruct (nth_error l i) eqn:E; [reflexivity|].
  apply nth_error_None in E. specialize (H eq_refl). lia.
Qed.

Theorem rows_short lines li ln cn ll :
  nth_error lines li = Some ll -> (length ll <= 120)%nat ->
  rows lines li ln cn =
  Some [(num_prefix (ln - 1), if (0 <? li)%nat then nth_error lines (li - 1) else None);
        (num_prefix ln, Some ll);
        (bar_prefix, Some (rjust cn [CARET]));
        (num_prefix (ln + 1), nth_error lines (li + 1))].
Proof.
  intros Hl Hs. unfold rows. rewrite Hl.
  assert (Hli : (li < length lines)%nat) by (apply nth_error_Some; congruence).
  destruct (Nat.ltb_spec 120 (length ll)); [lia|].
  rewrite !guarded_spec.
  - destruct (Nat.ltb_spec li (length lines - 1)); [reflexivity|].
    assert (nth_error lines (li + 1) = None) as -> by (apply nth_error_None; lia). reflexivity.
  - intros Hg. apply Nat.ltb_lt in Hg. lia.
  - intros Hg. apply Nat.ltb_lt in Hg. lia.
Qed.

Lemma sub_lines_cons ll : (0 < length ll)%nat ->
  sub_lines ll = firstn 80 ll :: chunks (length ll - 1) (skipn 80 ll).
Proof.
  destruct ll as [|c t]; [cbn; lia|]. intros _. unfold sub_lines.
  cbn [length]. rewrite chunks_cons. replace (S (length t) - 1)%nat with (length t) by lia. reflexivity.
Qed.

Theorem rows_long lines li ln cn ll :
  nth_error lines li = Some ll -> (120 < length ll)%nat ->
  let idx := (cn / 80)%nat in
  let mid := slice 1 (idx + 1) (sub_lines ll) in
  let nxt := if (idx + 1 <? length (sub_lines ll))%nat
             then Some (firstn 80 (skipn (80 * (idx + 1)) ll)) else None in
  rows lines li ln cn =
    Some ((num_prefix ln, Some (firstn 80 ll))
          :: map (fun s => (bar_prefix, Some s)) mid
          ++ [(bar_prefix, Some (rjust (cn mod 80) [CARET])); (bar_prefix, nxt)])
  /\ firstn 80 ll ++ concat mid = firstn (80 * (idx + 1)) ll.
Proof.
  intros Hl Hlong idx mid nxt. unfold rows. rewrite Hl.
  destruct (Nat.ltb_spec 120 (length ll)); [|lia].
  fold idx.
  pose proof (sub_lines_cons ll ltac:(lia)) as Hsub.
  pose proof (chunks_length (length ll) ll (le_n _)) as [Hc1 Hc2]. fold (sub_lines ll) in Hc1, Hc2.
  split.
  - assert (H0 : nth_error (sub_lines ll) 0 = Some (firstn 80 ll)) by (rewrite Hsub; reflexivity).
    rewrite H0.
    rewrite guarded_spec by (intros Hg; apply Nat.ltb_lt in Hg; lia).
    assert (Hn : (if (idx <? length (sub_lines ll) - 1)%nat then nth_error (sub_lines ll) (idx + 1) else None) = nxt).
    { subst nxt.
      destruct (Nat.ltb_spec idx (length (sub_lines ll) - 1)) as [Hi|Hi];
        destruct (Nat.ltb_spec (idx + 1) (length (sub_lines ll))) as [Hj|Hj]; try lia; [|reflexivity].
      unfold sub_lines. apply chunks_nth; [lia|exact Hj]. }
    rewrite Hn. reflexivity.
  - subst mid. rewrite Hsub. replace (idx + 1)%nat with (S idx) by lia.
    change (firstn 80 ll ++ concat (slice 1 (S idx) (firstn 80 ll :: chunks (length ll - 1) (skipn 80 ll))))
      with (concat (firstn 80 ll :: slice 1 (S idx) (firstn 80 ll :: chunks (length ll - 1) (skipn 80 ll)))).
    rewrite slice_tail_firstn. rewrite <- Hsub. unfold sub_lines.
    apply chunks_concat_firstn. lia.
Qed.

(* ---------- the rendering never fails ------------------------------------------------------ *)

Theorem print_source_location_total name pad lineoff line column body :
  (1 <= line <= length (split_lines (repeat SP pad ++ body)))%nat ->
  exists t, print_source_location name pad lineoff line column body = Some t.
Proof.
  intros [H1 H2]. unfold print_source_location.
  destruct line as [|li]; [lia|].
  destruct (nth_error (split_lines (repeat SP pad ++ body)) li) as [ll|] eqn:E.
  2:{ apply nth_error_None in E. lia. }
  destruct (Nat.le_gt_cases (length ll) 120) as [Hs|Hlong].
  - rewrite (rows_short _ _ _ _ _ E Hs). eauto.
  - destruct (rows_long _ _ (S li + lineoff)%nat
                (column + (if (S li =? 1)%nat then pad else 0))%nat _ E Hlong) as [Hr _].
    cbv zeta in Hr. rewrite Hr. eauto.
Qed.

Corollary print_location_total name pad lineoff body pos :
  exists t, print_source_location name pad lineoff (fst (get_location body pos))
              (snd (get_location body pos)) body = Some t.
Proof.
  apply print_source_location_total.
  rewrite get_location_is_spec. unfold location_spec. cbn [fst].
  rewrite split_lines_length, count_lt_app_pad.
  pose proof (count_lt_firstn false pos body). change SP with 32. destruct (pad =? 0)%nat; lia.
Qed.

(* ---------- the caret is placed under the character the location names ---------------- *)

Theorem caret_column_is_location pad body pos :
  let line := fst (get_location body pos) in
  let col := snd (get_location body pos) in
  let cn := (col + (if (line =? 1)%nat then pad else 0))%nat in
  exists ll suffix,
    nth_error (split_lines (repeat SP pad ++ body)) (line - 1) = Some ll /\
    ll = ((if (line =? 1)%nat then repeat SP pad else []) ++ last (split_lines (firstn pos body)) []) ++ suffix /\
    (cn - 1 = length ((if (line =? 1)%nat then repeat SP pad else []) ++ last (split_lines (firstn pos body)) []))%nat.
Proof.
  cbv zeta. unfold get_location. cbn [fst snd].
  set (P := firstn pos body).
  assert (Hpad : split_lines (repeat SP pad ++ body) = split_lines_aux (repeat SP pad) body).
  { unfold split_lines. rewrite split_pad, app_nil_r. reflexivity. }
  rewrite Hpad.
  destruct (split_prefix_n (length P) P (repeat SP pad) (skipn pos body) (le_n _))
    as (ll & sfx & Hn & Hll).
  unfold P in Hn at 1. rewrite firstn_skipn in Hn. fold P in Hn.
  assert (Hlen : length (split_lines_aux (repeat SP pad) P) = length (split_lines P)).
  { unfold split_lines. rewrite (split_aux_length_n (length P)), (split_aux_length_n (length P)) by lia.
    reflexivity. }
  rewrite Hlen in Hn. exists ll, sfx. split; [exact Hn|].
  assert (Hlast : last (split_lines_aux (repeat SP pad) P) [] =
                  (if (length (split_lines P) =? 1)%nat then repeat SP pad else []) ++ last (split_lines P) []).
  { rewrite split_aux_shift. unfold split_lines.
    pose proof (split_aux_nonempty [] P) as Hne.
    destruct (split_lines_aux [] P) as [|h r]; [congruence|].
    rewrite rev_repeat. destruct r as [|h2 r].
    - reflexivity.
    - cbn [length Nat.eqb app]. reflexivity. }
  rewrite Hlast in Hll. split; [exact Hll|].
  rewrite app_length. destruct (length (split_lines P) =? 1)%nat; rewrite ?repeat_length; cbn [length]; lia.
Qed.
