(* Properties of the parser model that hold for every production, proved once for the monad
   and then production by production with one tactic:
     - fuel: S (number of tokens) is never exhausted,
     - the remaining list of a successful run is a suffix of the input, errors blame a token of
       the input (or the one consumed last),
     - token limit: the run with floor fl is the unlimited run cut at the first token whose
       suffix has length <= fl. *)
From GV Require Import Base.Prelude Lang.Lexer Lang.LexerProps Lang.Ast Lang.Parser.

Local Open Scope nat_scope.

(* ---------- suffixes ---------- *)
(* [suffix r ts]: r is reached from ts by advancing token by token, never onto a lexical error
   and never over an EOF token *)
Inductive suffix (r : list sigtok) : list sigtok -> Prop :=
| suffix_refl : suffix r r
| suffix_step t ts : (fst t =? K_EOF)%N = false -> (kind_at ts =? K_LEXERR)%N = false ->
                     suffix r ts -> suffix r (t :: ts).

Lemma suffix_trans a b c : suffix a b -> suffix b c -> suffix a c.
Proof. intros H1 H2. induction H2 as [|t ts He Hk H2 IH]; [exact H1|]. apply suffix_step; assumption. Qed.
Lemma suffix_cons t ts : (fst t =? K_EOF)%N = false -> (kind_at ts =? K_LEXERR)%N = false -> suffix ts (t :: ts).
Proof. intros He H. apply suffix_step; [exact He|exact H|apply suffix_refl]. Qed.
Lemma suffix_app r ts : suffix r ts -> exists pre, ts = pre ++ r.
Proof.
  induction 1 as [|t ts He Hk H [pre ->]]; [exists []; reflexivity|]. exists (t :: pre). reflexivity.
Qed.
Lemma suffix_length r ts : suffix r ts -> length r <= length ts.
Proof. intros H. apply suffix_app in H as [p ->]. rewrite app_length. lia. Qed.
Lemma suffix_same_length r ts : suffix r ts -> length r = length ts -> r = ts.
Proof.
  intros H E. apply suffix_app in H as [p ->]. rewrite app_length in E.
  destruct p; [reflexivity|cbn in E; lia].
Qed.

(* ---------- the state is within the token limit ---------- *)
Definition okst (fl : nat) (ts : list sigtok) : Prop :=
  fl < length ts \/ (fl = length ts /\ kind_at ts = K_EOF).

Lemma okst_0 ts : okst 0 ts.
Proof. destruct ts; [right; split; reflexivity|left; cbn; lia]. Qed.

Lemma not_okst_suffix fl r r' : ~ okst fl r -> suffix r' r -> ~ okst fl r'.
Proof.
  intros Hn Hs Ho. pose proof (suffix_length _ _ Hs) as Hl.
  destruct (Nat.eq_dec (length r') (length r)) as [E|E].
  - apply suffix_same_length in Hs; [subst; auto|exact E].
  - apply Hn. destruct Ho as [Ho|[Ho _]]; left; lia.
Qed.

(* relation between the unlimited result r0 and the result rl under floor fl *)
Definition simc {A} (fl : nat) (r0 rl : res A) : Prop :=
  match r0 with
  | ROk a r => (okst fl r /\ rl = ROk a r) \/ (~ okst fl r /\ rl = RErr fl)
  | RErr e => rl = RErr e \/ (rl = RErr fl /\ e <= S fl)
  | RFuel => True
  end.

Record good {A} (n : nat) (M : nat -> P A) : Prop := mkGood {
  g_fuel : forall fl ts, length ts <= n -> M fl ts <> RFuel;
  g_suf : forall fl ts a r, length ts <= n -> M fl ts = ROk a r -> suffix r ts;
  g_err : forall fl ts e, length ts <= n -> M fl ts = RErr e -> e <= S (length ts);
  g_sim : forall fl ts, length ts <= n -> okst fl ts -> simc fl (M 0 ts) (M fl ts) }.

Definition strict {A} (n : nat) (M : nat -> P A) : Prop :=
  forall fl ts a r, length ts <= n -> M fl ts = ROk a r -> length r < length ts.

(* gd true: good and every successful run consumes a token *)
Definition gd {A} (s : bool) (n : nat) (M : nat -> P A) : Prop :=
  good n M /\ (s = true -> strict n M).

Lemma gd_weaken {A} n (M : nat -> P A) : gd true n M -> gd false n M.
Proof. intros [H _]. split; [exact H|discriminate]. Qed.

Lemma gd_le {A} s n m (M : nat -> P A) : gd s n M -> m <= n -> gd s m M.
Proof.
  intros [[H1 H2 H3 H4] H5] Hle. split.
  - constructor.
    + intros fl ts Hl. apply H1; lia.
    + intros fl ts a r Hl E. apply (H2 fl ts a r); [lia|exact E].
    + intros fl ts e Hl E. apply (H3 fl ts e); [lia|exact E].
    + intros fl ts Hl Ho. apply H4; [lia|exact Ho].
  - intros E fl ts a r Hl. apply (H5 E). lia.
Qed.

(* ---------- primitives ---------- *)
Lemma gd_ret {A} n (a : A) : gd false n (fun _ => ret a).
Proof.
  split; [|discriminate]. constructor; unfold ret; intros.
  - discriminate.
  - inversion H0; subst. apply suffix_refl.
  - discriminate.
  - cbn. left. split; [assumption|reflexivity].
Qed.

Lemma gd_cur n : gd false n (fun _ => cur).
Proof.
  split; [|discriminate]. constructor; unfold cur; intros.
  - discriminate.
  - inversion H0; subst. apply suffix_refl.
  - discriminate.
  - cbn. left. split; [assumption|reflexivity].
Qed.

Lemma gd_fail_here {A} s n : gd s n (fun _ => @fail_here A).
Proof.
  split; [|intros _ fl ts a r _ H; discriminate]. constructor; unfold fail_here; intros.
  - discriminate.
  - discriminate.
  - inversion H0. lia.
  - cbn. left. reflexivity.
Qed.

Lemma gd_fail_prev {A} s n : gd s n (fun _ => @fail_prev A).
Proof.
  split; [|intros _ fl ts a r _ H; discriminate]. constructor; unfold fail_prev; intros.
  - discriminate.
  - discriminate.
  - inversion H0. lia.
  - cbn. left. reflexivity.
Qed.

Lemma gd_fail_next {A} s n : gd s n (fun _ => @fail_next A).
Proof.
  split; [|intros _ fl ts a r _ H; discriminate]. constructor; unfold fail_next; intros.
  - discriminate.
  - discriminate.
  - inversion H0. lia.
  - cbn. left. reflexivity.
Qed.

Lemma gd_look n : gd false n (fun _ => look).
Proof.
  split; [|discriminate]. constructor; unfold look; intros.
  - destruct ts as [|t r]; [discriminate|]. destruct (fst t =? K_EOF)%N; [discriminate|].
    destruct (kind_at r =? K_LEXERR)%N; discriminate.
  - destruct ts as [|t r0]; [inversion H0; subst; apply suffix_refl|].
    destruct (fst t =? K_EOF)%N; [inversion H0; subst; apply suffix_refl|].
    destruct (kind_at r0 =? K_LEXERR)%N; [discriminate|]. inversion H0; subst. apply suffix_refl.
  - destruct ts as [|t r]; [discriminate|]. destruct (fst t =? K_EOF)%N; [discriminate|].
    destruct (kind_at r =? K_LEXERR)%N; [|discriminate]. inversion H0. cbn. lia.
  - destruct ts as [|t r]; [cbn; left; auto|].
    destruct (fst t =? K_EOF)%N; [cbn; left; auto|].
    destruct (kind_at r =? K_LEXERR)%N; cbn; [left; reflexivity|left; auto].
Qed.

Lemma chk_0 r : chk 0 r = if (kind_at r =? K_LEXERR)%N then RErr (length r) else ROk tt r.
Proof. reflexivity. Qed.

Lemma over_spec fl r : over fl r = true <-> (kind_at r <> K_EOF /\ length r <= fl /\ fl <> 0).
Proof.
  unfold over. destruct fl as [|fl].
  - split; [discriminate|intros (_ & _ & H); congruence].
  - rewrite andb_true_iff, negb_true_iff, N.eqb_neq, Nat.leb_le. split.
    + intros [H1 H2]. repeat split; auto.
    + intros (H1 & H2 & _). split; auto.
Qed.

Lemma gd_adv n : gd false n adv.
Proof.
  split; [|discriminate]. constructor; unfold adv, chk; intros.
  - destruct ts as [|t r]; [discriminate|]. destruct (fst t =? K_EOF)%N; [discriminate|].
    destruct (kind_at r =? K_LEXERR)%N; [discriminate|]. destruct (over fl r); discriminate.
  - destruct ts as [|t r0]; [inversion H0; subst; apply suffix_refl|].
    destruct (fst t =? K_EOF)%N eqn:Ee; [inversion H0; subst; apply suffix_refl|].
    destruct (kind_at r0 =? K_LEXERR)%N eqn:Ek; [discriminate|]. destruct (over fl r0); [discriminate|].
    inversion H0; subst. apply suffix_cons; [exact Ee|exact Ek].
  - destruct ts as [|t r]; [discriminate|]. destruct (fst t =? K_EOF)%N; [discriminate|].
    destruct (kind_at r =? K_LEXERR)%N; [inversion H0; cbn; lia|].
    destruct (over fl r); [inversion H0; cbn; lia|discriminate].
  - destruct ts as [|t r]; [cbn; left; auto|].
    destruct (fst t =? K_EOF)%N eqn:Et; [cbn; left; auto|].
    destruct (kind_at r =? K_LEXERR)%N; [cbn; left; reflexivity|].
    change (over 0 r) with false. cbv iota.
    destruct (over fl r) eqn:Eo; cbn.
    + apply over_spec in Eo as (Hk & Hl & Hfl).
      assert (length r = fl).
      { destruct H0 as [H0|[H0 H1]]; cbn in H0; [lia|].
        unfold kind_at in H1. cbn in H1. apply N.eqb_neq in Et. congruence. }
      right. split; [|congruence].
      intros [Ho|[Ho Ho']]; [lia|congruence].
    + left. split; [|reflexivity].
      destruct (N.eq_dec (kind_at r) K_EOF) as [Ek|Ek].
      * destruct H0 as [H0|[H0 H1]].
        -- cbn in H0. destruct (Nat.eq_dec fl (length r)); [right; auto|left; lia].
        -- unfold kind_at in H1. cbn in H1. apply N.eqb_neq in Et. congruence.
      * left. destruct (Nat.le_gt_cases (length r) fl) as [Hle|Hgt]; [|exact Hgt].
        destruct fl as [|fl'].
        -- destruct H0 as [H0|[H0 H1]]; cbn in H0; [|lia].
           destruct r; [exfalso; apply Ek; reflexivity|cbn; lia].
        -- exfalso. assert (over (S fl') r = true) by (apply over_spec; repeat split; auto).
           congruence.
Qed.

(* ---------- bind ---------- *)
Lemma good_bind {A B} n (M : nat -> P A) (K : A -> nat -> P B) :
  good n M -> (forall a, good n (K a)) -> good n (fun fl => bind (M fl) (fun a => K a fl)).
Proof.
  intros GM GK. constructor; unfold bind; intros.
  - destruct (M fl ts) as [a r| |] eqn:E.
    + apply (g_fuel _ _ (GK a)). apply (g_suf _ _ GM) in E; auto. apply suffix_length in E. lia.
    + discriminate.
    + exfalso. eapply (g_fuel _ _ GM); eauto.
  - destruct (M fl ts) as [a' r'| |] eqn:E; try discriminate.
    pose proof (g_suf _ _ GM _ _ _ _ H E) as S1.
    eapply suffix_trans; [|exact S1]. eapply (g_suf _ _ (GK a')); eauto.
    apply suffix_length in S1. lia.
  - destruct (M fl ts) as [a' r'| |] eqn:E; try discriminate.
    + pose proof (g_suf _ _ GM _ _ _ _ H E) as S1. apply suffix_length in S1.
      apply (g_err _ _ (GK a')) in H0; lia.
    + inversion H0; subst. eapply (g_err _ _ GM); eauto.
  - pose proof (g_sim _ _ GM fl ts H H0) as SM. unfold simc in SM.
    destruct (M 0 ts) as [a r| |] eqn:E0.
    + pose proof (g_suf _ _ GM _ _ _ _ H E0) as S1. pose proof (suffix_length _ _ S1) as L1.
      destruct SM as [[Ho ->]|[Hn ->]].
      * apply (g_sim _ _ (GK a)); [lia|exact Ho].
      * unfold simc. destruct (K a 0 r) as [b r'| |] eqn:E1.
        -- right. split; [|reflexivity]. eapply not_okst_suffix; [exact Hn|].
           eapply (g_suf _ _ (GK a)); eauto. lia.
        -- right. split; [reflexivity|].
           apply (g_err _ _ (GK a)) in E1; [|lia].
           assert (length r <= fl); [|lia].
           destruct (Nat.le_gt_cases (length r) fl); [assumption|]. exfalso. apply Hn. left. assumption.
        -- exact I.
    + cbn. destruct SM as [->|[-> Hle]]; [left; reflexivity|right; split; [reflexivity|exact Hle]].
    + exact I.
Qed.

(* bind when the first component consumes a token: the continuation only needs shorter lists *)
Lemma good_bind_strict {A B} n (M : nat -> P A) (K : A -> nat -> P B) :
  good n M -> strict n M -> (forall a m, m < n -> good m (K a)) ->
  good n (fun fl => bind (M fl) (fun a => K a fl)).
Proof.
  intros GM SM0 GK. constructor; unfold bind; intros.
  - destruct (M fl ts) as [a r| |] eqn:E.
    + pose proof (SM0 _ _ _ _ H E) as L. apply (g_fuel _ _ (GK a (length r) ltac:(lia))). lia.
    + discriminate.
    + exfalso. eapply (g_fuel _ _ GM); eauto.
  - destruct (M fl ts) as [a' r'| |] eqn:E; try discriminate.
    pose proof (g_suf _ _ GM _ _ _ _ H E) as S1. pose proof (SM0 _ _ _ _ H E) as L.
    eapply suffix_trans; [|exact S1]. eapply (g_suf _ _ (GK a' (length r') ltac:(lia))); eauto.
  - destruct (M fl ts) as [a' r'| |] eqn:E; try discriminate.
    + pose proof (SM0 _ _ _ _ H E) as L.
      apply (g_err _ _ (GK a' (length r') ltac:(lia))) in H0; lia.
    + inversion H0; subst. eapply (g_err _ _ GM); eauto.
  - pose proof (g_sim _ _ GM fl ts H H0) as SM. unfold simc in SM.
    destruct (M 0 ts) as [a r| |] eqn:E0.
    + pose proof (SM0 _ _ _ _ H E0) as L.
      assert (GKa : good (length r) (K a)) by (apply GK; lia).
      destruct SM as [[Ho ->]|[Hn ->]].
      * apply (g_sim _ _ GKa); [lia|exact Ho].
      * unfold simc. destruct (K a 0 r) as [b r'| |] eqn:E1.
        -- right. split; [|reflexivity]. eapply not_okst_suffix; [exact Hn|].
           eapply (g_suf _ _ GKa); eauto.
        -- right. split; [reflexivity|].
           apply (g_err _ _ GKa) in E1; [|lia].
           assert (length r <= fl); [|lia].
           destruct (Nat.le_gt_cases (length r) fl); [assumption|]. exfalso. apply Hn. left. assumption.
        -- exact I.
    + cbn. destruct SM as [->|[-> Hle]]; [left; reflexivity|right; split; [reflexivity|exact Hle]].
    + exact I.
Qed.

(* the three ways a bind is used *)
Lemma gd_bind_f {A B} n (M : nat -> P A) (K : A -> nat -> P B) :
  gd false n M -> (forall a, gd false n (K a)) -> gd false n (fun fl => bind (M fl) (fun a => K a fl)).
Proof.
  intros [GM _] GK. split; [|discriminate]. apply good_bind; [exact GM|intros a; apply GK].
Qed.

Lemma gd_bind_l {A B} s n (M : nat -> P A) (K : A -> nat -> P B) :
  gd true n M -> (forall a m, m < n -> gd false m (K a)) ->
  gd s n (fun fl => bind (M fl) (fun a => K a fl)).
Proof.
  intros [GM SM] GK. specialize (SM eq_refl). split.
  - apply good_bind_strict; auto. intros a m Hm. apply GK. exact Hm.
  - intros _ fl ts b r Hl. unfold bind. destruct (M fl ts) as [a r1| |] eqn:E; try discriminate.
    intros E2. pose proof (SM _ _ _ _ Hl E) as L.
    destruct (GK a (length r1) ltac:(lia)) as [GKa _].
    apply (g_suf _ _ GKa) in E2; [|lia]. apply suffix_length in E2. lia.
Qed.

Lemma gd_bind_r {A B} n (M : nat -> P A) (K : A -> nat -> P B) :
  gd false n M -> (forall a, gd true n (K a)) -> gd true n (fun fl => bind (M fl) (fun a => K a fl)).
Proof.
  intros [GM _] GK. split.
  - apply good_bind; [exact GM|intros a; apply GK].
  - intros _ fl ts b r Hl. unfold bind. destruct (M fl ts) as [a r1| |] eqn:E; try discriminate.
    intros E2. apply (g_suf _ _ GM) in E; [|exact Hl]. apply suffix_length in E.
    destruct (GK a) as [_ SK]. apply (SK eq_refl) in E2; lia.
Qed.

Lemma gd_with_fuel {A} s (G : nat -> nat -> P A) n :
  (forall f m, m < f -> m <= n -> gd s m (fun fl => G fl f)) -> gd s n (fun fl => with_fuel (G fl)).
Proof.
  intros H. unfold with_fuel. split.
  - constructor.
    + intros fl ts Hl.
      destruct (H (S (length ts)) (length ts) ltac:(lia) Hl) as [Gd _]. apply (g_fuel _ _ Gd). lia.
    + intros fl ts a r Hl E.
      destruct (H (S (length ts)) (length ts) ltac:(lia) Hl) as [Gd _]. eapply (g_suf _ _ Gd); eauto.
    + intros fl ts e Hl E.
      destruct (H (S (length ts)) (length ts) ltac:(lia) Hl) as [Gd _]. eapply (g_err _ _ Gd); eauto.
    + intros fl ts Hl Ho.
      destruct (H (S (length ts)) (length ts) ltac:(lia) Hl) as [Gd _]. apply (g_sim _ _ Gd); auto.
  - intros Es fl ts a r Hl E.
    destruct (H (S (length ts)) (length ts) ltac:(lia) Hl) as [_ St]. eapply (St Es); eauto.
Qed.

(* ---------- token expectations ---------- *)
Lemma adv_strict fl t r a r' : (fst t =? K_EOF)%N = false -> adv fl (t :: r) = ROk a r' -> r' = r.
Proof.
  unfold adv, chk. intros ->. destruct (kind_at r =? K_LEXERR)%N; [discriminate|].
  destruct (over fl r); [discriminate|]. intros H; inversion H; reflexivity.
Qed.

Lemma gd_expect_token k n : gd false n (fun fl => expect_token fl k).
Proof.
  unfold expect_token. apply gd_bind_f; [apply gd_cur|]. intros t.
  destruct (fst t =? k)%N; [|apply gd_fail_here].
  apply gd_bind_f; [apply gd_adv|intros _; apply gd_ret].
Qed.

Lemma strict_expect_token k n : k <> K_EOF -> strict n (fun fl => expect_token fl k).
Proof.
  intros Hk fl ts a r _. unfold expect_token, bind, cur.
  destruct ts as [|t ts']; cbn [tok_at].
  - change (fst eof_tok) with K_EOF. destruct (K_EOF =? k)%N eqn:E; [apply N.eqb_eq in E; congruence|discriminate].
  - destruct (fst t =? k)%N eqn:E; [|discriminate]. apply N.eqb_eq in E.
    destruct (adv fl (t :: ts')) as [u r1| |] eqn:Ea; try discriminate.
    apply adv_strict in Ea; [|apply N.eqb_neq; congruence]. subst r1.
    unfold ret. intros H; inversion H; subst. cbn. lia.
Qed.

Lemma gd_expect_token_s k n : k <> K_EOF -> gd true n (fun fl => expect_token fl k).
Proof.
  intros Hk. split; [apply gd_expect_token|intros _; apply strict_expect_token; exact Hk].
Qed.

Lemma gd_expect_optional_token k n : gd false n (fun fl => expect_optional_token fl k).
Proof.
  unfold expect_optional_token. apply gd_bind_f; [apply gd_cur|]. intros t.
  destruct (fst t =? k)%N; [|apply gd_ret].
  apply gd_bind_f; [apply gd_adv|intros _; apply gd_ret].
Qed.

Lemma gd_expect_keyword w n : gd true n (fun fl => expect_keyword fl w).
Proof.
  split.
  - unfold expect_keyword. apply gd_bind_f; [apply gd_cur|]. intros t.
    destruct (is_keyword t w); [apply gd_adv|apply gd_fail_here].
  - intros _ fl ts a r _. unfold expect_keyword, bind, cur.
    destruct ts as [|t ts']; cbn [tok_at].
    + cbn. discriminate.
    + unfold is_keyword. destruct (fst t =? K_NAME)%N eqn:E; [|discriminate].
      destruct (seqb (snd t) w); [|discriminate]. cbn [andb].
      intros Ea. apply adv_strict in Ea.
      * subst. cbn. lia.
      * apply N.eqb_eq in E. rewrite E. reflexivity.
Qed.

Lemma gd_expect_optional_keyword w n : gd false n (fun fl => expect_optional_keyword fl w).
Proof.
  unfold expect_optional_keyword. apply gd_bind_f; [apply gd_cur|]. intros t.
  destruct (is_keyword t w); [|apply gd_ret].
  apply gd_bind_f; [apply gd_adv|intros _; apply gd_ret].
Qed.

Lemma neq_eof_dec (k : N) : (k =? K_EOF)%N = false -> k <> K_EOF.
Proof. intros H. apply N.eqb_neq. exact H. Qed.

Create HintDb gd.
#[export] Hint Resolve gd_ret gd_cur gd_look gd_adv gd_fail_here gd_fail_prev gd_fail_next
  gd_expect_token gd_expect_optional_token gd_expect_keyword gd_expect_optional_keyword : gd.
#[export] Hint Extern 1 (gd true _ (fun fl => expect_token fl _)) =>
  (apply gd_expect_token_s; apply neq_eof_dec; reflexivity) : gd.
#[export] Hint Resolve gd_weaken | 5 : gd.

(* one step of the structural proof of [gd s n M] *)
Ltac gd_leaf := solve [eauto 3 with gd].
Ltac gd_step :=
  lazymatch goal with
  | |- forall _, _ => intro
  | |- gd _ _ (fun fl => if ?b then _ else _) => destruct b
  | |- gd _ _ (fun fl => match ?o with Some _ => _ | None => _ end) => destruct o
  | |- gd true _ (fun fl => bind _ _) =>
    first [ gd_leaf
          | apply gd_bind_l; [gd_leaf|intros ? ? ?]
          | apply gd_bind_r ]
  | |- gd false _ (fun fl => bind _ _) =>
    first [ gd_leaf | apply gd_bind_f ]
  | |- _ => gd_leaf
  end.
Ltac gd_tac := cbv zeta; repeat gd_step.

(* ---------- loops ---------- *)
Lemma gd_until_close close (Pf : nat -> P node) :
  forall f n, n < f -> gd true n Pf -> gd false n (fun fl => until_close fl f close (Pf fl)).
Proof.
  induction f as [|f IH]; intros n Hn GP; [lia|].
  cbn [until_close]. apply gd_bind_f; [apply gd_expect_optional_token|].
  intros b. destruct b; [apply gd_ret|].
  apply gd_bind_l; [exact GP|]. intros x m Hm.
  apply gd_bind_f; [|intros; apply gd_ret].
  apply IH; [lia|]. eapply gd_le; [exact GP|lia].
Qed.

Lemma gd_loop_close close (Pf : nat -> P node) n :
  (forall m, m <= n -> gd true m Pf) -> gd false n (fun fl => loop_close fl close (Pf fl)).
Proof.
  intros GP. unfold loop_close.
  apply (gd_with_fuel false (fun fl f => until_close fl f close (Pf fl))).
  intros f m Hm Hn. apply gd_until_close; [exact Hm|apply GP; exact Hn].
Qed.

Ltac gd_hyp :=
  match goal with
  | H : forall m, m < _ -> gd ?s m ?S |- gd ?s _ ?S => apply H; lia
  | H : forall m, m <= _ -> gd ?s m ?S |- gd ?s _ ?S => apply H; lia
  | H : forall m, m < _ -> gd true m ?S |- gd false _ ?S => apply gd_weaken; apply H; lia
  | H : forall m, m <= _ -> gd true m ?S |- gd false _ ?S => apply gd_weaken; apply H; lia
  | H : gd ?s ?n ?S |- gd ?s ?m ?S => apply (gd_le s n m S H); lia
  end.
Ltac gd_leaf ::= solve [eauto 4 with gd | gd_hyp].

Lemma gd_any open close (Pf : nat -> P node) n :
  open <> K_EOF -> (forall m, m < n -> gd true m Pf) ->
  gd true n (fun fl => any_ fl open (Pf fl) close).
Proof.
  intros Ho GP. unfold any_. apply gd_bind_l; [apply gd_expect_token_s; exact Ho|].
  intros _ m Hm. apply gd_loop_close. intros m' Hm'. apply GP. lia.
Qed.

Lemma gd_many open close (Pf : nat -> P node) n :
  open <> K_EOF -> (forall m, m < n -> gd true m Pf) ->
  gd true n (fun fl => many fl open (Pf fl) close).
Proof.
  intros Ho GP. unfold many. apply gd_bind_l; [apply gd_expect_token_s; exact Ho|].
  intros _ m Hm. apply gd_bind_f; [apply gd_weaken; apply GP; exact Hm|]. intros x.
  apply gd_bind_f; [|intros; apply gd_ret].
  apply gd_loop_close. intros m' Hm'. apply GP. lia.
Qed.

Lemma gd_optional_many open close (Pf : nat -> P node) n :
  (forall m, m <= n -> gd true m Pf) ->
  gd false n (fun fl => optional_many fl open (Pf fl) close).
Proof.
  intros GP. unfold optional_many. apply gd_bind_f; [apply gd_expect_optional_token|].
  intros b. destruct b; [|apply gd_ret].
  apply gd_bind_f; [apply gd_weaken; apply GP; lia|]. intros x.
  apply gd_bind_f; [|intros; apply gd_ret].
  apply gd_loop_close. exact GP.
Qed.

Lemma gd_delim_loop delim (Pf : nat -> P node) :
  forall f n, n < f -> (forall m, m <= n -> gd true m Pf) ->
  gd true n (fun fl => delim_loop fl f delim (Pf fl)).
Proof.
  induction f as [|f IH]; intros n Hn GP; [lia|].
  cbn [delim_loop]. apply gd_bind_l; [apply GP; lia|]. intros x m Hm.
  apply gd_bind_f; [apply gd_expect_optional_token|]. intros b. destruct b; [|apply gd_ret].
  apply gd_bind_f; [|intros; apply gd_ret].
  apply gd_weaken. apply IH; [lia|]. intros m' Hm'. apply GP. lia.
Qed.

Lemma gd_delimited_many delim (Pf : nat -> P node) n :
  (forall m, m <= n -> gd true m Pf) ->
  gd true n (fun fl => delimited_many fl delim (Pf fl)).
Proof.
  intros GP. unfold delimited_many. apply gd_bind_r; [apply gd_expect_optional_token|]. intros _.
  apply (gd_with_fuel true (fun fl f => delim_loop fl f delim (Pf fl))).
  intros f m Hm Hn. apply gd_delim_loop; [exact Hm|]. intros m' Hm'. apply GP. lia.
Qed.

Lemma gd_while_peek k (Pf : nat -> P node) :
  forall f n, n < f -> (forall m, m <= n -> gd true m Pf) ->
  gd false n (fun fl => while_peek f k (Pf fl)).
Proof.
  induction f as [|f IH]; intros n Hn GP; [lia|].
  cbn [while_peek]. apply gd_bind_f; [apply gd_cur|]. intros t.
  destruct (fst t =? k)%N; [|apply gd_ret].
  apply gd_bind_l; [apply GP; lia|]. intros x m Hm.
  apply gd_bind_f; [|intros; apply gd_ret].
  apply IH; [lia|]. intros m' Hm'. apply GP. lia.
Qed.

#[export] Hint Extern 2 (gd _ _ (fun fl => optional_many fl _ _ _)) =>
  (apply gd_optional_many; intros ? ?) : gd.
#[export] Hint Extern 2 (gd true _ (fun fl => delimited_many fl _ _)) =>
  (apply gd_delimited_many; intros ? ?) : gd.
#[export] Hint Extern 2 (gd true _ (fun fl => many fl _ _ _)) =>
  (apply gd_many; [apply neq_eof_dec; reflexivity|intros ? ?]) : gd.
#[export] Hint Extern 2 (gd true _ (fun fl => any_ fl _ _ _)) =>
  (apply gd_any; [apply neq_eof_dec; reflexivity|intros ? ?]) : gd.

(* ---------- names, values, types ---------- *)
Lemma gd_name n : gd true n (fun fl => name fl).
Proof. unfold name. gd_tac. Qed.
#[export] Hint Resolve gd_name : gd.

Lemma gd_variable n : gd true n (fun fl => variable fl).
Proof. unfold variable. gd_tac. Qed.
#[export] Hint Resolve gd_variable : gd.

Lemma gd_named_type n : gd true n (fun fl => named_type fl).
Proof. unfold named_type. gd_tac. Qed.
#[export] Hint Resolve gd_named_type : gd.

Lemma gd_object_field (PV : nat -> P node) n :
  (forall m, m < n -> gd false m PV) -> gd true n (fun fl => object_field fl (PV fl)).
Proof. intros H. unfold object_field. gd_tac. Qed.

Lemma gd_value c : forall f n, n < f -> gd true n (fun fl => value fl f c).
Proof.
  induction f as [|f IH]; intros n Hn; [lia|].
  cbn [value]. cbv zeta. apply gd_bind_r; [apply gd_cur|]. intros t.
  repeat match goal with |- gd _ _ (fun fl => if ?b then _ else _) => destruct b end.
  - apply gd_bind_l; [|intros; apply gd_ret].
    apply gd_any; [discriminate|]. intros m Hm. apply IH. lia.
  - apply gd_bind_l; [|intros; apply gd_ret].
    apply gd_any; [discriminate|]. intros m Hm. apply gd_object_field.
    intros m' Hm'. apply gd_weaken. apply IH. lia.
  - gd_tac.
  - gd_tac.
  - gd_tac.
  - gd_tac.
  - gd_tac.
  - gd_tac.
  - gd_tac.
  - gd_tac.
Qed.

Lemma gd_value_literal c n : gd true n (fun fl => value_literal fl c).
Proof.
  unfold value_literal. apply (gd_with_fuel true (fun fl f => value fl f c)).
  intros f m Hm _. apply gd_value. exact Hm.
Qed.
#[export] Hint Resolve gd_value_literal : gd.

Lemma gd_string_literal n : gd false n (fun fl => string_literal fl).
Proof. unfold string_literal. gd_tac. Qed.
#[export] Hint Resolve gd_string_literal : gd.

Lemma gd_description n : gd false n (fun fl => description fl).
Proof. unfold description. gd_tac. Qed.
#[export] Hint Resolve gd_description : gd.

(* bind whose continuation is good at the length that actually remains *)
Lemma good_bind_gen {A B} n (M : nat -> P A) (K : A -> nat -> P B) :
  good n M ->
  (forall fl ts a r, length ts <= n -> M fl ts = ROk a r -> good (length r) (K a)) ->
  good n (fun fl => bind (M fl) (fun a => K a fl)).
Proof.
  intros GM GK. constructor; unfold bind.
  - intros fl ts Hl. destruct (M fl ts) as [a r| |] eqn:E.
    + apply (g_fuel _ _ (GK _ _ _ _ Hl E)). lia.
    + discriminate.
    + exfalso. eapply (g_fuel _ _ GM); eauto.
  - intros fl ts b r Hl. destruct (M fl ts) as [a' r'| |] eqn:E; try discriminate. intros E2.
    pose proof (g_suf _ _ GM _ _ _ _ Hl E) as S1.
    eapply suffix_trans; [|exact S1]. eapply (g_suf _ _ (GK _ _ _ _ Hl E)); eauto.
  - intros fl ts e Hl. destruct (M fl ts) as [a' r'| |] eqn:E; try discriminate.
    + intros E2. pose proof (g_suf _ _ GM _ _ _ _ Hl E) as S1. apply suffix_length in S1.
      apply (g_err _ _ (GK _ _ _ _ Hl E)) in E2; lia.
    + intros E2. inversion E2; subst. eapply (g_err _ _ GM); eauto.
  - intros fl ts Hl Ho. pose proof (g_sim _ _ GM fl ts Hl Ho) as SM. unfold simc in SM.
    destruct (M 0 ts) as [a r| |] eqn:E0.
    + pose proof (GK _ _ _ _ Hl E0) as GKa.
      destruct SM as [[Ho' ->]|[Hn ->]].
      * apply (g_sim _ _ GKa); [lia|exact Ho'].
      * unfold simc. destruct (K a 0 r) as [b r'| |] eqn:E1.
        -- right. split; [|reflexivity]. eapply not_okst_suffix; [exact Hn|].
           eapply (g_suf _ _ GKa); eauto.
        -- right. split; [reflexivity|].
           apply (g_err _ _ GKa) in E1; [|lia].
           assert (length r <= fl); [|lia].
           destruct (Nat.le_gt_cases (length r) fl); [assumption|]. exfalso. apply Hn. left. assumption.
        -- exact I.
    + cbn. destruct SM as [->|[-> Hle]]; [left; reflexivity|right; split; [reflexivity|exact Hle]].
    + exact I.
Qed.

Lemma eot_true fl k ts r : k <> K_EOF -> expect_optional_token fl k ts = ROk true r -> length r < length ts.
Proof.
  intros Hk. unfold expect_optional_token, bind, cur.
  destruct ts as [|t ts']; cbn [tok_at].
  - change (fst eof_tok) with K_EOF. destruct (K_EOF =? k)%N eqn:E; [apply N.eqb_eq in E; congruence|].
    unfold ret. discriminate.
  - destruct (fst t =? k)%N eqn:E; [|unfold ret; discriminate]. apply N.eqb_eq in E.
    destruct (adv fl (t :: ts')) as [u r1| |] eqn:Ea; try discriminate.
    apply adv_strict in Ea; [|apply N.eqb_neq; congruence]. subst r1.
    unfold ret. intros H; inversion H; subst. cbn. lia.
Qed.

(* expect_optional_token: the `true` continuation runs on a shorter list *)
Lemma gd_bind_opt {B} s k n (K : bool -> nat -> P B) :
  k <> K_EOF -> (forall m, m < n -> gd s m (K true)) -> gd s n (K false) ->
  gd s n (fun fl => bind (expect_optional_token fl k) (fun b => K b fl)).
Proof.
  intros Hk GT GF.
  assert (GK : forall fl ts a r, length ts <= n -> expect_optional_token fl k ts = ROk a r ->
                                 gd s (length r) (K a)).
  { intros fl ts a r Hl E. destruct a.
    - apply GT. apply eot_true in E; [lia|exact Hk].
    - destruct (gd_expect_optional_token k n) as [G _]. apply (g_suf _ _ G) in E; [|exact Hl].
      apply suffix_length in E. eapply gd_le; [exact GF|lia]. }
  split.
  - apply good_bind_gen; [apply gd_expect_optional_token|].
    intros fl ts a r Hl E. apply (GK fl ts a r Hl E).
  - intros Es fl ts b r Hl. unfold bind.
    destruct (expect_optional_token fl k ts) as [a r1| |] eqn:E; try discriminate. intros E2.
    pose proof (GK _ _ _ _ Hl E) as [Ga Sa].
    destruct (gd_expect_optional_token k n) as [G _]. pose proof (g_suf _ _ G _ _ _ _ Hl E) as S1.
    apply suffix_length in S1.
    apply (Sa Es) in E2; lia.
Qed.

Lemma gd_type_ref : forall f n, n < f -> gd true n (fun fl => type_ref fl f).
Proof.
  induction f as [|f IH]; intros n Hn; [lia|].
  cbn [type_ref].
  apply (gd_bind_opt true K_BRACKET_L n
           (fun b fl => t <- (if b then i <- type_ref fl f ;; expect_token fl K_BRACKET_R ;;; ret (Nd KListType [ANode i])
                              else named_type fl) ;;
                        bang <- expect_optional_token fl K_BANG ;;
                        ret (if bang then Nd KNonNullType [ANode t] else t))); [discriminate| |].
  - intros m Hm. apply gd_bind_l; [|intros; gd_tac].
    apply gd_bind_l; [apply IH; lia|]. intros; gd_tac.
  - gd_tac.
Qed.

Lemma gd_type_reference n : gd true n (fun fl => type_reference fl).
Proof.
  unfold type_reference. apply (gd_with_fuel true (fun fl f => type_ref fl f)).
  intros f m Hm _. apply gd_type_ref. exact Hm.
Qed.
#[export] Hint Resolve gd_type_reference : gd.

(* ---------- arguments, directives ---------- *)
Lemma gd_argument c n : gd true n (fun fl => argument fl c).
Proof. unfold argument. gd_tac. Qed.
#[export] Hint Resolve gd_argument : gd.
Lemma gd_arguments c n : gd false n (fun fl => arguments fl c).
Proof. unfold arguments. gd_tac. Qed.
#[export] Hint Resolve gd_arguments : gd.
Lemma gd_fragment_argument n : gd true n (fun fl => fragment_argument fl).
Proof. unfold fragment_argument. gd_tac. Qed.
#[export] Hint Resolve gd_fragment_argument : gd.
Lemma gd_fragment_arguments n : gd false n (fun fl => fragment_arguments fl).
Proof. unfold fragment_arguments. gd_tac. Qed.
#[export] Hint Resolve gd_fragment_arguments : gd.
Lemma gd_directive c n : gd true n (fun fl => directive fl c).
Proof. unfold directive. gd_tac. Qed.
#[export] Hint Resolve gd_directive : gd.
Lemma gd_directives c n : gd false n (fun fl => directives fl c).
Proof.
  unfold directives. apply gd_bind_f; [|intros; apply gd_ret].
  apply (gd_with_fuel false (fun fl f => while_peek f K_AT (directive fl c))).
  intros f m Hm _. apply gd_while_peek; [exact Hm|]. intros; apply gd_directive.
Qed.
#[export] Hint Resolve gd_directives : gd.

(* ---------- selection sets ---------- *)
Lemma gd_fragment_name n : gd true n (fun fl => fragment_name fl).
Proof. unfold fragment_name. gd_tac. Qed.
#[export] Hint Resolve gd_fragment_name : gd.

Lemma gd_field (SS : nat -> P node) n :
  (forall m, m < n -> gd false m SS) -> gd true n (fun fl => field fl (SS fl)).
Proof. intros H. unfold field. gd_tac. Qed.

Lemma gd_fragment xfa (SS : nat -> P node) n :
  (forall m, m < n -> gd false m SS) -> gd true n (fun fl => fragment fl xfa (SS fl)).
Proof. intros H. unfold fragment. gd_tac. Qed.

Lemma gd_selection xfa (SS : nat -> P node) n :
  (forall m, m < n -> gd false m SS) -> gd true n (fun fl => selection fl xfa (SS fl)).
Proof.
  intros H. unfold selection. apply gd_bind_r; [apply gd_cur|]. intros t.
  destruct (fst t =? K_SPREAD)%N; [apply gd_fragment|apply gd_field]; exact H.
Qed.

Lemma gd_sel_set xfa : forall f n, n < f -> gd true n (fun fl => sel_set fl xfa f).
Proof.
  induction f as [|f IH]; intros n Hn; [lia|].
  cbn [sel_set]. apply gd_bind_l; [|intros; apply gd_ret].
  apply gd_many; [discriminate|]. intros m Hm. apply gd_selection.
  intros m' Hm'. apply gd_weaken. apply IH. lia.
Qed.

Lemma gd_selection_set xfa n : gd true n (fun fl => selection_set fl xfa).
Proof.
  unfold selection_set. apply (gd_with_fuel true (fun fl f => sel_set fl xfa f)).
  intros f m Hm _. apply gd_sel_set. exact Hm.
Qed.
#[export] Hint Resolve gd_selection_set : gd.

(* ---------- operations, fragments ---------- *)
Lemma gd_variable_definition n : gd true n (fun fl => variable_definition fl).
Proof. unfold variable_definition. gd_tac. Qed.
#[export] Hint Resolve gd_variable_definition : gd.
Lemma gd_variable_definitions n : gd false n (fun fl => variable_definitions fl).
Proof. unfold variable_definitions. gd_tac. Qed.
#[export] Hint Resolve gd_variable_definitions : gd.
Lemma gd_operation_type n : gd true n (fun fl => operation_type fl).
Proof. unfold operation_type. gd_tac. Qed.
#[export] Hint Resolve gd_operation_type : gd.
Lemma gd_operation_definition xfa n : gd true n (fun fl => operation_definition fl xfa).
Proof. unfold operation_definition. gd_tac. Qed.
#[export] Hint Resolve gd_operation_definition : gd.
Lemma gd_type_condition n : gd true n (fun fl => type_condition fl).
Proof. unfold type_condition. gd_tac. Qed.
#[export] Hint Resolve gd_type_condition : gd.
Lemma gd_fragment_definition xfa n : gd true n (fun fl => fragment_definition fl xfa).
Proof. unfold fragment_definition. gd_tac. Qed.
#[export] Hint Resolve gd_fragment_definition : gd.

(* ---------- type system ---------- *)
Lemma gd_operation_type_definition n : gd true n (fun fl => operation_type_definition fl).
Proof. unfold operation_type_definition. gd_tac. Qed.
#[export] Hint Resolve gd_operation_type_definition : gd.
Lemma gd_schema_definition n : gd true n (fun fl => schema_definition fl).
Proof. unfold schema_definition. gd_tac. Qed.
#[export] Hint Resolve gd_schema_definition : gd.
Lemma gd_scalar_type_definition n : gd true n (fun fl => scalar_type_definition fl).
Proof. unfold scalar_type_definition. gd_tac. Qed.
#[export] Hint Resolve gd_scalar_type_definition : gd.
Lemma gd_implements_interfaces n : gd false n (fun fl => implements_interfaces fl).
Proof. unfold implements_interfaces. gd_tac. Qed.
#[export] Hint Resolve gd_implements_interfaces : gd.
Lemma gd_input_value_def n : gd true n (fun fl => input_value_def fl).
Proof. unfold input_value_def. gd_tac. Qed.
#[export] Hint Resolve gd_input_value_def : gd.
Lemma gd_argument_defs n : gd false n (fun fl => argument_defs fl).
Proof. unfold argument_defs. gd_tac. Qed.
#[export] Hint Resolve gd_argument_defs : gd.
Lemma gd_input_fields_definition n : gd false n (fun fl => input_fields_definition fl).
Proof. unfold input_fields_definition. gd_tac. Qed.
#[export] Hint Resolve gd_input_fields_definition : gd.
Lemma gd_field_definition n : gd true n (fun fl => field_definition fl).
Proof. unfold field_definition. gd_tac. Qed.
#[export] Hint Resolve gd_field_definition : gd.
Lemma gd_fields_definition n : gd false n (fun fl => fields_definition fl).
Proof. unfold fields_definition. gd_tac. Qed.
#[export] Hint Resolve gd_fields_definition : gd.
Lemma gd_object_type_definition n : gd true n (fun fl => object_type_definition fl).
Proof. unfold object_type_definition. gd_tac. Qed.
#[export] Hint Resolve gd_object_type_definition : gd.
Lemma gd_interface_type_definition n : gd true n (fun fl => interface_type_definition fl).
Proof. unfold interface_type_definition. gd_tac. Qed.
#[export] Hint Resolve gd_interface_type_definition : gd.
Lemma gd_union_member_types n : gd false n (fun fl => union_member_types fl).
Proof. unfold union_member_types. gd_tac. Qed.
#[export] Hint Resolve gd_union_member_types : gd.
Lemma gd_union_type_definition n : gd true n (fun fl => union_type_definition fl).
Proof. unfold union_type_definition. gd_tac. Qed.
#[export] Hint Resolve gd_union_type_definition : gd.
Lemma gd_enum_value_name n : gd true n (fun fl => enum_value_name fl).
Proof. unfold enum_value_name. gd_tac. Qed.
#[export] Hint Resolve gd_enum_value_name : gd.
Lemma gd_enum_value_definition n : gd true n (fun fl => enum_value_definition fl).
Proof. unfold enum_value_definition. gd_tac. Qed.
#[export] Hint Resolve gd_enum_value_definition : gd.
Lemma gd_enum_values_definition n : gd false n (fun fl => enum_values_definition fl).
Proof. unfold enum_values_definition. gd_tac. Qed.
#[export] Hint Resolve gd_enum_values_definition : gd.
Lemma gd_enum_type_definition n : gd true n (fun fl => enum_type_definition fl).
Proof. unfold enum_type_definition. gd_tac. Qed.
#[export] Hint Resolve gd_enum_type_definition : gd.
Lemma gd_input_object_type_definition n : gd true n (fun fl => input_object_type_definition fl).
Proof. unfold input_object_type_definition. gd_tac. Qed.
#[export] Hint Resolve gd_input_object_type_definition : gd.
Lemma gd_directive_location n : gd true n (fun fl => directive_location fl).
Proof. unfold directive_location. gd_tac. Qed.
#[export] Hint Resolve gd_directive_location : gd.
Lemma gd_directive_definition xdd n : gd true n (fun fl => directive_definition fl xdd).
Proof. unfold directive_definition. gd_tac. Qed.
#[export] Hint Resolve gd_directive_definition : gd.

(* ---------- extensions ---------- *)
Lemma gd_schema_extension n : gd true n (fun fl => schema_extension fl).
Proof. unfold schema_extension. gd_tac. Qed.
#[export] Hint Resolve gd_schema_extension : gd.
Lemma gd_scalar_type_extension n : gd true n (fun fl => scalar_type_extension fl).
Proof. unfold scalar_type_extension. gd_tac. Qed.
#[export] Hint Resolve gd_scalar_type_extension : gd.
Lemma gd_object_type_extension n : gd true n (fun fl => object_type_extension fl).
Proof. unfold object_type_extension. gd_tac. Qed.
#[export] Hint Resolve gd_object_type_extension : gd.
Lemma gd_interface_type_extension n : gd true n (fun fl => interface_type_extension fl).
Proof. unfold interface_type_extension. gd_tac. Qed.
#[export] Hint Resolve gd_interface_type_extension : gd.
Lemma gd_union_type_extension n : gd true n (fun fl => union_type_extension fl).
Proof. unfold union_type_extension. gd_tac. Qed.
#[export] Hint Resolve gd_union_type_extension : gd.
Lemma gd_enum_type_extension n : gd true n (fun fl => enum_type_extension fl).
Proof. unfold enum_type_extension. gd_tac. Qed.
#[export] Hint Resolve gd_enum_type_extension : gd.
Lemma gd_input_object_type_extension n : gd true n (fun fl => input_object_type_extension fl).
Proof. unfold input_object_type_extension. gd_tac. Qed.
#[export] Hint Resolve gd_input_object_type_extension : gd.
Lemma gd_directive_definition_extension n : gd true n (fun fl => directive_definition_extension fl).
Proof. unfold directive_definition_extension. gd_tac. Qed.
#[export] Hint Resolve gd_directive_definition_extension : gd.
Lemma gd_type_system_extension xdd n : gd true n (fun fl => type_system_extension fl xdd).
Proof. unfold type_system_extension. gd_tac. Qed.
#[export] Hint Resolve gd_type_system_extension : gd.

(* ---------- definitions, entry points ---------- *)
Lemma gd_definition xfa xdd n : gd true n (fun fl => definition fl xfa xdd).
Proof. unfold definition. gd_tac. Qed.
#[export] Hint Resolve gd_definition : gd.
Lemma gd_document xfa xdd n : gd true n (fun fl => document fl xfa xdd).
Proof. unfold document. gd_tac. Qed.
Lemma gd_value_entry c n : gd true n (fun fl => value_entry fl c).
Proof. unfold value_entry, enter. gd_tac. Qed.
Lemma gd_type_entry n : gd true n (fun fl => type_entry fl).
Proof. unfold type_entry, enter. gd_tac. Qed.
Lemma gd_schema_coordinate n : gd true n (fun fl => schema_coordinate fl).
Proof. unfold schema_coordinate. gd_tac. Qed.
#[export] Hint Resolve gd_schema_coordinate : gd.
Lemma gd_coordinate_entry n : gd true n (fun fl => coordinate_entry fl).
Proof. unfold coordinate_entry, enter. gd_tac. Qed.

Theorem gd_core e xfa xdd n : gd true n (fun fl => core e fl xfa xdd).
Proof.
  destruct e; cbn [core].
  - apply gd_document.
  - apply gd_value_entry.
  - apply gd_value_entry.
  - apply gd_type_entry.
  - apply gd_coordinate_entry.
Qed.

(* ================= consequences for the entry points ================= *)

(* a successful entry point stops on the EOF token *)
Lemma adv_eof_state fl ts u r : kind_at ts = K_EOF -> adv fl ts = ROk u r -> r = ts.
Proof.
  unfold adv. destruct ts as [|t ts']; [intros _ H; inversion H; reflexivity|].
  unfold kind_at. cbn [tok_at]. intros ->. cbn. intros H; inversion H; reflexivity.
Qed.

Lemma expect_eof_state {A} fl (v : A) ts a r :
  (expect_token fl K_EOF ;;; ret v) ts = ROk a r -> kind_at r = K_EOF.
Proof.
  unfold expect_token, bind, cur, ret.
  destruct (fst (tok_at ts) =? K_EOF)%N eqn:E; [|discriminate].
  apply N.eqb_eq in E.
  destruct (adv fl ts) as [u r1| |] eqn:Ea; try discriminate.
  apply adv_eof_state in Ea; [|exact E]. subst r1. intros H; inversion H; subst. exact E.
Qed.

Lemma eot_eof_state fl ts r : expect_optional_token fl K_EOF ts = ROk true r -> kind_at r = K_EOF.
Proof.
  unfold expect_optional_token, bind, cur, ret.
  destruct (fst (tok_at ts) =? K_EOF)%N eqn:E; [|discriminate].
  apply N.eqb_eq in E.
  destruct (adv fl ts) as [u r1| |] eqn:Ea; try discriminate.
  apply adv_eof_state in Ea; [|exact E]. subst r1. intros H; inversion H; subst. exact E.
Qed.

Lemma until_close_eof_state fl (p : P node) : forall f ts l r,
  until_close fl f K_EOF p ts = ROk l r -> kind_at r = K_EOF.
Proof.
  induction f as [|f IH]; intros ts l r; [discriminate|].
  cbn [until_close]. unfold bind at 1.
  destruct (expect_optional_token fl K_EOF ts) as [b r1| |] eqn:E; try discriminate.
  destruct b.
  - apply eot_eof_state in E. unfold ret. intros H; inversion H; subst. exact E.
  - unfold bind at 1. destruct (p r1) as [x r2| |]; try discriminate.
    unfold bind at 1. destruct (until_close fl f K_EOF p r2) as [xs r3| |] eqn:E3; try discriminate.
    unfold ret. intros H; inversion H; subst. eapply IH; eauto.
Qed.

Lemma core_eof_state e fl xfa xdd ts d r : core e fl xfa xdd ts = ROk d r -> kind_at r = K_EOF.
Proof.
  assert (V : forall (M : P node) ts d r,
             (enter fl ;;; v <- M ;; expect_token fl K_EOF ;;; ret v) ts = ROk d r -> kind_at r = K_EOF).
  { intros M ts0 d0 r0. unfold bind at 1. destruct (enter fl ts0) as [u r1| |]; try discriminate.
    unfold bind at 1. destruct (M r1) as [v r2| |]; try discriminate.
    apply expect_eof_state. }
  destruct e; cbn [core].
  - unfold document. unfold bind at 1.
    destruct (many fl K_SOF (definition fl xfa xdd) K_EOF ts) as [l r1| |] eqn:E; try discriminate.
    unfold ret. intros H; inversion H; subst. clear H. revert E.
    unfold many, loop_close, with_fuel.
    unfold bind at 1. destruct (expect_token fl K_SOF ts) as [u r2| |]; try discriminate.
    unfold bind at 1. destruct (definition fl xfa xdd r2) as [x r3| |]; try discriminate.
    unfold bind at 1.
    destruct (until_close fl (S (length r3)) K_EOF (definition fl xfa xdd) r3) as [xs r4| |] eqn:E4; try discriminate.
    unfold ret. intros H; inversion H; subst. eapply until_close_eof_state; eauto.
  - apply V.
  - apply V.
  - apply V.
  - apply V.
Qed.

Definition with_max (o : options) (m : option nat) : options :=
  mkOpts m (exp_fragment_arguments o) (exp_directives_on_directive_definitions o).

(* (a) fuel: S (number of tokens) is always enough, for every token list *)
Theorem parse_entry_total e o ts :
  (exists d c, parse_entry e o ts = Ok (d, c)) \/ (exists p, parse_entry e o ts = SyntaxErr p).
Proof.
  unfold parse_entry.
  destruct (gd_core e (exp_fragment_arguments o) (exp_directives_on_directive_definitions o)
                    (length (sof_tok :: map sig ts))) as [G _].
  pose proof (g_fuel _ _ G (floor_of o (length (map sig ts))) (sof_tok :: map sig ts) (le_n _)) as F.
  cbv beta in F. set (res := core e _ _ _ _) in *.
  destruct res as [d r|x|]; [left; eauto|right; eauto|exfalso; apply F; reflexivity].
Qed.

(* (c) token limit *)
Lemma floor_none o len : floor_of (with_max o None) len = 0.
Proof. reflexivity. Qed.

Lemma parse_entry_sim e o n ts :
  let s := map sig ts in
  simc (length s - n)
       (core e 0 (exp_fragment_arguments o) (exp_directives_on_directive_definitions o) (sof_tok :: s))
       (core e (length s - n) (exp_fragment_arguments o) (exp_directives_on_directive_definitions o) (sof_tok :: s)).
Proof.
  intros s.
  destruct (gd_core e (exp_fragment_arguments o) (exp_directives_on_directive_definitions o)
                    (length (sof_tok :: s))) as [G _].
  apply (g_sim _ _ G); [apply le_n|]. left. cbn. lia.
Qed.

Theorem parse_entry_limit_iff e o n ts d c :
  parse_entry e (with_max o (Some n)) ts = Ok (d, c) <->
  parse_entry e (with_max o None) ts = Ok (d, c) /\ c <= n.
Proof.
  unfold parse_entry. cbn [with_max max_tokens floor_of exp_fragment_arguments
                             exp_directives_on_directive_definitions].
  pose proof (parse_entry_sim e o n ts) as S. cbv zeta in S.
  set (s := map sig ts) in *. set (xfa := exp_fragment_arguments o) in *.
  set (xdd := exp_directives_on_directive_definitions o) in *.
  destruct (gd_core e xfa xdd (length (sof_tok :: s))) as [G _].
  unfold simc in S.
  destruct (core e 0 xfa xdd (sof_tok :: s)) as [d0 r0|e0|] eqn:E0.
  - pose proof (g_suf _ _ G _ _ _ _ (le_n _) E0) as Sf. apply suffix_length in Sf. cbn in Sf.
    pose proof (core_eof_state _ _ _ _ _ _ _ E0) as Ek.
    destruct S as [[Ho ->]|[Hn ->]].
    + split.
      * intros H; inversion H; subst. split; [reflexivity|].
        destruct Ho as [Ho|[Ho _]]; lia.
      * intros [H _]. exact H.
    + split; [discriminate|]. intros [H Hc]. inversion H; subst. exfalso. apply Hn.
      destruct (Nat.eq_dec (length s - n) (length r0)) as [Eq|Ne]; [right; auto|left; lia].
  - split; [|intros [H _]; discriminate].
    destruct S as [->|[-> _]]; discriminate.
  - exfalso. eapply (g_fuel _ _ G); [apply le_n|exact E0].
Qed.

(* position of the (n+1)-th token *)
Lemma pos_of_floor ts n : n <= length ts ->
  pos_of ts (length ts - n) = match skipn n ts with t :: _ => tstart t | [] => O end.
Proof. intros H. unfold pos_of. replace (length ts - (length ts - n)) with n by lia. reflexivity. Qed.

Theorem parse_entry_limit_exceeded e o n ts d c :
  parse_entry e (with_max o None) ts = Ok (d, c) -> n < c ->
  parse_entry e (with_max o (Some n)) ts = SyntaxErr (pos_of ts (length ts - n)).
Proof.
  unfold parse_entry. cbn [with_max max_tokens floor_of exp_fragment_arguments
                             exp_directives_on_directive_definitions].
  pose proof (parse_entry_sim e o n ts) as S. cbv zeta in S.
  set (s := map sig ts) in *. set (xfa := exp_fragment_arguments o) in *.
  set (xdd := exp_directives_on_directive_definitions o) in *.
  assert (Ls : length s = length ts) by (unfold s; apply map_length).
  unfold simc in S.
  destruct (core e 0 xfa xdd (sof_tok :: s)) as [d0 r0|e0|] eqn:E0; try discriminate.
  intros H Hc. inversion H; subst. clear H.
  destruct S as [[Ho _]|[_ ->]].
  - exfalso. destruct Ho as [Ho|[Ho _]]; lia.
  - rewrite Ls. reflexivity.
Qed.

Theorem parse_entry_limit_error e o n ts p :
  parse_entry e (with_max o None) ts = SyntaxErr p ->
  parse_entry e (with_max o (Some n)) ts = SyntaxErr p \/
  parse_entry e (with_max o (Some n)) ts = SyntaxErr (pos_of ts (length ts - n)).
Proof.
  unfold parse_entry. cbn [with_max max_tokens floor_of exp_fragment_arguments
                             exp_directives_on_directive_definitions].
  pose proof (parse_entry_sim e o n ts) as S. cbv zeta in S.
  set (s := map sig ts) in *. set (xfa := exp_fragment_arguments o) in *.
  set (xdd := exp_directives_on_directive_definitions o) in *.
  assert (Ls : length s = length ts) by (unfold s; apply map_length).
  unfold simc in S.
  destruct (core e 0 xfa xdd (sof_tok :: s)) as [d0 r0|e0|] eqn:E0; try discriminate.
  intros H. destruct S as [->|[-> _]]; [left; exact H|right; rewrite Ls; reflexivity].
Qed.

(* (d) only (kind, value) of the tokens matter *)
Theorem parse_entry_layout e o ts1 ts2 :
  map sig ts1 = map sig ts2 ->
  (forall d c, parse_entry e o ts1 = Ok (d, c) <-> parse_entry e o ts2 = Ok (d, c)) /\
  ((exists p, parse_entry e o ts1 = SyntaxErr p) <-> (exists p, parse_entry e o ts2 = SyntaxErr p)).
Proof.
  intros E. unfold parse_entry. rewrite E.
  destruct (core e _ _ _ _) as [d r|x|].
  - split; [intros d0 c0; tauto|]. split; intros [p H]; discriminate.
  - split; [intros d0 c0; split; discriminate|]. split; intros _; eexists; reflexivity.
  - split; [intros d0 c0; split; discriminate|]. split; intros [p H]; discriminate.
Qed.

(* the index of the blamed token is layout independent as well *)
Definition error_index (e : entry) (o : options) (ts : list token) : option nat :=
  let s := map sig ts in
  match core e (floor_of o (length s)) (exp_fragment_arguments o)
             (exp_directives_on_directive_definitions o) (sof_tok :: s) with
  | RErr x => Some (length s - x)
  | _ => None
  end.

Theorem error_index_layout e o ts1 ts2 :
  map sig ts1 = map sig ts2 -> error_index e o ts1 = error_index e o ts2.
Proof. intros E. unfold error_index. rewrite E. reflexivity. Qed.

Theorem error_index_spec e o ts p :
  parse_entry e o ts = SyntaxErr p ->
  exists i, error_index e o ts = Some i /\
            p = match skipn i ts with t :: _ => tstart t | [] => O end.
Proof.
  unfold parse_entry, error_index.
  destruct (core e _ _ _ _) as [d r|x|]; try discriminate.
  intros H; inversion H; subst. eexists; split; [reflexivity|].
  unfold pos_of. rewrite map_length. reflexivity.
Qed.

(* ================= source text ================= *)
Lemma lazy_loop_read fuel : forall cu s,
  length s < fuel ->
  match snd (lazy_loop read_token fuel cu s) with LCrash _ => False | LFuel => False | _ => True end.
Proof.
  induction fuel as [|f IH]; intros cu s Hf; [lia|].
  cbn [lazy_loop]. pose proof (LexerProps.read_token_spec cu s) as Ht.
  destruct (read_token cu s) as [[[tk cu'] s']| | |]; try exact Ht; try exact I.
  destruct Ht as (g & n & Hg & Hst & Hen & Ha & Hc & Hpk & Heof & Hne).
  destruct (tkind tk =? K_EOF)%N eqn:Ek; [exact I|].
  specialize (Hne eq_refl). pose proof (LexerProps.adv_length _ _ _ Ha) as HL.
  specialize (IH cu' s' ltac:(lia)).
  destruct (lazy_loop read_token f cu' s') as [ts e]. exact IH.
Qed.

Lemma lazy_loop_coord fuel : forall cu s,
  length s < fuel ->
  match snd (lazy_loop coord_token fuel cu s) with LCrash _ => False | LFuel => False | _ => True end.
Proof.
  induction fuel as [|f IH]; intros cu s Hf; [lia|].
  cbn [lazy_loop]. pose proof (LexerProps.coord_token_spec cu s) as Ht.
  destruct (coord_token cu s) as [[[tk cu'] s']| | |]; try exact Ht; try exact I.
  destruct (tkind tk =? K_EOF)%N eqn:Ek; [exact I|].
  destruct Ht as [Ht|Ht]; [congruence|].
  specialize (IH cu' s' ltac:(lia)).
  destruct (lazy_loop coord_token f cu' s') as [ts e]. exact IH.
Qed.

Theorem token_stream_total coord s : exists ts, token_stream coord s = Ok ts.
Proof.
  unfold token_stream. destruct coord.
  - pose proof (lazy_loop_coord (S (length s)) init_cursor s ltac:(lia)) as H.
    destruct (lazy_loop coord_token (S (length s)) init_cursor s) as [ts e]. cbn in H.
    destruct e; try contradiction; eauto.
  - pose proof (lazy_loop_read (S (length s)) init_cursor s ltac:(lia)) as H.
    destruct (lazy_loop read_token (S (length s)) init_cursor s) as [ts e]. cbn in H.
    destruct e; try contradiction; eauto.
Qed.

Theorem parse_text_total e o s :
  (exists d c, parse_text e o s = Ok (d, c)) \/ (exists p, parse_text e o s = SyntaxErr p).
Proof.
  unfold parse_text.
  destruct (token_stream_total (match e with ECoordinate => true | _ => false end) s) as [ts ->].
  cbn [obind]. apply parse_entry_total.
Qed.

(* ---------- the lazy token stream and the strict lexer ---------- *)
Lemma lazy_loop_lex fuel : forall cu s,
  match lex_loop fuel cu s with
  | Ok ts => lazy_loop read_token fuel cu s = (significant ts, LEnd)
  | SyntaxErr q => exists pre, lazy_loop read_token fuel cu s = (pre, LErr q)
  | Crash w => exists pre, lazy_loop read_token fuel cu s = (pre, LCrash w)
  | OutOfFuel => exists pre, lazy_loop read_token fuel cu s = (pre, LFuel)
  end.
Proof.
  induction fuel as [|f IH]; intros cu s; [cbn; eauto|].
  cbn [lex_loop lazy_loop].
  destruct (read_token cu s) as [[[tk cu'] s']|q|w|]; [|eauto|eauto|eauto].
  destruct (tkind tk =? K_EOF)%N eqn:Ek.
  - cbn [significant filter]. apply N.eqb_eq in Ek. rewrite Ek. reflexivity.
  - specialize (IH cu' s'). destruct (lex_loop f cu' s') as [ts|q|w|].
    + rewrite IH. cbn [significant filter]. destruct (tkind tk =? K_COMMENT)%N; reflexivity.
    + destruct IH as [pre ->]. eauto.
    + destruct IH as [pre ->]. eauto.
    + destruct IH as [pre ->]. eauto.
Qed.

Theorem token_stream_lex_ok s ts : lex s = Ok ts -> token_stream false s = Ok (significant ts).
Proof.
  unfold lex, token_stream. intros H.
  pose proof (lazy_loop_lex (S (length s)) init_cursor s) as L. rewrite H in L. rewrite L. reflexivity.
Qed.

Theorem token_stream_lex_err s q : lex s = SyntaxErr q ->
  exists pre, token_stream false s = Ok (pre ++ [err_token q]).
Proof.
  unfold lex, token_stream. intros H.
  pose proof (lazy_loop_lex (S (length s)) init_cursor s) as L. rewrite H in L.
  destruct L as [pre ->]. eauto.
Qed.

(* for a source that lexes, parsing the text is parsing its significant tokens *)
Theorem parse_text_lex e o s ts : e <> ECoordinate -> lex s = Ok ts ->
  parse_text e o s = parse_entry e o (significant ts).
Proof.
  intros He H. unfold parse_text.
  replace (match e with ECoordinate => true | _ => false end) with false by (destruct e; congruence).
  rewrite (token_stream_lex_ok s ts H). reflexivity.
Qed.

(* ---------- sources that do not lex are rejected ---------- *)
Lemma lazy_loop_no_eof rd fuel : forall cu s pre q,
  lazy_loop rd fuel cu s = (pre, LErr q) -> Forall (fun t => (tkind t =? K_EOF)%N = false) pre.
Proof.
  induction fuel as [|f IH]; intros cu s pre q; [discriminate|].
  cbn [lazy_loop]. destruct (rd cu s) as [[[tk cu'] s']|q'|w|]; try discriminate.
  - destruct (tkind tk =? K_EOF)%N eqn:Ek; [discriminate|].
    destruct (lazy_loop rd f cu' s') as [ts e] eqn:E. intros H; inversion H; subst.
    specialize (IH _ _ _ _ E). destruct (tkind tk =? K_COMMENT)%N; [exact IH|constructor; assumption].
  - intros H; inversion H; subst. constructor.
Qed.

Lemma suffix_before_lexerr r ts : suffix r ts ->
  forall l e, ts = l ++ [e] -> l <> [] -> fst e = K_LEXERR ->
  Forall (fun t => (fst t =? K_EOF)%N = false) l -> (kind_at r =? K_EOF)%N = false.
Proof.
  induction 1 as [|t ts Hte Hk H IH]; intros l e E Hl He Hall.
  - subst r. destruct l as [|t l']; [congruence|]. inversion Hall; subst. assumption.
  - destruct l as [|t' l']; [congruence|]. inversion E; subst. inversion Hall; subst.
    destruct l' as [|t2 l2].
    + cbn in Hk. unfold kind_at in Hk. cbn in Hk. rewrite He in Hk. discriminate.
    + apply (IH (t2 :: l2) e eq_refl); [discriminate|exact He|assumption].
Qed.

Theorem parse_entry_lexerr e o pre q :
  Forall (fun t => (tkind t =? K_EOF)%N = false) pre ->
  exists p, parse_entry e o (pre ++ [err_token q]) = SyntaxErr p.
Proof.
  intros Hpre.
  destruct (parse_entry_total e o (pre ++ [err_token q])) as [(d & c & E)|[p E]]; [|eauto].
  exfalso. unfold parse_entry in E.
  set (s := map sig (pre ++ [err_token q])) in *.
  destruct (core e (floor_of o (length s)) (exp_fragment_arguments o)
                 (exp_directives_on_directive_definitions o) (sof_tok :: s)) as [d0 r|x|] eqn:Ec; try discriminate.
  pose proof (core_eof_state _ _ _ _ _ _ _ Ec) as Hk.
  destruct (gd_core e (exp_fragment_arguments o) (exp_directives_on_directive_definitions o)
                    (length (sof_tok :: s))) as [G _].
  pose proof (g_suf _ _ G _ _ _ _ (le_n _) Ec) as Sf.
  assert (Hne : (kind_at r =? K_EOF)%N = false).
  { apply (suffix_before_lexerr r (sof_tok :: s) Sf (sof_tok :: map sig pre) (sig (err_token q))).
    - unfold s. rewrite map_app. reflexivity.
    - discriminate.
    - reflexivity.
    - constructor; [reflexivity|]. clear -Hpre. induction Hpre; constructor; assumption. }
  rewrite Hk in Hne. discriminate.
Qed.

Theorem parse_text_unlexable e o s q : e <> ECoordinate -> lex s = SyntaxErr q ->
  exists p, parse_text e o s = SyntaxErr p.
Proof.
  intros He H. unfold parse_text.
  replace (match e with ECoordinate => true | _ => false end) with false by (destruct e; congruence).
  unfold token_stream. unfold lex in H.
  pose proof (lazy_loop_lex (S (length s)) init_cursor s) as L. rewrite H in L. destruct L as [pre L].
  rewrite L. cbn [obind]. apply parse_entry_lexerr.
  eapply lazy_loop_no_eof. exact L.
Qed.

(* ---------- the token count ---------- *)
(* the tokens an accepted run has advanced over are not EOF, and it stops on an EOF *)
Lemma suffix_prefix r ts : suffix r ts ->
  exists pre, ts = pre ++ r /\ Forall (fun t => (fst t =? K_EOF)%N = false) pre.
Proof.
  induction 1 as [|t ts He Hk H (pre & -> & Hp)]; [exists []; split; [reflexivity|constructor]|].
  exists (t :: pre). split; [reflexivity|constructor; assumption].
Qed.

(* token_count = number of tokens in front of the first EOF *)
Theorem parse_entry_count e o ts d c :
  parse_entry e o ts = Ok (d, c) ->
  exists pre rest, map sig ts = pre ++ rest /\ c = length pre /\
                   Forall (fun t => (fst t =? K_EOF)%N = false) pre /\ kind_at rest = K_EOF.
Proof.
  unfold parse_entry. set (s := map sig ts).
  destruct (core e (floor_of o (length s)) (exp_fragment_arguments o)
                 (exp_directives_on_directive_definitions o) (sof_tok :: s)) as [d0 r|x|] eqn:Ec; try discriminate.
  intros H; inversion H; subst d0 c. clear H.
  pose proof (core_eof_state _ _ _ _ _ _ _ Ec) as Hk.
  destruct (gd_core e (exp_fragment_arguments o) (exp_directives_on_directive_definitions o)
                    (length (sof_tok :: s))) as [G _].
  pose proof (g_suf _ _ G _ _ _ _ (le_n _) Ec) as Sf.
  apply suffix_prefix in Sf as (pre & E & Hp).
  destruct pre as [|t pre'].
  - cbn [app] in E. subst r. discriminate Hk.
  - cbn [app] in E. injection E as Et Es. exists pre', r. inversion Hp; subst.
    repeat split; try assumption. rewrite Es at 1. rewrite app_length. lia.
Qed.

(* for lexer output: the count is the number of significant tokens, EOF excluded *)
Lemma spans_significant pos s ts : spans pos s ts ->
  exists pre e, significant ts = pre ++ [e] /\ tkind e = K_EOF /\
                Forall (fun t => (tkind t =? K_EOF)%N = false) pre.
Proof.
  induction 1 as [pos s tk Hi Hk Hs He | pos g lx s' tk ts Hg Hlx Hpk Hk Hs He Hsp (pre & e & E & Ee & Hp)].
  - exists [], tk. apply N.eqb_eq in Hk. cbn [significant filter]. rewrite Hk. cbn. repeat split; auto.
  - cbn [significant filter]. fold (significant ts). rewrite E.
    destruct (negb (tkind tk =? K_COMMENT)%N).
    + exists (tk :: pre), e. repeat split; auto.
    + exists pre, e. repeat split; auto.
Qed.

Lemma first_eof_unique (pre : list sigtok) : forall l' rest e,
  pre ++ rest = l' ++ [e] ->
  Forall (fun t => (fst t =? K_EOF)%N = false) pre -> kind_at rest = K_EOF ->
  Forall (fun t => (fst t =? K_EOF)%N = false) l' -> fst e = K_EOF -> length pre = length l'.
Proof.
  induction pre as [|t pre IH]; intros l' rest e E Hp Hk Hq He.
  - destruct l' as [|t' l'']; [reflexivity|]. cbn [app] in E. subst rest. inversion Hq; subst.
    unfold kind_at in Hk. cbn in Hk. rewrite Hk in H1. discriminate.
  - destruct l' as [|t' l''].
    + cbn [app] in E. injection E as Et Er. subst t. inversion Hp; subst. rewrite He in H1. discriminate.
    + cbn [app] in E. injection E as Et Er. inversion Hq; subst. inversion Hp; subst.
      cbn [length]. f_equal. apply (IH l'' rest e); assumption.
Qed.

Theorem parse_text_count e o s ts d c : e <> ECoordinate -> lex s = Ok ts ->
  parse_text e o s = Ok (d, c) -> S c = length (significant ts).
Proof.
  intros He Hl H. rewrite (parse_text_lex e o s ts He Hl) in H.
  apply parse_entry_count in H as (pre & rest & E & -> & Hp & Hk).
  pose proof (lex_total s) as Ht. rewrite Hl in Ht.
  apply spans_significant in Ht as (pre' & e' & Es & Ee & Hp').
  rewrite Es in E. rewrite Es. rewrite map_app in E. cbn [map] in E.
  rewrite app_length. cbn [length].
  assert (length pre = length pre'); [|lia].
  rewrite <- (map_length sig pre').
  apply (first_eof_unique pre (map sig pre') rest (sig e')); try assumption.
  - symmetry. exact E.
  - clear -Hp'. induction Hp'; constructor; assumption.
Qed.

Theorem parse_text_limit_iff e o n s d c :
  parse_text e (with_max o (Some n)) s = Ok (d, c) <->
  parse_text e (with_max o None) s = Ok (d, c) /\ c <= n.
Proof.
  unfold parse_text.
  destruct (token_stream_total (match e with ECoordinate => true | _ => false end) s) as [ts ->].
  cbn [obind]. apply parse_entry_limit_iff.
Qed.

(* a token limit of n accepts exactly the accepted sources with at most n tokens (EOF excluded) *)
Theorem parse_text_limit_tokens e o n s ts d c : e <> ECoordinate -> lex s = Ok ts ->
  (parse_text e (with_max o (Some n)) s = Ok (d, c) <->
   parse_text e (with_max o None) s = Ok (d, c) /\ length (significant ts) <= S n).
Proof.
  intros He Hl. rewrite parse_text_limit_iff. split.
  - intros [H Hc]. split; [exact H|]. rewrite <- (parse_text_count e _ s ts d c He Hl H). lia.
  - intros [H Hc]. split; [exact H|]. pose proof (parse_text_count e _ s ts d c He Hl H). lia.
Qed.
