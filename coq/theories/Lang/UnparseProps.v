(* Round trip: parsing the token-level unparse of a well-formed tree gives the tree back
   (unlimited parser, fl = 0), production by production, with follow-set side conditions
   stated as predicates on the first token of the rest. *)
From GV Require Import Base.Prelude Lang.Lexer Lang.Ast Lang.Parser Lang.Unparse Lang.Wf.

Local Open Scope nat_scope.

(* ---------- running a parser ---------- *)
Definition run {A} (m : P A) (ts : list sigtok) (a : A) (r : list sigtok) : Prop := m ts = ROk a r.

Lemma run_bind {A B} (m : P A) (f : A -> P B) ts a r b r' :
  run m ts a r -> run (f a) r b r' -> run (bind m f) ts b r'.
Proof. unfold run, bind. intros -> H. exact H. Qed.

Lemma run_ret {A} (a : A) ts : run (ret a) ts a ts.
Proof. reflexivity. Qed.

Lemma run_cur {B} (f : sigtok -> P B) ts b r :
  run (f (tok_at ts)) ts b r -> run (bind cur f) ts b r.
Proof. unfold run, bind, cur. auto. Qed.

Lemma run_with_fuel {A} (g : nat -> P A) ts a r :
  run (g (S (length ts))) ts a r -> run (with_fuel g) ts a r.
Proof. unfold run, with_fuel. auto. Qed.

(* ---------- conditions on the first token of a list ---------- *)
Definition hk (S : sigtok -> bool) (l : list sigtok) : Prop := S (tok_at l) = true.

(* kind not in a list of kinds *)
Definition nk (ks : list N) (t : sigtok) : bool := negb (existsb (N.eqb (fst t)) ks).

Lemma nk_incl ks ks' t :
  forallb (fun k => existsb (N.eqb k) ks) ks' = true -> nk ks t = true -> nk ks' t = true.
Proof.
  unfold nk. intros H1 H2. apply negb_true_iff in H2. apply negb_true_iff.
  destruct (existsb (N.eqb (fst t)) ks') eqn:E; [|reflexivity].
  apply existsb_exists in E as (k & Hin & Hk). apply N.eqb_eq in Hk. subst k.
  rewrite forallb_forall in H1. apply H1 in Hin. congruence.
Qed.

Lemma hk_nk_incl ks ks' l :
  forallb (fun k => existsb (N.eqb k) ks) ks' = true -> hk (nk ks) l -> hk (nk ks') l.
Proof. unfold hk. apply nk_incl. Qed.

Lemma nk_neq ks t k : nk ks t = true -> existsb (N.eqb k) ks = true -> (fst t =? k)%N = false.
Proof.
  unfold nk. intros H1 H2. apply negb_true_iff in H1.
  destruct (fst t =? k)%N eqn:E; [|reflexivity]. apply N.eqb_eq in E. subst k. congruence.
Qed.

Lemma hk_neq ks l k : hk (nk ks) l -> existsb (N.eqb k) ks = true -> (kind_at l =? k)%N = false.
Proof. unfold hk, kind_at. apply nk_neq. Qed.

Lemma hk_cons S t l : S t = true -> hk S (t :: l).
Proof. intros H. exact H. Qed.

Definition nle := nk [K_LEXERR].

(* ---------- primitives at fl = 0 ---------- *)
Lemma chk0_ok r : hk nle r -> chk 0 r = ROk tt r.
Proof.
  intros H. unfold chk. rewrite (hk_neq _ _ K_LEXERR H eq_refl). reflexivity.
Qed.

Lemma run_adv t r : (fst t =? K_EOF)%N = false -> hk nle r -> run (adv 0) (t :: r) tt r.
Proof. intros Ht Hr. unfold run, adv. rewrite Ht. apply chk0_ok. exact Hr. Qed.

Lemma run_expect_token k v r :
  (k =? K_EOF)%N = false -> hk nle r -> run (expect_token 0 k) ((k, v) :: r) v r.
Proof.
  intros Hk Hr. unfold expect_token. apply run_cur. cbn [tok_at fst snd]. rewrite N.eqb_refl.
  eapply run_bind; [apply run_adv; [exact Hk|exact Hr]|]. apply run_ret.
Qed.

Lemma run_expect_eof v r : run (expect_token 0 K_EOF) ((K_EOF, v) :: r) v ((K_EOF, v) :: r).
Proof. reflexivity. Qed.

Lemma run_eot_yes k v r :
  (k =? K_EOF)%N = false -> hk nle r -> run (expect_optional_token 0 k) ((k, v) :: r) true r.
Proof.
  intros Hk Hr. unfold expect_optional_token. apply run_cur. cbn [tok_at fst snd]. rewrite N.eqb_refl.
  eapply run_bind; [apply run_adv; [exact Hk|exact Hr]|]. apply run_ret.
Qed.

Lemma run_eot_no k ts : (kind_at ts =? k)%N = false -> run (expect_optional_token 0 k) ts false ts.
Proof.
  intros Hk. unfold expect_optional_token. apply run_cur. unfold kind_at in Hk. rewrite Hk. apply run_ret.
Qed.

Lemma run_eot_eof v r :
  run (expect_optional_token 0 K_EOF) ((K_EOF, v) :: r) true ((K_EOF, v) :: r).
Proof. reflexivity. Qed.

Lemma seqb_refl w : seqb w w = true.
Proof. apply nat_list_eqb_eq. reflexivity. Qed.

Lemma run_expect_keyword w r : hk nle r -> run (expect_keyword 0 w) (nm w :: r) tt r.
Proof.
  intros Hr. unfold expect_keyword. apply run_cur. unfold is_keyword, nm. cbn [tok_at fst snd].
  rewrite seqb_refl. cbn. apply run_adv; [reflexivity|exact Hr].
Qed.

Lemma run_eokw_yes w r : hk nle r -> run (expect_optional_keyword 0 w) (nm w :: r) true r.
Proof.
  intros Hr. unfold expect_optional_keyword. apply run_cur. unfold is_keyword, nm. cbn [tok_at fst snd].
  rewrite seqb_refl. cbn. eapply run_bind; [apply run_adv; [reflexivity|exact Hr]|]. apply run_ret.
Qed.

Lemma run_eokw_no w ts :
  is_keyword (tok_at ts) w = false -> run (expect_optional_keyword 0 w) ts false ts.
Proof.
  intros H. unfold expect_optional_keyword. apply run_cur. rewrite H. apply run_ret.
Qed.

(* ---------- names ---------- *)
Lemma run_name v r : hk nle r -> run (name 0) (nm v :: r) (mk_name v) r.
Proof.
  intros Hr. unfold name. eapply run_bind; [apply run_expect_token; [reflexivity|exact Hr]|]. apply run_ret.
Qed.

Lemma rt_name n r : wf_name n -> hk nle r -> run (name 0) (toks_name n ++ r) n r.
Proof. intros [v] Hr. apply run_name. exact Hr. Qed.

Lemma hk_name S n r : wf_name n -> (forall v, S (nm v) = true) -> hk S (toks_name n ++ r).
Proof. intros [v] H. apply H. Qed.

(* length of toks used for fuel bounds *)
Lemma toks_name_length n : wf_name n -> length (toks_name n) = 1.
Proof. intros [v]. reflexivity. Qed.

(* decide comparisons of closed kind codes *)
Ltac keq :=
  repeat match goal with
         | |- context [N.eqb ?a ?b] =>
           let v := eval vm_compute in (N.eqb a b) in
           match v with
           | true => change (N.eqb a b) with true
           | false => change (N.eqb a b) with false
           end
         end;
  cbv iota; cbn [andb orb negb].

(* ---------- values ---------- *)
Definition first_of_value (k : N) : bool :=
  existsb (N.eqb k) [K_DOLLAR; K_INT; K_FLOAT; K_STRING; K_BLOCK_STRING; K_NAME; K_BRACKET_L; K_BRACE_L].

Lemma hk_value S c v r :
  wf_value c v -> (forall k x, first_of_value k = true -> S (k, x) = true) -> hk S (toks_value v ++ r).
Proof.
  intros W H. destruct W; cbn [toks_value app]; unfold hk; cbn [tok_at]; try (apply H; reflexivity).
  - destruct b; apply H; reflexivity.
Qed.

Lemma toks_value_nonempty c v : wf_value c v -> 1 <= length (toks_value v).
Proof. intros W. destruct W; cbn [toks_value length]; try lia. Qed.

Lemma named_value_enum s : not_reserved_value s -> named_value s = Nd KEnumValue [AStr s].
Proof. intros (H1 & H2 & H3). unfold named_value. rewrite H1, H2, H3. reflexivity. Qed.

Definition PV (c : bool) (v : node) : Prop :=
  forall f r, length (toks_value v) <= f -> hk nle r -> run (value 0 f c) (toks_value v ++ r) v r.
Definition PVs (c : bool) (l : list node) : Prop :=
  forall fv g r, length (flat_map toks_value l) <= fv -> length l < g -> hk nle r ->
    run (until_close 0 g K_BRACKET_R (value 0 fv c)) (flat_map toks_value l ++ pt K_BRACKET_R :: r) l r.
Definition PFs (c : bool) (l : list node) : Prop :=
  forall fv g r, length (flat_map toks_object_field l) <= fv -> length l < g -> hk nle r ->
    run (until_close 0 g K_BRACE_R (object_field 0 (value 0 fv c)))
        (flat_map toks_object_field l ++ pt K_BRACE_R :: r) l r.

Lemma toks_object_value fs :
  toks_value (Nd KObjectValue [AList fs]) = pt K_BRACE_L :: flat_map toks_object_field fs ++ [pt K_BRACE_R].
Proof. reflexivity. Qed.

Lemma rt_value_all c :
  (forall v, wf_value c v -> PV c v) /\ (forall l, wf_values c l -> PVs c l) /\
  (forall l, wf_object_fields c l -> PFs c l).
Proof.
  apply wf_value_mutind.
  - (* variable *)
    intros n Hc [v] f r Hf Hr. destruct f as [|f]; [cbn in Hf; lia|].
    cbn [toks_value toks_name app value]. apply run_cur. cbn [tok_at fst snd pt nm]. keq. rewrite Hc.
    unfold variable. eapply run_bind; [apply run_expect_token; [reflexivity|reflexivity]|].
    eapply run_bind; [apply run_name; exact Hr|]. apply run_ret.
  - intros s f r Hf Hr. destruct f as [|f]; [cbn in Hf; lia|].
    cbn [toks_value app value]. apply run_cur. cbn [tok_at fst snd]. keq.
    eapply run_bind; [apply run_expect_token; [reflexivity|exact Hr]|]. apply run_ret.
  - intros s f r Hf Hr. destruct f as [|f]; [cbn in Hf; lia|].
    cbn [toks_value app value]. apply run_cur. cbn [tok_at fst snd]. keq.
    eapply run_bind; [apply run_expect_token; [reflexivity|exact Hr]|]. apply run_ret.
  - intros s b f r Hf Hr. destruct f as [|f]; [cbn in Hf; lia|].
    cbn [toks_value app value]. apply run_cur. destruct b; cbn [tok_at fst snd]; keq.
    + eapply run_bind; [apply run_expect_token; [reflexivity|exact Hr]|]. apply run_ret.
    + eapply run_bind; [apply run_expect_token; [reflexivity|exact Hr]|]. apply run_ret.
  - intros b f r Hf Hr. destruct f as [|f]; [cbn in Hf; lia|].
    cbn [toks_value app value]. apply run_cur. cbn [tok_at fst snd nm]. keq.
    eapply run_bind; [apply run_expect_token; [reflexivity|exact Hr]|].
    destruct b; apply run_ret.
  - intros f r Hf Hr. destruct f as [|f]; [cbn in Hf; lia|].
    cbn [toks_value app value]. apply run_cur. cbn [tok_at fst snd nm]. keq.
    eapply run_bind; [apply run_expect_token; [reflexivity|exact Hr]|]. apply run_ret.
  - intros s Hs f r Hf Hr. destruct f as [|f]; [cbn in Hf; lia|].
    cbn [toks_value app value]. apply run_cur. cbn [tok_at fst snd nm]. keq.
    eapply run_bind; [apply run_expect_token; [reflexivity|exact Hr]|].
    rewrite (named_value_enum _ Hs). apply run_ret.
  - (* list *)
    intros l HW IH f r Hf Hr. destruct f as [|f]; [cbn in Hf; lia|].
    cbn [toks_value value]. cbn [toks_value length] in Hf. rewrite app_length in Hf. cbn [length] in Hf.
    cbn [app]. apply run_cur. cbn [tok_at fst snd pt]. keq.
    eapply run_bind; [|apply run_ret].
    unfold any_. rewrite <- app_assoc. cbn [app].
    eapply run_bind.
    { apply run_expect_token; [reflexivity|].
      destruct HW as [|x l' Hx Hl']; [reflexivity|].
      cbn [flat_map]. rewrite <- app_assoc. eapply hk_value; [exact Hx|]. intros k y Hk.
      unfold first_of_value in Hk. unfold nle, nk. cbn [fst existsb].
      destruct (k =? K_LEXERR)%N eqn:E; [apply N.eqb_eq in E; subst k; discriminate|reflexivity]. }
    unfold loop_close. apply run_with_fuel. apply IH; [lia| |exact Hr].
    rewrite app_length. cbn [length].
    clear - HW. induction HW as [|v0 l0 Hv0 Hl0 IHl0]; cbn [flat_map length]; [lia|].
    rewrite app_length. pose proof (toks_value_nonempty _ _ Hv0). lia.
  - (* object *)
    intros l HW IH f r Hf Hr. destruct f as [|f]; [cbn in Hf; lia|].
    rewrite toks_object_value in *. cbn [value]. cbn [length] in Hf. rewrite app_length in Hf. cbn [length] in Hf.
    cbn [app]. apply run_cur. cbn [tok_at fst snd pt]. keq.
    eapply run_bind; [|apply run_ret].
    unfold any_. rewrite <- app_assoc. cbn [app].
    eapply run_bind.
    { apply run_expect_token; [reflexivity|].
      destruct HW as [|n v fs Hn Hv Hfs]; [reflexivity|].
      destruct Hn as [nv]. reflexivity. }
    unfold loop_close. apply run_with_fuel. apply IH; [lia| |exact Hr].
    rewrite app_length. cbn [length].
    clear - HW. induction HW as [|n0 v0 fs0 Hn0 Hv0 Hfs0 IH0]; cbn [flat_map length]; [lia|].
    rewrite app_length. destruct Hn0 as [nv]. cbn [toks_object_field toks_name app length]. lia.
  - (* values nil *)
    intros fv g r _ Hg Hr. destruct g as [|g]; [lia|].
    cbn [flat_map app until_close].
    eapply run_bind; [apply run_eot_yes; [reflexivity|exact Hr]|]. apply run_ret.
  - (* values cons *)
    intros v l Hv IHv Hl IHl fv g r Hfv Hg Hr. destruct g as [|g]; [lia|].
    cbn [flat_map length] in *. rewrite app_length in Hfv.
    cbn [until_close]. rewrite <- app_assoc.
    eapply run_bind.
    { apply run_eot_no. apply (hk_neq [K_BRACKET_R]); [|reflexivity].
      eapply hk_value; [exact Hv|]. intros k x Hk. unfold nk. cbn [fst existsb].
      destruct (k =? K_BRACKET_R)%N eqn:E; [apply N.eqb_eq in E; subst k; discriminate|reflexivity]. }
    cbv iota.
    eapply run_bind.
    { apply IHv; [lia|].
      destruct Hl as [|v' l' Hv' Hl']; [reflexivity|].
      cbn [flat_map]. rewrite <- app_assoc. eapply hk_value; [exact Hv'|]. intros k x Hk.
      unfold nle, nk. cbn [fst existsb].
      destruct (k =? K_LEXERR)%N eqn:E; [apply N.eqb_eq in E; subst k; discriminate|reflexivity]. }
    eapply run_bind; [apply IHl; [lia|lia|exact Hr]|]. apply run_ret.
  - (* fields nil *)
    intros fv g r _ Hg Hr. destruct g as [|g]; [lia|].
    cbn [flat_map app until_close].
    eapply run_bind; [apply run_eot_yes; [reflexivity|exact Hr]|]. apply run_ret.
  - (* fields cons *)
    intros n v fs Hn Hv IHv Hfs IHfs fv g r Hfv Hg Hr. destruct g as [|g]; [lia|].
    destruct Hn as [nv].
    cbn [flat_map length toks_object_field toks_name] in *. rewrite app_length in Hfv.
    cbn [app length] in Hfv. rewrite app_length in Hfv.
    cbn [until_close app]. rewrite <- app_assoc.
    eapply run_bind; [apply run_eot_no; reflexivity|]. cbv iota.
    eapply run_bind.
    { unfold object_field. eapply run_bind; [apply run_name; reflexivity|].
      eapply run_bind.
      { apply run_expect_token; [reflexivity|].
        eapply hk_value; [exact Hv|]. intros k x Hk. unfold nle, nk. cbn [fst existsb].
        destruct (k =? K_LEXERR)%N eqn:E; [apply N.eqb_eq in E; subst k; discriminate|reflexivity]. }
      eapply run_bind; [|apply run_ret].
      apply IHv; [lia|].
      destruct Hfs as [|n' v' fs' Hn' Hv' Hfs']; [reflexivity|]. destruct Hn' as [nv']. reflexivity. }
    eapply run_bind; [apply IHfs; [lia|lia|exact Hr]|]. apply run_ret.
Qed.
