(* Round trip: parsing the token-level unparse of a well-formed tree gives the tree back
   (unlimited parser, fl = 0), production by production, with follow-set side conditions
   stated as predicates on the first token of the rest. *)
From GV Require Import Base.Prelude Lang.Lexer Lang.Ast Lang.Parser Lang.Unparse Lang.Wf.

Local Open Scope nat_scope.

(* ---------- running a parser ---------- *)
Definition run {A} (m : P A) (ts : list sigtok) (a : A) (r : list sigtok) : Prop := m ts = ROk a r.

Lemma run_bind {A B} (m : P A) (f : A -> P B) ts a r b r' :
  run m ts a r -> run (f a) r b r' -> run (bind m f) ts b r'.
Proof. unfold run, bind. intros -> H. exact H. Qed.

Lemma run_ret {A} (a : A) ts : run (ret a) ts a ts.
Proof. reflexivity. Qed.

Lemma run_cur {B} (f : sigtok -> P B) ts b r :
  run (f (tok_at ts)) ts b r -> run (bind cur f) ts b r.
Proof. unfold run, bind, cur. auto. Qed.

Lemma run_with_fuel {A} (g : nat -> P A) ts a r :
  run (g (S (length ts))) ts a r -> run (with_fuel g) ts a r.
Proof. unfold run, with_fuel. auto. Qed.

(* ---------- conditions on the first token of a list ---------- *)
Definition hk (S : sigtok -> bool) (l : list sigtok) : Prop := S (tok_at l) = true.

(* kind not in a list of kinds *)
Definition nk (ks : list N) (t : sigtok) : bool := negb (existsb (N.eqb (fst t)) ks).

Lemma nk_incl ks ks' t :
  forallb (fun k => existsb (N.eqb k) ks) ks' = true -> nk ks t = true -> nk ks' t = true.
Proof.
  unfold nk. intros H1 H2. apply negb_true_iff in H2. apply negb_true_iff.
  destruct (existsb (N.eqb (fst t)) ks') eqn:E; [|reflexivity].
  apply existsb_exists in E as (k & Hin & Hk). apply N.eqb_eq in Hk. subst k.
  rewrite forallb_forall in H1. apply H1 in Hin. congruence.
Qed.

Lemma hk_nk_incl ks ks' l :
  forallb (fun k => existsb (N.eqb k) ks) ks' = true -> hk (nk ks) l -> hk (nk ks') l.
Proof. unfold hk. apply nk_incl. Qed.

Lemma nk_neq ks t k : nk ks t = true -> existsb (N.eqb k) ks = true -> (fst t =? k)%N = false.
Proof.
  unfold nk. intros H1 H2. apply negb_true_iff in H1.
  destruct (fst t =? k)%N eqn:E; [|reflexivity]. apply N.eqb_eq in E. subst k. congruence.
Qed.

Lemma hk_neq ks l k : hk (nk ks) l -> existsb (N.eqb k) ks = true -> (kind_at l =? k)%N = false.
Proof. unfold hk, kind_at. apply nk_neq. Qed.

Lemma hk_cons S t l : S t = true -> hk S (t :: l).
Proof. intros H. exact H. Qed.

Definition nle := nk [K_LEXERR].

(* ---------- primitives at fl = 0 ---------- *)
Lemma chk0_ok r : hk nle r -> chk 0 r = ROk tt r.
Proof.
  intros H. unfold chk. rewrite (hk_neq _ _ K_LEXERR H eq_refl). reflexivity.
Qed.

Lemma run_adv t r : (fst t =? K_EOF)%N = false -> hk nle r -> run (adv 0) (t :: r) tt r.
Proof. intros Ht Hr. unfold run, adv. rewrite Ht. apply chk0_ok. exact Hr. Qed.

Lemma run_expect_token k v r :
  (k =? K_EOF)%N = false -> hk nle r -> run (expect_token 0 k) ((k, v) :: r) v r.
Proof.
  intros Hk Hr. unfold expect_token. apply run_cur. cbn [tok_at fst snd]. rewrite N.eqb_refl.
  eapply run_bind; [apply run_adv; [exact Hk|exact Hr]|]. apply run_ret.
Qed.

Lemma run_expect_eof v r : run (expect_token 0 K_EOF) ((K_EOF, v) :: r) v ((K_EOF, v) :: r).
Proof. reflexivity. Qed.

Lemma run_eot_yes k v r :
  (k =? K_EOF)%N = false -> hk nle r -> run (expect_optional_token 0 k) ((k, v) :: r) true r.
Proof.
  intros Hk Hr. unfold expect_optional_token. apply run_cur. cbn [tok_at fst snd]. rewrite N.eqb_refl.
  eapply run_bind; [apply run_adv; [exact Hk|exact Hr]|]. apply run_ret.
Qed.

Lemma run_eot_no k ts : (kind_at ts =? k)%N = false -> run (expect_optional_token 0 k) ts false ts.
Proof.
  intros Hk. unfold expect_optional_token. apply run_cur. unfold kind_at in Hk. rewrite Hk. apply run_ret.
Qed.

Lemma run_eot_eof v r :
  run (expect_optional_token 0 K_EOF) ((K_EOF, v) :: r) true ((K_EOF, v) :: r).
Proof. reflexivity. Qed.

Lemma seqb_refl w : seqb w w = true.
Proof. apply nat_list_eqb_eq. reflexivity. Qed.

Lemma run_expect_keyword w r : hk nle r -> run (expect_keyword 0 w) (nm w :: r) tt r.
Proof.
  intros Hr. unfold expect_keyword. apply run_cur. unfold is_keyword, nm. cbn [tok_at fst snd].
  rewrite seqb_refl. cbn. apply run_adv; [reflexivity|exact Hr].
Qed.

Lemma run_eokw_yes w r : hk nle r -> run (expect_optional_keyword 0 w) (nm w :: r) true r.
Proof.
  intros Hr. unfold expect_optional_keyword. apply run_cur. unfold is_keyword, nm. cbn [tok_at fst snd].
  rewrite seqb_refl. cbn. eapply run_bind; [apply run_adv; [reflexivity|exact Hr]|]. apply run_ret.
Qed.

Lemma run_eokw_no w ts :
  is_keyword (tok_at ts) w = false -> run (expect_optional_keyword 0 w) ts false ts.
Proof.
  intros H. unfold expect_optional_keyword. apply run_cur. rewrite H. apply run_ret.
Qed.

(* ---------- names ---------- *)
Lemma run_name v r : hk nle r -> run (name 0) (nm v :: r) (mk_name v) r.
Proof.
  intros Hr. unfold name. eapply run_bind; [apply run_expect_token; [reflexivity|exact Hr]|]. apply run_ret.
Qed.

Lemma rt_name n r : wf_name n -> hk nle r -> run (name 0) (toks_name n ++ r) n r.
Proof. intros [v] Hr. apply run_name. exact Hr. Qed.

Lemma hk_name S n r : wf_name n -> (forall v, S (nm v) = true) -> hk S (toks_name n ++ r).
Proof. intros [v] H. apply H. Qed.

(* length of toks used for fuel bounds *)
Lemma toks_name_length n : wf_name n -> length (toks_name n) = 1.
Proof. intros [v]. reflexivity. Qed.

(* decide comparisons of closed kind codes *)
Ltac keq :=
  repeat match goal with
         | |- context [N.eqb ?a ?b] =>
           let v := eval vm_compute in (N.eqb a b) in
           match v with
           | true => change (N.eqb a b) with true
           | false => change (N.eqb a b) with false
           end
         end;
  cbv iota; cbn [andb orb negb].

(* ---------- values ---------- *)
Definition first_of_value (k : N) : bool :=
  existsb (N.eqb k) [K_DOLLAR; K_INT; K_FLOAT; K_STRING; K_BLOCK_STRING; K_NAME; K_BRACKET_L; K_BRACE_L].

Lemma hk_value S c v r :
  wf_value c v -> (forall k x, first_of_value k = true -> S (k, x) = true) -> hk S (toks_value v ++ r).
Proof.
  intros W H. destruct W; cbn [toks_value app]; unfold hk; cbn [tok_at]; try (apply H; reflexivity).
  - destruct b; apply H; reflexivity.
Qed.

Lemma toks_value_nonempty c v : wf_value c v -> 1 <= length (toks_value v).
Proof. intros W. destruct W; cbn [toks_value length]; try lia. Qed.

Lemma named_value_enum s : not_reserved_value s -> named_value s = Nd KEnumValue [AStr s].
Proof. intros (H1 & H2 & H3). unfold named_value. rewrite H1, H2, H3. reflexivity. Qed.

Definition PV (c : bool) (v : node) : Prop :=
  forall f r, length (toks_value v) <= f -> hk nle r -> run (value 0 f c) (toks_value v ++ r) v r.
Definition PVs (c : bool) (l : list node) : Prop :=
  forall fv g r, length (flat_map toks_value l) <= fv -> length l < g -> hk nle r ->
    run (until_close 0 g K_BRACKET_R (value 0 fv c)) (flat_map toks_value l ++ pt K_BRACKET_R :: r) l r.
Definition PFs (c : bool) (l : list node) : Prop :=
  forall fv g r, length (flat_map toks_object_field l) <= fv -> length l < g -> hk nle r ->
    run (until_close 0 g K_BRACE_R (object_field 0 (value 0 fv c)))
        (flat_map toks_object_field l ++ pt K_BRACE_R :: r) l r.

Lemma toks_object_value fs :
  toks_value (Nd KObjectValue [AList fs]) = pt K_BRACE_L :: flat_map toks_object_field fs ++ [pt K_BRACE_R].
Proof. reflexivity. Qed.

Lemma rt_value_all c :
  (forall v, wf_value c v -> PV c v) /\ (forall l, wf_values c l -> PVs c l) /\
  (forall l, wf_object_fields c l -> PFs c l).
Proof.
  apply wf_value_mutind.
  - (* variable *)
    intros n Hc [v] f r Hf Hr. destruct f as [|f]; [cbn in Hf; lia|].
    cbn [toks_value toks_name app value]. apply run_cur. cbn [tok_at fst snd pt nm]. keq. rewrite Hc.
    unfold variable. eapply run_bind; [apply run_expect_token; [reflexivity|reflexivity]|].
    eapply run_bind; [apply run_name; exact Hr|]. apply run_ret.
  - intros s f r Hf Hr. destruct f as [|f]; [cbn in Hf; lia|].
    cbn [toks_value app value]. apply run_cur. cbn [tok_at fst snd]. keq.
    eapply run_bind; [apply run_expect_token; [reflexivity|exact Hr]|]. apply run_ret.
  - intros s f r Hf Hr. destruct f as [|f]; [cbn in Hf; lia|].
    cbn [toks_value app value]. apply run_cur. cbn [tok_at fst snd]. keq.
    eapply run_bind; [apply run_expect_token; [reflexivity|exact Hr]|]. apply run_ret.
  - intros s b f r Hf Hr. destruct f as [|f]; [cbn in Hf; lia|].
    cbn [toks_value app value]. apply run_cur. destruct b; cbn [tok_at fst snd]; keq.
    + eapply run_bind; [apply run_expect_token; [reflexivity|exact Hr]|]. apply run_ret.
    + eapply run_bind; [apply run_expect_token; [reflexivity|exact Hr]|]. apply run_ret.
  - intros b f r Hf Hr. destruct f as [|f]; [cbn in Hf; lia|].
    cbn [toks_value app value]. apply run_cur. cbn [tok_at fst snd nm]. keq.
    eapply run_bind; [apply run_expect_token; [reflexivity|exact Hr]|].
    destruct b; apply run_ret.
  - intros f r Hf Hr. destruct f as [|f]; [cbn in Hf; lia|].
    cbn [toks_value app value]. apply run_cur. cbn [tok_at fst snd nm]. keq.
    eapply run_bind; [apply run_expect_token; [reflexivity|exact Hr]|]. apply run_ret.
  - intros s Hs f r Hf Hr. destruct f as [|f]; [cbn in Hf; lia|].
    cbn [toks_value app value]. apply run_cur. cbn [tok_at fst snd nm]. keq.
    eapply run_bind; [apply run_expect_token; [reflexivity|exact Hr]|].
    rewrite (named_value_enum _ Hs). apply run_ret.
  - (* list *)
    intros l HW IH f r Hf Hr. destruct f as [|f]; [cbn in Hf; lia|].
    cbn [toks_value value]. cbn [toks_value length] in Hf. rewrite app_length in Hf. cbn [length] in Hf.
    cbn [app]. apply run_cur. cbn [tok_at fst snd pt]. keq.
    eapply run_bind; [|apply run_ret].
    unfold any_. rewrite <- app_assoc. cbn [app].
    eapply run_bind.
    { apply run_expect_token; [reflexivity|].
      destruct HW as [|x l' Hx Hl']; [reflexivity|].
      cbn [flat_map]. rewrite <- app_assoc. eapply hk_value; [exact Hx|]. intros k y Hk.
      unfold first_of_value in Hk. unfold nle, nk. cbn [fst existsb].
      destruct (k =? K_LEXERR)%N eqn:E; [apply N.eqb_eq in E; subst k; discriminate|reflexivity]. }
    unfold loop_close. apply run_with_fuel. apply IH; [lia| |exact Hr].
    rewrite app_length. cbn [length].
    clear - HW. induction HW as [|v0 l0 Hv0 Hl0 IHl0]; cbn [flat_map length]; [lia|].
    rewrite app_length. pose proof (toks_value_nonempty _ _ Hv0). lia.
  - (* object *)
    intros l HW IH f r Hf Hr. destruct f as [|f]; [cbn in Hf; lia|].
    rewrite toks_object_value in *. cbn [value]. cbn [length] in Hf. rewrite app_length in Hf. cbn [length] in Hf.
    cbn [app]. apply run_cur. cbn [tok_at fst snd pt]. keq.
    eapply run_bind; [|apply run_ret].
    unfold any_. rewrite <- app_assoc. cbn [app].
    eapply run_bind.
    { apply run_expect_token; [reflexivity|].
      destruct HW as [|n v fs Hn Hv Hfs]; [reflexivity|].
      destruct Hn as [nv]. reflexivity. }
    unfold loop_close. apply run_with_fuel. apply IH; [lia| |exact Hr].
    rewrite app_length. cbn [length].
    clear - HW. induction HW as [|n0 v0 fs0 Hn0 Hv0 Hfs0 IH0]; cbn [flat_map length]; [lia|].
    rewrite app_length. destruct Hn0 as [nv]. cbn [toks_object_field toks_name app length]. lia.
  - (* values nil *)
    intros fv g r _ Hg Hr. destruct g as [|g]; [lia|].
    cbn [flat_map app until_close].
    eapply run_bind; [apply run_eot_yes; [reflexivity|exact Hr]|]. apply run_ret.
  - (* values cons *)
    intros v l Hv IHv Hl IHl fv g r Hfv Hg Hr. destruct g as [|g]; [lia|].
    cbn [flat_map length] in *. rewrite app_length in Hfv.
    cbn [until_close]. rewrite <- app_assoc.
    eapply run_bind.
    { apply run_eot_no. apply (hk_neq [K_BRACKET_R]); [|reflexivity].
      eapply hk_value; [exact Hv|]. intros k x Hk. unfold nk. cbn [fst existsb].
      destruct (k =? K_BRACKET_R)%N eqn:E; [apply N.eqb_eq in E; subst k; discriminate|reflexivity]. }
    cbv iota.
    eapply run_bind.
    { apply IHv; [lia|].
      destruct Hl as [|v' l' Hv' Hl']; [reflexivity|].
      cbn [flat_map]. rewrite <- app_assoc. eapply hk_value; [exact Hv'|]. intros k x Hk.
      unfold nle, nk. cbn [fst existsb].
      destruct (k =? K_LEXERR)%N eqn:E; [apply N.eqb_eq in E; subst k; discriminate|reflexivity]. }
    eapply run_bind; [apply IHl; [lia|lia|exact Hr]|]. apply run_ret.
  - (* fields nil *)
    intros fv g r _ Hg Hr. destruct g as [|g]; [lia|].
    cbn [flat_map app until_close].
    eapply run_bind; [apply run_eot_yes; [reflexivity|exact Hr]|]. apply run_ret.
  - (* fields cons *)
    intros n v fs Hn Hv IHv Hfs IHfs fv g r Hfv Hg Hr. destruct g as [|g]; [lia|].
    destruct Hn as [nv].
    cbn [flat_map length toks_object_field toks_name] in *. rewrite app_length in Hfv.
    cbn [app length] in Hfv.
    cbn [until_close app]. rewrite <- app_assoc.
    eapply run_bind; [apply run_eot_no; reflexivity|]. cbv iota.
    eapply run_bind.
    { unfold object_field. eapply run_bind; [apply run_name; reflexivity|].
      eapply run_bind.
      { apply run_expect_token; [reflexivity|].
        eapply hk_value; [exact Hv|]. intros k x Hk. unfold nle, nk. cbn [fst existsb].
        destruct (k =? K_LEXERR)%N eqn:E; [apply N.eqb_eq in E; subst k; discriminate|reflexivity]. }
      eapply run_bind; [|apply run_ret].
      apply IHv; [lia|].
      destruct Hfs as [|n' v' fs' Hn' Hv' Hfs']; [reflexivity|]. destruct Hn' as [nv']. reflexivity. }
    eapply run_bind; [apply IHfs; [lia|lia|exact Hr]|]. apply run_ret.
Qed.

Lemma rt_value c v r f : wf_value c v -> length (toks_value v) <= f -> hk nle r ->
  run (value 0 f c) (toks_value v ++ r) v r.
Proof. intros W. apply (proj1 (rt_value_all c) v W). Qed.

Lemma rt_value_literal c v r : wf_value c v -> hk nle r ->
  run (value_literal 0 c) (toks_value v ++ r) v r.
Proof.
  intros W Hr. unfold value_literal. apply run_with_fuel. apply rt_value; [exact W| |exact Hr].
  rewrite app_length. lia.
Qed.

(* first-token conditions of the form "kind not in ks" *)
Definition avoids (first : N -> bool) (ks : list N) : bool := forallb (fun k => negb (first k)) ks.

Lemma avoids_nk first ks k x : avoids first ks = true -> first k = true -> nk ks (k, x) = true.
Proof.
  unfold avoids, nk. intros H Hk. cbn [fst]. apply negb_true_iff.
  destruct (existsb (N.eqb k) ks) eqn:E; [|reflexivity].
  apply existsb_exists in E as (k' & Hin & Hk'). apply N.eqb_eq in Hk'. subst k'.
  rewrite forallb_forall in H. apply H in Hin. rewrite Hk in Hin. discriminate.
Qed.

Lemma hk_value_nk c v r ks : wf_value c v -> avoids first_of_value ks = true -> hk (nk ks) (toks_value v ++ r).
Proof. intros W H. eapply hk_value; [exact W|]. intros k x Hk. eapply avoids_nk; eauto. Qed.

Lemma hk_name_nk n r ks : wf_name n -> avoids (N.eqb K_NAME) ks = true -> hk (nk ks) (toks_name n ++ r).
Proof. intros [v] H. unfold hk. cbn [toks_name app tok_at]. eapply avoids_nk; [exact H|]. apply N.eqb_refl. Qed.

Ltac norm := repeat (first [rewrite <- app_assoc | progress cbn [app]]).
Lemma incl_cons_self (c : N) (ks : list N) :
  forallb (fun k => existsb (N.eqb k) (c :: ks)) ks = true.
Proof.
  apply forallb_forall. intros k Hin. cbn [existsb]. apply orb_true_iff. right.
  apply existsb_exists. exists k. split; [exact Hin|apply N.eqb_refl].
Qed.

Ltac len_norm H := repeat (first [rewrite app_length in H | progress cbn [length app] in H]).

(* ---------- types ---------- *)
Definition first_of_type (k : N) : bool := existsb (N.eqb k) [K_NAME; K_BRACKET_L].

Lemma hk_type_nk t r ks : wf_type t -> avoids first_of_type ks = true -> hk (nk ks) (toks_type t ++ r).
Proof.
  intros W H. unfold hk.
  destruct W as [n [v]|t W|n [v]|t W]; cbn [toks_type toks_name app tok_at];
    (eapply avoids_nk; [exact H|reflexivity]).
Qed.

Lemma toks_type_nonempty t : wf_type t -> 1 <= length (toks_type t).
Proof.
  intros W. destruct W as [n [v]|t W|n [v]|t W]; cbn [toks_type toks_name length app]; lia.
Qed.

Definition fol_type : list N := [K_LEXERR; K_BANG].

Lemma rt_type_ref t : wf_type t ->
  forall f r, length (toks_type t) <= f -> hk (nk fol_type) r -> run (type_ref 0 f) (toks_type t ++ r) t r.
Proof.
  intros W. induction W as [n [v]|t W IH|n [v]|t W IH]; intros f r Hf Hr;
    (destruct f as [|f]; [cbn [toks_type toks_name length app] in Hf; try rewrite app_length in Hf; cbn in Hf; lia|]).
  - cbn [toks_type toks_name app type_ref].
    eapply run_bind; [apply run_eot_no; reflexivity|]. cbv iota.
    eapply run_bind.
    { unfold named_type. eapply run_bind; [apply run_name|apply run_ret].
      eapply hk_nk_incl; [|exact Hr]. reflexivity. }
    eapply run_bind; [apply run_eot_no; apply (hk_neq fol_type); [exact Hr|reflexivity]|]. apply run_ret.
  - cbn [toks_type app type_ref]. cbn [toks_type] in Hf. len_norm Hf.
    norm.
    eapply run_bind.
    { apply run_eot_yes; [reflexivity|]. apply hk_type_nk; [exact W|reflexivity]. }
    cbv iota. eapply run_bind.
    { eapply run_bind; [apply IH; [lia|reflexivity]|].
      eapply run_bind; [apply run_expect_token; [reflexivity|]|apply run_ret].
      eapply hk_nk_incl; [|exact Hr]. reflexivity. }
    eapply run_bind; [apply run_eot_no; apply (hk_neq fol_type); [exact Hr|reflexivity]|]. apply run_ret.
  - cbn [toks_type toks_name app type_ref].
    eapply run_bind; [apply run_eot_no; reflexivity|]. cbv iota.
    eapply run_bind.
    { unfold named_type. eapply run_bind; [apply run_name; reflexivity|apply run_ret]. }
    eapply run_bind; [apply run_eot_yes; [reflexivity|]|apply run_ret].
    eapply hk_nk_incl; [|exact Hr]. reflexivity.
  - cbn [toks_type app type_ref]. cbn [toks_type] in Hf. len_norm Hf.
    norm.
    eapply run_bind.
    { apply run_eot_yes; [reflexivity|]. apply hk_type_nk; [exact W|reflexivity]. }
    cbv iota. eapply run_bind.
    { eapply run_bind; [apply IH; [lia|reflexivity]|].
      eapply run_bind; [apply run_expect_token; [reflexivity|reflexivity]|apply run_ret]. }
    eapply run_bind; [apply run_eot_yes; [reflexivity|]|apply run_ret].
    eapply hk_nk_incl; [|exact Hr]. reflexivity.
Qed.

Lemma rt_type_reference t r : wf_type t -> hk (nk fol_type) r ->
  run (type_reference 0) (toks_type t ++ r) t r.
Proof.
  intros W Hr. unfold type_reference. apply run_with_fuel. apply rt_type_ref; [exact W| |exact Hr].
  rewrite app_length. lia.
Qed.

Lemma rt_named_type t r : wf_named_type t -> hk nle r -> run (named_type 0) (toks_type t ++ r) t r.
Proof.
  intros [n [v]] Hr. cbn [toks_type toks_name app]. unfold named_type.
  eapply run_bind; [apply run_name; exact Hr|apply run_ret].
Qed.

Lemma hk_named_type_nk t r ks : wf_named_type t -> avoids (N.eqb K_NAME) ks = true -> hk (nk ks) (toks_type t ++ r).
Proof. intros [n W] H. cbn [toks_type]. apply hk_name_nk; assumption. Qed.

(* ---------- generic list loops over Forall ---------- *)
Section Loops.
Variable p : P node.
Variable toksI : node -> list sigtok.
Variable Pn : node -> Prop.
Variable fol : list N.          (* what must not follow an item *)
Hypothesis fol_lexerr : existsb (N.eqb K_LEXERR) fol = true.
Hypothesis item_rt : forall x r, Pn x -> hk (nk fol) r -> run p (toksI x ++ r) x r.

Lemma fol_nle l : hk (nk fol) l -> hk nle l.
Proof.
  apply hk_nk_incl. cbn [forallb]. rewrite fol_lexerr. reflexivity.
Qed.

Section Close.
Variable close : N.
Hypothesis close_ne : (close =? K_EOF)%N = false.
Hypothesis item_first : forall x r, Pn x -> hk (nk (close :: fol)) (toksI x ++ r).
Hypothesis close_fol : nk fol (close, []) = true.

Lemma item_nonempty x : Pn x -> 1 <= length (toksI x).
Proof.
  intros Hx. pose proof (item_first x [pt close] Hx) as H.
  destruct (toksI x); [|cbn; lia]. exfalso. unfold hk, nk in H. cbn in H.
  rewrite N.eqb_refl in H. discriminate.
Qed.

Lemma flat_map_length_ge l : Forall Pn l -> length l <= length (flat_map toksI l).
Proof.
  induction 1 as [|x l Hx Hl IH]; cbn [flat_map length]; [lia|].
  rewrite app_length. pose proof (item_nonempty x Hx). lia.
Qed.

Lemma hk_items ks l r :
  Forall Pn l -> forallb (fun k => existsb (N.eqb k) (close :: fol)) ks = true ->
  hk (nk ks) (pt close :: r) -> hk (nk ks) (flat_map toksI l ++ pt close :: r).
Proof.
  intros Hl Hks Hr. destruct Hl as [|x l Hx Hl]; [exact Hr|].
  cbn [flat_map]. rewrite <- app_assoc. eapply hk_nk_incl; [exact Hks|]. apply item_first. exact Hx.
Qed.

Lemma rt_until_close l : Forall Pn l -> forall g r, length l < g -> hk nle r ->
  run (until_close 0 g close p) (flat_map toksI l ++ pt close :: r) l r.
Proof.
  induction 1 as [|x l Hx Hl IH]; intros g r Hg Hr; (destruct g as [|g]; [cbn in Hg; lia|]).
  - cbn [flat_map app until_close].
    eapply run_bind; [apply run_eot_yes; [exact close_ne|exact Hr]|]. apply run_ret.
  - cbn [flat_map until_close]. rewrite <- app_assoc.
    eapply run_bind.
    { apply run_eot_no. apply (hk_neq (close :: fol)); [apply item_first; exact Hx|].
      cbn [existsb]. rewrite N.eqb_refl. reflexivity. }
    cbv iota. eapply run_bind.
    { apply item_rt; [exact Hx|].
      apply hk_items; [exact Hl| |exact close_fol].
      apply incl_cons_self. }
    eapply run_bind; [apply IH; [cbn in Hg; lia|exact Hr]|]. apply run_ret.
Qed.

Lemma rt_loop_close l r : Forall Pn l -> hk nle r ->
  run (loop_close 0 close p) (flat_map toksI l ++ pt close :: r) l r.
Proof.
  intros Hl Hr. unfold loop_close. apply run_with_fuel. apply rt_until_close; [exact Hl| |exact Hr].
  rewrite app_length. pose proof (flat_map_length_ge l Hl). cbn [length]. lia.
Qed.

Variable open : N.
Hypothesis open_ne : (open =? K_EOF)%N = false.

Definition attr_list (a : attr) : option (list node) :=
  match a with AList l => Some l | _ => None end.

Lemma rt_optional_many_gen a r :
  wf_nelist Pn a -> hk nle r -> (is_block a = false -> hk (nk [open]) r) ->
  run (optional_many 0 open p close) (toks_block open toksI close a ++ r) (attr_list a) r.
Proof.
  intros W Hr Ho. destruct W as [|x l Hx Hl].
  - cbn [toks_block app attr_list]. unfold optional_many.
    eapply run_bind; [apply run_eot_no; apply (hk_neq [open]); [exact (Ho eq_refl)|]|apply run_ret].
    cbn [existsb]. rewrite N.eqb_refl. reflexivity.
  - cbn [toks_block attr_list flat_map]. norm. unfold optional_many.
    eapply run_bind.
    { apply run_eot_yes; [exact open_ne|]. apply fol_nle. eapply hk_nk_incl; [|apply (item_first x); exact Hx].
      apply incl_cons_self. }
    cbv iota. eapply run_bind.
    { apply item_rt; [exact Hx|].
      apply hk_items; [exact Hl| |exact close_fol].
      apply incl_cons_self. }
    eapply run_bind; [apply rt_loop_close; [exact Hl|exact Hr]|apply run_ret].
Qed.

Lemma rt_optional_many a r :
  wf_nelist Pn a -> hk (nk [K_LEXERR; open]) r ->
  run (optional_many 0 open p close) (toks_block open toksI close a ++ r) (attr_list a) r.
Proof.
  intros W Hr. apply rt_optional_many_gen; [exact W| |intros _].
  - eapply hk_nk_incl; [|exact Hr]. reflexivity.
  - eapply hk_nk_incl; [|exact Hr]. cbn [forallb existsb]. rewrite N.eqb_refl. rewrite orb_true_r. reflexivity.
Qed.

Lemma rt_many x l r :
  Pn x -> Forall Pn l -> hk nle r ->
  run (many 0 open p close) (pt open :: flat_map toksI (x :: l) ++ pt close :: r) (x :: l) r.
Proof.
  intros Hx Hl Hr. unfold many. cbn [flat_map]. rewrite <- app_assoc.
  eapply run_bind.
  { apply run_expect_token; [exact open_ne|]. apply fol_nle. eapply hk_nk_incl; [|apply (item_first x); exact Hx].
    apply incl_cons_self. }
  eapply run_bind.
  { apply item_rt; [exact Hx|].
    apply hk_items; [exact Hl| |exact close_fol].
    apply incl_cons_self. }
  eapply run_bind; [apply rt_loop_close; [exact Hl|exact Hr]|apply run_ret].
Qed.

End Close.
End Loops.

Section Loops2.
Variable p : P node.
Variable toksI : node -> list sigtok.
Variable Pn : node -> Prop.
Variable fol : list N.
Hypothesis fol_lexerr : existsb (N.eqb K_LEXERR) fol = true.
Hypothesis item_rt : forall x r, Pn x -> hk (nk fol) r -> run p (toksI x ++ r) x r.

(* while peek(k): every item starts with the punctuator k *)
Section While.
Variable k : N.
Hypothesis item_starts : forall x, Pn x -> exists tl, toksI x = pt k :: tl.
Hypothesis k_fol : nk fol (k, []) = true.

Lemma hk_while_items ks l r :
  Forall Pn l -> nk ks (k, []) = true -> hk (nk ks) r -> hk (nk ks) (flat_map toksI l ++ r).
Proof.
  intros Hl Hk Hr. destruct Hl as [|x l Hx Hl]; [exact Hr|].
  cbn [flat_map]. destruct (item_starts x Hx) as [tl ->]. exact Hk.
Qed.

Lemma rt_while_peek l : Forall Pn l -> forall g r, length l < g -> hk (nk (k :: fol)) r ->
  run (while_peek g k p) (flat_map toksI l ++ r) l r.
Proof.
  induction 1 as [|x l Hx Hl IH]; intros g r Hg Hr; (destruct g as [|g]; [cbn in Hg; lia|]).
  - cbn [flat_map app while_peek]. apply run_cur.
    assert (E : (kind_at r =? k)%N = false).
    { apply (hk_neq (k :: fol)); [exact Hr|]. cbn [existsb]. rewrite N.eqb_refl. reflexivity. }
    unfold kind_at in E. rewrite E. apply run_ret.
  - cbn [flat_map while_peek]. rewrite <- app_assoc. apply run_cur.
    destruct (item_starts x Hx) as [tl Etl]. rewrite Etl at 1. cbn [app tok_at pt fst].
    rewrite N.eqb_refl.
    eapply run_bind.
    { apply item_rt; [exact Hx|]. apply hk_while_items; [exact Hl|exact k_fol|].
      eapply hk_nk_incl; [|exact Hr]. apply incl_cons_self. }
    eapply run_bind; [apply IH; [cbn in Hg; lia|exact Hr]|]. apply run_ret.
Qed.

Lemma while_items_length l : Forall Pn l -> length l <= length (flat_map toksI l).
Proof.
  induction 1 as [|x l Hx Hl IH]; cbn [flat_map length]; [lia|].
  rewrite app_length. destruct (item_starts x Hx) as [tl ->]. cbn [length]. lia.
Qed.
End While.

(* items separated by the punctuator sep *)
Section Delim.
Variable sep : N.
Hypothesis sep_ne : (sep =? K_EOF)%N = false.
Hypothesis sep_fol : nk fol (sep, []) = true.
Hypothesis item_first : forall x r, Pn x -> hk (nk [K_LEXERR; sep]) (toksI x ++ r).

Lemma rt_delim_loop l : Forall Pn l -> forall x g r, Pn x -> length l < g -> hk (nk (sep :: fol)) r ->
  run (delim_loop 0 g sep p) (toks_sep sep toksI (x :: l) ++ r) (x :: l) r.
Proof.
  induction 1 as [|y l Hy Hl IH]; intros x g r Hx Hg Hr; (destruct g as [|g]; [cbn in Hg; lia|]).
  - cbn [toks_sep delim_loop].
    eapply run_bind.
    { apply item_rt; [exact Hx|]. eapply hk_nk_incl; [|exact Hr]. apply incl_cons_self. }
    eapply run_bind.
    { apply run_eot_no. apply (hk_neq (sep :: fol)); [exact Hr|]. cbn [existsb]. rewrite N.eqb_refl. reflexivity. }
    apply run_ret.
  - change (toks_sep sep toksI (x :: y :: l)) with (toksI x ++ pt sep :: toks_sep sep toksI (y :: l)).
    cbn [delim_loop]. norm.
    eapply run_bind; [apply item_rt; [exact Hx|exact sep_fol]|].
    eapply run_bind.
    { apply run_eot_yes; [exact sep_ne|].
      assert (Hh : hk (nk [K_LEXERR; sep]) (toks_sep sep toksI (y :: l) ++ r)).
      { destruct l as [|z l']; [apply item_first; exact Hy|].
        change (toks_sep sep toksI (y :: z :: l')) with (toksI y ++ pt sep :: toks_sep sep toksI (z :: l')).
        rewrite <- app_assoc. apply item_first. exact Hy. }
      eapply hk_nk_incl; [|exact Hh]. reflexivity. }
    cbv iota.
    eapply run_bind; [apply IH; [exact Hy|cbn in Hg; lia|exact Hr]|]. apply run_ret.
Qed.

Lemma toks_sep_length l x : length l <= length (toks_sep sep toksI (x :: l)).
Proof.
  revert x. induction l as [|y l IH]; intros x; [cbn; lia|].
  change (toks_sep sep toksI (x :: y :: l)) with (toksI x ++ pt sep :: toks_sep sep toksI (y :: l)).
  rewrite app_length. cbn [length]. specialize (IH y). lia.
Qed.

Lemma rt_delimited_many x l r : Pn x -> Forall Pn l -> hk (nk (sep :: fol)) r ->
  run (delimited_many 0 sep p) (toks_sep sep toksI (x :: l) ++ r) (x :: l) r.
Proof.
  intros Hx Hl Hr. unfold delimited_many.
  assert (Hh : hk (nk [K_LEXERR; sep]) (toks_sep sep toksI (x :: l) ++ r)).
  { destruct l as [|z l']; [apply item_first; exact Hx|].
    change (toks_sep sep toksI (x :: z :: l')) with (toksI x ++ pt sep :: toks_sep sep toksI (z :: l')).
    rewrite <- app_assoc. apply item_first. exact Hx. }
  eapply run_bind.
  { apply run_eot_no. apply (hk_neq [K_LEXERR; sep]); [exact Hh|]. cbn [existsb]. rewrite N.eqb_refl. apply orb_true_r. }
  apply run_with_fuel. apply rt_delim_loop; [exact Hl|exact Hx| |exact Hr].
  rewrite app_length. pose proof (toks_sep_length l x). lia.
Qed.
End Delim.
End Loops2.

Lemma oattr_attr_list Pn a : wf_nelist Pn a -> oattr (attr_list a) = a.
Proof. intros [|x l Hx Hl]; reflexivity. Qed.

(* ---------- arguments ---------- *)
Lemma rt_argument c a r : wf_argument c a -> hk nle r -> run (argument 0 c) (toks_argument a ++ r) a r.
Proof.
  intros [n v [nv] Hv] Hr. cbn [toks_argument toks_name]. norm. unfold argument.
  eapply run_bind; [apply run_name; reflexivity|].
  eapply run_bind; [apply run_expect_token; [reflexivity|eapply hk_value_nk; [exact Hv|reflexivity]]|].
  eapply run_bind; [apply rt_value_literal; [exact Hv|exact Hr]|apply run_ret].
Qed.

Lemma argument_first c a r ks : wf_argument c a -> avoids (N.eqb K_NAME) ks = true ->
  hk (nk ks) (toks_argument a ++ r).
Proof.
  intros [n v [nv] Hv] H. cbn [toks_argument toks_name]. norm. unfold hk. cbn [tok_at].
  eapply avoids_nk; [exact H|apply N.eqb_refl].
Qed.

Lemma rt_arguments c a r : wf_arguments c a -> hk (nk [K_LEXERR; K_PAREN_L]) r ->
  run (arguments 0 c) (toks_arguments a ++ r) (attr_list a) r.
Proof.
  intros W Hr. unfold arguments, toks_arguments.
  apply (rt_optional_many (argument 0 c) toks_argument (wf_argument c) [K_LEXERR]); try reflexivity; try assumption.
  - intros x r0 Hx Hr0. apply rt_argument; assumption.
  - intros x r0 Hx. eapply argument_first; [exact Hx|reflexivity].
Qed.

Lemma hk_arguments_nk (Pn : node -> Prop) a r ks : wf_nelist Pn a -> nk ks (K_PAREN_L, []) = true ->
  hk (nk ks) r -> hk (nk ks) (toks_arguments a ++ r).
Proof. intros [|x l Hx Hl] Hk Hr; [exact Hr|exact Hk]. Qed.

Lemma rt_fragment_argument a r : wf_fragment_argument a -> hk nle r ->
  run (fragment_argument 0) (toks_argument a ++ r) a r.
Proof.
  intros [n v [nv] Hv] Hr. cbn [toks_argument toks_name]. norm. unfold fragment_argument.
  eapply run_bind; [apply run_name; reflexivity|].
  eapply run_bind; [apply run_expect_token; [reflexivity|eapply hk_value_nk; [exact Hv|reflexivity]]|].
  eapply run_bind; [apply rt_value_literal; [exact Hv|exact Hr]|apply run_ret].
Qed.

Lemma rt_fragment_arguments a r : wf_nelist wf_fragment_argument a -> hk (nk [K_LEXERR; K_PAREN_L]) r ->
  run (fragment_arguments 0) (toks_arguments a ++ r) (attr_list a) r.
Proof.
  intros W Hr. unfold fragment_arguments, toks_arguments.
  apply (rt_optional_many (fragment_argument 0) toks_argument wf_fragment_argument [K_LEXERR]); try reflexivity; try assumption.
  - intros x r0 Hx Hr0. apply rt_fragment_argument; assumption.
  - intros x r0 [n v [nv] Hv]. reflexivity.
Qed.

(* ---------- directives ---------- *)
Definition fol_directive : list N := [K_LEXERR; K_PAREN_L].

Lemma rt_directive c d r : wf_directive c d -> hk (nk fol_directive) r ->
  run (directive 0 c) (toks_directive d ++ r) d r.
Proof.
  intros [n a [nv] Ha] Hr. cbn [toks_directive toks_name]. norm. unfold directive.
  eapply run_bind; [apply run_expect_token; reflexivity|].
  eapply run_bind.
  { apply run_name. eapply hk_arguments_nk; [exact Ha|reflexivity|].
    eapply hk_nk_incl; [|exact Hr]. reflexivity. }
  eapply run_bind; [apply rt_arguments; [exact Ha|exact Hr]|].
  rewrite (oattr_attr_list _ _ Ha). apply run_ret.
Qed.

Definition fol_directives : list N := K_AT :: fol_directive.

Lemma lattr_nelist Pn a : wf_nelist Pn a ->
  lattr (match a with AList l => l | _ => [] end) = a.
Proof. intros [|x l Hx Hl]; reflexivity. Qed.

Lemma rt_directives c a r : wf_directives c a -> hk (nk fol_directives) r ->
  run (directives 0 c) (toks_directives a ++ r) a r.
Proof.
  intros W Hr. unfold directives.
  assert (G : forall l, Forall (wf_directive c) l -> forall g, length l < g ->
            run (while_peek g K_AT (directive 0 c)) (flat_map toks_directive l ++ r) l r).
  { intros l Hl g Hg.
    apply (rt_while_peek (directive 0 c) toks_directive (wf_directive c) fol_directive); try reflexivity; try assumption.
    - intros x r0 Hx Hr0. apply rt_directive; assumption.
    - intros x [n a0 Hn Ha]. eexists. reflexivity. }
  destruct W as [|x l Hx Hl].
  - eapply run_bind; [apply run_with_fuel; apply (G []); [constructor|cbn; lia]|]. apply run_ret.
  - assert (R : run (with_fuel (fun f => while_peek f K_AT (directive 0 c)))
                    (toks_directives (AList (x :: l)) ++ r) (x :: l) r).
    { apply run_with_fuel. unfold toks_directives, toks_list. apply G; [constructor; assumption|].
      rewrite app_length.
      pose proof (while_items_length toks_directive (wf_directive c) K_AT) as L.
      specialize (L ltac:(intros y [n a0 Hn Ha]; eexists; reflexivity) (x :: l) ltac:(constructor; assumption)).
      lia. }
    eapply run_bind; [exact R|apply run_ret].
Qed.

Lemma hk_directives_nk c a r ks : wf_directives c a -> nk ks (K_AT, []) = true ->
  hk (nk ks) r -> hk (nk ks) (toks_directives a ++ r).
Proof.
  intros [|x l Hx Hl] Hk Hr; [exact Hr|].
  destruct Hx as [n a0 Hn Ha]. exact Hk.
Qed.

(* ---------- descriptions, default values ---------- *)
Definition fol_description : list N := [K_LEXERR; K_STRING; K_BLOCK_STRING].

Lemma rt_description d r : wf_description d -> hk (nk fol_description) r ->
  run (description 0) (toks_description d ++ r) d r.
Proof.
  intros [|s [v b]] Hr.
  - cbn [toks_description toks_opt app]. unfold description. apply run_cur. unfold peek_description.
    pose proof (hk_neq _ _ K_STRING Hr eq_refl) as E1. pose proof (hk_neq _ _ K_BLOCK_STRING Hr eq_refl) as E2.
    unfold kind_at in E1, E2. rewrite E1, E2. apply run_ret.
  - cbn [toks_description toks_opt toks_value app]. unfold description. apply run_cur.
    assert (Hn : hk nle r) by (eapply hk_nk_incl; [|exact Hr]; reflexivity).
    destruct b; cbn [tok_at fst snd peek_description]; unfold peek_description; cbn [fst]; keq.
    + eapply run_bind; [|apply run_ret]. unfold string_literal. apply run_cur. cbn [tok_at fst snd].
      eapply run_bind; [apply run_adv; [reflexivity|exact Hn]|]. keq. apply run_ret.
    + eapply run_bind; [|apply run_ret]. unfold string_literal. apply run_cur. cbn [tok_at fst snd].
      eapply run_bind; [apply run_adv; [reflexivity|exact Hn]|]. keq. apply run_ret.
Qed.

Lemma hk_description_nk d r ks : wf_description d ->
  nk ks (K_STRING, []) = true -> nk ks (K_BLOCK_STRING, []) = true ->
  hk (nk ks) r -> hk (nk ks) (toks_description d ++ r).
Proof.
  intros [|s [v b]] H1 H2 Hr; [exact Hr|]. destruct b; [exact H2|exact H1].
Qed.

Lemma run_default {B} dv r (K : attr -> P B) b r' :
  wf_opt (wf_value true) dv -> hk (nk [K_LEXERR; K_EQUALS]) r -> run (K dv) r b r' ->
  run (e <- expect_optional_token 0 K_EQUALS ;;
       x <- (if e then y <- value_literal 0 true ;; ret (ANode y) else ret ANone) ;; K x)
      (toks_default dv ++ r) b r'.
Proof.
  intros [|v Hv] Hr HK.
  - cbn [toks_default app].
    eapply run_bind; [apply run_eot_no; apply (hk_neq _ _ K_EQUALS Hr eq_refl)|]. cbv iota.
    eapply run_bind; [apply run_ret|exact HK].
  - cbn [toks_default]. norm.
    eapply run_bind; [apply run_eot_yes; [reflexivity|eapply hk_value_nk; [exact Hv|reflexivity]]|]. cbv iota.
    eapply run_bind; [|exact HK].
    eapply run_bind; [apply rt_value_literal; [exact Hv|]|apply run_ret].
    eapply hk_nk_incl; [|exact Hr]. reflexivity.
Qed.

Lemma hk_default_nk dv r ks : wf_opt (wf_value true) dv -> nk ks (K_EQUALS, []) = true ->
  hk (nk ks) r -> hk (nk ks) (toks_default dv ++ r).
Proof. intros [|v Hv] Hk Hr; [exact Hr|exact Hk]. Qed.

(* ---------- selection sets ---------- *)
Section Executable.
Variable xfa xdd : bool.

Lemma toks_selection_set_eq x l :
  toks_selection_set (Nd KSelectionSet [AList (x :: l)]) =
  pt K_BRACE_L :: flat_map toks_selection (x :: l) ++ [pt K_BRACE_R].
Proof. reflexivity. Qed.

Lemma toks_selection_set_cons s : wf_selection_set xfa s -> exists tl, toks_selection_set s = pt K_BRACE_L :: tl.
Proof. intros [x l Hx Hl]. rewrite toks_selection_set_eq. eexists. reflexivity. Qed.

Definition alias_toks (al : attr) : list sigtok :=
  match al with ANode an => toks_name an ++ [pt K_COLON] | _ => [] end.

Lemma toks_field d n al a ss :
  toks_selection (Nd KField [d; ANode n; al; a; ss]) =
  alias_toks al ++ toks_name n ++ toks_arguments a ++ toks_directives d ++
  match ss with ANode y => toks_selection_set y | _ => [] end.
Proof. reflexivity. Qed.

Definition first_of_selection (k : N) : bool := existsb (N.eqb k) [K_NAME; K_SPREAD].

Lemma hk_selection_nk x r ks : wf_selection xfa x -> avoids first_of_selection ks = true ->
  hk (nk ks) (toks_selection x ++ r).
Proof.
  intros W H. unfold hk.
  destruct W as [d n al a Hd [nv] Hal Ha|d n al a s Hd [nv] Hal Ha Hs|d n a Hd [nv Hon] Ha|d s tc Hd Hs Htc].
  - rewrite toks_field. destruct Hal as [|an [av]]; cbn [alias_toks toks_name app tok_at];
      (eapply avoids_nk; [exact H|reflexivity]).
  - rewrite toks_field. destruct Hal as [|an [av]]; cbn [alias_toks toks_name app tok_at];
      (eapply avoids_nk; [exact H|reflexivity]).
  - cbn [toks_selection app tok_at]. eapply avoids_nk; [exact H|reflexivity].
  - cbn [toks_selection app tok_at]. eapply avoids_nk; [exact H|reflexivity].
Qed.

Lemma toks_selection_nonempty x : wf_selection xfa x -> 1 <= length (toks_selection x).
Proof.
  intros W.
  destruct W as [d n al a Hd [nv] Hal Ha|d n al a s Hd [nv] Hal Ha Hs|d n a Hd [nv Hon] Ha|d s tc Hd Hs Htc].
  - rewrite toks_field. rewrite !app_length. cbn [toks_name length]. lia.
  - rewrite toks_field. rewrite !app_length. cbn [toks_name length]. lia.
  - cbn [toks_selection length]. lia.
  - cbn [toks_selection length]. lia.
Qed.

Lemma run_alias {B} al n r (K : attr * node -> P B) b r' :
  wf_opt wf_name al -> wf_name n -> hk (nk [K_LEXERR; K_COLON]) r -> run (K (al, n)) r b r' ->
  run (n1 <- name 0 ;; c <- expect_optional_token 0 K_COLON ;;
       an <- (if c then n2 <- name 0 ;; ret (ANode n1, n2) else ret (ANone, n1)) ;; K an)
      (alias_toks al ++ toks_name n ++ r) b r'.
Proof.
  intros Hal [nv] Hr HK. assert (Hn : hk nle r) by (eapply hk_nk_incl; [|exact Hr]; reflexivity).
  destruct Hal as [|an [av]].
  - cbn [alias_toks toks_name app].
    eapply run_bind; [apply run_name; exact Hn|].
    eapply run_bind; [apply run_eot_no; apply (hk_neq _ _ K_COLON Hr eq_refl)|]. cbv iota.
    eapply run_bind; [apply run_ret|exact HK].
  - cbn [alias_toks toks_name app].
    eapply run_bind; [apply run_name; reflexivity|].
    eapply run_bind; [apply run_eot_yes; reflexivity|]. cbv iota.
    eapply run_bind; [|exact HK].
    eapply run_bind; [apply run_name; exact Hn|apply run_ret].
Qed.

Definition fol_selection : list N := [K_LEXERR; K_COLON; K_PAREN_L; K_AT; K_BRACE_L].

Definition PSS (s : node) : Prop :=
  forall f r, length (toks_selection_set s) <= f -> hk nle r ->
    run (sel_set 0 xfa f) (toks_selection_set s ++ r) s r.
Definition PSL (l : list node) : Prop :=
  forall fs g r, length (flat_map toks_selection l) <= fs -> length l < g -> hk nle r ->
    run (until_close 0 g K_BRACE_R (selection 0 xfa (sel_set 0 xfa fs)))
        (flat_map toks_selection l ++ pt K_BRACE_R :: r) l r.
Definition PS (x : node) : Prop :=
  forall fs r, length (toks_selection x) <= fs -> hk (nk fol_selection) r ->
    run (selection 0 xfa (sel_set 0 xfa fs)) (toks_selection x ++ r) x r.

Lemma hk_selections_nk l r ks : wf_selections xfa l -> avoids first_of_selection ks = true ->
  nk ks (K_BRACE_R, []) = true -> hk (nk ks) (flat_map toks_selection l ++ pt K_BRACE_R :: r).
Proof.
  intros [|x l' Hx Hl] H1 H2; [exact H2|].
  cbn [flat_map]. rewrite <- app_assoc. apply hk_selection_nk; assumption.
Qed.

Lemma selections_length l : wf_selections xfa l -> length l <= length (flat_map toks_selection l).
Proof.
  induction 1 as [|x l Hx Hl IH]; cbn [flat_map length]; [lia|].
  rewrite app_length. pose proof (toks_selection_nonempty x Hx). lia.
Qed.

(* name, alias, arguments and directives of a field; [tl] is what follows the directives *)
Ltac field_prefix Hal Hn Ha Hd Htl :=
  unfold field;
  apply run_alias; [exact Hal|exact Hn| |];
  [ eapply hk_arguments_nk; [exact Ha|reflexivity|];
    apply (hk_directives_nk false); [exact Hd|reflexivity|];
    eapply hk_nk_incl; [|exact Htl]; reflexivity
  | eapply run_bind;
    [ apply rt_arguments; [exact Ha|];
      apply (hk_directives_nk false); [exact Hd|reflexivity|];
      eapply hk_nk_incl; [|exact Htl]; reflexivity
    | eapply run_bind;
      [ apply rt_directives; [exact Hd|]; eapply hk_nk_incl; [|exact Htl]; reflexivity | ] ] ].

Lemma rt_selection_all :
  (forall s, wf_selection_set xfa s -> PSS s) /\ (forall l, wf_selections xfa l -> PSL l) /\ (forall x, wf_selection xfa x -> PS x).
Proof.
  apply wf_selection_mutind.
  - (* selection set *)
    intros x l Hx IHx Hl IHl f r Hf Hr. rewrite toks_selection_set_eq in *.
    destruct f as [|f]; [cbn in Hf; lia|]. len_norm Hf.
    cbn [sel_set]. eapply run_bind; [|apply run_ret].
    unfold many. cbn [flat_map] in *. len_norm Hf. norm.
    eapply run_bind.
    { apply run_expect_token; [reflexivity|]. apply hk_selection_nk; [exact Hx|reflexivity]. }
    eapply run_bind.
    { apply IHx; [lia|]. apply hk_selections_nk; [exact Hl|reflexivity|reflexivity]. }
    eapply run_bind; [|apply run_ret].
    unfold loop_close. apply run_with_fuel. apply IHl; [lia| |exact Hr].
    rewrite app_length. pose proof (selections_length l Hl). cbn [length]. lia.
  - (* nil *)
    intros fs g r _ Hg Hr. destruct g as [|g]; [lia|]. cbn [flat_map app until_close].
    eapply run_bind; [apply run_eot_yes; [reflexivity|exact Hr]|]. apply run_ret.
  - (* cons *)
    intros x l Hx IHx Hl IHl fs g r Hfs Hg Hr. destruct g as [|g]; [lia|].
    cbn [flat_map length] in *. rewrite app_length in Hfs.
    cbn [until_close]. rewrite <- app_assoc.
    eapply run_bind.
    { apply run_eot_no. apply (hk_neq [K_BRACE_R]); [|reflexivity]. apply hk_selection_nk; [exact Hx|reflexivity]. }
    cbv iota. eapply run_bind.
    { apply IHx; [lia|]. apply hk_selections_nk; [exact Hl|reflexivity|reflexivity]. }
    eapply run_bind; [apply IHl; [lia|lia|exact Hr]|]. apply run_ret.
  - (* field without selection set *)
    intros d n al a Hd Hn Hal Ha fs r Hfs Hr. rewrite toks_field in *. norm.
    unfold selection. apply run_cur.
    assert (E : (fst (tok_at (alias_toks al ++ toks_name n ++ toks_arguments a ++ toks_directives d ++ r)) =? K_SPREAD)%N = false).
    { destruct Hn as [nv]. destruct Hal as [|an [av]]; reflexivity. }
    rewrite E.
    assert (Htl : hk (nk [K_LEXERR; K_COLON; K_PAREN_L; K_AT]) r) by (eapply hk_nk_incl; [|exact Hr]; reflexivity).
    field_prefix Hal Hn Ha Hd Htl.
    apply run_cur. pose proof (hk_neq _ _ K_BRACE_L Hr eq_refl) as E2. unfold kind_at in E2. rewrite E2.
    eapply run_bind; [apply run_ret|]. cbn [fst snd]. rewrite (oattr_attr_list _ _ Ha). apply run_ret.
  - (* field with selection set *)
    intros d n al a s Hd Hn Hal Ha Hs IHs fs r Hfs Hr. rewrite toks_field in *.
    repeat rewrite app_length in Hfs. norm.
    unfold selection. apply run_cur.
    assert (E : (fst (tok_at (alias_toks al ++ toks_name n ++ toks_arguments a ++ toks_directives d ++ toks_selection_set s ++ r)) =? K_SPREAD)%N = false).
    { destruct Hn as [nv]. destruct Hal as [|an [av]]; reflexivity. }
    rewrite E.
    destruct (toks_selection_set_cons s Hs) as [tl Etl].
    assert (Htl : hk (nk [K_LEXERR; K_COLON; K_PAREN_L; K_AT]) (toks_selection_set s ++ r)) by (rewrite Etl; reflexivity).
    field_prefix Hal Hn Ha Hd Htl.
    apply run_cur. rewrite Etl at 1. cbn [app tok_at fst pt]. keq.
    eapply run_bind.
    { eapply run_bind; [apply IHs; [lia|]|apply run_ret]. eapply hk_nk_incl; [|exact Hr]. reflexivity. }
    cbn [fst snd]. rewrite (oattr_attr_list _ _ Ha). apply run_ret.
  - (* fragment spread *)
    intros d n a Hd [nv Hon] Ha fs r Hfs Hr. cbn [toks_selection toks_name]. norm.
    unfold selection. apply run_cur. cbn [tok_at fst pt]. keq.
    unfold fragment.
    eapply run_bind; [apply run_expect_token; reflexivity|].
    eapply run_bind.
    { apply run_eokw_no. unfold is_keyword, nm. cbn [tok_at fst snd]. rewrite Hon. apply andb_false_r. }
    apply run_cur. cbn [tok_at fst nm negb andb]. keq.
    assert (Hr1 : hk (nk [K_LEXERR; K_PAREN_L; K_AT]) r) by (eapply hk_nk_incl; [|exact Hr]; reflexivity).
    assert (Hnext : hk nle (toks_arguments a ++ toks_directives d ++ r)).
    { unfold wf_spread_arguments in Ha. destruct xfa.
      - eapply hk_arguments_nk; [exact Ha|reflexivity|].
        apply (hk_directives_nk false); [exact Hd|reflexivity|]. eapply hk_nk_incl; [|exact Hr]. reflexivity.
      - subst a. cbn [toks_arguments toks_block app].
        apply (hk_directives_nk false); [exact Hd|reflexivity|]. eapply hk_nk_incl; [|exact Hr]. reflexivity. }
    eapply run_bind.
    { unfold fragment_name. apply run_cur. cbn [tok_at snd nm]. rewrite Hon. apply run_name. exact Hnext. }
    apply run_cur.
    assert (Hd1 : hk (nk fol_directives) r) by (eapply hk_nk_incl; [|exact Hr]; reflexivity).
    unfold wf_spread_arguments in Ha. destruct xfa.
    + destruct Ha as [|y l Hy Hl].
      * cbn [toks_arguments toks_block app].
        assert (E : (kind_at (toks_directives d ++ r) =? K_PAREN_L)%N = false).
        { apply (hk_neq [K_PAREN_L]); [|reflexivity]. apply (hk_directives_nk false); [exact Hd|reflexivity|].
          eapply hk_nk_incl; [|exact Hr]. reflexivity. }
        unfold kind_at in E. rewrite E. cbn [andb].
        eapply run_bind; [apply run_ret|].
        eapply run_bind; [apply rt_directives; [exact Hd|exact Hd1]|]. apply run_ret.
      * cbn [toks_arguments toks_block app tok_at fst pt]. keq.
        eapply run_bind.
        { apply (rt_fragment_arguments (AList (y :: l))); [constructor; assumption|].
          apply (hk_directives_nk false); [exact Hd|reflexivity|]. eapply hk_nk_incl; [|exact Hr]. reflexivity. }
        eapply run_bind; [apply rt_directives; [exact Hd|exact Hd1]|]. apply run_ret.
    + subst a. cbn [toks_arguments toks_block app]. rewrite andb_false_r.
      eapply run_bind; [apply run_ret|].
      eapply run_bind; [apply rt_directives; [exact Hd|exact Hd1]|]. apply run_ret.
  - (* inline fragment *)
    intros d s tc Hd Hs IHs Htc fs r Hfs Hr.
    cbn [toks_selection] in *. len_norm Hfs. repeat rewrite app_length in Hfs.
    destruct (toks_selection_set_cons s Hs) as [tl Etl].
    assert (Hss : run (sel_set 0 xfa fs) (toks_selection_set s ++ r) s r).
    { apply IHs; [lia|]. eapply hk_nk_incl; [|exact Hr]. reflexivity. }
    assert (Hds : run (directives 0 false) (toks_directives d ++ toks_selection_set s ++ r) d (toks_selection_set s ++ r)).
    { apply rt_directives; [exact Hd|]. rewrite Etl. reflexivity. }
    assert (Hhead : forall S, S (K_AT, []) = true -> S (K_BRACE_L, []) = true ->
              S (tok_at (toks_directives d ++ toks_selection_set s ++ r)) = true).
    { intros S H1 H2. destruct Hd as [|y l [yn ya Hyn Hya] Hl].
      - cbn [toks_directives toks_list app]. rewrite Etl. exact H2.
      - exact H1. }
    norm. unfold selection. apply run_cur. cbn [tok_at fst pt]. keq.
    unfold fragment.
    destruct Htc as [|t Ht].
    + cbn [app].
      eapply run_bind.
      { apply run_expect_token; [reflexivity|]. apply (Hhead (nk [K_LEXERR])); reflexivity. }
      eapply run_bind.
      { apply run_eokw_no. unfold is_keyword.
        rewrite (Hhead (fun t => negb (fst t =? K_NAME)%N) eq_refl eq_refl) || idtac.
        pose proof (Hhead (fun t => negb (fst t =? K_NAME)%N) eq_refl eq_refl) as E.
        apply negb_true_iff in E. rewrite E. reflexivity. }
      apply run_cur.
      pose proof (Hhead (fun t => negb (fst t =? K_NAME)%N) eq_refl eq_refl) as E.
      apply negb_true_iff in E. rewrite E. cbn [negb andb].
      eapply run_bind; [apply run_ret|].
      eapply run_bind; [exact Hds|].
      eapply run_bind; [exact Hss|]. apply run_ret.
    + destruct Ht as [tn [tv]]. cbn [toks_type toks_name]. norm.
      eapply run_bind; [apply run_expect_token; reflexivity|].
      eapply run_bind; [apply run_eokw_yes; reflexivity|].
      apply run_cur. cbn [negb andb].
      eapply run_bind.
      { eapply run_bind; [|apply run_ret]. unfold named_type.
        eapply run_bind; [apply run_name|apply run_ret]. apply (Hhead (nk [K_LEXERR])); reflexivity. }
      eapply run_bind; [exact Hds|].
      eapply run_bind; [exact Hss|]. apply run_ret.
Qed.

Lemma rt_selection_set s r : wf_selection_set xfa s -> hk nle r ->
  run (selection_set 0 xfa) (toks_selection_set s ++ r) s r.
Proof.
  intros W Hr. unfold selection_set. apply run_with_fuel.
  apply (proj1 rt_selection_all s W); [|exact Hr]. rewrite app_length. lia.
Qed.

Lemma hk_selection_set_nk s r ks : wf_selection_set xfa s -> nk ks (K_BRACE_L, []) = true ->
  hk (nk ks) (toks_selection_set s ++ r).
Proof. intros W H. destruct (toks_selection_set_cons s W) as [tl ->]. exact H. Qed.

(* ---------- variable definitions ---------- *)
Definition fol_vardef : list N := [K_LEXERR; K_BANG; K_EQUALS; K_AT; K_PAREN_L].

Lemma toks_vardef d v t dv ds :
  toks_variable_definition (Nd KVariableDefinition [d; ANode v; ANode t; dv; ds]) =
  toks_description d ++ toks_value v ++ pt K_COLON :: toks_type t ++ toks_default dv ++ toks_directives ds.
Proof. reflexivity. Qed.

Lemma rt_variable_definition x r : wf_variable_definition x -> hk (nk fol_vardef) r ->
  run (variable_definition 0) (toks_variable_definition x ++ r) x r.
Proof.
  intros [d v t dv ds Hd [n [nv]] Ht Hdv Hds] Hr. rewrite toks_vardef.
  cbn [toks_value toks_name]. norm. unfold variable_definition.
  eapply run_bind; [apply rt_description; [exact Hd|reflexivity]|].
  eapply run_bind.
  { unfold variable. eapply run_bind; [apply run_expect_token; reflexivity|].
    eapply run_bind; [apply run_name; reflexivity|apply run_ret]. }
  eapply run_bind; [apply run_expect_token; [reflexivity|apply hk_type_nk; [exact Ht|reflexivity]]|].
  eapply run_bind.
  { apply rt_type_reference; [exact Ht|].
    apply hk_default_nk; [exact Hdv|reflexivity|].
    apply (hk_directives_nk true); [exact Hds|reflexivity|].
    eapply hk_nk_incl; [|exact Hr]. reflexivity. }
  apply run_default; [exact Hdv| |].
  { apply (hk_directives_nk true); [exact Hds|reflexivity|]. eapply hk_nk_incl; [|exact Hr]. reflexivity. }
  eapply run_bind; [apply rt_directives; [exact Hds|]|apply run_ret].
  eapply hk_nk_incl; [|exact Hr]. reflexivity.
Qed.

Lemma variable_definition_first x r ks : wf_variable_definition x ->
  avoids (fun k => existsb (N.eqb k) [K_STRING; K_BLOCK_STRING; K_DOLLAR]) ks = true ->
  hk (nk ks) (toks_variable_definition x ++ r).
Proof.
  intros [d v t dv ds Hd [n [nv]] Ht Hdv Hds] H. rewrite toks_vardef. cbn [toks_value toks_name]. norm.
  unfold hk. destruct Hd as [|s [sv b]].
  - cbn [toks_description toks_opt app tok_at]. eapply avoids_nk; [exact H|reflexivity].
  - cbn [toks_description toks_opt toks_value app tok_at]. destruct b; (eapply avoids_nk; [exact H|reflexivity]).
Qed.

Lemma rt_variable_definitions a r : wf_variable_definitions a -> hk (nk [K_LEXERR; K_PAREN_L]) r ->
  run (variable_definitions 0) (toks_variable_definitions a ++ r) (attr_list a) r.
Proof.
  intros W Hr. unfold variable_definitions, toks_variable_definitions.
  apply (rt_optional_many (variable_definition 0) toks_variable_definition wf_variable_definition fol_vardef);
    try reflexivity; try assumption.
  - intros x r0 Hx Hr0. apply rt_variable_definition; assumption.
  - intros x r0 Hx. apply variable_definition_first; [exact Hx|reflexivity].
Qed.

Lemma hk_variable_definitions_nk a r ks : wf_variable_definitions a -> nk ks (K_PAREN_L, []) = true ->
  hk (nk ks) r -> hk (nk ks) (toks_variable_definitions a ++ r).
Proof. intros [|x l Hx Hl] Hk Hr; [exact Hr|exact Hk]. Qed.

(* ---------- operations ---------- *)
Lemma operation_type_of_name o : wf_operation_code o -> operation_type_of (op_name o) = Some o.
Proof. intros [-> | [-> | ->]]; reflexivity. Qed.

Lemma run_operation_type o r : wf_operation_code o -> hk nle r ->
  run (operation_type 0) (nm (op_name o) :: r) o r.
Proof.
  intros Ho Hr. unfold operation_type.
  eapply run_bind; [apply run_expect_token; [reflexivity|exact Hr]|].
  rewrite (operation_type_of_name o Ho). apply run_ret.
Qed.

Definition full_operation_toks (s : node) (d n vs ds : attr) (o : N) : list sigtok :=
  toks_description d ++ nm (op_name o) :: toks_opt toks_name n ++
  toks_variable_definitions vs ++ toks_directives ds ++ toks_selection_set s.

Lemma rt_operation_full s d n vs ds o r :
  wf_selection_set xfa s -> wf_description d -> wf_opt wf_name n -> wf_variable_definitions vs ->
  wf_directives false ds -> wf_operation_code o -> hk nle r ->
  run (operation_definition 0 xfa) (full_operation_toks s d n vs ds o ++ r)
      (Nd KOperationDefinition [ANode s; d; n; vs; ds; AEnum o]) r.
Proof.
  intros Hs Hd Hn Hvs Hds Ho Hr. unfold full_operation_toks. norm.
  destruct (toks_selection_set_cons s Hs) as [tl Etl].
  assert (Htail : forall ks, nk ks (K_PAREN_L, []) = true -> nk ks (K_AT, []) = true ->
             nk ks (K_BRACE_L, []) = true ->
             hk (nk ks) (toks_variable_definitions vs ++ toks_directives ds ++ toks_selection_set s ++ r)).
  { intros ks H1 H2 H3. apply hk_variable_definitions_nk; [exact Hvs|exact H1|].
    apply (hk_directives_nk false); [exact Hds|exact H2|]. rewrite Etl. exact H3. }
  unfold operation_definition. apply run_cur.
  assert (E : (fst (tok_at (toks_description d ++ nm (op_name o) :: toks_opt toks_name n ++
                toks_variable_definitions vs ++ toks_directives ds ++ toks_selection_set s ++ r)) =? K_BRACE_L)%N = false).
  { destruct Hd as [|x [sv b]]; [reflexivity|]. destruct b; reflexivity. }
  rewrite E.
  eapply run_bind; [apply rt_description; [exact Hd|reflexivity]|].
  eapply run_bind.
  { apply run_operation_type; [exact Ho|].
    destruct Hn as [|x [nv]]; [apply Htail; reflexivity|reflexivity]. }
  apply run_cur.
  eapply run_bind.
  { instantiate (1 := toks_variable_definitions vs ++ toks_directives ds ++ toks_selection_set s ++ r).
    instantiate (1 := n).
    destruct Hn as [|x [nv]].
    - cbn [toks_opt app].
      pose proof (Htail [K_NAME] eq_refl eq_refl eq_refl) as E2.
      apply (hk_neq _ _ K_NAME) in E2; [|reflexivity]. unfold kind_at in E2. rewrite E2. apply run_ret.
    - cbn [toks_opt toks_name app tok_at fst nm]. keq.
      eapply run_bind; [apply run_name; apply Htail; reflexivity|apply run_ret]. }
  eapply run_bind.
  { apply rt_variable_definitions; [exact Hvs|].
    apply (hk_directives_nk false); [exact Hds|reflexivity|]. rewrite Etl. reflexivity. }
  eapply run_bind; [apply rt_directives; [exact Hds|rewrite Etl; reflexivity]|].
  eapply run_bind; [apply rt_selection_set; [exact Hs|exact Hr]|].
  rewrite (oattr_attr_list _ _ Hvs). apply run_ret.
Qed.

Lemma rt_operation_short s r :
  wf_selection_set xfa s -> hk nle r ->
  run (operation_definition 0 xfa) (toks_selection_set s ++ r)
      (Nd KOperationDefinition [ANode s; ANone; ANone; ANone; ANone; AEnum 0%N]) r.
Proof.
  intros Hs Hr. destruct (toks_selection_set_cons s Hs) as [tl Etl].
  unfold operation_definition. apply run_cur. rewrite Etl at 1. cbn [app tok_at fst pt]. keq.
  eapply run_bind; [apply rt_selection_set; [exact Hs|exact Hr]|]. apply run_ret.
Qed.

(* ---------- fragment definitions ---------- *)
Lemma toks_fragdef s d n vs ds tc :
  toks_fragment_definition (Nd KFragmentDefinition [ANode s; d; ANode n; vs; ds; ANode tc]) =
  toks_description d ++ nm s_fragment :: toks_name n ++ toks_variable_definitions vs ++
  nm s_on :: toks_type tc ++ toks_directives ds ++ toks_selection_set s.
Proof. reflexivity. Qed.

Lemma rt_fragment_definition x r : wf_fragment_definition xfa x -> hk nle r ->
  run (fragment_definition 0 xfa) (toks_fragment_definition x ++ r) x r.
Proof.
  intros [s d n vs ds tc Hs Hd [nv Hon] Hvs Hds [tn [tv]]] Hr. rewrite toks_fragdef.
  cbn [toks_type toks_name]. norm.
  destruct (toks_selection_set_cons s Hs) as [tl Etl].
  unfold fragment_definition.
  eapply run_bind; [apply rt_description; [exact Hd|reflexivity]|].
  eapply run_bind; [apply run_expect_keyword; reflexivity|].
  eapply run_bind.
  { unfold fragment_name. apply run_cur. cbn [tok_at snd nm]. rewrite Hon. apply run_name.
    destruct xfa.
    - apply hk_variable_definitions_nk; [exact Hvs|reflexivity|reflexivity].
    - subst vs. reflexivity. }
  eapply run_bind.
  { instantiate (1 := nm s_on :: nm tv :: toks_directives ds ++ toks_selection_set s ++ r).
    instantiate (1 := vs).
    destruct xfa.
    - eapply run_bind; [apply rt_variable_definitions; [exact Hvs|reflexivity]|].
      rewrite (oattr_attr_list _ _ Hvs). apply run_ret.
    - subst vs. apply run_ret. }
  eapply run_bind.
  { unfold type_condition. eapply run_bind; [apply run_expect_keyword; reflexivity|].
    unfold named_type. eapply run_bind; [apply run_name|apply run_ret].
    apply (hk_directives_nk false); [exact Hds|reflexivity|]. rewrite Etl. reflexivity. }
  eapply run_bind; [apply rt_directives; [exact Hds|rewrite Etl; reflexivity]|].
  eapply run_bind; [apply rt_selection_set; [exact Hs|exact Hr]|]. apply run_ret.
Qed.

(* ---------- type system definitions ---------- *)
Lemma rt_operation_type_definition x r : wf_operation_type_definition x -> hk nle r ->
  run (operation_type_definition 0) (toks_operation_type_definition x ++ r) x r.
Proof.
  intros [o t Ho [tn [tv]]] Hr. cbn [toks_operation_type_definition toks_type toks_name]. norm.
  unfold operation_type_definition.
  eapply run_bind; [apply run_operation_type; [exact Ho|reflexivity]|].
  eapply run_bind; [apply run_expect_token; reflexivity|].
  eapply run_bind; [|apply run_ret].
  unfold named_type. eapply run_bind; [apply run_name; exact Hr|apply run_ret].
Qed.

Lemma toks_schema_def d ds x l :
  toks_type_system (Nd KSchemaDefinition [d; ds; AList (x :: l)]) =
  toks_description d ++ nm s_schema :: toks_directives ds ++
  pt K_BRACE_L :: flat_map toks_operation_type_definition (x :: l) ++ [pt K_BRACE_R].
Proof. reflexivity. Qed.

Lemma rt_many_otd x l r :
  wf_operation_type_definition x -> Forall wf_operation_type_definition l -> hk nle r ->
  run (many 0 K_BRACE_L (operation_type_definition 0) K_BRACE_R)
      (pt K_BRACE_L :: flat_map toks_operation_type_definition (x :: l) ++ pt K_BRACE_R :: r) (x :: l) r.
Proof.
  intros Hx Hl Hr.
  apply (rt_many (operation_type_definition 0) toks_operation_type_definition wf_operation_type_definition [K_LEXERR]);
    try reflexivity; try assumption.
  - intros y r0 Hy Hr0. apply rt_operation_type_definition; assumption.
  - intros y r0 [o t Ho Ht]. reflexivity.
Qed.

Lemma rt_schema_definition d ds ots r :
  wf_description d -> wf_directives true ds -> wf_list1 wf_operation_type_definition ots -> hk nle r ->
  run (schema_definition 0) (toks_type_system (Nd KSchemaDefinition [d; ds; ots]) ++ r)
      (Nd KSchemaDefinition [d; ds; ots]) r.
Proof.
  intros Hd Hds [x l Hx Hl] Hr. rewrite toks_schema_def. norm. unfold schema_definition.
  eapply run_bind; [apply rt_description; [exact Hd|reflexivity]|].
  eapply run_bind; [apply run_expect_keyword; apply (hk_directives_nk true); [exact Hds|reflexivity|reflexivity]|].
  eapply run_bind; [apply rt_directives; [exact Hds|reflexivity]|].
  eapply run_bind; [apply rt_many_otd; assumption|]. apply run_ret.
Qed.

Lemma rt_scalar_type_definition n d ds r :
  wf_name n -> wf_description d -> wf_directives true ds -> hk (nk fol_directives) r ->
  run (scalar_type_definition 0) (toks_type_system (Nd KScalarTypeDefinition [ANode n; d; ds]) ++ r)
      (Nd KScalarTypeDefinition [ANode n; d; ds]) r.
Proof.
  intros [nv] Hd Hds Hr. cbn [toks_type_system toks_name]. norm. unfold scalar_type_definition.
  eapply run_bind; [apply rt_description; [exact Hd|reflexivity]|].
  eapply run_bind; [apply run_expect_keyword; reflexivity|].
  eapply run_bind.
  { apply run_name. apply (hk_directives_nk true); [exact Hds|reflexivity|].
    eapply hk_nk_incl; [|exact Hr]. reflexivity. }
  eapply run_bind; [apply rt_directives; [exact Hds|exact Hr]|]. apply run_ret.
Qed.

(* implements A & B *)
Definition not_kw (w : list N) (l : list sigtok) : Prop := is_keyword (tok_at l) w = false.

Lemma rt_implements i r :
  wf_nelist wf_named_type i -> not_kw s_implements r -> hk (nk [K_AMP; K_LEXERR]) r ->
  run (implements_interfaces 0) (toks_implements i ++ r) i r.
Proof.
  intros [|x l Hx Hl] Hk Hr; unfold implements_interfaces.
  - cbn [toks_implements toks_delimited app].
    eapply run_bind; [apply run_eokw_no; exact Hk|]. apply run_ret.
  - cbn [toks_implements toks_delimited]. norm.
    eapply run_bind.
    { apply run_eokw_yes.
      destruct l as [|z l']; [apply hk_named_type_nk; [exact Hx|reflexivity]|].
      change (toks_sep K_AMP toks_type (x :: z :: l')) with (toks_type x ++ pt K_AMP :: toks_sep K_AMP toks_type (z :: l')).
      rewrite <- app_assoc. apply hk_named_type_nk; [exact Hx|reflexivity]. }
    cbv iota. eapply run_bind; [|apply run_ret].
    apply (rt_delimited_many (named_type 0) toks_type wf_named_type [K_LEXERR]); try reflexivity; try assumption.
    + intros y r0 Hy Hr0. apply rt_named_type; assumption.
    + intros y r0 Hy. apply hk_named_type_nk; [exact Hy|reflexivity].
Qed.

Lemma implements_head S i r :
  wf_nelist wf_named_type i -> (forall v, S (K_NAME, v) = true) -> S (tok_at r) = true ->
  S (tok_at (toks_implements i ++ r)) = true.
Proof. intros [|x l Hx Hl] H1 H2; [exact H2|apply H1]. Qed.

(* input value definitions *)
Lemma toks_ivd n t d dv ds :
  toks_input_value_definition (Nd KInputValueDefinition [ANode n; ANode t; d; dv; ds]) =
  toks_description d ++ toks_name n ++ pt K_COLON :: toks_type t ++ toks_default dv ++ toks_directives ds.
Proof. reflexivity. Qed.

Lemma rt_input_value_def x r : wf_input_value_definition x -> hk (nk fol_vardef) r ->
  run (input_value_def 0) (toks_input_value_definition x ++ r) x r.
Proof.
  intros [n t d dv ds [nv] Ht Hd Hdv Hds] Hr. rewrite toks_ivd. cbn [toks_name]. norm.
  unfold input_value_def.
  eapply run_bind; [apply rt_description; [exact Hd|reflexivity]|].
  eapply run_bind; [apply run_name; reflexivity|].
  eapply run_bind; [apply run_expect_token; [reflexivity|apply hk_type_nk; [exact Ht|reflexivity]]|].
  eapply run_bind.
  { apply rt_type_reference; [exact Ht|].
    apply hk_default_nk; [exact Hdv|reflexivity|].
    apply (hk_directives_nk true); [exact Hds|reflexivity|].
    eapply hk_nk_incl; [|exact Hr]. reflexivity. }
  apply run_default; [exact Hdv| |].
  { apply (hk_directives_nk true); [exact Hds|reflexivity|]. eapply hk_nk_incl; [|exact Hr]. reflexivity. }
  eapply run_bind; [apply rt_directives; [exact Hds|]|apply run_ret].
  eapply hk_nk_incl; [|exact Hr]. reflexivity.
Qed.

Definition first_of_described (k : N) : bool := existsb (N.eqb k) [K_STRING; K_BLOCK_STRING; K_NAME].

Lemma input_value_def_first x r ks : wf_input_value_definition x -> avoids first_of_described ks = true ->
  hk (nk ks) (toks_input_value_definition x ++ r).
Proof.
  intros [n t d dv ds [nv] Ht Hd Hdv Hds] H. rewrite toks_ivd. cbn [toks_name]. norm.
  unfold hk. destruct Hd as [|s [sv b]].
  - cbn [toks_description toks_opt app tok_at]. eapply avoids_nk; [exact H|reflexivity].
  - cbn [toks_description toks_opt toks_value app tok_at]. destruct b; (eapply avoids_nk; [exact H|reflexivity]).
Qed.

Lemma rt_argument_defs a r : wf_nelist wf_input_value_definition a -> hk (nk [K_LEXERR; K_PAREN_L]) r ->
  run (argument_defs 0) (toks_block K_PAREN_L toks_input_value_definition K_PAREN_R a ++ r) (attr_list a) r.
Proof.
  intros W Hr. unfold argument_defs.
  apply (rt_optional_many (input_value_def 0) toks_input_value_definition wf_input_value_definition fol_vardef);
    try reflexivity; try assumption.
  - intros x r0 Hx Hr0. apply rt_input_value_def; assumption.
  - intros x r0 Hx. apply input_value_def_first; [exact Hx|reflexivity].
Qed.

Lemma rt_input_fields_definition a r : wf_nelist wf_input_value_definition a -> hk nle r -> (is_block a = false -> hk (nk [K_BRACE_L]) r) ->
  run (input_fields_definition 0) (toks_input_fields a ++ r) (attr_list a) r.
Proof.
  intros W Hr Ho. unfold input_fields_definition, toks_input_fields.
  apply (rt_optional_many_gen (input_value_def 0) toks_input_value_definition wf_input_value_definition fol_vardef);
    try reflexivity; try assumption.
  - intros x r0 Hx Hr0. apply rt_input_value_def; assumption.
  - intros x r0 Hx. apply input_value_def_first; [exact Hx|reflexivity].
Qed.

Lemma hk_block_nk (Pn : node -> Prop) open f close a r ks : wf_nelist Pn a -> nk ks (open, []) = true ->
  hk (nk ks) r -> hk (nk ks) (toks_block open f close a ++ r).
Proof. intros [|x l Hx Hl] Hk Hr; [exact Hr|exact Hk]. Qed.

(* field definitions *)
Definition fol_fielddef : list N := [K_LEXERR; K_BANG; K_AT; K_PAREN_L].

Lemma toks_fd n t d a ds :
  toks_field_definition (Nd KFieldDefinition [ANode n; ANode t; d; a; ds]) =
  toks_description d ++ toks_name n ++ toks_block K_PAREN_L toks_input_value_definition K_PAREN_R a ++
  pt K_COLON :: toks_type t ++ toks_directives ds.
Proof. reflexivity. Qed.

Lemma rt_field_definition x r : wf_field_definition x -> hk (nk fol_fielddef) r ->
  run (field_definition 0) (toks_field_definition x ++ r) x r.
Proof.
  intros [n t d a ds [nv] Ht Hd Ha Hds] Hr. rewrite toks_fd. cbn [toks_name]. norm.
  unfold field_definition.
  eapply run_bind; [apply rt_description; [exact Hd|reflexivity]|].
  eapply run_bind.
  { apply run_name. eapply hk_block_nk; [exact Ha|reflexivity|reflexivity]. }
  eapply run_bind; [apply rt_argument_defs; [exact Ha|reflexivity]|].
  eapply run_bind; [apply run_expect_token; [reflexivity|apply hk_type_nk; [exact Ht|reflexivity]]|].
  eapply run_bind.
  { apply rt_type_reference; [exact Ht|].
    apply (hk_directives_nk true); [exact Hds|reflexivity|].
    eapply hk_nk_incl; [|exact Hr]. reflexivity. }
  eapply run_bind; [apply rt_directives; [exact Hds|]|].
  { eapply hk_nk_incl; [|exact Hr]. reflexivity. }
  rewrite (oattr_attr_list _ _ Ha). apply run_ret.
Qed.

Lemma field_definition_first x r ks : wf_field_definition x -> avoids first_of_described ks = true ->
  hk (nk ks) (toks_field_definition x ++ r).
Proof.
  intros [n t d a ds [nv] Ht Hd Ha Hds] H. rewrite toks_fd. cbn [toks_name]. norm.
  unfold hk. destruct Hd as [|s [sv b]].
  - cbn [toks_description toks_opt app tok_at]. eapply avoids_nk; [exact H|reflexivity].
  - cbn [toks_description toks_opt toks_value app tok_at]. destruct b; (eapply avoids_nk; [exact H|reflexivity]).
Qed.

Lemma rt_fields_definition a r : wf_nelist wf_field_definition a -> hk nle r -> (is_block a = false -> hk (nk [K_BRACE_L]) r) ->
  run (fields_definition 0) (toks_fields a ++ r) (attr_list a) r.
Proof.
  intros W Hr Ho. unfold fields_definition, toks_fields.
  apply (rt_optional_many_gen (field_definition 0) toks_field_definition wf_field_definition fol_fielddef);
    try reflexivity; try assumption.
  - intros x r0 Hx Hr0. apply rt_field_definition; assumption.
  - intros x r0 Hx. apply field_definition_first; [exact Hx|reflexivity].
Qed.

(* what may follow a type definition whose trailing parts are all optional *)
Definition fol_typedef : list N := [K_LEXERR; K_AMP; K_AT; K_PAREN_L].

(* name, implements, directives, fields: shared by type/interface definitions and extensions *)
Lemma run_object_body {B} n i ds f r (K : node -> attr -> attr -> option (list node) -> P B) b r' :
  wf_name n -> wf_nelist wf_named_type i -> wf_directives true ds -> wf_nelist wf_field_definition f ->
  not_kw s_implements r -> hk (nk fol_typedef) r -> (is_block f = false -> hk (nk [K_BRACE_L]) r) ->
  run (K n i ds (attr_list f)) r b r' ->
  run (n0 <- name 0 ;; i0 <- implements_interfaces 0 ;; ds0 <- directives 0 true ;;
       f0 <- fields_definition 0 ;; K n0 i0 ds0 f0)
      (toks_name n ++ toks_implements i ++ toks_directives ds ++ toks_fields f ++ r) b r'.
Proof.
  intros [nv] Hi Hds Hf Hk Hr Hb HK. cbn [toks_name app].
  assert (Htail : forall ks, nk ks (K_AT, []) = true -> nk ks (K_BRACE_L, []) = true ->
             hk (nk ks) r -> hk (nk ks) (toks_directives ds ++ toks_fields f ++ r)).
  { intros ks H1 H2 H3. apply (hk_directives_nk true); [exact Hds|exact H1|].
    eapply hk_block_nk; [exact Hf|exact H2|exact H3]. }
  eapply run_bind.
  { apply run_name. unfold hk. apply implements_head; [exact Hi|reflexivity|].
    apply (Htail [K_LEXERR]); [reflexivity|reflexivity|]. eapply hk_nk_incl; [|exact Hr]. reflexivity. }
  eapply run_bind.
  { apply rt_implements; [exact Hi| |].
    - unfold not_kw.
      destruct Hds as [|y l [yn ya Hyn Hya] Hl]; [|reflexivity].
      destruct Hf as [|z l' Hz Hl']; [exact Hk|reflexivity].
    - apply Htail; [reflexivity|reflexivity|]. eapply hk_nk_incl; [|exact Hr]. reflexivity. }
  eapply run_bind.
  { apply rt_directives; [exact Hds|].
    eapply hk_block_nk; [exact Hf|reflexivity|]. eapply hk_nk_incl; [|exact Hr]. reflexivity. }
  eapply run_bind.
  { apply rt_fields_definition; [exact Hf| |exact Hb]. eapply hk_nk_incl; [|exact Hr]. reflexivity. }
  exact HK.
Qed.

Lemma rt_object_type_definition n d ds i f r :
  wf_name n -> wf_description d -> wf_directives true ds -> wf_nelist wf_named_type i ->
  wf_nelist wf_field_definition f -> not_kw s_implements r -> hk (nk fol_typedef) r ->
  (is_block f = false -> hk (nk [K_BRACE_L]) r) ->
  run (object_type_definition 0) (toks_type_system (Nd KObjectTypeDefinition [ANode n; d; ds; i; f]) ++ r)
      (Nd KObjectTypeDefinition [ANode n; d; ds; i; f]) r.
Proof.
  intros Hn Hd Hds Hi Hf Hk Hr Hb. cbn [toks_type_system]. norm. unfold object_type_definition.
  eapply run_bind; [apply rt_description; [exact Hd|reflexivity]|].
  eapply run_bind; [apply run_expect_keyword; destruct Hn as [nv]; reflexivity|].
  apply run_object_body; try assumption.
  rewrite (oattr_attr_list _ _ Hf). apply run_ret.
Qed.

Lemma rt_interface_type_definition n d ds i f r :
  wf_name n -> wf_description d -> wf_directives true ds -> wf_nelist wf_named_type i ->
  wf_nelist wf_field_definition f -> not_kw s_implements r -> hk (nk fol_typedef) r ->
  (is_block f = false -> hk (nk [K_BRACE_L]) r) ->
  run (interface_type_definition 0) (toks_type_system (Nd KInterfaceTypeDefinition [ANode n; d; ds; i; f]) ++ r)
      (Nd KInterfaceTypeDefinition [ANode n; d; ds; i; f]) r.
Proof.
  intros Hn Hd Hds Hi Hf Hk Hr Hb. cbn [toks_type_system]. norm. unfold interface_type_definition.
  eapply run_bind; [apply rt_description; [exact Hd|reflexivity]|].
  eapply run_bind; [apply run_expect_keyword; destruct Hn as [nv]; reflexivity|].
  apply run_object_body; try assumption.
  rewrite (oattr_attr_list _ _ Hf). apply run_ret.
Qed.

(* union member types *)
Lemma rt_union_member_types ts r :
  wf_nelist wf_named_type ts -> hk (nk [K_PIPE; K_LEXERR; K_EQUALS]) r ->
  run (union_member_types 0) (toks_union_types ts ++ r) ts r.
Proof.
  intros [|x l Hx Hl] Hr; unfold union_member_types.
  - cbn [toks_union_types toks_delimited app].
    eapply run_bind; [apply run_eot_no; apply (hk_neq _ _ K_EQUALS Hr eq_refl)|]. apply run_ret.
  - cbn [toks_union_types toks_delimited]. norm.
    eapply run_bind.
    { apply run_eot_yes; [reflexivity|].
      destruct l as [|z l']; [apply hk_named_type_nk; [exact Hx|reflexivity]|].
      change (toks_sep K_PIPE toks_type (x :: z :: l')) with (toks_type x ++ pt K_PIPE :: toks_sep K_PIPE toks_type (z :: l')).
      rewrite <- app_assoc. apply hk_named_type_nk; [exact Hx|reflexivity]. }
    cbv iota. eapply run_bind; [|apply run_ret].
    apply (rt_delimited_many (named_type 0) toks_type wf_named_type [K_LEXERR]); try reflexivity; try assumption.
    + intros y r0 Hy Hr0. apply rt_named_type; assumption.
    + intros y r0 Hy. apply hk_named_type_nk; [exact Hy|reflexivity].
    + eapply hk_nk_incl; [|exact Hr]. reflexivity.
Qed.

Lemma hk_union_types_nk ts r ks : wf_nelist wf_named_type ts -> nk ks (K_EQUALS, []) = true ->
  hk (nk ks) r -> hk (nk ks) (toks_union_types ts ++ r).
Proof. intros [|x l Hx Hl] Hk Hr; [exact Hr|exact Hk]. Qed.

Definition fol_uniondef : list N := [K_LEXERR; K_AT; K_PAREN_L; K_EQUALS; K_PIPE].

Lemma run_union_body {B} n ds ts r (K : node -> attr -> attr -> P B) b r' :
  wf_name n -> wf_directives true ds -> wf_nelist wf_named_type ts -> hk (nk fol_uniondef) r ->
  run (K n ds ts) r b r' ->
  run (n0 <- name 0 ;; ds0 <- directives 0 true ;; ts0 <- union_member_types 0 ;; K n0 ds0 ts0)
      (toks_name n ++ toks_directives ds ++ toks_union_types ts ++ r) b r'.
Proof.
  intros [nv] Hds Hts Hr HK. cbn [toks_name app].
  eapply run_bind.
  { apply run_name. apply (hk_directives_nk true); [exact Hds|reflexivity|].
    apply hk_union_types_nk; [exact Hts|reflexivity|]. eapply hk_nk_incl; [|exact Hr]. reflexivity. }
  eapply run_bind.
  { apply rt_directives; [exact Hds|].
    apply hk_union_types_nk; [exact Hts|reflexivity|]. eapply hk_nk_incl; [|exact Hr]. reflexivity. }
  eapply run_bind; [apply rt_union_member_types; [exact Hts|]|exact HK].
  eapply hk_nk_incl; [|exact Hr]. reflexivity.
Qed.

Lemma rt_union_type_definition n d ds ts r :
  wf_name n -> wf_description d -> wf_directives true ds -> wf_nelist wf_named_type ts ->
  hk (nk fol_uniondef) r ->
  run (union_type_definition 0) (toks_type_system (Nd KUnionTypeDefinition [ANode n; d; ds; ts]) ++ r)
      (Nd KUnionTypeDefinition [ANode n; d; ds; ts]) r.
Proof.
  intros Hn Hd Hds Hts Hr. cbn [toks_type_system]. norm. unfold union_type_definition.
  eapply run_bind; [apply rt_description; [exact Hd|reflexivity]|].
  eapply run_bind; [apply run_expect_keyword; destruct Hn as [nv]; reflexivity|].
  apply run_union_body; try assumption. apply run_ret.
Qed.

(* enum values *)
Lemma rt_enum_value_definition x r : wf_enum_value_definition x -> hk (nk fol_directives) r ->
  run (enum_value_definition 0) (toks_enum_value_definition x ++ r) x r.
Proof.
  intros [n d ds [nv (H1 & H2 & H3)] Hd Hds] Hr. cbn [toks_enum_value_definition toks_name]. norm.
  unfold enum_value_definition.
  eapply run_bind; [apply rt_description; [exact Hd|reflexivity]|].
  eapply run_bind.
  { unfold enum_value_name. apply run_cur. cbn [tok_at snd nm]. rewrite H1, H2, H3. cbn [orb].
    apply run_name. apply (hk_directives_nk true); [exact Hds|reflexivity|].
    eapply hk_nk_incl; [|exact Hr]. reflexivity. }
  eapply run_bind; [apply rt_directives; [exact Hds|exact Hr]|]. apply run_ret.
Qed.

Lemma enum_value_definition_first x r ks : wf_enum_value_definition x -> avoids first_of_described ks = true ->
  hk (nk ks) (toks_enum_value_definition x ++ r).
Proof.
  intros [n d ds [nv Hnv] Hd Hds] H. cbn [toks_enum_value_definition toks_name]. norm.
  unfold hk. destruct Hd as [|s [sv b]].
  - cbn [toks_description toks_opt app tok_at]. eapply avoids_nk; [exact H|reflexivity].
  - cbn [toks_description toks_opt toks_value app tok_at]. destruct b; (eapply avoids_nk; [exact H|reflexivity]).
Qed.

Lemma rt_enum_values_definition a r : wf_nelist wf_enum_value_definition a -> hk nle r -> (is_block a = false -> hk (nk [K_BRACE_L]) r) ->
  run (enum_values_definition 0) (toks_enum_values a ++ r) (attr_list a) r.
Proof.
  intros W Hr Ho. unfold enum_values_definition, toks_enum_values.
  apply (rt_optional_many_gen (enum_value_definition 0) toks_enum_value_definition wf_enum_value_definition fol_directives);
    try reflexivity; try assumption.
  - intros x r0 Hx Hr0. apply rt_enum_value_definition; assumption.
  - intros x r0 Hx. apply enum_value_definition_first; [exact Hx|reflexivity].
Qed.

Definition fol_blockdef : list N := [K_LEXERR; K_AT; K_PAREN_L].

(* name, directives and an optional block: enum / input object definitions and extensions *)
Lemma run_block_body {B} (pb : P (option (list node))) (Pn : node -> Prop) (tb : node -> list sigtok)
      n ds f r (K : node -> attr -> option (list node) -> P B) b r' :
  (forall a r0, wf_nelist Pn a -> hk nle r0 -> (is_block a = false -> hk (nk [K_BRACE_L]) r0) ->
                run pb (toks_block K_BRACE_L tb K_BRACE_R a ++ r0) (attr_list a) r0) ->
  wf_name n -> wf_directives true ds -> wf_nelist Pn f -> hk (nk fol_blockdef) r ->
  (is_block f = false -> hk (nk [K_BRACE_L]) r) ->
  run (K n ds (attr_list f)) r b r' ->
  run (n0 <- name 0 ;; ds0 <- directives 0 true ;; f0 <- pb ;; K n0 ds0 f0)
      (toks_name n ++ toks_directives ds ++ toks_block K_BRACE_L tb K_BRACE_R f ++ r) b r'.
Proof.
  intros Hpb [nv] Hds Hf Hr Hb HK. cbn [toks_name app].
  eapply run_bind.
  { apply run_name. apply (hk_directives_nk true); [exact Hds|reflexivity|].
    eapply hk_block_nk; [exact Hf|reflexivity|]. eapply hk_nk_incl; [|exact Hr]. reflexivity. }
  eapply run_bind.
  { apply rt_directives; [exact Hds|].
    eapply hk_block_nk; [exact Hf|reflexivity|]. eapply hk_nk_incl; [|exact Hr]. reflexivity. }
  eapply run_bind; [apply Hpb; [exact Hf| |exact Hb]|exact HK].
  eapply hk_nk_incl; [|exact Hr]. reflexivity.
Qed.

Lemma rt_enum_type_definition n d ds vs r :
  wf_name n -> wf_description d -> wf_directives true ds -> wf_nelist wf_enum_value_definition vs ->
  hk (nk fol_blockdef) r -> (is_block vs = false -> hk (nk [K_BRACE_L]) r) ->
  run (enum_type_definition 0) (toks_type_system (Nd KEnumTypeDefinition [ANode n; d; ds; vs]) ++ r)
      (Nd KEnumTypeDefinition [ANode n; d; ds; vs]) r.
Proof.
  intros Hn Hd Hds Hvs Hr Hb. cbn [toks_type_system]. norm. unfold enum_type_definition.
  eapply run_bind; [apply rt_description; [exact Hd|reflexivity]|].
  eapply run_bind; [apply run_expect_keyword; destruct Hn as [nv]; reflexivity|].
  unfold toks_enum_values.
  apply (run_block_body (enum_values_definition 0) wf_enum_value_definition); try assumption.
  - intros a r0 Ha Hr0 Hb0. apply rt_enum_values_definition; assumption.
  - rewrite (oattr_attr_list _ _ Hvs). apply run_ret.
Qed.

Lemma rt_input_object_type_definition n d ds f r :
  wf_name n -> wf_description d -> wf_directives true ds -> wf_nelist wf_input_value_definition f ->
  hk (nk fol_blockdef) r -> (is_block f = false -> hk (nk [K_BRACE_L]) r) ->
  run (input_object_type_definition 0) (toks_type_system (Nd KInputObjectTypeDefinition [ANode n; d; ds; f]) ++ r)
      (Nd KInputObjectTypeDefinition [ANode n; d; ds; f]) r.
Proof.
  intros Hn Hd Hds Hf Hr Hb. cbn [toks_type_system]. norm. unfold input_object_type_definition.
  eapply run_bind; [apply rt_description; [exact Hd|reflexivity]|].
  eapply run_bind; [apply run_expect_keyword; destruct Hn as [nv]; reflexivity|].
  unfold toks_input_fields.
  apply (run_block_body (input_fields_definition 0) wf_input_value_definition); try assumption.
  - intros a r0 Ha Hr0 Hb0. apply rt_input_fields_definition; assumption.
  - rewrite (oattr_attr_list _ _ Hf). apply run_ret.
Qed.

(* directive definitions *)
Lemma rt_directive_location x r : wf_location x -> hk nle r ->
  run (directive_location 0) (toks_name x ++ r) x r.
Proof.
  intros [v Hv] Hr. cbn [toks_name app]. unfold directive_location.
  eapply run_bind; [apply run_expect_token; [reflexivity|exact Hr]|]. rewrite Hv. apply run_ret.
Qed.

Lemma toks_directive_def n ls d a ds rp :
  toks_type_system (Nd KDirectiveDefinition [ANode n; AList ls; d; a; ds; ABool rp]) =
  toks_description d ++ nm s_directive :: pt K_AT :: toks_name n ++
  toks_block K_PAREN_L toks_input_value_definition K_PAREN_R a ++
  toks_directives ds ++ (if rp then [nm s_repeatable] else []) ++
  nm s_on :: toks_sep K_PIPE toks_name ls.
Proof. reflexivity. Qed.

Lemma rt_directive_definition n ls d a ds rp r :
  wf_name n -> wf_list1 wf_location ls -> wf_description d -> wf_nelist wf_input_value_definition a ->
  (if xdd then wf_directives true ds else ds = ANone) -> hk (nk [K_PIPE; K_LEXERR]) r ->
  run (directive_definition 0 xdd) (toks_type_system (Nd KDirectiveDefinition [ANode n; ls; d; a; ds; ABool rp]) ++ r)
      (Nd KDirectiveDefinition [ANode n; ls; d; a; ds; ABool rp]) r.
Proof.
  intros [nv] [x l Hx Hl] Hd Ha Hds Hr. rewrite toks_directive_def. cbn [toks_name]. norm.
  unfold directive_definition.
  eapply run_bind; [apply rt_description; [exact Hd|reflexivity]|].
  eapply run_bind; [apply run_expect_keyword; reflexivity|].
  eapply run_bind; [apply run_expect_token; reflexivity|].
  assert (Hrest : forall ks, nk ks (K_NAME, []) = true ->
            hk (nk ks) ((if rp then [nm s_repeatable] else []) ++ nm s_on :: toks_sep K_PIPE toks_name (x :: l) ++ r)).
  { intros ks H. destruct rp; exact H. }
  assert (Hds' : wf_directives true ds) by (destruct xdd; [exact Hds|subst ds; constructor]).
  eapply run_bind.
  { apply run_name. eapply hk_block_nk; [exact Ha|reflexivity|].
    apply (hk_directives_nk true); [exact Hds'|reflexivity|]. apply Hrest. reflexivity. }
  eapply run_bind.
  { apply rt_argument_defs; [exact Ha|].
    apply (hk_directives_nk true); [exact Hds'|reflexivity|]. apply Hrest. reflexivity. }
  eapply run_bind.
  { instantiate (1 := (if rp then [nm s_repeatable] else []) ++ nm s_on :: toks_sep K_PIPE toks_name (x :: l) ++ r).
    instantiate (1 := ds).
    destruct xdd.
    - apply rt_directives; [exact Hds|]. apply Hrest. reflexivity.
    - subst ds. apply run_ret. }
  eapply run_bind.
  { instantiate (1 := nm s_on :: toks_sep K_PIPE toks_name (x :: l) ++ r). instantiate (1 := rp).
    destruct rp.
    - cbn [app]. apply run_eokw_yes. reflexivity.
    - cbn [app]. apply run_eokw_no. reflexivity. }
  eapply run_bind.
  { apply run_expect_keyword.
    destruct Hx as [xv Hxv]. destruct l; reflexivity. }
  eapply run_bind.
  { apply (rt_delimited_many (directive_location 0) toks_name wf_location [K_LEXERR]); try reflexivity; try assumption.
    - intros y r0 Hy Hr0. apply rt_directive_location; assumption.
    - intros y r0 [yv Hyv]. reflexivity. }
  rewrite (oattr_attr_list _ _ Ha). apply run_ret.
Qed.

(* ---------- extensions ---------- *)
Lemma present1 a : some_present [a] -> attr_empty a = false.
Proof. unfold some_present. cbn [existsb]. destruct (attr_empty a); cbn; congruence. Qed.
Lemma present2 a b : some_present [a; b] -> attr_empty a && attr_empty b = false.
Proof. unfold some_present. cbn [existsb]. destruct (attr_empty a), (attr_empty b); cbn; congruence. Qed.
Lemma present3 a b c : some_present [a; b; c] -> attr_empty a && attr_empty b && attr_empty c = false.
Proof.
  unfold some_present. cbn [existsb]. destruct (attr_empty a), (attr_empty b), (attr_empty c); cbn; congruence.
Qed.

Lemma rt_operation_types_opt a r : wf_nelist wf_operation_type_definition a -> hk nle r ->
  (is_block a = false -> hk (nk [K_BRACE_L]) r) ->
  run (optional_many 0 K_BRACE_L (operation_type_definition 0) K_BRACE_R) (toks_operation_types a ++ r) (attr_list a) r.
Proof.
  intros W Hr Hbk. unfold toks_operation_types.
  apply (rt_optional_many_gen (operation_type_definition 0) toks_operation_type_definition wf_operation_type_definition [K_LEXERR]);
    try reflexivity; try assumption.
  - intros x r0 Hx Hr0. apply rt_operation_type_definition; assumption.
  - intros x r0 [o t Ho Ht]. reflexivity.
Qed.

Lemma rt_schema_extension ds ots r :
  wf_directives true ds -> wf_nelist wf_operation_type_definition ots -> some_present [ds; ots] ->
  hk (nk fol_blockdef) r -> (is_block ots = false -> hk (nk [K_BRACE_L]) r) ->
  run (schema_extension 0) (toks_extension (Nd KSchemaExtension [ds; ots]) ++ r) (Nd KSchemaExtension [ds; ots]) r.
Proof.
  intros Hds Hots Hp Hr Hb. cbn [toks_extension]. norm. unfold schema_extension.
  eapply run_bind; [apply run_expect_keyword; reflexivity|].
  eapply run_bind.
  { apply run_expect_keyword. apply (hk_directives_nk true); [exact Hds|reflexivity|].
    eapply hk_block_nk; [exact Hots|reflexivity|]. eapply hk_nk_incl; [|exact Hr]. reflexivity. }
  eapply run_bind.
  { apply rt_directives; [exact Hds|].
    eapply hk_block_nk; [exact Hots|reflexivity|]. eapply hk_nk_incl; [|exact Hr]. reflexivity. }
  eapply run_bind.
  { apply rt_operation_types_opt; [exact Hots| |exact Hb]. eapply hk_nk_incl; [|exact Hr]. reflexivity. }
  rewrite (oattr_attr_list _ _ Hots). rewrite (present2 _ _ Hp). apply run_ret.
Qed.

Lemma rt_scalar_type_extension n ds r :
  wf_name n -> wf_directives true ds -> some_present [ds] -> hk (nk fol_directives) r ->
  run (scalar_type_extension 0) (toks_extension (Nd KScalarTypeExtension [ANode n; ds]) ++ r)
      (Nd KScalarTypeExtension [ANode n; ds]) r.
Proof.
  intros [nv] Hds Hp Hr. cbn [toks_extension toks_name]. norm. unfold scalar_type_extension.
  eapply run_bind; [apply run_expect_keyword; reflexivity|].
  eapply run_bind; [apply run_expect_keyword; reflexivity|].
  eapply run_bind.
  { apply run_name. apply (hk_directives_nk true); [exact Hds|reflexivity|].
    eapply hk_nk_incl; [|exact Hr]. reflexivity. }
  eapply run_bind; [apply rt_directives; [exact Hds|exact Hr]|].
  rewrite (present1 _ Hp). apply run_ret.
Qed.

Lemma rt_object_type_extension n ds i f r :
  wf_name n -> wf_directives true ds -> wf_nelist wf_named_type i -> wf_nelist wf_field_definition f ->
  some_present [i; ds; f] -> not_kw s_implements r -> hk (nk fol_typedef) r ->
  (is_block f = false -> hk (nk [K_BRACE_L]) r) ->
  run (object_type_extension 0) (toks_extension (Nd KObjectTypeExtension [ANode n; ds; i; f]) ++ r)
      (Nd KObjectTypeExtension [ANode n; ds; i; f]) r.
Proof.
  intros Hn Hds Hi Hf Hp Hk Hr Hb. cbn [toks_extension]. norm. unfold object_type_extension.
  eapply run_bind; [apply run_expect_keyword; reflexivity|].
  eapply run_bind; [apply run_expect_keyword; destruct Hn as [nv]; reflexivity|].
  apply run_object_body; try assumption.
  rewrite (oattr_attr_list _ _ Hf). rewrite (present3 _ _ _ Hp). apply run_ret.
Qed.

Lemma rt_interface_type_extension n ds i f r :
  wf_name n -> wf_directives true ds -> wf_nelist wf_named_type i -> wf_nelist wf_field_definition f ->
  some_present [i; ds; f] -> not_kw s_implements r -> hk (nk fol_typedef) r ->
  (is_block f = false -> hk (nk [K_BRACE_L]) r) ->
  run (interface_type_extension 0) (toks_extension (Nd KInterfaceTypeExtension [ANode n; ds; i; f]) ++ r)
      (Nd KInterfaceTypeExtension [ANode n; ds; i; f]) r.
Proof.
  intros Hn Hds Hi Hf Hp Hk Hr Hb. cbn [toks_extension]. norm. unfold interface_type_extension.
  eapply run_bind; [apply run_expect_keyword; reflexivity|].
  eapply run_bind; [apply run_expect_keyword; destruct Hn as [nv]; reflexivity|].
  apply run_object_body; try assumption.
  rewrite (oattr_attr_list _ _ Hf). rewrite (present3 _ _ _ Hp). apply run_ret.
Qed.

Lemma rt_union_type_extension n ds ts r :
  wf_name n -> wf_directives true ds -> wf_nelist wf_named_type ts -> some_present [ds; ts] ->
  hk (nk fol_uniondef) r ->
  run (union_type_extension 0) (toks_extension (Nd KUnionTypeExtension [ANode n; ds; ts]) ++ r)
      (Nd KUnionTypeExtension [ANode n; ds; ts]) r.
Proof.
  intros Hn Hds Hts Hp Hr. cbn [toks_extension]. norm. unfold union_type_extension.
  eapply run_bind; [apply run_expect_keyword; reflexivity|].
  eapply run_bind; [apply run_expect_keyword; destruct Hn as [nv]; reflexivity|].
  apply run_union_body; try assumption.
  rewrite (present2 _ _ Hp). apply run_ret.
Qed.

Lemma rt_enum_type_extension n ds vs r :
  wf_name n -> wf_directives true ds -> wf_nelist wf_enum_value_definition vs -> some_present [ds; vs] ->
  hk (nk fol_blockdef) r -> (is_block vs = false -> hk (nk [K_BRACE_L]) r) ->
  run (enum_type_extension 0) (toks_extension (Nd KEnumTypeExtension [ANode n; ds; vs]) ++ r)
      (Nd KEnumTypeExtension [ANode n; ds; vs]) r.
Proof.
  intros Hn Hds Hvs Hp Hr Hb. cbn [toks_extension]. norm. unfold enum_type_extension.
  eapply run_bind; [apply run_expect_keyword; reflexivity|].
  eapply run_bind; [apply run_expect_keyword; destruct Hn as [nv]; reflexivity|].
  unfold toks_enum_values.
  apply (run_block_body (enum_values_definition 0) wf_enum_value_definition); try assumption.
  - intros a r0 Ha Hr0 Hb0. apply rt_enum_values_definition; assumption.
  - rewrite (oattr_attr_list _ _ Hvs). rewrite (present2 _ _ Hp). apply run_ret.
Qed.

Lemma rt_input_object_type_extension n ds f r :
  wf_name n -> wf_directives true ds -> wf_nelist wf_input_value_definition f -> some_present [ds; f] ->
  hk (nk fol_blockdef) r -> (is_block f = false -> hk (nk [K_BRACE_L]) r) ->
  run (input_object_type_extension 0) (toks_extension (Nd KInputObjectTypeExtension [ANode n; ds; f]) ++ r)
      (Nd KInputObjectTypeExtension [ANode n; ds; f]) r.
Proof.
  intros Hn Hds Hf Hp Hr Hb. cbn [toks_extension]. norm. unfold input_object_type_extension.
  eapply run_bind; [apply run_expect_keyword; reflexivity|].
  eapply run_bind; [apply run_expect_keyword; destruct Hn as [nv]; reflexivity|].
  unfold toks_input_fields.
  apply (run_block_body (input_fields_definition 0) wf_input_value_definition); try assumption.
  - intros a r0 Ha Hr0 Hb0. apply rt_input_fields_definition; assumption.
  - rewrite (oattr_attr_list _ _ Hf). rewrite (present2 _ _ Hp). apply run_ret.
Qed.

Lemma rt_directive_definition_extension n ds r :
  wf_name n -> wf_directives true ds -> some_present [ds] -> hk (nk fol_directives) r ->
  run (directive_definition_extension 0) (toks_extension (Nd KDirectiveExtension [ANode n; ds]) ++ r)
      (Nd KDirectiveExtension [ANode n; ds]) r.
Proof.
  intros [nv] Hds Hp Hr. cbn [toks_extension toks_name]. norm. unfold directive_definition_extension.
  eapply run_bind; [apply run_expect_keyword; reflexivity|].
  eapply run_bind; [apply run_expect_keyword; reflexivity|].
  eapply run_bind; [apply run_expect_token; reflexivity|].
  eapply run_bind.
  { apply run_name. apply (hk_directives_nk true); [exact Hds|reflexivity|].
    eapply hk_nk_incl; [|exact Hr]. reflexivity. }
  eapply run_bind; [apply rt_directives; [exact Hds|exact Hr]|].
  rewrite (present1 _ Hp). apply run_ret.
Qed.

(* ---------- definitions ---------- *)
Definition def_keywords : list (list N) :=
  [s_schema; s_scalar; s_type; s_interface; s_union; s_enum; s_input; s_directive;
   s_query; s_mutation; s_subscription; s_fragment; s_extend].

(* first token of a definition, or EOF *)
Definition dstart (t : sigtok) : bool :=
  (fst t =? K_EOF)%N || (fst t =? K_STRING)%N || (fst t =? K_BLOCK_STRING)%N || (fst t =? K_BRACE_L)%N ||
  ((fst t =? K_NAME)%N && existsb (seqb (snd t)) def_keywords).

Definition dstart_kinds : list N := [K_EOF; K_STRING; K_BLOCK_STRING; K_BRACE_L; K_NAME].

Lemma dstart_kind t : dstart t = true -> existsb (N.eqb (fst t)) dstart_kinds = true.
Proof.
  unfold dstart, dstart_kinds. cbn [existsb].
  destruct (fst t =? K_EOF)%N, (fst t =? K_STRING)%N, (fst t =? K_BLOCK_STRING)%N, (fst t =? K_BRACE_L)%N,
    (fst t =? K_NAME)%N; cbn; try reflexivity; discriminate.
Qed.

Lemma dstart_nk ks t : dstart t = true ->
  forallb (fun k => negb (existsb (N.eqb k) dstart_kinds)) ks = true -> nk ks t = true.
Proof.
  intros H1 H2. apply dstart_kind in H1. unfold nk. apply negb_true_iff.
  destruct (existsb (N.eqb (fst t)) ks) eqn:E; [|reflexivity].
  apply existsb_exists in E as (k & Hin & Hk). apply N.eqb_eq in Hk. subst k.
  rewrite forallb_forall in H2. apply H2 in Hin. rewrite H1 in Hin. discriminate.
Qed.

Lemma dstart_not_implements t : dstart t = true -> is_keyword t s_implements = false.
Proof.
  unfold dstart, is_keyword. destruct t as [k v]. cbn [fst snd].
  destruct (k =? K_NAME)%N eqn:E; [|reflexivity]. apply N.eqb_eq in E. subst k. cbn [andb].
  intros H. destruct (seqb v s_implements) eqn:E2; [|reflexivity]. exfalso.
  apply nat_list_eqb_eq in E2. subst v. vm_compute in H. exact (Bool.diff_false_true H).
Qed.

Definition dfol (d : node) (r : list sigtok) : Prop :=
  dstart (tok_at r) = true /\ (ends_with_block d = false -> (kind_at r =? K_BRACE_L)%N = false).

Lemma dfol_nk d r ks : dfol d r ->
  forallb (fun k => negb (existsb (N.eqb k) dstart_kinds)) ks = true -> hk (nk ks) r.
Proof. intros [H _] Hk. apply dstart_nk; assumption. Qed.

Lemma dfol_brace d r : dfol d r -> ends_with_block d = false -> hk (nk [K_BRACE_L]) r.
Proof.
  intros [_ H] Hb. specialize (H Hb). unfold hk, nk. cbn [existsb]. unfold kind_at in H. rewrite H. reflexivity.
Qed.

Lemma dfol_not_implements d r : dfol d r -> not_kw s_implements r.
Proof. intros [H _]. apply dstart_not_implements. exact H. Qed.

Ltac kcbv :=
  cbv beta iota zeta delta [N.eqb Pos.eqb fst snd tok_at nm pt kind_at peek_description andb orb negb
    K_SOF K_EOF K_BANG K_DOLLAR K_AMP K_PAREN_L K_PAREN_R K_DOT K_SPREAD K_COLON K_EQUALS K_AT
    K_BRACKET_L K_BRACKET_R K_BRACE_L K_PIPE K_BRACE_R K_NAME K_INT K_FLOAT K_STRING K_BLOCK_STRING
    K_COMMENT K_LEXERR].

(* the keyword dispatch of parse_definition *)
Definition kw_body (v : list N) : option (P node) :=
  if seqb v s_schema then Some (schema_definition 0)
  else if seqb v s_scalar then Some (scalar_type_definition 0)
  else if seqb v s_type then Some (object_type_definition 0)
  else if seqb v s_interface then Some (interface_type_definition 0)
  else if seqb v s_union then Some (union_type_definition 0)
  else if seqb v s_enum then Some (enum_type_definition 0)
  else if seqb v s_input then Some (input_object_type_definition 0)
  else if seqb v s_directive then Some (directive_definition 0 xdd)
  else if seqb v s_query || seqb v s_mutation || seqb v s_subscription
  then Some (operation_definition 0 xfa)
  else if seqb v s_fragment then Some (fragment_definition 0 xfa)
  else None.

Lemma definition_dispatch d kw rest body :
  wf_description d -> kw_body kw = Some body ->
  definition 0 xfa xdd (toks_description d ++ nm kw :: rest) = body (toks_description d ++ nm kw :: rest).
Proof.
  intros Hd Hb. unfold kw_body in Hb. cbv beta iota delta [orb andb] in Hb.
  destruct Hd as [|s [sv b]].
  - cbn [toks_description toks_opt app]. unfold definition, bind, cur, ret.
    kcbv.
    repeat match type of Hb with
           | (if ?c then _ else _) = _ => destruct c
           end; first [discriminate Hb | inversion Hb; subst; reflexivity].
  - cbn [toks_description toks_opt toks_value app]. unfold definition, bind, cur, look, ret.
    destruct b; kcbv;
      (repeat match type of Hb with
              | (if ?c then _ else _) = _ => destruct c
              end; first [discriminate Hb | inversion Hb; subst; reflexivity]).
Qed.

Lemma definition_dispatch_extend rest :
  definition 0 xfa xdd (nm s_extend :: rest) = type_system_extension 0 xdd (nm s_extend :: rest).
Proof. reflexivity. Qed.

Lemma extension_dispatch kw rest body :
  (if seqb kw s_schema then Some (schema_extension 0)
   else if seqb kw s_scalar then Some (scalar_type_extension 0)
   else if seqb kw s_type then Some (object_type_extension 0)
   else if seqb kw s_interface then Some (interface_type_extension 0)
   else if seqb kw s_union then Some (union_type_extension 0)
   else if seqb kw s_enum then Some (enum_type_extension 0)
   else if seqb kw s_input then Some (input_object_type_extension 0)
   else if seqb kw s_directive && xdd then Some (directive_definition_extension 0)
   else None) = Some body ->
  type_system_extension 0 xdd (nm s_extend :: nm kw :: rest) = body (nm s_extend :: nm kw :: rest).
Proof.
  intros Hb. cbv beta iota delta [orb andb] in Hb. unfold type_system_extension, bind, look.
  kcbv.
  repeat match type of Hb with
         | (if ?c then _ else _) = _ => destruct c
         end; first [discriminate Hb | inversion Hb; subst; reflexivity].
Qed.

Lemma is_shorthand_true d n vs ds o : is_shorthand d n vs ds o = true ->
  d = ANone /\ n = ANone /\ vs = ANone /\ ds = ANone /\ o = 0%N.
Proof.
  unfold is_shorthand. destruct d, n, vs, ds; try discriminate. intros H. apply N.eqb_eq in H. auto.
Qed.

Lemma kw_body_operation o : wf_operation_code o -> kw_body (op_name o) = Some (operation_definition 0 xfa).
Proof. intros [-> | [-> | ->]]; reflexivity. Qed.

Ltac from_dfol H :=
  first [ apply (dfol_nk _ _ _ H); reflexivity
        | apply (dfol_not_implements _ _ H)
        | intros Hblk; apply (dfol_brace _ _ H); exact Hblk ].

Lemma rt_definition x r : wf_definition xfa xdd x -> dfol x r ->
  run (definition 0 xfa xdd) (toks_definition x ++ r) x r.
Proof.
  intros W Hf. destruct W as [x W|x W|x W|x W].
  - (* operation *)
    destruct W as [s d n vs ds o Hs Hd Hn Hvs Hds Ho].
    cbn [toks_definition toks_operation]. destruct (is_shorthand d n vs ds o) eqn:Esh.
    + apply is_shorthand_true in Esh as (-> & -> & -> & -> & ->).
      destruct (toks_selection_set_cons s Hs) as [tl Etl].
      unfold definition. apply run_cur. rewrite Etl at 1. cbn [app tok_at fst pt]. keq.
      apply rt_operation_short; [exact Hs|from_dfol Hf].
    + change (toks_description d ++ nm (op_name o) :: toks_opt toks_name n ++
              toks_variable_definitions vs ++ toks_directives ds ++ toks_selection_set s)
        with (full_operation_toks s d n vs ds o).
      pose proof (rt_operation_full s d n vs ds o r Hs Hd Hn Hvs Hds Ho ltac:(from_dfol Hf)) as R.
      unfold full_operation_toks in *. revert R. norm. intros R. unfold run.
      rewrite (definition_dispatch d (op_name o) _ _ Hd (kw_body_operation o Ho)). exact R.
  - (* fragment *)
    pose proof (rt_fragment_definition x r W ltac:(from_dfol Hf)) as R.
    destruct W as [s d n vs ds tc Hs Hd Hn Hvs Hds Htc].
    cbn [toks_definition]. rewrite toks_fragdef in *. revert R. norm. intros R. unfold run.
    rewrite (definition_dispatch d s_fragment _ (fragment_definition 0 xfa) Hd eq_refl). exact R.
  - (* type system definitions *)
    destruct W as [d ds ots Hd Hds Hots|n d ds Hn Hd Hds|n d ds i f Hn Hd Hds Hi Hfd|n d ds i f Hn Hd Hds Hi Hfd
                  |n d ds ts Hn Hd Hds Hts|n d ds vs Hn Hd Hds Hvs|n d ds f Hn Hd Hds Hfd|n ls d a ds rp Hn Hls Hd Ha Hds].
    + pose proof (rt_schema_definition d ds ots r Hd Hds Hots ltac:(from_dfol Hf)) as R.
      cbn [toks_definition toks_type_system] in *. revert R. norm. intros R. unfold run.
      rewrite (definition_dispatch d s_schema _ (schema_definition 0) Hd eq_refl). exact R.
    + pose proof (rt_scalar_type_definition n d ds r Hn Hd Hds ltac:(from_dfol Hf)) as R.
      cbn [toks_definition toks_type_system] in *. revert R. norm. intros R. unfold run.
      rewrite (definition_dispatch d s_scalar _ (scalar_type_definition 0) Hd eq_refl). exact R.
    + pose proof (rt_object_type_definition n d ds i f r Hn Hd Hds Hi Hfd ltac:(from_dfol Hf) ltac:(from_dfol Hf)
                    ltac:(from_dfol Hf)) as R.
      cbn [toks_definition toks_type_system] in *. revert R. norm. intros R. unfold run.
      rewrite (definition_dispatch d s_type _ (object_type_definition 0) Hd eq_refl). exact R.
    + pose proof (rt_interface_type_definition n d ds i f r Hn Hd Hds Hi Hfd ltac:(from_dfol Hf) ltac:(from_dfol Hf)
                    ltac:(from_dfol Hf)) as R.
      cbn [toks_definition toks_type_system] in *. revert R. norm. intros R. unfold run.
      rewrite (definition_dispatch d s_interface _ (interface_type_definition 0) Hd eq_refl). exact R.
    + pose proof (rt_union_type_definition n d ds ts r Hn Hd Hds Hts ltac:(from_dfol Hf)) as R.
      cbn [toks_definition toks_type_system] in *. revert R. norm. intros R. unfold run.
      rewrite (definition_dispatch d s_union _ (union_type_definition 0) Hd eq_refl). exact R.
    + pose proof (rt_enum_type_definition n d ds vs r Hn Hd Hds Hvs ltac:(from_dfol Hf) ltac:(from_dfol Hf)) as R.
      cbn [toks_definition toks_type_system] in *. revert R. norm. intros R. unfold run.
      rewrite (definition_dispatch d s_enum _ (enum_type_definition 0) Hd eq_refl). exact R.
    + pose proof (rt_input_object_type_definition n d ds f r Hn Hd Hds Hfd ltac:(from_dfol Hf) ltac:(from_dfol Hf)) as R.
      cbn [toks_definition toks_type_system] in *. revert R. norm. intros R. unfold run.
      rewrite (definition_dispatch d s_input _ (input_object_type_definition 0) Hd eq_refl). exact R.
    + pose proof (rt_directive_definition n ls d a ds rp r Hn Hls Hd Ha Hds ltac:(from_dfol Hf)) as R.
      destruct Hls as [lx ll Hlx Hll].
      cbn [toks_definition] in *. rewrite toks_directive_def in *. revert R. norm. intros R. unfold run.
      rewrite (definition_dispatch d s_directive _ (directive_definition 0 xdd) Hd eq_refl). exact R.
  - (* extensions *)
    destruct W as [ds ots Hds Hots Hp|n ds Hn Hds Hp|n ds i f Hn Hds Hi Hfd Hp|n ds i f Hn Hds Hi Hfd Hp
                  |n ds ts Hn Hds Hts Hp|n ds vs Hn Hds Hvs Hp|n ds f Hn Hds Hfd Hp|n ds Hx Hn Hds Hp].
    + pose proof (rt_schema_extension ds ots r Hds Hots Hp ltac:(from_dfol Hf) ltac:(from_dfol Hf)) as R.
      cbn [toks_definition toks_extension] in *. revert R. norm. intros R. unfold run in *.
      rewrite definition_dispatch_extend. rewrite (extension_dispatch s_schema _ (schema_extension 0) eq_refl). exact R.
    + pose proof (rt_scalar_type_extension n ds r Hn Hds Hp ltac:(from_dfol Hf)) as R.
      cbn [toks_definition toks_extension] in *. revert R. norm. intros R. unfold run in *.
      rewrite definition_dispatch_extend. rewrite (extension_dispatch s_scalar _ (scalar_type_extension 0) eq_refl). exact R.
    + pose proof (rt_object_type_extension n ds i f r Hn Hds Hi Hfd Hp ltac:(from_dfol Hf) ltac:(from_dfol Hf)
                    ltac:(from_dfol Hf)) as R.
      cbn [toks_definition toks_extension] in *. revert R. norm. intros R. unfold run in *.
      rewrite definition_dispatch_extend. rewrite (extension_dispatch s_type _ (object_type_extension 0) eq_refl). exact R.
    + pose proof (rt_interface_type_extension n ds i f r Hn Hds Hi Hfd Hp ltac:(from_dfol Hf) ltac:(from_dfol Hf)
                    ltac:(from_dfol Hf)) as R.
      cbn [toks_definition toks_extension] in *. revert R. norm. intros R. unfold run in *.
      rewrite definition_dispatch_extend. rewrite (extension_dispatch s_interface _ (interface_type_extension 0) eq_refl). exact R.
    + pose proof (rt_union_type_extension n ds ts r Hn Hds Hts Hp ltac:(from_dfol Hf)) as R.
      cbn [toks_definition toks_extension] in *. revert R. norm. intros R. unfold run in *.
      rewrite definition_dispatch_extend. rewrite (extension_dispatch s_union _ (union_type_extension 0) eq_refl). exact R.
    + pose proof (rt_enum_type_extension n ds vs r Hn Hds Hvs Hp ltac:(from_dfol Hf) ltac:(from_dfol Hf)) as R.
      cbn [toks_definition toks_extension] in *. revert R. norm. intros R. unfold run in *.
      rewrite definition_dispatch_extend. rewrite (extension_dispatch s_enum _ (enum_type_extension 0) eq_refl). exact R.
    + pose proof (rt_input_object_type_extension n ds f r Hn Hds Hfd Hp ltac:(from_dfol Hf) ltac:(from_dfol Hf)) as R.
      cbn [toks_definition toks_extension] in *. revert R. norm. intros R. unfold run in *.
      rewrite definition_dispatch_extend. rewrite (extension_dispatch s_input _ (input_object_type_extension 0) eq_refl). exact R.
    + pose proof (rt_directive_definition_extension n ds r Hn Hds Hp ltac:(from_dfol Hf)) as R.
      cbn [toks_definition toks_extension] in *. revert R. norm. intros R. unfold run in *.
      rewrite definition_dispatch_extend.
      rewrite (extension_dispatch s_directive _ (directive_definition_extension 0)); [exact R|].
      rewrite Hx. reflexivity.
Qed.

(* a short-form query printed with its keyword (after a definition that does not end with a block) *)
Lemma rt_definition_query x r : wf_definition xfa xdd x -> is_shorthand_operation x = true -> hk nle r ->
  run (definition 0 xfa xdd) (nm s_query :: toks_definition x ++ r) x r.
Proof.
  intros W Hsh Hr. destruct W as [x W|x W|x W|x W].
  - destruct W as [s d n vs ds o Hs Hd Hn Hvs Hds Ho].
    cbn [is_shorthand_operation] in Hsh. cbn [toks_definition toks_operation]. rewrite Hsh.
    apply is_shorthand_true in Hsh as (-> & -> & -> & -> & ->).
    pose proof (rt_operation_full s ANone ANone ANone ANone 0%N r Hs ltac:(constructor) ltac:(constructor)
                  ltac:(constructor) ltac:(constructor) ltac:(left; reflexivity) Hr) as R.
    unfold full_operation_toks in R. cbn [toks_description toks_opt toks_variable_definitions toks_block
                                           toks_directives toks_list app op_name] in R.
    unfold run in *.
    pose proof (definition_dispatch ANone s_query (toks_selection_set s ++ r) (operation_definition 0 xfa)
                  ltac:(constructor) eq_refl) as E.
    cbn [toks_description toks_opt app] in E. rewrite E. exact R.
  - destruct W; discriminate Hsh.
  - destruct W; discriminate Hsh.
  - destruct W; discriminate Hsh.
Qed.

(* first token of a definition *)
Lemma definition_head x r : wf_definition xfa xdd x ->
  dstart (tok_at (toks_definition x ++ r)) = true /\
  (kind_at (toks_definition x ++ r) =? K_EOF)%N = false /\
  (kind_at (toks_definition x ++ r) =? K_LEXERR)%N = false /\
  (is_shorthand_operation x = false -> (kind_at (toks_definition x ++ r) =? K_BRACE_L)%N = false).
Proof.
  assert (D : forall d kw rest, wf_description d -> dstart (nm kw) = true ->
            dstart (tok_at (toks_description d ++ nm kw :: rest)) = true /\
            (kind_at (toks_description d ++ nm kw :: rest) =? K_EOF)%N = false /\
            (kind_at (toks_description d ++ nm kw :: rest) =? K_LEXERR)%N = false /\
            (kind_at (toks_description d ++ nm kw :: rest) =? K_BRACE_L)%N = false).
  { intros d kw rest [|s [sv b]] Hk; [repeat split; try reflexivity; exact Hk|].
    destruct b; repeat split; reflexivity. }
  intros W. destruct W as [x W|x W|x W|x W].
  - destruct W as [s d n vs ds o Hs Hd Hn Hvs Hds Ho].
    cbn [toks_definition toks_operation is_shorthand_operation].
    destruct (is_shorthand d n vs ds o) eqn:Esh.
    + destruct (toks_selection_set_cons s Hs) as [tl ->]. repeat split; try reflexivity. discriminate.
    + norm. destruct (D d (op_name o) (toks_opt toks_name n ++ toks_variable_definitions vs ++ toks_directives ds ++
                                       toks_selection_set s ++ r) Hd) as (D1 & D2 & D3 & D4).
      { destruct Ho as [-> | [-> | ->]]; reflexivity. }
      repeat split; auto.
  - destruct W as [s d n vs ds tc Hs Hd Hn Hvs Hds Htc]. cbn [toks_definition]. rewrite toks_fragdef. norm.
    destruct (D d s_fragment (toks_name n ++ toks_variable_definitions vs ++ nm s_on :: toks_type tc ++
                              toks_directives ds ++ toks_selection_set s ++ r) Hd eq_refl) as (D1 & D2 & D3 & D4).
    repeat split; auto.
  - destruct W as [d ds ots Hd Hds Hots|n d ds Hn Hd Hds|n d ds i f Hn Hd Hds Hi Hfd|n d ds i f Hn Hd Hds Hi Hfd
                  |n d ds ts Hn Hd Hds Hts|n d ds vs Hn Hd Hds Hvs|n d ds f Hn Hd Hds Hfd|n ls d a ds rp Hn Hls Hd Ha Hds];
      try (destruct Hls as [lx ll Hlx Hll]; rewrite ?toks_directive_def);
      cbn [toks_definition toks_type_system]; rewrite ?toks_directive_def; norm;
      match goal with
      | |- dstart (tok_at (toks_description ?d ++ nm ?kw :: ?rest)) = true /\ _ =>
        destruct (D d kw rest Hd eq_refl) as (D1 & D2 & D3 & D4); repeat split; auto
      end.
  - destruct W; cbn [toks_definition toks_extension]; norm; repeat split; reflexivity.
Qed.

(* first token of the rest of the document *)
Lemma definitions_head pb defs v r : Forall (wf_definition xfa xdd) defs ->
  dstart (tok_at (toks_definitions pb defs ++ (K_EOF, v) :: r)) = true /\
  (kind_at (toks_definitions pb defs ++ (K_EOF, v) :: r) =? K_LEXERR)%N = false /\
  (pb = false -> (kind_at (toks_definitions pb defs ++ (K_EOF, v) :: r) =? K_BRACE_L)%N = false).
Proof.
  intros [|x l Hx Hl]; [repeat split; reflexivity|].
  cbn [toks_definitions]. norm.
  destruct (definition_head x (toks_definitions (ends_with_block x) l ++ (K_EOF, v) :: r) Hx) as (D1 & D2 & D3 & D4).
  destruct (negb pb && is_shorthand_operation x) eqn:E.
  - cbn [app]. repeat split; reflexivity.
  - cbn [app]. repeat split; auto. intros ->. cbn [negb andb] in E. apply D4. exact E.
Qed.

Lemma rt_definitions defs : Forall (wf_definition xfa xdd) defs -> forall pb g v r, length defs < g ->
  run (until_close 0 g K_EOF (definition 0 xfa xdd)) (toks_definitions pb defs ++ (K_EOF, v) :: r)
      defs ((K_EOF, v) :: r).
Proof.
  induction 1 as [|x l Hx Hl IH]; intros pb g v r Hg; (destruct g as [|g]; [cbn in Hg; lia|]).
  - cbn [toks_definitions app until_close]. eapply run_bind; [apply run_eot_eof|]. apply run_ret.
  - cbn [toks_definitions until_close]. norm.
    destruct (definition_head x (toks_definitions (ends_with_block x) l ++ (K_EOF, v) :: r) Hx) as (D1 & D2 & D3 & D4).
    destruct (definitions_head (ends_with_block x) l v r Hl) as (T1 & T2 & T3).
    assert (Hnle : hk nle (toks_definitions (ends_with_block x) l ++ (K_EOF, v) :: r)).
    { unfold hk, nle, nk. cbn [existsb]. unfold kind_at in T2. rewrite T2. reflexivity. }
    destruct (negb pb && is_shorthand_operation x) eqn:E.
    + cbn [app].
      eapply run_bind; [apply run_eot_no; reflexivity|]. cbv iota.
      apply andb_true_iff in E as [_ E].
      eapply run_bind; [apply rt_definition_query; [exact Hx|exact E|exact Hnle]|].
      eapply run_bind; [apply IH; cbn in Hg; lia|]. apply run_ret.
    + cbn [app].
      eapply run_bind; [apply run_eot_no; exact D2|]. cbv iota.
      eapply run_bind.
      { apply rt_definition; [exact Hx|]. split; [exact T1|]. intros Hb. apply T3. exact Hb. }
      eapply run_bind; [apply IH; cbn in Hg; lia|]. apply run_ret.
Qed.

Lemma definitions_length pb defs : Forall (wf_definition xfa xdd) defs ->
  length defs <= length (toks_definitions pb defs).
Proof.
  intros H. revert pb. induction H as [|x l Hx Hl IH]; intros pb; [cbn; lia|].
  cbn [toks_definitions length]. rewrite !app_length. specialize (IH (ends_with_block x)).
  destruct (definition_head x [] Hx) as (_ & D2 & _). rewrite app_nil_r in D2.
  destruct (toks_definition x); [discriminate D2|]. cbn [length]. lia.
Qed.

(* ---------- the document ---------- *)
Theorem rt_document d v r : wf_document xfa xdd d ->
  run (document 0 xfa xdd) (sof_tok :: toks_document d ++ (K_EOF, v) :: r) d ((K_EOF, v) :: r).
Proof.
  intros [x l Hx Hl]. cbn [toks_document toks_definitions]. cbn [negb andb app]. unfold document.
  eapply run_bind; [|apply run_ret]. unfold many. norm.
  destruct (definition_head x (toks_definitions (ends_with_block x) l ++ (K_EOF, v) :: r) Hx) as (D1 & D2 & D3 & D4).
  destruct (definitions_head (ends_with_block x) l v r Hl) as (T1 & T2 & T3).
  eapply run_bind.
  { apply run_expect_token; [reflexivity|]. unfold hk, nle, nk. cbn [existsb]. unfold kind_at in D3. rewrite D3. reflexivity. }
  eapply run_bind.
  { apply rt_definition; [exact Hx|]. split; [exact T1|]. intros Hb. apply T3. exact Hb. }
  eapply run_bind; [|apply run_ret].
  unfold loop_close. apply run_with_fuel. apply rt_definitions; [exact Hl|].
  rewrite app_length. pose proof (definitions_length (ends_with_block x) l Hl). lia.
Qed.

End Executable.

(* ---------- the other entry points ---------- *)
Lemma rt_value_entry c x v r : wf_value c x ->
  run (value_entry 0 c) (sof_tok :: toks_value x ++ (K_EOF, v) :: r) x ((K_EOF, v) :: r).
Proof.
  intros W. unfold value_entry, enter.
  eapply run_bind; [apply run_expect_token; [reflexivity|eapply hk_value_nk; [exact W|reflexivity]]|].
  eapply run_bind; [apply rt_value_literal; [exact W|reflexivity]|].
  eapply run_bind; [apply run_expect_eof|]. apply run_ret.
Qed.

Lemma rt_type_entry x v r : wf_type x ->
  run (type_entry 0) (sof_tok :: toks_type x ++ (K_EOF, v) :: r) x ((K_EOF, v) :: r).
Proof.
  intros W. unfold type_entry, enter.
  eapply run_bind; [apply run_expect_token; [reflexivity|apply hk_type_nk; [exact W|reflexivity]]|].
  eapply run_bind; [apply rt_type_reference; [exact W|reflexivity]|].
  eapply run_bind; [apply run_expect_eof|]. apply run_ret.
Qed.

Lemma rt_coordinate_entry x v r : wf_coordinate x ->
  run (coordinate_entry 0) (sof_tok :: toks_coordinate x ++ (K_EOF, v) :: r) x ((K_EOF, v) :: r).
Proof.
  intros W. destruct W as [n [nv]|n m [nv] [mv]|n m a [nv] [mv] [av]|n [nv]|n a [nv] [av]]; reflexivity.
Qed.

Lemma tokens_of_wf e xfa xdd x : wf_ast e xfa xdd x ->
  tokens_of x = match e with
                | EDocument => toks_document x
                | EValue | EConstValue => toks_value x
                | EType => toks_type x
                | ECoordinate => toks_coordinate x
                end.
Proof.
  destruct e; cbn [wf_ast]; intros W.
  - destruct W. reflexivity.
  - destruct W; reflexivity.
  - destruct W; reflexivity.
  - destruct W; reflexivity.
  - destruct W; reflexivity.
Qed.

Theorem core_roundtrip e xfa xdd x v r : wf_ast e xfa xdd x ->
  core e 0 xfa xdd (sof_tok :: tokens_of x ++ (K_EOF, v) :: r) = ROk x ((K_EOF, v) :: r).
Proof.
  intros W. rewrite (tokens_of_wf e xfa xdd x W). destruct e; cbn [core wf_ast] in *.
  - apply rt_document. exact W.
  - apply rt_value_entry. exact W.
  - apply rt_value_entry. exact W.
  - apply rt_type_entry. exact W.
  - apply rt_coordinate_entry. exact W.
Qed.

(* the round trip for the entry points on token lists: positions are irrelevant *)
Theorem parse_entry_roundtrip e o ts x v :
  max_tokens o = None ->
  wf_ast e (exp_fragment_arguments o) (exp_directives_on_directive_definitions o) x ->
  map sig ts = tokens_of x ++ [(K_EOF, v)] ->
  parse_entry e o ts = Ok (x, length (tokens_of x)).
Proof.
  intros Hm W E. unfold parse_entry, floor_of. rewrite Hm, E.
  rewrite (core_roundtrip e _ _ x v [] W). rewrite app_length. cbn [length]. f_equal. f_equal. lia.
Qed.
