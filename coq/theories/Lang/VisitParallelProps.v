(* ParallelVisitor: every visitor of a parallel run sees exactly the calls it would see alone,
   also after SKIP and BREAK (its own and the others').  Generic part: the traversal of a visitor
   that only answers Idle or Break is a fold over the depth-first call list. *)
From GV Require Import Base.Prelude Lang.Visit Lang.VisitProps.

(* The calls a non-editing, never-skipping visitor receives: the depth-first enter/leave
   bracket sequence. *)
Fixpoint calls_tree (t : tree) : list (phase * tree) :=
  match t with
  | Node _ _ ss => (Enter, t) :: calls_slots ss ++ [(Leave, t)]
  end
with calls_slots (ss : slots) : list (phase * tree) :=
  match ss with
  | SNil => []
  | SCons sl r =>
    (match sl with
     | SNone => []
     | SOne c => calls_tree c
     | SArr l => calls_trees l
     end) ++ calls_slots r
  end
with calls_trees (l : trees) : list (phase * tree) :=
  match l with
  | TNil => []
  | TCons c r => calls_tree c ++ calls_trees r
  end.

Section Calls.
  Variable St : Type.
  Variable decide : phase -> tree -> St -> action * St.

  (* run the visitor over a call list, stopping after the first Break *)
  Fixpoint run_calls (cs : list (phase * tree)) (s : St) : bool * St :=
    match cs with
    | [] => (false, s)
    | (ph, t) :: r =>
      let '(a, s') := decide ph t s in
      match a with
      | Break => (true, s')
      | _ => run_calls r s'
      end
    end.

  Lemma run_calls_app a b s :
    run_calls (a ++ b) s =
    if fst (run_calls a s) then run_calls a s else run_calls b (snd (run_calls a s)).
  Proof.
    revert s. induction a as [|[ph t] a IH]; intro s; cbn [app run_calls fst snd].
    - reflexivity.
    - destruct (decide ph t s) as [x s']. destruct x; try apply IH. reflexivity.
  Qed.

  (* a visitor that answers only Idle or Break *)
  Definition idle_or_break : Prop :=
    forall ph t s, fst (decide ph t s) = Idle \/ fst (decide ph t s) = Break.

  Hypothesis Hib : idle_or_break.

  Definition res_of (br : bool) : res := if br then RBreak else RKeep.

  Definition tree_ok (rec : visit_fn St) (t : tree) : Prop :=
    forall k p n h s,
      fst (rec t k p n h s) = res_of (fst (run_calls (calls_tree t) (fst s))) /\
      fst (snd (rec t k p n h s)) = snd (run_calls (calls_tree t) (fst s)).

  Lemma visit_tree_calls fuel :
    forall t, (depth_tree t <= fuel)%nat -> tree_ok (visit_tree St decide fuel) t.
  Proof.
    induction fuel as [|f IH].
    - intros [k i ss] H. cbn in H. lia.
    - set (rec := visit_tree St decide f) in *.
      assert (HT : forall l, (depth_trees l <= f)%nat -> forall j p n s,
                fst (vtrees St rec l j p n s)
                = (if fst (run_calls (calls_trees l) (fst s)) then Some None else Some (Some (l, false))) /\
                fst (snd (vtrees St rec l j p n s)) = snd (run_calls (calls_trees l) (fst s))).
      { induction l as [|c r IHl]; intros Hd j p n s; cbn [vtrees calls_trees] in *.
        - cbn. auto.
        - cbn [depth_trees] in Hd.
          destruct (IH c ltac:(lia) (KIdx j) (p ++ [KIdx j]) n true s) as [H1 H2].
          rewrite run_calls_app.
          destruct (rec c (KIdx j) (p ++ [KIdx j]) n true s) as [rr s1]. cbn [fst snd] in H1, H2.
          destruct (fst (run_calls (calls_tree c) (fst s))) eqn:Eb; cbn [res_of] in H1; subst rr.
          + cbn [fst snd]. rewrite Eb. auto.
          + destruct (IHl ltac:(lia) (S j) p n s1) as [K1 K2].
            destruct (vtrees St rec r (S j) p n s1) as [o s2]. cbn [fst snd] in K1, K2.
            rewrite H2 in K1, K2.
            destruct (fst (run_calls (calls_trees r) (snd (run_calls (calls_tree c) (fst s))))) eqn:Eb2;
              subst o; cbn [fst snd]; auto. }
      assert (HS : forall ss, (depth_slots ss <= f)%nat -> forall i p n s,
                fst (vslots St rec ss i p n s)
                = (if fst (run_calls (calls_slots ss) (fst s)) then Some None else Some (Some (ss, false))) /\
                fst (snd (vslots St rec ss i p n s)) = snd (run_calls (calls_slots ss) (fst s))).
      { induction ss as [|sl r IHs]; intros Hd i p n s; cbn [vslots calls_slots] in *.
        - cbn. auto.
        - cbn [depth_slots] in Hd. rewrite run_calls_app.
          destruct sl as [|c|l]; cbn [depth_slot] in Hd.
          + cbn [run_calls fst snd].
            destruct (IHs ltac:(lia) (S i) p n s) as [K1 K2].
            destruct (vslots St rec r (S i) p n s) as [o s2]. cbn [fst snd] in K1, K2.
            destruct (fst (run_calls (calls_slots r) (fst s))); subst o; cbn [fst snd orb]; auto.
          + destruct (IH c ltac:(lia) (KName i) (p ++ [KName i]) n true s) as [H1 H2].
            destruct (rec c (KName i) (p ++ [KName i]) n true s) as [rr s1]. cbn [fst snd] in H1, H2.
            destruct (fst (run_calls (calls_tree c) (fst s))) eqn:Eb; cbn [res_of] in H1; subst rr.
            * cbn [fst snd]. rewrite Eb. auto.
            * destruct (IHs ltac:(lia) (S i) p n s1) as [K1 K2].
              destruct (vslots St rec r (S i) p n s1) as [o s2]. cbn [fst snd] in K1, K2.
              rewrite H2 in K1, K2.
              destruct (fst (run_calls (calls_slots r) (snd (run_calls (calls_tree c) (fst s))))) eqn:Eb2;
                subst o; cbn [fst snd orb]; auto.
          + destruct (HT l ltac:(lia) 0%nat (p ++ [KName i]) (S n) s) as [H1 H2].
            destruct (vtrees St rec l 0%nat (p ++ [KName i]) (S n) s) as [o1 s1]. cbn [fst snd] in H1, H2.
            destruct (fst (run_calls (calls_trees l) (fst s))) eqn:Eb; subst o1.
            * cbn [fst snd]. rewrite Eb. auto.
            * destruct (IHs ltac:(lia) (S i) p n s1) as [K1 K2].
              destruct (vslots St rec r (S i) p n s1) as [o s2]. cbn [fst snd] in K1, K2.
              rewrite H2 in K1, K2.
              destruct (fst (run_calls (calls_slots r) (snd (run_calls (calls_trees l) (fst s))))) eqn:Eb2;
                subst o; cbn [fst snd orb]; auto. }
      intros [kd id ss] Hd k p n h s. cbn [depth_tree] in Hd.
      cbn [visit_tree]. fold rec. unfold node_step, do_call.
      cbn [calls_tree run_calls].
      pose proof (Hib Enter (Node kd id ss) (fst s)) as He.
      destruct (decide Enter (Node kd id ss) (fst s)) as [a s1]. cbn [fst] in He.
      destruct He as [-> | ->]; [|cbn; auto].
      unfold go. cbn [tslots]. rewrite run_calls_app.
      match goal with |- context [vslots St rec ss 0%nat p ?m ?s0] =>
        destruct (HS ss ltac:(lia) 0%nat p m s0) as [K1 K2];
        destruct (vslots St rec ss 0%nat p m s0) as [o s2] end.
      cbn [fst snd] in K1, K2.
      destruct (fst (run_calls (calls_slots ss) s1)) eqn:Eb; subst o.
      + cbn [fst snd res_of]. rewrite Eb. cbn [fst snd res_of]. auto.
      + cbn [orb]. unfold do_call. cbn [run_calls].
        pose proof (Hib Leave (Node kd id ss) (fst s2)) as Hl.
        rewrite K2 in Hl |- *.
        destruct (decide Leave (Node kd id ss) (snd (run_calls (calls_slots ss) s1))) as [a2 s3].
        cbn [fst] in Hl. destruct Hl as [-> | ->]; cbn; auto.
  Qed.

  (* visit(): result state = the call list run to the first Break *)
  Theorem visit_calls fuel root s0 : (depth_tree root <= fuel)%nat ->
    snd (fst (visit St decide fuel root s0)) = snd (run_calls (calls_tree root) s0).
  Proof.
    intro H. unfold visit.
    destruct (visit_tree_calls fuel root H KNone [] 0%nat false (s0, [])) as [_ H2].
    destruct (visit_tree St decide fuel root KNone [] 0%nat false (s0, [])) as [r [s lg]].
    cbn [fst snd] in *. exact H2.
  Qed.
End Calls.


(* ================================================================ scripts that never edit *)
Definition ne_action (a : action) : Prop := a = Idle \/ a = Skip \/ a = Break.

Definition script_ne (sc : script) : Prop := forall i p a, In (i, p, a) sc -> ne_action a.

Lemma lookup_ne sc id ph : script_ne sc -> ne_action (lookup_script sc id ph).
Proof.
  intro H. induction sc as [|[[i p] a] r IH]; cbn [lookup_script].
  - left. reflexivity.
  - destruct ((i =? id) && phase_eqb p ph).
    + apply (H i p a). left. reflexivity.
    + apply IH. intros i' p' a' Hin. apply (H i' p' a'). right. exact Hin.
Qed.

(* ================================================================ one visitor alone *)
(* the (phase, node id) calls a scripted visitor receives from visit(), and whether it broke off *)
Fixpoint solo_tree (sc : script) (t : tree) : list (phase * N) * bool :=
  match t with
  | Node _ i ss =>
    match lookup_script sc i Enter with
    | Break => ([(Enter, i)], true)
    | Skip => ([(Enter, i)], false)
    | _ =>
      let '(cs, br) := solo_slots sc ss in
      if br then ((Enter, i) :: cs, true)
      else match lookup_script sc i Leave with
           | Break => ((Enter, i) :: cs ++ [(Leave, i)], true)
           | _ => ((Enter, i) :: cs ++ [(Leave, i)], false)
           end
    end
  end
with solo_slots (sc : script) (ss : slots) : list (phase * N) * bool :=
  match ss with
  | SNil => ([], false)
  | SCons sl r =>
    let '(c1, b1) := match sl with
                     | SNone => ([], false)
                     | SOne c => solo_tree sc c
                     | SArr l => solo_trees sc l
                     end in
    if b1 then (c1, true)
    else let '(c2, b2) := solo_slots sc r in (c1 ++ c2, b2)
  end
with solo_trees (sc : script) (l : trees) : list (phase * N) * bool :=
  match l with
  | TNil => ([], false)
  | TCons c r =>
    let '(c1, b1) := solo_tree sc c in
    if b1 then (c1, true)
    else let '(c2, b2) := solo_trees sc r in (c1 ++ c2, b2)
  end.

Definition proj_log (lg : list call) : list (phase * N) := map (fun c => (c_phase c, c_id c)) lg.

Lemma proj_log_cons ph id kd k p n a lg :
  proj_log (mkCall ph id kd k p n a :: lg) = (ph, id) :: proj_log lg.
Proof. reflexivity. Qed.

Section Solo.
  Variable sc : script.
  Hypothesis Hne : script_ne sc.

  Notation dec := (scripted sc).

  (* log in the state is latest-first *)
  Definition solo_ok (rec : visit_fn unit) (t : tree) : Prop :=
    forall k p n h s,
      fst (rec t k p n h s) = (if snd (solo_tree sc t) then RBreak else RKeep) /\
      proj_log (snd (snd (rec t k p n h s))) = rev (fst (solo_tree sc t)) ++ proj_log (snd s).

  Lemma solo_visit_tree fuel :
    forall t, (depth_tree t <= fuel)%nat -> solo_ok (visit_tree unit dec fuel) t.
  Proof.
    induction fuel as [|f IH].
    - intros [k i ss] H. cbn in H. lia.
    - set (rec := visit_tree unit dec f) in *.
      assert (HT : forall l, (depth_trees l <= f)%nat -> forall j p n s,
                fst (vtrees unit rec l j p n s)
                = (if snd (solo_trees sc l) then Some None else Some (Some (l, false))) /\
                proj_log (snd (snd (vtrees unit rec l j p n s)))
                = rev (fst (solo_trees sc l)) ++ proj_log (snd s)).
      { induction l as [|c r IHl]; intros Hd j p n s; cbn [vtrees solo_trees] in *.
        - cbn. auto.
        - cbn [depth_trees] in Hd.
          destruct (IH c ltac:(lia) (KIdx j) (p ++ [KIdx j]) n true s) as [H1 H2].
          destruct (rec c (KIdx j) (p ++ [KIdx j]) n true s) as [rr s1]. cbn [fst snd] in H1, H2.
          destruct (solo_tree sc c) as [c1 b1]. cbn [fst snd] in *.
          destruct b1; subst rr.
          + cbn [fst snd]. auto.
          + destruct (IHl ltac:(lia) (S j) p n s1) as [K1 K2].
            destruct (vtrees unit rec r (S j) p n s1) as [o s2]. cbn [fst snd] in K1, K2.
            destruct (solo_trees sc r) as [c2 b2]. cbn [fst snd] in *.
            destruct b2; subst o; cbn [fst snd]; rewrite K2, H2, rev_app_distr, app_assoc; auto. }
      assert (HS : forall ss, (depth_slots ss <= f)%nat -> forall i p n s,
                fst (vslots unit rec ss i p n s)
                = (if snd (solo_slots sc ss) then Some None else Some (Some (ss, false))) /\
                proj_log (snd (snd (vslots unit rec ss i p n s)))
                = rev (fst (solo_slots sc ss)) ++ proj_log (snd s)).
      { induction ss as [|sl r IHs]; intros Hd i p n s; cbn [vslots solo_slots] in *.
        - cbn. auto.
        - cbn [depth_slots] in Hd.
          destruct sl as [|c|l]; cbn [depth_slot] in Hd.
          + destruct (IHs ltac:(lia) (S i) p n s) as [K1 K2].
            destruct (vslots unit rec r (S i) p n s) as [o s2]. cbn [fst snd] in K1, K2.
            destruct (solo_slots sc r) as [c2 b2]. cbn [fst snd app] in *.
            destruct b2; subst o; cbn [fst snd orb]; auto.
          + destruct (IH c ltac:(lia) (KName i) (p ++ [KName i]) n true s) as [H1 H2].
            destruct (rec c (KName i) (p ++ [KName i]) n true s) as [rr s1]. cbn [fst snd] in H1, H2.
            destruct (solo_tree sc c) as [c1 b1]. cbn [fst snd] in *.
            destruct b1; subst rr.
            * cbn [fst snd]. auto.
            * destruct (IHs ltac:(lia) (S i) p n s1) as [K1 K2].
              destruct (vslots unit rec r (S i) p n s1) as [o s2]. cbn [fst snd] in K1, K2.
              destruct (solo_slots sc r) as [c2 b2]. cbn [fst snd] in *.
              destruct b2; subst o; cbn [fst snd orb]; rewrite K2, H2, rev_app_distr, app_assoc; auto.
          + destruct (HT l ltac:(lia) 0%nat (p ++ [KName i]) (S n) s) as [H1 H2].
            destruct (vtrees unit rec l 0%nat (p ++ [KName i]) (S n) s) as [o1 s1]. cbn [fst snd] in H1, H2.
            destruct (solo_trees sc l) as [c1 b1]. cbn [fst snd] in *.
            destruct b1; subst o1.
            * cbn [fst snd]. auto.
            * destruct (IHs ltac:(lia) (S i) p n s1) as [K1 K2].
              destruct (vslots unit rec r (S i) p n s1) as [o s2]. cbn [fst snd] in K1, K2.
              destruct (solo_slots sc r) as [c2 b2]. cbn [fst snd] in *.
              destruct b2; subst o; cbn [fst snd orb]; rewrite K2, H2, rev_app_distr, app_assoc; auto. }
      intros [kd id ss] Hd k p n h s. cbn [depth_tree] in Hd.
      cbn [visit_tree]. fold rec. unfold node_step, do_call, scripted. cbn [fst snd tid tkindof solo_tree].
      destruct (lookup_ne sc id Enter Hne) as [E|[E|E]]; rewrite E; cbn [fst snd].
      + (* idle: children, then leave *)
        unfold go. cbn [tslots].
        match goal with |- context [vslots unit rec ss 0%nat p ?m ?s0] =>
          destruct (HS ss ltac:(lia) 0%nat p m s0) as [K1 K2];
          destruct (vslots unit rec ss 0%nat p m s0) as [o s2] end.
        cbn [fst snd] in K1, K2. rewrite proj_log_cons in K2.
        destruct (solo_slots sc ss) as [cs br]. cbn [fst snd] in *.
        destruct br; subst o.
        * cbn [fst snd]. split; auto. rewrite K2. cbn [rev]. rewrite <- app_assoc. reflexivity.
        * cbn [orb]. unfold do_call, scripted. cbn [fst snd tid tkindof].
          destruct (lookup_ne sc id Leave Hne) as [L|[L|L]]; rewrite L; cbn [fst snd];
            (split; [reflexivity|]); rewrite proj_log_cons, K2; cbn [rev];
            rewrite rev_app_distr; cbn [rev app]; rewrite <- !app_assoc; reflexivity.
      + split; [reflexivity|]. rewrite proj_log_cons. reflexivity.
      + split; [reflexivity|]. rewrite proj_log_cons. reflexivity.
  Qed.

  Theorem solo_log fuel root : (depth_tree root <= fuel)%nat ->
    proj_log (snd (visit_scripted fuel root sc)) = fst (solo_tree sc root).
  Proof.
    intro H. unfold visit_scripted, visit.
    destruct (solo_visit_tree fuel root H KNone [] 0%nat false (tt, [])) as [_ H2].
    destruct (visit_tree unit dec fuel root KNone [] 0%nat false (tt, [])) as [r [u lg]].
    cbn [fst snd] in *. cbn [proj_log map] in H2. rewrite app_nil_r in H2.
    unfold proj_log in *. rewrite map_rev, H2, rev_involutive. reflexivity.
  Qed.
End Solo.

(* ================================================================ one visitor inside ParallelVisitor *)
(* what ParallelVisitor does for one visitor at one call: new skipping entry, the sub-call if made *)
Definition vstep (sc : script) (ph : phase) (t : tree) (sk : skipstate) : skipstate * list (phase * N) :=
  match sk with
  | SkNone =>
    match ph with
    | Enter =>
      match lookup_script sc (tid t) Enter with
      | Skip => (SkNode (tid t), [(Enter, tid t)])
      | Break => (SkBreak, [(Enter, tid t)])
      | _ => (SkNone, [(Enter, tid t)])
      end
    | Leave =>
      match lookup_script sc (tid t) Leave with
      | Break => (SkBreak, [(Leave, tid t)])
      | _ => (SkNone, [(Leave, tid t)])
      end
    end
  | SkNode id =>
    match ph with
    | Enter => (sk, [])
    | Leave => ((if id =? tid t then SkNone else sk), [])
    end
  | SkBreak => (sk, [])
  end.

Fixpoint vrun (sc : script) (cs : list (phase * tree)) (sk : skipstate) : skipstate * list (phase * N) :=
  match cs with
  | [] => (sk, [])
  | (ph, t) :: r =>
    let '(sk1, c1) := vstep sc ph t sk in
    let '(sk2, c2) := vrun sc r sk1 in
    (sk2, c1 ++ c2)
  end.

Lemma vrun_app sc a b sk :
  vrun sc (a ++ b) sk = (fst (vrun sc b (fst (vrun sc a sk))), snd (vrun sc a sk) ++ snd (vrun sc b (fst (vrun sc a sk)))).
Proof.
  revert sk. induction a as [|[ph t] a IH]; intro sk; cbn [app vrun].
  - cbn. destruct (vrun sc b sk); reflexivity.
  - destruct (vstep sc ph t sk) as [sk1 c1]. rewrite IH.
    destruct (vrun sc a sk1) as [sk2 c2]. cbn [fst snd].
    destruct (vrun sc b sk2) as [sk3 c3]. cbn [fst snd]. rewrite app_assoc. reflexivity.
Qed.

(* pre-order node ids *)
Fixpoint ids_tree (t : tree) : list N :=
  match t with Node _ i ss => i :: ids_slots ss end
with ids_slots (ss : slots) : list N :=
  match ss with
  | SNil => []
  | SCons sl r =>
    (match sl with SNone => [] | SOne c => ids_tree c | SArr l => ids_trees l end) ++ ids_slots r
  end
with ids_trees (l : trees) : list N :=
  match l with
  | TNil => []
  | TCons c r => ids_tree c ++ ids_trees r
  end.

Lemma NoDup_app_l {A} (a b : list A) : NoDup (a ++ b) -> NoDup a.
Proof.
  induction a as [|x a IH]; cbn; intro H; [constructor|].
  inversion H; subst. constructor; auto. intro Hc. apply H2. apply in_or_app. left. exact Hc.
Qed.

Lemma NoDup_app_r {A} (a b : list A) : NoDup (a ++ b) -> NoDup b.
Proof. induction a as [|x a IH]; cbn; intro H; auto. inversion H; auto. Qed.

Section Inside.
  Variable sc : script.
  Hypothesis Hne : script_ne sc.

  (* over the calls of a subtree: from "not skipping" the visitor makes exactly its solo calls;
     while it skips a node outside the subtree, or after it broke, it makes none *)
  Definition inside_ok (cs : list (phase * tree)) (ids : list N) (solo : list (phase * N) * bool) : Prop :=
    vrun sc cs SkNone = ((if snd solo then SkBreak else SkNone), fst solo) /\
    vrun sc cs SkBreak = (SkBreak, []) /\
    forall j, ~ In j ids -> vrun sc cs (SkNode j) = (SkNode j, []).

  Lemma inside_nil : inside_ok [] [] ([], false).
  Proof. repeat split. Qed.

  Lemma inside_app cs1 ids1 s1 cs2 ids2 s2 :
    inside_ok cs1 ids1 s1 -> inside_ok cs2 ids2 s2 ->
    inside_ok (cs1 ++ cs2) (ids1 ++ ids2)
              (if snd s1 then (fst s1, true) else (fst s1 ++ fst s2, snd s2)).
  Proof.
    intros [A1 [A2 A3]] [B1 [B2 B3]]. repeat split.
    - rewrite vrun_app, A1. cbn [fst snd]. destruct (snd s1); cbn [fst snd].
      + rewrite B2. cbn. rewrite app_nil_r. reflexivity.
      + rewrite B1. reflexivity.
    - rewrite vrun_app, A2. cbn [fst snd]. rewrite B2. reflexivity.
    - intros j Hj. rewrite vrun_app, A3; [|intro Hc; apply Hj; apply in_or_app; left; exact Hc].
      cbn [fst snd]. rewrite B3; [reflexivity|]. intro Hc. apply Hj. apply in_or_app. right. exact Hc.
  Qed.

  Lemma inside_tree :
    forall t, NoDup (ids_tree t) -> inside_ok (calls_tree t) (ids_tree t) (solo_tree sc t).
  Proof.
    apply (tree_mut
             (fun t => NoDup (ids_tree t) -> inside_ok (calls_tree t) (ids_tree t) (solo_tree sc t))
             (fun ss => NoDup (ids_slots ss) -> inside_ok (calls_slots ss) (ids_slots ss) (solo_slots sc ss))
             (fun sl => NoDup (match sl with SNone => [] | SOne c => ids_tree c | SArr l => ids_trees l end) ->
                        inside_ok (match sl with SNone => [] | SOne c => calls_tree c | SArr l => calls_trees l end)
                                  (match sl with SNone => [] | SOne c => ids_tree c | SArr l => ids_trees l end)
                                  (match sl with SNone => ([], false) | SOne c => solo_tree sc c | SArr l => solo_trees sc l end))
             (fun l => NoDup (ids_trees l) -> inside_ok (calls_trees l) (ids_trees l) (solo_trees sc l))).
    - (* node *)
      intros k i ss IH Hnd. cbn [ids_tree] in Hnd. inversion Hnd as [|? ? Hni Hss]; subst.
      destruct (IH Hss) as [A1 [A2 A3]].
      cbn [calls_tree ids_tree solo_tree].
      set (t := Node k i ss).
      assert (Hleave : forall sk, vrun sc [(Leave, t)] sk = (fst (vstep sc Leave t sk), snd (vstep sc Leave t sk))).
      { intro sk. cbn [vrun]. destruct (vstep sc Leave t sk). cbn. rewrite app_nil_r. reflexivity. }
      repeat split.
      + (* from not skipping *)
        cbn [vrun vstep]. cbn [tid t].
        destruct (lookup_ne sc i Enter Hne) as [E|[E|E]]; rewrite E.
        * (* idle *)
          rewrite vrun_app, A1. cbn [fst snd]. destruct (solo_slots sc ss) as [cs br]. cbn [fst snd].
          destruct br.
          -- rewrite Hleave. cbn [vstep fst snd]. rewrite app_nil_r. reflexivity.
          -- rewrite Hleave. cbn [vstep fst snd tid t].
             destruct (lookup_ne sc i Leave Hne) as [L|[L|L]]; rewrite L; reflexivity.
        * (* skip: nothing until the leave of this node *)
          rewrite vrun_app, (A3 i Hni). cbn [fst snd]. rewrite Hleave. cbn [vstep fst snd tid t].
          rewrite N.eqb_refl. reflexivity.
        * (* break *)
          rewrite vrun_app, A2. cbn [fst snd]. rewrite Hleave. reflexivity.
      + cbn [vrun vstep]. rewrite vrun_app, A2. cbn [fst snd]. rewrite Hleave. reflexivity.
      + intros j Hj. cbn [vrun vstep]. rewrite vrun_app, A3; [|intro Hc; apply Hj; right; exact Hc].
        cbn [fst snd]. rewrite Hleave. cbn [vstep fst snd tid t].
        destruct (j =? i) eqn:Eq; [|reflexivity].
        apply N.eqb_eq in Eq. subst j. exfalso. apply Hj. left. reflexivity.
    - intros _. apply inside_nil.
    - (* slots *)
      intros sl IHsl r IHr Hnd. cbn [ids_slots calls_slots solo_slots] in *.
      pose proof (inside_app _ _ _ _ _ _ (IHsl (NoDup_app_l _ _ Hnd)) (IHr (NoDup_app_r _ _ Hnd))) as H.
      destruct (match sl with SNone => ([], false) | SOne c => solo_tree sc c | SArr l => solo_trees sc l end)
        as [c1 b1]. cbn [fst snd] in H.
      destruct b1; [exact H|]. destruct (solo_slots sc r) as [c2 b2]. exact H.
    - intros _. apply inside_nil.
    - intros t IH H. exact (IH H).
    - intros l IH H. exact (IH H).
    - intros _. apply inside_nil.
    - (* trees *)
      intros t IHt r IHr Hnd. cbn [ids_trees calls_trees solo_trees] in *.
      pose proof (inside_app _ _ _ _ _ _ (IHt (NoDup_app_l _ _ Hnd)) (IHr (NoDup_app_r _ _ Hnd))) as H.
      destruct (solo_tree sc t) as [c1 b1]. cbn [fst snd] in H.
      destruct b1; [exact H|]. destruct (solo_trees sc r) as [c2 b2]. exact H.
  Qed.
End Inside.

(* ================================================================ ParallelVisitor = every visitor by itself *)
Fixpoint pstep (scs : list script) (sks : list skipstate) (i : nat) (ph : phase) (t : tree)
  : list skipstate * list subcall :=
  match scs, sks with
  | sc :: scs', sk :: sks' =>
    let '(sk', cs) := vstep sc ph t sk in
    let '(sks'', subs) := pstep scs' sks' (S i) ph t in
    (sk' :: sks'', map (fun c => (i, fst c, snd c)) cs ++ subs)
  | _, _ => (sks, [])
  end.

Lemma par_enter_spec t : forall scs sks i, Forall script_ne scs ->
  par_enter scs sks i t = (Idle, fst (pstep scs sks i Enter t), snd (pstep scs sks i Enter t)).
Proof.
  induction scs as [|sc scs IH]; intros sks i Hne; cbn [par_enter pstep].
  - reflexivity.
  - destruct sks as [|sk sks]; [reflexivity|].
    inversion Hne as [|? ? Hsc Hr]; subst. specialize (IH sks (S i) Hr).
    destruct (pstep scs sks (S i) Enter t) as [sks2 subs2]. cbn [fst snd] in IH.
    destruct sk as [|id|]; cbn [vstep].
    + destruct (lookup_ne sc (tid t) Enter Hsc) as [E|[E|E]]; rewrite E, IH; reflexivity.
    + rewrite IH. reflexivity.
    + rewrite IH. reflexivity.
Qed.

Lemma par_leave_spec t : forall scs sks i, Forall script_ne scs ->
  par_leave scs sks i t = (Idle, fst (pstep scs sks i Leave t), snd (pstep scs sks i Leave t)).
Proof.
  induction scs as [|sc scs IH]; intros sks i Hne; cbn [par_leave pstep].
  - reflexivity.
  - destruct sks as [|sk sks]; [reflexivity|].
    inversion Hne as [|? ? Hsc Hr]; subst. specialize (IH sks (S i) Hr).
    destruct (pstep scs sks (S i) Leave t) as [sks2 subs2]. cbn [fst snd] in IH.
    destruct sk as [|id|]; cbn [vstep].
    + destruct (lookup_ne sc (tid t) Leave Hsc) as [E|[E|E]]; rewrite E, IH; reflexivity.
    + rewrite IH. reflexivity.
    + rewrite IH. reflexivity.
Qed.

(* the whole parallel run over a call list *)
Fixpoint prun (scs : list script) (cs : list (phase * tree)) (sks : list skipstate)
  : list skipstate * list subcall :=
  match cs with
  | [] => (sks, [])
  | (ph, t) :: r =>
    let '(sks1, s1) := pstep scs sks 0%nat ph t in
    let '(sks2, s2) := prun scs r sks1 in
    (sks2, s1 ++ s2)
  end.

Lemma parallel_ib scs : Forall script_ne scs -> idle_or_break _ (parallel scs).
Proof.
  intros Hne ph t ps. unfold parallel. destruct ph.
  - rewrite (par_enter_spec t scs (fst ps) 0%nat Hne). left. reflexivity.
  - rewrite (par_leave_spec t scs (fst ps) 0%nat Hne). left. reflexivity.
Qed.

Lemma run_parallel scs : Forall script_ne scs -> forall cs sks acc,
  snd (run_calls _ (parallel scs) cs (sks, acc))
  = (fst (prun scs cs sks), rev (snd (prun scs cs sks)) ++ acc).
Proof.
  intro Hne. induction cs as [|[ph t] cs IH]; intros sks acc; cbn [run_calls prun].
  - reflexivity.
  - unfold parallel at 1. cbn [fst snd].
    assert (Hstep : (match ph with
                     | Enter => par_enter scs sks 0%nat t
                     | Leave => par_leave scs sks 0%nat t
                     end) = (Idle, fst (pstep scs sks 0%nat ph t), snd (pstep scs sks 0%nat ph t))).
    { destruct ph; [apply par_enter_spec | apply par_leave_spec]; exact Hne. }
    rewrite Hstep. destruct (pstep scs sks 0%nat ph t) as [sks1 s1]. cbn [fst snd].
    rewrite IH. destruct (prun scs cs sks1) as [sks2 s2]. cbn [fst snd].
    rewrite rev_app_distr, <- app_assoc. reflexivity.
Qed.

(* the sub-calls of visitor [j], as (phase, node id) *)
Definition projsub (j : nat) (subs : list subcall) : list (phase * N) :=
  map (fun x => (snd (fst x), snd x)) (filter (fun x => (fst (fst x) =? j)%nat) subs).

Lemma projsub_app j a b : projsub j (a ++ b) = projsub j a ++ projsub j b.
Proof. unfold projsub. rewrite filter_app, map_app. reflexivity. Qed.

Lemma projsub_tag_same j (cs : list (phase * N)) :
  projsub j (map (fun c => (j, fst c, snd c)) cs) = cs.
Proof.
  unfold projsub. induction cs as [|[ph id] cs IH]; cbn [map filter fst snd]; auto.
  rewrite Nat.eqb_refl. cbn [map fst snd]. f_equal. exact IH.
Qed.

Lemma projsub_tag_other j i (cs : list (phase * N)) : i <> j ->
  projsub j (map (fun c => (i, fst c, snd c)) cs) = [].
Proof.
  intro H. unfold projsub. induction cs as [|[ph id] cs IH]; cbn [map filter fst snd]; auto.
  destruct (i =? j)%nat eqn:E; [apply Nat.eqb_eq in E; contradiction | exact IH].
Qed.

Lemma pstep_tags ph t : forall scs sks b j, (j < b)%nat -> projsub j (snd (pstep scs sks b ph t)) = [].
Proof.
  induction scs as [|sc scs IH]; intros sks b j Hj; cbn [pstep]; [reflexivity|].
  destruct sks as [|sk sks]; [reflexivity|].
  destruct (vstep sc ph t sk) as [sk' cs]. specialize (IH sks (S b) j ltac:(lia)).
  destruct (pstep scs sks (S b) ph t) as [sks2 subs2]. cbn [snd] in *.
  rewrite projsub_app, IH, projsub_tag_other by lia. reflexivity.
Qed.

Lemma pstep_proj ph t : forall scs sks b i sc sk,
  nth_error scs i = Some sc -> nth_error sks i = Some sk ->
  nth_error (fst (pstep scs sks b ph t)) i = Some (fst (vstep sc ph t sk)) /\
  projsub (b + i) (snd (pstep scs sks b ph t)) = snd (vstep sc ph t sk).
Proof.
  induction scs as [|sc0 scs IH]; intros sks b i sc sk Hsc Hsk.
  - destruct i; discriminate.
  - destruct sks as [|sk0 sks]; [destruct i; discriminate|]. cbn [pstep].
    destruct i as [|i]; cbn [nth_error] in Hsc, Hsk.
    + inversion Hsc; inversion Hsk; subst.
      destruct (vstep sc ph t sk) as [sk' cs].
      pose proof (pstep_tags ph t scs sks (S b) b ltac:(lia)) as Ht.
      destruct (pstep scs sks (S b) ph t) as [sks2 subs2]. cbn [fst snd nth_error] in *.
      rewrite Nat.add_0_r, projsub_app, Ht, projsub_tag_same, app_nil_r. auto.
    + destruct (vstep sc0 ph t sk0) as [sk' cs].
      destruct (IH sks (S b) i sc sk Hsc Hsk) as [I1 I2].
      destruct (pstep scs sks (S b) ph t) as [sks2 subs2]. cbn [fst snd nth_error] in *.
      split; auto. rewrite projsub_app, projsub_tag_other by lia. cbn [app].
      replace (b + S i)%nat with (S b + i)%nat by lia. exact I2.
Qed.

Lemma prun_proj scs i sc : nth_error scs i = Some sc -> forall cs sks sk,
  nth_error sks i = Some sk ->
  projsub i (snd (prun scs cs sks)) = snd (vrun sc cs sk).
Proof.
  intro Hsc. induction cs as [|[ph t] cs IH]; intros sks sk Hsk; cbn [prun vrun].
  - reflexivity.
  - destruct (pstep_proj ph t scs sks 0%nat i sc sk Hsc Hsk) as [P1 P2]. cbn [plus] in P2.
    destruct (pstep scs sks 0%nat ph t) as [sks1 s1]. cbn [fst snd] in *.
    destruct (vstep sc ph t sk) as [sk1 c1]. cbn [fst snd] in *.
    specialize (IH sks1 sk1 P1).
    destruct (prun scs cs sks1) as [sks2 s2]. destruct (vrun sc cs sk1) as [sk2 c2]. cbn [snd] in *.
    rewrite projsub_app, P2, IH. reflexivity.
Qed.

(* ParallelVisitor projection: inside a parallel run of non-editing scripted visitors, visitor i
   receives exactly the calls (phase, node) it receives when it visits the tree alone - also when
   it or any other visitor skips subtrees or breaks off.  Node ids must be distinct (the
   implementation compares node objects by identity). *)
Theorem parallel_projection fuel root scs i sc :
  Forall script_ne scs -> NoDup (ids_tree root) -> (depth_tree root <= fuel)%nat ->
  nth_error scs i = Some sc ->
  projsub i (snd (visit_parallel fuel root scs)) = proj_log (snd (visit_scripted fuel root sc)).
Proof.
  intros Hne Hnd Hd Hi.
  assert (Hsc : script_ne sc).
  { rewrite Forall_forall in Hne. apply Hne. eapply nth_error_In; eauto. }
  rewrite (solo_log sc Hsc fuel root Hd).
  unfold visit_parallel.
  pose proof (visit_calls _ (parallel scs) (parallel_ib scs Hne) fuel root
                          (map (fun _ => SkNone) scs, []) Hd) as Hv.
  destruct (visit pstate (parallel scs) fuel root (map (fun _ => SkNone) scs, [])) as [[r ps] lg].
  cbn [fst snd] in *. subst ps. rewrite (run_parallel scs Hne). cbn [snd].
  rewrite app_nil_r, rev_involutive.
  rewrite (prun_proj scs i sc Hi (calls_tree root) (map (fun _ => SkNone) scs) SkNone).
  - destruct (inside_tree sc Hsc root Hnd) as [A1 _]. rewrite A1. reflexivity.
  - rewrite nth_error_map, Hi. reflexivity.
Qed.
