(* ParallelVisitor: every visitor of a parallel run sees exactly the calls it would see alone,
   also after SKIP and BREAK (its own and the others').  Generic part: the traversal of a visitor
   that only answers Idle or Break is a fold over the depth-first call list. *)
From GV Require Import Base.Prelude Lang.Visit Lang.VisitProps.

(* The calls a non-editing, never-skipping visitor receives: the depth-first enter/leave
   bracket sequence. *)
Fixpoint calls_tree (t : tree) : list (phase * tree) :=
  match t with
  | Node _ _ ss => (Enter, t) :: calls_slots ss ++ [(Leave, t)]
  end
with calls_slots (ss : slots) : list (phase * tree) :=
  match ss with
  | SNil => []
  | SCons sl r =>
    (match sl with
     | SNone => []
     | SOne c => calls_tree c
     | SArr l => calls_trees l
     end) ++ calls_slots r
  end
with calls_trees (l : trees) : list (phase * tree) :=
  match l with
  | TNil => []
  | TCons c r => calls_tree c ++ calls_trees r
  end.

Section Calls.
  Variable St : Type.
  Variable decide : phase -> tree -> St -> action * St.

  (* run the visitor over a call list, stopping after the first Break *)
  Fixpoint run_calls (cs : list (phase * tree)) (s : St) : bool * St :=
    match cs with
    | [] => (false, s)
    | (ph, t) :: r =>
      let '(a, s') := decide ph t s in
      match a with
      | Break => (true, s')
      | _ => run_calls r s'
      end
    end.

  Lemma run_calls_app a b s :
    run_calls (a ++ b) s =
    if fst (run_calls a s) then run_calls a s else run_calls b (snd (run_calls a s)).
  Proof.
    revert s. induction a as [|[ph t] a IH]; intro s; cbn [app run_calls fst snd].
    - reflexivity.
    - destruct (decide ph t s) as [x s']. destruct x; try apply IH. reflexivity.
  Qed.

  (* a visitor that answers only Idle or Break *)
  Definition idle_or_break : Prop :=
    forall ph t s, fst (decide ph t s) = Idle \/ fst (decide ph t s) = Break.

  Hypothesis Hib : idle_or_break.

  Definition res_of (br : bool) : res := if br then RBreak else RKeep.

  Definition tree_ok (rec : visit_fn St) (t : tree) : Prop :=
    forall k p n h s,
      fst (rec t k p n h s) = res_of (fst (run_calls (calls_tree t) (fst s))) /\
      fst (snd (rec t k p n h s)) = snd (run_calls (calls_tree t) (fst s)).

  Lemma visit_tree_calls fuel :
    forall t, (depth_tree t <= fuel)%nat -> tree_ok (visit_tree St decide fuel) t.
  Proof.
    induction fuel as [|f IH].
    - intros [k i ss] H. cbn in H. lia.
    - set (rec := visit_tree St decide f) in *.
      assert (HT : forall l, (depth_trees l <= f)%nat -> forall j p n s,
                fst (vtrees St rec l j p n s)
                = (if fst (run_calls (calls_trees l) (fst s)) then Some None else Some (Some (l, false))) /\
                fst (snd (vtrees St rec l j p n s)) = snd (run_calls (calls_trees l) (fst s))).
      { induction l as [|c r IHl]; intros Hd j p n s; cbn [vtrees calls_trees] in *.
        - cbn. auto.
        - cbn [depth_trees] in Hd.
          destruct (IH c ltac:(lia) (KIdx j) (p ++ [KIdx j]) n true s) as [H1 H2].
          rewrite run_calls_app.
          destruct (rec c (KIdx j) (p ++ [KIdx j]) n true s) as [rr s1]. cbn [fst snd] in H1, H2.
          destruct (fst (run_calls (calls_tree c) (fst s))) eqn:Eb; cbn [res_of] in H1; subst rr.
          + cbn [fst snd]. rewrite Eb. auto.
          + destruct (IHl ltac:(lia) (S j) p n s1) as [K1 K2].
            destruct (vtrees St rec r (S j) p n s1) as [o s2]. cbn [fst snd] in K1, K2.
            rewrite H2 in K1, K2.
            destruct (fst (run_calls (calls_trees r) (snd (run_calls (calls_tree c) (fst s))))) eqn:Eb2;
              subst o; cbn [fst snd]; auto. }
      assert (HS : forall ss, (depth_slots ss <= f)%nat -> forall i p n s,
                fst (vslots St rec ss i p n s)
                = (if fst (run_calls (calls_slots ss) (fst s)) then Some None else Some (Some (ss, false))) /\
                fst (snd (vslots St rec ss i p n s)) = snd (run_calls (calls_slots ss) (fst s))).
      { induction ss as [|sl r IHs]; intros Hd i p n s; cbn [vslots calls_slots] in *.
        - cbn. auto.
        - cbn [depth_slots] in Hd. rewrite run_calls_app.
          destruct sl as [|c|l]; cbn [depth_slot] in Hd.
          + cbn [run_calls fst snd].
            destruct (IHs ltac:(lia) (S i) p n s) as [K1 K2].
            destruct (vslots St rec r (S i) p n s) as [o s2]. cbn [fst snd] in K1, K2.
            destruct (fst (run_calls (calls_slots r) (fst s))); subst o; cbn [fst snd orb]; auto.
          + destruct (IH c ltac:(lia) (KName i) (p ++ [KName i]) n true s) as [H1 H2].
            destruct (rec c (KName i) (p ++ [KName i]) n true s) as [rr s1]. cbn [fst snd] in H1, H2.
            destruct (fst (run_calls (calls_tree c) (fst s))) eqn:Eb; cbn [res_of] in H1; subst rr.
            * cbn [fst snd]. rewrite Eb. auto.
            * destruct (IHs ltac:(lia) (S i) p n s1) as [K1 K2].
              destruct (vslots St rec r (S i) p n s1) as [o s2]. cbn [fst snd] in K1, K2.
              rewrite H2 in K1, K2.
              destruct (fst (run_calls (calls_slots r) (snd (run_calls (calls_tree c) (fst s))))) eqn:Eb2;
                subst o; cbn [fst snd orb]; auto.
          + destruct (HT l ltac:(lia) 0%nat (p ++ [KName i]) (S n) s) as [H1 H2].
            destruct (vtrees St rec l 0%nat (p ++ [KName i]) (S n) s) as [o1 s1]. cbn [fst snd] in H1, H2.
            destruct (fst (run_calls (calls_trees l) (fst s))) eqn:Eb; subst o1.
            * cbn [fst snd]. rewrite Eb. auto.
            * destruct (IHs ltac:(lia) (S i) p n s1) as [K1 K2].
              destruct (vslots St rec r (S i) p n s1) as [o s2]. cbn [fst snd] in K1, K2.
              rewrite H2 in K1, K2.
              destruct (fst (run_calls (calls_slots r) (snd (run_calls (calls_trees l) (fst s))))) eqn:Eb2;
                subst o; cbn [fst snd orb]; auto. }
      intros [kd id ss] Hd k p n h s. cbn [depth_tree] in Hd.
      cbn [visit_tree]. fold rec. unfold node_step, do_call.
      cbn [calls_tree run_calls].
      pose proof (Hib Enter (Node kd id ss) (fst s)) as He.
      destruct (decide Enter (Node kd id ss) (fst s)) as [a s1]. cbn [fst] in He.
      destruct He as [-> | ->]; [|cbn; auto].
      unfold go. cbn [tslots]. rewrite run_calls_app.
      match goal with |- context [vslots St rec ss 0%nat p ?m ?s0] =>
        destruct (HS ss ltac:(lia) 0%nat p m s0) as [K1 K2];
        destruct (vslots St rec ss 0%nat p m s0) as [o s2] end.
      cbn [fst snd] in K1, K2.
      destruct (fst (run_calls (calls_slots ss) s1)) eqn:Eb; subst o.
      + cbn [fst snd res_of]. rewrite Eb. cbn [fst snd res_of]. auto.
      + cbn [orb]. unfold do_call. cbn [run_calls].
        pose proof (Hib Leave (Node kd id ss) (fst s2)) as Hl.
        rewrite K2 in Hl |- *.
        destruct (decide Leave (Node kd id ss) (snd (run_calls (calls_slots ss) s1))) as [a2 s3].
        cbn [fst] in Hl. destruct Hl as [-> | ->]; cbn; auto.
  Qed.

  (* visit(): result state = the call list run to the first Break *)
  Theorem visit_calls fuel root s0 : (depth_tree root <= fuel)%nat ->
    snd (fst (visit St decide fuel root s0)) = snd (run_calls (calls_tree root) s0).
  Proof.
    intro H. unfold visit.
    destruct (visit_tree_calls fuel root H KNone [] 0%nat false (s0, [])) as [_ H2].
    destruct (visit_tree St decide fuel root KNone [] 0%nat false (s0, [])) as [r [s lg]].
    cbn [fst snd] in *. exact H2.
  Qed.
End Calls.

