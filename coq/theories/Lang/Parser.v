(* Executable model of src/graphql/language/parser.py (class Parser and the five entry points).

   The core works on the (kind, value) sequence of the significant tokens ("sigtok"); the
   current token is the head of the remaining list, the empty list behaves like an EOF token;
   an entry point starts on the SOF token put in front of the list (Lexer.__init__).
   A syntax error is reported as the LENGTH OF THE SUFFIX that starts at the blamed token
   (so the core never sees source positions); the entry points translate that index into the
   `start` of the blamed token.

   Laziness of the implementation's lexer: a lexical error is represented by a pseudo token of
   kind K_LEXERR placed where the lexer fails; it is raised when the parser advances onto it
   (Lexer.advance) or looks ahead at it (Lexer.lookahead), not before.

   Token counter / max_tokens (Parser.advance_lexer): the counter after advancing onto the
   token with index i (0-based, not EOF) is i+1, hence "counter > max_tokens" is "the suffix
   starting at the new token has length <= floor" with floor = (number of tokens) - max_tokens;
   floor 0 = no limit.  token_count = number of tokens in front of the final EOF.

   Recursion: the three recursive nonterminals (values, types, selection sets) run on fuel,
   the list loops (any / many / optional_many / delimited_many / directives) on their own fuel;
   ParserProps shows S (length tokens) always suffices. *)
From GV Require Import Base.Prelude Lang.Lexer Lang.Ast.

Definition K_LEXERR : N := 23.

Definition sigtok : Type := (N * list N)%type.
Definition eof_tok : sigtok := (K_EOF, []).
Definition sof_tok : sigtok := (K_SOF, []).
Definition tok_at (ts : list sigtok) : sigtok := match ts with t :: _ => t | [] => eof_tok end.
Definition kind_at (ts : list sigtok) : N := fst (tok_at ts).
Definition val_at (ts : list sigtok) : list N := snd (tok_at ts).

Inductive res (A : Type) : Type :=
| ROk (a : A) (rest : list sigtok)
| RErr (e : nat)
| RFuel.
Arguments ROk {A} a rest.
Arguments RErr {A} e.
Arguments RFuel {A}.

Definition P (A : Type) : Type := list sigtok -> res A.

Definition ret {A} (a : A) : P A := fun ts => ROk a ts.
Definition bind {A B} (m : P A) (f : A -> P B) : P B :=
  fun ts => match m ts with ROk a r => f a r | RErr e => RErr e | RFuel => RFuel end.
Notation "x <- m ;; k" := (bind m (fun x => k)) (at level 61, m at next level, right associativity).
Notation "m ;;; k" := (bind m (fun _ => k)) (at level 61, right associativity).

(* errors: at the current token, at the token consumed last, at the look-ahead token *)
Definition fail_here {A} : P A := fun ts => RErr (length ts).
Definition fail_prev {A} : P A := fun ts => RErr (S (length ts)).
Definition fail_next {A} : P A := fun ts => RErr (length ts - 1).
Definition out_of_fuel {A} : P A := fun _ => RFuel.
Definition cur : P sigtok := fun ts => ROk (tok_at ts) ts.
(* run [g] with fuel S (number of remaining tokens) *)
Definition with_fuel {A} (g : nat -> P A) : P A := fun ts => g (S (length ts)) ts.

Definition seqb (a b : list N) : bool := nat_list_eqb a b.

Definition s_on : list N := [111; 110].
Definition s_true : list N := [116; 114; 117; 101].
Definition s_false : list N := [102; 97; 108; 115; 101].
Definition s_null : list N := [110; 117; 108; 108].
Definition s_query : list N := [113; 117; 101; 114; 121].
Definition s_mutation : list N := [109; 117; 116; 97; 116; 105; 111; 110].
Definition s_subscription : list N := [115; 117; 98; 115; 99; 114; 105; 112; 116; 105; 111; 110].
Definition s_fragment : list N := [102; 114; 97; 103; 109; 101; 110; 116].
Definition s_schema : list N := [115; 99; 104; 101; 109; 97].
Definition s_scalar : list N := [115; 99; 97; 108; 97; 114].
Definition s_type : list N := [116; 121; 112; 101].
Definition s_interface : list N := [105; 110; 116; 101; 114; 102; 97; 99; 101].
Definition s_union : list N := [117; 110; 105; 111; 110].
Definition s_enum : list N := [101; 110; 117; 109].
Definition s_input : list N := [105; 110; 112; 117; 116].
Definition s_directive : list N := [100; 105; 114; 101; 99; 116; 105; 118; 101].
Definition s_extend : list N := [101; 120; 116; 101; 110; 100].
Definition s_implements : list N := [105; 109; 112; 108; 101; 109; 101; 110; 116; 115].
Definition s_repeatable : list N := [114; 101; 112; 101; 97; 116; 97; 98; 108; 101].

(* DirectiveLocation.__members__ *)
Definition directive_location_names : list (list N) := [
  [81; 85; 69; 82; 89]  (* QUERY *);
  [77; 85; 84; 65; 84; 73; 79; 78]  (* MUTATION *);
  [83; 85; 66; 83; 67; 82; 73; 80; 84; 73; 79; 78]  (* SUBSCRIPTION *);
  [70; 73; 69; 76; 68]  (* FIELD *);
  [70; 82; 65; 71; 77; 69; 78; 84; 95; 68; 69; 70; 73; 78; 73; 84; 73; 79; 78]  (* FRAGMENT_DEFINITION *);
  [70; 82; 65; 71; 77; 69; 78; 84; 95; 83; 80; 82; 69; 65; 68]  (* FRAGMENT_SPREAD *);
  [73; 78; 76; 73; 78; 69; 95; 70; 82; 65; 71; 77; 69; 78; 84]  (* INLINE_FRAGMENT *);
  [86; 65; 82; 73; 65; 66; 76; 69; 95; 68; 69; 70; 73; 78; 73; 84; 73; 79; 78]  (* VARIABLE_DEFINITION *);
  [70; 82; 65; 71; 77; 69; 78; 84; 95; 86; 65; 82; 73; 65; 66; 76; 69; 95; 68; 69; 70; 73; 78; 73; 84; 73; 79; 78]  (* FRAGMENT_VARIABLE_DEFINITION *);
  [83; 67; 72; 69; 77; 65]  (* SCHEMA *);
  [83; 67; 65; 76; 65; 82]  (* SCALAR *);
  [79; 66; 74; 69; 67; 84]  (* OBJECT *);
  [70; 73; 69; 76; 68; 95; 68; 69; 70; 73; 78; 73; 84; 73; 79; 78]  (* FIELD_DEFINITION *);
  [65; 82; 71; 85; 77; 69; 78; 84; 95; 68; 69; 70; 73; 78; 73; 84; 73; 79; 78]  (* ARGUMENT_DEFINITION *);
  [73; 78; 84; 69; 82; 70; 65; 67; 69]  (* INTERFACE *);
  [85; 78; 73; 79; 78]  (* UNION *);
  [69; 78; 85; 77]  (* ENUM *);
  [69; 78; 85; 77; 95; 86; 65; 76; 85; 69]  (* ENUM_VALUE *);
  [73; 78; 80; 85; 84; 95; 79; 66; 74; 69; 67; 84]  (* INPUT_OBJECT *);
  [73; 78; 80; 85; 84; 95; 70; 73; 69; 76; 68; 95; 68; 69; 70; 73; 78; 73; 84; 73; 79; 78]  (* INPUT_FIELD_DEFINITION *);
  [68; 73; 82; 69; 67; 84; 73; 86; 69; 95; 68; 69; 70; 73; 78; 73; 84; 73; 79; 78]  (* DIRECTIVE_DEFINITION *)
].
Definition is_directive_location (v : list N) : bool := existsb (seqb v) directive_location_names.

(* OperationType(value): query 0, mutation 1, subscription 2 *)
Definition operation_type_of (v : list N) : option N :=
  if seqb v s_query then Some 0 else if seqb v s_mutation then Some 1
  else if seqb v s_subscription then Some 2 else None.

(* parse_named_values *)
Definition named_value (v : list N) : node :=
  if seqb v s_true then Nd KBooleanValue [ABool true]
  else if seqb v s_false then Nd KBooleanValue [ABool false]
  else if seqb v s_null then Nd KNullValue []
  else Nd KEnumValue [AStr v].

Section Core.
(* floor of the token limit (0 = unlimited) and the two experimental flags *)
Variable fl : nat.
Variable xfa : bool.   (* experimental_fragment_arguments *)
Variable xdd : bool.   (* experimental_directives_on_directive_definitions *)

(* the token that starts the suffix [r] becomes the current token: the lexer reads it (a
   lexical error surfaces here), then advance_lexer counts it unless it is EOF *)
Definition over (r : list sigtok) : bool :=
  match fl with
  | O => false
  | S _ => negb (kind_at r =? K_EOF) && (length r <=? fl)%nat
  end.
Definition chk (r : list sigtok) : res unit :=
  if kind_at r =? K_LEXERR then RErr (length r)
  else if over r then RErr (length r)
  else ROk tt r.

(* Parser.advance_lexer; at EOF the lexer returns the same EOF token again *)
Definition adv : P unit := fun ts =>
  match ts with
  | [] => ROk tt ts
  | t :: r => if fst t =? K_EOF then ROk tt ts else chk r
  end.

(* Lexer.lookahead(): kind and value of the token after the current one; not counted *)
Definition look : P sigtok := fun ts =>
  match ts with
  | [] => ROk eof_tok ts
  | t :: r => if fst t =? K_EOF then ROk t ts
              else if kind_at r =? K_LEXERR then RErr (length r)
              else ROk (tok_at r) ts
  end.

Definition expect_token (k : N) : P (list N) :=
  t <- cur ;; if fst t =? k then adv ;;; ret (snd t) else fail_here.
Definition expect_optional_token (k : N) : P bool :=
  t <- cur ;; if fst t =? k then adv ;;; ret true else ret false.
Definition is_keyword (t : sigtok) (w : list N) : bool := (fst t =? K_NAME) && seqb (snd t) w.
Definition expect_keyword (w : list N) : P unit :=
  t <- cur ;; if is_keyword t w then adv else fail_here.
Definition expect_optional_keyword (w : list N) : P bool :=
  t <- cur ;; if is_keyword t w then adv ;;; ret true else ret false.

(* ---- list loops ---- *)
(* `while not expect_optional_token(close): append(parse_fn())` *)
Fixpoint until_close (fuel : nat) (close : N) (p : P node) : P (list node) :=
  match fuel with
  | O => out_of_fuel
  | S f =>
    b <- expect_optional_token close ;;
    if b then ret [] else x <- p ;; xs <- until_close f close p ;; ret (x :: xs)
  end.
Definition loop_close (close : N) (p : P node) : P (list node) :=
  with_fuel (fun f => until_close f close p).

Definition any_ (open : N) (p : P node) (close : N) : P (list node) :=
  expect_token open ;;; loop_close close p.
Definition many (open : N) (p : P node) (close : N) : P (list node) :=
  expect_token open ;;; x <- p ;; xs <- loop_close close p ;; ret (x :: xs).
Definition optional_many (open : N) (p : P node) (close : N) : P (option (list node)) :=
  b <- expect_optional_token open ;;
  if b then x <- p ;; xs <- loop_close close p ;; ret (Some (x :: xs)) else ret None.

Fixpoint delim_loop (fuel : nat) (delim : N) (p : P node) : P (list node) :=
  match fuel with
  | O => out_of_fuel
  | S f =>
    x <- p ;; b <- expect_optional_token delim ;;
    if b then xs <- delim_loop f delim p ;; ret (x :: xs) else ret [x]
  end.
Definition delimited_many (delim : N) (p : P node) : P (list node) :=
  expect_optional_token delim ;;; with_fuel (fun f => delim_loop f delim p).

(* `while self.peek(kind): append(parse_fn())` *)
Fixpoint while_peek (fuel : nat) (k : N) (p : P node) : P (list node) :=
  match fuel with
  | O => out_of_fuel
  | S f =>
    t <- cur ;;
    if fst t =? k then x <- p ;; xs <- while_peek f k p ;; ret (x :: xs) else ret []
  end.

(* ---- names, variables ---- *)
Definition name : P node := v <- expect_token K_NAME ;; ret (mk_name v).
Definition variable : P node :=
  expect_token K_DOLLAR ;;; n <- name ;; ret (Nd KVariable [ANode n]).
Definition named_type : P node := n <- name ;; ret (Nd KNamedType [ANode n]).

(* ---- values ---- *)
Definition object_field (pv : P node) : P node :=
  n <- name ;; expect_token K_COLON ;;; v <- pv ;; ret (Nd KObjectField [ANode n; ANode v]).

Fixpoint value (fuel : nat) (is_const : bool) : P node :=
  match fuel with
  | O => out_of_fuel
  | S f =>
    t <- cur ;;
    let k := fst t in
    if k =? K_BRACKET_L then
      l <- any_ K_BRACKET_L (value f is_const) K_BRACKET_R ;; ret (Nd KListValue [AList l])
    else if k =? K_BRACE_L then
      l <- any_ K_BRACE_L (object_field (value f is_const)) K_BRACE_R ;;
      ret (Nd KObjectValue [AList l])
    else if k =? K_INT then v <- expect_token K_INT ;; ret (Nd KIntValue [AStr v])
    else if k =? K_FLOAT then v <- expect_token K_FLOAT ;; ret (Nd KFloatValue [AStr v])
    else if k =? K_STRING then
      v <- expect_token K_STRING ;; ret (Nd KStringValue [AStr v; ABool false])
    else if k =? K_BLOCK_STRING then
      v <- expect_token K_BLOCK_STRING ;; ret (Nd KStringValue [AStr v; ABool true])
    else if k =? K_NAME then v <- expect_token K_NAME ;; ret (named_value v)
    else if k =? K_DOLLAR then
      (* parse_variable_value: in a constant the error is at the `$`, after it was consumed *)
      if is_const then expect_token K_DOLLAR ;;; fail_prev else variable
    else fail_here
  end.
Definition value_literal (is_const : bool) : P node := with_fuel (fun f => value f is_const).

(* parse_string_literal, called only when the current token is a string *)
Definition string_literal : P node :=
  t <- cur ;; adv ;;; ret (Nd KStringValue [AStr (snd t); ABool (fst t =? K_BLOCK_STRING)]).
Definition peek_description (t : sigtok) : bool := (fst t =? K_STRING) || (fst t =? K_BLOCK_STRING).
Definition description : P attr :=
  t <- cur ;; if peek_description t then s <- string_literal ;; ret (ANode s) else ret ANone.

(* ---- types ---- *)
Fixpoint type_ref (fuel : nat) : P node :=
  match fuel with
  | O => out_of_fuel
  | S f =>
    b <- expect_optional_token K_BRACKET_L ;;
    t <- (if b then i <- type_ref f ;; expect_token K_BRACKET_R ;;; ret (Nd KListType [ANode i])
          else named_type) ;;
    bang <- expect_optional_token K_BANG ;;
    ret (if bang then Nd KNonNullType [ANode t] else t)
  end.
Definition type_reference : P node := with_fuel type_ref.

(* ---- arguments, directives ---- *)
Definition argument (is_const : bool) : P node :=
  n <- name ;; expect_token K_COLON ;;; v <- value_literal is_const ;;
  ret (Nd KArgument [ANode n; ANode v]).
Definition arguments (is_const : bool) : P (option (list node)) :=
  optional_many K_PAREN_L (argument is_const) K_PAREN_R.
Definition fragment_argument : P node :=
  n <- name ;; expect_token K_COLON ;;; v <- value_literal false ;;
  ret (Nd KFragmentArgument [ANode n; ANode v]).
Definition fragment_arguments : P (option (list node)) :=
  optional_many K_PAREN_L fragment_argument K_PAREN_R.
Definition directive (is_const : bool) : P node :=
  expect_token K_AT ;;; n <- name ;; a <- arguments is_const ;;
  ret (Nd KDirective [ANode n; oattr a]).
Definition directives (is_const : bool) : P attr :=
  l <- with_fuel (fun f => while_peek f K_AT (directive is_const)) ;; ret (lattr l).

(* ---- selection sets ---- *)
Definition fragment_name : P node :=
  t <- cur ;; if seqb (snd t) s_on then fail_here else name.

Definition field (ss : P node) : P node :=
  n1 <- name ;;
  b <- expect_optional_token K_COLON ;;
  an <- (if b then n2 <- name ;; ret (ANode n1, n2) else ret (ANone, n1)) ;;
  a <- arguments false ;;
  d <- directives false ;;
  t <- cur ;;
  s <- (if fst t =? K_BRACE_L then x <- ss ;; ret (ANode x) else ret ANone) ;;
  ret (Nd KField [d; ANode (snd an); fst an; oattr a; s]).

Definition fragment (ss : P node) : P node :=
  expect_token K_SPREAD ;;;
  has_tc <- expect_optional_keyword s_on ;;
  t <- cur ;;
  if negb has_tc && (fst t =? K_NAME) then
    n <- fragment_name ;;
    t2 <- cur ;;
    a <- (if (fst t2 =? K_PAREN_L) && xfa then fragment_arguments else ret None) ;;
    d <- directives false ;;
    ret (Nd KFragmentSpread [d; ANode n; oattr a])
  else
    tc <- (if has_tc then x <- named_type ;; ret (ANode x) else ret ANone) ;;
    d <- directives false ;;
    s <- ss ;;
    ret (Nd KInlineFragment [d; ANode s; tc]).

Definition selection (ss : P node) : P node :=
  t <- cur ;; if fst t =? K_SPREAD then fragment ss else field ss.

Fixpoint sel_set (fuel : nat) : P node :=
  match fuel with
  | O => out_of_fuel
  | S f =>
    l <- many K_BRACE_L (selection (sel_set f)) K_BRACE_R ;; ret (Nd KSelectionSet [AList l])
  end.
Definition selection_set : P node := with_fuel sel_set.

(* ---- operations, fragments ---- *)
Definition variable_definition : P node :=
  d <- description ;;
  v <- variable ;;
  expect_token K_COLON ;;;
  t <- type_reference ;;
  e <- expect_optional_token K_EQUALS ;;
  dv <- (if e then x <- value_literal true ;; ret (ANode x) else ret ANone) ;;
  ds <- directives true ;;
  ret (Nd KVariableDefinition [d; ANode v; ANode t; dv; ds]).
Definition variable_definitions : P (option (list node)) :=
  optional_many K_PAREN_L variable_definition K_PAREN_R.

(* parse_operation_type: the NAME is consumed before its value is looked at *)
Definition operation_type : P N :=
  v <- expect_token K_NAME ;;
  match operation_type_of v with Some c => ret c | None => fail_prev end.

Definition operation_definition : P node :=
  t <- cur ;;
  if fst t =? K_BRACE_L then
    s <- selection_set ;;
    ret (Nd KOperationDefinition [ANode s; ANone; ANone; ANone; ANone; AEnum 0])
  else
    d <- description ;;
    o <- operation_type ;;
    t2 <- cur ;;
    n <- (if fst t2 =? K_NAME then x <- name ;; ret (ANode x) else ret ANone) ;;
    vs <- variable_definitions ;;
    ds <- directives false ;;
    s <- selection_set ;;
    ret (Nd KOperationDefinition [ANode s; d; n; oattr vs; ds; AEnum o]).

Definition type_condition : P node := expect_keyword s_on ;;; named_type.

Definition fragment_definition : P node :=
  d <- description ;;
  expect_keyword s_fragment ;;;
  n <- fragment_name ;;
  vs <- (if xfa then o <- variable_definitions ;; ret (oattr o) else ret (AList [])) ;;
  tc <- type_condition ;;
  ds <- directives false ;;
  s <- selection_set ;;
  ret (Nd KFragmentDefinition [ANode s; d; ANode n; vs; ds; ANode tc]).

(* ---- type system definitions ---- *)
Definition operation_type_definition : P node :=
  o <- operation_type ;; expect_token K_COLON ;;; t <- named_type ;;
  ret (Nd KOperationTypeDefinition [AEnum o; ANode t]).

Definition schema_definition : P node :=
  d <- description ;;
  expect_keyword s_schema ;;;
  ds <- directives true ;;
  ots <- many K_BRACE_L operation_type_definition K_BRACE_R ;;
  ret (Nd KSchemaDefinition [d; ds; AList ots]).

Definition scalar_type_definition : P node :=
  d <- description ;;
  expect_keyword s_scalar ;;;
  n <- name ;;
  ds <- directives true ;;
  ret (Nd KScalarTypeDefinition [ANode n; d; ds]).

Definition implements_interfaces : P attr :=
  b <- expect_optional_keyword s_implements ;;
  if b then l <- delimited_many K_AMP named_type ;; ret (AList l) else ret ANone.

Definition input_value_def : P node :=
  d <- description ;;
  n <- name ;;
  expect_token K_COLON ;;;
  t <- type_reference ;;
  e <- expect_optional_token K_EQUALS ;;
  dv <- (if e then x <- value_literal true ;; ret (ANode x) else ret ANone) ;;
  ds <- directives true ;;
  ret (Nd KInputValueDefinition [ANode n; ANode t; d; dv; ds]).
Definition argument_defs : P (option (list node)) :=
  optional_many K_PAREN_L input_value_def K_PAREN_R.
Definition input_fields_definition : P (option (list node)) :=
  optional_many K_BRACE_L input_value_def K_BRACE_R.

Definition field_definition : P node :=
  d <- description ;;
  n <- name ;;
  a <- argument_defs ;;
  expect_token K_COLON ;;;
  t <- type_reference ;;
  ds <- directives true ;;
  ret (Nd KFieldDefinition [ANode n; ANode t; d; oattr a; ds]).
Definition fields_definition : P (option (list node)) :=
  optional_many K_BRACE_L field_definition K_BRACE_R.

Definition object_type_definition : P node :=
  d <- description ;;
  expect_keyword s_type ;;;
  n <- name ;;
  i <- implements_interfaces ;;
  ds <- directives true ;;
  f <- fields_definition ;;
  ret (Nd KObjectTypeDefinition [ANode n; d; ds; i; oattr f]).

Definition interface_type_definition : P node :=
  d <- description ;;
  expect_keyword s_interface ;;;
  n <- name ;;
  i <- implements_interfaces ;;
  ds <- directives true ;;
  f <- fields_definition ;;
  ret (Nd KInterfaceTypeDefinition [ANode n; d; ds; i; oattr f]).

Definition union_member_types : P attr :=
  b <- expect_optional_token K_EQUALS ;;
  if b then l <- delimited_many K_PIPE named_type ;; ret (AList l) else ret ANone.

Definition union_type_definition : P node :=
  d <- description ;;
  expect_keyword s_union ;;;
  n <- name ;;
  ds <- directives true ;;
  ts <- union_member_types ;;
  ret (Nd KUnionTypeDefinition [ANode n; d; ds; ts]).

Definition enum_value_name : P node :=
  t <- cur ;;
  if seqb (snd t) s_true || seqb (snd t) s_false || seqb (snd t) s_null then fail_here else name.
Definition enum_value_definition : P node :=
  d <- description ;;
  n <- enum_value_name ;;
  ds <- directives true ;;
  ret (Nd KEnumValueDefinition [ANode n; d; ds]).
Definition enum_values_definition : P (option (list node)) :=
  optional_many K_BRACE_L enum_value_definition K_BRACE_R.

Definition enum_type_definition : P node :=
  d <- description ;;
  expect_keyword s_enum ;;;
  n <- name ;;
  ds <- directives true ;;
  vs <- enum_values_definition ;;
  ret (Nd KEnumTypeDefinition [ANode n; d; ds; oattr vs]).

Definition input_object_type_definition : P node :=
  d <- description ;;
  expect_keyword s_input ;;;
  n <- name ;;
  ds <- directives true ;;
  f <- input_fields_definition ;;
  ret (Nd KInputObjectTypeDefinition [ANode n; d; ds; oattr f]).

(* parse_directive_location: the name is consumed, then checked *)
Definition directive_location : P node :=
  v <- expect_token K_NAME ;;
  if is_directive_location v then ret (mk_name v) else fail_prev.

Definition directive_definition : P node :=
  d <- description ;;
  expect_keyword s_directive ;;;
  expect_token K_AT ;;;
  n <- name ;;
  a <- argument_defs ;;
  ds <- (if xdd then directives true else ret ANone) ;;
  r <- expect_optional_keyword s_repeatable ;;
  expect_keyword s_on ;;;
  ls <- delimited_many K_PIPE directive_location ;;
  ret (Nd KDirectiveDefinition [ANode n; AList ls; d; oattr a; ds; ABool r]).

(* ---- extensions ---- *)
Definition attr_empty (a : attr) : bool :=   (* Python truthiness of None / tuple *)
  match a with ANone => true | AList [] => true | _ => false end.

Definition schema_extension : P node :=
  expect_keyword s_extend ;;; expect_keyword s_schema ;;;
  ds <- directives true ;;
  ots <- optional_many K_BRACE_L operation_type_definition K_BRACE_R ;;
  if attr_empty ds && attr_empty (oattr ots) then fail_here
  else ret (Nd KSchemaExtension [ds; oattr ots]).

Definition scalar_type_extension : P node :=
  expect_keyword s_extend ;;; expect_keyword s_scalar ;;;
  n <- name ;;
  ds <- directives true ;;
  if attr_empty ds then fail_here else ret (Nd KScalarTypeExtension [ANode n; ds]).

Definition object_type_extension : P node :=
  expect_keyword s_extend ;;; expect_keyword s_type ;;;
  n <- name ;;
  i <- implements_interfaces ;;
  ds <- directives true ;;
  f <- fields_definition ;;
  if attr_empty i && attr_empty ds && attr_empty (oattr f) then fail_here
  else ret (Nd KObjectTypeExtension [ANode n; ds; i; oattr f]).

Definition interface_type_extension : P node :=
  expect_keyword s_extend ;;; expect_keyword s_interface ;;;
  n <- name ;;
  i <- implements_interfaces ;;
  ds <- directives true ;;
  f <- fields_definition ;;
  if attr_empty i && attr_empty ds && attr_empty (oattr f) then fail_here
  else ret (Nd KInterfaceTypeExtension [ANode n; ds; i; oattr f]).

Definition union_type_extension : P node :=
  expect_keyword s_extend ;;; expect_keyword s_union ;;;
  n <- name ;;
  ds <- directives true ;;
  ts <- union_member_types ;;
  if attr_empty ds && attr_empty ts then fail_here
  else ret (Nd KUnionTypeExtension [ANode n; ds; ts]).

Definition enum_type_extension : P node :=
  expect_keyword s_extend ;;; expect_keyword s_enum ;;;
  n <- name ;;
  ds <- directives true ;;
  vs <- enum_values_definition ;;
  if attr_empty ds && attr_empty (oattr vs) then fail_here
  else ret (Nd KEnumTypeExtension [ANode n; ds; oattr vs]).

Definition input_object_type_extension : P node :=
  expect_keyword s_extend ;;; expect_keyword s_input ;;;
  n <- name ;;
  ds <- directives true ;;
  f <- input_fields_definition ;;
  if attr_empty ds && attr_empty (oattr f) then fail_here
  else ret (Nd KInputObjectTypeExtension [ANode n; ds; oattr f]).

Definition directive_definition_extension : P node :=
  expect_keyword s_extend ;;; expect_keyword s_directive ;;;
  expect_token K_AT ;;;
  n <- name ;;
  ds <- directives true ;;
  if attr_empty ds then fail_here else ret (Nd KDirectiveExtension [ANode n; ds]).

Definition type_system_extension : P node :=
  kt <- look ;;
  if fst kt =? K_NAME then
    let v := snd kt in
    if seqb v s_schema then schema_extension
    else if seqb v s_scalar then scalar_type_extension
    else if seqb v s_type then object_type_extension
    else if seqb v s_interface then interface_type_extension
    else if seqb v s_union then union_type_extension
    else if seqb v s_enum then enum_type_extension
    else if seqb v s_input then input_object_type_extension
    else if seqb v s_directive && xdd then directive_definition_extension
    else fail_next
  else fail_next.

(* ---- definitions, document ---- *)
Definition definition : P node :=
  t <- cur ;;
  if fst t =? K_BRACE_L then operation_definition
  else
    let has_desc := peek_description t in
    kt <- (if has_desc then look else ret t) ;;
    if has_desc && (fst kt =? K_BRACE_L) then fail_here
    else if fst kt =? K_NAME then
      let v := snd kt in
      if seqb v s_schema then schema_definition
      else if seqb v s_scalar then scalar_type_definition
      else if seqb v s_type then object_type_definition
      else if seqb v s_interface then interface_type_definition
      else if seqb v s_union then union_type_definition
      else if seqb v s_enum then enum_type_definition
      else if seqb v s_input then input_object_type_definition
      else if seqb v s_directive then directive_definition
      else if seqb v s_query || seqb v s_mutation || seqb v s_subscription
      then operation_definition
      else if seqb v s_fragment then fragment_definition
      else if has_desc then fail_here
      else if seqb v s_extend then type_system_extension
      else fail_here
    else if has_desc then fail_next else fail_here.

(* parse_document: many(SOF, parse_definition, EOF) *)
Definition document : P node :=
  l <- many K_SOF definition K_EOF ;; ret (Nd KDocument [AList l]).

(* Parser.expect_token(SOF) at the start of the other entry points *)
Definition enter : P (list N) := expect_token K_SOF.

(* parse_value / parse_const_value / parse_type / parse_schema_coordinate (module functions) *)
Definition value_entry (is_const : bool) : P node :=
  enter ;;; v <- value_literal is_const ;; expect_token K_EOF ;;; ret v.
Definition type_entry : P node :=
  enter ;;; t <- type_reference ;; expect_token K_EOF ;;; ret t.

Definition schema_coordinate : P node :=
  of_dir <- expect_optional_token K_AT ;;
  n <- name ;;
  m <- (if of_dir then ret None
        else b <- expect_optional_token K_DOT ;;
             if b then x <- name ;; ret (Some x) else ret None) ;;
  a <- (if of_dir || (match m with Some _ => true | None => false end)
        then b <- expect_optional_token K_PAREN_L ;;
             if b then x <- name ;; expect_token K_COLON ;;; expect_token K_PAREN_R ;;;
                       ret (Some x)
             else ret None
        else ret None) ;;
  ret (if of_dir then
         match a with
         | Some x => Nd KDirectiveArgumentCoordinate [ANode n; ANode x]
         | None => Nd KDirectiveCoordinate [ANode n]
         end
       else match m with
            | Some mn =>
              match a with
              | Some x => Nd KArgumentCoordinate [ANode n; ANode mn; ANode x]
              | None => Nd KMemberCoordinate [ANode n; ANode mn]
              end
            | None => Nd KTypeCoordinate [ANode n]
            end).
Definition coordinate_entry : P node :=
  enter ;;; c <- schema_coordinate ;; expect_token K_EOF ;;; ret c.

End Core.

(* ================= entry points on token lists ================= *)
Record options := mkOpts {
  max_tokens : option nat;
  exp_fragment_arguments : bool;
  exp_directives_on_directive_definitions : bool }.

Inductive entry := EDocument | EValue | EConstValue | EType | ECoordinate.

Definition core (e : entry) (fl : nat) (xfa xdd : bool) : P node :=
  match e with
  | EDocument => document fl xfa xdd
  | EValue => value_entry fl false
  | EConstValue => value_entry fl true
  | EType => type_entry fl
  | ECoordinate => coordinate_entry fl
  end.

Definition sig (t : token) : sigtok := (tkind t, tvalue t).

Definition floor_of (o : options) (len : nat) : nat :=
  match max_tokens o with None => O | Some n => (len - n)%nat end.

(* source position of the token that starts the suffix of length e *)
Definition pos_of (ts : list token) (e : nat) : nat :=
  match skipn (length ts - e) ts with t :: _ => tstart t | [] => O end.

(* result: the tree and the parser's token counter at the end (DocumentNode.token_count) *)
Definition parse_entry (e : entry) (o : options) (ts : list token) : outcome (node * nat) :=
  let s := map sig ts in
  match core e (floor_of o (length s)) (exp_fragment_arguments o)
             (exp_directives_on_directive_definitions o) (sof_tok :: s) with
  | ROk d r => Ok (d, (length s - length r)%nat)
  | RErr x => SyntaxErr (pos_of ts x)
  | RFuel => OutOfFuel
  end.

Definition parse_document := parse_entry EDocument.
Definition parse_value := parse_entry EValue.
Definition parse_const_value := parse_entry EConstValue.
Definition parse_type := parse_entry EType.
Definition parse_schema_coordinate := parse_entry ECoordinate.

(* ================= entry points on source text ================= *)
(* the token stream the parser pulls from the lexer: significant tokens (comments skipped
   as Lexer.lookahead does) up to EOF, or up to the first lexical error *)
Inductive lexend := LEnd | LErr (q : nat) | LCrash (w : N) | LFuel.

Fixpoint lazy_loop (rd : cursor -> list N -> outcome (token * cursor * list N))
         (fuel : nat) (cu : cursor) (s : list N) : list token * lexend :=
  match fuel with
  | O => ([], LFuel)
  | S f =>
    match rd cu s with
    | Ok (tk, cu', s') =>
      if tkind tk =? K_EOF then ([tk], LEnd)
      else let '(ts, e) := lazy_loop rd f cu' s' in
           (if tkind tk =? K_COMMENT then ts else tk :: ts, e)
    | SyntaxErr q => ([], LErr q)
    | Crash w => ([], LCrash w)
    | OutOfFuel => ([], LFuel)
    end
  end.

Definition err_token (q : nat) : token := mkTok K_LEXERR q q O O false [].

Definition token_stream (coord : bool) (s : list N) : outcome (list token) :=
  let '(ts, e) := lazy_loop (if coord then coord_token else read_token) (S (length s)) init_cursor s in
  match e with
  | LEnd => Ok ts
  | LErr q => Ok (ts ++ [err_token q])
  | LCrash w => Crash w
  | LFuel => OutOfFuel
  end.

Definition parse_text (e : entry) (o : options) (s : list N) : outcome (node * nat) :=
  obind (token_stream (match e with ECoordinate => true | _ => false end) s) (parse_entry e o).
