(* Generic AST mirroring src/graphql/language/ast.py.
   One node type: a kind and the list of attribute values in the order of
   dataclasses.fields(cls) of the implementation class (loc excluded).
   harness/parsecorr.py encodes implementation nodes the same way. *)
From GV Require Import Base.Prelude.

(* node kinds, in the order of Python's sorted() on the `kind` strings of the
   concrete node classes; the wire code of a kind is its index in this list *)
Inductive nkind : Set :=
| KArgument | KArgumentCoordinate | KBooleanValue | KDirective
| KDirectiveArgumentCoordinate | KDirectiveCoordinate | KDirectiveDefinition
| KDirectiveExtension | KDocument | KEnumTypeDefinition | KEnumTypeExtension
| KEnumValue | KEnumValueDefinition | KField | KFieldDefinition | KFloatValue
| KFragmentArgument | KFragmentDefinition | KFragmentSpread | KInlineFragment
| KInputObjectTypeDefinition | KInputObjectTypeExtension | KInputValueDefinition
| KIntValue | KInterfaceTypeDefinition | KInterfaceTypeExtension | KListType
| KListValue | KMemberCoordinate | KName | KNamedType | KNonNullType | KNullValue
| KObjectField | KObjectTypeDefinition | KObjectTypeExtension | KObjectValue
| KOperationDefinition | KOperationTypeDefinition | KScalarTypeDefinition
| KScalarTypeExtension | KSchemaDefinition | KSchemaExtension | KSelectionSet
| KStringValue | KTypeCoordinate | KUnionTypeDefinition | KUnionTypeExtension
| KVariable | KVariableDefinition.

Definition kind_code (k : nkind) : N :=
  match k with
  | KArgument => 0 | KArgumentCoordinate => 1 | KBooleanValue => 2 | KDirective => 3
  | KDirectiveArgumentCoordinate => 4 | KDirectiveCoordinate => 5 | KDirectiveDefinition => 6
  | KDirectiveExtension => 7 | KDocument => 8 | KEnumTypeDefinition => 9
  | KEnumTypeExtension => 10 | KEnumValue => 11 | KEnumValueDefinition => 12 | KField => 13
  | KFieldDefinition => 14 | KFloatValue => 15 | KFragmentArgument => 16
  | KFragmentDefinition => 17 | KFragmentSpread => 18 | KInlineFragment => 19
  | KInputObjectTypeDefinition => 20 | KInputObjectTypeExtension => 21
  | KInputValueDefinition => 22 | KIntValue => 23 | KInterfaceTypeDefinition => 24
  | KInterfaceTypeExtension => 25 | KListType => 26 | KListValue => 27
  | KMemberCoordinate => 28 | KName => 29 | KNamedType => 30 | KNonNullType => 31
  | KNullValue => 32 | KObjectField => 33 | KObjectTypeDefinition => 34
  | KObjectTypeExtension => 35 | KObjectValue => 36 | KOperationDefinition => 37
  | KOperationTypeDefinition => 38 | KScalarTypeDefinition => 39 | KScalarTypeExtension => 40
  | KSchemaDefinition => 41 | KSchemaExtension => 42 | KSelectionSet => 43
  | KStringValue => 44 | KTypeCoordinate => 45 | KUnionTypeDefinition => 46
  | KUnionTypeExtension => 47 | KVariable => 48 | KVariableDefinition => 49
  end.

(* attribute values: None, a node, a tuple of nodes, a str (code points), a bool,
   an enum member (OperationType: query 0, mutation 1, subscription 2) *)
Inductive node : Type :=
| Nd (k : nkind) (attrs : list attr)
with attr : Type :=
| ANone
| ANode (n : node)
| AList (l : list node)
| AStr (s : list N)
| ABool (b : bool)
| AEnum (c : N).

(* ---- wire encoding (model -> harness):
   node = kind nattrs attr*;  attr = 0 | 1 node | 2 n node^n | 3 n cp^n | 4 b | 5 c ---- *)
Fixpoint enc_node (n : node) : list N :=
  match n with
  | Nd k attrs =>
    kind_code k :: N.of_nat (length attrs) ::
    flat_map (fun a =>
      match a with
      | ANone => [0]
      | ANode m => 1 :: enc_node m
      | AList l => 2 :: N.of_nat (length l) :: flat_map enc_node l
      | AStr s => 3 :: N.of_nat (length s) :: s
      | ABool b => [4; if b then 1 else 0]
      | AEnum c => [5; c]
      end) attrs
  end.

(* ---- constructors used by the parser ---- *)
Definition mk_name (v : list N) : node := Nd KName [AStr v].
Definition oattr (o : option (list node)) : attr :=
  match o with None => ANone | Some l => AList l end.
(* parse_directives: a tuple, or None when there is no directive *)
Definition lattr (l : list node) : attr :=
  match l with [] => ANone | _ => AList l end.
