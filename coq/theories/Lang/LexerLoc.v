(* Token line/column fields equal get_location of the token start (C10_token_locations). *)
From GV Require Import Base.Prelude Lang.Location Lang.LocationProps Lang.Lexer Lang.LexerProps.

Definition is_lt (c : N) : bool := (c =? LF) || (c =? CR).
Definition clean (l : list N) : Prop := Forall (fun c => is_lt c = false) l.

Lemma clean_app a b : clean a -> clean b -> clean (a ++ b).
Proof. unfold clean. intros. apply Forall_app. split; assumption. Qed.

Lemma clean_firstn_add s n m :
  clean (firstn n s) -> clean (firstn m (skipn n s)) -> clean (firstn (n + m) s).
Proof. intros. rewrite firstn_add. apply clean_app; assumption. Qed.

Lemma span_clean p s a r : (forall c, p c = true -> is_lt c = false) ->
  span p s = (a, r) -> clean a.
Proof.
  intros Hp H. apply span_spec in H as (_ & Hf & _).
  unfold clean. eapply Forall_impl; [|exact Hf]. exact Hp.
Qed.

Lemma digit_not_lt c : is_digit c = true -> is_lt c = false.
Proof.
  unfold is_digit, is_lt, LF, CR. intros H. apply andb_true_iff in H as [H1 H2].
  apply N.leb_le in H1, H2. apply orb_false_iff. split; apply N.eqb_neq; lia.
Qed.

Lemma name_continue_not_lt c : is_name_continue c = true -> is_lt c = false.
Proof.
  unfold is_name_continue, is_letter, is_digit, is_lt, LF, CR. intros H.
  apply orb_false_iff. split; apply N.eqb_neq; intros ->; vm_compute in H; discriminate.
Qed.

Lemma firstn_app_length {A} (a r : list A) : firstn (length a) (a ++ r) = a.
Proof. induction a; cbn; [reflexivity|f_equal; assumption]. Qed.

(* ---- comments ---- *)
Lemma comment_body_clean_n n : forall s a r, (length s <= n)%nat ->
  comment_body s = (a, r) -> clean a.
Proof.
  induction n as [|n IH]; intros s a r Hn H.
  - destruct s; [|cbn in Hn; lia]. cbn in H. inversion H. constructor.
  - destruct s as [|c t]; [cbn in H; inversion H; constructor|].
    cbn in H. destruct ((c =? LF) || (c =? CR)) eqn:Ec.
    + inversion H. constructor.
    + destruct (is_scalar c).
      * destruct (comment_body t) as [a' r'] eqn:E. inversion H; subst.
        constructor; [exact Ec|]. eapply IH; [|exact E]. cbn in Hn; lia.
      * destruct t as [|d t']; [inversion H; constructor|].
        destruct (is_lead c && is_trail d) eqn:Ep.
        -- destruct (comment_body t') as [a' r'] eqn:E. inversion H; subst.
           apply andb_true_iff in Ep as [_ Ed].
           constructor; [exact Ec|]. constructor.
           ++ unfold is_trail in Ed. apply andb_true_iff in Ed as [E1 _]. apply N.leb_le in E1.
              unfold is_lt, LF, CR. apply orb_false_iff. split; apply N.eqb_neq; lia.
           ++ eapply IH; [|exact E]. cbn in Hn; lia.
        -- inversion H. constructor.
Qed.

Lemma comment_body_clean s a r : comment_body s = (a, r) -> clean a.
Proof. apply (comment_body_clean_n (length s)). lia. Qed.

(* ---- numbers: every consumed character is one of - 0-9 . e E + ---- *)
Definition num_char (c : N) : bool :=
  is_digit c || (c =? 45) || (c =? 46) || (c =? 69) || (c =? 101) || (c =? 43).

Lemma num_char_not_lt c : num_char c = true -> is_lt c = false.
Proof.
  unfold num_char, is_digit, is_lt, LF, CR. intros H.
  apply orb_false_iff. split; apply N.eqb_neq; intros ->; vm_compute in H; discriminate.
Qed.

Definition nclean (l : list N) : Prop := Forall (fun c => num_char c = true) l.

Definition nadv (s : list N) (n : nat) (r : list N) : Prop := adv s n r /\ nclean (firstn n s).

Lemma nadv_0 s : nadv s 0 s.
Proof. split; [apply adv_0|constructor]. Qed.

Lemma nadv_trans s n r m r' : nadv s n r -> nadv r m r' -> nadv s (n + m) r'.
Proof.
  intros [A1 C1] [A2 C2]. split; [eapply adv_trans; eauto|].
  rewrite firstn_add. unfold nclean. apply Forall_app. split; [exact C1|].
  destruct A1 as [<- _]. exact C2.
Qed.

Lemma nadv_tl p s : peek_is p s = true -> (forall c, p c = true -> num_char c = true) -> nadv s 1 (tl s).
Proof.
  intros H Hp. destruct s as [|c t]; [discriminate|]. cbn in H.
  split; [apply adv_tl; discriminate|]. cbn. constructor; [apply Hp; exact H|constructor].
Qed.

Lemma read_digits_nadv pos s e r : read_digits pos s = Ok (e, r) ->
  exists k, e = (pos + k)%nat /\ nadv s k r.
Proof.
  unfold read_digits. destruct (peek_is is_digit s) eqn:E; [|discriminate].
  destruct (span is_digit s) as [d r'] eqn:Es. intros H; inversion H; subst.
  exists (length d). split; [reflexivity|]. split; [eapply span_adv; eauto|].
  pose proof Es as Es'. apply span_spec in Es' as (-> & Hf & _).
  rewrite firstn_app_length. unfold nclean. eapply Forall_impl; [|exact Hf].
  intros c Hc. unfold num_char. rewrite Hc. reflexivity.
Qed.

Lemma read_number_nadv start s e fl r : read_number start s = Ok (e, fl, r) ->
  exists k, e = (start + k)%nat /\ nadv s k r.
Proof.
  unfold read_number. cbv zeta. intros H.
  (* sign *)
  assert (A0 : exists k0, fst (num_sign start s) = (start + k0)%nat /\ nadv s k0 (snd (num_sign start s))).
  { unfold num_sign. destruct (peek_is (N.eqb 45) s) eqn:E; cbn [fst snd].
    - exists 1%nat. split; [lia|]. eapply nadv_tl; [exact E|].
      intros c Hc. apply N.eqb_eq in Hc. subst c. reflexivity.
    - exists 0%nat. split; [lia|apply nadv_0]. }
  destruct A0 as (k0 & E0 & A0).
  destruct (num_int (fst (num_sign start s)) (snd (num_sign start s))) as [[p1 s1]| | |] eqn:E1; try discriminate.
  cbn [obind fst snd] in H.
  assert (A1 : exists k1, p1 = (fst (num_sign start s) + k1)%nat /\ nadv (snd (num_sign start s)) k1 s1).
  { unfold num_int in E1. destruct (peek_is (N.eqb 48) (snd (num_sign start s))) eqn:Ez.
    - destruct (peek_is is_digit (tl (snd (num_sign start s)))); [discriminate|]. inversion E1; subst.
      exists 1%nat. split; [lia|]. eapply nadv_tl; [exact Ez|].
      intros c Hc. apply N.eqb_eq in Hc. subst c. reflexivity.
    - apply read_digits_nadv in E1. exact E1. }
  destruct A1 as (k1 & -> & A1).
  destruct (num_frac (fst (num_sign start s) + k1) s1) as [[[p2 f2] s2]| | |] eqn:E2; try discriminate.
  cbn [obind fst snd] in H.
  assert (A2 : exists k2, p2 = (fst (num_sign start s) + k1 + k2)%nat /\ nadv s1 k2 s2).
  { unfold num_frac in E2. destruct (peek_is (N.eqb 46) s1) eqn:Ed.
    - destruct (read_digits (S (fst (num_sign start s) + k1)) (tl s1)) as [[p r']| | |] eqn:Er; try discriminate.
      inversion E2; subst. apply read_digits_nadv in Er as (k & -> & Ak).
      exists (1 + k)%nat. split; [lia|]. eapply nadv_trans; [|exact Ak].
      eapply nadv_tl; [exact Ed|]. intros c Hc. apply N.eqb_eq in Hc. subst c. reflexivity.
    - inversion E2; subst. exists 0%nat. split; [lia|apply nadv_0]. }
  destruct A2 as (k2 & -> & A2).
  destruct (num_exp (fst (num_sign start s) + k1 + k2) f2 s2) as [[[p3 f3] s3]| | |] eqn:E3; try discriminate.
  cbn [obind fst snd] in H.
  assert (A3 : exists k3, p3 = (fst (num_sign start s) + k1 + k2 + k3)%nat /\ nadv s2 k3 s3).
  { unfold num_exp in E3. destruct (peek_is (fun c => (c =? 69) || (c =? 101)) s2) eqn:Ee.
    - assert (Ae : nadv s2 1 (tl s2)).
      { eapply nadv_tl; [exact Ee|]. intros c Hc. unfold num_char.
        apply orb_true_iff in Hc as [Hc|Hc]; rewrite Hc; rewrite ?orb_true_r; reflexivity. }
      cbv zeta in E3.
      destruct (peek_is (fun c => (c =? 43) || (c =? 45)) (tl s2)) eqn:Es; cbn [fst snd] in E3.
      + destruct (read_digits (S (S (fst (num_sign start s) + k1 + k2))) (tl (tl s2))) as [[p r']| | |] eqn:Er; try discriminate.
        inversion E3; subst. apply read_digits_nadv in Er as (k & -> & Ak).
        exists (1 + (1 + k))%nat. split; [lia|]. eapply nadv_trans; [exact Ae|].
        eapply nadv_trans; [|exact Ak]. eapply nadv_tl; [exact Es|].
        intros c Hc. unfold num_char. apply orb_true_iff in Hc as [Hc|Hc]; rewrite Hc; rewrite ?orb_true_r; reflexivity.
      + destruct (read_digits (S (fst (num_sign start s) + k1 + k2)) (tl s2)) as [[p r']| | |] eqn:Er; try discriminate.
        inversion E3; subst. apply read_digits_nadv in Er as (k & -> & Ak).
        exists (1 + k)%nat. split; [lia|]. eapply nadv_trans; [exact Ae|exact Ak].
    - inversion E3; subst. exists 0%nat. split; [lia|apply nadv_0]. }
  destruct A3 as (k3 & -> & A3).
  unfold num_end in H. destruct (peek_is _ s3); [discriminate|]. inversion H; subst.
  exists (k0 + k1 + k2 + k3)%nat. split; [lia|].
  replace (k0 + k1 + k2 + k3)%nat with (k0 + (k1 + (k2 + k3)))%nat by lia.
  eapply nadv_trans; [exact A0|]. eapply nadv_trans; [exact A1|]. eapply nadv_trans; [exact A2|exact A3].
Qed.

Lemma nclean_clean l : nclean l -> clean l.
Proof. unfold nclean, clean. apply Forall_impl. exact num_char_not_lt. Qed.

(* ---- escapes and quoted strings ---- *)
Lemma hex_digit_not_lt c h : hex_digit c = Some h -> is_lt c = false.
Proof.
  unfold hex_digit, is_lt, LF, CR. intros H. apply orb_false_iff.
  split; apply N.eqb_neq; intros ->; vm_compute in H; discriminate.
Qed.

Lemma escaped_char_not_lt c v : escaped_char c = Some v -> is_lt c = false.
Proof.
  unfold escaped_char, is_lt, LF, CR. intros H. apply orb_false_iff.
  split; apply N.eqb_neq; intros ->; vm_compute in H; discriminate.
Qed.

Lemma var_width_clean n : forall point size ds p sz,
  var_width n point size ds = Some (p, sz) -> clean (firstn (sz - size) ds).
Proof.
  induction n as [|n IH]; intros point size ds p sz H; cbn [var_width] in H; [discriminate|].
  destruct ds as [|c t]; [discriminate|].
  destruct (c =? 125) eqn:Ec.
  - destruct (Nat.ltb (S size) 5 || negb (is_scalar point)); [discriminate|].
    inversion H; subst. replace (S size - size)%nat with 1%nat by lia. cbn.
    constructor; [|constructor]. apply N.eqb_eq in Ec. subst c. reflexivity.
  - destruct (hex_digit c) as [h|] eqn:Eh; [|discriminate].
    pose proof (var_width_size _ _ _ _ _ _ H) as Hs.
    apply IH in H.
    replace (sz - size)%nat with (S (sz - S size)) by lia. cbn [firstn].
    constructor; [eapply hex_digit_not_lt; eauto|exact H].
Qed.

Lemma hex4_clean s c : hex4 s = Some c -> clean (firstn 4 s).
Proof.
  destruct s as [|a [|b [|x [|d t]]]]; cbn [hex4]; try discriminate.
  destruct (hex_digit a) eqn:Ea; [|discriminate]. destruct (hex_digit b) eqn:Eb; [|discriminate].
  destruct (hex_digit x) eqn:Ex; [|discriminate]. destruct (hex_digit d) eqn:Ed; [|discriminate].
  intros _. cbn. repeat constructor; eapply hex_digit_not_lt; eauto.
Qed.

Lemma firstn_clean_le n m (s : list N) : (m <= n)%nat -> clean (firstn n s) -> clean (firstn m s).
Proof.
  intros Hle H. replace n with (m + (n - m))%nat in H by lia. rewrite firstn_add in H.
  unfold clean in *. apply Forall_app in H as [H _]. exact H.
Qed.

Lemma read_escape_clean pos t v size :
  read_escape pos (92 :: t) = Ok (v, size) -> clean (firstn size (92 :: t)).
Proof.
  unfold read_escape. cbv zeta. cbn [tl].
  destruct (peek_is (N.eqb 117) t) eqn:Eu.
  - destruct t as [|u t1]; [discriminate|]. cbn [peek_is] in Eu. apply N.eqb_eq in Eu. subst u. cbn [tl].
    destruct (peek_is (N.eqb 123) t1) eqn:Eb.
    + destruct t1 as [|b t2]; [discriminate|]. cbn [peek_is] in Eb. apply N.eqb_eq in Eb. subst b.
      cbn [skipn].
      destruct (var_width 9 0 3 t2) as [[p sz]|] eqn:Ev; [|discriminate].
      intros H; inversion H; subst.
      pose proof (var_width_size _ _ _ _ _ _ Ev) as Hs. apply var_width_clean in Ev.
      replace size with (3 + (size - 3))%nat by lia.
      apply clean_firstn_add; [cbn; repeat constructor|cbn [skipn]; exact Ev].
    + change (skipn 2 (92 :: 117 :: t1)) with t1.
      change (skipn 6 (92 :: 117 :: t1)) with (skipn 4 t1).
      change (skipn 8 (92 :: 117 :: t1)) with (skipn 6 t1).
      destruct (hex4 t1) as [code|] eqn:Eh; [|discriminate].
      pose proof (hex4_clean _ _ Eh) as Hc4. pose proof (hex4_length _ _ Eh) as Hl4.
      destruct (is_scalar code).
      * intros H; inversion H; subst.
        change 6%nat with (2 + 4)%nat. apply clean_firstn_add; [cbn; repeat constructor|exact Hc4].
      * destruct (is_lead code && starts2 92 117 (skipn 4 t1)) eqn:Ep; [|discriminate].
        apply andb_true_iff in Ep as [_ Es2].
        destruct (hex4 (skipn 6 t1)) as [tr|] eqn:Eh2; [|discriminate].
        destruct (is_trail tr); [|discriminate]. intros H; inversion H; subst.
        pose proof (hex4_clean _ _ Eh2) as Hc42.
        change 12%nat with (2 + (4 + (2 + 4)))%nat.
        apply clean_firstn_add; [cbn; repeat constructor|].
        change (skipn 2 (92 :: 117 :: t1)) with t1.
        apply clean_firstn_add; [exact Hc4|].
        apply clean_firstn_add.
        -- destruct (skipn 4 t1) as [|x [|y r]] eqn:Esk; cbn in Es2; try discriminate.
           apply andb_true_iff in Es2 as [E1 E2]. apply N.eqb_eq in E1, E2. subst. cbn. repeat constructor.
        -- rewrite skipn_skipn'. exact Hc42.
  - destruct t as [|c r]; [discriminate|].
    destruct (escaped_char c) eqn:Ee; [|discriminate]. intros H; inversion H; subst.
    cbn. constructor; [reflexivity|]. constructor; [eapply escaped_char_not_lt; eauto|constructor].
Qed.

Lemma read_string_loop_clean fuel : forall pos acc s e v r,
  read_string_loop fuel pos acc s = Ok (e, v, r) -> clean (firstn (e - pos) s) /\ (pos <= e)%nat.
Proof.
  induction fuel as [|f IH]; intros pos acc s e v r H; [discriminate|].
  cbn [read_string_loop] in H. destruct s as [|c t]; [discriminate|].
  destruct (c =? 34) eqn:Eq.
  { inversion H; subst. replace (S pos - pos)%nat with 1%nat by lia. split; [|lia]. cbn.
    constructor; [|constructor]. apply N.eqb_eq in Eq. subst c. reflexivity. }
  destruct (c =? 92) eqn:Eb.
  { apply N.eqb_eq in Eb. subst c.
    destruct (read_escape pos (92 :: t)) as [[v' size]| | |] eqn:Ee; try discriminate.
    assert (Hne : 92 :: t <> []) by discriminate.
    pose proof (read_escape_size pos (92 :: t) v' size Hne Ee) as Hsz.
    apply read_escape_clean in Ee.
    apply IH in H as [Hc Hle]. split; [|lia].
    replace (e - pos)%nat with (size + (e - (pos + size)))%nat by lia.
    apply clean_firstn_add; assumption. }
  destruct ((c =? LF) || (c =? CR)) eqn:El; [discriminate|].
  destruct (is_scalar c).
  { apply IH in H as [Hc Hle]. split; [|lia].
    replace (e - pos)%nat with (S (e - S pos)) by lia. cbn [firstn]. constructor; [exact El|exact Hc]. }
  destruct (is_lead c && peek_is is_trail t) eqn:Ep; [|discriminate].
  apply andb_true_iff in Ep as [_ Ep]. destruct t as [|d t']; [discriminate|]. cbn in Ep. cbn [hd tl] in H.
  apply IH in H as [Hc Hle]. split; [|lia].
  replace (e - pos)%nat with (S (S (e - (pos + 2)))) by lia. cbn [firstn].
  constructor; [exact El|]. constructor; [|exact Hc].
  unfold is_trail in Ep. apply andb_true_iff in Ep as [E1 _]. apply N.leb_le in E1.
  unfold is_lt, LF, CR. apply orb_false_iff. split; apply N.eqb_neq; lia.
Qed.

(* ---- algebra of count_lt / tail_len over appended text ---- *)
Definition lastcr (b : bool) (x : list N) : bool :=
  match rev x with [] => b | c :: _ => c =? CR end.

Lemma count_lt_head_not_lf b y : peek_is (N.eqb LF) y = false -> count_lt b y = count_lt false y.
Proof.
  destruct y as [|c t]; [reflexivity|]. cbn [peek_is]. intros H. cbn [count_lt].
  rewrite N.eqb_sym in H. rewrite H. reflexivity.
Qed.

Lemma count_lt_clean b x : clean x -> count_lt b x = 0%nat.
Proof.
  revert b; induction x as [|c t IH]; intros b H; [reflexivity|].
  inversion H as [|? ? Hc Ht]; subst. unfold is_lt in Hc. apply orb_false_iff in Hc as [H1 H2].
  cbn [count_lt]. rewrite H2, H1. apply IH. exact Ht.
Qed.

Lemma count_lt_app_clean b x y : clean x -> x <> [] -> count_lt b (x ++ y) = count_lt false y.
Proof.
  revert b; induction x as [|c t IH]; intros b H Hne; [congruence|].
  inversion H as [|? ? Hc Ht]; subst. unfold is_lt in Hc. apply orb_false_iff in Hc as [H1 H2].
  cbn [app count_lt]. rewrite H2, H1. destruct t as [|d t']; [reflexivity|].
  apply IH; [exact Ht|discriminate].
Qed.

Lemma tail_len_clean a x : clean x -> tail_len a x = (a + length x)%nat.
Proof.
  revert a; induction x as [|c t IH]; intros a H; cbn; [lia|].
  inversion H as [|? ? Hc Ht]; subst. unfold is_lt in Hc. apply orb_false_iff in Hc as [H1 H2].
  rewrite H2, H1. cbn. rewrite IH by exact Ht. lia.
Qed.

Lemma tail_len_app a x y : tail_len a (x ++ y) = tail_len (tail_len a x) y.
Proof.
  revert a; induction x as [|c t IH]; intros a; [reflexivity|].
  cbn. destruct ((c =? CR) || (c =? LF)); apply IH.
Qed.

(* count over pre ++ y when the junction is not inside a CR LF pair *)
Lemma count_lt_app b x y :
  (lastcr b x = false \/ peek_is (N.eqb LF) y = false) ->
  count_lt b (x ++ y) = (count_lt b x + count_lt false y)%nat.
Proof.
  revert b; induction x as [|c t IH]; intros b H.
  - cbn [app count_lt plus]. unfold lastcr in H. cbn in H.
    destruct H as [->|H]; [reflexivity|apply count_lt_head_not_lf; exact H].
  - cbn [app count_lt].
    assert (Hl : forall b', lastcr b' t = false \/ peek_is (N.eqb LF) y = false ->
                 True) by auto.
    destruct (c =? CR) eqn:Ec.
    + rewrite IH; [lia|]. destruct H as [H|H]; [|right; exact H].
      unfold lastcr in *. cbn [rev] in H. destruct (rev t) as [|z zs] eqn:Er.
      * cbn in H. rewrite Ec in H. discriminate.
      * left. cbn in H. exact H.
    + destruct (c =? LF) eqn:El.
      * rewrite IH; [lia|]. destruct H as [H|H]; [|right; exact H].
        unfold lastcr in *. cbn [rev] in H. destruct (rev t) as [|z zs] eqn:Er; [left; reflexivity|left; exact H].
      * apply IH. destruct H as [H|H]; [|right; exact H].
        unfold lastcr in *. cbn [rev] in H. destruct (rev t) as [|z zs] eqn:Er; [left; reflexivity|left; exact H].
Qed.

Lemma lastcr_app_nonempty b x y : y <> [] -> lastcr b (x ++ y) = lastcr false y.
Proof.
  intros Hy. unfold lastcr. rewrite rev_app_distr.
  destruct (rev y) as [|c r] eqn:E.
  - apply (f_equal (@rev N)) in E. rewrite rev_involutive in E. cbn in E. congruence.
  - reflexivity.
Qed.

Lemma lastcr_clean x : clean x -> x <> [] -> lastcr false x = false.
Proof.
  intros Hc Hne. unfold lastcr. destruct (rev x) as [|c r] eqn:E.
  - apply (f_equal (@rev N)) in E. rewrite rev_involutive in E. cbn in E. congruence.
  - assert (In c x) by (apply in_rev; rewrite E; left; reflexivity).
    unfold clean in Hc. rewrite Forall_forall in Hc. specialize (Hc c H).
    unfold is_lt in Hc. apply orb_false_iff in Hc as [_ Hc]. exact Hc.
Qed.

(* ---- the cursor invariant ---- *)
Definition cur_ok (pre : list N) (cu : cursor) : Prop :=
  cpos cu = length pre /\ cline cu = S (count_lt false pre) /\
  (cls cu + tail_len 0 pre = length pre)%nat.

(* the cursor is never between the CR and the LF of a CR LF *)
Definition no_split (pre s : list N) : Prop :=
  lastcr false pre = false \/ peek_is (N.eqb LF) s = false.

Lemma lastcr_snoc b pre c : lastcr b (pre ++ [c]) = (c =? CR).
Proof. unfold lastcr. rewrite rev_app_distr. reflexivity. Qed.

Lemma count_snoc_plain pre c : (c =? CR) = false -> (c =? LF) = false ->
  count_lt false (pre ++ [c]) = count_lt false pre.
Proof.
  intros H1 H2. rewrite count_lt_app.
  - cbn. rewrite H1, H2. lia.
  - right. cbn [peek_is]. rewrite N.eqb_sym. exact H2.
Qed.

Lemma tail_snoc_plain pre c : (c =? CR) = false -> (c =? LF) = false ->
  tail_len 0 (pre ++ [c]) = S (tail_len 0 pre).
Proof. intros H1 H2. rewrite tail_len_app. cbn. rewrite H1, H2. reflexivity. Qed.

Lemma tail_snoc_lt pre c : ((c =? CR) || (c =? LF)) = true -> tail_len 0 (pre ++ [c]) = 0%nat.
Proof. intros H. rewrite tail_len_app. cbn. rewrite H. reflexivity. Qed.

Lemma cur_ok_plain pre cu c : cur_ok pre cu -> (c =? CR) = false -> (c =? LF) = false ->
  cur_ok (pre ++ [c]) (mkCur (S (cpos cu)) (cline cu) (cls cu)).
Proof.
  intros (Hp & Hl & Hs) H1 H2. unfold cur_ok. cbn [cpos cline cls].
  rewrite app_length, count_snoc_plain, tail_snoc_plain by assumption. cbn [length]. repeat split; lia.
Qed.

Lemma cur_ok_lf pre cu : cur_ok pre cu -> lastcr false pre = false ->
  cur_ok (pre ++ [LF]) (mkCur (S (cpos cu)) (S (cline cu)) (S (cpos cu))).
Proof.
  intros (Hp & Hl & Hs) Hn. unfold cur_ok. cbn [cpos cline cls].
  rewrite app_length, tail_snoc_lt by reflexivity. cbn [length].
  rewrite count_lt_app by (left; exact Hn). cbn. repeat split; lia.
Qed.

Lemma cur_ok_cr pre cu : cur_ok pre cu ->
  cur_ok (pre ++ [CR]) (mkCur (S (cpos cu)) (S (cline cu)) (S (cpos cu))).
Proof.
  intros (Hp & Hl & Hs). unfold cur_ok. cbn [cpos cline cls].
  rewrite app_length, tail_snoc_lt by reflexivity. cbn [length].
  rewrite count_lt_app by (right; reflexivity). cbn. repeat split; lia.
Qed.

Lemma cur_ok_crlf pre cu : cur_ok pre cu ->
  cur_ok (pre ++ [CR; LF]) (mkCur (cpos cu + 2) (S (cline cu)) (cpos cu + 2)).
Proof.
  intros (Hp & Hl & Hs). unfold cur_ok. cbn [cpos cline cls].
  rewrite app_length. cbn [length].
  rewrite count_lt_app by (right; reflexivity).
  rewrite tail_len_app. cbn. repeat split; lia.
Qed.

Lemma skip_cur_ok_n n : forall s pre cu cu' s', (length s <= n)%nat ->
  cur_ok pre cu -> no_split pre s -> skip_ignored cu s = (cu', s') ->
  exists ign, s = ign ++ s' /\ cur_ok (pre ++ ign) cu' /\ no_split (pre ++ ign) s'.
Proof.
  induction n as [|n IH]; intros s pre cu cu' s' Hn Hok Hns H.
  - destruct s; [|cbn in Hn; lia]. cbn in H. inversion H; subst.
    exists []. rewrite !app_nil_r. split; [reflexivity|]. split; [exact Hok|]. right. reflexivity.
  - destruct s as [|c t].
    { cbn in H. inversion H; subst. exists []. rewrite !app_nil_r. split; [reflexivity|]. split; [exact Hok|]. right. reflexivity. }
    cbn [skip_ignored] in H.
    assert (Hstep : forall (chunk : list N) cu1 rest,
              c :: t = chunk ++ rest -> (length rest <= n)%nat ->
              cur_ok (pre ++ chunk) cu1 -> no_split (pre ++ chunk) rest ->
              skip_ignored cu1 rest = (cu', s') ->
              exists ign, c :: t = ign ++ s' /\ cur_ok (pre ++ ign) cu' /\ no_split (pre ++ ign) s').
    { intros chunk cu1 rest Hsplit Hlen Hok1 Hns1 Hrec.
      destruct (IH rest (pre ++ chunk) cu1 cu' s' Hlen Hok1 Hns1 Hrec) as (ign & E & Ho & Hn').
      exists (chunk ++ ign). split; [rewrite Hsplit, E, app_assoc; reflexivity|].
      rewrite app_assoc. split; assumption. }
    destruct (is_ws_ignored c) eqn:Ew.
    { assert (Hc1 : (c =? CR) = false /\ (c =? LF) = false).
      { unfold is_ws_ignored in Ew. unfold CR, LF.
        split; apply N.eqb_neq; intros ->; vm_compute in Ew; discriminate. }
      destruct Hc1 as [Hc1 Hc2].
      apply (Hstep [c] _ t eq_refl ltac:(cbn in Hn; lia)
               (cur_ok_plain pre cu c Hok Hc1 Hc2)); [|exact H].
      left. rewrite lastcr_snoc. exact Hc1. }
    destruct (c =? LF) eqn:El.
    { apply N.eqb_eq in El. subst c.
      assert (Hlc : lastcr false pre = false).
      { destruct Hns as [Hx|Hx]; [exact Hx|]. cbn [peek_is] in Hx. rewrite N.eqb_refl in Hx. discriminate. }
      apply (Hstep [LF] _ t eq_refl ltac:(cbn in Hn; lia) (cur_ok_lf pre cu Hok Hlc)); [|exact H].
      left. rewrite lastcr_snoc. reflexivity. }
    destruct (c =? CR) eqn:Ec.
    { apply N.eqb_eq in Ec. subst c.
      destruct t as [|d t'].
      - inversion H; subst. exists [CR]. split; [reflexivity|]. split; [apply cur_ok_cr; exact Hok|].
        right. reflexivity.
      - destruct (d =? LF) eqn:Ed.
        + apply N.eqb_eq in Ed. subst d.
          apply (Hstep [CR; LF] _ t' eq_refl ltac:(cbn in Hn; lia) (cur_ok_crlf pre cu Hok)); [|exact H].
          left. unfold lastcr. rewrite rev_app_distr. reflexivity.
        + apply (Hstep [CR] _ (d :: t') eq_refl ltac:(cbn in Hn; cbn; lia) (cur_ok_cr pre cu Hok)); [|exact H].
          right. cbn [peek_is]. rewrite N.eqb_sym. exact Ed. }
    inversion H; subst. exists []. rewrite !app_nil_r. split; [reflexivity|]. split; [exact Hok|].
    right. cbn [peek_is]. rewrite N.eqb_sym. exact El.
Qed.

Lemma skip_cur_ok s pre cu cu' s' :
  cur_ok pre cu -> no_split pre s -> skip_ignored cu s = (cu', s') ->
  exists ign, s = ign ++ s' /\ cur_ok (pre ++ ign) cu' /\ no_split (pre ++ ign) s'.
Proof. apply (skip_cur_ok_n (length s)). lia. Qed.

(* a clean, non-empty lexeme: the line and the line start do not change *)
Lemma cur_ok_clean pre cu lx e : cur_ok pre cu -> clean lx -> lx <> [] -> e = (cpos cu + length lx)%nat ->
  cur_ok (pre ++ lx) (mkCur e (cline cu) (cls cu)) /\ lastcr false (pre ++ lx) = false.
Proof.
  intros (Hp & Hl & Hs) Hc Hne ->. split.
  - unfold cur_ok. cbn [cpos cline cls]. rewrite app_length.
    rewrite count_lt_app.
    + rewrite (count_lt_clean false lx Hc). rewrite tail_len_app, tail_len_clean by exact Hc. repeat split; lia.
    + right. destruct lx as [|c r]; [congruence|]. inversion Hc as [|? ? Hc1 _]; subst.
      cbn [app peek_is]. unfold is_lt in Hc1. apply orb_false_iff in Hc1 as [Hc1 _]. rewrite N.eqb_sym. exact Hc1.
  - rewrite lastcr_app_nonempty by exact Hne. apply lastcr_clean; assumption.
Qed.

(* ---- block strings: line count and line start after the token ---- *)
Lemma starts3_firstn a b c s : starts3 a b c s = true -> firstn 3 s = [a; b; c].
Proof.
  destruct s as [|x [|y [|z t]]]; cbn [starts3]; try discriminate. intros H.
  apply andb_true_iff in H as [H Hz]. apply andb_true_iff in H as [Hx Hy].
  apply N.eqb_eq in Hx, Hy, Hz. subst. reflexivity.
Qed.

Definition block_post (pre : list N) (pos ls : nat) (lines : list (list N)) (s : list N)
           (e : nat) (raw : list (list N)) (ls' : nat) : Prop :=
  let x := firstn (e - pos) s in
  (pos <= e)%nat /\ (e - pos <= length s)%nat /\
  (count_lt false (pre ++ x) + S (length lines) = count_lt false pre + length raw)%nat /\
  (ls' + tail_len 0 (pre ++ x) = length (pre ++ x))%nat /\
  lastcr false (pre ++ x) = false /\ (1 <= length raw)%nat.

Lemma read_block_loop_loc fuel : forall pos ls cur lines s e raw ls' r pre,
  read_block_loop fuel pos ls cur lines s = Ok (e, raw, ls', r) ->
  pos = length pre -> (ls + tail_len 0 pre = length pre)%nat -> no_split pre s ->
  block_post pre pos ls lines s e raw ls'.
Proof.
  induction fuel as [|f IH]; intros pos ls cur lines s e raw ls' r pre H Hpos Hls Hns; [discriminate|].
  cbn [read_block_loop] in H. destruct s as [|c t]; [discriminate|].
  (* one step: consume [chunk], continue on [rest] *)
  assert (Hstep : forall (chunk rest : list N) ls1 cur1 (lines1 : list (list N)),
            c :: t = chunk ++ rest -> chunk <> [] ->
            read_block_loop f (pos + length chunk) ls1 cur1 lines1 rest = Ok (e, raw, ls', r) ->
            (count_lt false (pre ++ chunk) + length lines = count_lt false pre + length lines1)%nat ->
            (ls1 + tail_len 0 (pre ++ chunk) = length (pre ++ chunk))%nat ->
            no_split (pre ++ chunk) rest ->
            block_post pre pos ls lines (c :: t) e raw ls').
  { intros chunk rest ls1 cur1 lines1 Hsplit Hne Hrec Hcnt Hls1 Hns1.
    assert (Hp1 : (pos + length chunk)%nat = length (pre ++ chunk)) by (rewrite app_length; lia).
    destruct (IH _ _ _ _ _ _ _ _ _ (pre ++ chunk) Hrec Hp1 Hls1 Hns1) as (Hle & Hlen & Hc & Ht & Hl & Hr1).
    assert (Hx : firstn (e - pos) (c :: t) = chunk ++ firstn (e - (pos + length chunk)) rest).
    { rewrite Hsplit. replace (e - pos)%nat with (length chunk + (e - (pos + length chunk)))%nat by lia.
      rewrite firstn_add. rewrite firstn_app_length.
      f_equal. f_equal. clear. induction chunk; cbn; auto. }
    unfold block_post. cbv zeta. rewrite Hx. rewrite app_assoc.
    split; [lia|]. split; [rewrite Hsplit, app_length; lia|].
    split; [lia|]. split; [exact Ht|]. split; [exact Hl|exact Hr1]. }
  destruct (starts3 34 34 34 (c :: t)) eqn:E3.
  { inversion H; subst. pose proof (starts3_length _ _ _ _ E3) as Hl3.
    unfold block_post. cbv zeta. replace (length pre + 3 - length pre)%nat with 3%nat by lia.
    rewrite (starts3_firstn _ _ _ _ E3).
    assert (Hcl : clean [34; 34; 34]) by (repeat constructor).
    split; [lia|]. split; [exact Hl3|]. cbn [length rev]. rewrite app_length.
    split.
    - rewrite count_lt_app by (right; reflexivity). rewrite (count_lt_clean false _ Hcl).
      cbn [length]. rewrite rev_length. cbn [length]. lia.
    - split.
      + rewrite tail_len_app, tail_len_clean by exact Hcl. rewrite app_length. cbn [length]. lia.
      + split; [rewrite lastcr_app_nonempty by discriminate; reflexivity|].
        rewrite rev_length. cbn [length]. lia. }
  destruct ((c =? 92) && starts3 34 34 34 t) eqn:Eb.
  { apply andb_true_iff in Eb as [Ec Eq]. apply N.eqb_eq in Ec. subst c.
    pose proof (starts3_firstn _ _ _ _ Eq) as Hf3. pose proof (starts3_length _ _ _ _ Eq) as Hl3.
    assert (Hsp : 92 :: t = [92; 34; 34; 34] ++ skipn 4 (92 :: t)).
    { cbn [skipn]. rewrite <- (firstn_skipn 3 t) at 1. rewrite Hf3. reflexivity. }
    assert (Hcl : clean [92; 34; 34; 34]) by (repeat constructor).
    apply (Hstep [92; 34; 34; 34] (skipn 4 (92 :: t)) ls (34 :: 34 :: 34 :: cur) lines Hsp ltac:(discriminate)).
    - exact H.
    - rewrite count_lt_app by (right; reflexivity). rewrite (count_lt_clean false _ Hcl). lia.
    - rewrite tail_len_app, tail_len_clean, app_length by exact Hcl. cbn [length]. lia.
    - left. rewrite lastcr_app_nonempty by discriminate. reflexivity. }
  destruct (c =? LF) eqn:El.
  { apply N.eqb_eq in El. subst c.
    assert (Hlc : lastcr false pre = false).
    { destruct Hns as [Hx|Hx]; [exact Hx|]. cbn [peek_is] in Hx. rewrite N.eqb_refl in Hx. discriminate. }
    apply (Hstep [LF] t (S pos) [] (rev cur :: lines) eq_refl ltac:(discriminate)).
    - replace (pos + length [LF])%nat with (S pos) by (cbn; lia). exact H.
    - rewrite count_lt_app by (left; exact Hlc). cbn. lia.
    - rewrite tail_snoc_lt by reflexivity. rewrite app_length. cbn [length]. lia.
    - left. rewrite lastcr_snoc. reflexivity. }
  destruct (c =? CR) eqn:Ec.
  { apply N.eqb_eq in Ec. subst c.
    destruct (peek_is (N.eqb LF) t) eqn:Epl.
    - destruct t as [|d t']; [discriminate|]. cbn [peek_is] in Epl. apply N.eqb_eq in Epl. subst d. cbn [tl] in H.
      apply (Hstep [CR; LF] t' (pos + 2)%nat [] (rev cur :: lines) eq_refl ltac:(discriminate)).
      + exact H.
      + rewrite count_lt_app by (right; reflexivity). cbn. lia.
      + rewrite tail_len_app. cbn. rewrite app_length. cbn [length]. lia.
      + left. unfold lastcr. rewrite rev_app_distr. reflexivity.
    - apply (Hstep [CR] t (S pos) [] (rev cur :: lines) eq_refl ltac:(discriminate)).
      + replace (pos + length [CR])%nat with (S pos) by (cbn; lia). exact H.
      + rewrite count_lt_app by (right; reflexivity). cbn. lia.
      + rewrite tail_snoc_lt by reflexivity. rewrite app_length. cbn [length]. lia.
      + right. exact Epl. }
  destruct (is_scalar c).
  { apply (Hstep [c] t ls (c :: cur) lines eq_refl ltac:(discriminate)).
    - replace (pos + length [c])%nat with (S pos) by (cbn; lia). exact H.
    - rewrite count_snoc_plain by assumption. lia.
    - rewrite tail_snoc_plain, app_length by assumption. cbn [length]. lia.
    - left. rewrite lastcr_snoc. exact Ec. }
  destruct (is_lead c && peek_is is_trail t) eqn:Ep; [|discriminate].
  apply andb_true_iff in Ep as [_ Ep]. destruct t as [|d t']; [discriminate|]. cbn [peek_is] in Ep. cbn [hd tl] in H.
  assert (Hd : (d =? CR) = false /\ (d =? LF) = false).
  { unfold is_trail in Ep. apply andb_true_iff in Ep as [E1 _]. apply N.leb_le in E1.
    unfold CR, LF. split; apply N.eqb_neq; lia. }
  destruct Hd as [Hd1 Hd2].
  assert (Hcl : clean [c; d]).
  { constructor; [unfold is_lt; rewrite El, Ec; reflexivity|].
    constructor; [unfold is_lt; rewrite Hd2, Hd1; reflexivity|constructor]. }
  apply (Hstep [c; d] t' ls (d :: c :: cur) lines eq_refl ltac:(discriminate)).
  - exact H.
  - rewrite count_lt_app by (right; cbn [peek_is]; rewrite N.eqb_sym; exact El).
    rewrite (count_lt_clean false _ Hcl). lia.
  - rewrite tail_len_app, tail_len_clean, app_length by exact Hcl. cbn [length]. lia.
  - left. rewrite lastcr_app_nonempty by discriminate. unfold lastcr. cbn. exact Hd1.
Qed.

(* ---- one token ---- *)
Definition tok_loc (pre s : list N) (cu : cursor) (tk : token) (cu' : cursor) (s' : list N) : Prop :=
  exists ign lx,
    s = ign ++ lx ++ s' /\ tstart tk = length (pre ++ ign) /\
    tline tk = S (count_lt false (pre ++ ign)) /\ tcol tk = S (tail_len 0 (pre ++ ign)) /\
    cur_ok (pre ++ ign ++ lx) cu' /\ no_split (pre ++ ign ++ lx) s'.

Lemma punct_not_lt c k : punct_kind c = Some k -> is_lt c = false.
Proof.
  unfold punct_kind, is_lt, LF, CR. intros H. apply orb_false_iff.
  split; apply N.eqb_neq; intros ->; vm_compute in H; discriminate.
Qed.

Lemma name_start_not_lt c : is_name_start c = true -> is_lt c = false.
Proof.
  unfold is_name_start, is_letter, is_lt, LF, CR. intros H. apply orb_false_iff.
  split; apply N.eqb_neq; intros ->; vm_compute in H; discriminate.
Qed.

Lemma mk_loc k cu start stop v pre1 : cur_ok pre1 cu -> start = cpos cu ->
  tline (mk k cu start stop v) = S (count_lt false pre1) /\
  tcol (mk k cu start stop v) = S (tail_len 0 pre1) /\ tstart (mk k cu start stop v) = length pre1.
Proof.
  intros (Hp & Hl & Hs) ->. unfold mk. cbn [tline tcol tstart]. repeat split; lia.
Qed.

Lemma adv_firstn_split s n r : adv s n r -> s = firstn n s ++ r.
Proof. apply adv_split. Qed.

Lemma comment_body_app_n n : forall s a r, (length s <= n)%nat ->
  comment_body s = (a, r) -> s = a ++ r.
Proof.
  induction n as [|n IH]; intros s a r Hn H.
  - destruct s; [|cbn in Hn; lia]. cbn in H. inversion H. reflexivity.
  - destruct s as [|c t]; [cbn in H; inversion H; reflexivity|].
    cbn in H. destruct ((c =? LF) || (c =? CR)); [inversion H; reflexivity|].
    destruct (is_scalar c).
    + destruct (comment_body t) as [a' r'] eqn:E. inversion H; subst.
      cbn. f_equal. apply IH; [cbn in Hn; lia|exact E].
    + destruct t as [|d t']; [inversion H; reflexivity|].
      destruct (is_lead c && is_trail d).
      * destruct (comment_body t') as [a' r'] eqn:E. inversion H; subst.
        cbn. do 2 f_equal. apply IH; [cbn in Hn; lia|exact E].
      * inversion H. reflexivity.
Qed.

Lemma comment_body_app s a r : comment_body s = (a, r) -> s = a ++ r.
Proof. apply (comment_body_app_n (length s)). lia. Qed.

Lemma read_token_loc pre cu s tk cu' s' :
  cur_ok pre cu -> no_split pre s -> read_token cu s = Ok (tk, cu', s') ->
  tok_loc pre s cu tk cu' s'.
Proof.
  intros Hok Hns H. unfold read_token in H.
  destruct (skip_ignored cu s) as [cu1 s1] eqn:Esk.
  destruct (skip_cur_ok _ _ _ _ _ Hok Hns Esk) as (ign & Es & Hok1 & Hns1).
  pose proof Hok1 as (Hp1 & Hl1 & Hs1). subst s.
  (* wrap-up for a clean lexeme lx = firstn n s1 *)
  assert (W : forall k v n, adv s1 n s' -> (1 <= n)%nat -> clean (firstn n s1) ->
            tk = mk k cu1 (cpos cu1) (cpos cu1 + n) v ->
            cu' = mkCur (cpos cu1 + n) (cline cu1) (cls cu1) ->
            tok_loc pre (ign ++ s1) cu tk cu' s').
  { intros k v n An Hn Hcl -> ->.
    exists ign, (firstn n s1). pose proof (adv_split _ _ _ An) as Esp.
    assert (Hlen : length (firstn n s1) = n) by (apply firstn_length_le; destruct An; lia).
    assert (Hne : firstn n s1 <> []) by (intros E; rewrite E in Hlen; cbn in Hlen; lia).
    destruct (mk_loc k cu1 (cpos cu1) (cpos cu1 + n) v (pre ++ ign) Hok1 eq_refl) as (M1 & M2 & M3).
    split; [f_equal; exact Esp|]. split; [exact M3|]. split; [exact M1|]. split; [exact M2|].
    rewrite !app_assoc.
    destruct (cur_ok_clean (pre ++ ign) cu1 (firstn n s1) (cpos cu1 + n) Hok1 Hcl Hne ltac:(lia)) as [C1 C2].
    split; [exact C1|left; exact C2]. }
  destruct s1 as [|c t].
  { inversion H; subst. exists ign, []. cbn [app]. rewrite !app_nil_r.
    destruct (mk_loc K_EOF cu' (cpos cu') (cpos cu') None (pre ++ ign) Hok1 eq_refl) as (M1 & M2 & M3).
    split; [reflexivity|]. split; [exact M3|]. split; [exact M1|]. split; [exact M2|].
    split; [exact Hok1|right; reflexivity]. }
  destruct (c =? 35) eqn:E35.
  { destruct (comment_body t) as [b r] eqn:Ec. inversion H; subst.
    pose proof (comment_body_adv _ _ _ Ec) as Ab. pose proof (comment_body_clean _ _ _ Ec) as Cb.
    pose proof (comment_body_app _ _ _ Ec) as Et.
    apply (W K_COMMENT (Some b) (1 + length b)%nat).
    - apply adv_cons. exact Ab.
    - lia.
    - cbn [firstn plus]. constructor; [apply N.eqb_eq in E35; subst c; reflexivity|].
      rewrite Et, firstn_app_length. exact Cb.
    - f_equal; lia.
    - f_equal; lia. }
  destruct (c =? 34) eqn:E34.
  { apply N.eqb_eq in E34. subst c.
    destruct (starts2 34 34 t) eqn:Eqq.
    - (* block string *)
      cbv zeta in H.
      destruct (read_block_loop (S (length (skipn 2 t))) (cpos cu1 + 3) (cls cu1) [] [] (skipn 2 t))
        as [[[[e raw] ls'] rest]| | |] eqn:Eb; try discriminate.
      inversion H; subst.
      pose proof (starts2_length _ _ _ Eqq) as Hl2.
      assert (Ht : t = [34; 34] ++ skipn 2 t).
      { destruct t as [|x [|y r]]; cbn in Eqq; try discriminate.
        apply andb_true_iff in Eqq as [E1 E2]. apply N.eqb_eq in E1, E2. subst. reflexivity. }
      set (pre3 := (pre ++ ign) ++ [34; 34; 34]).
      assert (Hc3 : clean [34; 34; 34]) by (repeat constructor).
      assert (Hp3 : (cpos cu1 + 3)%nat = length pre3) by (unfold pre3; rewrite app_length; cbn [length]; lia).
      assert (Hls3 : (cls cu1 + tail_len 0 pre3 = length pre3)%nat).
      { unfold pre3. rewrite tail_len_app, tail_len_clean, app_length by exact Hc3. cbn [length]. lia. }
      assert (Hns3 : no_split pre3 (skipn 2 t)).
      { left. unfold pre3. rewrite lastcr_app_nonempty by discriminate. reflexivity. }
      destruct (read_block_loop_loc _ _ _ _ _ _ _ _ _ _ pre3 Eb Hp3 Hls3 Hns3) as (Hle & Hlen & Hc & Htl & Hlc & Hraw1).
      set (x := firstn (e - (cpos cu1 + 3)) (skipn 2 t)) in *.
      pose proof (read_block_loop_spec (S (length (skipn 2 t))) (cpos cu1 + 3) (cls cu1) [] [] (skipn 2 t) ltac:(lia)) as Hsp.
      rewrite Eb in Hsp. destruct Hsp as (k & Hek & Ak & Hk3).
      assert (Hxk : (e - (cpos cu1 + 3))%nat = k) by lia.
      pose proof (adv_split _ _ _ Ak) as Esplit. rewrite <- Hxk in Esplit. fold x in Esplit.
      exists ign, ([34; 34; 34] ++ x).
      destruct (mk_loc K_BLOCK_STRING cu1 (cpos cu1) e (Some (join_lf (dedent raw))) (pre ++ ign) Hok1 eq_refl) as (M1 & M2 & M3).
      split.
      { f_equal. rewrite Ht at 1. rewrite Esplit at 1. cbn [app]. reflexivity. }
      split; [exact M3|]. split; [exact M1|]. split; [exact M2|].
      assert (Hpre : pre ++ ign ++ [34; 34; 34] ++ x = pre3 ++ x).
      { unfold pre3. rewrite <- !app_assoc. reflexivity. }
      rewrite Hpre. split.
      + unfold cur_ok. cbn [cpos cline cls].
        assert (Hc3' : count_lt false pre3 = count_lt false (pre ++ ign)).
        { unfold pre3. rewrite count_lt_app by (right; reflexivity). rewrite (count_lt_clean false _ Hc3). lia. }
        cbn [length] in Hc. rewrite app_length in *.
        assert (Hxl : length x = k).
        { unfold x. rewrite Hxk. apply firstn_length_le. destruct Ak; lia. }
        repeat split; try lia.
      + left. exact Hlc.
    - (* quoted string *)
      destruct (read_string_loop (S (length t)) (S (cpos cu1)) [] t) as [[[e v] rest]| | |] eqn:Est; try discriminate.
      inversion H; subst.
      pose proof (read_string_loop_spec (S (length t)) (S (cpos cu1)) [] t ltac:(lia)) as Hsp.
      rewrite Est in Hsp. destruct Hsp as (k & -> & Ak & Hk).
      apply read_string_loop_clean in Est as [Hcl _].
      replace (S (cpos cu1) + k - S (cpos cu1))%nat with k in Hcl by lia.
      apply (W K_STRING (Some v) (1 + k)%nat).
      + apply adv_cons. exact Ak.
      + lia.
      + cbn [firstn plus]. constructor; [reflexivity|exact Hcl].
      + f_equal; lia.
      + f_equal; lia. }
  destruct (punct_kind c) as [k|] eqn:Epk.
  { inversion H; subst. apply (W k None 1%nat).
    - apply adv_cons, adv_0.
    - lia.
    - cbn. constructor; [eapply punct_not_lt; eauto|constructor].
    - f_equal; lia.
    - f_equal; lia. }
  destruct (is_digit c || (c =? 45)) eqn:Ed.
  { destruct (read_number (cpos cu1) (c :: t)) as [[[e fl] rest]| | |] eqn:En; try discriminate.
    inversion H; subst.
    pose proof (read_number_adv _ _ _ _ _ En) as (k' & Hek' & _ & Hk').
    apply read_number_nadv in En as (k & Hek & [Ak Ck]).
    assert (k = k') by lia. subst k'. subst e. rename Hk' into Hk.
    apply (W (if fl then K_FLOAT else K_INT) (Some (firstn (cpos cu1 + k - cpos cu1) (c :: t))) k).
    - exact Ak.
    - exact Hk.
    - apply nclean_clean. exact Ck.
    - f_equal.
    - reflexivity. }
  destruct (is_name_start c) eqn:Ens.
  { destruct (span is_name_continue t) as [b r] eqn:Esp. inversion H; subst.
    pose proof (span_adv _ _ _ _ Esp) as Ab. pose proof (span_spec _ _ _ _ Esp) as (Et & _ & _).
    apply (W K_NAME (Some (c :: b)) (1 + length b)%nat).
    - apply adv_cons. exact Ab.
    - lia.
    - cbn [firstn plus]. constructor; [apply name_start_not_lt; exact Ens|].
      rewrite Et, firstn_app_length. eapply span_clean; [|exact Esp]. exact name_continue_not_lt.
    - f_equal; lia.
    - f_equal; lia. }
  destruct (c =? 46) eqn:E46; [|discriminate].
  destruct (starts2 46 46 t) eqn:Edd; [|discriminate]. inversion H; subst.
  pose proof (starts2_length _ _ _ Edd) as Hl2.
  apply (W K_SPREAD None 3%nat).
  - change 3%nat with (1 + 2)%nat. apply adv_cons. apply adv_skipn. exact Hl2.
  - lia.
  - apply N.eqb_eq in E46. subst c.
    destruct t as [|x [|y r]]; cbn in Edd; try discriminate.
    apply andb_true_iff in Edd as [E1 E2]. apply N.eqb_eq in E1, E2. subst. cbn. repeat constructor.
  - f_equal; lia.
  - f_equal; lia.
Qed.

(* ---- all tokens ---- *)
Lemma lex_loop_loc fuel : forall pre cu s ts,
  cur_ok pre cu -> no_split pre s -> lex_loop fuel cu s = Ok ts ->
  Forall (fun t => (tline t, tcol t) = get_location (pre ++ s) (tstart t)) ts.
Proof.
  induction fuel as [|f IH]; intros pre cu s ts Hok Hns H; [discriminate|].
  cbn [lex_loop] in H.
  destruct (read_token cu s) as [[[tk cu'] s']| | |] eqn:Et; try discriminate.
  destruct (read_token_loc _ _ _ _ _ _ Hok Hns Et) as (ign & lx & Es & Hst & Hln & Hcol & Hok' & Hns').
  assert (Htk : (tline tk, tcol tk) = get_location (pre ++ s) (tstart tk)).
  { rewrite get_location_is_spec. unfold location_spec. cbv zeta.
    rewrite Hst, Es. rewrite app_assoc. rewrite firstn_app_length. rewrite Hln, Hcol. reflexivity. }
  destruct (tkind tk =? K_EOF).
  - inversion H; subst. constructor; [exact Htk|constructor].
  - destruct (lex_loop f cu' s') as [ts'| | |] eqn:Er; try discriminate. inversion H; subst.
    constructor; [exact Htk|].
    specialize (IH (pre ++ ign ++ lx) cu' s' ts' Hok' Hns' Er).
    rewrite <- !app_assoc in IH. exact IH.
Qed.

Theorem token_locations s ts : lex s = Ok ts ->
  Forall (fun t => (tline t, tcol t) = get_location s (tstart t)) ts.
Proof.
  unfold lex. intros H.
  apply (lex_loop_loc (S (length s)) [] init_cursor s ts); [|left; reflexivity|exact H].
  unfold cur_ok, init_cursor. cbn. repeat split; lia.
Qed.
