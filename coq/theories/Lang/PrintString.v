(* Model of language/print_string.py over the regenerated escape table. *)
From GV Require Import Base.Prelude Gen.Tables Gen.TableChecks.

Fixpoint lookup_tbl (t : list (N * list N)) (c : N) : option (list N) :=
  match t with
  | [] => None
  | (k, v) :: r => if k =? c then Some v else lookup_tbl r c
  end.

(* one character as printed inside the quotes *)
Definition print_char (c : N) : list N :=
  if in_ranges print_string_passthrough c then [c]
  else match lookup_tbl print_string_tbl c with Some e => e | None => [c] end.

Definition print_string_body (s : list N) : list N := flat_map print_char s.
Definition print_string (s : list N) : list N := 34 :: print_string_body s ++ [34].
