(* Schema coordinates: the printed coordinate is read back by the schema-coordinate lexer
   (Lexer.coord_token: names and the punctuators . ( ) : @, nothing ignored) as Unparse.tokens_of. *)
From GV Require Import Base.Prelude Lang.Lexer Lang.LexerProps Lang.StripProps Lang.Ast Lang.Parser Lang.Unparse
  Lang.Wf Lang.Printer Lang.PrinterProps.

Fixpoint cok (d : doc) : Prop :=
  match d with
  | [] => True
  | Gap _ :: _ => False
  | Lx k v lx :: r =>
    ((k = K_NAME /\ v = lx /\ is_name v = true /\ peek_is is_name_continue (flat r) = false) \/
     (v = [] /\ exists c, lx = [c] /\ coord_punct c = Some k)) /\ cok r
  end.

Lemma coord_punct_kind c k : coord_punct c = Some k -> (k =? K_EOF) = false /\ (k =? K_COMMENT) = false.
Proof.
  unfold coord_punct. repeat match goal with |- context [if ?b then _ else _] => destruct b end;
    intros H; inversion H; split; reflexivity.
Qed.

Lemma name_start_not_coord_punct c : is_name_start c = true -> coord_punct c = None.
Proof.
  intros H. apply name_start_range in H. unfold coord_punct.
  repeat match goal with |- context [?a =? ?b] => destruct (N.eqb_spec a b); [lia|] end. reflexivity.
Qed.

Lemma coord_items d : cok d -> forall fuel cu, (length (flat d) < fuel)%nat ->
  exists ts, lazy_loop coord_token fuel cu (flat d) = (ts, LEnd) /\ map sig ts = itoks d ++ [(K_EOF, [])].
Proof.
  induction d as [|i r IH]; intros H fuel cu Hf.
  - destruct fuel; [lia|]. cbn. eexists. split; reflexivity.
  - destruct i as [g|k v lx]; [destruct H|]. cbn [cok] in H. destruct H as [Hi Hr].
    change (flat (Lx k v lx :: r)) with (lx ++ flat r) in *.
    destruct fuel as [|f]; [lia|]. cbn [lazy_loop].
    destruct Hi as [(-> & <- & Hn & Hp)|(-> & c & -> & Hc)].
    + destruct v as [|c b]; [discriminate|]. cbn [is_name] in Hn. apply andb_true_iff in Hn as [Hc Hb].
      rewrite forallb_forall in Hb.
      assert (Hb' : Forall (fun x => is_name_continue x = true) b) by (apply Forall_forall; exact Hb).
      cbn [app coord_token]. rewrite (name_start_not_coord_punct c Hc), Hc, (span_app _ _ _ Hb' Hp).
      cbn [mk tkind]. change (K_NAME =? K_EOF) with false. change (K_NAME =? K_COMMENT) with false. cbv iota.
      match goal with |- context [lazy_loop coord_token f ?cu' (flat r)] =>
        destruct (IH Hr f cu') as (ts & E & Hs) end.
      { rewrite app_length in Hf. cbn [length] in Hf. lia. }
      rewrite E. eexists. split; [reflexivity|]. cbn [map]. rewrite Hs. reflexivity.
    + destruct (coord_punct_kind c k Hc) as [K1 K2]. cbn [app coord_token]. rewrite Hc.
      cbn [mk tkind]. rewrite K1, K2.
      match goal with |- context [lazy_loop coord_token f ?cu' (flat r)] =>
        destruct (IH Hr f cu') as (ts & E & Hs) end.
      { rewrite app_length in Hf. cbn [length] in Hf. lia. }
      rewrite E. eexists. split; [reflexivity|]. cbn [map]. rewrite Hs. reflexivity.
Qed.

Lemma coordinate_doc x : wf_coordinate x -> lex_ok x -> cok (pp_doc x) /\ itoks (pp_doc x) = toks_coordinate x.
Proof.
  intros W Hok.
  destruct W as [n [v]|n m [v] [w]|n m a [v] [w] [u]|n [v]|n a [v] [u]]; cbn in Hok;
    repeat match goal with H : _ /\ _ |- _ => destruct H end;
    repeat match goal with H : is_name ?z = true |- _ =>
             let c := fresh "c" in let b := fresh "b" in
             destruct z as [|c b]; [discriminate|]; revert H end; intros;
    (split; [|reflexivity]); cbn; repeat split; auto 10;
    try (left; repeat split; auto; fail); try (right; split; [reflexivity|eexists; split; reflexivity]).
Qed.

Theorem print_coordinate_tokens x : wf_coordinate x -> lex_ok x ->
  exists ts, token_stream true (pp x) = Ok ts /\ map sig ts = tokens_of x ++ [(K_EOF, [])].
Proof.
  intros W Hok. destruct (coordinate_doc x W Hok) as [Hc Ht].
  destruct (coord_items (pp_doc x) Hc (S (length (flat (pp_doc x)))) init_cursor ltac:(lia)) as (ts & E & Hs).
  exists ts. unfold token_stream, pp. rewrite E. split; [reflexivity|].
  rewrite Hs, Ht. destruct W; reflexivity.
Qed.
