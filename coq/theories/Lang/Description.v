(* print_schema.print_description / printer.leave_string_value: the text printed for a string
   value whose form is chosen by is_printable_as_block_string, re-indented. *)
From GV Require Import Base.Prelude Lang.PrintString Lang.BlockString.

(* print_ast(StringValueNode(value, block=is_printable_as_block_string(value)))
     .replace(LF, LF + indentation) *)
Definition print_description_text (v indent : list N) : list N :=
  indent_by indent
    (if is_printable_as_block_string v then print_block_string v false else print_string v).
