(* Model of Source.get_location and of the line selection made by
   print_source_location (src/graphql/language/source.py, print_location.py). *)
From GV Require Import Base.Prelude.

(* re.split(r"\r\n|[\n\r]", s): pieces between line terminators, never empty list. *)
Fixpoint split_lines_aux (cur : list N) (s : list N) : list (list N) :=
  match s with
  | [] => [rev cur]
  | c :: t =>
    if c =? CR then
      match t with
      | d :: t' => if d =? LF then rev cur :: split_lines_aux [] t'
                   else rev cur :: split_lines_aux [] t
      | [] => [rev cur; []]
      end
    else if c =? LF then rev cur :: split_lines_aux [] t
    else split_lines_aux (c :: cur) t
  end.

Definition split_lines (s : list N) : list (list N) := split_lines_aux [] s.

(* Source.get_location(position): split the prefix body[:position]. *)
Definition get_location (body : list N) (pos : nat) : nat * nat :=
  let ls := split_lines (firstn pos body) in
  (length ls, length (last ls []) + 1)%nat.

(* Specification side: line terminators are LF, CR LF (once) and CR, nothing else. *)
Fixpoint count_lt (prevcr : bool) (s : list N) : nat :=
  match s with
  | [] => 0%nat
  | c :: t =>
    if c =? CR then S (count_lt true t)
    else if c =? LF then ((if prevcr then 0 else 1) + count_lt false t)%nat
    else count_lt false t
  end.

(* length of the text after the last CR or LF *)
Fixpoint tail_len (acc : nat) (s : list N) : nat :=
  match s with
  | [] => acc
  | c :: t => if (c =? CR) || (c =? LF) then tail_len 0 t else tail_len (S acc) t
  end.

Definition location_spec (body : list N) (pos : nat) : nat * nat :=
  let p := firstn pos body in
  (1 + count_lt false p, 1 + tail_len 0 p)%nat.

(* print_source_location: the excerpted line is lines[line - 1] of the split of
   (padding ++ body); [None] models the IndexError of an out-of-range index. *)
Definition render_line (pad : nat) (body : list N) (line : nat) : option (list N) :=
  match line with
  | O => None
  | S i => nth_error (split_lines (repeat 32 pad ++ body)) i
  end.

(* Lexer-side incremental bookkeeping: scanning ignored characters and block
   strings, the lexer bumps [line] and sets [line_start] after LF, CR LF, CR. *)
Fixpoint scan_lines (line : nat) (line_start : nat) (pos : nat) (s : list N) : nat * nat :=
  match s with
  | [] => (line, line_start)
  | c :: t =>
    if c =? CR then
      match t with
      | d :: t' => if d =? LF then scan_lines (S line) (pos + 2) (pos + 2) t'
                   else scan_lines (S line) (pos + 1) (pos + 1) t
      | [] => (S line, (pos + 1)%nat)
      end
    else if c =? LF then scan_lines (S line) (pos + 1) (pos + 1) t
    else scan_lines line line_start (S pos) t
  end.
