From GV Require Import Base.Prelude Lang.Location.

Lemma count_lt_true_nonlf d t :
  (d =? LF) = false -> count_lt true (d :: t) = count_lt false (d :: t).
Proof. intros H. cbn. rewrite H. reflexivity. Qed.

Lemma split_aux_length_n n : forall s cur, (length s <= n)%nat ->
  length (split_lines_aux cur s) = S (count_lt false s).
Proof.
  induction n as [|n IH]; intros s cur Hn.
  - destruct s; [reflexivity| cbn in Hn; lia].
  - destruct s as [|c t]; [reflexivity|].
    cbn [split_lines_aux count_lt].
    destruct (c =? CR) eqn:Ec.
    + destruct t as [|d t'].
      * reflexivity.
      * destruct (d =? LF) eqn:Ed.
        -- cbn [length]. rewrite IH by (cbn in Hn; lia).
           cbn [count_lt]. rewrite Ed.
           assert (d =? CR = false) as ->.
           { apply N.eqb_eq in Ed. subst d. reflexivity. }
           reflexivity.
        -- cbn [length]. rewrite IH by (cbn in Hn; cbn; lia).
           rewrite count_lt_true_nonlf by exact Ed. reflexivity.
    + destruct (c =? LF) eqn:El.
      * cbn [length]. rewrite IH by (cbn in Hn; lia). reflexivity.
      * rewrite IH by (cbn in Hn; lia). reflexivity.
Qed.

Lemma split_lines_length s : length (split_lines s) = S (count_lt false s).
Proof. apply (split_aux_length_n (length s)). lia. Qed.

Lemma last_cons_nonempty {A} (x : A) l d : l <> [] -> last (x :: l) d = last l d.
Proof. destruct l; [congruence|reflexivity]. Qed.

Lemma split_aux_nonempty cur s : split_lines_aux cur s <> [].
Proof.
  revert cur; induction s as [|c t IH]; intros cur; cbn; [congruence|].
  destruct (c =? CR); [destruct t as [|d t']; [congruence|destruct (d =? LF); congruence]|].
  destruct (c =? LF); [congruence|apply IH].
Qed.

Lemma split_aux_last_n n : forall s cur, (length s <= n)%nat ->
  length (last (split_lines_aux cur s) []) = tail_len (length cur) s.
Proof.
  induction n as [|n IH]; intros s cur Hn.
  - destruct s; [cbn; apply rev_length | cbn in Hn; lia].
  - destruct s as [|c t]; [cbn; apply rev_length|].
    cbn [split_lines_aux tail_len].
    destruct (c =? CR) eqn:Ec; cbn [orb].
    + destruct t as [|d t'].
      * reflexivity.
      * destruct (d =? LF) eqn:Ed.
        -- rewrite last_cons_nonempty by apply split_aux_nonempty.
           rewrite IH by (cbn in Hn; lia).
           cbn [tail_len]. rewrite Ed, orb_true_r. reflexivity.
        -- rewrite last_cons_nonempty by apply split_aux_nonempty.
           rewrite IH by (cbn in Hn; cbn; lia). reflexivity.
    + destruct (c =? LF) eqn:El.
      * rewrite last_cons_nonempty by apply split_aux_nonempty.
        rewrite IH by (cbn in Hn; lia). reflexivity.
      * rewrite IH by (cbn in Hn; lia). reflexivity.
Qed.

Theorem get_location_is_spec body pos : get_location body pos = location_spec body pos.
Proof.
  unfold get_location, location_spec. cbv zeta.
  rewrite split_lines_length.
  unfold split_lines.
  rewrite (split_aux_last_n (length (firstn pos body))) by lia.
  cbn [length]. f_equal; lia.
Qed.

(* --- rendering: the line index is always in range ----------------------- *)

Lemma count_lt_true_le s : (count_lt true s <= count_lt false s)%nat.
Proof.
  destruct s as [|c t]; cbn; [lia|].
  destruct (c =? CR); [lia|]. destruct (c =? LF); lia.
Qed.

Lemma count_lt_false_le_S s : (count_lt false s <= S (count_lt true s))%nat.
Proof.
  destruct s as [|c t]; cbn; [lia|].
  destruct (c =? CR); [lia|]. destruct (c =? LF); lia.
Qed.

(* terminators in a prefix never exceed those of the whole text *)
Lemma count_lt_firstn b pos s : (count_lt b (firstn pos s) <= count_lt b s)%nat.
Proof.
  revert b s; induction pos as [|p IH]; intros b s; [cbn; lia|].
  destruct s as [|c t]; [cbn; lia|].
  cbn [firstn count_lt].
  destruct (c =? CR); [specialize (IH true t); lia|].
  destruct (c =? LF); specialize (IH false t); lia.
Qed.

Lemma count_lt_app_pad b pad s :
  count_lt b (repeat 32 pad ++ s) = if (pad =? 0)%nat then count_lt b s else count_lt false s.
Proof.
  destruct pad as [|p]; [reflexivity|].
  cbn [Nat.eqb repeat app count_lt].
  change (32 =? CR) with false. change (32 =? LF) with false. cbv iota.
  induction p as [|p IH]; [reflexivity|]. cbn [repeat app count_lt].
  change (32 =? CR) with false. change (32 =? LF) with false. cbv iota. exact IH.
Qed.

Theorem render_line_in_range pad body pos :
  exists l, render_line pad body (fst (get_location body pos)) = Some l.
Proof.
  rewrite get_location_is_spec. unfold location_spec, render_line. cbn [fst plus].
  destruct (nth_error (split_lines (repeat 32 pad ++ body)) (count_lt false (firstn pos body)))
    as [l|] eqn:E; [eauto|].
  exfalso. apply nth_error_None in E. rewrite split_lines_length in E.
  rewrite count_lt_app_pad in E.
  pose proof (count_lt_firstn false pos body).
  destruct (pad =? 0)%nat; lia.
Qed.

(* --- lexer bookkeeping agrees with get_location ------------------------- *)

Lemma tail_len_le t : forall a, (tail_len a t <= a + length t)%nat.
Proof.
  induction t as [|c t IHt]; intros a; cbn; [lia|].
  destruct ((c =? CR) || (c =? LF)); [specialize (IHt 0%nat)|specialize (IHt (S a))]; lia.
Qed.

Lemma tail_len_nolt t : forall a, count_lt false t = 0%nat -> tail_len a t = (a + length t)%nat.
Proof.
  induction t as [|c t IHt]; intros a H; cbn in *; [lia|].
  destruct (c =? CR); [discriminate|]. destruct (c =? LF); [discriminate|].
  cbn. rewrite IHt by exact H. lia.
Qed.

Lemma tail_len_indep t : forall a b, count_lt false t <> 0%nat -> tail_len a t = tail_len b t.
Proof.
  induction t as [|c t IHt]; intros a b H; cbn in *; [lia|].
  destruct (c =? CR); cbn; [reflexivity|]. destruct (c =? LF); cbn; [reflexivity|].
  apply IHt. exact H.
Qed.

Lemma scan_lines_spec_n n : forall s line ls pos, (length s <= n)%nat ->
  scan_lines line ls pos s =
  ((line + count_lt false s)%nat,
   if (count_lt false s =? 0)%nat then ls
   else (pos + length s - tail_len 0 s)%nat).
Proof.
  induction n as [|n IH]; intros s line ls pos Hn.
  - destruct s; [cbn; f_equal; lia | cbn in Hn; lia].
  - destruct s as [|c t]; [cbn; f_equal; lia|].
    cbn [scan_lines count_lt tail_len length].
    destruct (c =? CR) eqn:Ec; cbn [orb].
    + destruct t as [|d t'].
      * cbn. f_equal; lia.
      * destruct (d =? LF) eqn:Ed.
        -- rewrite IH by (cbn in Hn; lia).
           cbn [count_lt tail_len length]. rewrite Ed, orb_true_r.
           assert (d =? CR = false) as ->.
           { apply N.eqb_eq in Ed. subst d. reflexivity. }
           cbn [plus Nat.eqb]. f_equal; [lia|].
           pose proof (tail_len_le t' 0%nat) as Hle.
           destruct (count_lt false t' =? 0)%nat eqn:E0.
           ++ apply Nat.eqb_eq in E0. rewrite (tail_len_nolt t' 0%nat E0). lia.
           ++ lia.
        -- rewrite IH by (cbn in Hn; cbn; lia).
           rewrite count_lt_true_nonlf by exact Ed.
           cbn [Nat.eqb]. f_equal; [lia|].
           pose proof (tail_len_le (d :: t') 0%nat) as Hle.
           destruct (count_lt false (d :: t') =? 0)%nat eqn:E0.
           ++ apply Nat.eqb_eq in E0. rewrite (tail_len_nolt _ 0%nat E0). cbn [length] in *. lia.
           ++ cbn [length] in *. lia.
    + destruct (c =? LF) eqn:El.
      * rewrite IH by (cbn in Hn; lia). cbn [plus Nat.eqb]. f_equal; [lia|].
        pose proof (tail_len_le t 0%nat) as Hle.
        destruct (count_lt false t =? 0)%nat eqn:E0.
        -- apply Nat.eqb_eq in E0. rewrite (tail_len_nolt _ 0%nat E0). lia.
        -- lia.
      * rewrite IH by (cbn in Hn; lia). f_equal.
        destruct (count_lt false t =? 0)%nat eqn:E0; [reflexivity|].
        apply Nat.eqb_neq in E0. rewrite (tail_len_indep t 1%nat 0%nat E0). lia.
Qed.

