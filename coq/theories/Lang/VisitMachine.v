(* Explicit-stack model of visit() in language/visitor.py: the `while True` loop as a small-step
   machine, one [step] per loop iteration, over the tree / action / call types of Lang/Visit.v.

   Python locals -> fields of [mstate]:
     stack (linked Stack tuples, None = empty)  m_stack   (list of frames, head = innermost)
     in_array, keys, edits, node, key, parent   m_in_array, m_klen, m_edits, m_node, m_key, m_parent
     idx                                        m_nxt = idx + 1 (the value idx takes at `idx += 1`)
     path (list, append/pop at the end)         m_path   (oldest first, as the visitor sees it)
     ancestors (list, append/pop at the end)    m_anc    (innermost FIRST: only len() and pop() are used)
     visitor object state + calls made          m_vs     (Visit.st: visitor state, call log newest first)
   `keys` is consulted only as len(keys) and keys[idx]; in the tree type the idx-th key name of a
   node IS idx (slots are in QUERY_DOCUMENT_KEYS order), so only its length is kept.
   Python exceptions (states the loop cannot reach from [init]) are the outcome [Stuck]. *)
From GV Require Import Base.Prelude Lang.Visit.

(* what `node` / `parent` / an ancestors entry can be: a Node or a tuple of Nodes *)
Inductive val := VNode (t : tree) | VArr (l : trees).
(* second component of an `edits` entry: REMOVE, or a Node / tuple *)
Inductive eval := ERemove | EVal (v : val).
Definition edit : Type := (key * eval)%type.

Fixpoint slen (ss : slots) : nat := match ss with SNil => O | SCons _ r => S (slen r) end.
Fixpoint tlen (l : trees) : nat := match l with TNil => O | TCons _ r => S (tlen r) end.

Fixpoint slot_nth (ss : slots) (i : nat) : slot :=
  match ss with
  | SNil => SNone
  | SCons s r => match i with O => s | S i' => slot_nth r i' end
  end.
Fixpoint tree_nth (l : trees) (i : nat) : option tree :=
  match l with
  | TNil => None
  | TCons t r => match i with O => Some t | S i' => tree_nth r i' end
  end.
Fixpoint slot_set (ss : slots) (i : nat) (v : slot) : slots :=
  match ss with
  | SNil => SNil
  | SCons s r => match i with O => SCons v r | S i' => SCons s (slot_set r i' v) end
  end.
Fixpoint trees_set (l : trees) (i : nat) (v : tree) : trees :=
  match l with
  | TNil => TNil
  | TCons t r => match i with O => TCons v r | S i' => TCons t (trees_set r i' v) end
  end.
Fixpoint trees_pop (l : trees) (i : nat) : trees :=
  match l with
  | TNil => TNil
  | TCons t r => match i with O => r | S i' => TCons t (trees_pop r i') end
  end.

Definition key_num (k : key) : nat := match k with KNone => O | KName i => i | KIdx i => i end.

(* in_array branch of the edit application:
     node = list(node); edit_offset = 0
     for edit_key, edit_value in edits:
         array_key = edit_key - edit_offset
         if edit_value is REMOVE: node.pop(array_key); edit_offset += 1
         else: node[array_key] = edit_value
   (a tuple as edit_value cannot be stored in [trees]; such an entry is never produced: array items
    are Nodes, and only a tuple-valued `node` is appended as a tuple) *)
Fixpoint apply_arr (es : list edit) (l : trees) (off : nat) : trees :=
  match es with
  | [] => l
  | (k, ev) :: r =>
    let ak := (key_num k - off)%nat in
    match ev with
    | ERemove => apply_arr r (trees_pop l ak) (S off)
    | EVal (VNode t) => apply_arr r (trees_set l ak t) off
    | EVal (VArr _) => apply_arr r l off
    end
  end.

(* node branch: values[edit_key] = None if edit_value is REMOVE else edit_value; node.__class__ called with the values as keyword arguments *)
Definition slot_of_eval (e : eval) : slot :=
  match e with ERemove => SNone | EVal (VNode t) => SOne t | EVal (VArr l) => SArr l end.
Fixpoint apply_node (es : list edit) (ss : slots) : slots :=
  match es with
  | [] => ss
  | (k, ev) :: r => apply_node r (slot_set ss (key_num k) (slot_of_eval ev))
  end.

Definition apply_edits (in_array : bool) (es : list edit) (nd : val) : option val :=
  if in_array then match nd with VArr l => Some (VArr (apply_arr es l 0%nat)) | VNode _ => None end
  else match nd with
       | VNode (Node k i ss) => Some (VNode (Node k i (apply_node es ss)))
       | VArr _ => None
       end.

(* node = parent[key]  /  node = getattr(parent, key, None) *)
Inductive fres := FRaise | FNone | FVal (v : val).
Definition fetch (parent : val) (in_array : bool) (idx : nat) : fres :=
  if in_array then
    match parent with
    | VArr l => match tree_nth l idx with Some t => FVal (VNode t) | None => FRaise end
    | VNode _ => FRaise
    end
  else
    match parent with
    | VNode t => match slot_nth (tslots t) idx with
                 | SNone => FNone | SOne c => FVal (VNode c) | SArr l => FVal (VArr l) end
    | VArr _ => FRaise
    end.

(* truth value of `parent` (None and the empty tuple are false; Node defines neither __bool__ nor __len__) *)
Definition truthy (p : option val) : bool :=
  match p with None => false | Some (VNode _) => true | Some (VArr TNil) => false | Some (VArr _) => true end.

Definition is_arr (v : val) : bool := match v with VArr _ => true | VNode _ => false end.
(* len(node) for a tuple, len(visitor_keys.get(node.kind, ())) for a Node *)
Definition vlen (v : val) : nat := match v with VArr l => tlen l | VNode t => slen (tslots t) end.

Definition is_nil {A} (l : list A) : bool := match l with [] => true | _ => false end.

Record frame := mkFrame { f_in_array : bool; f_idx : nat; f_klen : nat; f_edits : list edit }.

Section Machine.
  Variable St : Type.
  Variable decide : phase -> tree -> St -> action * St.

  Record mstate := mkM {
    m_stack : list frame; m_in_array : bool; m_nxt : nat; m_klen : nat; m_edits : list edit;
    m_node : option val; m_key : key; m_parent : option val; m_path : list key; m_anc : list val;
    m_vs : st St }.

  Inductive sres := Next (s : mstate) | Done (broke : bool) (s : mstate) | Stuck.

  (* `continue` after an enter that skipped / removed:  if not stack: break;  path_pop(); continue
     ([s] holds idx in m_nxt) *)
  Definition skip_child (s : mstate) : sres :=
    match m_stack s with
    | [] => Done false s
    | _ => Next (mkM (m_stack s) (m_in_array s) (S (m_nxt s)) (m_klen s) (m_edits s) (m_node s) (m_key s)
                     (m_parent s) (removelast (m_path s)) (m_anc s) (m_vs s))
    end.

  (* from `if result is None and is_edited` to the end of the loop body; [s] holds idx in m_nxt,
     [nd] is the value of `node` *)
  Definition finish (is_leaving is_edited result_none : bool) (s : mstate) (nd : val) : sres :=
    let edits := if result_none && is_edited then m_edits s ++ [(m_key s, EVal nd)] else m_edits s in
    if is_leaving then
      let s' := mkM (m_stack s) (m_in_array s) (S (m_nxt s)) (m_klen s) edits (Some nd) (m_key s)
                    (m_parent s) (removelast (m_path s)) (m_anc s) (m_vs s) in
      match m_stack s with [] => Done false s' | _ => Next s' end
    else
      Next (mkM (mkFrame (m_in_array s) (m_nxt s) (m_klen s) edits :: m_stack s)
                (is_arr nd) 0%nat (vlen nd) [] (Some nd) (m_key s) (Some nd) (m_path s)
                (match m_parent s with
                 | Some p => if truthy (m_parent s) then p :: m_anc s else m_anc s
                 | None => m_anc s end)
                (m_vs s)).

  Definition set_vs (s : mstate) (vs : st St) : mstate :=
    mkM (m_stack s) (m_in_array s) (m_nxt s) (m_klen s) (m_edits s) (m_node s) (m_key s) (m_parent s)
        (m_path s) (m_anc s) vs.
  Definition push_edit (s : mstate) (e : eval) : mstate :=
    mkM (m_stack s) (m_in_array s) (m_nxt s) (m_klen s) (m_edits s ++ [(m_key s, e)]) (m_node s) (m_key s)
        (m_parent s) (m_path s) (m_anc s) (m_vs s).
  Definition set_node (s : mstate) (nd : val) : mstate :=
    mkM (m_stack s) (m_in_array s) (m_nxt s) (m_klen s) (m_edits s) (Some nd) (m_key s) (m_parent s)
        (m_path s) (m_anc s) (m_vs s).

  (* from `if isinstance(node, tuple)` on; [s] holds idx in m_nxt, [nd] is `node`.
     The scripted visitors define both enter and leave, so visit_fn is never None. *)
  Definition visit_phase (is_leaving is_edited : bool) (s : mstate) (nd : val) : sres :=
    match nd with
    | VArr _ => finish is_leaving is_edited true s nd
    | VNode t =>
      let '(a, vs') := do_call St decide (if is_leaving then Leave else Enter) t (m_key s) (m_path s)
                               (length (m_anc s)) (m_vs s) in
      let s1 := set_vs s vs' in
      match a with
      | Break => Done true s1
      | Skip => if is_leaving then finish true is_edited true s1 nd else skip_child s1
      | Idle => finish is_leaving is_edited true s1 nd
      | Remove =>
        let s2 := push_edit s1 ERemove in
        if is_leaving then finish true is_edited false s2 nd else skip_child s2
      | Replace t' =>
        let s2 := push_edit s1 (EVal (VNode t')) in
        if is_leaving then finish true is_edited false s2 nd
        else finish false is_edited false (set_node s2 (VNode t')) (VNode t')
      end
    end.

  (* one iteration of `while True` *)
  Definition step (s : mstate) : sres :=
    let idx := m_nxt s in
    let is_leaving := (idx =? m_klen s)%nat in
    let is_edited := is_leaving && negb (is_nil (m_edits s)) in
    if is_leaving then
      let key := match m_anc s with [] => KNone | _ => last (m_path s) KNone end in
      match m_parent s, m_stack s with
      | Some nd0, fr :: K =>
        let '(parent, anc) := match m_anc s with [] => (None, []) | a :: r => (Some a, r) end in
        match (if is_edited then apply_edits (m_in_array s) (m_edits s) nd0 else Some nd0) with
        | Some nd =>
          visit_phase true is_edited
            (mkM K (f_in_array fr) (f_idx fr) (f_klen fr) (f_edits fr) (Some nd) key parent (m_path s) anc (m_vs s))
            nd
        | None => Stuck
        end
      | _, _ => Stuck
      end
    else if truthy (m_parent s) then
      match m_parent s with
      | Some p =>
        let key := if m_in_array s then KIdx idx else KName idx in
        match fetch p (m_in_array s) idx with
        | FRaise => Stuck
        | FNone => Next (mkM (m_stack s) (m_in_array s) (S idx) (m_klen s) (m_edits s) None key (m_parent s)
                             (m_path s) (m_anc s) (m_vs s))
        | FVal nd =>
          visit_phase false false
            (mkM (m_stack s) (m_in_array s) idx (m_klen s) (m_edits s) (Some nd) key (m_parent s)
                 (m_path s ++ [key]) (m_anc s) (m_vs s)) nd
        end
      | None => Stuck
      end
    else
      match m_node s with
      | Some nd => visit_phase false false s nd
      | None => Stuck
      end.

  Inductive mout := MOutOfFuel | MStuck | MDone (broke : bool) (s : mstate).

  Fixpoint run_steps (fuel : nat) (s : mstate) : mout :=
    match fuel with
    | O => MOutOfFuel
    | S f => match step s with
             | Next s' => run_steps f s'
             | Done b s' => MDone b s'
             | Stuck => MStuck
             end
    end.

  (* stack = None; in_array = False; keys = (root,); idx = -1; edits = []; node = root; key = None;
     parent = None; path = []; ancestors = [] *)
  Definition init (root : tree) (vs : st St) : mstate :=
    mkM [] false 0%nat 1%nat [] (Some (VNode root)) KNone None [] [] vs.

  (* return edits[-1][1] if edits else root *)
  Inductive mres := MRoot | MVal (e : eval).
  Definition final (s : mstate) : mres :=
    match rev (m_edits s) with [] => MRoot | (_, e) :: _ => MVal e end.

  Inductive mresult :=
  | MFuel | MRaise
  | MRet (broke : bool) (r : mres) (s : St) (log : list call).   (* log oldest first *)

  Definition visit_machine (fuel : nat) (root : tree) (s0 : St) : mresult :=
    match run_steps fuel (init root (s0, [])) with
    | MOutOfFuel => MFuel
    | MStuck => MRaise
    | MDone b s => MRet b (final s) (fst (m_vs s)) (rev (snd (m_vs s)))
    end.
End Machine.

(* number of loop iterations of an all-idle traversal = upper bound for every visitor that does not
   replace on enter *)
Fixpoint msteps (t : tree) : nat :=
  match t with Node _ _ ss => S (S (msteps_slots ss)) end
with msteps_slots (ss : slots) : nat :=
  match ss with SNil => O | SCons sl r => (msteps_slot sl + msteps_slots r)%nat end
with msteps_slot (sl : slot) : nat :=
  match sl with SNone => 1%nat | SOne t => msteps t | SArr l => S (S (msteps_trees l)) end
with msteps_trees (l : trees) : nat :=
  match l with TNil => O | TCons t r => (msteps t + msteps_trees r)%nat end.

Definition machine_scripted (fuel : nat) (root : tree) (sc : script) : mresult unit :=
  visit_machine unit (scripted sc) fuel root tt.

(* visit(root, ParallelVisitor(visitors)) on the machine *)
Definition machine_parallel (fuel : nat) (root : tree) (scs : list script) : mresult pstate :=
  visit_machine pstate (parallel scs) fuel root (map (fun _ => SkNone) scs, []).
