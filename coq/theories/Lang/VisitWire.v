(* Wire decoding/encoding for the visitor model (used by Run.v only). *)
From GV Require Import Base.Prelude Lang.Visit.

Fixpoint dec_tree (fuel : nat) (l : list N) : option (tree * list N) :=
  match fuel with
  | O => None
  | S f =>
    match l with
    | k :: i :: n :: r =>
      let dec_trees := fix dt (cnt : nat) (l : list N) : option (trees * list N) :=
        match cnt with
        | O => Some (TNil, l)
        | S c => match dec_tree f l with
                 | Some (t, l') => match dt c l' with
                                   | Some (ts, l'') => Some (TCons t ts, l'')
                                   | None => None end
                 | None => None end
        end in
      let dec_slots := fix ds (cnt : nat) (l : list N) : option (slots * list N) :=
        match cnt with
        | O => Some (SNil, l)
        | S c =>
          match l with
          | 0 :: l' => match ds c l' with Some (ss, l'') => Some (SCons SNone ss, l'') | None => None end
          | 1 :: l' => match dec_tree f l' with
                       | Some (t, l'') => match ds c l'' with
                                          | Some (ss, l3) => Some (SCons (SOne t) ss, l3)
                                          | None => None end
                       | None => None end
          | 2 :: m :: l' => match dec_trees (N.to_nat m) l' with
                            | Some (ts, l'') => match ds c l'' with
                                                | Some (ss, l3) => Some (SCons (SArr ts) ss, l3)
                                                | None => None end
                            | None => None end
          | _ => None
          end
        end in
      match dec_slots (N.to_nat n) r with
      | Some (ss, r') => Some (Node k i ss, r')
      | None => None
      end
    | _ => None
    end
  end.

Fixpoint dec_script (cnt : nat) (l : list N) : option (script * list N) :=
  match cnt with
  | O => Some ([], l)
  | S c =>
    match l with
    | id :: ph :: a :: r =>
      let p := if ph =? 0 then Enter else Leave in
      let '(act, r') :=
        if a =? 0 then (Some Idle, r) else if a =? 1 then (Some Skip, r)
        else if a =? 2 then (Some Break, r) else if a =? 3 then (Some Remove, r)
        else match dec_tree 1000 r with
             | Some (t, r'') => (Some (Replace t), r'')
             | None => (None, r)
             end in
      match act with
      | Some ac => match dec_script c r' with
                   | Some (sc, r'') => Some ((id, p, ac) :: sc, r'')
                   | None => None end
      | None => None
      end
    | _ => None
    end
  end.

Fixpoint dec_scripts (cnt : nat) (l : list N) : option (list script * list N) :=
  match cnt with
  | O => Some ([], l)
  | S c =>
    match l with
    | n :: r => match dec_script (N.to_nat n) r with
                | Some (sc, r') => match dec_scripts c r' with
                                   | Some (scs, r'') => Some (sc :: scs, r'')
                                   | None => None end
                | None => None end
    | [] => None
    end
  end.

Fixpoint enc_tree (t : tree) : list N :=
  match t with
  | Node k i ss => k :: i :: N.of_nat (slots_len ss) :: enc_slots ss
  end
with enc_slots (ss : slots) : list N :=
  match ss with
  | SNil => []
  | SCons s r => enc_slot s ++ enc_slots r
  end
with enc_slot (s : slot) : list N :=
  match s with
  | SNone => [0]
  | SOne t => 1 :: enc_tree t
  | SArr ts => 2 :: N.of_nat (trees_len ts) :: enc_trees ts
  end
with enc_trees (ts : trees) : list N :=
  match ts with
  | TNil => []
  | TCons t r => enc_tree t ++ enc_trees r
  end
with slots_len (ss : slots) : nat := match ss with SNil => O | SCons _ r => S (slots_len r) end
with trees_len (ts : trees) : nat := match ts with TNil => O | TCons _ r => S (trees_len r) end.

Definition enc_key (k : key) : list N :=
  match k with KNone => [0; 0] | KName i => [1; N.of_nat i] | KIdx i => [2; N.of_nat i] end.

Definition enc_call (c : call) : list N :=
  [match c_phase c with Enter => 0 | Leave => 1 end; c_id c; c_kind c] ++ enc_key (c_key c)
  ++ [N.of_nat (length (c_path c))] ++ flat_map enc_key (c_path c) ++ [N.of_nat (c_nanc c); c_action c].

Definition enc_res (r : res) : list N :=
  match r with
  | RBreak => [0] | RKeep => [1] | REdit None => [2; 0] | REdit (Some t) => 2 :: 1 :: enc_tree t
  | ROutOfFuel => [3]
  end.

Definition enc_sub (s : subcall) : list N :=
  let '(i, ph, id) := s in [N.of_nat i; match ph with Enter => 0 | Leave => 1 end; id].

Definition run_visit (inp : list N) : list N :=
  match inp with
  | fuel :: r =>
    match dec_tree 1000 r with
    | Some (t, r') =>
      match r' with
      | n :: r'' =>
        match dec_script (N.to_nat n) r'' with
        | Some (sc, _) =>
          let '(res, log) := visit_scripted (N.to_nat fuel) t sc in
          enc_res res ++ [N.of_nat (length log)] ++ flat_map enc_call log
        | None => [999998]
        end
      | [] => [999997]
      end
    | None => [999996]
    end
  | [] => [999995]
  end.

Definition run_parallel (inp : list N) : list N :=
  match inp with
  | fuel :: r =>
    match dec_tree 1000 r with
    | Some (t, r') =>
      match r' with
      | n :: r'' =>
        match dec_scripts (N.to_nat n) r'' with
        | Some (scs, _) =>
          let '(res, log, subs) := visit_parallel (N.to_nat fuel) t scs in
          enc_res res ++ [N.of_nat (length log)] ++ flat_map enc_call log
          ++ [N.of_nat (length subs)] ++ flat_map enc_sub subs
        | None => [999998]
        end
      | [] => [999997]
      end
    | None => [999996]
    end
  | [] => [999995]
  end.
