(* Proofs about the printer model (Lang/Printer.v): the printed text of a well-formed tree lexes to
   Unparse.tokens_of of the tree.
   Part 1 (generic): a text that is a sequence of valid lexemes and layout gaps, in which every
   non-punctuator lexeme is followed by a gap, a one-character punctuator or the end, lexes to the
   tokens of the lexemes (lex_items).  Part 2: closure of that form under the printer's combinators
   (concatenation with literals, join, wrap, indent, block).  Part 3: every leave_* method, by
   induction on the well-formedness derivation of the tree. *)
From GV Require Import Base.Prelude Lang.Lexer Lang.LexerProps Lang.LexerLoc Lang.BlockString
  Lang.BlockStringProps Lang.StripBlock Lang.Strip Lang.StripProps Lang.PrintString Lang.PrintStringProps
  Lang.Ast Lang.Parser Lang.Unparse Lang.Wf Lang.Printer.

(* ================================================================== *)
(* 1. lexemes, gaps, and the generic lexing lemma                      *)
(* ================================================================== *)

Definition gapchar (c : N) : Prop := c = 32 \/ c = LF \/ c = 44.

(* [lx] is read as the token (k, v) in front of any text that cannot extend it *)
Definition lexeme_for (k : N) (v lx : list N) : Prop :=
  (k =? K_EOF) = false /\ (k =? K_COMMENT) = false /\
  forall cu rest, (is_punct_kind k = true \/ follow_ok rest) ->
    exists tk cu', read_token cu (lx ++ rest) = Ok (tk, cu', rest) /\ tkind tk = k /\ tvalue tk = v.

Lemma lexeme_nonempty k v lx : lexeme_for k v lx -> lx <> [].
Proof.
  intros (Hk & _ & H) ->. destruct (H init_cursor [] (or_intror I)) as (tk & cu' & E & Ek & _).
  cbn in E. inversion E; subst tk. cbn in Ek. subst k. discriminate.
Qed.

(* a piece is valid if it is a gap of spaces, commas and line feeds, or a lexeme that survives the
   printer's re-indentation: one without line feed, or a printed block string under any indentation *)
Definition ivalid (i : item) : Prop :=
  match i with
  | Gap g => Forall gapchar g
  | Lx k v lx =>
    (nolf lx /\ lexeme_for k v lx) \/
    (k = K_BLOCK_STRING /\ in_block_range v = true /\ lines_wp (split_lf v) /\
     exists pads, Forall blanks pads /\ lx = indent_all pads (print_block_string v false))
  end.

Lemma ivalid_lexeme k v lx : ivalid (Lx k v lx) -> lexeme_for k v lx.
Proof.
  intros [[_ H]|(-> & Hr & Hw & pads & Hp & ->)]; [exact H|].
  split; [reflexivity|]. split; [reflexivity|]. intros cu rest _.
  destruct (block_roundtrip_wp v false pads cu rest Hr Hw Hp) as (tk & cu' & E & Ek & _ & Ev & _).
  exists tk, cu'. auto.
Qed.

Definition V (d : doc) : Prop := Forall ivalid d.

Definition itoks (d : doc) : list sigtok :=
  flat_map (fun i => match i with Gap _ => [] | Lx k v _ => [(k, v)] end) d.

(* every lexeme of d that is not a punctuator is followed (in d, then k) by a safe character *)
Fixpoint sepk (d : doc) (k : list N) : Prop :=
  match d with
  | [] => True
  | Gap _ :: r => sepk r k
  | Lx kd _ _ :: r => (is_punct_kind kd = true \/ follow_ok (flat r ++ k)) /\ sepk r k
  end.

Lemma read_token_gapchar c cu s : gapchar c -> exists cu1, read_token cu (c :: s) = read_token cu1 s.
Proof. intros [->|[->| ->]]; eexists; reflexivity. Qed.

Lemma read_token_gap g : Forall gapchar g -> forall cu s, exists cu1, read_token cu (g ++ s) = read_token cu1 s.
Proof.
  induction 1 as [|c g Hc _ IH]; intros cu s; [exists cu; reflexivity|].
  cbn [app]. destruct (read_token_gapchar c cu (g ++ s) Hc) as (cu1 & ->). apply IH.
Qed.

Lemma lex_loop_gap g fuel cu s : Forall gapchar g -> exists cu1, lex_loop fuel cu (g ++ s) = lex_loop fuel cu1 s.
Proof.
  intros Hg. destruct (read_token_gap g Hg cu s) as (cu1 & E). exists cu1.
  destruct fuel; [reflexivity|]. cbn [lex_loop]. rewrite E. reflexivity.
Qed.

Lemma flat_app a b : flat (a ++ b) = flat a ++ flat b.
Proof. unfold flat. apply flat_map_app. Qed.

Lemma itoks_app a b : itoks (a ++ b) = itoks a ++ itoks b.
Proof. unfold itoks. apply flat_map_app. Qed.

Lemma lex_items_loop d : V d -> sepk d [] -> forall fuel cu, (length (flat d) < fuel)%nat ->
  exists ts, lex_loop fuel cu (flat d) = Ok ts /\
             map tok_sig (significant ts) = itoks d ++ [(K_EOF, [])].
Proof.
  induction d as [|i r IH]; intros Hv Hs fuel cu Hf.
  - destruct fuel; [lia|]. cbn [flat flat_map lex_loop]. rewrite eof_token_nil. cbn [mk tkind].
    change (K_EOF =? K_EOF) with true. cbv iota. eexists. split; reflexivity.
  - inversion Hv as [|? ? Hi Hr]; subst. destruct i as [g|k v lx].
    + change (flat (Gap g :: r)) with (g ++ flat r) in *.
      destruct (lex_loop_gap g fuel cu (flat r) Hi) as (cu1 & ->).
      apply IH; [exact Hr|exact Hs|]. rewrite app_length in Hf. lia.
    + change (flat (Lx k v lx :: r)) with (lx ++ flat r) in *. cbn [sepk] in Hs. destruct Hs as [Hs1 Hs2].
      rewrite app_nil_r in Hs1.
      destruct (ivalid_lexeme _ _ _ Hi) as (Hk1 & Hk2 & HL).
      destruct (HL cu (flat r) Hs1) as (tk & cu' & E & Ek & Ev).
      destruct fuel as [|f]; [lia|]. cbn [lex_loop]. rewrite E, Ek, Hk1.
      pose proof (lexeme_nonempty _ _ _ (ivalid_lexeme _ _ _ Hi)) as Hne.
      destruct (IH Hr Hs2 f cu') as (ts & El & Hsig).
      { rewrite app_length in Hf. destruct lx; [congruence|]. cbn [length] in Hf. lia. }
      rewrite El. eexists. split; [reflexivity|].
      unfold significant. cbn [filter]. rewrite Ek, Hk2. cbn [negb map]. fold (significant ts).
      rewrite Hsig. unfold tok_sig at 1. rewrite Ek, Ev. reflexivity.
Qed.

Theorem lex_items d : V d -> sepk d [] ->
  exists ts, lex (flat d) = Ok ts /\ map tok_sig (significant ts) = itoks d ++ [(K_EOF, [])].
Proof. intros Hv Hs. unfold lex. apply lex_items_loop; auto. Qed.

(* ================================================================== *)
(* 2. valid lexemes                                                    *)
(* ================================================================== *)

Definition is_name (v : list N) : bool :=
  match v with c :: b => is_name_start c && forallb is_name_continue b | [] => false end.

Lemma relexed_lexeme tk lx k v :
  tkind tk = k -> tvalue tk = v -> (k =? K_EOF) = false -> (k =? K_COMMENT) = false ->
  (k =? K_BLOCK_STRING) = false ->
  (forall cu rest, (is_punct_kind k = true \/ follow_ok rest) -> relexed tk lx cu (lx ++ rest) rest 0) ->
  lexeme_for k v lx.
Proof.
  intros Hk Hv H1 H2 H3 H. split; [exact H1|]. split; [exact H2|]. intros cu rest Hf.
  destruct (H cu rest Hf) as (tk2 & cu2 & E & Ek & Ev & _). exists tk2, cu2. rewrite Ek, Ev. auto.
Qed.

Lemma lexeme_of_lexeme tk lx : lexeme_of tk lx [] ->
  (tkind tk =? K_EOF) = false -> (tkind tk =? K_COMMENT) = false -> (tkind tk =? K_BLOCK_STRING) = false ->
  lexeme_for (tkind tk) (tvalue tk) lx.
Proof.
  intros HL H1 H2 H3. apply (relexed_lexeme tk lx); auto. intros cu rest Hf.
  pose proof (relex0 tk lx [] HL H2 cu rest Hf) as R. unfold retext in R. rewrite H3 in R. exact R.
Qed.

Lemma name_lexeme v : is_name v = true -> lexeme_for K_NAME v v /\ nolf v.
Proof.
  destruct v as [|c b]; [discriminate|]. cbn [is_name]. intros H. apply andb_true_iff in H as [Hc Hb].
  rewrite forallb_forall in Hb.
  assert (Hb' : Forall (fun x => is_name_continue x = true) b) by (apply Forall_forall; exact Hb).
  split.
  - apply (lexeme_of_lexeme (mkTok K_NAME 0 0 0 0 true (c :: b)) (c :: b)); try reflexivity.
    eapply L_name; eauto; reflexivity.
  - constructor.
    + destruct (range_not_punct c) as (_ & _ & _ & E); [apply name_start_range in Hc; lia|].
      unfold is_ignored_char in E. apply orb_false_iff in E as [E _]. apply orb_false_iff in E as [_ E]. exact E.
    + eapply Forall_impl; [|exact Hb']. intros x Hx. apply name_continue_not_ignored in Hx.
      unfold is_ignored_char in Hx. apply orb_false_iff in Hx as [Hx _]. apply orb_false_iff in Hx as [_ Hx]. exact Hx.
Qed.

Lemma punct_lexeme c k : punct_kind c = Some k -> lexeme_for k [] [c] /\ nolf [c].
Proof.
  intros H. destruct (punct_kind_some _ _ H) as (Hin & _ & _ & E1 & E2 & E3). split.
  - apply (lexeme_of_lexeme (mkTok k 0 0 0 0 false []) [c]); auto.
    eapply L_punct; eauto.
  - constructor; [|constructor]. apply punct_char_facts in Hin. destruct Hin as (_ & _ & Hi & _).
    unfold is_ignored_char in Hi. apply orb_false_iff in Hi as [Hi _]. apply orb_false_iff in Hi as [_ Hi]. exact Hi.
Qed.

Lemma spread_lexeme : lexeme_for K_SPREAD [] [46; 46; 46].
Proof.
  apply (lexeme_of_lexeme (mkTok K_SPREAD 0 0 0 0 false []) [46; 46; 46]); try reflexivity.
  apply L_spread; reflexivity.
Qed.

(* lx alone is exactly the token (k, v) *)
Definition alone (k : N) (v lx : list N) : bool :=
  match read_token init_cursor lx with
  | Ok (tk, _, []) => (tkind tk =? k) && nat_list_eqb (tvalue tk) v && Nat.eqb (tstart tk) 0
  | _ => false
  end.

Lemma alone_lexeme k v lx : alone k v lx = true ->
  (k =? K_EOF) = false -> (k =? K_COMMENT) = false -> (k =? K_BLOCK_STRING) = false -> lexeme_for k v lx.
Proof.
  unfold alone. destruct (read_token init_cursor lx) as [[[tk cu'] r]| | |] eqn:E; try discriminate.
  destruct r; [|discriminate]. intros H H1 H2 H3.
  apply andb_true_iff in H as [H Hs]. apply andb_true_iff in H as [Hk Hv].
  apply N.eqb_eq in Hk. apply nat_list_eqb_eq in Hv. apply Nat.eqb_eq in Hs. subst k v.
  destruct (read_token_ana _ _ _ _ _ E) as (g & lx0 & Es & _ & Hst & _ & _ & Hcls).
  rewrite H1 in Hcls. cbn [cpos init_cursor] in Hst.
  assert (g = []) by (destruct g; [reflexivity|cbn in Hst; lia]). subst g.
  rewrite app_nil_r in Es. cbn [app] in Es. subst lx0.
  apply lexeme_of_lexeme; assumption.
Qed.

Lemma number_nolf k v lx : alone k v lx = true -> (k = K_INT \/ k = K_FLOAT) -> nolf lx.
Proof.
  unfold alone. destruct (read_token init_cursor lx) as [[[tk cu'] r]| | |] eqn:E; try discriminate.
  destruct r; [|discriminate]. intros H Hk.
  apply andb_true_iff in H as [H Hs]. apply andb_true_iff in H as [Hk' _].
  apply N.eqb_eq in Hk'. apply Nat.eqb_eq in Hs.
  destruct (read_token_ana _ _ _ _ _ E) as (g & lx0 & Es & _ & Hst & _ & _ & Hcls).
  cbn [cpos init_cursor] in Hst.
  assert (g = []) by (destruct g; [reflexivity|cbn in Hst; lia]). subst g.
  rewrite app_nil_r in Es. cbn [app] in Es. subst lx0.
  replace (tkind tk =? K_EOF) with false in Hcls by (rewrite Hk'; destruct Hk as [->| ->]; reflexivity).
  assert (Hni : Forall (fun c => is_ignored_char c = false) lx).
  { apply (lexeme_no_ignored tk lx [] Hcls); rewrite Hk'; destruct Hk as [->| ->]; discriminate. }
  eapply Forall_impl; [|exact Hni]. intros c Hc. unfold is_ignored_char in Hc.
  apply orb_false_iff in Hc as [Hc _]. apply orb_false_iff in Hc as [_ Hc]. exact Hc.
Qed.

Lemma print_string_lexeme s : scalars s -> lexeme_for K_STRING s (print_string s) /\ nolf (print_string s).
Proof.
  intros Hs. unfold print_string.
  set (body := print_string_body s).
  assert (R : forall fuel pos tail, (length (body ++ 34%N :: tail) < fuel)%nat ->
              read_string_loop fuel pos [] (body ++ 34 :: tail) = Ok ((pos + length body + 1)%nat, s, tail)).
  { intros fuel pos tail Hf. exact (read_printed fuel s pos [] tail Hs Hf). }
  split.
  - apply (lexeme_of_lexeme (mkTok K_STRING 0 0 0 0 true s) (34 :: body ++ [34])); try reflexivity.
    eapply (L_string _ _ _ (body ++ [34])); try reflexivity.
    + intros E. apply app_eq_nil in E as [_ E]. discriminate.
    + rewrite app_nil_r. destruct body as [|c b] eqn:Eb; [reflexivity|].
      destruct (c =? 34) eqn:Ec.
      * exfalso. specialize (R (S (length ((c :: b) ++ [34]))) 0%nat [] ltac:(lia)).
        cbn [app read_string_loop] in R. rewrite Ec in R. inversion R. cbn [length] in *. lia.
      * cbn [app]. destruct (b ++ [34]); cbn [starts2]; rewrite ?Ec; reflexivity.
    + intros fuel2 pos2 r2 Hf. cbn [tvalue]. rewrite <- app_assoc in *. cbn [app] in *.
      rewrite R by exact Hf. rewrite app_length. cbn [length]. f_equal. f_equal. f_equal. lia.
  - assert (C : clean (body ++ [34])).
    { pose proof (R (S (length (body ++ [34]))) 0%nat [] ltac:(lia)) as E.
      apply read_string_loop_clean in E as [E _].
      replace (0 + length body + 1 - 0)%nat with (length (body ++ [34])) in E by (rewrite app_length; cbn; lia).
      rewrite firstn_all in E. exact E. }
    constructor; [reflexivity|]. eapply Forall_impl; [|exact C]. intros c Hc. unfold is_lt in Hc.
    apply orb_false_iff in Hc as [Hc _]. exact Hc.
Qed.

(* ================================================================== *)
(* 3. closure under the printer's combinators                          *)
(* ================================================================== *)

Definition A (d : doc) : Prop := forall k, follow_ok k -> sepk d k.
Definition closedP (d : doc) : Prop := forall k, sepk d k.
Definition sokP (d : doc) : Prop := forall k, follow_ok k -> follow_ok (flat d ++ k).
Definition ssokP (d : doc) : Prop := forall k, follow_ok (flat d ++ k).
(* d is a good rendering of the tokens t *)
Definition G (d : doc) (t : list sigtok) : Prop := V d /\ A d /\ itoks d = t.

Lemma sepk_app a b k : sepk a (flat b ++ k) -> sepk b k -> sepk (a ++ b) k.
Proof.
  induction a as [|i r IH]; intros Ha Hb; [exact Hb|]. destruct i as [g|kd v lx]; cbn [app sepk] in *.
  - apply IH; assumption.
  - destruct Ha as [H1 H2]. split; [|apply IH; assumption].
    rewrite flat_app, <- app_assoc. exact H1.
Qed.

Lemma closed_A d : closedP d -> A d.
Proof. intros H k _. apply H. Qed.
Lemma A_app_r a b : A a -> A b -> sokP b -> A (a ++ b).
Proof. intros Ha Hb Hs k Hk. apply sepk_app; [apply Ha, Hs, Hk|apply Hb, Hk]. Qed.
Lemma A_app_l a b : closedP a -> A b -> A (a ++ b).
Proof. intros Ha Hb k Hk. apply sepk_app; [apply Ha|apply Hb, Hk]. Qed.
Lemma closedP_app a b : closedP a -> closedP b -> closedP (a ++ b).
Proof. intros Ha Hb k. apply sepk_app; [apply Ha|apply Hb]. Qed.
Lemma closedP_app_r a b : A a -> ssokP b -> closedP b -> closedP (a ++ b).
Proof. intros Ha Hs Hb k. apply sepk_app; [apply Ha, Hs|apply Hb]. Qed.
Lemma closedP_nil : closedP [].
Proof. intros k. exact I. Qed.
Lemma sokP_nil : sokP [].
Proof. intros k Hk. exact Hk. Qed.
Lemma sokP_app a b : sokP a -> sokP b -> sokP (a ++ b).
Proof. intros Ha Hb k Hk. rewrite flat_app, <- app_assoc. apply Ha, Hb, Hk. Qed.
Lemma ssokP_sokP d : ssokP d -> sokP d.
Proof. intros H k _. apply H. Qed.
Lemma ssokP_app a b : ssokP a -> ssokP (a ++ b).
Proof. intros Ha k. rewrite flat_app, <- app_assoc. apply Ha. Qed.
Lemma V_app a b : V a -> V b -> V (a ++ b).
Proof. unfold V. intros. apply Forall_app. split; assumption. Qed.

Lemma G_nil : G [] [].
Proof. split; [constructor|]. split; [intros k _; exact I|reflexivity]. Qed.
Lemma G_app_r a b ta tb : G a ta -> G b tb -> sokP b -> G (a ++ b) (ta ++ tb).
Proof.
  intros (Va & Aa & <-) (Vb & Ab & <-) Hs. split; [apply V_app; assumption|].
  split; [apply A_app_r; assumption|apply itoks_app].
Qed.
Lemma G_app_l a b ta tb : G a ta -> closedP a -> G b tb -> G (a ++ b) (ta ++ tb).
Proof.
  intros (Va & Aa & <-) Hc (Vb & Ab & <-). split; [apply V_app; assumption|].
  split; [apply A_app_l; assumption|apply itoks_app].
Qed.
Lemma G_eq d t t' : G d t -> t = t' -> G d t'.
Proof. intros H <-. exact H. Qed.

(* ---- truthiness ---- *)
Lemma truthy_false d : truthy d = false -> flat d = [].
Proof. unfold truthy. destruct (flat d); [reflexivity|discriminate]. Qed.
Lemma truthy_true d : truthy d = true -> flat d <> [].
Proof. unfold truthy. destruct (flat d); [discriminate|discriminate]. Qed.

Lemma empty_no_tokens d : V d -> flat d = [] -> itoks d = [].
Proof.
  induction 1 as [|i r Hi _ IH]; [reflexivity|]. destruct i as [g|k v lx].
  - change (flat (Gap g :: r)) with (g ++ flat r). intros E. apply app_eq_nil in E as [_ E]. exact (IH E).
  - change (flat (Lx k v lx :: r)) with (lx ++ flat r). intros E. apply app_eq_nil in E as [E _].
    exfalso. exact (lexeme_nonempty _ _ _ (ivalid_lexeme _ _ _ Hi) E).
Qed.

Lemma G_truthy d t : G d t -> t <> [] -> truthy d = true.
Proof.
  intros (Hv & _ & <-) Ht. destruct (truthy d) eqn:E; [reflexivity|].
  exfalso. apply Ht. apply empty_no_tokens; [exact Hv|apply truthy_false, E].
Qed.
Lemma G_falsy d t : G d t -> truthy d = false -> t = [].
Proof. intros (Hv & _ & <-) E. apply empty_no_tokens; [exact Hv|apply truthy_false, E]. Qed.

(* ---- literals, by computation ---- *)
Definition safe_charb (c : N) : bool := is_ignored_char c || existsb (N.eqb c) punct_chars.
Lemma safe_charb_ok c r : safe_charb c = true -> follow_ok (c :: r).
Proof.
  unfold safe_charb. intros H. apply orb_true_iff in H as [H|H]; [left; exact H|right].
  apply existsb_exists in H as (x & Hin & E). apply N.eqb_eq in E. subst x. exact Hin.
Qed.
Definition ssokb (d : doc) : bool := match flat d with c :: _ => safe_charb c | [] => false end.
Lemma ssokb_ok d : ssokb d = true -> ssokP d.
Proof.
  unfold ssokb. intros H k. destruct (flat d) as [|c t]; [discriminate|]. apply safe_charb_ok, H.
Qed.
Fixpoint closedb (d : doc) : bool :=
  match d with
  | [] => true
  | Gap _ :: r => closedb r
  | Lx k _ _ :: r => (is_punct_kind k || ssokb r) && closedb r
  end.
Lemma closedb_ok d : closedb d = true -> closedP d.
Proof.
  induction d as [|i r IH]; intros H k; [exact I|]. destruct i as [g|kd v lx]; cbn [closedb sepk] in *.
  - apply IH, H.
  - apply andb_true_iff in H as [H1 H2]. split; [|apply IH, H2].
    apply orb_true_iff in H1 as [H1|H1]; [left; exact H1|right; apply (ssokb_ok _ H1)].
Qed.
(* A, for literals that end with a keyword *)
Fixpoint openb (d : doc) : bool :=
  match d with
  | [] => true
  | Gap _ :: r => openb r
  | Lx k _ _ :: r => (is_punct_kind k || ssokb r || match flat r with [] => true | _ => false end) && openb r
  end.
Lemma openb_ok d : openb d = true -> A d.
Proof.
  induction d as [|i r IH]; intros H k Hk; [exact I|]. destruct i as [g|kd v lx]; cbn [openb sepk] in *.
  - apply IH; assumption.
  - apply andb_true_iff in H as [H1 H2]. split; [|apply IH; assumption].
    apply orb_true_iff in H1 as [H1|H1].
    + apply orb_true_iff in H1 as [H1|H1]; [left; exact H1|right; apply (ssokb_ok _ H1)].
    + right. destruct (flat r); [exact Hk|discriminate].
Qed.

Definition gapcharb (c : N) : bool := (c =? 32) || (c =? LF) || (c =? 44).
Definition litb (i : item) : bool :=
  match i with
  | Gap g => forallb gapcharb g
  | Lx k v lx =>
    match v, lx with
    | [], [c] => match punct_kind c with Some k' => k' =? k | None => false end
    | _, _ => false
    end
    || ((k =? K_SPREAD) && nat_list_eqb v [] && nat_list_eqb lx [46; 46; 46])
    || ((k =? K_NAME) && nat_list_eqb v lx && is_name v)
  end.
Lemma litb_ok i : litb i = true -> ivalid i.
Proof.
  destruct i as [g|k v lx]; cbn [litb ivalid].
  - intros H. rewrite forallb_forall in H. apply Forall_forall. intros c Hc. specialize (H c Hc).
    unfold gapcharb in H. unfold gapchar.
    apply orb_true_iff in H as [H|H]; [apply orb_true_iff in H as [H|H]|]; apply N.eqb_eq in H; auto.
  - intros H. left. apply orb_true_iff in H as [H|H]; [apply orb_true_iff in H as [H|H]|].
    + destruct v; [|discriminate]. destruct lx as [|c [|? ?]]; try discriminate.
      destruct (punct_kind c) as [k'|] eqn:E; [|discriminate]. apply N.eqb_eq in H. subst k'.
      destruct (punct_lexeme c k E). split; assumption.
    + apply andb_true_iff in H as [H H3]. apply andb_true_iff in H as [H1 H2].
      apply N.eqb_eq in H1. apply nat_list_eqb_eq in H2, H3. subst. split; [repeat constructor|apply spread_lexeme].
    + apply andb_true_iff in H as [H H3]. apply andb_true_iff in H as [H1 H2].
      apply N.eqb_eq in H1. apply nat_list_eqb_eq in H2. subst. destruct (name_lexeme lx H3). split; assumption.
Qed.
Lemma lit_V d : forallb litb d = true -> V d.
Proof. intros H. rewrite forallb_forall in H. apply Forall_forall. intros i Hi. apply litb_ok, H, Hi. Qed.
Lemma G_lit d : forallb litb d = true -> openb d = true -> G d (itoks d).
Proof. intros H1 H2. split; [apply lit_V, H1|]. split; [apply openb_ok, H2|reflexivity]. Qed.

(* ---- wrap ---- *)
Lemma wrap_true start d stop : truthy d = true -> wrap start d stop = start ++ d ++ stop.
Proof. unfold wrap. intros ->. reflexivity. Qed.
Lemma wrap_false start d stop : truthy d = false -> wrap start d stop = [].
Proof. unfold wrap. intros ->. reflexivity. Qed.

Lemma G_wrap start d stop ts td te :
  G start ts -> closedP start -> G d td -> G stop te -> sokP stop -> td <> [] ->
  G (wrap start d stop) (ts ++ td ++ te).
Proof.
  intros Hs Hc Hd He Hse Hne. rewrite wrap_true by (eapply G_truthy; eauto).
  apply G_app_l; [exact Hs|exact Hc|]. apply G_app_r; assumption.
Qed.

Lemma closedP_wrap start d stop :
  closedP start -> A d -> closedP stop -> ssokP stop -> closedP (wrap start d stop).
Proof.
  intros Hs Hd Hc Hss. unfold wrap. destruct (truthy d); [|apply closedP_nil].
  apply closedP_app; [exact Hs|]. apply closedP_app_r; assumption.
Qed.

Lemma sokP_wrap start d stop : ssokP start -> sokP (wrap start d stop).
Proof.
  intros H. unfold wrap. destruct (truthy d); [|apply sokP_nil]. apply ssokP_sokP, ssokP_app, H.
Qed.

(* ---- join ---- *)
Fixpoint intercalate (ts : list sigtok) (tl : list (list sigtok)) : list sigtok :=
  match tl with
  | [] => []
  | [t] => t
  | t :: r => t ++ ts ++ intercalate ts r
  end.

Lemma G_join_ne sep ts parts tl : G sep ts -> closedP sep -> ssokP sep ->
  Forall2 G parts tl -> G (join_ne sep parts) (intercalate ts tl).
Proof.
  intros Hsep Hc Hs. induction 1 as [|p t parts tl Hp Hr IH]; [apply G_nil|].
  destruct parts as [|q parts'].
  - inversion Hr; subst. exact Hp.
  - destruct tl as [|t' tl']; [inversion Hr|]. cbn [join_ne intercalate].
    apply G_app_r; [exact Hp| |].
    + apply G_app_l; [exact Hsep|exact Hc|exact IH].
    + apply ssokP_sokP, ssokP_app, Hs.
Qed.

(* with a separator that carries no token: the empty parts disappear without trace *)
Lemma G_join_gap sep parts tl : G sep [] -> closedP sep -> ssokP sep ->
  Forall2 G parts tl -> G (join sep parts) (concat tl).
Proof.
  intros Hsep Hc Hs. unfold join. induction 1 as [|p t parts tl Hp Hr IH]; [apply G_nil|].
  cbn [filter concat]. destruct (truthy p) eqn:Et.
  - destruct (filter truthy parts) as [|q r'] eqn:Ef.
    + cbn [join_ne] in *. destruct IH as (_ & _ & IH). cbn [itoks flat_map] in IH. rewrite <- IH, app_nil_r. exact Hp.
    + cbn [join_ne]. apply G_app_r; [exact Hp| |apply ssokP_sokP, ssokP_app, Hs].
      apply (G_app_l sep _ [] _ Hsep Hc IH).
  - rewrite (G_falsy _ _ Hp Et). exact IH.
Qed.

(* with a separator that carries tokens, for parts that all print something *)
Lemma G_join_tok sep ts parts tl : G sep ts -> closedP sep -> ssokP sep ->
  Forall2 G parts tl -> Forall (fun t => t <> []) tl -> G (join sep parts) (intercalate ts tl).
Proof.
  intros Hsep Hc Hs H2 Hne. unfold join.
  replace (filter truthy parts) with parts; [apply G_join_ne; assumption|].
  clear Hsep Hc Hs. induction H2 as [|p t parts tl Hp _ IH]; [reflexivity|].
  inversion Hne; subst. cbn [filter]. rewrite (G_truthy _ _ Hp) by assumption. f_equal. apply IH. assumption.
Qed.

(* ---- indent ---- *)
Lemma flat_indent p d : flat (map (indent_item p) d) = indent_by p (flat d).
Proof.
  induction d as [|i r IH]; [reflexivity|]. cbn [map]. change (flat (?x :: ?y)) with (item_text x ++ flat y).
  rewrite indent_by_app, IH. destruct i; reflexivity.
Qed.
Lemma itoks_indent p d : itoks (map (indent_item p) d) = itoks d.
Proof.
  induction d as [|i r IH]; [reflexivity|]. unfold itoks in *. cbn [map flat_map]. rewrite IH.
  destruct i; reflexivity.
Qed.
Lemma indent_by_nil_iff p x : indent_by p x = [] <-> x = [].
Proof. destruct x as [|c t]; [tauto|]. cbn. destruct (c =? LF); split; discriminate. Qed.
Lemma truthy_indent p d : truthy (map (indent_item p) d) = truthy d.
Proof.
  unfold truthy. rewrite flat_indent. destruct (flat d) as [|c t]; [reflexivity|].
  cbn. destruct (c =? LF); reflexivity.
Qed.
Lemma follow_ok_indent p x k : follow_ok (indent_by p x ++ k) <-> follow_ok (x ++ k).
Proof.
  destruct x as [|c t]; [tauto|]. cbn [indent_by]. destruct (c =? LF) eqn:E; [|tauto].
  apply N.eqb_eq in E. subst c. cbn. tauto.
Qed.
Lemma sepk_indent p d k : sepk d k -> sepk (map (indent_item p) d) k.
Proof.
  induction d as [|i r IH]; intros H; [exact I|]. destruct i as [g|kd v lx]; cbn [map indent_item sepk] in *.
  - apply IH, H.
  - destruct H as [H1 H2]. split; [|apply IH, H2]. destruct H1 as [H1|H1]; [left; exact H1|right].
    rewrite flat_indent. apply follow_ok_indent. exact H1.
Qed.
Lemma indent_all_snoc pads p s : indent_all (pads ++ [p]) s = indent_by p (indent_all pads s).
Proof. revert s. induction pads as [|q r IH]; intros s; [reflexivity|]. cbn [app indent_all]. apply IH. Qed.

Definition spaces (p : list N) : Prop := Forall (fun c => c = 32) p.
Lemma spaces_blanks p : spaces p -> blanks p.
Proof. apply Forall_impl. intros c ->. reflexivity. Qed.
Lemma gap_indent p g : spaces p -> Forall gapchar g -> Forall gapchar (indent_by p g).
Proof.
  intros Hp. induction 1 as [|c g Hc _ IH]; [constructor|]. cbn [indent_by].
  destruct (c =? LF) eqn:E.
  - constructor; [right; left; reflexivity|]. apply Forall_app. split; [|exact IH].
    eapply Forall_impl; [|exact Hp]. intros x ->. left. reflexivity.
  - constructor; assumption.
Qed.
Lemma V_indent p d : spaces p -> V d -> V (map (indent_item p) d).
Proof.
  intros Hp. induction 1 as [|i r Hi _ IH]; [constructor|]. constructor; [|exact IH].
  destruct i as [g|k v lx]; cbn [indent_item ivalid] in *.
  - apply gap_indent; assumption.
  - destruct Hi as [[Hn HL]|(Hk & Hr & Hw & pads & Hpads & ->)].
    + left. rewrite indent_by_nolf by exact Hn. split; assumption.
    + right. split; [exact Hk|]. split; [exact Hr|]. split; [exact Hw|]. exists (pads ++ [p]).
      split; [apply Forall_app; split; [exact Hpads|constructor; [apply spaces_blanks, Hp|constructor]]|].
      apply eq_sym, indent_all_snoc.
Qed.

Lemma G_indent_map p d t : spaces p -> G d t -> G (map (indent_item p) d) t.
Proof.
  intros Hp (Hv & Ha & <-). split; [apply V_indent; assumption|].
  split; [intros k Hk; apply sepk_indent, Ha, Hk|apply itoks_indent].
Qed.

Lemma spaces_pad2 : spaces pad2.
Proof. repeat constructor. Qed.

Lemma G_indent d t : G d t -> G (indent d) t.
Proof.
  intros H. unfold indent, wrap. rewrite truthy_indent. destruct (truthy d) eqn:E.
  - rewrite app_nil_r. apply (G_app_l [Gap pad2] _ [] t).
    + apply G_lit; reflexivity.
    + apply closedb_ok. reflexivity.
    + apply G_indent_map; [apply spaces_pad2|exact H].
  - rewrite (G_falsy _ _ H E). apply G_nil.
Qed.

Lemma truthy_indent_doc d : truthy (indent d) = truthy d.
Proof.
  unfold indent, wrap. rewrite truthy_indent. destruct (truthy d) eqn:E; [reflexivity|reflexivity].
Qed.

(* ---- block ---- *)
Lemma G_block parts tl : Forall2 G parts tl -> concat tl <> [] ->
  G (block parts) (pt K_BRACE_L :: concat tl ++ [pt K_BRACE_R]).
Proof.
  intros H Hne. unfold block.
  assert (Hj : G (indent (join [nl] parts)) (concat tl)).
  { apply G_indent. apply G_join_gap; [apply G_lit; reflexivity|apply closedb_ok; reflexivity|
                                      apply ssokb_ok; reflexivity|exact H]. }
  apply (G_wrap [p_lbrace; nl] _ [nl; p_rbrace] [pt K_BRACE_L] (concat tl) [pt K_BRACE_R]).
  - apply G_lit; reflexivity.
  - apply closedb_ok. reflexivity.
  - exact Hj.
  - apply G_lit; reflexivity.
  - apply ssokP_sokP, ssokb_ok. reflexivity.
  - exact Hne.
Qed.

(* ================================================================== *)
(* 4. the lexical side conditions on a tree                            *)
(* ================================================================== *)

(* a block-flagged string value must be in the range of the lexer's block-string denotation
   (C08_block_range_char), with surrogates, if any, in lead-trail pairs *)
Definition block_ok (s : list N) : Prop := in_block_range s = true /\ lines_wp (split_lf s).

Definition leaf_ok (k : nkind) (attrs : list attr) : Prop :=
  match k, attrs with
  | KName, [AStr v] => is_name v = true
  | KIntValue, [AStr s] => alone K_INT s s = true
  | KFloatValue, [AStr s] => alone K_FLOAT s s = true
  | KEnumValue, [AStr s] => is_name s = true
  | KStringValue, [AStr s; ABool b] => if b then block_ok s else scalars s
  | _, _ => True
  end.

(* every name is a Name lexeme, every Int / Float value an Int / Float lexeme, every quoted string
   value a string of Unicode scalar values, every block string value in the lexer's range *)
Fixpoint lex_ok (n : node) : Prop :=
  match n with
  | Nd k attrs =>
    leaf_ok k attrs /\
    fold_right and True
      (map (fun a => match a with
                     | ANode m => lex_ok m
                     | AList l => fold_right and True (map lex_ok l)
                     | _ => True
                     end) attrs)
  end.

Lemma all_ok l : fold_right and True (map lex_ok l) <-> Forall lex_ok l.
Proof.
  induction l as [|x l IH]; cbn; [split; auto|]. rewrite IH. split.
  - intros [H1 H2]. constructor; assumption.
  - intros H. inversion H; auto.
Qed.

(* the printed attributes *)
Definition pa (a : attr) : pattr :=
  match a with
  | ANone => PNone
  | ANode m => PDoc (pp_doc m)
  | AList l => PList (map pp_doc l)
  | AStr s => PStr s
  | ABool b => PBool b
  | AEnum c => PEnum c
  end.
Lemma pp_doc_eq k attrs : pp_doc (Nd k attrs) = leave k (map pa attrs).
Proof. reflexivity. Qed.

Lemma G_single k v lx : ivalid (Lx k v lx) -> G [Lx k v lx] [(k, v)].
Proof.
  intros H. split; [constructor; [exact H|constructor]|]. split; [|reflexivity].
  intros r Hr. cbn. split; [right; exact Hr|exact I].
Qed.

Lemma G_kw s : is_name s = true -> G (kw s) [nm s].
Proof. intros H. apply G_single. left. destruct (name_lexeme s H). split; assumption. Qed.

(* ---- names ---- *)
Lemma G_name n : wf_name n -> lex_ok n -> G (pp_doc n) (toks_name n).
Proof. intros [v] [Hv _]. cbn in Hv. apply G_kw, Hv. Qed.

Lemma toks_name_ne n : wf_name n -> toks_name n <> [].
Proof. intros [v]. discriminate. Qed.

(* concat / flat_map *)
Lemma concat_map_flat {X Y} (f : X -> list Y) l : concat (map f l) = flat_map f l.
Proof. symmetry. apply flat_map_concat_map. Qed.

Lemma Forall2_map_G (Pn : node -> Prop) (f : node -> list sigtok) l :
  (forall x, Pn x -> lex_ok x -> G (pp_doc x) (f x)) ->
  Forall Pn l -> Forall lex_ok l -> Forall2 G (map pp_doc l) (map f l).
Proof.
  intros H. induction 1 as [|x l Hx _ IH]; intros Hok; [constructor|].
  inversion Hok; subst. constructor; [apply H; assumption|apply IH; assumption].
Qed.

(* lists between brackets, braces, parentheses: one line *)
Lemma G_enclosed (o c : item) (to tc : list sigtok) sep parts tl :
  G [o] to -> closedP [o] -> G [c] tc -> ssokP [c] ->
  G sep [] -> closedP sep -> ssokP sep -> Forall2 G parts tl ->
  G ([o] ++ join sep parts ++ [c]) (to ++ concat tl ++ tc).
Proof.
  intros Ho Hoc Hc Hcs Hs Hsc Hss H. apply G_app_l; [exact Ho|exact Hoc|].
  apply G_app_r; [|exact Hc|apply ssokP_sokP, Hcs]. apply G_join_gap; assumption.
Qed.

Ltac lit := first [apply G_lit; reflexivity | apply closedb_ok; reflexivity | apply ssokb_ok; reflexivity
                  | apply ssokP_sokP, ssokb_ok; reflexivity | apply closed_A, closedb_ok; reflexivity
                  | apply sokP_nil | apply closedP_nil ].

(* ---- values ---- *)
Lemma toks_value_ne c v : wf_value c v -> toks_value v <> [].
Proof. destruct 1; discriminate. Qed.

Lemma G_value_all c :
  (forall v, wf_value c v -> lex_ok v -> G (pp_doc v) (toks_value v)) /\
  (forall l, wf_values c l -> Forall lex_ok l -> Forall2 G (map pp_doc l) (map toks_value l)) /\
  (forall fs, wf_object_fields c fs -> Forall lex_ok fs ->
              Forall2 G (map pp_doc fs) (map toks_object_field fs)).
Proof.
  apply wf_value_mutind.
  - (* variable *) intros n _ Hn [_ [Hok _]].
    change (pp_doc (Nd KVariable [ANode n])) with ([p_dollar] ++ pp_doc n).
    change (toks_value (Nd KVariable [ANode n])) with ([pt K_DOLLAR] ++ toks_name n).
    apply G_app_l; [lit|lit|apply G_name; assumption].
  - intros s [Hs _]. cbn in Hs. apply G_single. left. split.
    + eapply number_nolf; [exact Hs|left; reflexivity].
    + apply alone_lexeme; [exact Hs|reflexivity..].
  - intros s [Hs _]. cbn in Hs. apply G_single. left. split.
    + eapply number_nolf; [exact Hs|right; reflexivity].
    + apply alone_lexeme; [exact Hs|reflexivity..].
  - intros s b [Hs _]. cbn in Hs. destruct b.
    + apply G_single. right. destruct Hs as [H1 H2]. split; [reflexivity|]. split; [exact H1|]. split; [exact H2|].
      exists []. split; [constructor|reflexivity].
    + apply G_single. left. destruct (print_string_lexeme s Hs). split; assumption.
  - intros b _. destruct b; apply G_kw; reflexivity.
  - intros _. apply G_kw. reflexivity.
  - intros s _ [Hs _]. cbn in Hs. apply G_kw, Hs.
  - (* list *) intros l _ IH [_ [Hok _]]. apply all_ok in Hok. specialize (IH Hok).
    rewrite pp_doc_eq. cbn [map pa leave pl]. cbv zeta. cbn [toks_value]. rewrite <- concat_map_flat.
    match goal with |- G (if ?b then _ else _) _ => destruct b end.
    + change (?x :: ?y ++ ?z) with ([x] ++ y ++ z).
      apply (G_app_l [p_lbracket; nl] _ [pt K_BRACKET_L]); [lit|lit|].
      apply G_app_r; [|lit|lit]. apply G_indent. apply G_join_gap; [lit|lit|lit|exact IH].
    + change (?x :: ?y ++ ?z) with ([x] ++ y ++ z). apply G_enclosed; try lit. exact IH.
  - (* object *) intros fs Hwf IH [_ [Hok _]]. apply all_ok in Hok. specialize (IH Hok).
    rewrite pp_doc_eq. cbn [map pa leave pl]. cbv zeta.
    change (toks_value (Nd KObjectValue [AList fs]))
      with ([pt K_BRACE_L] ++ flat_map toks_object_field fs ++ [pt K_BRACE_R]).
    rewrite <- concat_map_flat.
    match goal with |- G (if ?b then _ else _) _ => destruct b eqn:Eb end.
    + destruct fs as [|f fs']; [cbn in Eb; discriminate|]. apply G_block; [exact IH|].
      cbn [map concat]. inversion Hwf; subst. intros E. apply app_eq_nil in E as [E _].
      cbn [toks_object_field] in E. apply app_eq_nil in E as [_ E]. discriminate.
    + apply (G_app_l [p_lbrace; sp] _ [pt K_BRACE_L]); [lit|lit|].
      apply G_app_r; [|lit|lit]. apply G_join_gap; [lit|lit|lit|exact IH].
  - constructor.
  - intros v l _ IHv _ IHl Hok. inversion Hok; subst. constructor; [apply IHv; assumption|apply IHl; assumption].
  - constructor.
  - intros n v fs Hn _ IHv _ IHfs Hok. inversion Hok as [|? ? Hf Hr]; subst.
    constructor; [|apply IHfs; assumption].
    destruct Hf as [_ [Hn' [Hv' _]]].
    change (pp_doc (Nd KObjectField [ANode n; ANode v])) with (pp_doc n ++ colon_sp ++ pp_doc v).
    change (toks_object_field (Nd KObjectField [ANode n; ANode v]))
      with (toks_name n ++ [pt K_COLON] ++ toks_value v).
    apply G_app_r; [apply G_name; assumption| |lit].
    apply G_app_l; [lit|lit|apply IHv; assumption].
Qed.

(* ---- attributes ---- *)
Definition attr_ok (a : attr) : Prop :=
  match a with
  | ANode m => lex_ok m
  | AList l => fold_right and True (map lex_ok l)
  | _ => True
  end.

Definition alist (a : attr) : list node := match a with AList l => l | _ => [] end.

Lemma pl_pa a : pl (pa a) = map pp_doc (alist a).
Proof. destruct a; reflexivity. Qed.

Lemma nelist_parts (Pn : node -> Prop) f a :
  (forall x, Pn x -> lex_ok x -> G (pp_doc x) (f x)) -> wf_nelist Pn a -> attr_ok a ->
  Forall2 G (pl (pa a)) (map f (alist a)).
Proof.
  intros H W Hok. rewrite pl_pa. destruct W as [|x l Hx Hl]; [constructor|]. cbn [alist].
  apply all_ok in Hok. apply (Forall2_map_G Pn f (x :: l) H); [constructor; assumption|exact Hok].
Qed.

Lemma list1_nelist (Pn : node -> Prop) a : wf_list1 Pn a -> wf_nelist Pn a.
Proof. intros [x l Hx Hl]. constructor; assumption. Qed.

Lemma toks_block_eq o f c a (Pn : node -> Prop) : wf_nelist Pn a ->
  toks_block o f c a = match alist a with [] => [] | l => pt o :: concat (map f l) ++ [pt c] end.
Proof. intros [|x l _ _]; [reflexivity|]. cbn [toks_block alist]. rewrite concat_map_flat. reflexivity. Qed.

Lemma concat_ne (Pn : node -> Prop) (f : node -> list sigtok) x l :
  (forall y, Pn y -> f y <> []) -> Pn x -> concat (map f (x :: l)) <> [].
Proof. intros H Hx E. cbn in E. apply app_eq_nil in E as [E _]. exact (H x Hx E). Qed.

(* the three layouts of a parenthesised list *)
Lemma G_lay1 parts tl : Forall2 G parts tl -> concat tl <> [] ->
  G (wrap [p_lparen] (join comma_sp parts) [p_rparen]) (pt K_PAREN_L :: concat tl ++ [pt K_PAREN_R]).
Proof.
  intros H Hne. apply (G_wrap [p_lparen] _ [p_rparen] [pt K_PAREN_L] (concat tl) [pt K_PAREN_R]); try lit; [|exact Hne].
  apply G_join_gap; [lit|lit|lit|exact H].
Qed.
Lemma G_lay2 parts tl : Forall2 G parts tl -> concat tl <> [] ->
  G (wrap [p_lparen; nl] (indent (join [nl] parts)) [nl; p_rparen]) (pt K_PAREN_L :: concat tl ++ [pt K_PAREN_R]).
Proof.
  intros H Hne. apply (G_wrap [p_lparen; nl] _ [nl; p_rparen] [pt K_PAREN_L] (concat tl) [pt K_PAREN_R]); try lit;
    [|exact Hne].
  apply G_indent. apply G_join_gap; [lit|lit|lit|exact H].
Qed.
Lemma G_lay3 parts tl : Forall2 G parts tl -> concat tl <> [] ->
  G (wrap [p_lparen; nl] (join [nl] parts) [nl; p_rparen]) (pt K_PAREN_L :: concat tl ++ [pt K_PAREN_R]).
Proof.
  intros H Hne. apply (G_wrap [p_lparen; nl] _ [nl; p_rparen] [pt K_PAREN_L] (concat tl) [pt K_PAREN_R]); try lit;
    [|exact Hne].
  apply G_join_gap; [lit|lit|lit|exact H].
Qed.

Section AttrLayouts.
Variable Pn : node -> Prop.
Variable f : node -> list sigtok.
Hypothesis HG : forall x, Pn x -> lex_ok x -> G (pp_doc x) (f x).
Hypothesis Hne : forall x, Pn x -> f x <> [].

Lemma G_parens1 a : wf_nelist Pn a -> attr_ok a ->
  G (wrap [p_lparen] (join comma_sp (pl (pa a))) [p_rparen]) (toks_block K_PAREN_L f K_PAREN_R a).
Proof.
  intros W Hok. pose proof (nelist_parts Pn f a HG W Hok) as HP.
  rewrite (toks_block_eq _ _ _ _ Pn W). destruct W as [|x l Hx Hl]; [apply G_nil|].
  cbn [alist] in *. apply G_lay1; [exact HP|]. eapply concat_ne; eauto.
Qed.

Lemma G_def_args a : wf_nelist Pn a -> attr_ok a ->
  G (def_args (pl (pa a))) (toks_block K_PAREN_L f K_PAREN_R a).
Proof.
  intros W Hok. pose proof (nelist_parts Pn f a HG W Hok) as HP.
  rewrite (toks_block_eq _ _ _ _ Pn W). destruct W as [|x l Hx Hl]; [apply G_nil|].
  cbn [alist] in *. unfold def_args. destruct (has_multiline_items _);
    [apply G_lay2|apply G_lay1]; try exact HP; eapply concat_ne; eauto.
Qed.

Lemma G_var_defs a : wf_nelist Pn a -> attr_ok a ->
  G (if has_multiline_items (pl (pa a))
     then wrap [p_lparen; nl] (join [nl] (pl (pa a))) [nl; p_rparen]
     else wrap [p_lparen] (join comma_sp (pl (pa a))) [p_rparen]) (toks_block K_PAREN_L f K_PAREN_R a).
Proof.
  intros W Hok. pose proof (nelist_parts Pn f a HG W Hok) as HP.
  rewrite (toks_block_eq _ _ _ _ Pn W). destruct W as [|x l Hx Hl]; [apply G_nil|].
  cbn [alist] in *. destruct (has_multiline_items _);
    [apply G_lay3|apply G_lay1]; try exact HP; eapply concat_ne; eauto.
Qed.

Lemma G_wlaa prefix tp a : G prefix tp -> wf_nelist Pn a -> attr_ok a ->
  G (wrapped_line_and_args prefix (pl (pa a))) (tp ++ toks_block K_PAREN_L f K_PAREN_R a).
Proof.
  intros Hp W Hok. pose proof (nelist_parts Pn f a HG W Hok) as HP.
  rewrite (toks_block_eq _ _ _ _ Pn W). unfold wrapped_line_and_args. cbv zeta.
  destruct W as [|x l Hx Hl].
  - cbn [pa pl alist].
    change (wrap [p_lparen] (join comma_sp []) [p_rparen]) with (@nil item).
    change (wrap [p_lparen; nl] (indent (join [nl] [])) [nl; p_rparen]) with (@nil item).
    rewrite !app_nil_r. destruct (Nat.ltb _ _); exact Hp.
  - cbn [alist] in *.
    assert (N : concat (map f (x :: l)) <> []) by (eapply concat_ne; eauto).
    destruct (Nat.ltb _ _).
    + apply G_app_r; [exact Hp|apply G_lay2; assumption|]. apply sokP_wrap. lit.
    + apply G_app_r; [exact Hp|apply G_lay1; assumption|]. apply sokP_wrap. lit.
Qed.

Lemma G_block_attr a : wf_nelist Pn a -> attr_ok a ->
  G (block (pl (pa a))) (toks_block K_BRACE_L f K_BRACE_R a).
Proof.
  intros W Hok. pose proof (nelist_parts Pn f a HG W Hok) as HP.
  rewrite (toks_block_eq _ _ _ _ Pn W). destruct W as [|x l Hx Hl]; [apply G_nil|].
  cbn [alist] in *. apply G_block; [exact HP|]. eapply concat_ne; eauto.
Qed.
End AttrLayouts.

Lemma G_opt (Pn : node -> Prop) f a :
  (forall x, Pn x -> lex_ok x -> G (pp_doc x) (f x)) -> wf_opt Pn a -> attr_ok a ->
  G (pd (pa a)) (toks_opt f a).
Proof. intros H [|n Hn] Hok; [apply G_nil|]. apply H; assumption. Qed.

(* ---- types ---- *)
Lemma G_type t : wf_type t -> lex_ok t -> G (pp_doc t) (toks_type t).
Proof.
  induction 1 as [n Hn|t _ IH|n Hn|t _ IH]; intros Hok.
  - destruct Hok as [_ [Hok _]]. change (pp_doc (Nd KNamedType [ANode n])) with (pp_doc n).
    apply G_name; assumption.
  - destruct Hok as [_ [Hok _]].
    change (pp_doc (Nd KListType [ANode t])) with ([p_lbracket] ++ pp_doc t ++ [p_rbracket]).
    change (toks_type (Nd KListType [ANode t])) with ([pt K_BRACKET_L] ++ toks_type t ++ [pt K_BRACKET_R]).
    apply G_app_l; [lit|lit|]. apply G_app_r; [apply IH, Hok|lit|lit].
  - destruct Hok as [_ [[_ [Hok _]] _]].
    change (pp_doc (Nd KNonNullType [ANode (Nd KNamedType [ANode n])])) with (pp_doc n ++ [p_bang]).
    change (toks_type (Nd KNonNullType [ANode (Nd KNamedType [ANode n])])) with (toks_name n ++ [pt K_BANG]).
    apply G_app_r; [apply G_name; assumption|lit|lit].
  - destruct Hok as [_ [[_ [Hok _]] _]].
    change (pp_doc (Nd KNonNullType [ANode (Nd KListType [ANode t])]))
      with (([p_lbracket] ++ pp_doc t ++ [p_rbracket]) ++ [p_bang]).
    change (toks_type (Nd KNonNullType [ANode (Nd KListType [ANode t])]))
      with (([pt K_BRACKET_L] ++ toks_type t ++ [pt K_BRACKET_R]) ++ [pt K_BANG]).
    apply G_app_r; [|lit|lit]. apply G_app_l; [lit|lit|]. apply G_app_r; [apply IH, Hok|lit|lit].
Qed.

Lemma toks_type_ne t : wf_type t -> toks_type t <> [].
Proof.
  destruct 1 as [n Hn|t _|n Hn|t _]; cbn [toks_type]; try discriminate.
  - apply toks_name_ne, Hn.
  - destruct Hn. discriminate.
Qed.

Lemma named_type_wf t : wf_named_type t -> wf_type t.
Proof. intros [n Hn]. constructor. exact Hn. Qed.
Lemma G_named_type t : wf_named_type t -> lex_ok t -> G (pp_doc t) (toks_type t).
Proof. intros H. apply G_type, named_type_wf, H. Qed.
Lemma toks_named_type_ne t : wf_named_type t -> toks_type t <> [].
Proof. intros H. apply toks_type_ne, named_type_wf, H. Qed.

(* ---- arguments, directives ---- *)
Lemma G_argument c a : wf_argument c a -> lex_ok a -> G (pp_doc a) (toks_argument a).
Proof.
  intros [n v Hn Hv] [_ [Hn' [Hv' _]]].
  change (pp_doc (Nd KArgument [ANode n; ANode v])) with (pp_doc n ++ colon_sp ++ pp_doc v).
  change (toks_argument (Nd KArgument [ANode n; ANode v])) with (toks_name n ++ [pt K_COLON] ++ toks_value v).
  apply G_app_r; [apply G_name; assumption| |lit].
  apply G_app_l; [lit|lit|]. apply (proj1 (G_value_all c)); assumption.
Qed.
Lemma toks_argument_ne c a : wf_argument c a -> toks_argument a <> [].
Proof. intros [n v [w] Hv]. discriminate. Qed.

Lemma G_fragment_argument a : wf_fragment_argument a -> lex_ok a -> G (pp_doc a) (toks_argument a).
Proof.
  intros [n v Hn Hv] [_ [Hn' [Hv' _]]].
  change (pp_doc (Nd KFragmentArgument [ANode n; ANode v])) with (pp_doc n ++ colon_sp ++ pp_doc v).
  change (toks_argument (Nd KFragmentArgument [ANode n; ANode v])) with (toks_name n ++ [pt K_COLON] ++ toks_value v).
  apply G_app_r; [apply G_name; assumption| |lit].
  apply G_app_l; [lit|lit|]. apply (proj1 (G_value_all false)); assumption.
Qed.
Lemma toks_fragment_argument_ne a : wf_fragment_argument a -> toks_argument a <> [].
Proof. intros [n v [w] Hv]. discriminate. Qed.

Lemma G_directive c d : wf_directive c d -> lex_ok d -> G (pp_doc d) (toks_directive d).
Proof.
  intros [n a Hn Ha] [_ [Hn' [Ha' _]]].
  change (pp_doc (Nd KDirective [ANode n; a]))
    with ([p_at] ++ pp_doc n ++ wrap [p_lparen] (join comma_sp (pl (pa a))) [p_rparen]).
  change (toks_directive (Nd KDirective [ANode n; a])) with ([pt K_AT] ++ toks_name n ++ toks_arguments a).
  apply G_app_l; [lit|lit|]. apply G_app_r; [apply G_name; assumption| |apply sokP_wrap; lit].
  apply (G_parens1 (wf_argument c) toks_argument (G_argument c) (toks_argument_ne c)); assumption.
Qed.
Lemma toks_directive_ne c d : wf_directive c d -> toks_directive d <> [].
Proof. intros [n a _ _]. discriminate. Qed.

Lemma G_dirs c a : wf_directives c a -> attr_ok a -> G (dirs (pa a)) (toks_directives a).
Proof.
  intros W Hok. pose proof (nelist_parts _ _ a (G_directive c) W Hok) as HP.
  unfold dirs. replace (toks_directives a) with (concat (map toks_directive (alist a))).
  - apply G_join_gap; [lit|lit|lit|exact HP].
  - destruct W; [reflexivity|]. cbn [alist toks_directives toks_list]. apply concat_map_flat.
Qed.

(* wrap(" ", join(directives, " ")) *)
Lemma G_sp_dirs c a : wf_directives c a -> attr_ok a ->
  G (wrap [sp] (dirs (pa a)) []) (toks_directives a) /\ sokP (wrap [sp] (dirs (pa a)) []).
Proof.
  intros W Hok. split; [|apply sokP_wrap; lit]. pose proof (G_dirs c a W Hok) as HD.
  destruct (truthy (dirs (pa a))) eqn:E.
  - rewrite wrap_true by exact E. rewrite app_nil_r. apply (G_app_l [sp] _ [] _); [lit|lit|exact HD].
  - rewrite wrap_false by exact E. rewrite (G_falsy _ _ HD E). apply G_nil.
Qed.

(* ---- join with the empty separator ---- *)
Lemma G_join2 a b ta tb : G a ta -> G b tb -> (closedP a \/ sokP b) -> G (join [] [a; b]) (ta ++ tb).
Proof.
  intros Ha Hb Hab. unfold join. cbn [filter]. destruct (truthy a) eqn:Ea, (truthy b) eqn:Eb; cbn [join_ne app].
  - destruct Hab as [H|H]; [apply G_app_l|apply G_app_r]; assumption.
  - rewrite (G_falsy _ _ Hb Eb), app_nil_r. exact Ha.
  - rewrite (G_falsy _ _ Ha Ea). exact Hb.
  - rewrite (G_falsy _ _ Ha Ea), (G_falsy _ _ Hb Eb). apply G_nil.
Qed.

Lemma G_join3 a b c ta tb tc : G a ta -> G b tb -> G c tc -> sokP b -> sokP c ->
  G (join [] [a; b; c]) (ta ++ tb ++ tc).
Proof.
  intros Ha Hb Hc Sb Sc. unfold join. cbn [filter].
  destruct (truthy a) eqn:Ea, (truthy b) eqn:Eb, (truthy c) eqn:Ec; cbn [join_ne app];
    rewrite ?(G_falsy _ _ Ha Ea), ?(G_falsy _ _ Hb Eb), ?(G_falsy _ _ Hc Ec), ?app_nil_r; cbn [app];
    try assumption; try apply G_nil.
  - apply G_app_r; [exact Ha|apply G_app_r; assumption|apply sokP_app; assumption].
  - apply G_app_r; assumption.
  - apply G_app_r; assumption.
  - apply G_app_r; assumption.
Qed.

Lemma fragment_name_wf n : wf_fragment_name n -> wf_name n.
Proof. intros [v _]. constructor. Qed.

(* wrap("", alias, ": ") *)
Lemma G_alias al : wf_opt wf_name al -> attr_ok al ->
  G (wrap [] (pd (pa al)) colon_sp) (match al with ANode an => toks_name an ++ [pt K_COLON] | _ => [] end) /\
  closedP (wrap [] (pd (pa al)) colon_sp).
Proof.
  intros [|an Han] Hok; [split; [apply G_nil|apply closedP_nil]|].
  cbn [pa pd]. pose proof (G_name an Han Hok) as Hn. split.
  - apply (G_wrap [] _ colon_sp [] _ [pt K_COLON]); try lit; [exact Hn|].
    apply toks_name_ne, Han.
  - apply closedP_wrap; [apply closedP_nil|apply Hn|lit|lit].
Qed.

Section Executable.
Variable xfa xdd : bool.

Lemma G_spread_args a : wf_spread_arguments xfa a -> attr_ok a -> forall prefix tp, G prefix tp ->
  G (wrapped_line_and_args prefix (pl (pa a))) (tp ++ toks_arguments a).
Proof.
  unfold wf_spread_arguments. intros W Hok prefix tp Hp. destruct xfa.
  - apply (G_wlaa wf_fragment_argument toks_argument G_fragment_argument toks_fragment_argument_ne); assumption.
  - subst a. apply (G_wlaa wf_fragment_argument toks_argument G_fragment_argument toks_fragment_argument_ne);
      [assumption|constructor|exact I].
Qed.

Lemma toks_selection_set_unfold x l :
  toks_selection_set (Nd KSelectionSet [AList (x :: l)])
  = pt K_BRACE_L :: concat (map toks_selection (x :: l)) ++ [pt K_BRACE_R].
Proof. rewrite concat_map_flat. reflexivity. Qed.

Lemma toks_selection_ne x : wf_selection xfa x -> toks_selection x <> [].
Proof.
  intros H. destruct H as [d n al a Hd Hn Hal Ha|d n al a s Hd Hn Hal Ha Hs|d n a Hd Hn Ha|d s tc Hd Hs Htc];
    cbn [toks_selection]; try discriminate.
  - destruct Hn. destruct Hal as [|an Han]; cbn [app toks_name]; [discriminate|].
    intros E. apply app_eq_nil in E as [E _]. apply app_eq_nil in E as [_ E]. discriminate.
  - destruct Hn. destruct Hal as [|an Han]; cbn [app toks_name]; [discriminate|].
    intros E. apply app_eq_nil in E as [E _]. apply app_eq_nil in E as [_ E]. discriminate.
Qed.

Lemma G_selection_all :
  (forall s, wf_selection_set xfa s -> lex_ok s -> G (pp_doc s) (toks_selection_set s)) /\
  (forall l, wf_selections xfa l -> Forall lex_ok l -> Forall2 G (map pp_doc l) (map toks_selection l)) /\
  (forall x, wf_selection xfa x -> lex_ok x -> G (pp_doc x) (toks_selection x)).
Proof.
  apply wf_selection_mutind.
  - (* selection set *)
    intros x l Hx IHx Hl IHl [_ [Hok _]]. apply all_ok in Hok. inversion Hok; subst.
    rewrite toks_selection_set_unfold.
    change (pp_doc (Nd KSelectionSet [AList (x :: l)])) with (block (map pp_doc (x :: l))).
    apply G_block.
    + cbn [map]. constructor; [apply IHx; assumption|apply IHl; assumption].
    + cbn [map concat]. intros E. apply app_eq_nil in E as [E _]. exact (toks_selection_ne x Hx E).
  - constructor.
  - intros x l _ IHx _ IHl Hok. inversion Hok; subst. constructor; [apply IHx; assumption|apply IHl; assumption].
  - (* field without selection set *)
    intros d n al a Hd Hn Hal Ha [_ [Hd' [Hn' [Hal' [Ha' _]]]]].
    rewrite pp_doc_eq. cbn [map leave]. cbv zeta. cbn [toks_selection].
    destruct (G_alias al Hal Hal') as [GA CA]. destruct (G_sp_dirs false d Hd Hd') as [GD SD].
    change (pd (pa ANone)) with (@nil item). change (wrap [sp] [] []) with (@nil item).
    eapply G_eq.
    { apply G_join3; [|exact GD|apply G_nil|exact SD|apply sokP_nil].
      apply (G_wlaa (wf_argument false) toks_argument (G_argument false) (toks_argument_ne false)); try assumption.
      apply G_join2; [exact GA|apply G_name; assumption|left; exact CA]. }
    rewrite <- !app_assoc. reflexivity.
  - (* field with selection set *)
    intros d n al a s Hd Hn Hal Ha Hs IHs [_ [Hd' [Hn' [Hal' [Ha' [Hs' _]]]]]].
    rewrite pp_doc_eq. cbn [map leave]. cbv zeta. cbn [toks_selection].
    destruct (G_alias al Hal Hal') as [GA CA]. destruct (G_sp_dirs false d Hd Hd') as [GD SD].
    cbn [pa pd].
    eapply G_eq.
    { apply G_join3; [|exact GD| |exact SD|apply sokP_wrap; lit].
      - apply (G_wlaa (wf_argument false) toks_argument (G_argument false) (toks_argument_ne false)); try assumption.
        apply G_join2; [exact GA|apply G_name; assumption|left; exact CA].
      - specialize (IHs Hs').
        assert (N : toks_selection_set s <> []) by (destruct Hs; discriminate).
        rewrite wrap_true by (eapply G_truthy; eauto). rewrite app_nil_r.
        exact (G_app_l [sp] (pp_doc s) [] (toks_selection_set s) ltac:(lit) ltac:(lit) IHs). }
    cbn [app]. rewrite <- !app_assoc. reflexivity.
  - (* fragment spread *)
    intros d n a Hd Hn Ha [_ [Hd' [Hn' [Ha' _]]]].
    rewrite pp_doc_eq. cbn [map leave pa pd]. cbn [toks_selection].
    destruct (G_sp_dirs false d Hd Hd') as [GD SD].
    change (pt K_SPREAD :: toks_name n ++ toks_arguments a ++ toks_directives d)
      with (([pt K_SPREAD] ++ toks_name n) ++ toks_arguments a ++ toks_directives d).
    rewrite app_assoc. apply G_app_r; [|exact GD|exact SD].
    apply G_spread_args; [exact Ha|exact Ha'|].
    apply (G_app_l [p_spread] _ [pt K_SPREAD]); [lit|lit|]. apply G_name; [apply fragment_name_wf, Hn|exact Hn'].
  - (* inline fragment *)
    intros d s tc Hd Hs IHs Htc [_ [Hd' [Hs' [Htc' _]]]].
    rewrite pp_doc_eq. cbn [map leave pa pd]. cbn [toks_selection].
    replace (pt K_SPREAD :: match tc with ANode t => nm s_on :: toks_type t | _ => [] end ++
             toks_directives d ++ toks_selection_set s)
      with (concat [[pt K_SPREAD]; match tc with ANode t => nm s_on :: toks_type t | _ => [] end;
                    toks_directives d; toks_selection_set s])
      by (cbn [concat app]; rewrite app_nil_r; reflexivity).
    apply G_join_gap; [lit|lit|lit|]. constructor; [lit|]. constructor.
    { destruct Htc as [|t Ht]; [apply G_nil|]. cbn [pa pd].
      eapply G_eq.
      - apply (G_wrap (kw s_on ++ [sp]) (pp_doc t) [] [nm s_on] (toks_type t) []); try lit.
        + apply G_named_type; assumption.
        + apply toks_named_type_ne, Ht.
      - cbn [app]. rewrite app_nil_r. reflexivity. }
    constructor; [apply (G_dirs false); assumption|]. constructor; [apply IHs, Hs'|constructor].
Qed.
End Executable.

(* ---- chains of concatenations ---- *)
Ltac sok :=
  first [ apply sokP_nil
        | apply ssokP_sokP, ssokb_ok; reflexivity
        | apply ssokP_sokP, ssokP_app, ssokb_ok; reflexivity
        | apply sokP_wrap; apply ssokb_ok; reflexivity
        | assumption
        | apply sokP_app; [sok|sok] ].
Ltac gl := eapply G_app_l; [lit|lit|].
Ltac gr := eapply G_app_r; [ | |sok].

Lemma G_descr d : wf_description d -> attr_ok d ->
  G (descr (pa d)) (toks_description d) /\ closedP (descr (pa d)).
Proof.
  intros [|n Hn] Hok; [split; [apply G_nil|apply closedP_nil]|].
  unfold descr. cbn [pa pd toks_description toks_opt].
  assert (Hv : G (pp_doc n) (toks_value n)).
  { destruct Hn as [v b]. apply (proj1 (G_value_all true)); [constructor|exact Hok]. }
  assert (N : toks_value n <> []) by (destruct Hn; discriminate).
  split.
  - eapply G_eq; [apply (G_wrap [] (pp_doc n) [nl] [] (toks_value n) []); try lit; assumption|].
    cbn [app]. apply app_nil_r.
  - apply closedP_wrap; [lit|apply Hv|lit|lit].
Qed.

Lemma toks_description_ne d : wf_description d -> d <> ANone -> toks_description d <> [].
Proof. intros [|n [v b]] H; [congruence|discriminate]. Qed.

(* wrap(" = ", default_value) and wrap("= ", default_value) *)
Lemma G_default1 dv : wf_opt (wf_value true) dv -> attr_ok dv ->
  G (wrap [sp; p_equals; sp] (pd (pa dv)) []) (toks_default dv).
Proof.
  intros [|v Hv] Hok; [apply G_nil|]. cbn [pa pd toks_default].
  eapply G_eq; [apply (G_wrap [sp; p_equals; sp] (pp_doc v) [] [pt K_EQUALS] (toks_value v) []); try lit|].
  - apply (proj1 (G_value_all true)); assumption.
  - eapply toks_value_ne; eauto.
  - cbn [app]. rewrite app_nil_r. reflexivity.
Qed.
Lemma G_default2 dv : wf_opt (wf_value true) dv -> attr_ok dv ->
  G (wrap [p_equals; sp] (pd (pa dv)) []) (toks_default dv).
Proof.
  intros [|v Hv] Hok; [apply G_nil|]. cbn [pa pd toks_default].
  eapply G_eq; [apply (G_wrap [p_equals; sp] (pp_doc v) [] [pt K_EQUALS] (toks_value v) []); try lit|].
  - apply (proj1 (G_value_all true)); assumption.
  - eapply toks_value_ne; eauto.
  - cbn [app]. rewrite app_nil_r. reflexivity.
Qed.

Lemma G_variable v : wf_variable v -> lex_ok v -> G (pp_doc v) (toks_value v).
Proof. intros [n Hn] Hok. apply (proj1 (G_value_all false)); [constructor; [reflexivity|exact Hn]|exact Hok]. Qed.

Lemma G_variable_definition v : wf_variable_definition v -> lex_ok v ->
  G (pp_doc v) (toks_variable_definition v).
Proof.
  intros [d var t dv ds Hd Hvar Ht Hdv Hds] [_ [Hd' [Hvar' [Ht' [Hdv' [Hds' _]]]]]].
  rewrite pp_doc_eq. cbn [map leave pa pd]. cbn [toks_variable_definition].
  destruct (G_descr d Hd Hd') as [GD CD]. destruct (G_sp_dirs true ds Hds Hds') as [GS SS].
  eapply G_eq.
  { eapply G_app_l; [exact GD|exact CD|]. gr; [apply G_variable; assumption|].
    gl. gr; [apply G_type; assumption|]. gr; [apply G_default1; assumption|exact GS]. }
  cbn [app]. rewrite <- ?app_assoc. reflexivity.
Qed.
Lemma toks_variable_definition_ne v : wf_variable_definition v -> toks_variable_definition v <> [].
Proof.
  intros [d var t dv ds Hd [n Hn] Ht Hdv Hds]. cbn [toks_variable_definition toks_value].
  intros E. apply app_eq_nil in E as [_ E]. discriminate.
Qed.

Ltac toks_eq := repeat progress (cbn [app]; rewrite <- ?app_assoc); rewrite ?app_nil_r; reflexivity.

(* a text that is a good rendering determines its tokens *)
Lemma G_tokens_of_text d t ts : G d t -> lex (flat d) = Ok ts ->
  map tok_sig (significant ts) = t ++ [(K_EOF, [])].
Proof.
  intros (Hv & Ha & <-) E. destruct (lex_items d Hv (Ha [] I)) as (ts' & E' & H).
  rewrite E in E'. inversion E'; subst. exact H.
Qed.

Lemma is_shorthand_inv d n vs ds o : is_shorthand d n vs ds o = true ->
  d = ANone /\ n = ANone /\ vs = ANone /\ ds = ANone /\ o = 0.
Proof.
  destruct d, n, vs, ds; cbn; try discriminate. intros H. apply N.eqb_eq in H. auto.
Qed.

Lemma op_name_is_name o : wf_operation_code o -> is_name (op_name o) = true.
Proof. intros [->|[->| ->]]; reflexivity. Qed.

Section Executable2.
Variable xfa : bool.

Lemma toks_selection_set_ne s : wf_selection_set xfa s -> toks_selection_set s <> [].
Proof. destruct 1. discriminate. Qed.

Lemma G_operation x : wf_operation xfa x -> lex_ok x -> G (pp_doc x) (toks_operation x).
Proof.
  intros [s d n vs ds o Hs Hd Hn Hvs Hds Ho] [_ [Hs' [Hd' [Hn' [Hvs' [Hds' _]]]]]].
  rewrite pp_doc_eq. cbn [map leave pa pd]. cbv zeta.
  pose proof (proj1 (G_selection_all xfa) s Hs Hs') as GS.
  destruct (G_descr d Hd Hd') as [GD CD].
  set (var_defs := if has_multiline_items (pl (pa vs))
                   then wrap [p_lparen; nl] (join [nl] (pl (pa vs))) [nl; p_rparen]
                   else wrap [p_lparen] (join comma_sp (pl (pa vs))) [p_rparen]).
  assert (GV : G var_defs (toks_variable_definitions vs)).
  { apply (G_var_defs wf_variable_definition toks_variable_definition G_variable_definition
                      toks_variable_definition_ne); assumption. }
  assert (SV : sokP var_defs) by (unfold var_defs; destruct (has_multiline_items _); sok).
  set (prefix := descr (pa d) ++ join [sp] [kw (op_text o); join [] [pd (pa n); var_defs]; dirs (pa ds)]).
  assert (GP : G prefix (toks_description d ++ nm (op_name o) :: toks_opt toks_name n ++
                         toks_variable_definitions vs ++ toks_directives ds)).
  { unfold prefix. eapply G_eq.
    - eapply G_app_l; [exact GD|exact CD|]. apply G_join_gap; [lit|lit|lit|].
      constructor; [apply G_kw, op_name_is_name, Ho|].
      constructor; [apply G_join2; [apply (G_opt wf_name toks_name n G_name); assumption|exact GV|right; exact SV]|].
      constructor; [apply (G_dirs false); assumption|constructor].
    - cbn [concat]. toks_eq. }
  cbn [toks_operation].
  destruct (is_shorthand d n vs ds o) eqn:Esh.
  - apply is_shorthand_inv in Esh as (-> & -> & -> & -> & ->). exact GS.
  - assert (Eq : seqb (flat prefix) s_query = false).
    { destruct (seqb (flat prefix) s_query) eqn:E; [|reflexivity]. exfalso.
      apply nat_list_eqb_eq in E.
      assert (EL : lex (flat prefix) = lex s_query) by (rewrite E; reflexivity).
      pose proof (G_tokens_of_text _ _ _ GP EL) as HT. cbn in HT.
      (* the tokens of the prefix are just the name query *)
      assert (Hd0 : toks_description d = []).
      { destruct (toks_description d) as [|t0 r0] eqn:Et; [reflexivity|]. exfalso.
        cbn [app] in HT. inversion HT as [[H1 H2]].
        destruct Hd as [|m [v b]]; [discriminate|]. cbn in Et. inversion Et; subst t0 r0.
        destruct b; discriminate. }
      rewrite Hd0 in HT. cbn [app] in HT. inversion HT as [[H1 H2]].
      assert (o = 0).
      { destruct Ho as [->|[->| ->]]; [reflexivity|discriminate..]. }
      subst o.
      assert (Hn0 : n = ANone).
      { destruct Hn as [|m [v]]; [reflexivity|]. cbn in H2. discriminate. }
      subst n. cbn [toks_opt app] in H2.
      assert (Hv0 : vs = ANone).
      { destruct Hvs as [|y l _ _]; [reflexivity|]. cbn in H2. discriminate. }
      subst vs. cbn [toks_variable_definitions toks_block app] in H2.
      assert (Hs0 : ds = ANone).
      { destruct Hds as [|y l Hy _]; [reflexivity|]. destruct Hy. cbn in H2. discriminate. }
      subst ds.
      assert (d = ANone).
      { destruct Hd as [|m [v b]]; [reflexivity|]. cbn in Hd0. discriminate. }
      subst d. cbn in Esh. discriminate. }
    rewrite Eq. eapply G_eq.
    + rewrite <- app_assoc. gr; [exact GP|]. gl. exact GS.
    + toks_eq.
Qed.

Lemma G_fragment_definition x : wf_fragment_definition xfa x -> lex_ok x ->
  G (pp_doc x) (toks_fragment_definition x).
Proof.
  intros [s d n vs ds tc Hs Hd Hn Hvs Hds Htc] [_ [Hs' [Hd' [Hn' [Hvs' [Hds' [Htc' _]]]]]]].
  rewrite pp_doc_eq. cbn [map leave pa pd]. cbn [toks_fragment_definition].
  pose proof (proj1 (G_selection_all xfa) s Hs Hs') as GS.
  destruct (G_descr d Hd Hd') as [GD CD].
  assert (GV : G (wrap [p_lparen] (join comma_sp (pl (pa vs))) [p_rparen]) (toks_variable_definitions vs)).
  { destruct xfa.
    - apply (G_parens1 wf_variable_definition toks_variable_definition G_variable_definition
                       toks_variable_definition_ne); assumption.
    - subst vs. apply G_nil. }
  assert (GDs : G (wrap [] (dirs (pa ds)) [sp]) (toks_directives ds) /\ closedP (wrap [] (dirs (pa ds)) [sp])).
  { pose proof (G_dirs false ds Hds Hds') as HD. split.
    - destruct (truthy (dirs (pa ds))) eqn:E.
      + rewrite wrap_true by exact E. cbn [app]. eapply G_eq; [gr; [exact HD|lit]|toks_eq].
      + rewrite wrap_false by exact E. rewrite (G_falsy _ _ HD E). apply G_nil.
    - apply closedP_wrap; [lit|apply HD|lit|lit]. }
  destruct GDs as [GDs CDs].
  eapply G_eq.
  { eapply G_app_l; [exact GD|exact CD|].
    eapply G_app_r; [apply G_kw; reflexivity| |sok].
    gl. gr; [apply G_name; [apply fragment_name_wf, Hn|exact Hn']|].
    gr; [exact GV|]. gl.
    eapply G_app_r; [apply G_kw; reflexivity| |sok].
    gl. gr; [apply G_named_type; assumption|]. gl.
    eapply G_app_l; [exact GDs|exact CDs|exact GS]. }
  toks_eq.
Qed.
End Executable2.

(* ================================================================== *)
(* 5. type system definitions and extensions                           *)
(* ================================================================== *)

Lemma intercalate_sep sk f (l : list node) :
  intercalate [pt sk] (map f l) = toks_sep sk f l.
Proof.
  induction l as [|x r IH]; [reflexivity|]. destruct r as [|y r']; [reflexivity|].
  cbn [map intercalate toks_sep] in *. rewrite IH. reflexivity.
Qed.

Lemma G_def d parts tl : wf_description d -> attr_ok d -> Forall2 G parts tl ->
  G (descr (pa d) ++ join [sp] parts) (toks_description d ++ concat tl).
Proof.
  intros Hd Hd' H. destruct (G_descr d Hd Hd') as [GD CD].
  eapply G_app_l; [exact GD|exact CD|]. apply G_join_gap; [lit|lit|lit|exact H].
Qed.

Lemma G_delimited (start : doc) (ts : list sigtok) (sep : doc) (sk : N) a :
  G start ts -> closedP start -> G sep [pt sk] -> closedP sep -> ssokP sep ->
  wf_nelist wf_named_type a -> attr_ok a ->
  G (wrap start (join sep (pl (pa a))) []) (toks_delimited ts sk toks_type a).
Proof.
  intros Hs Hc Hsep Hsc Hss W Hok. pose proof (nelist_parts _ _ a G_named_type W Hok) as HP.
  destruct W as [|x l Hx Hl]; [apply G_nil|]. cbn [alist] in HP. cbn [toks_delimited].
  rewrite <- intercalate_sep.
  assert (N : Forall (fun t => t <> []) (map toks_type (x :: l))).
  { apply Forall_forall. intros t Ht. apply in_map_iff in Ht as (y & <- & Hy).
    apply toks_named_type_ne. destruct Hy as [<-|Hy]; [exact Hx|]. rewrite Forall_forall in Hl. apply Hl, Hy. }
  pose proof (G_join_tok sep [pt sk] _ _ Hsep Hsc Hss HP N) as HJ.
  eapply G_eq.
  - apply (G_wrap start _ [] ts (intercalate [pt sk] (map toks_type (x :: l))) []); try lit; try eassumption.
    cbn [map intercalate]. destruct l; cbn [map intercalate]; [apply toks_named_type_ne, Hx|].
    intros E. apply app_eq_nil in E as [E _]. exact (toks_named_type_ne x Hx E).
  - rewrite app_nil_r. reflexivity.
Qed.

Lemma G_implements i : wf_nelist wf_named_type i -> attr_ok i -> G (implements_of (pa i)) (toks_implements i).
Proof.
  intros W Hok. unfold implements_of, toks_implements.
  apply (G_delimited (kw s_implements ++ [sp]) [nm s_implements] [sp; p_amp; sp] K_AMP); try lit; assumption.
Qed.
Lemma G_union_of ts : wf_nelist wf_named_type ts -> attr_ok ts -> G (union_of (pa ts)) (toks_union_types ts).
Proof.
  intros W Hok. unfold union_of, toks_union_types.
  apply (G_delimited [p_equals; sp] [pt K_EQUALS] [sp; p_pipe; sp] K_PIPE); try lit; assumption.
Qed.

Ltac f2 := repeat (first [apply Forall2_nil | apply Forall2_cons]).

Lemma G_operation_type_definition x : wf_operation_type_definition x -> lex_ok x ->
  G (pp_doc x) (toks_operation_type_definition x).
Proof.
  intros [o t Ho Ht] [_ [_ [Ht' _]]].
  rewrite pp_doc_eq. cbn [map leave pa pd]. cbn [toks_operation_type_definition].
  eapply G_eq.
  - eapply G_app_r; [apply G_kw, op_name_is_name, Ho| |sok]. gl. apply G_named_type; assumption.
  - toks_eq.
Qed.
Lemma toks_otd_ne x : wf_operation_type_definition x -> toks_operation_type_definition x <> [].
Proof. intros [o t _ _]. discriminate. Qed.

Lemma G_input_value_definition x : wf_input_value_definition x -> lex_ok x ->
  G (pp_doc x) (toks_input_value_definition x).
Proof.
  intros [n t d dv ds Hn Ht Hd Hdv Hds] [_ [Hn' [Ht' [Hd' [Hdv' [Hds' _]]]]]].
  rewrite pp_doc_eq. cbn [map leave pa pd]. cbn [toks_input_value_definition].
  eapply G_eq.
  - apply G_def; [exact Hd|exact Hd'|]. f2.
    + gr; [apply G_name; assumption|]. gl. apply G_type; assumption.
    + apply G_default2; assumption.
    + apply (G_dirs true); assumption.
  - cbn [concat]. toks_eq.
Qed.
Lemma toks_ivd_ne x : wf_input_value_definition x -> toks_input_value_definition x <> [].
Proof.
  intros [n t d dv ds [v] _ _ _ _]. cbn [toks_input_value_definition toks_name].
  intros E. apply app_eq_nil in E as [_ E]. discriminate.
Qed.

Lemma sokP_def_args parts : sokP (def_args parts).
Proof. unfold def_args. destruct (has_multiline_items parts); sok. Qed.

Lemma G_field_definition x : wf_field_definition x -> lex_ok x -> G (pp_doc x) (toks_field_definition x).
Proof.
  intros [n t d a ds Hn Ht Hd Ha Hds] [_ [Hn' [Ht' [Hd' [Ha' [Hds' _]]]]]].
  rewrite pp_doc_eq. cbn [map leave pa pd]. cbn [toks_field_definition].
  destruct (G_descr d Hd Hd') as [GD CD]. destruct (G_sp_dirs true ds Hds Hds') as [GS SS].
  pose proof (sokP_def_args (pl (pa a))) as SA.
  eapply G_eq.
  - eapply G_app_l; [exact GD|exact CD|]. gr; [apply G_name; assumption|].
    gr; [apply (G_def_args wf_input_value_definition toks_input_value_definition
                           G_input_value_definition toks_ivd_ne); assumption|].
    gl. gr; [apply G_type; assumption|exact GS].
  - toks_eq.
Qed.
Lemma toks_fd_ne x : wf_field_definition x -> toks_field_definition x <> [].
Proof.
  intros [n t d a ds [v] _ _ _ _]. cbn [toks_field_definition toks_name].
  intros E. apply app_eq_nil in E as [_ E]. discriminate.
Qed.

Lemma enum_value_name_wf n : wf_enum_value_name n -> wf_name n.
Proof. intros [v _]. constructor. Qed.

Lemma G_enum_value_definition x : wf_enum_value_definition x -> lex_ok x ->
  G (pp_doc x) (toks_enum_value_definition x).
Proof.
  intros [n d ds Hn Hd Hds] [_ [Hn' [Hd' [Hds' _]]]].
  rewrite pp_doc_eq. cbn [map leave pa pd]. cbn [toks_enum_value_definition].
  eapply G_eq.
  - apply G_def; [exact Hd|exact Hd'|]. f2.
    + apply G_name; [apply enum_value_name_wf, Hn|exact Hn'].
    + apply (G_dirs true); assumption.
  - cbn [concat]. toks_eq.
Qed.
Lemma toks_evd_ne x : wf_enum_value_definition x -> toks_enum_value_definition x <> [].
Proof.
  intros [n d ds [v _] _ _]. cbn [toks_enum_value_definition toks_name].
  intros E. apply app_eq_nil in E as [_ E]. discriminate.
Qed.

Definition G_fields := G_block_attr wf_field_definition toks_field_definition G_field_definition toks_fd_ne.
Definition G_input_fields :=
  G_block_attr wf_input_value_definition toks_input_value_definition G_input_value_definition toks_ivd_ne.
Definition G_enum_values :=
  G_block_attr wf_enum_value_definition toks_enum_value_definition G_enum_value_definition toks_evd_ne.
Definition G_operation_types :=
  G_block_attr wf_operation_type_definition toks_operation_type_definition G_operation_type_definition toks_otd_ne.

Lemma G_location x : wf_location x -> lex_ok x -> G (pp_doc x) (toks_name x).
Proof. intros [v _] Hok. apply G_name; [constructor|exact Hok]. Qed.

Section TypeSystem.
Variable xdd : bool.

Lemma G_type_system x : wf_type_system_definition xdd x -> lex_ok x -> G (pp_doc x) (toks_type_system x).
Proof.
  intros W. destruct W as [d ds ots Hd Hds Hots|n d ds Hn Hd Hds|n d ds i f Hn Hd Hds Hi Hf
                          |n d ds i f Hn Hd Hds Hi Hf|n d ds ts Hn Hd Hds Hts|n d ds vs Hn Hd Hds Hvs
                          |n d ds f Hn Hd Hds Hf|n ls d a ds r Hn Hls Hd Ha Hds].
  - intros [_ [Hd' [Hds' [Hots' _]]]]. rewrite pp_doc_eq. cbn [map leave pa pd]. cbn [toks_type_system].
    eapply G_eq.
    { apply G_def; [exact Hd|exact Hd'|]. f2.
      + apply G_kw. reflexivity.
      + apply (G_dirs true); assumption.
      + apply G_operation_types; [apply list1_nelist, Hots|exact Hots']. }
    cbn [concat]. toks_eq.
  - intros [_ [Hn' [Hd' [Hds' _]]]]. rewrite pp_doc_eq. cbn [map leave pa pd]. cbn [toks_type_system].
    eapply G_eq.
    { apply G_def; [exact Hd|exact Hd'|]. f2.
      + apply G_kw. reflexivity.
      + apply G_name; assumption.
      + apply (G_dirs true); assumption. }
    cbn [concat]. toks_eq.
  - intros [_ [Hn' [Hd' [Hds' [Hi' [Hf' _]]]]]]. rewrite pp_doc_eq. cbn [map leave pa pd]. cbn [toks_type_system].
    eapply G_eq.
    { apply G_def; [exact Hd|exact Hd'|]. f2.
      + apply G_kw. reflexivity.
      + apply G_name; assumption.
      + apply G_implements; assumption.
      + apply (G_dirs true); assumption.
      + apply G_fields; assumption. }
    cbn [concat]. toks_eq.
  - intros [_ [Hn' [Hd' [Hds' [Hi' [Hf' _]]]]]]. rewrite pp_doc_eq. cbn [map leave pa pd]. cbn [toks_type_system].
    eapply G_eq.
    { apply G_def; [exact Hd|exact Hd'|]. f2.
      + apply G_kw. reflexivity.
      + apply G_name; assumption.
      + apply G_implements; assumption.
      + apply (G_dirs true); assumption.
      + apply G_fields; assumption. }
    cbn [concat]. toks_eq.
  - intros [_ [Hn' [Hd' [Hds' [Hts' _]]]]]. rewrite pp_doc_eq. cbn [map leave pa pd]. cbn [toks_type_system].
    eapply G_eq.
    { apply G_def; [exact Hd|exact Hd'|]. f2.
      + apply G_kw. reflexivity.
      + apply G_name; assumption.
      + apply (G_dirs true); assumption.
      + apply G_union_of; assumption. }
    cbn [concat]. toks_eq.
  - intros [_ [Hn' [Hd' [Hds' [Hvs' _]]]]]. rewrite pp_doc_eq. cbn [map leave pa pd]. cbn [toks_type_system].
    eapply G_eq.
    { apply G_def; [exact Hd|exact Hd'|]. f2.
      + apply G_kw. reflexivity.
      + apply G_name; assumption.
      + apply (G_dirs true); assumption.
      + apply G_enum_values; assumption. }
    cbn [concat]. toks_eq.
  - intros [_ [Hn' [Hd' [Hds' [Hf' _]]]]]. rewrite pp_doc_eq. cbn [map leave pa pd]. cbn [toks_type_system].
    eapply G_eq.
    { apply G_def; [exact Hd|exact Hd'|]. f2.
      + apply G_kw. reflexivity.
      + apply G_name; assumption.
      + apply (G_dirs true); assumption.
      + apply G_input_fields; assumption. }
    cbn [concat]. toks_eq.
  - (* directive definition *)
    intros [_ [Hn' [Hls' [Hd' [Ha' [Hds' _]]]]]]. destruct Hls as [l0 ls Hl0 Hls].
    rewrite pp_doc_eq. cbn [map leave pa pd pl]. cbn [toks_type_system].
    destruct (G_descr d Hd Hd') as [GD CD].
    assert (GDs : G (wrap [sp] (dirs (pa ds)) []) (toks_directives ds) /\ sokP (wrap [sp] (dirs (pa ds)) [])).
    { destruct xdd; [apply (G_sp_dirs true); assumption|]. subst ds. split; [apply G_nil|sok]. }
    destruct GDs as [GS SS].
    pose proof (sokP_def_args (pl (pa a))) as SA.
    assert (GL : G (join [sp; p_pipe; sp] (map pp_doc (l0 :: ls))) (toks_sep K_PIPE toks_name (l0 :: ls))).
    { rewrite <- intercalate_sep. apply all_ok in Hls'.
      apply G_join_tok; [lit|lit|lit| |].
      - apply (Forall2_map_G wf_location toks_name (l0 :: ls) G_location); [constructor; assumption|exact Hls'].
      - apply Forall_forall. intros t Ht. apply in_map_iff in Ht as (y & <- & Hy).
        assert (Wy : wf_location y).
        { destruct Hy as [<-|Hy]; [exact Hl0|]. rewrite Forall_forall in Hls. apply Hls, Hy. }
        destruct Wy. discriminate. }
    assert (SR : sokP (if r then sp :: kw s_repeatable else [])) by (destruct r; sok).
    assert (GR : G (if r then sp :: kw s_repeatable else []) (if r then [nm s_repeatable] else [])).
    { destruct r; [apply (G_lit (sp :: kw s_repeatable)); reflexivity|apply G_nil]. }
    eapply G_eq.
    + eapply G_app_l; [exact GD|exact CD|].
      eapply G_app_r; [apply G_kw; reflexivity| |sok].
      gl. gr; [apply G_name; assumption|].
      gr; [apply (G_def_args wf_input_value_definition toks_input_value_definition
                             G_input_value_definition toks_ivd_ne); assumption|].
      gr; [exact GS|]. gr; [exact GR|]. gl.
      eapply G_app_r; [apply G_kw; reflexivity| |sok]. gl. exact GL.
    + toks_eq.
Qed.
End TypeSystem.

Section Extensions.
Variable xdd : bool.

Lemma G_ext_head s : is_name s = true -> G (kw s_extend ++ [sp] ++ kw s) [nm s_extend; nm s].
Proof.
  intros H. eapply G_eq.
  - eapply G_app_r; [apply G_kw; reflexivity| |sok]. gl. apply G_kw, H.
  - reflexivity.
Qed.

Lemma G_extension x : wf_extension xdd x -> lex_ok x -> G (pp_doc x) (toks_extension x).
Proof.
  intros W. destruct W as [ds ots Hds Hots _|n ds Hn Hds _|n ds i f Hn Hds Hi Hf _|n ds i f Hn Hds Hi Hf _
                          |n ds ts Hn Hds Hts _|n ds vs Hn Hds Hvs _|n ds f Hn Hds Hf _|n ds _ Hn Hds _].
  - intros [_ [Hds' [Hots' _]]]. rewrite pp_doc_eq. cbn [map leave pa pd]. cbn [toks_extension].
    eapply G_eq.
    { apply G_join_gap; [lit|lit|lit|]. f2.
      + apply G_ext_head. reflexivity.
      + apply (G_dirs true); assumption.
      + apply G_operation_types; assumption. }
    cbn [concat]. toks_eq.
  - intros [_ [Hn' [Hds' _]]]. rewrite pp_doc_eq. cbn [map leave pa pd]. cbn [toks_extension].
    eapply G_eq.
    { apply G_join_gap; [lit|lit|lit|]. f2.
      + apply G_ext_head. reflexivity.
      + apply G_name; assumption.
      + apply (G_dirs true); assumption. }
    cbn [concat]. toks_eq.
  - intros [_ [Hn' [Hds' [Hi' [Hf' _]]]]]. rewrite pp_doc_eq. cbn [map leave pa pd]. cbn [toks_extension].
    eapply G_eq.
    { apply G_join_gap; [lit|lit|lit|]. f2.
      + apply G_ext_head. reflexivity.
      + apply G_name; assumption.
      + apply G_implements; assumption.
      + apply (G_dirs true); assumption.
      + apply G_fields; assumption. }
    cbn [concat]. toks_eq.
  - intros [_ [Hn' [Hds' [Hi' [Hf' _]]]]]. rewrite pp_doc_eq. cbn [map leave pa pd]. cbn [toks_extension].
    eapply G_eq.
    { apply G_join_gap; [lit|lit|lit|]. f2.
      + apply G_ext_head. reflexivity.
      + apply G_name; assumption.
      + apply G_implements; assumption.
      + apply (G_dirs true); assumption.
      + apply G_fields; assumption. }
    cbn [concat]. toks_eq.
  - intros [_ [Hn' [Hds' [Hts' _]]]]. rewrite pp_doc_eq. cbn [map leave pa pd]. cbn [toks_extension].
    eapply G_eq.
    { apply G_join_gap; [lit|lit|lit|]. f2.
      + apply G_ext_head. reflexivity.
      + apply G_name; assumption.
      + apply (G_dirs true); assumption.
      + apply G_union_of; assumption. }
    cbn [concat]. toks_eq.
  - intros [_ [Hn' [Hds' [Hvs' _]]]]. rewrite pp_doc_eq. cbn [map leave pa pd]. cbn [toks_extension].
    eapply G_eq.
    { apply G_join_gap; [lit|lit|lit|]. f2.
      + apply G_ext_head. reflexivity.
      + apply G_name; assumption.
      + apply (G_dirs true); assumption.
      + apply G_enum_values; assumption. }
    cbn [concat]. toks_eq.
  - intros [_ [Hn' [Hds' [Hf' _]]]]. rewrite pp_doc_eq. cbn [map leave pa pd]. cbn [toks_extension].
    eapply G_eq.
    { apply G_join_gap; [lit|lit|lit|]. f2.
      + apply G_ext_head. reflexivity.
      + apply G_name; assumption.
      + apply (G_dirs true); assumption.
      + apply G_input_fields; assumption. }
    cbn [concat]. toks_eq.
  - intros [_ [Hn' [Hds' _]]]. rewrite pp_doc_eq. cbn [map leave pa pd]. cbn [toks_extension].
    eapply G_eq.
    { apply G_join_gap; [lit|lit|lit|]. f2.
      + eapply G_app_r; [apply G_kw; reflexivity| |sok]. gl.
        eapply G_app_r; [apply G_kw; reflexivity| |sok]. gl. apply G_name; assumption.
      + apply (G_dirs true); assumption. }
    cbn [concat]. toks_eq.
Qed.
End Extensions.

Lemma G_definition xfa xdd x : wf_definition xfa xdd x -> lex_ok x -> G (pp_doc x) (toks_definition x).
Proof.
  intros [y W|y W|y W|y W] Hok.
  - replace (toks_definition y) with (toks_operation y) by (destruct W; reflexivity). apply (G_operation xfa); assumption.
  - replace (toks_definition y) with (toks_fragment_definition y) by (destruct W; reflexivity).
    apply (G_fragment_definition xfa); assumption.
  - replace (toks_definition y) with (toks_type_system y) by (destruct W; reflexivity).
    apply (G_type_system xdd); assumption.
  - replace (toks_definition y) with (toks_extension y) by (destruct W; reflexivity).
    apply (G_extension xdd); assumption.
Qed.

(* ================================================================== *)
(* 6. first and last character of a printed definition (leave_document) *)
(* ================================================================== *)

Lemma truthy_app a b : truthy (a ++ b) = truthy a || truthy b.
Proof. unfold truthy. rewrite flat_app. destruct (flat a); [reflexivity|reflexivity]. Qed.
Lemma truthy_app_r a b : truthy b = true -> truthy (a ++ b) = true.
Proof. intros H. rewrite truthy_app, H. apply orb_true_r. Qed.
Lemma truthy_app_l a b : truthy a = true -> truthy (a ++ b) = true.
Proof. intros H. rewrite truthy_app, H. reflexivity. Qed.

Lemma starts_app c a b : starts_with c (a ++ b) = if truthy a then starts_with c a else starts_with c b.
Proof. unfold starts_with, truthy. rewrite flat_app. destruct (flat a); reflexivity. Qed.

Lemma ends_app c a b : ends_with_char c (a ++ b) = if truthy b then ends_with_char c b else ends_with_char c a.
Proof.
  unfold ends_with_char, truthy. rewrite flat_app, rev_app_distr. destruct (flat b) as [|x t]; [reflexivity|].
  destruct (rev (x :: t)) eqn:E; [|reflexivity]. apply (f_equal (@length N)) in E.
  rewrite rev_length in E. discriminate.
Qed.
Lemma ends_app_r c a b : truthy b = true -> ends_with_char c (a ++ b) = ends_with_char c b.
Proof. intros H. rewrite ends_app, H. reflexivity. Qed.
Lemma ends_falsy c d : truthy d = false -> ends_with_char c d = false.
Proof. unfold ends_with_char. intros H. rewrite (truthy_false _ H). reflexivity. Qed.

(* the text does not end with a closing brace *)
Definition nb (d : doc) : Prop := ends_with_char 125 d = false.

Lemma nb_app a b : nb a -> nb b -> nb (a ++ b).
Proof. unfold nb. intros Ha Hb. rewrite ends_app. destruct (truthy b); assumption. Qed.
Lemma ends_app_nb a b : nb a -> ends_with_char 125 (a ++ b) = ends_with_char 125 b.
Proof.
  intros Ha. rewrite ends_app. destruct (truthy b) eqn:E; [reflexivity|]. rewrite (ends_falsy _ _ E). exact Ha.
Qed.
Lemma nb_nil : nb [].
Proof. reflexivity. Qed.

Lemma nb_join_ne sep ps : nb sep -> Forall nb ps -> nb (join_ne sep ps).
Proof.
  intros Hs. induction 1 as [|p r Hp _ IH]; [reflexivity|]. destruct r as [|q r']; [exact Hp|].
  change (join_ne sep (p :: q :: r')) with (p ++ sep ++ join_ne sep (q :: r')).
  apply nb_app; [exact Hp|]. apply nb_app; [exact Hs|exact IH].
Qed.
Lemma Forall_filter {X} (Q : X -> Prop) f l : Forall Q l -> Forall Q (filter f l).
Proof. induction 1; cbn; [constructor|]. destruct (f x); [constructor|]; assumption. Qed.
Lemma nb_join sep parts : nb sep -> Forall nb parts -> nb (join sep parts).
Proof. intros Hs H. apply nb_join_ne; [exact Hs|apply Forall_filter, H]. Qed.

Lemma ends_join_snoc sep parts p : nb sep -> Forall nb parts ->
  ends_with_char 125 (join sep (parts ++ [p])) = ends_with_char 125 p.
Proof.
  intros Hs Hp. unfold join. rewrite filter_app. cbn [filter]. destruct (truthy p) eqn:E.
  - pose proof (Forall_filter nb truthy parts Hp) as HF. induction HF as [|x r Hx _ IH]; [reflexivity|].
    cbn [app]. destruct (r ++ [p]) as [|q r'] eqn:Er; [destruct r; discriminate|].
    change (join_ne sep (x :: q :: r')) with (x ++ sep ++ join_ne sep (q :: r')).
    rewrite ends_app_nb by exact Hx. rewrite ends_app_nb by exact Hs. exact IH.
  - rewrite app_nil_r. rewrite (ends_falsy _ _ E). apply (nb_join sep parts Hs Hp).
Qed.

Lemma nb_wrap_stop start d stop : truthy stop = true -> nb stop -> nb (wrap start d stop).
Proof.
  intros Ht Hn. unfold wrap. destruct (truthy d); [|reflexivity]. unfold nb.
  rewrite ends_app_r by (apply truthy_app_r, Ht). rewrite ends_app_r by exact Ht. exact Hn.
Qed.
Lemma nb_wrap_nil start d : nb start -> nb d -> nb (wrap start d []).
Proof.
  intros Hs Hd. unfold wrap. destruct (truthy d); [|reflexivity]. rewrite app_nil_r. apply nb_app; assumption.
Qed.

Lemma name_chars v : is_name v = true -> Forall (fun c => is_name_continue c = true) v.
Proof.
  destruct v as [|c b]; [discriminate|]. cbn [is_name]. intros H. apply andb_true_iff in H as [Hc Hb].
  constructor.
  - unfold is_name_continue. unfold is_name_start in Hc. apply orb_true_iff in Hc as [Hc|Hc]; rewrite Hc;
      [reflexivity|apply orb_true_r].
  - apply Forall_forall. rewrite forallb_forall in Hb. exact Hb.
Qed.

Lemma nb_kw s : is_name s = true -> nb (kw s).
Proof.
  intros H. apply name_chars in H. unfold nb, ends_with_char, kw. cbn [flat flat_map item_text]. rewrite app_nil_r.
  destruct (rev s) as [|x t] eqn:E; [reflexivity|].
  assert (Hin : In x s) by (apply in_rev; rewrite E; left; reflexivity).
  rewrite Forall_forall in H. specialize (H x Hin).
  destruct (N.eqb_spec x 125) as [->|]; [discriminate|reflexivity].
Qed.
Lemma nb_name n : wf_name n -> lex_ok n -> nb (pp_doc n).
Proof. intros [v] [Hv _]. apply nb_kw, Hv. Qed.

Ltac nbl := first [reflexivity | apply nb_nil].

Lemma nb_named_type t : wf_named_type t -> lex_ok t -> nb (pp_doc t).
Proof.
  intros [n Hn] [_ [Hn' _]]. change (pp_doc (Nd KNamedType [ANode n])) with (pp_doc n).
  apply nb_name; assumption.
Qed.

Lemma nb_directive c d : wf_directive c d -> lex_ok d -> nb (pp_doc d).
Proof.
  intros [n a Hn Ha] [_ [Hn' _]].
  change (pp_doc (Nd KDirective [ANode n; a]))
    with ([p_at] ++ pp_doc n ++ wrap [p_lparen] (join comma_sp (pl (pa a))) [p_rparen]).
  apply nb_app; [reflexivity|]. apply nb_app; [apply nb_name; assumption|]. apply nb_wrap_stop; reflexivity.
Qed.

Lemma Forall_nb_map (Pn : node -> Prop) l :
  (forall x, Pn x -> lex_ok x -> nb (pp_doc x)) -> Forall Pn l -> Forall lex_ok l -> Forall nb (map pp_doc l).
Proof.
  intros H. induction 1 as [|x l Hx _ IH]; intros Hok; [constructor|]. inversion Hok; subst.
  constructor; [apply H; assumption|apply IH; assumption].
Qed.

Lemma nb_nelist (Pn : node -> Prop) a :
  (forall x, Pn x -> lex_ok x -> nb (pp_doc x)) -> wf_nelist Pn a -> attr_ok a -> Forall nb (pl (pa a)).
Proof.
  intros H W Hok. rewrite pl_pa. destruct W as [|x l Hx Hl]; [constructor|]. cbn [alist].
  apply all_ok in Hok. apply (Forall_nb_map Pn (x :: l) H); [constructor; assumption|exact Hok].
Qed.

Lemma nb_dirs c a : wf_directives c a -> attr_ok a -> nb (dirs (pa a)).
Proof. intros W Hok. apply nb_join; [reflexivity|]. apply (nb_nelist _ a (nb_directive c)); assumption. Qed.

Lemma nb_implements i : wf_nelist wf_named_type i -> attr_ok i -> nb (implements_of (pa i)).
Proof.
  intros W Hok. apply nb_wrap_nil; [reflexivity|]. apply nb_join; [reflexivity|].
  apply (nb_nelist _ i nb_named_type); assumption.
Qed.
Lemma nb_union_of ts : wf_nelist wf_named_type ts -> attr_ok ts -> nb (union_of (pa ts)).
Proof.
  intros W Hok. apply nb_wrap_nil; [reflexivity|]. apply nb_join; [reflexivity|].
  apply (nb_nelist _ ts nb_named_type); assumption.
Qed.

Lemma nb_descr d : nb (descr (pa d)).
Proof. apply nb_wrap_stop; reflexivity. Qed.

Lemma ends_block parts tl : Forall2 G parts tl -> concat tl <> [] ->
  ends_with_char 125 (block parts) = true /\ truthy (block parts) = true.
Proof.
  intros H Hne. pose proof (G_block parts tl H Hne) as GB.
  assert (T : truthy (block parts) = true) by (eapply G_truthy; [exact GB|discriminate]).
  split; [|exact T]. unfold block, wrap in *. destruct (truthy (indent (join [nl] parts))); [|discriminate].
  rewrite ends_app_r by (apply truthy_app_r; reflexivity). rewrite ends_app_r by reflexivity. reflexivity.
Qed.

Lemma ends_block_attr (Pn : node -> Prop) f :
  (forall x, Pn x -> lex_ok x -> G (pp_doc x) (f x)) -> (forall x, Pn x -> f x <> []) ->
  forall a, wf_nelist Pn a -> attr_ok a -> ends_with_char 125 (block (pl (pa a))) = is_block a.
Proof.
  intros HG Hne a W Hok. pose proof (nelist_parts Pn f a HG W Hok) as HP.
  destruct W as [|x l Hx Hl]; [reflexivity|]. cbn [alist is_block] in *.
  apply (ends_block _ _ HP). eapply concat_ne; eauto.
Qed.

Definition ends_fields := ends_block_attr wf_field_definition toks_field_definition G_field_definition toks_fd_ne.
Definition ends_input_fields :=
  ends_block_attr wf_input_value_definition toks_input_value_definition G_input_value_definition toks_ivd_ne.
Definition ends_enum_values :=
  ends_block_attr wf_enum_value_definition toks_enum_value_definition G_enum_value_definition toks_evd_ne.
Definition ends_operation_types :=
  ends_block_attr wf_operation_type_definition toks_operation_type_definition G_operation_type_definition
                  toks_otd_ne.

Lemma ends_selection_set xfa s : wf_selection_set xfa s -> lex_ok s ->
  ends_with_char 125 (pp_doc s) = true /\ truthy (pp_doc s) = true /\ starts_with 123 (pp_doc s) = true.
Proof.
  intros W Hok. pose proof (proj1 (G_selection_all xfa) s W Hok) as GS.
  destruct W as [x l Hx Hl]. destruct Hok as [_ [Hok _]]. apply all_ok in Hok.
  change (pp_doc (Nd KSelectionSet [AList (x :: l)])) with (block (map pp_doc (x :: l))) in *.
  assert (HP : Forall2 G (map pp_doc (x :: l)) (map toks_selection (x :: l))).
  { inversion Hok; subst. cbn [map]. constructor.
    - apply (proj2 (proj2 (G_selection_all xfa))); assumption.
    - apply (proj1 (proj2 (G_selection_all xfa))); assumption. }
  assert (N : concat (map toks_selection (x :: l)) <> []).
  { cbn [map concat]. intros E. apply app_eq_nil in E as [E _]. exact (toks_selection_ne xfa x Hx E). }
  destruct (ends_block _ _ HP N) as [E T]. split; [exact E|]. split; [exact T|].
  unfold block, wrap in *. destruct (truthy (indent (join [nl] (map pp_doc (x :: l))))); [reflexivity|discriminate].
Qed.

Ltac nbs :=
  repeat (first [apply Forall_nil | apply Forall_cons]);
  first [ reflexivity | apply nb_name; assumption | apply nb_implements; assumption
        | apply (nb_dirs true); assumption | apply (nb_dirs false); assumption
        | apply nb_union_of; assumption ].

Lemma nb_def_args parts : nb (def_args parts).
Proof. unfold def_args. destruct (has_multiline_items parts); apply nb_wrap_stop; reflexivity. Qed.

Lemma nb_location x : wf_location x -> lex_ok x -> nb (pp_doc x).
Proof. intros [v _] Hok. apply nb_name; [constructor|exact Hok]. Qed.

(* ---- the last character: "}" exactly for the definitions that end with a block ---- *)
Lemma ends_definition xfa xdd x : wf_definition xfa xdd x -> lex_ok x ->
  ends_with_char 125 (pp_doc x) = ends_with_block x.
Proof.
  intros [y W|y W|y W|y W] Hok.
  - (* operation *)
    destruct W as [s d n vs ds o Hs Hd Hn Hvs Hds Ho]. destruct Hok as [_ [Hs' _]].
    destruct (ends_selection_set xfa s Hs Hs') as (E & T & _).
    rewrite pp_doc_eq. cbn [map leave pa pd]. cbv zeta. rewrite ends_app_r by exact T. exact E.
  - destruct W as [s d n vs ds tc Hs Hd Hn Hvs Hds Htc]. destruct Hok as [_ [Hs' _]].
    destruct (ends_selection_set xfa s Hs Hs') as (E & T & _).
    rewrite pp_doc_eq. cbn [map leave pa pd].
    repeat (rewrite ends_app_r by (repeat apply truthy_app_r; exact T)). exact E.
  - destruct W as [d ds ots Hd Hds Hots|n d ds Hn Hd Hds|n d ds i f Hn Hd Hds Hi Hf
                  |n d ds i f Hn Hd Hds Hi Hf|n d ds ts Hn Hd Hds Hts|n d ds vs Hn Hd Hds Hvs
                  |n d ds f Hn Hd Hds Hf|n ls d a ds r Hn Hls Hd Ha Hds].
    + destruct Hok as [_ [Hd' [Hds' [Hots' _]]]]. rewrite pp_doc_eq. cbn [map leave pa pd]. cbn [ends_with_block].
      rewrite ends_app_nb by apply nb_descr.
      change [kw s_schema; dirs (pa ds); block (pl (pa ots))] with ([kw s_schema; dirs (pa ds)] ++ [block (pl (pa ots))]).
      rewrite ends_join_snoc; [|reflexivity|nbs]. apply ends_operation_types; [apply list1_nelist, Hots|exact Hots'].
    + destruct Hok as [_ [Hn' [Hd' [Hds' _]]]]. rewrite pp_doc_eq. cbn [map leave pa pd]. cbn [ends_with_block].
      rewrite ends_app_nb by apply nb_descr. apply nb_join; [reflexivity|nbs].
    + destruct Hok as [_ [Hn' [Hd' [Hds' [Hi' [Hf' _]]]]]]. rewrite pp_doc_eq. cbn [map leave pa pd].
      cbn [ends_with_block]. rewrite ends_app_nb by apply nb_descr.
      change [kw s_type; pp_doc n; implements_of (pa i); dirs (pa ds); block (pl (pa f))]
        with ([kw s_type; pp_doc n; implements_of (pa i); dirs (pa ds)] ++ [block (pl (pa f))]).
      rewrite ends_join_snoc; [|reflexivity|nbs]. apply ends_fields; assumption.
    + destruct Hok as [_ [Hn' [Hd' [Hds' [Hi' [Hf' _]]]]]]. rewrite pp_doc_eq. cbn [map leave pa pd].
      cbn [ends_with_block]. rewrite ends_app_nb by apply nb_descr.
      change [kw s_interface; pp_doc n; implements_of (pa i); dirs (pa ds); block (pl (pa f))]
        with ([kw s_interface; pp_doc n; implements_of (pa i); dirs (pa ds)] ++ [block (pl (pa f))]).
      rewrite ends_join_snoc; [|reflexivity|nbs]. apply ends_fields; assumption.
    + destruct Hok as [_ [Hn' [Hd' [Hds' [Hts' _]]]]]. rewrite pp_doc_eq. cbn [map leave pa pd]. cbn [ends_with_block].
      rewrite ends_app_nb by apply nb_descr. apply nb_join; [reflexivity|nbs].
    + destruct Hok as [_ [Hn' [Hd' [Hds' [Hvs' _]]]]]. rewrite pp_doc_eq. cbn [map leave pa pd]. cbn [ends_with_block].
      rewrite ends_app_nb by apply nb_descr.
      change [kw s_enum; pp_doc n; dirs (pa ds); block (pl (pa vs))]
        with ([kw s_enum; pp_doc n; dirs (pa ds)] ++ [block (pl (pa vs))]).
      rewrite ends_join_snoc; [|reflexivity|nbs]. apply ends_enum_values; assumption.
    + destruct Hok as [_ [Hn' [Hd' [Hds' [Hf' _]]]]]. rewrite pp_doc_eq. cbn [map leave pa pd]. cbn [ends_with_block].
      rewrite ends_app_nb by apply nb_descr.
      change [kw s_input; pp_doc n; dirs (pa ds); block (pl (pa f))]
        with ([kw s_input; pp_doc n; dirs (pa ds)] ++ [block (pl (pa f))]).
      rewrite ends_join_snoc; [|reflexivity|nbs]. apply ends_input_fields; assumption.
    + destruct Hok as [_ [Hn' [Hls' [Hd' [Ha' [Hds' _]]]]]]. destruct Hls as [l0 ls Hl0 Hls].
      rewrite pp_doc_eq. cbn [map leave pa pd pl]. cbn [ends_with_block].
      assert (ND : nb (wrap [sp] (dirs (pa ds)) [])).
      { apply nb_wrap_nil; [reflexivity|]. destruct xdd; [apply (nb_dirs true); assumption|subst ds; reflexivity]. }
      apply all_ok in Hls'.
      assert (NL : nb (join [sp; p_pipe; sp] (map pp_doc (l0 :: ls)))).
      { apply nb_join; [reflexivity|].
        apply (Forall_nb_map wf_location (l0 :: ls) nb_location); [constructor; assumption|exact Hls']. }
      repeat (apply nb_app; [first [apply nb_descr|reflexivity|apply nb_name; assumption|apply nb_def_args
                                  |exact ND|destruct r; reflexivity]|]).
      exact NL.
  - destruct W as [ds ots Hds Hots _|n ds Hn Hds _|n ds i f Hn Hds Hi Hf _|n ds i f Hn Hds Hi Hf _
                  |n ds ts Hn Hds Hts _|n ds vs Hn Hds Hvs _|n ds f Hn Hds Hf _|n ds _ Hn Hds _].
    + destruct Hok as [_ [Hds' [Hots' _]]]. rewrite pp_doc_eq. cbn [map leave pa pd]. cbn [ends_with_block].
      change [kw s_extend ++ [sp] ++ kw s_schema; dirs (pa ds); block (pl (pa ots))]
        with ([kw s_extend ++ [sp] ++ kw s_schema; dirs (pa ds)] ++ [block (pl (pa ots))]).
      rewrite ends_join_snoc; [|reflexivity|nbs]. apply ends_operation_types; assumption.
    + destruct Hok as [_ [Hn' [Hds' _]]]. rewrite pp_doc_eq. cbn [map leave pa pd]. cbn [ends_with_block].
      apply nb_join; [reflexivity|nbs].
    + destruct Hok as [_ [Hn' [Hds' [Hi' [Hf' _]]]]]. rewrite pp_doc_eq. cbn [map leave pa pd]. cbn [ends_with_block].
      change [kw s_extend ++ [sp] ++ kw s_type; pp_doc n; implements_of (pa i); dirs (pa ds); block (pl (pa f))]
        with ([kw s_extend ++ [sp] ++ kw s_type; pp_doc n; implements_of (pa i); dirs (pa ds)] ++ [block (pl (pa f))]).
      rewrite ends_join_snoc; [|reflexivity|nbs]. apply ends_fields; assumption.
    + destruct Hok as [_ [Hn' [Hds' [Hi' [Hf' _]]]]]. rewrite pp_doc_eq. cbn [map leave pa pd]. cbn [ends_with_block].
      change [kw s_extend ++ [sp] ++ kw s_interface; pp_doc n; implements_of (pa i); dirs (pa ds); block (pl (pa f))]
        with ([kw s_extend ++ [sp] ++ kw s_interface; pp_doc n; implements_of (pa i); dirs (pa ds)]
              ++ [block (pl (pa f))]).
      rewrite ends_join_snoc; [|reflexivity|nbs]. apply ends_fields; assumption.
    + destruct Hok as [_ [Hn' [Hds' [Hts' _]]]]. rewrite pp_doc_eq. cbn [map leave pa pd]. cbn [ends_with_block].
      apply nb_join; [reflexivity|nbs].
    + destruct Hok as [_ [Hn' [Hds' [Hvs' _]]]]. rewrite pp_doc_eq. cbn [map leave pa pd]. cbn [ends_with_block].
      change [kw s_extend ++ [sp] ++ kw s_enum; pp_doc n; dirs (pa ds); block (pl (pa vs))]
        with ([kw s_extend ++ [sp] ++ kw s_enum; pp_doc n; dirs (pa ds)] ++ [block (pl (pa vs))]).
      rewrite ends_join_snoc; [|reflexivity|nbs]. apply ends_enum_values; assumption.
    + destruct Hok as [_ [Hn' [Hds' [Hf' _]]]]. rewrite pp_doc_eq. cbn [map leave pa pd]. cbn [ends_with_block].
      change [kw s_extend ++ [sp] ++ kw s_input; pp_doc n; dirs (pa ds); block (pl (pa f))]
        with ([kw s_extend ++ [sp] ++ kw s_input; pp_doc n; dirs (pa ds)] ++ [block (pl (pa f))]).
      rewrite ends_join_snoc; [|reflexivity|nbs]. apply ends_input_fields; assumption.
    + destruct Hok as [_ [Hn' [Hds' _]]]. rewrite pp_doc_eq. cbn [map leave pa pd]. cbn [ends_with_block].
      apply nb_join; [reflexivity|]. constructor; [|nbs].
      repeat (apply nb_app; [reflexivity|]). apply nb_name; assumption.
Qed.

(* ---- the first character: "{" exactly for the query short form ---- *)
Lemma starts_kw s : is_name s = true -> starts_with 123 (kw s) = false /\ truthy (kw s) = true.
Proof.
  destruct s as [|c b]; [discriminate|]. cbn [is_name]. intros H. apply andb_true_iff in H as [Hc _].
  split; [|reflexivity]. unfold starts_with, kw. cbn [flat flat_map item_text app].
  apply name_start_range in Hc. apply N.eqb_neq. lia.
Qed.

Lemma starts_join_head c sep p parts : truthy p = true ->
  starts_with c (join sep (p :: parts)) = starts_with c p /\ truthy (join sep (p :: parts)) = true.
Proof.
  intros T. unfold join. cbn [filter]. rewrite T. destruct (filter truthy parts) as [|q r]; [split; [reflexivity|exact T]|].
  change (join_ne sep (p :: q :: r)) with (p ++ sep ++ join_ne sep (q :: r)).
  rewrite starts_app, T. split; [reflexivity|apply truthy_app_l, T].
Qed.

Lemma starts_descr d X : wf_description d -> starts_with 123 X = false -> truthy X = true ->
  starts_with 123 (descr (pa d) ++ X) = false /\ truthy (descr (pa d) ++ X) = true.
Proof.
  intros W HX TX. split; [|apply truthy_app_r, TX]. rewrite starts_app.
  destruct W as [|n [v b]]; [exact HX|]. destruct b.
  - unfold descr. cbn [pa pd]. change (pp_doc (Nd KStringValue [AStr v; ABool true]))
      with [Lx K_BLOCK_STRING v (print_block_string v false)].
    unfold print_block_string. cbv zeta. reflexivity.
  - reflexivity.
Qed.

Lemma starts_join_head_false sep p parts : truthy p = true -> starts_with 123 p = false ->
  starts_with 123 (join sep (p :: parts)) = false.
Proof. intros T H. rewrite (proj1 (starts_join_head 123 sep p parts T)). exact H. Qed.

Lemma starts_def_join d s parts : wf_description d -> is_name s = true ->
  starts_with 123 (descr (pa d) ++ join [sp] (kw s :: parts)) = false.
Proof.
  intros Hd Hs. destruct (starts_kw s Hs) as [K1 K2].
  destruct (starts_join_head 123 [sp] (kw s) parts K2) as [J1 J2]. rewrite K1 in J1.
  exact (proj1 (starts_descr d _ Hd J1 J2)).
Qed.
Lemma starts_def_kw d s X : wf_description d -> is_name s = true ->
  starts_with 123 (descr (pa d) ++ kw s ++ X) = false.
Proof.
  intros Hd Hs. destruct (starts_kw s Hs) as [K1 K2].
  apply (starts_descr d (kw s ++ X) Hd); [rewrite starts_app, K2; exact K1|apply truthy_app_l, K2].
Qed.

Lemma starts_definition xfa xdd x : wf_definition xfa xdd x -> lex_ok x ->
  starts_with 123 (pp_doc x) = is_shorthand_operation x.
Proof.
  intros W Hok. pose proof (G_definition xfa xdd x W Hok) as GX. destruct W as [y W|y W|y W|y W].
  - (* operation *)
    replace (toks_definition y) with (toks_operation y) in GX by (destruct W; reflexivity).
    destruct W as [s d n vs ds o Hs Hd Hn Hvs Hds Ho]. destruct Hok as [_ [Hs' _]].
    destruct (ends_selection_set xfa s Hs Hs') as (_ & T & St).
    pose proof (proj1 (G_selection_all xfa) s Hs Hs') as GS.
    cbn [is_shorthand_operation toks_operation] in *.
    rewrite pp_doc_eq in *. cbn [map leave pa pd] in *. cbv zeta in *.
    match goal with |- context [seqb ?p s_query] => destruct (seqb p s_query) eqn:Eq end.
    + (* printed in short form: then it is a short form *)
      cbn [app] in *. rewrite St. destruct (is_shorthand d n vs ds o) eqn:Esh; [reflexivity|]. exfalso.
      destruct GX as (_ & _ & E1). destruct GS as (_ & _ & E2). rewrite E2 in E1.
      apply (f_equal (@length sigtok)) in E1. rewrite app_length in E1. cbn [length] in E1.
      rewrite !app_length in E1. lia.
    + destruct (is_shorthand d n vs ds o) eqn:Esh.
      * apply is_shorthand_inv in Esh as (-> & -> & -> & -> & ->). cbn in Eq. discriminate.
      * rewrite <- app_assoc. rewrite starts_app.
        assert (op_name_is : is_name (op_text o) = true) by (apply op_name_is_name, Ho).
        destruct (starts_kw _ op_name_is) as [K1 K2].
        destruct (starts_join_head 123 [sp] (kw (op_text o))
                    [join [] [pd (pa n); if has_multiline_items (pl (pa vs))
                                         then wrap [p_lparen; nl] (join [nl] (pl (pa vs))) [nl; p_rparen]
                                         else wrap [p_lparen] (join comma_sp (pl (pa vs))) [p_rparen]];
                     dirs (pa ds)] K2) as [J1 J2].
        rewrite K1 in J1.
        destruct (starts_descr d _ Hd J1 J2) as [D1 D2]. rewrite D2. exact D1.
  - destruct W as [s d n vs ds tc Hs Hd Hn Hvs Hds Htc]. cbn [is_shorthand_operation].
    rewrite pp_doc_eq. cbn [map leave pa pd]. apply starts_def_kw; [exact Hd|reflexivity].
  - destruct W as [d ds ots Hd Hds Hots|n d ds Hn Hd Hds|n d ds i f Hn Hd Hds Hi Hf
                  |n d ds i f Hn Hd Hds Hi Hf|n d ds ts Hn Hd Hds Hts|n d ds vs Hn Hd Hds Hvs
                  |n d ds f Hn Hd Hds Hf|n ls d a ds r Hn Hls Hd Ha Hds];
      cbn [is_shorthand_operation]; rewrite pp_doc_eq; cbn [map leave pa pd];
      first [apply starts_def_join; [exact Hd|reflexivity] | apply starts_def_kw; [exact Hd|reflexivity]].
  - destruct W as [ds ots Hds Hots _|n ds Hn Hds _|n ds i f Hn Hds Hi Hf _|n ds i f Hn Hds Hi Hf _
                  |n ds ts Hn Hds Hts _|n ds vs Hn Hds Hvs _|n ds f Hn Hds Hf _|n ds _ Hn Hds _];
      cbn [is_shorthand_operation]; rewrite pp_doc_eq; cbn [map leave pa pd];
      (apply starts_join_head_false; reflexivity).
Qed.

(* ================================================================== *)
(* 7. documents and the theorems                                       *)
(* ================================================================== *)

Lemma truthy_definition xfa xdd x : wf_definition xfa xdd x -> lex_ok x -> truthy (pp_doc x) = true.
Proof.
  intros W Hok. eapply G_truthy; [apply (G_definition xfa xdd x W Hok)|].
  destruct W as [y W|y W|y W|y W].
  - destruct W as [s d n vs ds o Hs Hd Hn Hvs Hds Ho]. cbn [toks_definition toks_operation].
    pose proof (toks_selection_set_ne xfa s Hs) as N. destruct (is_shorthand d n vs ds o); [exact N|].
    intros E. apply app_eq_nil in E as [_ E]. discriminate.
  - destruct W. cbn [toks_definition toks_fragment_definition]. intros E. apply app_eq_nil in E as [_ E]. discriminate.
  - destruct W as [d ds ots Hd Hds Hots|n d ds Hn Hd Hds|n d ds i f Hn Hd Hds Hi Hf
                  |n d ds i f Hn Hd Hds Hi Hf|n d ds ts Hn Hd Hds Hts|n d ds vs Hn Hd Hds Hvs
                  |n d ds f Hn Hd Hds Hf|n ls d a ds r Hn Hls Hd Ha Hds]; try destruct Hls;
      cbn [toks_definition toks_type_system]; intros E; apply app_eq_nil in E as [_ E]; discriminate.
  - destruct W; cbn [toks_definition toks_extension]; discriminate.
Qed.

Lemma fix_short_G xfa xdd : forall r prev pb, ends_with_char 125 prev = pb ->
  Forall (wf_definition xfa xdd) r -> Forall lex_ok r ->
  exists tl, Forall2 G (fix_short prev (map pp_doc r)) tl /\ concat tl = toks_definitions pb r.
Proof.
  induction r as [|x r IH]; intros prev pb Hp W Hok; [exists []; split; [constructor|reflexivity]|].
  inversion W as [|? ? Wx Wr]; subst. inversion Hok as [|? ? Hx Hr]; subst.
  cbn [map fix_short toks_definitions].
  rewrite (starts_definition xfa xdd x Wx Hx).
  pose proof (G_definition xfa xdd x Wx Hx) as GX.
  pose proof (ends_definition xfa xdd x Wx Hx) as EX.
  pose proof (truthy_definition xfa xdd x Wx Hx) as TX.
  set (d' := if is_shorthand_operation x && negb (ends_with_char 125 prev)
             then kw s_query ++ [sp] ++ pp_doc x else pp_doc x).
  assert (E' : ends_with_char 125 d' = ends_with_block x).
  { unfold d'. destruct (is_shorthand_operation x && negb (ends_with_char 125 prev)); [|exact EX].
    rewrite ends_app_r by (apply truthy_app_r, TX). rewrite ends_app_r by exact TX. exact EX. }
  assert (G' : G d' ((if negb (ends_with_char 125 prev) && is_shorthand_operation x then [nm s_query] else [])
                     ++ toks_definition x)).
  { unfold d'. rewrite (andb_comm (negb _)).
    destruct (is_shorthand_operation x && negb (ends_with_char 125 prev)); [|exact GX].
    eapply G_eq; [eapply G_app_r; [apply G_kw; reflexivity| |sok]; gl; exact GX|reflexivity]. }
  destruct (IH d' (ends_with_block x) E' Wr Hr) as (tl & H2 & Hc).
  eexists (_ :: tl). split; [constructor; [exact G'|exact H2]|]. cbn [concat]. rewrite Hc, <- app_assoc.
  reflexivity.
Qed.

Lemma G_document xfa xdd x : wf_document xfa xdd x -> lex_ok x -> G (pp_doc x) (toks_document x).
Proof.
  intros [y l Wy Wl] [_ [Hok _]]. apply all_ok in Hok. inversion Hok as [|? ? Hy Hl]; subst.
  rewrite pp_doc_eq. cbn [map leave pa pl document_defs]. cbn [toks_document toks_definitions].
  destruct (fix_short_G xfa xdd l (pp_doc y) (ends_with_block y) (ends_definition xfa xdd y Wy Hy) Wl Hl)
    as (tl & H2 & Hc).
  eapply G_eq.
  - apply (G_join_gap [Gap [LF; LF]] _ (toks_definition y :: tl)); [lit|lit|lit|].
    constructor; [apply (G_definition xfa xdd); assumption|exact H2].
  - cbn [concat negb andb app]. rewrite Hc. reflexivity.
Qed.

(* every tree an entry point of the text lexer returns *)
Theorem G_ast e xfa xdd x : e <> ECoordinate -> wf_ast e xfa xdd x -> lex_ok x -> G (pp_doc x) (tokens_of x).
Proof.
  intros He W Hok. destruct e; cbn [wf_ast] in W; [| | | |congruence].
  - replace (tokens_of x) with (toks_document x) by (destruct W; reflexivity). apply (G_document xfa xdd); assumption.
  - replace (tokens_of x) with (toks_value x) by (destruct W; reflexivity). apply (proj1 (G_value_all false)); assumption.
  - replace (tokens_of x) with (toks_value x) by (destruct W; reflexivity). apply (proj1 (G_value_all true)); assumption.
  - replace (tokens_of x) with (toks_type x) by (destruct W; reflexivity). apply G_type; assumption.
Qed.

Theorem print_lexes e xfa xdd x : e <> ECoordinate -> wf_ast e xfa xdd x -> lex_ok x ->
  exists ts, lex (pp x) = Ok ts /\ map tok_sig (significant ts) = tokens_of x ++ [(K_EOF, [])].
Proof.
  intros He W Hok. destruct (G_ast e xfa xdd x He W Hok) as (Hv & Ha & Ht).
  destruct (lex_items (pp_doc x) Hv (Ha [] I)) as (ts & E & Hs). exists ts. rewrite <- Ht. auto.
Qed.
