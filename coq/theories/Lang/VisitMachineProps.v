(* Refinement: the explicit-stack machine Lang/VisitMachine.v computes what the recursive model
   Lang/Visit.v computes (call log, visitor state, result), for every tree and every visitor
   (state-passing decision function, all five actions on enter and leave, root included). *)
From GV Require Import Base.Prelude Lang.Visit Lang.VisitProps Lang.VisitParallelProps Lang.VisitMachine.

Arguments Next {St}.
Arguments Done {St}.
Arguments Stuck {St}.
Arguments MOutOfFuel {St}.
Arguments MStuck {St}.
Arguments MDone {St}.
Arguments MFuel {St}.
Arguments MRaise {St}.
Arguments MRet {St}.

(* ---- append / drop on slots and trees ---- *)
Fixpoint sapp (a b : slots) : slots := match a with SNil => b | SCons s r => SCons s (sapp r b) end.
Fixpoint tapp (a b : trees) : trees := match a with TNil => b | TCons t r => TCons t (tapp r b) end.
Fixpoint sdrop (i : nat) (ss : slots) : slots :=
  match i with O => ss | S i' => match ss with SNil => SNil | SCons _ r => sdrop i' r end end.
Fixpoint tdrop (i : nat) (l : trees) : trees :=
  match i with O => l | S i' => match l with TNil => TNil | TCons _ r => tdrop i' r end end.

Lemma sdrop_cons : forall i ss sl rest, sdrop i ss = SCons sl rest ->
  slot_nth ss i = sl /\ sdrop (S i) ss = rest /\ (i < slen ss)%nat.
Proof.
  induction i as [|i IH]; intros ss sl rest H.
  - cbn in H. subst. cbn. repeat split. lia.
  - destruct ss as [|s r]; cbn in H; [discriminate|].
    destruct (IH _ _ _ H) as (A & B & C). cbn [slot_nth slen]. repeat split; auto. lia.
Qed.

Lemma sdrop_nil : forall i ss, sdrop i ss = SNil -> (i <= slen ss)%nat -> i = slen ss.
Proof.
  induction i as [|i IH]; intros ss H L.
  - cbn in H. subst. reflexivity.
  - destruct ss as [|s r]; cbn in *; [lia|]. f_equal. apply IH; auto. lia.
Qed.

Lemma tdrop_cons : forall i l c rest, tdrop i l = TCons c rest ->
  tree_nth l i = Some c /\ tdrop (S i) l = rest /\ (i < tlen l)%nat.
Proof.
  induction i as [|i IH]; intros l c rest H.
  - cbn in H. subst. cbn. repeat split. lia.
  - destruct l as [|t r]; cbn in H; [discriminate|].
    destruct (IH _ _ _ H) as (A & B & C). cbn [tree_nth tlen]. repeat split; auto. lia.
Qed.

Lemma tdrop_nil : forall i l, tdrop i l = TNil -> (i <= tlen l)%nat -> i = tlen l.
Proof.
  induction i as [|i IH]; intros l H L.
  - cbn in H. subst. reflexivity.
  - destruct l as [|t r]; cbn in *; [lia|]. f_equal. apply IH; auto. lia.
Qed.

Lemma slot_set_app : forall pre sl rest x,
  slot_set (sapp pre (SCons sl rest)) (slen pre) x = sapp pre (SCons x rest).
Proof. induction pre as [|s r IH]; intros; cbn; [reflexivity|]. rewrite IH. reflexivity. Qed.

Lemma trees_set_app : forall pre c rest x,
  trees_set (tapp pre (TCons c rest)) (tlen pre) x = tapp pre (TCons x rest).
Proof. induction pre as [|s r IH]; intros; cbn; [reflexivity|]. rewrite IH. reflexivity. Qed.

Lemma trees_pop_app : forall pre c rest,
  trees_pop (tapp pre (TCons c rest)) (tlen pre) = tapp pre rest.
Proof. induction pre as [|s r IH]; intros; cbn; [reflexivity|]. rewrite IH. reflexivity. Qed.

Lemma sapp_snoc : forall pre x rest, sapp (sapp pre (SCons x SNil)) rest = sapp pre (SCons x rest).
Proof. induction pre as [|s r IH]; intros; cbn; [reflexivity|]. rewrite IH. reflexivity. Qed.
Lemma tapp_snoc : forall pre x rest, tapp (tapp pre (TCons x TNil)) rest = tapp pre (TCons x rest).
Proof. induction pre as [|s r IH]; intros; cbn; [reflexivity|]. rewrite IH. reflexivity. Qed.
Lemma slen_snoc : forall pre x, slen (sapp pre (SCons x SNil)) = S (slen pre).
Proof. induction pre as [|s r IH]; intros; cbn; [reflexivity|]. rewrite IH. reflexivity. Qed.
Lemma tlen_snoc : forall pre x, tlen (tapp pre (TCons x TNil)) = S (tlen pre).
Proof. induction pre as [|s r IH]; intros; cbn; [reflexivity|]. rewrite IH. reflexivity. Qed.
Lemma tlen_tapp : forall a b, tlen (tapp a b) = (tlen a + tlen b)%nat.
Proof. induction a as [|s r IH]; intros; cbn; [reflexivity|]. rewrite IH. reflexivity. Qed.

(* ---- the edits of one level as a state transformer ---- *)
Lemma apply_node_app : forall a b ss, apply_node (a ++ b) ss = apply_node b (apply_node a ss).
Proof. induction a as [|[k e] r IH]; intros; cbn; [reflexivity|]. apply IH. Qed.

Fixpoint arr_st (es : list edit) (l : trees) (off : nat) : trees * nat :=
  match es with
  | [] => (l, off)
  | (k, ev) :: r =>
    let ak := (key_num k - off)%nat in
    match ev with
    | ERemove => arr_st r (trees_pop l ak) (S off)
    | EVal (VNode t) => arr_st r (trees_set l ak t) off
    | EVal (VArr _) => arr_st r l off
    end
  end.

Lemma apply_arr_st : forall es l off, apply_arr es l off = fst (arr_st es l off).
Proof.
  induction es as [|[k e] r IH]; intros; cbn; [reflexivity|].
  destruct e as [|[t|a]]; apply IH.
Qed.

Lemma arr_st_app : forall a b l off,
  arr_st (a ++ b) l off = let '(l1, o1) := arr_st a l off in arr_st b l1 o1.
Proof.
  induction a as [|[k e] r IH]; intros; cbn; [reflexivity|].
  destruct e as [|[t|x]]; apply IH.
Qed.

(* ---- what one child visit leaves in the edits of its level ---- *)
Definition ev (v : option tree) : eval := match v with None => ERemove | Some t => EVal (VNode t) end.

Definition es_child (k : key) (v : option tree) (es : list edit) : Prop :=
  es = [(k, ev v)] \/ exists t', es = [(k, EVal (VNode t')); (k, ev v)].

Lemma es_child_nonnil k v es : es_child k v es -> is_nil es = false.
Proof. intros [->|[t' ->]]; reflexivity. Qed.

Definition slot_of (v : option tree) : slot := match v with None => SNone | Some t => SOne t end.

Lemma es_child_node i v es pre sl rest : es_child (KName i) v es -> slen pre = i ->
  apply_node es (sapp pre (SCons sl rest)) = sapp pre (SCons (slot_of v) rest).
Proof.
  intros [->|[t' ->]] <-; cbn [apply_node key_num]; rewrite !slot_set_app; destruct v; reflexivity.
Qed.

Lemma es_child_arr j v es pre off c rest : es_child (KIdx j) v es -> (tlen pre + off = j)%nat ->
  arr_st es (tapp pre (TCons c rest)) off
  = match v with None => (tapp pre rest, S off) | Some t => (tapp pre (TCons t rest), off) end.
Proof.
  intros H E. assert (A : (j - off = tlen pre)%nat) by lia.
  destruct H as [->|[t' ->]]; destruct v as [t|]; cbn [arr_st key_num ev]; rewrite !A;
    rewrite ?trees_set_app, ?trees_pop_app; reflexivity.
Qed.

Lemma removelast_snoc {A} (l : list A) x : removelast (l ++ [x]) = l.
Proof. apply removelast_last. Qed.
Lemma last_snoc {A} (l : list A) x d : last (l ++ [x]) d = x.
Proof. apply last_last. Qed.

(* ---- the simulation ---- *)
Arguments mkM {St}.
Arguments m_stack {St}. Arguments m_in_array {St}. Arguments m_nxt {St}. Arguments m_klen {St}.
Arguments m_edits {St}. Arguments m_node {St}. Arguments m_key {St}. Arguments m_parent {St}.
Arguments m_path {St}. Arguments m_anc {St}. Arguments m_vs {St}.

Section Sim.
  Variable St : Type.
  Variable decide : phase -> tree -> St -> action * St.
  Notation ms := (mstate St).
  Notation stepf := (step St decide).
  Notation vphase := (visit_phase St decide).

  Fixpoint iter (n : nat) (s : ms) : sres St :=
    match n with
    | O => Next s
    | S n' => match stepf s with Next s' => iter n' s' | r => r end
    end.

  Lemma iter_add n m s s' : iter n s = Next s' -> iter (n + m) s = iter m s'.
  Proof.
    revert s. induction n as [|n IH]; intros s H; cbn in *.
    - inversion H; reflexivity.
    - destruct (stepf s); try discriminate. apply IH; auto.
  Qed.

  Lemma iter_step n s s' : iter n s = Next s' -> iter (n + 1) s = stepf s'.
  Proof. intros H. rewrite (iter_add _ 1 _ _ H). cbn. destruct (stepf s'); reflexivity. Qed.

  Lemma iter_first n s : iter (S n) s = match stepf s with Next s' => iter n s' | r => r end.
  Proof. reflexivity. Qed.

  Lemma iter_done n m s b sf : iter n s = Done b sf -> iter (n + m) s = Done b sf.
  Proof.
    revert s. induction n as [|n IH]; intros s H; cbn in *; [discriminate|].
    destruct (stepf s); try discriminate; auto.
  Qed.

  Lemma iter_run n s b sf : iter n s = Done b sf ->
    forall fuel, (n <= fuel)%nat -> run_steps St decide fuel s = MDone b sf.
  Proof.
    revert s. induction n as [|n IH]; intros s H fuel L; cbn in H; [discriminate|].
    destruct fuel as [|f]; [lia|]. cbn. destruct (stepf s) eqn:E; try discriminate.
    - apply IH; auto. lia.
    - inversion H; reflexivity.
  Qed.

  (* the visitor never answers with a replacement node on enter *)
  Definition NR : Prop :=
    forall t s, match fst (decide Enter t s) with Replace _ => False | _ => True end.

  Lemma do_call_action ph t k p n s a s1 :
    do_call St decide ph t k p n s = (a, s1) -> fst (decide ph t (fst s)) = a.
  Proof. unfold do_call. destruct (decide ph t (fst s)) as [a' x]. intros H; inversion H; reflexivity. Qed.

  (* every replacement node the visitor answers with on enter needs at most R loop iterations *)
  Definition HR (R : nat) : Prop :=
    forall t s, match fst (decide Enter t s) with Replace t' => (msteps t' <= R)%nat | _ => True end.

  (* number of enter calls answered with a replacement in a call log *)
  Definition is_rep (c : call) : bool :=
    match c_phase c with Enter => c_action c =? 4 | Leave => false end.
  Definition nrep (lg : list call) : nat := length (filter is_rep lg).

  (* n iterations between visitor states s and s' are within M, resp. within M plus R per
     enter-replacement made in between *)
  Definition bounded (n M : nat) (s s' : st St) : Prop :=
    (NR -> (n <= M)%nat) /\
    (forall R, HR R -> (n + R * nrep (snd s) <= M + R * nrep (snd s'))%nat).

  Lemma bounded_refl M s : bounded 0 M s s.
  Proof. split; intros; lia. Qed.

  Lemma bounded_comb n1 M1 n2 M2 s s1 s2 : bounded n1 M1 s s1 -> bounded n2 M2 s1 s2 ->
    forall k n M, n = (k + n1 + n2)%nat -> (k + M1 + M2 <= M)%nat -> bounded n M s s2.
  Proof.
    intros [A1 B1] [A2 B2] k n M -> HM. split.
    - intros HN. specialize (A1 HN). specialize (A2 HN). lia.
    - intros R HRr. specialize (B1 R HRr). specialize (B2 R HRr). lia.
  Qed.

  Lemma bounded_pad n1 M1 s s1 : bounded n1 M1 s s1 ->
    forall k n M, n = (k + n1)%nat -> (k + M1 <= M)%nat -> bounded n M s s1.
  Proof.
    intros H k n M -> HM. apply (bounded_comb _ _ _ _ _ _ _ H (bounded_refl 0 s1) k); lia.
  Qed.

  Lemma bounded_tail n M s s2 s3 : bounded n M s s2 -> nrep (snd s3) = nrep (snd s2) -> bounded n M s s3.
  Proof. intros [A B] E. split; [exact A|]. intros R HRr. rewrite E. exact (B R HRr). Qed.

  Lemma enter_nrep t k p n s a s1 : do_call St decide Enter t k p n s = (a, s1) ->
    nrep (snd s1) = (nrep (snd s) + match a with Replace _ => 1 | _ => 0 end)%nat.
  Proof.
    unfold do_call. destruct (decide Enter t (fst s)) as [a' x]. intros H; inversion H; subst.
    unfold nrep. cbn [snd filter is_rep c_phase c_action]. destruct a; cbn; lia.
  Qed.

  Lemma leave_nrep t k p n s a s1 : do_call St decide Leave t k p n s = (a, s1) -> nrep (snd s1) = nrep (snd s).
  Proof.
    unfold do_call. destruct (decide Leave t (fst s)) as [a' x]. intros H; inversion H; subst.
    unfold nrep. cbn [snd filter is_rep c_phase c_action]. reflexivity.
  Qed.

  (* the enter iteration in front of n1 further iterations *)
  Lemma bounded_enter c k p nn s a s1 n1 M1 s' :
    do_call St decide Enter c k p nn s = (a, s1) -> bounded n1 M1 s1 s' ->
    match a with Replace t' => M1 = S (msteps_slots (tslots t')) | _ => (S M1 <= msteps c)%nat end ->
    bounded (S n1) (msteps c) s s'.
  Proof.
    intros Ed [A B] Ha. pose proof (enter_nrep _ _ _ _ _ _ _ Ed) as En.
    pose proof (do_call_action _ _ _ _ _ _ _ _ Ed) as Ea. split.
    - intros HN. specialize (A HN). pose proof (HN c (fst s)) as X. rewrite Ea in X.
      destruct a; try contradiction; lia.
    - intros R HRr. specialize (B R HRr). pose proof (HRr c (fst s)) as X. rewrite Ea in X. rewrite En in B.
      destruct a as [| | | |t']; try (rewrite Nat.add_0_r in B; lia).
      rewrite Nat.mul_add_distr_l, Nat.mul_1_r in B. subst M1. destruct t' as [kd id ss]. cbn in *. lia.
  Qed.

  (* ---- single steps ---- *)
  Lemma step_child stk ia idx klen E nd0 ky0 par path anc s nd :
    idx <> klen -> truthy (Some par) = true -> fetch par ia idx = FVal nd ->
    let k := if ia then KIdx idx else KName idx in
    stepf (mkM stk ia idx klen E nd0 ky0 (Some par) path anc s)
    = vphase false false (mkM stk ia idx klen E (Some nd) k (Some par) (path ++ [k]) anc s) nd.
  Proof.
    intros Hn Ht Hf k. unfold step. cbn [m_nxt m_klen m_parent m_in_array m_stack m_edits m_node m_key m_path m_anc m_vs].
    apply Nat.eqb_neq in Hn. rewrite Hn. cbn [andb]. rewrite Ht, Hf. reflexivity.
  Qed.

  Lemma step_none stk ia idx klen E nd0 ky0 par path anc s :
    idx <> klen -> truthy (Some par) = true -> fetch par ia idx = FNone ->
    stepf (mkM stk ia idx klen E nd0 ky0 (Some par) path anc s)
    = Next (mkM stk ia (S idx) klen E None (if ia then KIdx idx else KName idx) (Some par) path anc s).
  Proof.
    intros Hn Ht Hf. unfold step. cbn [m_nxt m_klen m_parent m_in_array m_stack m_edits m_node m_key m_path m_anc m_vs].
    apply Nat.eqb_neq in Hn. rewrite Hn. cbn [andb]. rewrite Ht, Hf. reflexivity.
  Qed.

  Lemma step_leave fr K ia klen E nd0 ky0 par path anc s nd :
    (if negb (is_nil E) then apply_edits ia E par else Some par) = Some nd ->
    stepf (mkM (fr :: K) ia klen klen E nd0 ky0 (Some par) path anc s)
    = vphase true (negb (is_nil E))
        (mkM K (f_in_array fr) (f_idx fr) (f_klen fr) (f_edits fr) (Some nd)
             (match anc with [] => KNone | _ => last path KNone end)
             (match anc with [] => None | a :: _ => Some a end) path (tl anc) s) nd.
  Proof.
    intros H. unfold step. cbn [m_nxt m_klen m_parent m_in_array m_stack m_edits m_node m_key m_path m_anc m_vs].
    rewrite Nat.eqb_refl. cbn [andb]. rewrite H. destruct anc; reflexivity.
  Qed.

  (* ---- specification of one child visit ---- *)
  Definition child_post (k : key) (r : res) (s' : st St) stk ia idx klen E par path anc (out : sres St) : Prop :=
    match r with
    | ROutOfFuel => True
    | RBreak => exists sf, out = Done true sf /\ m_vs sf = s'
    | RKeep => exists nd ky, out = Next (mkM stk ia (S idx) klen E nd ky (Some par) path anc s')
    | REdit v => exists nd ky es, es_child k v es /\
                   out = Next (mkM stk ia (S idx) klen (E ++ es) nd ky (Some par) path anc s')
    end.

  Definition sim_rec (rec : visit_fn St) : Prop :=
    forall c stk ia idx klen E par path anc nd0 ky0 s r s',
      stk <> [] -> fetch par ia idx = FVal (VNode c) -> truthy (Some par) = true -> idx <> klen ->
      rec c (if ia then KIdx idx else KName idx) (path ++ [if ia then KIdx idx else KName idx]) (length anc) true s = (r, s') ->
      exists n, (r <> ROutOfFuel -> bounded n (msteps c) s s') /\
        child_post (if ia then KIdx idx else KName idx) r s' stk ia idx klen E par path anc
                   (iter n (mkM stk ia idx klen E nd0 ky0 (Some par) path anc s)).

  Definition trees_es (j : nat) (l l' : trees) (e : bool) (es : list edit) : Prop :=
    e = negb (is_nil es) /\
    forall pre off, (tlen pre + off = j)%nat -> exists off', arr_st es (tapp pre l) off = (tapp pre l', off').

  Definition slots_es (i : nat) (ss ss' : slots) (e : bool) (es : list edit) : Prop :=
    e = negb (is_nil es) /\ forall pre, slen pre = i -> apply_node es (sapp pre ss) = sapp pre ss'.

  Lemma is_nil_app {A} (a b : list A) : is_nil (a ++ b) = is_nil a && is_nil b.
  Proof. destruct a; reflexivity. Qed.

  Lemma trees_sim rec : sim_rec rec -> forall L stk p anc, stk <> [] ->
    forall l j E nd0 ky0 s r s', tdrop j L = l -> (j <= tlen L)%nat ->
      vtrees St rec l j p (length anc) s = (r, s') ->
      exists n, (r <> None -> bounded n (msteps_trees l) s s') /\
      match r with
      | None => True
      | Some None => exists sf, iter n (mkM stk true j (tlen L) E nd0 ky0 (Some (VArr L)) p anc s) = Done true sf /\ m_vs sf = s'
      | Some (Some (l', e)) => exists nd ky es, trees_es j l l' e es /\
          iter n (mkM stk true j (tlen L) E nd0 ky0 (Some (VArr L)) p anc s)
          = Next (mkM stk true (tlen L) (tlen L) (E ++ es) nd ky (Some (VArr L)) p anc s')
      end.
  Proof.
    intros Hrec L stk p anc Hstk. induction l as [|c rest IH]; intros j E nd0 ky0 s r s' Hd Hj H; cbn [vtrees] in H.
    - inversion H; subst r s'. exists 0%nat. split; [intros _; apply bounded_refl|].
      exists nd0, ky0, []. split.
      + split; [reflexivity|]. intros pre off _. exists off. reflexivity.
      + cbn [iter]. rewrite app_nil_r. rewrite (tdrop_nil _ _ Hd Hj). reflexivity.
    - destruct (tdrop_cons _ _ _ _ Hd) as (Hn & Hd' & Hlt).
      destruct (rec c (KIdx j) (p ++ [KIdx j]) (length anc) true s) as [rc s1] eqn:Ec.
      assert (Hf : fetch (VArr L) true j = FVal (VNode c)) by (cbn; rewrite Hn; reflexivity).
      assert (Ht : truthy (Some (VArr L)) = true) by (destruct L; [cbn in Hlt; lia|reflexivity]).
      destruct (Hrec c stk true j (tlen L) E (VArr L) p anc nd0 ky0 s rc s1 Hstk Hf Ht ltac:(lia) Ec)
        as (n1 & Hb1 & Hp1).
      destruct rc as [| |v|].
      + (* break *) inversion H; subst r s'. destruct Hp1 as (sf & Hi & Hv).
        exists n1. split; [|exists sf; auto].
        intros _. apply (bounded_pad _ _ _ _ (Hb1 ltac:(discriminate)) 0%nat); cbn [msteps_trees]; lia.
      + (* keep *)
        destruct Hp1 as (nd1 & ky1 & Hi).
        destruct (vtrees St rec rest (S j) p (length anc) s1) as [r2 s2] eqn:E2.
        destruct (IH (S j) E nd1 ky1 s1 r2 s2 Hd' ltac:(lia) E2) as (n2 & Hb2 & Hp2).
        destruct r2 as [[[rest' e']|]|]; inversion H; subst r s'.
        * destruct Hp2 as (nd2 & ky2 & es & (He & Hes) & Hi2).
          exists (n1 + n2)%nat. split.
          { intros _. apply (bounded_comb _ _ _ _ _ _ _ (Hb1 ltac:(discriminate)) (Hb2 ltac:(discriminate)) 0); cbn [msteps_trees]; lia. }
          exists nd2, ky2, es. split.
          { split; [exact He|]. intros pre off Ho.
            destruct (Hes (tapp pre (TCons c TNil)) off) as (off' & Ha).
            { rewrite tlen_snoc. lia. }
            exists off'. rewrite !tapp_snoc in Ha. exact Ha. }
          rewrite (iter_add _ _ _ _ Hi). exact Hi2.
        * destruct Hp2 as (sf & Hi2 & Hv). exists (n1 + n2)%nat. split.
          { intros _. apply (bounded_comb _ _ _ _ _ _ _ (Hb1 ltac:(discriminate)) (Hb2 ltac:(discriminate)) 0); cbn [msteps_trees]; lia. }
          exists sf. split; auto. rewrite (iter_add _ _ _ _ Hi). exact Hi2.
        * exists 0%nat. split; [intros X; contradiction X; reflexivity|exact I].
      + (* edit *)
        destruct Hp1 as (nd1 & ky1 & es1 & Hc & Hi).
        destruct (vtrees St rec rest (S j) p (length anc) s1) as [r2 s2] eqn:E2.
        destruct (IH (S j) (E ++ es1) nd1 ky1 s1 r2 s2 Hd' ltac:(lia) E2) as (n2 & Hb2 & Hp2).
        destruct r2 as [[[rest' e']|]|].
        * destruct Hp2 as (nd2 & ky2 & es & (He & Hes) & Hi2).
          assert (R : r = Some (Some ((match v with None => rest' | Some t => TCons t rest' end), true)) /\ s' = s2)
            by (destruct v; inversion H; auto).
          destruct R as [-> ->].
          exists (n1 + n2)%nat. split.
          { intros _. apply (bounded_comb _ _ _ _ _ _ _ (Hb1 ltac:(discriminate)) (Hb2 ltac:(discriminate)) 0); cbn [msteps_trees]; lia. }
          exists nd2, ky2, (es1 ++ es). split.
          { split.
            - rewrite is_nil_app, (es_child_nonnil _ _ _ Hc). reflexivity.
            - intros pre off Ho. rewrite arr_st_app, (es_child_arr _ _ _ _ _ _ _ Hc Ho).
              destruct v as [t|].
              + destruct (Hes (tapp pre (TCons t TNil)) off) as (off' & Ha).
                { rewrite tlen_snoc. lia. }
                exists off'. rewrite !tapp_snoc in Ha. exact Ha.
              + destruct (Hes pre (S off)) as (off' & Ha); [lia|]. exists off'. exact Ha. }
          rewrite (iter_add _ _ _ _ Hi), app_assoc. exact Hi2.
        * assert (R : r = Some None /\ s' = s2) by (destruct v; inversion H; auto). destruct R as [-> ->].
          destruct Hp2 as (sf & Hi2 & Hv). exists (n1 + n2)%nat. split.
          { intros _. apply (bounded_comb _ _ _ _ _ _ _ (Hb1 ltac:(discriminate)) (Hb2 ltac:(discriminate)) 0); cbn [msteps_trees]; lia. }
          exists sf. split; auto. rewrite (iter_add _ _ _ _ Hi). exact Hi2.
        * assert (R : r = None) by (destruct v; inversion H; auto). subst r.
          exists 0%nat. split; [intros X; contradiction X; reflexivity|exact I].
      + inversion H; subst. exists 0%nat. split; [intros X; contradiction X; reflexivity|exact I].
  Qed.

  Lemma step_enter_arr stk i klen E nd0 ky0 P p anc s l :
    i <> klen -> slot_nth (tslots P) i = SArr l ->
    stepf (mkM stk false i klen E nd0 ky0 (Some (VNode P)) p anc s)
    = Next (mkM (mkFrame false i klen E :: stk) true 0%nat (tlen l) [] (Some (VArr l)) (KName i)
                (Some (VArr l)) (p ++ [KName i]) (VNode P :: anc) s).
  Proof.
    intros Hn Hs. rewrite (step_child stk false i klen E nd0 ky0 (VNode P) p anc s (VArr l) Hn eq_refl).
    - reflexivity.
    - cbn. rewrite Hs. reflexivity.
  Qed.

  Lemma step_leave_arr stk i klen E nd0 ky0 P p anc s l es :
    stk <> [] ->
    exists nd ky,
    stepf (mkM (mkFrame false i klen E :: stk) true (tlen l) (tlen l) es nd0 ky0 (Some (VArr l))
               (p ++ [KName i]) (VNode P :: anc) s)
    = Next (mkM stk false (S i) klen
                (if is_nil es then E else E ++ [(KName i, EVal (VArr (apply_arr es l 0%nat)))])
                nd ky (Some (VNode P)) p anc s).
  Proof.
    intros Hstk. destruct stk as [|f0 stk]; [contradiction|].
    destruct es as [|e0 es].
    - do 2 eexists. rewrite (step_leave _ _ true (tlen l) [] nd0 ky0 (VArr l) _ _ s (VArr l) eq_refl).
      cbn. rewrite last_snoc, removelast_snoc. reflexivity.
    - do 2 eexists.
      rewrite (step_leave _ _ true (tlen l) (e0 :: es) nd0 ky0 (VArr l) _ _ s
                 (VArr (apply_arr (e0 :: es) l 0%nat)) eq_refl).
      cbn [visit_phase finish negb is_nil andb m_edits m_key m_stack m_in_array m_nxt m_klen m_parent m_path m_anc m_vs
           f_in_array f_idx f_klen f_edits tl].
      rewrite last_snoc, removelast_snoc. reflexivity.
  Qed.

  Lemma slots_sim rec : sim_rec rec -> forall P stk p anc, stk <> [] ->
    forall ss i E nd0 ky0 s r s', sdrop i (tslots P) = ss -> (i <= slen (tslots P))%nat ->
      vslots St rec ss i p (length anc) s = (r, s') ->
      exists n, (r <> None -> bounded n (msteps_slots ss) s s') /\
      match r with
      | None => True
      | Some None => exists sf, iter n (mkM stk false i (slen (tslots P)) E nd0 ky0 (Some (VNode P)) p anc s) = Done true sf
                                /\ m_vs sf = s'
      | Some (Some (ss', e)) => exists nd ky es, slots_es i ss ss' e es /\
          iter n (mkM stk false i (slen (tslots P)) E nd0 ky0 (Some (VNode P)) p anc s)
          = Next (mkM stk false (slen (tslots P)) (slen (tslots P)) (E ++ es) nd ky (Some (VNode P)) p anc s')
      end.
  Proof.
    intros Hrec P stk p anc Hstk. set (klen := slen (tslots P)).
    induction ss as [|sl rest IH]; intros i E nd0 ky0 s r s' Hd Hi H; cbn [vslots] in H.
    - inversion H; subst r s'. exists 0%nat. split; [intros _; apply bounded_refl|].
      exists nd0, ky0, []. split.
      + split; [reflexivity|]. intros pre _. reflexivity.
      + cbn [iter]. rewrite app_nil_r. rewrite (sdrop_nil _ _ Hd Hi). reflexivity.
    - destruct (sdrop_cons _ _ _ _ Hd) as (Hn & Hd' & Hlt). fold klen in Hlt.
      destruct sl as [|c|l].
      + (* absent slot *)
        assert (S1 := step_none stk false i klen E nd0 ky0 (VNode P) p anc s ltac:(lia) eq_refl
                        ltac:(cbn; rewrite Hn; reflexivity)).
        destruct (vslots St rec rest (S i) p (length anc) s) as [r2 s2] eqn:E2.
        destruct (IH (S i) E None (KName i) s r2 s2 Hd' ltac:(fold klen; lia) E2) as (n2 & Hb2 & Hp2).
        destruct r2 as [[[rest' e']|]|]; inversion H; subst r s'.
        * destruct Hp2 as (nd2 & ky2 & es & (He & Hes) & Hi2).
          exists (S n2). split.
          { intros _. apply (bounded_pad _ _ _ _ (Hb2 ltac:(discriminate)) 1%nat); cbn [msteps_slots msteps_slot]; lia. }
          exists nd2, ky2, es. split.
          { split; [exact He|]. intros pre Hl.
            specialize (Hes (sapp pre (SCons SNone SNil))). rewrite slen_snoc, !sapp_snoc in Hes.
            apply Hes. lia. }
          rewrite iter_first, S1. exact Hi2.
        * destruct Hp2 as (sf & Hi2 & Hv). exists (S n2). split.
          { intros _. apply (bounded_pad _ _ _ _ (Hb2 ltac:(discriminate)) 1%nat); cbn [msteps_slots msteps_slot]; lia. }
          exists sf. split; auto. rewrite iter_first, S1. exact Hi2.
        * exists 0%nat. split; [intros X; contradiction X; reflexivity|exact I].
      + (* single child *)
        destruct (rec c (KName i) (p ++ [KName i]) (length anc) true s) as [rc s1] eqn:Ec.
        assert (Hf : fetch (VNode P) false i = FVal (VNode c)) by (cbn; rewrite Hn; reflexivity).
        destruct (Hrec c stk false i klen E (VNode P) p anc nd0 ky0 s rc s1 Hstk Hf eq_refl ltac:(lia) Ec)
          as (n1 & Hb1 & Hp1).
        destruct rc as [| |v|].
        * inversion H; subst r s'. destruct Hp1 as (sf & Hi1 & Hv).
          exists n1. split; [|exists sf; auto].
          intros _. apply (bounded_pad _ _ _ _ (Hb1 ltac:(discriminate)) 0%nat); cbn [msteps_slots msteps_slot]; lia.
        * destruct Hp1 as (nd1 & ky1 & Hi1).
          destruct (vslots St rec rest (S i) p (length anc) s1) as [r2 s2] eqn:E2.
          destruct (IH (S i) E nd1 ky1 s1 r2 s2 Hd' ltac:(fold klen; lia) E2) as (n2 & Hb2 & Hp2).
          destruct r2 as [[[rest' e']|]|]; inversion H; subst r s'.
          -- destruct Hp2 as (nd2 & ky2 & es & (He & Hes) & Hi2).
             exists (n1 + n2)%nat. split.
             { intros _. apply (bounded_comb _ _ _ _ _ _ _ (Hb1 ltac:(discriminate)) (Hb2 ltac:(discriminate)) 0); cbn [msteps_slots msteps_slot]; lia. }
             exists nd2, ky2, es. split.
             { split; [exact He|]. intros pre Hl.
               specialize (Hes (sapp pre (SCons (SOne c) SNil))). rewrite slen_snoc, !sapp_snoc in Hes.
               apply Hes. lia. }
             rewrite (iter_add _ _ _ _ Hi1). exact Hi2.
          -- destruct Hp2 as (sf & Hi2 & Hv). exists (n1 + n2)%nat. split.
             { intros _. apply (bounded_comb _ _ _ _ _ _ _ (Hb1 ltac:(discriminate)) (Hb2 ltac:(discriminate)) 0); cbn [msteps_slots msteps_slot]; lia. }
             exists sf. split; auto. rewrite (iter_add _ _ _ _ Hi1). exact Hi2.
          -- exists 0%nat. split; [intros X; contradiction X; reflexivity|exact I].
        * destruct Hp1 as (nd1 & ky1 & es1 & Hc & Hi1).
          assert (H' : (let '(r0, s'') := vslots St rec rest (S i) p (length anc) s1 in
                        match r0 with
                        | Some (Some (rest', e')) => (Some (Some (SCons (slot_of v) rest', true || e')), s'')
                        | Some None => (Some None, s'')
                        | None => (None, s'')
                        end) = (r, s')) by (destruct v; exact H).
          clear H.
          destruct (vslots St rec rest (S i) p (length anc) s1) as [r2 s2] eqn:E2.
          destruct (IH (S i) (E ++ es1) nd1 ky1 s1 r2 s2 Hd' ltac:(fold klen; lia) E2) as (n2 & Hb2 & Hp2).
          destruct r2 as [[[rest' e']|]|]; inversion H'; subst r s'.
          -- destruct Hp2 as (nd2 & ky2 & es & (He & Hes) & Hi2).
             exists (n1 + n2)%nat. split.
             { intros _. apply (bounded_comb _ _ _ _ _ _ _ (Hb1 ltac:(discriminate)) (Hb2 ltac:(discriminate)) 0); cbn [msteps_slots msteps_slot]; lia. }
             exists nd2, ky2, (es1 ++ es). split.
             { split.
               - rewrite is_nil_app, (es_child_nonnil _ _ _ Hc). reflexivity.
               - intros pre Hl. rewrite apply_node_app, (es_child_node _ _ _ _ _ _ Hc Hl).
                 specialize (Hes (sapp pre (SCons (slot_of v) SNil))). rewrite slen_snoc, !sapp_snoc in Hes.
                 apply Hes. lia. }
             rewrite (iter_add _ _ _ _ Hi1), app_assoc. exact Hi2.
          -- destruct Hp2 as (sf & Hi2 & Hv). exists (n1 + n2)%nat. split.
             { intros _. apply (bounded_comb _ _ _ _ _ _ _ (Hb1 ltac:(discriminate)) (Hb2 ltac:(discriminate)) 0); cbn [msteps_slots msteps_slot]; lia. }
             exists sf. split; auto. rewrite (iter_add _ _ _ _ Hi1). exact Hi2.
          -- exists 0%nat. split; [intros X; contradiction X; reflexivity|exact I].
        * inversion H; subst. exists 0%nat. split; [intros X; contradiction X; reflexivity|exact I].
      + (* array slot *)
        assert (S1 := step_enter_arr stk i klen E nd0 ky0 P p anc s l ltac:(lia) Hn).
        destruct (vtrees St rec l 0%nat (p ++ [KName i]) (S (length anc)) s) as [rt s1] eqn:Et.
        destruct (trees_sim rec Hrec l (mkFrame false i klen E :: stk) (p ++ [KName i]) (VNode P :: anc)
                    ltac:(discriminate) l 0%nat [] (Some (VArr l)) (KName i) s rt s1 eq_refl ltac:(lia) Et)
          as (n1 & Hb1 & Hp1).
        destruct rt as [[[l' e]|]|].
        * destruct Hp1 as (nd1 & ky1 & esa & (Hea & Hesa) & Hi1). cbn [app] in Hi1.
          destruct (step_leave_arr stk i klen E nd1 ky1 P p anc s1 l esa Hstk) as (nd2 & ky2 & S2).
          destruct (vslots St rec rest (S i) p (length anc) s1) as [r2 s2] eqn:E2.
          set (E1 := if is_nil esa then E else E ++ [(KName i, EVal (VArr (apply_arr esa l 0%nat)))]) in *.
          destruct (IH (S i) E1 nd2 ky2 s1 r2 s2 Hd' ltac:(fold klen; lia) E2) as (n2 & Hb2 & Hp2).
          assert (Hrun : iter (S (n1 + 1)) (mkM stk false i klen E nd0 ky0 (Some (VNode P)) p anc s)
                         = Next (mkM stk false (S i) klen E1 nd2 ky2 (Some (VNode P)) p anc s1)).
          { rewrite iter_first, S1. rewrite (iter_step _ _ _ Hi1). exact S2. }
          destruct r2 as [[[rest' e']|]|]; inversion H; subst r s'.
          -- destruct Hp2 as (nd3 & ky3 & es & (He & Hes) & Hi2).
             exists (S (n1 + 1) + n2)%nat. split.
             { intros _. apply (bounded_comb _ _ _ _ _ _ _ (Hb1 ltac:(discriminate)) (Hb2 ltac:(discriminate)) 2); cbn [msteps_slots msteps_slot]; lia. }
             exists nd3, ky3, ((if is_nil esa then [] else [(KName i, EVal (VArr (apply_arr esa l 0%nat)))]) ++ es).
             split.
             { split.
               - rewrite is_nil_app, Hea, He. destruct (is_nil esa); reflexivity.
               - intros pre Hl. rewrite apply_node_app.
                 specialize (Hes (sapp pre (SCons (SArr (if e then l' else l)) SNil))).
                 rewrite slen_snoc, !sapp_snoc in Hes. rewrite <- (Hes ltac:(lia)). f_equal.
                 rewrite Hea. destruct (is_nil esa) eqn:En; cbn [negb apply_node]; [reflexivity|].
                 cbn [key_num slot_of_eval]. rewrite <- Hl, slot_set_app. do 3 f_equal.
                 destruct (Hesa TNil 0%nat eq_refl) as (off' & Ha). cbn [tapp] in Ha.
                 rewrite apply_arr_st, Ha. reflexivity. }
             rewrite (iter_add _ _ _ _ Hrun). rewrite Hi2. f_equal. f_equal.
             unfold E1. destruct (is_nil esa); [reflexivity|]. rewrite <- app_assoc. reflexivity.
          -- destruct Hp2 as (sf & Hi2 & Hv). exists (S (n1 + 1) + n2)%nat. split.
             { intros _. apply (bounded_comb _ _ _ _ _ _ _ (Hb1 ltac:(discriminate)) (Hb2 ltac:(discriminate)) 2); cbn [msteps_slots msteps_slot]; lia. }
             exists sf. split; auto. rewrite (iter_add _ _ _ _ Hrun). exact Hi2.
          -- exists 0%nat. split; [intros X; contradiction X; reflexivity|exact I].
        * inversion H; subst r s'. destruct Hp1 as (sf & Hi1 & Hv). exists (S n1). split.
          { intros _. apply (bounded_pad _ _ _ _ (Hb1 ltac:(discriminate)) 1%nat); cbn [msteps_slots msteps_slot]; lia. }
          exists sf. split; auto. rewrite iter_first, S1. exact Hi1.
        * inversion H; subst. exists 0%nat. split; [intros X; contradiction X; reflexivity|exact I].
  Qed.

  (* end of the iteration that leaves a node: pop the path, next index of the outer level; the
     loop ends when the outer stack is empty (the node was the root) *)
  Definition after_leave stk ia idx klen E nd ky opar (p : list key) anc s3 : sres St :=
    let s' := mkM stk ia (S idx) klen E nd ky opar (removelast p) anc s3 in
    match stk with [] => Done false s' | _ => Next s' end.

  Lemma finish_leave ie rn stk ia idx klen E nd k opar p anc s :
    finish St true ie rn (mkM stk ia idx klen E (Some nd) k opar p anc s) nd
    = after_leave stk ia idx klen (if rn && ie then E ++ [(k, EVal nd)] else E) (Some nd) k opar p anc s.
  Proof. unfold finish, after_leave. cbn. destruct stk; reflexivity. Qed.

  Definition leave_es (entered : bool) (node : tree) (k : key) (v : option tree) (es : list edit) : Prop :=
    es = [(k, ev v)] \/ (entered = true /\ es = [] /\ v = Some node).

  Lemma body_sim rec : sim_rec rec ->
    forall node entered k p hp stk ia idx klen E0 opar anc nd0 ky0 s1 r s',
    match opar with Some q => truthy opar = true /\ hp = true | None => hp = false /\ anc = [] end ->
    (match (match opar with Some q => q :: anc | None => anc end) with [] => KNone | _ => last p KNone end) = k ->
    go St decide rec node entered k p (length anc) hp s1 = (r, s') ->
    exists n, (r <> ROutOfFuel -> bounded n (S (msteps_slots (tslots node))) s1 s') /\
      let B := mkM (mkFrame ia idx klen E0 :: stk) false 0%nat (slen (tslots node)) [] nd0 ky0
                   (Some (VNode node)) p (match opar with Some q => q :: anc | None => anc end) s1 in
      match r with
      | ROutOfFuel => True
      | RBreak => exists sf, iter n B = Done true sf /\ m_vs sf = s'
      | RKeep => entered = false /\ exists nd ky, iter n B = after_leave stk ia idx klen E0 nd ky opar p anc s'
      | REdit v => exists nd ky es, leave_es entered node k v es /\
                     iter n B = after_leave stk ia idx klen (E0 ++ es) nd ky opar p anc s'
      end.
  Proof.
    intros Hrec node entered k p hp stk ia idx klen E0 opar anc nd0 ky0 s1 r s' Hctx Hkey H.
    set (anc_in := match opar with Some q => q :: anc | None => anc end) in *.
    assert (Hlen : inner_nanc hp (length anc) = length anc_in).
    { unfold anc_in. destruct opar as [q|]; [destruct Hctx as [_ ->]|destruct Hctx as [-> _]]; reflexivity. }
    assert (Hpar : match anc_in with [] => None | a :: _ => Some a end = opar).
    { unfold anc_in. destruct opar as [q|]; [reflexivity|]. destruct Hctx as [_ ->]. reflexivity. }
    assert (Htl : tl anc_in = anc).
    { unfold anc_in. destruct opar as [q|]; [reflexivity|]. destruct Hctx as [_ ->]. reflexivity. }
    unfold go in H. rewrite Hlen in H.
    destruct (vslots St rec (tslots node) 0%nat p (length anc_in) s1) as [rs s2] eqn:Es.
    destruct (slots_sim rec Hrec node (mkFrame ia idx klen E0 :: stk) p anc_in ltac:(discriminate)
                (tslots node) 0%nat [] nd0 ky0 s1 rs s2 eq_refl ltac:(lia) Es) as (n1 & Hb1 & Hp1).
    destruct rs as [[[ss' edited]|]|].
    - destruct Hp1 as (nd1 & ky1 & es & (He & Hes) & Hi1). cbn [app] in Hi1.
      specialize (Hes SNil eq_refl). cbn [sapp] in Hes.
      set (node' := if edited then Node (tkindof node) (tid node) ss' else node) in *.
      assert (Hap : (if negb (is_nil es) then apply_edits false es (VNode node) else Some (VNode node))
                    = Some (VNode node')).
      { unfold node'. rewrite He. destruct (negb (is_nil es)); [|reflexivity].
        destruct node as [kd id ss]. cbn in *. rewrite Hes. reflexivity. }
      assert (S2 := step_leave (mkFrame ia idx klen E0) stk false (slen (tslots node)) es nd1 ky1 (VNode node)
                               p anc_in s2 (VNode node') Hap).
      rewrite Hkey, Hpar, Htl in S2. cbn [f_in_array f_idx f_klen f_edits] in S2.
      unfold visit_phase in S2. cbn [m_key m_path m_anc m_vs] in S2.
      destruct (do_call St decide Leave node' k p (length anc) s2) as [a2 s3] eqn:Ed.
      rewrite <- He in S2.
      assert (Hrun : iter (n1 + 1) (mkM (mkFrame ia idx klen E0 :: stk) false 0%nat (slen (tslots node)) [] nd0 ky0
                                        (Some (VNode node)) p anc_in s1) = _) by (rewrite (iter_step _ _ _ Hi1); exact S2).
      assert (Hbound : bounded (n1 + 1) (S (msteps_slots (tslots node))) s1 s3).
      { apply (bounded_tail _ _ _ s2); [|exact (leave_nrep _ _ _ _ _ _ _ Ed)].
        apply (bounded_pad _ _ _ _ (Hb1 ltac:(discriminate)) 1%nat); lia. }
      exists (n1 + 1)%nat.
      destruct a2 as [| | | |t2].
      + (* idle *)
        unfold set_vs in Hrun. cbn [m_stack m_in_array m_nxt m_klen m_edits m_node m_key m_parent m_path m_anc] in Hrun.
        rewrite finish_leave in Hrun. cbn [andb] in Hrun.
        destruct edited; cbn [orb] in H.
        * inversion H; subst r s'. split; [auto|]. do 2 eexists. exists [(k, EVal (VNode node'))]. split; [left; reflexivity|exact Hrun].
        * destruct entered; cbn in H; inversion H; subst r s'.
          -- split; [auto|]. do 2 eexists. exists []. split; [right; auto|]. rewrite app_nil_r. exact Hrun.
          -- split; [auto|]. split; [reflexivity|]. do 2 eexists. exact Hrun.
      + (* skip on leave = no action *)
        unfold set_vs in Hrun. cbn [m_stack m_in_array m_nxt m_klen m_edits m_node m_key m_parent m_path m_anc] in Hrun.
        rewrite finish_leave in Hrun. cbn [andb] in Hrun.
        destruct edited; cbn [orb] in H.
        * inversion H; subst r s'. split; [auto|]. do 2 eexists. exists [(k, EVal (VNode node'))]. split; [left; reflexivity|exact Hrun].
        * destruct entered; cbn in H; inversion H; subst r s'.
          -- split; [auto|]. do 2 eexists. exists []. split; [right; auto|]. rewrite app_nil_r. exact Hrun.
          -- split; [auto|]. split; [reflexivity|]. do 2 eexists. exact Hrun.
      + (* break *)
        inversion H; subst r s'. split; [auto|]. eexists. split; [exact Hrun|reflexivity].
      + (* remove *)
        unfold set_vs, push_edit in Hrun.
        cbn [m_stack m_in_array m_nxt m_klen m_edits m_node m_key m_parent m_path m_anc m_vs] in Hrun.
        rewrite finish_leave in Hrun. cbn [andb] in Hrun. inversion H; subst r s'.
        split; [auto|]. do 2 eexists. exists [(k, ERemove)]. split; [left; reflexivity|exact Hrun].
      + (* replace *)
        unfold set_vs, push_edit in Hrun.
        cbn [m_stack m_in_array m_nxt m_klen m_edits m_node m_key m_parent m_path m_anc m_vs] in Hrun.
        rewrite finish_leave in Hrun. cbn [andb] in Hrun. inversion H; subst r s'.
        split; [auto|]. do 2 eexists. exists [(k, EVal (VNode t2))]. split; [left; reflexivity|exact Hrun].
    - inversion H; subst r s'. destruct Hp1 as (sf & Hi1 & Hv). exists n1. split.
      + intros _. apply (bounded_pad _ _ _ _ (Hb1 ltac:(discriminate)) 0%nat); lia.
      + exists sf. auto.
    - inversion H; subst r s'. exists 0%nat. split; [intros X; contradiction X; reflexivity|exact I].
  Qed.

  Lemma after_leave_next stk ia idx klen E nd ky opar p anc s3 : stk <> [] ->
    after_leave stk ia idx klen E nd ky opar p anc s3
    = Next (mkM stk ia (S idx) klen E nd ky opar (removelast p) anc s3).
  Proof. intros H. unfold after_leave. destruct stk; [contradiction|reflexivity]. Qed.

  Lemma node_sim rec : sim_rec rec -> sim_rec (node_step St decide rec).
  Proof.
    intros Hrec c stk ia idx klen E par path anc nd0 ky0 s r s' Hstk Hf Ht Hn H.
    set (k := if ia then KIdx idx else KName idx) in *.
    assert (S1 := step_child stk ia idx klen E nd0 ky0 par path anc s (VNode c) Hn Ht Hf). fold k in S1.
    unfold node_step in H. unfold visit_phase in S1. cbn [m_key m_path m_anc m_vs] in S1.
    destruct (do_call St decide Enter c k (path ++ [k]) (length anc) s) as [a s1] eqn:Ed.
    assert (Hm : (2 <= msteps c)%nat) by (destruct c; cbn; lia).
    destruct a as [| | | |t'].
    - (* idle: descend *)
      unfold finish, set_vs in S1.
      cbn [m_stack m_in_array m_nxt m_klen m_edits m_node m_key m_parent m_path m_anc m_vs andb is_arr vlen] in S1.
      rewrite Ht in S1.
      destruct (body_sim rec Hrec c false k (path ++ [k]) true stk ia idx klen E (Some par) anc
                  (Some (VNode c)) k s1 r s' (conj Ht eq_refl) ltac:(apply last_snoc) H) as (n1 & Hb1 & Hp1).
      cbv zeta in Hp1.
      exists (S n1). split.
      { intros Hr. apply (bounded_enter _ _ _ _ _ _ _ _ _ _ Ed (Hb1 Hr)). destruct c; cbn. lia. }
      rewrite iter_first, S1.
      destruct r as [| |v|]; cbn [child_post].
      + exact Hp1.
      + destruct Hp1 as (_ & nd & ky & Hi). rewrite after_leave_next, removelast_snoc in Hi by assumption.
        do 2 eexists. exact Hi.
      + destruct Hp1 as (nd & ky & es & Hl & Hi). rewrite after_leave_next, removelast_snoc in Hi by assumption.
        exists nd, ky, es. split; [|exact Hi].
        destruct Hl as [->|(X & _)]; [left; reflexivity|discriminate].
      + exact I.
    - (* skip *)
      inversion H; subst r s'. exists 1%nat. split; [intros _; apply (bounded_enter _ _ _ _ _ _ _ _ _ _ Ed (bounded_refl 0 _)); lia|].
      cbn [child_post iter]. rewrite S1. unfold skip_child, set_vs.
      cbn [m_stack m_in_array m_nxt m_klen m_edits m_node m_key m_parent m_path m_anc m_vs].
      destruct stk; [contradiction|]. rewrite removelast_snoc. do 2 eexists. reflexivity.
    - (* break *)
      inversion H; subst r s'. exists 1%nat. split; [intros _; apply (bounded_enter _ _ _ _ _ _ _ _ _ _ Ed (bounded_refl 0 _)); lia|].
      cbn [child_post iter]. rewrite S1. eexists. split; reflexivity.
    - (* remove *)
      inversion H; subst r s'. exists 1%nat. split; [intros _; apply (bounded_enter _ _ _ _ _ _ _ _ _ _ Ed (bounded_refl 0 _)); lia|].
      cbn [child_post iter]. rewrite S1. unfold skip_child, set_vs, push_edit.
      cbn [m_stack m_in_array m_nxt m_klen m_edits m_node m_key m_parent m_path m_anc m_vs].
      destruct stk; [contradiction|]. rewrite removelast_snoc.
      do 2 eexists. exists [(k, ERemove)]. split; [left; reflexivity|reflexivity].
    - (* replace: descend into the replacement *)
      unfold finish, set_vs, push_edit, set_node in S1.
      cbn [m_stack m_in_array m_nxt m_klen m_edits m_node m_key m_parent m_path m_anc m_vs andb is_arr vlen] in S1.
      rewrite Ht in S1.
      destruct (body_sim rec Hrec t' true k (path ++ [k]) true stk ia idx klen (E ++ [(k, EVal (VNode t'))])
                  (Some par) anc (Some (VNode t')) k s1 r s' (conj Ht eq_refl) ltac:(apply last_snoc) H)
        as (n1 & Hb1 & Hp1).
      cbv zeta in Hp1.
      exists (S n1). split.
      { intros Hr. apply (bounded_enter _ _ _ _ _ _ _ _ _ _ Ed (Hb1 Hr)). reflexivity. }
      rewrite iter_first, S1.
      destruct r as [| |v|]; cbn [child_post].
      + exact Hp1.
      + destruct Hp1 as (X & _). discriminate.
      + destruct Hp1 as (nd & ky & es & Hl & Hi). rewrite after_leave_next, removelast_snoc in Hi by assumption.
        rewrite <- app_assoc in Hi.
        exists nd, ky, ([(k, EVal (VNode t'))] ++ es). split; [|exact Hi].
        destruct Hl as [->|(_ & -> & ->)]; [right; exists t'; reflexivity|left; reflexivity].
      + exact I.
  Qed.

  Theorem sim_all : forall f, sim_rec (visit_tree St decide f).
  Proof.
    induction f as [|f IH].
    - intros c stk ia idx klen E par path anc nd0 ky0 s r s' _ _ _ _ H. cbn in H. inversion H; subst.
      exists 0%nat. split; [intros X; contradiction X; reflexivity|exact I].
    - cbn [visit_tree]. apply node_sim. exact IH.
  Qed.

  (* ---- the root ---- *)
  Definition res_match (r : res) (b : bool) (mr : mres) : Prop :=
    match r with
    | RBreak => b = true
    | RKeep => b = false /\ mr = MRoot
    | REdit v => b = false /\ mr = MVal (ev v)
    | ROutOfFuel => False
    end.

  Lemma step_root root vs :
    stepf (init St root vs) = vphase false false (init St root vs) (VNode root).
  Proof. reflexivity. Qed.

  Lemma root_sim f root vs r vs' :
    visit_tree St decide f root KNone [] 0%nat false vs = (r, vs') -> r <> ROutOfFuel ->
    exists n sf b, bounded n (msteps root) vs vs' /\
                   iter n (init St root vs) = Done b sf /\ m_vs sf = vs' /\ res_match r b (final St sf).
  Proof.
    destruct f as [|f]; intros H Hr; [cbn in H; inversion H; subst; contradiction Hr; reflexivity|].
    cbn [visit_tree] in H. unfold node_step in H.
    assert (S1 := step_root root vs). unfold init. unfold visit_phase, init in S1. cbn [m_key m_path m_anc m_vs length] in S1.
    destruct (do_call St decide Enter root KNone [] 0%nat vs) as [a s1] eqn:Ed.
    assert (Hm : (2 <= msteps root)%nat) by (destruct root; cbn; lia).
    assert (Hone : forall x, match x with Replace _ => False | _ => True end -> a = x ->
                   bounded 1 (msteps root) vs s1).
    { intros x Hx ->. apply (bounded_enter _ _ _ _ _ _ _ _ _ _ Ed (bounded_refl 0 _)). destruct x; try contradiction; lia. }
    destruct a as [| | | |t'].
    - unfold finish, set_vs in S1.
      cbn [m_stack m_in_array m_nxt m_klen m_edits m_node m_key m_parent m_path m_anc m_vs andb is_arr vlen] in S1.
      destruct (body_sim (visit_tree St decide f) (sim_all f) root false KNone [] false [] false 0%nat 1%nat []
                  None [] (Some (VNode root)) KNone s1 r vs' (conj eq_refl eq_refl) eq_refl H) as (n1 & Hb1 & Hp1).
      cbv zeta in Hp1. unfold after_leave in Hp1.
      assert (HB : bounded (S n1) (msteps root) vs vs').
      { apply (bounded_enter _ _ _ _ _ _ _ _ _ _ Ed (Hb1 Hr)). destruct root; cbn. lia. }
      destruct r as [| |v|].
      + destruct Hp1 as (sf & Hi & Hv). exists (S n1), sf, true. rewrite iter_first, S1.
        split; [exact HB|]. split; [exact Hi|]. split; [exact Hv|reflexivity].
      + destruct Hp1 as (_ & nd & ky & Hi). do 2 eexists. exists false. rewrite iter_first, S1.
        split; [exact HB|]. split; [exact Hi|]. split; [reflexivity|]. split; reflexivity.
      + destruct Hp1 as (nd & ky & es & Hl & Hi). do 2 eexists. exists false. rewrite iter_first, S1.
        split; [exact HB|]. split; [exact Hi|]. split; [reflexivity|].
        destruct Hl as [->|(X & _)]; [|discriminate]. split; reflexivity.
      + contradiction Hr; reflexivity.
    - inversion H; subst r vs'. exists 1%nat. do 2 eexists. split; [exact (Hone Skip I eq_refl)|].
      cbn [iter]. rewrite S1. unfold skip_child, set_vs. cbn. repeat split.
    - inversion H; subst r vs'. exists 1%nat. do 2 eexists. split; [exact (Hone Break I eq_refl)|].
      cbn [iter]. rewrite S1. repeat split.
    - inversion H; subst r vs'. exists 1%nat. do 2 eexists. split; [exact (Hone Remove I eq_refl)|].
      cbn [iter]. rewrite S1. unfold skip_child, set_vs, push_edit. cbn. repeat split.
    - unfold finish, set_vs, push_edit, set_node in S1.
      cbn [m_stack m_in_array m_nxt m_klen m_edits m_node m_key m_parent m_path m_anc m_vs andb is_arr vlen app] in S1.
      destruct (body_sim (visit_tree St decide f) (sim_all f) t' true KNone [] false [] false 0%nat 1%nat
                  [(KNone, EVal (VNode t'))]
                  None [] (Some (VNode t')) KNone s1 r vs' (conj eq_refl eq_refl) eq_refl H) as (n1 & Hb1 & Hp1).
      cbv zeta in Hp1. unfold after_leave in Hp1.
      assert (HB : bounded (S n1) (msteps root) vs vs').
      { apply (bounded_enter _ _ _ _ _ _ _ _ _ _ Ed (Hb1 Hr)). reflexivity. }
      destruct r as [| |v|].
      + destruct Hp1 as (sf & Hi & Hv). exists (S n1), sf, true. rewrite iter_first, S1.
        split; [exact HB|]. split; [exact Hi|]. split; [exact Hv|reflexivity].
      + destruct Hp1 as (X & _). discriminate.
      + destruct Hp1 as (nd & ky & es & Hl & Hi). do 2 eexists. exists false. rewrite iter_first, S1.
        split; [exact HB|]. split; [exact Hi|]. split; [reflexivity|].
        destruct Hl as [->|(_ & -> & ->)]; split; reflexivity.
      + contradiction Hr; reflexivity.
  Qed.

  Lemma nrep_rev lg : nrep (rev lg) = nrep lg.
  Proof.
    unfold nrep. induction lg as [|c r IH]; [reflexivity|].
    cbn [rev filter]. rewrite filter_app, app_length, IH. cbn [filter]. destruct (is_rep c); cbn; lia.
  Qed.

  (* [log] is the model's call log; nrep log = how many times it replaced a node on enter *)
  Theorem machine_refines_model f root s0 r s log :
    visit St decide f root s0 = (r, s, log) -> r <> ROutOfFuel ->
    exists n, (NR -> (n <= msteps root)%nat) /\
      (forall R, HR R -> (n <= msteps root + R * nrep log)%nat) /\
      forall fuel, (n <= fuel)%nat ->
        exists b mr, visit_machine St decide fuel root s0 = MRet b mr s log /\ res_match r b mr.
  Proof.
    unfold visit. destruct (visit_tree St decide f root KNone [] 0%nat false (s0, [])) as [r0 [s1 lg]] eqn:E.
    intros H Hr. inversion H; subst r0 s1 log. clear H.
    destruct (root_sim f root (s0, []) r (s, lg) E Hr) as (n & sf & b & [Hb1 Hb2] & Hi & Hv & Hm).
    exists n. split; [exact Hb1|]. split.
    { intros R HRr. specialize (Hb2 R HRr). cbn [snd] in Hb2. rewrite nrep_rev. unfold nrep at 1 in Hb2. cbn in Hb2. lia. }
    intros fuel Hf. exists b, (final St sf). split; [|exact Hm].
    unfold visit_machine. rewrite (iter_run _ _ _ _ Hi fuel Hf), Hv. reflexivity.
  Qed.

  (* explicit step budget for visitors that replace on enter: the tree, plus R per replacement made *)
  Theorem machine_fuel_general R : HR R -> forall f root s0 r s log,
    visit St decide f root s0 = (r, s, log) -> r <> ROutOfFuel ->
    forall fuel, (msteps root + R * nrep log <= fuel)%nat ->
      exists b mr, visit_machine St decide fuel root s0 = MRet b mr s log /\ res_match r b mr.
  Proof.
    intros HRr f root s0 r s log E Hr fuel Hf.
    destruct (machine_refines_model _ _ _ _ _ _ E Hr) as (n & _ & Hb & Hm).
    apply Hm. specialize (Hb R HRr). lia.
  Qed.

  (* ---- without replacement on enter the recursive model needs fuel = depth only ---- *)
  Definition total_upto (rec : visit_fn St) (d : nat) : Prop :=
    forall t, (depth_tree t <= d)%nat -> forall k p n h s, fst (rec t k p n h s) <> ROutOfFuel.

  Lemma vtrees_total rec d : total_upto rec d -> forall l, (depth_trees l <= d)%nat ->
    forall j p n s, fst (vtrees St rec l j p n s) <> None.
  Proof.
    intros Hr. induction l as [|c rest IH]; intros Hd j p n s; cbn in *; [discriminate|].
    pose proof (Hr c ltac:(lia) (KIdx j) (p ++ [KIdx j]) n true s) as Hc.
    destruct (rec c (KIdx j) (p ++ [KIdx j]) n true s) as [r s1]. cbn in Hc.
    pose proof (IH ltac:(lia) (S j) p n s1) as Hrest.
    destruct (vtrees St rec rest (S j) p n s1) as [[[[rest' e']|]|] s2]; cbn in Hrest;
      destruct r as [| |[v|]|]; cbn; try discriminate; try contradiction; congruence.
  Qed.

  Lemma vslots_total rec d : total_upto rec d -> forall ss, (depth_slots ss <= d)%nat ->
    forall i p n s, fst (vslots St rec ss i p n s) <> None.
  Proof.
    intros Hr. induction ss as [|sl rest IH]; intros Hd i p n s; cbn [vslots]; [cbn; discriminate|].
    cbn in Hd. destruct sl as [|c|l]; cbn in Hd.
    - pose proof (IH ltac:(lia) (S i) p n s) as Hrest.
      destruct (vslots St rec rest (S i) p n s) as [[[[rest' e']|]|] s2]; cbn in *; congruence.
    - pose proof (Hr c ltac:(lia) (KName i) (p ++ [KName i]) n true s) as Hc.
      destruct (rec c (KName i) (p ++ [KName i]) n true s) as [r s1]. cbn in Hc.
      pose proof (IH ltac:(lia) (S i) p n s1) as Hrest.
      destruct (vslots St rec rest (S i) p n s1) as [[[[rest' e']|]|] s2]; cbn in Hrest;
        destruct r as [| |[v|]|]; cbn; try discriminate; try contradiction; congruence.
    - pose proof (vtrees_total rec d Hr l ltac:(lia) 0%nat (p ++ [KName i]) (S n) s) as Hl.
      destruct (vtrees St rec l 0%nat (p ++ [KName i]) (S n) s) as [[[[l' e]|]|] s1]; cbn in Hl;
        try discriminate; try contradiction.
      pose proof (IH ltac:(lia) (S i) p n s1) as Hrest.
      destruct (vslots St rec rest (S i) p n s1) as [[[[rest' e']|]|] s2]; cbn in *; congruence.
  Qed.

  Lemma nr_total : NR -> forall f, total_upto (visit_tree St decide f) f.
  Proof.
    intros HN. induction f as [|f IH]; intros t Hd k p n h s.
    - destruct t; cbn in Hd; lia.
    - cbn [visit_tree]. unfold node_step.
      destruct (do_call St decide Enter t k p n s) as [a s1] eqn:Ed.
      pose proof (HN t (fst s)) as Hn. rewrite (do_call_action _ _ _ _ _ _ _ _ Ed) in Hn.
      destruct a; try contradiction; cbn; try discriminate.
      unfold go. destruct t as [kd id ss]. cbn [tslots]. cbn in Hd.
      pose proof (vslots_total _ f IH ss ltac:(lia) 0%nat p (inner_nanc h n) s1) as Hs.
      destruct (vslots St (visit_tree St decide f) ss 0%nat p (inner_nanc h n) s1) as [[[[ss' e]|]|] s2];
        cbn in Hs; try contradiction; cbn; try discriminate.
      destruct (do_call St decide Leave _ k p n s2) as [a2 s3].
      destruct a2; cbn; try discriminate; destruct (e || false); cbn; discriminate.
  Qed.

  Theorem machine_fuel_sufficient : NR -> forall root s0 fuel, (msteps root <= fuel)%nat ->
    exists r s log b mr, r <> ROutOfFuel /\ visit St decide (depth_tree root) root s0 = (r, s, log) /\
      visit_machine St decide fuel root s0 = MRet b mr s log /\ res_match r b mr.
  Proof.
    intros HN root s0 fuel Hf.
    destruct (visit St decide (depth_tree root) root s0) as [[r s] log] eqn:E.
    assert (Hr : r <> ROutOfFuel).
    { unfold visit in E. pose proof (nr_total HN (depth_tree root) root (le_n _) KNone [] 0%nat false (s0, [])) as T.
      destruct (visit_tree St decide (depth_tree root) root KNone [] 0%nat false (s0, [])) as [r0 [s1 lg]].
      inversion E; subst. exact T. }
    destruct (machine_refines_model _ _ _ _ _ _ E Hr) as (n & Hb & _ & Hm).
    destruct (Hm fuel ltac:(specialize (Hb HN); lia)) as (b & mr & Hv & Hres).
    exists r, s, log, b, mr. auto.
  Qed.

  (* ---- a visitor that never edits: every `edits` list stays empty; the root object is returned ---- *)
  Definition noedits (s : ms) : Prop := m_edits s = [] /\ Forall (fun fr => f_edits fr = []) (m_stack s).

  Definition post_noedits (o : sres St) : Prop :=
    match o with Next s' | Done _ s' => noedits s' | Stuck => True end.

  Lemma finish_noedit il rn s nd : noedits s -> post_noedits (finish St il false rn s nd).
  Proof.
    intros [HE HS]. unfold finish. rewrite andb_false_r. destruct il.
    - destruct (m_stack s) eqn:Es; cbn; (split; cbn; [exact HE|try rewrite Es; try rewrite Es in HS; exact HS]).
    - cbn. split; cbn; [reflexivity|]. constructor; [exact HE|exact HS].
  Qed.

  Lemma vphase_noedit : non_editing St decide -> forall il s nd, noedits s -> post_noedits (vphase il false s nd).
  Proof.
    intros Hne il s nd Hs. unfold visit_phase. destruct nd as [t|l]; [|apply finish_noedit; exact Hs].
    destruct (do_call St decide (if il then Leave else Enter) t (m_key s) (m_path s) (length (m_anc s)) (m_vs s))
      as [a vs'] eqn:Ed.
    pose proof (Hne (if il then Leave else Enter) t (fst (m_vs s))) as Hn.
    rewrite (do_call_action _ _ _ _ _ _ _ _ Ed) in Hn.
    assert (Hs1 : noedits (set_vs St s vs')) by exact Hs.
    destruct a; try contradiction.
    - apply finish_noedit; exact Hs1.
    - destruct il; [apply finish_noedit; exact Hs1|].
      unfold skip_child. destruct (m_stack (set_vs St s vs')) eqn:Es; cbn; [exact Hs1|].
      destruct Hs1 as [A B]. split; cbn; [exact A|]. rewrite <- Es. exact B.
    - exact Hs1.
  Qed.

  Lemma step_noedit : non_editing St decide -> forall s, noedits s -> post_noedits (stepf s).
  Proof.
    intros Hne s Hs. unfold step. destruct Hs as [HE HS]. rewrite HE. cbn [is_nil negb]. rewrite andb_false_r.
    destruct (m_nxt s =? m_klen s)%nat.
    - destruct (m_parent s) as [nd0|]; [|exact I]. destruct (m_stack s) as [|fr K] eqn:Es; [exact I|].
      inversion HS; subst.
      destruct (m_anc s); apply vphase_noedit; auto; split; cbn; auto.
    - destruct (truthy (m_parent s)).
      + destruct (m_parent s) as [p|]; [|exact I]. destruct (fetch p (m_in_array s) (m_nxt s)).
        * exact I.
        * split; cbn; auto.
        * apply vphase_noedit; auto. split; cbn; auto.
      + destruct (m_node s); [|exact I]. apply vphase_noedit; auto. split; auto.
  Qed.

  Lemma run_noedit : non_editing St decide -> forall fuel s, noedits s ->
    match run_steps St decide fuel s with MDone _ sf => noedits sf | _ => True end.
  Proof.
    intros Hne. induction fuel as [|f IH]; intros s Hs; cbn; [exact I|].
    pose proof (step_noedit Hne s Hs) as P. destruct (stepf s) as [s1|b s1|]; cbn in P; [apply IH; exact P|exact P|exact I].
  Qed.

  Theorem machine_no_edit_identity : non_editing St decide -> forall fuel root s0,
    match visit_machine St decide fuel root s0 with MRet _ mr _ _ => mr = MRoot | _ => True end.
  Proof.
    intros Hne fuel root s0. unfold visit_machine.
    pose proof (run_noedit Hne fuel (init St root (s0, [])) (conj eq_refl (Forall_nil _))) as P.
    destruct (run_steps St decide fuel (init St root (s0, []))); auto.
    destruct P as [A _]. unfold final. rewrite A. reflexivity.
  Qed.
End Sim.

(* ---- corollaries for particular visitors ---- *)
Lemma idle_NR : NR unit idle_dec.
Proof. intros t s. exact I. Qed.

Theorem machine_idle_log root :
  visit_machine unit idle_dec (msteps root) root tt = MRet false MRoot tt (dfs_tree root KNone [] 0%nat false).
Proof.
  destruct (machine_refines_model unit idle_dec _ _ _ _ _ _ (idle_visit_log root) ltac:(discriminate))
    as (n & Hb & _ & Hm).
  destruct (Hm (msteps root) (Hb idle_NR)) as (b & mr & Hv & Hb' & Hr). subst. exact Hv.
Qed.

(* ---- ParallelVisitor on the machine ---- *)
Lemma ib_NR St decide : idle_or_break St decide -> NR St decide.
Proof. intros H t s. destruct (H Enter t s) as [-> | ->]; exact I. Qed.

Lemma ib_non_editing St decide : idle_or_break St decide -> non_editing St decide.
Proof. intros H ph t s. destruct (H ph t s) as [-> | ->]; exact I. Qed.

Lemma scripted_NR sc : script_ne sc -> NR unit (scripted sc).
Proof.
  intros H t s. unfold scripted. cbn [fst].
  destruct (lookup_ne sc (tid t) Enter H) as [-> | [-> | ->]]; exact I.
Qed.

Theorem machine_parallel_projection root scs i sc :
  Forall script_ne scs -> NoDup (ids_tree root) -> nth_error scs i = Some sc ->
  forall fuel, (msteps root <= fuel)%nat ->
  exists b ps log b' log',
    machine_parallel fuel root scs = MRet b MRoot ps log /\
    machine_scripted fuel root sc = MRet b' MRoot tt log' /\
    projsub i (rev (snd ps)) = proj_log log'.
Proof.
  intros Hne Hnd Hi fuel Hf.
  assert (Hsc : script_ne sc).
  { rewrite Forall_forall in Hne. apply Hne. eapply nth_error_In; eauto. }
  pose proof (parallel_projection (depth_tree root) root scs i sc Hne Hnd (le_n _) Hi) as P.
  unfold visit_parallel, visit_scripted in P.
  destruct (machine_fuel_sufficient pstate (parallel scs) (ib_NR _ _ (parallel_ib scs Hne)) root
              (map (fun _ => SkNone) scs, []) fuel Hf) as (r & ps & log & b & mr & _ & E1 & M1 & _).
  destruct (machine_fuel_sufficient unit (scripted sc) (scripted_NR sc Hsc) root tt fuel Hf)
    as (r' & u & log' & b' & mr' & _ & E2 & M2 & _).
  rewrite E1, E2 in P. cbn [snd] in P. destruct u.
  pose proof (machine_no_edit_identity pstate (parallel scs) (ib_non_editing _ _ (parallel_ib scs Hne)) fuel root
                (map (fun _ => SkNone) scs, [])) as I1.
  unfold machine_parallel. rewrite M1 in I1. subst mr.
  assert (I2 : mr' = MRoot).
  { assert (Hn2 : non_editing unit (scripted sc)).
    { intros ph t s. unfold scripted. cbn [fst]. destruct (lookup_ne sc (tid t) ph Hsc) as [-> | [-> | ->]]; exact I. }
    pose proof (machine_no_edit_identity unit (scripted sc) Hn2 fuel root tt) as X. rewrite M2 in X. exact X. }
  subst mr'. exists b, ps, log, b', log'. unfold machine_scripted. auto.
Qed.

(* ---- scripted visitors: R = the largest replacement tree of the script ---- *)
Fixpoint script_R (sc : script) : nat :=
  match sc with
  | [] => O
  | (_, _, Replace t) :: r => Nat.max (msteps t) (script_R r)
  | _ :: r => script_R r
  end.

Lemma lookup_R sc id ph :
  match lookup_script sc id ph with Replace t' => (msteps t' <= script_R sc)%nat | _ => True end.
Proof.
  induction sc as [|[[i p] a] r IH]; cbn [lookup_script script_R]; [exact I|].
  destruct ((i =? id) && phase_eqb p ph).
  - destruct a; try exact I. lia.
  - destruct (lookup_script r id ph); try exact I. destruct a; lia.
Qed.

Lemma scripted_HR sc : HR unit (scripted sc) (script_R sc).
Proof. intros t s. unfold scripted. cbn [fst]. apply lookup_R. Qed.

Theorem machine_scripted_fuel sc f root r log :
  visit_scripted f root sc = (r, log) -> r <> ROutOfFuel ->
  forall fuel, (msteps root + script_R sc * nrep log <= fuel)%nat ->
    exists b mr, machine_scripted fuel root sc = MRet b mr tt log /\ res_match r b mr.
Proof.
  unfold visit_scripted, machine_scripted.
  destruct (visit unit (scripted sc) f root tt) as [[r0 u] lg] eqn:E. destruct u.
  intros H Hr fuel Hf. inversion H; subst r0 lg.
  exact (machine_fuel_general unit (scripted sc) (script_R sc) (scripted_HR sc) f root tt r tt log E Hr fuel Hf).
Qed.
