(* Executable model of src/graphql/language/printer.py (print_ast).  Definitions only; proofs in
   PrinterProps.v.

   print_ast is visit(ast, PrintAstVisitor()): bottom-up, every node is replaced by the string its
   leave_* method builds from the already printed children.  The model does the same:
     pp_doc (Nd k attrs) = leave k (attributes with the child nodes replaced by their printed form).

   A printed string is represented as a [doc]: the list of its pieces, each piece either a lexeme
   (tagged with the token (kind, value) it is meant to denote) or a layout gap (spaces, commas, line
   feeds).  The text is the concatenation [flat]; the tags never influence it.  All decisions of the
   printer that look at strings (truthiness, len(...) > 80, "\n" in item, startswith("{"),
   endswith("}"), prefix == "query", str.replace("\n", "\n  ")) are taken on the text. *)
From GV Require Import Base.Prelude Lang.Lexer Lang.Ast Lang.Parser Lang.PrintString Lang.BlockString.

Inductive item : Type :=
| Gap (g : list N)
| Lx (k : N) (v lx : list N).

Definition doc : Type := list item.

Definition item_text (i : item) : list N := match i with Gap g => g | Lx _ _ lx => lx end.
Definition flat (d : doc) : list N := flat_map item_text d.

(* Python truthiness of a str *)
Definition truthy (d : doc) : bool := match flat d with [] => false | _ => true end.

(* ---- literals ---- *)
Definition lit (c : N) (k : N) : item := Lx k [] [c].
Definition kw (s : list N) : doc := [Lx K_NAME s s].
Definition sp : item := Gap [32].
Definition nl : item := Gap [LF].
Definition p_bang := lit 33 K_BANG.      Definition p_dollar := lit 36 K_DOLLAR.
Definition p_amp := lit 38 K_AMP.        Definition p_lparen := lit 40 K_PAREN_L.
Definition p_rparen := lit 41 K_PAREN_R. Definition p_colon := lit 58 K_COLON.
Definition p_equals := lit 61 K_EQUALS.  Definition p_at := lit 64 K_AT.
Definition p_lbracket := lit 91 K_BRACKET_L. Definition p_rbracket := lit 93 K_BRACKET_R.
Definition p_lbrace := lit 123 K_BRACE_L.    Definition p_pipe := lit 124 K_PIPE.
Definition p_rbrace := lit 125 K_BRACE_R.
Definition p_spread : item := Lx K_SPREAD [] [46; 46; 46].
Definition p_dot : item := lit 46 K_DOT.
Definition comma_sp : doc := [Gap [44; 32]].          (* ", " *)
Definition colon_sp : doc := [p_colon; sp].           (* ": " *)

(* ---- the helpers at the end of printer.py ---- *)
(* join(strings, separator): the non-empty strings, joined *)
Fixpoint join_ne (sep : doc) (parts : list doc) : doc :=
  match parts with
  | [] => []
  | [p] => p
  | p :: r => p ++ sep ++ join_ne sep r
  end.
Definition join (sep : doc) (parts : list doc) : doc := join_ne sep (filter truthy parts).

(* wrap(start, string, end) *)
Definition wrap (start d stop : doc) : doc := if truthy d then start ++ d ++ stop else [].

(* string.replace("\n", "\n  ") piece by piece *)
Definition indent_item (pad : list N) (i : item) : item :=
  match i with
  | Gap g => Gap (indent_by pad g)
  | Lx k v lx => Lx k v (indent_by pad lx)
  end.
Definition pad2 : list N := [32; 32].
Definition indent (d : doc) : doc := wrap [Gap pad2] (map (indent_item pad2) d) [].

(* block(strings) *)
Definition block (parts : list doc) : doc :=
  wrap [p_lbrace; nl] (indent (join [nl] parts)) [nl; p_rbrace].

Definition is_multiline (d : doc) : bool := existsb (N.eqb LF) (flat d).
Definition has_multiline_items (parts : list doc) : bool := existsb is_multiline parts.

Definition MAX_LINE_LENGTH : nat := 80.

Definition wrapped_line_and_args (prefix : doc) (args : list doc) : doc :=
  let args_line := prefix ++ wrap [p_lparen] (join comma_sp args) [p_rparen] in
  if Nat.ltb MAX_LINE_LENGTH (length (flat args_line))
  then prefix ++ wrap [p_lparen; nl] (indent (join [nl] args)) [nl; p_rparen]
  else args_line.

(* the argument lists of field and directive definitions *)
Definition def_args (args : list doc) : doc :=
  if has_multiline_items args
  then wrap [p_lparen; nl] (indent (join [nl] args)) [nl; p_rparen]
  else wrap [p_lparen] (join comma_sp args) [p_rparen].

(* ---- printed attributes: what a leave_* method finds in the node ---- *)
Inductive pattr : Type :=
| PNone
| PDoc (d : doc)
| PList (l : list doc)
| PStr (s : list N)
| PBool (b : bool)
| PEnum (c : N).

(* a printed child, None -> falsy *)
Definition pd (a : pattr) : doc := match a with PDoc d => d | _ => [] end.
(* a printed tuple, None -> no item *)
Definition pl (a : pattr) : list doc := match a with PList l => l | _ => [] end.

Definition op_text (c : N) : list N :=
  if c =? 0 then s_query else if c =? 1 then s_mutation else s_subscription.

(* wrap("", node.description, "\n") *)
Definition descr (d : pattr) : doc := wrap [] (pd d) [nl].
(* join(node.directives, " ") *)
Definition dirs (d : pattr) : doc := join [sp] (pl d).
Definition starts_with (c : N) (d : doc) : bool := match flat d with x :: _ => x =? c | [] => false end.
Definition ends_with_char (c : N) (d : doc) : bool :=
  match rev (flat d) with x :: _ => x =? c | [] => false end.

(* leave_document: the query short form is not used after a definition that does not end with "}" *)
Fixpoint fix_short (prev : doc) (ds : list doc) : list doc :=
  match ds with
  | [] => []
  | d :: r =>
    let d' := if starts_with 123 d && negb (ends_with_char 125 prev)
              then kw s_query ++ [sp] ++ d else d in
    d' :: fix_short d' r
  end.
Definition document_defs (ds : list doc) : list doc :=
  match ds with [] => [] | d :: r => d :: fix_short d r end.

Definition implements_of (i : pattr) : doc :=
  wrap (kw s_implements ++ [sp]) (join [sp; p_amp; sp] (pl i)) [].
Definition union_of (ts : pattr) : doc :=
  wrap [p_equals; sp] (join [sp; p_pipe; sp] (pl ts)) [].

(* the leave_* methods; attributes by position = dataclasses.fields order (Lang/Ast.v) *)
Definition leave (k : nkind) (a : list pattr) : doc :=
  match k, a with
  | KName, [PStr v] => [Lx K_NAME v v]
  | KVariable, [n] => p_dollar :: pd n
  | KDocument, [ds] => join [Gap [LF; LF]] (document_defs (pl ds))
  | KOperationDefinition, [ss; d; n; vs; ds; PEnum o] =>
    let var_defs :=
        if has_multiline_items (pl vs)
        then wrap [p_lparen; nl] (join [nl] (pl vs)) [nl; p_rparen]
        else wrap [p_lparen] (join comma_sp (pl vs)) [p_rparen] in
    let prefix := descr d ++ join [sp] [kw (op_text o); join [] [pd n; var_defs]; dirs ds] in
    (if seqb (flat prefix) s_query then [] else prefix ++ [sp]) ++ pd ss
  | KVariableDefinition, [d; v; t; dv; ds] =>
    descr d ++ pd v ++ colon_sp ++ pd t ++ wrap [sp; p_equals; sp] (pd dv) [] ++ wrap [sp] (dirs ds) []
  | KSelectionSet, [sels] => block (pl sels)
  | KField, [ds; n; al; args; ss] =>
    let prefix := join [] [wrap [] (pd al) colon_sp; pd n] in
    join [] [wrapped_line_and_args prefix (pl args); wrap [sp] (dirs ds) []; wrap [sp] (pd ss) []]
  | KArgument, [n; v] => pd n ++ colon_sp ++ pd v
  | KFragmentArgument, [n; v] => pd n ++ colon_sp ++ pd v
  | KFragmentSpread, [ds; n; args] =>
    wrapped_line_and_args (p_spread :: pd n) (pl args) ++ wrap [sp] (dirs ds) []
  | KInlineFragment, [ds; ss; tc] =>
    join [sp] [[p_spread]; wrap (kw s_on ++ [sp]) (pd tc) []; dirs ds; pd ss]
  | KFragmentDefinition, [ss; d; n; vs; ds; tc] =>
    descr d ++ kw s_fragment ++ [sp] ++ pd n ++ wrap [p_lparen] (join comma_sp (pl vs)) [p_rparen] ++
    [sp] ++ kw s_on ++ [sp] ++ pd tc ++ [sp] ++ wrap [] (dirs ds) [sp] ++ pd ss
  | KIntValue, [PStr s] => [Lx K_INT s s]
  | KFloatValue, [PStr s] => [Lx K_FLOAT s s]
  | KStringValue, [PStr s; PBool b] =>
    if b then [Lx K_BLOCK_STRING s (print_block_string s false)] else [Lx K_STRING s (print_string s)]
  | KBooleanValue, [PBool b] => kw (if b then s_true else s_false)
  | KNullValue, [] => kw s_null
  | KEnumValue, [PStr s] => [Lx K_NAME s s]
  | KListValue, [vs] =>
    let values_line := [p_lbracket] ++ join comma_sp (pl vs) ++ [p_rbracket] in
    if Nat.ltb 80 (length (flat values_line))
    then [p_lbracket; nl] ++ indent (join [nl] (pl vs)) ++ [nl; p_rbracket]
    else values_line
  | KObjectValue, [fs] =>
    let fields_line := [p_lbrace; sp] ++ join comma_sp (pl fs) ++ [sp; p_rbrace] in
    if Nat.ltb MAX_LINE_LENGTH (length (flat fields_line)) then block (pl fs) else fields_line
  | KObjectField, [n; v] => pd n ++ colon_sp ++ pd v
  | KDirective, [n; args] => p_at :: pd n ++ wrap [p_lparen] (join comma_sp (pl args)) [p_rparen]
  | KNamedType, [n] => pd n
  | KListType, [t] => [p_lbracket] ++ pd t ++ [p_rbracket]
  | KNonNullType, [t] => pd t ++ [p_bang]
  | KSchemaDefinition, [d; ds; ots] =>
    descr d ++ join [sp] [kw s_schema; dirs ds; block (pl ots)]
  | KOperationTypeDefinition, [PEnum o; t] => kw (op_text o) ++ colon_sp ++ pd t
  | KScalarTypeDefinition, [n; d; ds] => descr d ++ join [sp] [kw s_scalar; pd n; dirs ds]
  | KObjectTypeDefinition, [n; d; ds; i; f] =>
    descr d ++ join [sp] [kw s_type; pd n; implements_of i; dirs ds; block (pl f)]
  | KFieldDefinition, [n; t; d; args; ds] =>
    descr d ++ pd n ++ def_args (pl args) ++ colon_sp ++ pd t ++ wrap [sp] (dirs ds) []
  | KInputValueDefinition, [n; t; d; dv; ds] =>
    descr d ++ join [sp] [pd n ++ colon_sp ++ pd t; wrap [p_equals; sp] (pd dv) []; dirs ds]
  | KInterfaceTypeDefinition, [n; d; ds; i; f] =>
    descr d ++ join [sp] [kw s_interface; pd n; implements_of i; dirs ds; block (pl f)]
  | KUnionTypeDefinition, [n; d; ds; ts] =>
    descr d ++ join [sp] [kw s_union; pd n; dirs ds; union_of ts]
  | KEnumTypeDefinition, [n; d; ds; vs] =>
    descr d ++ join [sp] [kw s_enum; pd n; dirs ds; block (pl vs)]
  | KEnumValueDefinition, [n; d; ds] => descr d ++ join [sp] [pd n; dirs ds]
  | KInputObjectTypeDefinition, [n; d; ds; f] =>
    descr d ++ join [sp] [kw s_input; pd n; dirs ds; block (pl f)]
  | KDirectiveDefinition, [n; ls; d; args; ds; PBool r] =>
    descr d ++ kw s_directive ++ [sp; p_at] ++ pd n ++ def_args (pl args) ++ wrap [sp] (dirs ds) [] ++
    (if r then sp :: kw s_repeatable else []) ++ [sp] ++ kw s_on ++ [sp] ++ join [sp; p_pipe; sp] (pl ls)
  | KSchemaExtension, [ds; ots] =>
    join [sp] [kw s_extend ++ [sp] ++ kw s_schema; dirs ds; block (pl ots)]
  | KDirectiveExtension, [n; ds] =>
    join [sp] [kw s_extend ++ [sp] ++ kw s_directive ++ [sp; p_at] ++ pd n; dirs ds]
  | KScalarTypeExtension, [n; ds] =>
    join [sp] [kw s_extend ++ [sp] ++ kw s_scalar; pd n; dirs ds]
  | KObjectTypeExtension, [n; ds; i; f] =>
    join [sp] [kw s_extend ++ [sp] ++ kw s_type; pd n; implements_of i; dirs ds; block (pl f)]
  | KInterfaceTypeExtension, [n; ds; i; f] =>
    join [sp] [kw s_extend ++ [sp] ++ kw s_interface; pd n; implements_of i; dirs ds; block (pl f)]
  | KUnionTypeExtension, [n; ds; ts] =>
    join [sp] [kw s_extend ++ [sp] ++ kw s_union; pd n; dirs ds; union_of ts]
  | KEnumTypeExtension, [n; ds; vs] =>
    join [sp] [kw s_extend ++ [sp] ++ kw s_enum; pd n; dirs ds; block (pl vs)]
  | KInputObjectTypeExtension, [n; ds; f] =>
    join [sp] [kw s_extend ++ [sp] ++ kw s_input; pd n; dirs ds; block (pl f)]
  | KTypeCoordinate, [n] => pd n
  | KMemberCoordinate, [n; m] => join [] [pd n; wrap [p_dot] (pd m) []]
  | KArgumentCoordinate, [n; f; a] =>
    join [] [pd n; wrap [p_dot] (pd f) []; wrap [p_lparen] (pd a) [p_colon; p_rparen]]
  | KDirectiveCoordinate, [n] => p_at :: pd n
  | KDirectiveArgumentCoordinate, [n; a] => p_at :: pd n ++ wrap [p_lparen] (pd a) [p_colon; p_rparen]
  | _, _ => []
  end.

(* visit(): children first *)
Fixpoint pp_doc (n : node) : doc :=
  match n with
  | Nd k attrs =>
    leave k (map (fun a =>
                    match a with
                    | ANone => PNone
                    | ANode m => PDoc (pp_doc m)
                    | AList l => PList (map pp_doc l)
                    | AStr s => PStr s
                    | ABool b => PBool b
                    | AEnum c => PEnum c
                    end) attrs)
  end.

(* print_ast *)
Definition pp (n : node) : list N := flat (pp_doc n).
