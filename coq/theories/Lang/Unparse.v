(* Token-level unparse: the sequence of significant tokens (kind, value) that
   printer.print_ast realises up to layout (harness/cparser.py compares the two).
   Definitions only; the round trip with the parser is in UnparseProps.v. *)
From GV Require Import Base.Prelude Lang.Lexer Lang.Ast Lang.Parser.

Definition pt (k : N) : sigtok := (k, []).
Definition nm (v : list N) : sigtok := (K_NAME, v).

Definition toks_name (n : node) : list sigtok :=
  match n with Nd KName [AStr v] => [nm v] | _ => [] end.

(* ---- values ---- *)
Fixpoint toks_value (v : node) : list sigtok :=
  match v with
  | Nd KVariable [ANode n] => pt K_DOLLAR :: toks_name n
  | Nd KIntValue [AStr s] => [(K_INT, s)]
  | Nd KFloatValue [AStr s] => [(K_FLOAT, s)]
  | Nd KStringValue [AStr s; ABool b] => [(if b then K_BLOCK_STRING else K_STRING, s)]
  | Nd KBooleanValue [ABool b] => [nm (if b then s_true else s_false)]
  | Nd KNullValue [] => [nm s_null]
  | Nd KEnumValue [AStr s] => [nm s]
  | Nd KListValue [AList l] => pt K_BRACKET_L :: flat_map toks_value l ++ [pt K_BRACKET_R]
  | Nd KObjectValue [AList fs] =>
    pt K_BRACE_L ::
    flat_map (fun f => match f with
                       | Nd KObjectField [ANode n; ANode x] =>
                         toks_name n ++ pt K_COLON :: toks_value x
                       | _ => []
                       end) fs ++ [pt K_BRACE_R]
  | _ => []
  end.

Definition toks_object_field (f : node) : list sigtok :=
  match f with
  | Nd KObjectField [ANode n; ANode x] => toks_name n ++ pt K_COLON :: toks_value x
  | _ => []
  end.

(* ---- types ---- *)
Fixpoint toks_type (t : node) : list sigtok :=
  match t with
  | Nd KNamedType [ANode n] => toks_name n
  | Nd KListType [ANode i] => pt K_BRACKET_L :: toks_type i ++ [pt K_BRACKET_R]
  | Nd KNonNullType [ANode i] => toks_type i ++ [pt K_BANG]
  | _ => []
  end.

(* ---- optional pieces ---- *)
Definition toks_opt (f : node -> list sigtok) (a : attr) : list sigtok :=
  match a with ANode n => f n | _ => [] end.
Definition toks_list (f : node -> list sigtok) (a : attr) : list sigtok :=
  match a with AList l => flat_map f l | _ => [] end.
(* wrap(open, items, close): nothing when there is no item *)
Definition toks_block (open : N) (f : node -> list sigtok) (close : N) (a : attr) : list sigtok :=
  match a with
  | AList (x :: l) => pt open :: flat_map f (x :: l) ++ [pt close]
  | _ => []
  end.
(* wrap(prefix, join(items, sep)) *)
Fixpoint toks_sep (sep : N) (f : node -> list sigtok) (l : list node) : list sigtok :=
  match l with
  | [] => []
  | [x] => f x
  | x :: r => f x ++ pt sep :: toks_sep sep f r
  end.
Definition toks_delimited (prefix : list sigtok) (sep : N) (f : node -> list sigtok) (a : attr)
  : list sigtok :=
  match a with
  | AList (x :: l) => prefix ++ toks_sep sep f (x :: l)
  | _ => []
  end.

Definition toks_description (a : attr) : list sigtok := toks_opt toks_value a.

(* ---- arguments and directives ---- *)
Definition toks_argument (a : node) : list sigtok :=
  match a with
  | Nd KArgument [ANode n; ANode v] => toks_name n ++ pt K_COLON :: toks_value v
  | Nd KFragmentArgument [ANode n; ANode v] => toks_name n ++ pt K_COLON :: toks_value v
  | _ => []
  end.
Definition toks_arguments (a : attr) : list sigtok := toks_block K_PAREN_L toks_argument K_PAREN_R a.
Definition toks_directive (d : node) : list sigtok :=
  match d with
  | Nd KDirective [ANode n; a] => pt K_AT :: toks_name n ++ toks_arguments a
  | _ => []
  end.
Definition toks_directives (a : attr) : list sigtok := toks_list toks_directive a.

(* ---- selection sets ---- *)
Fixpoint toks_selection_set (s : node) : list sigtok :=
  match s with
  | Nd KSelectionSet [AList l] =>
    pt K_BRACE_L ::
    flat_map (fun x =>
      match x with
      | Nd KField [d; ANode n; al; a; ss] =>
        match al with ANode an => toks_name an ++ [pt K_COLON] | _ => [] end ++
        toks_name n ++ toks_arguments a ++ toks_directives d ++
        match ss with ANode y => toks_selection_set y | _ => [] end
      | Nd KFragmentSpread [d; ANode n; a] =>
        pt K_SPREAD :: toks_name n ++ toks_arguments a ++ toks_directives d
      | Nd KInlineFragment [d; ANode y; tc] =>
        pt K_SPREAD ::
        match tc with ANode t => nm s_on :: toks_type t | _ => [] end ++
        toks_directives d ++ toks_selection_set y
      | _ => []
      end) l ++ [pt K_BRACE_R]
  | _ => []
  end.

Definition toks_selection (x : node) : list sigtok :=
  match x with
  | Nd KField [d; ANode n; al; a; ss] =>
    match al with ANode an => toks_name an ++ [pt K_COLON] | _ => [] end ++
    toks_name n ++ toks_arguments a ++ toks_directives d ++
    match ss with ANode y => toks_selection_set y | _ => [] end
  | Nd KFragmentSpread [d; ANode n; a] =>
    pt K_SPREAD :: toks_name n ++ toks_arguments a ++ toks_directives d
  | Nd KInlineFragment [d; ANode y; tc] =>
    pt K_SPREAD ::
    match tc with ANode t => nm s_on :: toks_type t | _ => [] end ++
    toks_directives d ++ toks_selection_set y
  | _ => []
  end.

(* ---- executable definitions ---- *)
Definition op_name (c : N) : list N :=
  if c =? 0 then s_query else if c =? 1 then s_mutation else s_subscription.

Definition toks_default (a : attr) : list sigtok :=
  match a with ANode v => pt K_EQUALS :: toks_value v | _ => [] end.

Definition toks_variable_definition (v : node) : list sigtok :=
  match v with
  | Nd KVariableDefinition [d; ANode var; ANode t; dv; ds] =>
    toks_description d ++ toks_value var ++ pt K_COLON :: toks_type t ++
    toks_default dv ++ toks_directives ds
  | _ => []
  end.
Definition toks_variable_definitions (a : attr) : list sigtok :=
  toks_block K_PAREN_L toks_variable_definition K_PAREN_R a.

(* the printer's short form: an anonymous query without description, variables, directives *)
Definition is_shorthand (d n vs ds : attr) (o : N) : bool :=
  match d, n, vs, ds with
  | ANone, ANone, ANone, ANone => o =? 0
  | _, _, _, _ => false
  end.

Definition toks_operation (x : node) : list sigtok :=
  match x with
  | Nd KOperationDefinition [ANode ss; d; n; vs; ds; AEnum o] =>
    if is_shorthand d n vs ds o then toks_selection_set ss
    else toks_description d ++ nm (op_name o) :: toks_opt toks_name n ++
         toks_variable_definitions vs ++ toks_directives ds ++ toks_selection_set ss
  | _ => []
  end.

Definition toks_fragment_definition (x : node) : list sigtok :=
  match x with
  | Nd KFragmentDefinition [ANode ss; d; ANode n; vs; ds; ANode tc] =>
    toks_description d ++ nm s_fragment :: toks_name n ++ toks_variable_definitions vs ++
    nm s_on :: toks_type tc ++ toks_directives ds ++ toks_selection_set ss
  | _ => []
  end.

(* ---- type system ---- *)
Definition toks_operation_type_definition (x : node) : list sigtok :=
  match x with
  | Nd KOperationTypeDefinition [AEnum o; ANode t] => nm (op_name o) :: pt K_COLON :: toks_type t
  | _ => []
  end.

Definition toks_input_value_definition (x : node) : list sigtok :=
  match x with
  | Nd KInputValueDefinition [ANode n; ANode t; d; dv; ds] =>
    toks_description d ++ toks_name n ++ pt K_COLON :: toks_type t ++
    toks_default dv ++ toks_directives ds
  | _ => []
  end.

Definition toks_field_definition (x : node) : list sigtok :=
  match x with
  | Nd KFieldDefinition [ANode n; ANode t; d; a; ds] =>
    toks_description d ++ toks_name n ++
    toks_block K_PAREN_L toks_input_value_definition K_PAREN_R a ++
    pt K_COLON :: toks_type t ++ toks_directives ds
  | _ => []
  end.

Definition toks_enum_value_definition (x : node) : list sigtok :=
  match x with
  | Nd KEnumValueDefinition [ANode n; d; ds] =>
    toks_description d ++ toks_name n ++ toks_directives ds
  | _ => []
  end.

Definition toks_implements (a : attr) : list sigtok :=
  toks_delimited [nm s_implements] K_AMP toks_type a.
Definition toks_union_types (a : attr) : list sigtok :=
  toks_delimited [pt K_EQUALS] K_PIPE toks_type a.
Definition toks_fields (a : attr) : list sigtok :=
  toks_block K_BRACE_L toks_field_definition K_BRACE_R a.
Definition toks_input_fields (a : attr) : list sigtok :=
  toks_block K_BRACE_L toks_input_value_definition K_BRACE_R a.
Definition toks_enum_values (a : attr) : list sigtok :=
  toks_block K_BRACE_L toks_enum_value_definition K_BRACE_R a.
Definition toks_operation_types (a : attr) : list sigtok :=
  toks_block K_BRACE_L toks_operation_type_definition K_BRACE_R a.

Definition toks_type_system (x : node) : list sigtok :=
  match x with
  | Nd KSchemaDefinition [d; ds; ots] =>
    toks_description d ++ nm s_schema :: toks_directives ds ++ toks_operation_types ots
  | Nd KScalarTypeDefinition [ANode n; d; ds] =>
    toks_description d ++ nm s_scalar :: toks_name n ++ toks_directives ds
  | Nd KObjectTypeDefinition [ANode n; d; ds; i; f] =>
    toks_description d ++ nm s_type :: toks_name n ++ toks_implements i ++
    toks_directives ds ++ toks_fields f
  | Nd KInterfaceTypeDefinition [ANode n; d; ds; i; f] =>
    toks_description d ++ nm s_interface :: toks_name n ++ toks_implements i ++
    toks_directives ds ++ toks_fields f
  | Nd KUnionTypeDefinition [ANode n; d; ds; ts] =>
    toks_description d ++ nm s_union :: toks_name n ++ toks_directives ds ++ toks_union_types ts
  | Nd KEnumTypeDefinition [ANode n; d; ds; vs] =>
    toks_description d ++ nm s_enum :: toks_name n ++ toks_directives ds ++ toks_enum_values vs
  | Nd KInputObjectTypeDefinition [ANode n; d; ds; f] =>
    toks_description d ++ nm s_input :: toks_name n ++ toks_directives ds ++ toks_input_fields f
  | Nd KDirectiveDefinition [ANode n; AList ls; d; a; ds; ABool r] =>
    toks_description d ++ nm s_directive :: pt K_AT :: toks_name n ++
    toks_block K_PAREN_L toks_input_value_definition K_PAREN_R a ++
    toks_directives ds ++ (if r then [nm s_repeatable] else []) ++
    nm s_on :: toks_sep K_PIPE toks_name ls
  | _ => []
  end.

Definition toks_extension (x : node) : list sigtok :=
  match x with
  | Nd KSchemaExtension [ds; ots] =>
    nm s_extend :: nm s_schema :: toks_directives ds ++ toks_operation_types ots
  | Nd KScalarTypeExtension [ANode n; ds] =>
    nm s_extend :: nm s_scalar :: toks_name n ++ toks_directives ds
  | Nd KObjectTypeExtension [ANode n; ds; i; f] =>
    nm s_extend :: nm s_type :: toks_name n ++ toks_implements i ++
    toks_directives ds ++ toks_fields f
  | Nd KInterfaceTypeExtension [ANode n; ds; i; f] =>
    nm s_extend :: nm s_interface :: toks_name n ++ toks_implements i ++
    toks_directives ds ++ toks_fields f
  | Nd KUnionTypeExtension [ANode n; ds; ts] =>
    nm s_extend :: nm s_union :: toks_name n ++ toks_directives ds ++ toks_union_types ts
  | Nd KEnumTypeExtension [ANode n; ds; vs] =>
    nm s_extend :: nm s_enum :: toks_name n ++ toks_directives ds ++ toks_enum_values vs
  | Nd KInputObjectTypeExtension [ANode n; ds; f] =>
    nm s_extend :: nm s_input :: toks_name n ++ toks_directives ds ++ toks_input_fields f
  | Nd KDirectiveExtension [ANode n; ds] =>
    nm s_extend :: nm s_directive :: pt K_AT :: toks_name n ++ toks_directives ds
  | _ => []
  end.

Definition toks_definition (x : node) : list sigtok :=
  match x with
  | Nd KOperationDefinition _ => toks_operation x
  | Nd KFragmentDefinition _ => toks_fragment_definition x
  | Nd KSchemaDefinition _ | Nd KScalarTypeDefinition _ | Nd KObjectTypeDefinition _
  | Nd KInterfaceTypeDefinition _ | Nd KUnionTypeDefinition _ | Nd KEnumTypeDefinition _
  | Nd KInputObjectTypeDefinition _ | Nd KDirectiveDefinition _ => toks_type_system x
  | _ => toks_extension x
  end.

(* print_ast (leave_document) does not use the query short form after a definition whose
   printed text does not end with "}", i.e. one that could be continued by a block *)
Definition is_block (a : attr) : bool := match a with AList (_ :: _) => true | _ => false end.
Definition ends_with_block (x : node) : bool :=
  match x with
  | Nd KOperationDefinition _ | Nd KFragmentDefinition _ => true
  | Nd KSchemaDefinition [_; _; ots] => is_block ots
  | Nd KObjectTypeDefinition [_; _; _; _; f] => is_block f
  | Nd KInterfaceTypeDefinition [_; _; _; _; f] => is_block f
  | Nd KEnumTypeDefinition [_; _; _; vs] => is_block vs
  | Nd KInputObjectTypeDefinition [_; _; _; f] => is_block f
  | Nd KSchemaExtension [_; ots] => is_block ots
  | Nd KObjectTypeExtension [_; _; _; f] => is_block f
  | Nd KInterfaceTypeExtension [_; _; _; f] => is_block f
  | Nd KEnumTypeExtension [_; _; vs] => is_block vs
  | Nd KInputObjectTypeExtension [_; _; f] => is_block f
  | _ => false
  end.

Definition is_shorthand_operation (x : node) : bool :=
  match x with
  | Nd KOperationDefinition [ANode _; d; n; vs; ds; AEnum o] => is_shorthand d n vs ds o
  | _ => false
  end.

Fixpoint toks_definitions (prev_block : bool) (defs : list node) : list sigtok :=
  match defs with
  | [] => []
  | x :: r =>
    (if negb prev_block && is_shorthand_operation x then [nm s_query] else []) ++
    toks_definition x ++ toks_definitions (ends_with_block x) r
  end.

Definition toks_document (d : node) : list sigtok :=
  match d with
  | Nd KDocument [AList defs] => toks_definitions true defs
  | _ => []
  end.

(* ---- schema coordinates ---- *)
Definition toks_coordinate (c : node) : list sigtok :=
  match c with
  | Nd KTypeCoordinate [ANode n] => toks_name n
  | Nd KMemberCoordinate [ANode n; ANode m] => toks_name n ++ pt K_DOT :: toks_name m
  | Nd KArgumentCoordinate [ANode n; ANode m; ANode a] =>
    toks_name n ++ pt K_DOT :: toks_name m ++ pt K_PAREN_L :: toks_name a ++ [pt K_COLON; pt K_PAREN_R]
  | Nd KDirectiveCoordinate [ANode n] => pt K_AT :: toks_name n
  | Nd KDirectiveArgumentCoordinate [ANode n; ANode a] =>
    pt K_AT :: toks_name n ++ pt K_PAREN_L :: toks_name a ++ [pt K_COLON; pt K_PAREN_R]
  | _ => []
  end.

(* the token-level unparse of any tree an entry point can return *)
Definition tokens_of (x : node) : list sigtok :=
  match x with
  | Nd KDocument _ => toks_document x
  | Nd KNamedType _ | Nd KListType _ | Nd KNonNullType _ => toks_type x
  | Nd KTypeCoordinate _ | Nd KMemberCoordinate _ | Nd KArgumentCoordinate _
  | Nd KDirectiveCoordinate _ | Nd KDirectiveArgumentCoordinate _ => toks_coordinate x
  | Nd KVariable _ | Nd KIntValue _ | Nd KFloatValue _ | Nd KStringValue _ | Nd KBooleanValue _
  | Nd KNullValue _ | Nd KEnumValue _ | Nd KListValue _ | Nd KObjectValue _ => toks_value x
  | _ => toks_definition x
  end.
