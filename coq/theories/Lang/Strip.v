(* Executable model of src/graphql/utilities/strip_ignored_characters.py.
   Definitions only; proofs in StripProps.v.

   The implementation walks the significant tokens of the source with Lexer.advance()
   (which skips COMMENT tokens) until EOF and concatenates, for every token,
     - one SPACE if the previously added token was a non-punctuator and the current token
       is a non-punctuator or the spread punctuator,
     - print_block_string(token.value, minimize=True) for a BLOCK_STRING token,
       body[token.start:token.end] for every other token.
   A lexical error (GraphQLSyntaxError raised by the lazy lexer) propagates unchanged: the
   result is the error position in the ORIGINAL source. *)
From GV Require Import Base.Prelude Lang.Lexer Lang.BlockString.

(* lexer.is_punctuator_token_kind: BANG DOLLAR AMP PAREN_L PAREN_R DOT SPREAD COLON EQUALS AT
   BRACKET_L BRACKET_R BRACE_L PIPE BRACE_R = the kind codes 2..16 *)
Definition is_punct_kind (k : N) : bool := (2 <=? k) && (k <=? 16).

(* body[a:b] *)
Definition slice (body : list N) (a b : nat) : list N := firstn (b - a) (skipn a body).

(* what is appended for one token *)
Definition token_text (body : list N) (tk : token) : list N :=
  if tkind tk =? K_BLOCK_STRING then print_block_string (tvalue tk) true
  else slice body (tstart tk) (tend tk).

(* the separator in front of a token, given was_last_added_token_non_punctuator *)
Definition sep_before (last_np : bool) (k : N) : list N :=
  if last_np && (negb (is_punct_kind k) || (k =? K_SPREAD)) then [32] else [].

(* the while loop; [s] is the text from the cursor on, i.e. skipn (cpos cu) body.
   Each significant token consumes at least one character, so S (length s) fuel suffices. *)
Fixpoint strip_loop (fuel : nat) (body : list N) (cu : cursor) (s : list N) (last_np : bool)
  : outcome (list N) :=
  match fuel with
  | O => OutOfFuel
  | S f =>
    match read_token cu s with
    | Ok (tk, cu', s') =>
      if tkind tk =? K_EOF then Ok []
      else if tkind tk =? K_COMMENT then strip_loop f body cu' s' last_np
      else
        match strip_loop f body cu' s' (negb (is_punct_kind (tkind tk))) with
        | Ok out => Ok (sep_before last_np (tkind tk) ++ token_text body tk ++ out)
        | e => e
        end
    | SyntaxErr q => SyntaxErr q
    | Crash w => Crash w
    | OutOfFuel => OutOfFuel
    end
  end.

Definition strip (s : list N) : outcome (list N) :=
  strip_loop (S (length s)) s init_cursor s false.

(* ---- specification vocabulary for the theorems (Lang/StripProps.v, Properties/C09strip.v) ---- *)

(* what the parser sees of a token *)
Definition tok_sig (t : token) : N * list N := (tkind t, tvalue t).

(* [tight last pos out ts]: the text [out], starting at offset [pos], is exactly
     sep lexeme sep lexeme ... sep lexeme
   where ts are its tokens (ending with EOF at the very end of the text), none of them a comment,
   each [tstart, tend) being the offsets of its lexeme, and each sep is the separator that the rule
   of strip_ignored_characters asks for: one SPACE between two non-punctuators or between a
   non-punctuator and a spread, nothing otherwise ([last] = the token before the first one was a
   non-punctuator); the lexeme of every token other than a quoted string or a block string
   contains no ignored character.  So no ignored character occurs outside string lexemes except
   these single spaces, and none before the first or after the last token. *)
Inductive tight : bool -> nat -> list N -> list token -> Prop :=
| tight_eof last pos tk :
    (tkind tk =? K_EOF) = true -> tstart tk = pos -> tend tk = pos -> tight last pos [] [tk]
| tight_tok last pos lx rest tk ts :
    (tkind tk =? K_EOF) = false -> (tkind tk =? K_COMMENT) = false ->
    tstart tk = (pos + length (sep_before last (tkind tk)))%nat ->
    tend tk = (tstart tk + length lx)%nat -> (1 <= length lx)%nat ->
    (tkind tk <> K_STRING -> tkind tk <> K_BLOCK_STRING -> Forall (fun c => is_ignored_char c = false) lx) ->
    tight (negb (is_punct_kind (tkind tk))) (tend tk) rest ts ->
    tight last pos (sep_before last (tkind tk) ++ lx ++ rest) (tk :: ts).
