(* C05 - general facts about the work-queue model: the stopped flag, termination exactly once. *)
From GV Require Import Base.Prelude Incr.Protocol Incr.WorkQueue.

(* ------------------------------------------------------------------ the stopped flag is only set by run_batch *)
Lemma fold_pres {A S} (P : S -> Prop) (f : S -> A -> S) l :
  (forall s a, P s -> P (f s a)) -> forall s, P s -> P (fold_left f l s).
Proof. intro Hf. induction l as [|a l IH]; intros s H; cbn; auto. Qed.

Lemma stopped_start_task t s : stopped (start_task t s) = stopped s.
Proof. unfold start_task. destruct (ahas t (tnodes s)); reflexivity. Qed.

Lemma stopped_start_group g s : stopped (start_group g s) = stopped s.
Proof.
  unfold start_group. destruct (aget g (gnodes s)) as [n|]; [|reflexivity].
  apply (fold_pres (fun x => stopped x = stopped s)); [|reflexivity].
  intros s' a H. rewrite stopped_start_task. exact H.
Qed.

Lemma stopped_start_new_work ngs nss s : stopped (start_new_work ngs nss s) = stopped s.
Proof.
  unfold start_new_work.
  apply (fold_pres (fun x => stopped x = stopped s)).
  - intros s' a H. exact H.
  - apply (fold_pres (fun x => stopped x = stopped s)); [|reflexivity].
    intros s' a H. rewrite stopped_start_group. exact H.
Qed.

Lemma stopped_add_task E t s : stopped (add_task E t s) = stopped s.
Proof.
  unfold add_task. apply (fold_pres (fun x => stopped x = stopped s)); [|reflexivity].
  intros s' g H. destruct (aget g (gnodes s')) as [n|]; [|exact H].
  match goal with |- context [if ?c then _ else _] => destruct c end;
    rewrite ?stopped_start_task; exact H.
Qed.

Lemma stopped_integrate E w pt s : stopped (snd (integrate E w pt s)) = stopped s.
Proof.
  unfold integrate.
  destruct (match w_groups w with [] => _ | _ => _ end) as [nr gn].
  assert (H1 : stopped (fold_left (fun s t => add_task E t s) (w_tasks w) (set_gnodes gn s)) = stopped s).
  { apply (fold_pres (fun x => stopped x = stopped s)); [|reflexivity].
    intros s' a H. rewrite stopped_add_task. exact H. }
  destruct (w_streams w) as [|x xs]; [exact H1|].
  unfold add_streams. destruct pt as [t|]; [|exact H1].
  destruct (aget t (tnodes _)); exact H1.
Qed.

Lemma stopped_remove_task E t s : stopped (remove_task E t s) = stopped s.
Proof. reflexivity. Qed.

Lemma stopped_collect E oo n vals nss s :
  stopped (snd (collect_completed E oo n (vals, nss, s))) = stopped s.
Proof.
  unfold collect_completed.
  apply (fold_pres (fun st : list N * list N * state => stopped (snd st) = stopped s)); [|reflexivity].
  intros [[v x] s'] t H. cbn [snd] in H |- *.
  destruct (oo && existsb (fun g => ahas g (gnodes s')) (tgroups E t)); destruct (aget t (tnodes s')); exact H.
Qed.

Lemma stopped_prune E flush : forall fuel gs ne vals nss s,
  stopped (snd (prune fuel E flush gs (ne, vals, nss, s))) = stopped s.
Proof.
  induction fuel as [|f IH]; intros gs ne vals nss s; cbn [prune].
  - destruct gs; reflexivity.
  - apply (fold_pres (fun st : list N * list N * list N * state => stopped (snd st) = stopped s)); [|reflexivity].
    intros [[[ne' v'] x'] s'] g H. cbn in H.
    destruct (aget g (gnodes s')) as [n|]; [|exact H].
    destruct (gn_pending n); [|exact H].
    destruct flush.
    + pose proof (stopped_collect E (match gn_children n with [] => true | _ :: _ => false end) n v' x'
                    (set_gnodes (adel g (gnodes s')) s')) as Hc.
      destruct (collect_completed E _ n _) as [[v1 x1] s2]. rewrite IH. cbn in Hc. rewrite Hc. exact H.
    + rewrite IH. exact H.
Qed.

Lemma stopped_prune_groups E gs s : stopped (snd (prune_groups E gs s)) = stopped s.
Proof.
  unfold prune_groups.
  pose proof (stopped_prune E false (S (length (gnodes s))) gs [] [] [] s) as H.
  destruct (prune _ E false gs _) as [[[ne v] x] s1]. exact H.
Qed.

Lemma stopped_remove_group E : forall fuel g n s, stopped (remove_group fuel E g n s) = stopped s.
Proof.
  induction fuel as [|f IH]; intros g n s; cbn [remove_group]; [reflexivity|].
  apply (fold_pres (fun x => stopped x = stopped s)).
  - intros s' c H. destruct (aget c (gnodes s')); [rewrite IH|]; exact H.
  - apply (fold_pres (fun x => stopped x = stopped s)); [|reflexivity].
    intros s' t H. destruct (forallb _ _); exact H.
Qed.

Lemma stopped_finish E g n s : stopped (snd (finish_group_success E g n s)) = stopped s.
Proof.
  unfold finish_group_success.
  pose proof (stopped_collect E false n [] [] (set_gnodes (adel g (gnodes s)) s)) as H1.
  destruct (collect_completed E false n _) as [[v0 n0] s2].
  pose proof (stopped_prune E true (S (length (gnodes s2))) (gn_children n) [] v0 n0 s2) as H2.
  destruct (prune _ E true _ _) as [[[ngs vals] nss] s3]. cbn in *. congruence.
Qed.

Lemma stopped_task_success E t s : stopped (snd (task_success E t s)) = stopped s.
Proof.
  unfold task_success.
  set (s0 := set_settled _ s).
  set (s1 := match aget t (tnodes s0) with Some tn => _ | None => s0 end).
  assert (H1 : stopped s1 = stopped s) by (subst s1; destruct (aget t (tnodes s0)); reflexivity).
  pose proof (stopped_integrate E (twork E t) (Some t) s1) as H2.
  destruct (integrate E (twork E t) (Some t) s1) as [[a b] s2]. cbn in H2.
  match goal with |- context [fold_left ?f (tgroups E t) s2] => set (s2' := fold_left f (tgroups E t) s2) end.
  assert (H3 : stopped s2' = stopped s).
  { subst s2'. apply (fold_pres (fun x => stopped x = stopped s)); [|congruence].
    intros s' g H. destruct (aget g (gnodes s')); exact H. }
  match goal with |- context [fold_left ?f ?l (?e0, ?n1, ?n2, s2')] =>
    assert (H4 : stopped (snd (fold_left f l (e0, n1, n2, s2'))) = stopped s) end.
  { apply (fold_pres (fun st : list wqevent * list N * list N * state => stopped (snd st) = stopped s)); [|exact H3].
    intros [[[e' g'] x'] s'] g H. cbn in H.
    destruct (aget g (gnodes s')) as [n|]; [|exact H].
    destruct (memN g (roots s') && Nat.eqb (gn_pending n) 0); [|exact H].
    pose proof (stopped_finish E g n s') as Hf.
    destruct (finish_group_success E g n s') as [[[e cg] cs] s'']. cbn in Hf |- *. congruence. }
  match goal with |- context [fold_left ?f ?l ?i] => destruct (fold_left f l i) as [[[evs ngs] nss] s3] end.
  cbn in H4 |- *. rewrite stopped_start_new_work. exact H4.
Qed.

Lemma stopped_rescue E g n s : stopped (snd (rescue E g n s)) = stopped s.
Proof.
  unfold rescue.
  apply (fold_pres (fun st : list N * state => stopped (snd st) = stopped s)); [|reflexivity].
  intros [v s'] t H. cbn [snd] in H |- *. destruct (aget t (tnodes s')) as [tn|]; [|exact H].
  destruct (tn_owed tn && tn_done tn && _); exact H.
Qed.

Lemma stopped_task_failure E t s : stopped (snd (task_failure E t s)) = stopped s.
Proof.
  unfold task_failure.
  apply (fold_pres (fun st : list wqevent * state => stopped (snd st) = stopped s)); [|reflexivity].
  intros [evs s'] g H. cbn [snd] in H. destruct (aget g (gnodes s')) as [n|]; [|exact H].
  assert (Hr : stopped (snd (if memN g (roots s') then rescue E g n s' else ([], s'))) = stopped s').
  { destruct (memN g (roots s')); [apply stopped_rescue|reflexivity]. }
  destruct (if memN g (roots s') then rescue E g n s' else ([], s')) as [vals sr]. cbn [snd] in Hr |- *.
  unfold remove_group_top. cbn [set_roots stopped]. rewrite stopped_remove_group. congruence.
Qed.

Lemma stopped_stream_items E x n b s : stopped (snd (stream_items E x n b s)) = stopped s.
Proof.
  unfold stream_items.
  match goal with |- context [fold_left ?f ?l (?a0, ?b0, ?s0)] =>
    assert (H : stopped (snd (fold_left f l (a0, b0, s0))) = stopped s) end.
  { apply (fold_pres (fun st : list N * list N * state => stopped (snd st) = stopped s)); [|reflexivity].
    intros [[a' b'] s'] w H. cbn in H.
    pose proof (stopped_integrate E w None s') as Hi.
    destruct (integrate E w None s') as [[ig is_] s1]. cbn in Hi.
    pose proof (stopped_prune_groups E ig s1) as Hp.
    destruct (prune_groups E ig s1) as [ne s2]. cbn in Hp |- *.
    rewrite stopped_start_new_work. congruence. }
  match goal with |- context [fold_left ?f ?l ?i] => destruct (fold_left f l i) as [[ngs nss] s1] end.
  cbn in H. destruct b; cbn; exact H.
Qed.

Lemma stopped_step E s e : stopped (fst (step E s e)) = stopped s.
Proof.
  destruct e as [t|t|x n b|x|x]; cbn [step].
  - pose proof (stopped_task_success E t s). destruct (task_success E t s); exact H.
  - pose proof (stopped_task_failure E t s). destruct (task_failure E t s); exact H.
  - pose proof (stopped_stream_items E x n b s). destruct (stream_items E x n b s); exact H.
  - destruct (memN _ _); reflexivity.
  - reflexivity.
Qed.

(* ------------------------------------------------------------------ termination exactly once *)
Definition is_term (e : wqevent) : bool := match e with Termination => true | _ => false end.
Definition no_term (l : list wqevent) : bool := forallb (fun e => negb (is_term e)) l.

Lemma no_term_app a b : no_term (a ++ b) = no_term a && no_term b.
Proof. unfold no_term. apply forallb_app. Qed.

Lemma fold_no_term {A S} (f : S -> A -> S) (ev : S -> list wqevent) l : forall s0,
  no_term (ev s0) = true ->
  (forall s a, no_term (ev s) = true -> no_term (ev (f s a)) = true) ->
  no_term (ev (fold_left f l s0)) = true.
Proof. induction l as [|a l IH]; intros s0 H0 Hf; cbn; auto. Qed.

Lemma finish_no_term E g n s :
  no_term (fst (fst (fst (finish_group_success E g n s)))) = true.
Proof.
  unfold finish_group_success.
  destruct (collect_completed E false n ([], [], set_gnodes (adel g (gnodes s)) s)) as [[v0 n0] s2].
  destruct (prune _ E true (gn_children n) ([], v0, n0, s2)) as [[[ngs vals] nss] s3].
  cbn. destruct vals; reflexivity.
Qed.

Lemma task_success_no_term E t s : no_term (fst (task_success E t s)) = true.
Proof.
  unfold task_success.
  destruct (integrate E (twork E t) (Some t) _) as [[a b] s2].
  match goal with |- context [fold_left ?f ?l (?e0, ?n1, ?n2, ?s0)] =>
    assert (H : no_term (fst (fst (fst (fold_left f l (e0, n1, n2, s0))))) = true) end.
  { apply (fold_pres (fun st : list wqevent * list N * list N * state => no_term (fst (fst (fst st))) = true));
      [|reflexivity].
    intros [[[evs' ngs'] nss'] s'] g Hn. cbn [fst] in Hn.
    destruct (aget g (gnodes s')) as [n|]; [|exact Hn].
    destruct (memN g (roots s') && Nat.eqb (gn_pending n) 0); [|exact Hn].
    pose proof (finish_no_term E g n s') as Hf.
    destruct (finish_group_success E g n s') as [[[e cg] cs] s'']. cbn [fst] in Hf |- *.
    rewrite no_term_app, Hn, Hf. reflexivity. }
  match goal with |- context [fold_left ?f ?l ?i] => destruct (fold_left f l i) as [[[evs ngs] nss] s3] end.
  exact H.
Qed.

Lemma task_failure_no_term E t s : no_term (fst (task_failure E t s)) = true.
Proof.
  unfold task_failure.
  apply (fold_pres (fun st : list wqevent * state => no_term (fst st) = true)); [|reflexivity].
  intros [evs s'] g Hn. cbn [fst] in Hn.
  destruct (aget g (gnodes s')) as [n|]; [|exact Hn].
  destruct (if memN g (roots s') then rescue E g n s' else ([], s')) as [vals sr].
  cbn [fst]. rewrite !no_term_app, Hn. destruct vals; reflexivity.
Qed.

Lemma stream_items_no_term E x n b s : no_term (fst (stream_items E x n b s)) = true.
Proof.
  unfold stream_items.
  match goal with |- context [fold_left ?f ?l ?i] => destruct (fold_left f l i) as [[ngs nss] s1] end.
  destruct b; reflexivity.
Qed.

Lemma step_no_term E s e : no_term (snd (step E s e)) = true.
Proof.
  destruct e as [t|t|x n b|x|x]; cbn [step].
  - pose proof (task_success_no_term E t s). destruct (task_success E t s); exact H.
  - pose proof (task_failure_no_term E t s). destruct (task_failure E t s); exact H.
  - pose proof (stream_items_no_term E x n b s). destruct (stream_items E x n b s); exact H.
  - destruct (memN _ _); reflexivity.
  - reflexivity.
Qed.

Lemma steps_no_term E evs : forall s out,
  no_term out = true ->
  no_term (snd (fold_left (fun (st : state * list wqevent) e =>
      let '(s, out) := st in let '(s', o) := step E s e in (s', out ++ o)) evs (s, out))) = true.
Proof.
  induction evs as [|e evs IH]; intros s out H; cbn [fold_left snd]; [exact H|].
  pose proof (step_no_term E s e) as Hs. destruct (step E s e) as [s' o]. cbn [snd] in Hs.
  apply IH. rewrite no_term_app, H, Hs. reflexivity.
Qed.

(* one batch: the termination event is emitted iff the batch leaves no root work; it is the last
   event of the batch and it stops the queue *)
Lemma run_batch_term E s evs s' out :
  stopped s = false -> run_batch E s evs = (s', out) ->
  (stopped s' = true /\ roots s' = [] /\ rstreams s' = [] /\
     exists pre, out = pre ++ [Termination] /\ no_term pre = true)
  \/ (stopped s' = false /\ no_term out = true /\ (roots s' <> [] \/ rstreams s' <> [])).
Proof.
  intros Hs H. unfold run_batch in H. rewrite Hs in H.
  pose proof (steps_no_term E evs s [] eq_refl) as Hn.
  destruct (fold_left _ evs (s, [])) as [s1 o1] eqn:F. cbn in Hn.
  assert (Hst : stopped s1 = false).
  { (* no step changes the stopped flag *)
    clear Hn H. revert s o1 s1 Hs F.
    generalize (@nil wqevent) as acc.
    induction evs as [|e evs IH]; intros acc s o1 s1 Hs F; cbn in F.
    - inversion F; subst; exact Hs.
    - pose proof (stopped_step E s e) as Hp.
      destruct (step E s e) as [sx o] eqn:St. eapply IH; [|exact F].
      cbn in Hp. congruence. }
  destruct (roots s1) eqn:R; destruct (rstreams s1) eqn:RS; inversion H; subst; clear H.
  - left. cbn. repeat split; auto. exists o1. auto.
  - right. repeat split; auto. right. rewrite RS. discriminate.
  - right. repeat split; auto. left. rewrite R. discriminate.
  - right. repeat split; auto. left. rewrite R. discriminate.
Qed.

Lemma run_batches_stopped E : forall bs s, stopped s = true -> run_batches E s bs = (s, []).
Proof.
  induction bs as [|b bs IH]; intros s Hs; cbn [run_batches]; [reflexivity|].
  destruct b as [|e b].
  - rewrite (IH s Hs). reflexivity.
  - unfold run_batch. rewrite Hs. rewrite (IH s Hs). reflexivity.
Qed.

(* The termination event is emitted at most once, as the very last event, exactly when a batch
   leaves no root group and no root stream; afterwards the queue is stopped and emits nothing. *)
Theorem terminates_exactly_once E : forall bs s s' outs,
  stopped s = false -> run_batches E s bs = (s', outs) ->
  (stopped s' = true /\ roots s' = [] /\ rstreams s' = [] /\
     exists pre, concat outs = pre ++ [Termination] /\ no_term pre = true)
  \/ (stopped s' = false /\ no_term (concat outs) = true).
Proof.
  induction bs as [|b bs IH]; intros s s' outs Hs H; cbn [run_batches] in H.
  - inversion H; subst. right. split; [exact Hs|reflexivity].
  - destruct b as [|e b].
    + destruct (run_batches E s bs) as [s2 o2] eqn:R. inversion H; subst; clear H.
      exact (IH _ _ _ Hs R).
    + destruct (run_batch E s (e :: b)) as [s1 out] eqn:B.
      destruct (run_batch_term E s (e :: b) s1 out Hs B) as [(St & R1 & R2 & pre & -> & Hp) | (St & Hn & _)].
      * rewrite (run_batches_stopped E bs s1 St) in H. inversion H; subst; clear H.
        left. repeat split; auto. exists pre. split; [|exact Hp].
        destruct (pre ++ [Termination]) eqn:X; [destruct pre; discriminate|].
        cbn. rewrite app_nil_r. reflexivity.
      * destruct (run_batches E s1 bs) as [s2 o2] eqn:R. inversion H; subst; clear H.
        assert (Hc : concat (match out with [] => o2 | _ :: _ => out :: o2 end) = out ++ concat o2)
          by (destruct out; reflexivity).
        rewrite Hc.
        destruct (IH _ _ _ St R) as [(S2 & A & B2 & pre & Hc2 & Hp) | (S2 & Hn2)].
        -- left. repeat split; auto. exists (out ++ pre). rewrite Hc2, app_assoc. split; [reflexivity|].
           rewrite no_term_app, Hn, Hp. reflexivity.
        -- right. split; [exact S2|]. rewrite no_term_app, Hn, Hn2. reflexivity.
Qed.
