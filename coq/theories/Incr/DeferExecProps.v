(* Properties of the @defer execution model Incr/DeferExec.v.
   Main results (re-exported in Properties/C04defer.v):
     - reassembly: if the base executor's run (planning = false) is error-free, the incremental run is
       error-free too and merging its payloads into its initial data, in the order the model lists
       them, by the merge oracle Incr/Merge.v yields the base executor's data up to object key order;
     - the base executor's run equals Exec/Spec.v's execution of the document with @defer erased,
       provided no collection repeated a deferred fragment visit. *)
From GV Require Import Base.Prelude Exec.Value Exec.Schema Exec.Spec Exec.SpecProps Incr.DeferExec.
From GV Require Incr.Plan Incr.PlanProps Incr.Merge.
From Coq Require Import Permutation.

(* ------------------------------------------------------------------ jeq *)

Lemma jeq_refl : forall j, jeq j j.
Proof.
  fix IH 1. intros [|z|n d|x|b|l|kvs]; try constructor.
  - refine ((fix go (l : list json) : jeq_items l l :=
               match l with [] => jeqi_nil | x :: r => jeqi_cons _ _ _ _ (IH x) (go r) end) l).
  - apply jeq_obj with (b := kvs); [|apply Permutation_refl].
    refine ((fix go (l : list (str * json)) : jeq_kvs l l :=
               match l with [] => jeqk_nil | (k, x) :: r => jeqk_cons k _ _ _ _ (IH x) (go r) end) kvs).
Qed.

Lemma jeq_null_l j : jeq JNull j -> j = JNull.
Proof. intro H. inversion H. reflexivity. Qed.

Lemma jeq_null_r j : jeq j JNull -> j = JNull.
Proof. intro H. inversion H. reflexivity. Qed.

Lemma jeq_kvs_app a b c d : jeq_kvs a b -> jeq_kvs c d -> jeq_kvs (a ++ c) (b ++ d).
Proof. induction 1; cbn; [auto|]. intro H2. constructor; auto. Qed.

Lemma jeq_kvs_keys a b : jeq_kvs a b -> map fst a = map fst b.
Proof. induction 1; cbn; congruence. Qed.

(* ------------------------------------------------------------------ the merge oracle on fresh keys *)

Lemma lookup_app_none {A} k (a b : list (str * A)) :
  lookup k a = None -> lookup k (a ++ b) = lookup k b.
Proof.
  induction a as [|[k' v] r IH]; cbn; [reflexivity|].
  destruct (str_eqb k k'); [discriminate|]. exact IH.
Qed.

Lemma lookup_none_notin {A} k (l : list (str * A)) : ~ In k (map fst l) -> lookup k l = None.
Proof.
  induction l as [|[k' v] r IH]; cbn; [reflexivity|]. intro H.
  destruct (str_eqb k k') eqn:E.
  - apply str_eqb_eq in E. subst. exfalso. apply H. left. reflexivity.
  - apply IH. intro. apply H. right. assumption.
Qed.

(* merging an object whose keys are new appends it *)
Lemma merge_fresh_gen f nkvs : forall okvs,
  NoDup (map fst nkvs) -> (forall k, In k (map fst nkvs) -> ~ In k (map fst okvs)) ->
  fold_left (fun acc kv =>
               match lookup (fst kv) acc with
               | Some ov => Merge.set_key (fst kv) (Merge.merge f ov (snd kv)) acc
               | None => acc ++ [kv]
               end) nkvs okvs = okvs ++ nkvs.
Proof.
  induction nkvs as [|[k v] r IH]; intros okvs Hnd Hfresh; cbn [fold_left].
  - rewrite app_nil_r. reflexivity.
  - cbn [fst snd]. rewrite (lookup_none_notin k okvs); [|apply Hfresh; left; reflexivity].
    inversion Hnd as [|x l Hx Hr]; subst. rewrite IH; [rewrite <- app_assoc; reflexivity|exact Hr|].
    intros k' Hk' Hin. rewrite map_app in Hin. apply in_app_or in Hin as [Hin|[<-|[]]].
    + apply (Hfresh k'); [right; exact Hk'|exact Hin].
    + apply Hx. exact Hk'.
Qed.

Lemma merge_S f okvs nkvs :
  Merge.merge (S f) (JObj okvs) (JObj nkvs)
  = JObj (fold_left (fun acc kv =>
                       match lookup (fst kv) acc with
                       | Some ov => Merge.set_key (fst kv) (Merge.merge f ov (snd kv)) acc
                       | None => acc ++ [kv]
                       end) nkvs okvs).
Proof. reflexivity. Qed.

Lemma merge_into_fresh okvs nkvs :
  NoDup (map fst nkvs) -> (forall k, In k (map fst nkvs) -> ~ In k (map fst okvs)) ->
  merge_into nkvs (JObj okvs) = Some (JObj (okvs ++ nkvs)).
Proof.
  intros Hnd Hf. unfold merge_into. change 200%nat with (S 199). rewrite merge_S.
  rewrite merge_fresh_gen; auto.
Qed.

(* ------------------------------------------------------------------ payloads below a key / an index *)

Lemma apply_pls_app j a b :
  apply_pls j (a ++ b) = match apply_pls j a with Some j' => apply_pls j' b | None => None end.
Proof.
  revert j. induction a as [|p r IH]; intro j; cbn; [reflexivity|].
  destruct (apply_pl j p); [apply IH|reflexivity].
Qed.

Lemma apply_pl_nest j p : apply_pl j (nest_pl p) = apply_pl j p.
Proof. reflexivity. Qed.

Lemma apply_pls_nest j ps : apply_pls j (map nest_pl ps) = apply_pls j ps.
Proof.
  revert j. induction ps as [|p r IH]; intro j; cbn; [reflexivity|].
  rewrite apply_pl_nest. destruct (apply_pl j p); [apply IH|reflexivity].
Qed.

Lemma upd_key_at k f (a : list (str * json)) v b :
  ~ In k (map fst a) ->
  Merge.upd_key k f (a ++ (k, v) :: b)
  = match f v with Some v' => Some (a ++ (k, v') :: b) | None => None end.
Proof.
  induction a as [|[k' v0] r IH]; intro Hn; cbn.
  - rewrite str_eqb_refl. reflexivity.
  - destruct (str_eqb k k') eqn:E.
    + apply str_eqb_eq in E. subst. exfalso. apply Hn. left. reflexivity.
    + rewrite IH; [|intro; apply Hn; right; assumption]. destruct (f v); reflexivity.
Qed.

Lemma apply_pl_key k a v b p :
  ~ In k (map fst a) ->
  apply_pl (JObj (a ++ (k, v) :: b)) (pre_pl (PKey k) p)
  = match apply_pl v p with Some v' => Some (JObj (a ++ (k, v') :: b)) | None => None end.
Proof.
  intro Hn. unfold apply_pl. cbn [pre_pl pl_data pl_path].
  destruct (pl_data p) as [kvs|]; [|reflexivity].
  cbn [Merge.update_at]. rewrite upd_key_at by exact Hn.
  destruct (Merge.update_at (pl_path p) (merge_into kvs) v); reflexivity.
Qed.

Lemma apply_pls_key k a b ps : forall v,
  ~ In k (map fst a) ->
  apply_pls (JObj (a ++ (k, v) :: b)) (pre_pls (PKey k) ps)
  = match apply_pls v ps with Some v' => Some (JObj (a ++ (k, v') :: b)) | None => None end.
Proof.
  induction ps as [|p r IH]; intros v Hn; cbn [pre_pls map apply_pls]; [reflexivity|].
  rewrite apply_pl_key by exact Hn. destruct (apply_pl v p) as [v'|]; [|reflexivity].
  apply IH. exact Hn.
Qed.

Lemma set_nth_at f (a : list json) v b :
  Merge.set_nth (length a) f (a ++ v :: b)
  = match f v with Some v' => Some (a ++ v' :: b) | None => None end.
Proof.
  induction a as [|x r IH]; cbn; [reflexivity|].
  rewrite IH. destruct (f v); reflexivity.
Qed.

Lemma apply_pl_idx a v b p :
  apply_pl (JList (a ++ v :: b)) (pre_pl (PIdx (length a)) p)
  = match apply_pl v p with Some v' => Some (JList (a ++ v' :: b)) | None => None end.
Proof.
  unfold apply_pl. cbn [pre_pl pl_data pl_path].
  destruct (pl_data p) as [kvs|]; [|reflexivity].
  cbn [Merge.update_at]. rewrite set_nth_at.
  destruct (Merge.update_at (pl_path p) (merge_into kvs) v); reflexivity.
Qed.

Lemma apply_pls_idx a b ps : forall v,
  apply_pls (JList (a ++ v :: b)) (pre_pls (PIdx (length a)) ps)
  = match apply_pls v ps with Some v' => Some (JList (a ++ v' :: b)) | None => None end.
Proof.
  induction ps as [|p r IH]; intros v; cbn [pre_pls map apply_pls]; [reflexivity|].
  rewrite apply_pl_idx. destruct (apply_pl v p) as [v'|]; [|reflexivity]. apply IH.
Qed.

(* ------------------------------------------------------------------ sublists *)

Inductive subl {A} : list A -> list A -> Prop :=
| subl_nil : subl [] []
| subl_skip x a b : subl a b -> subl a (x :: b)
| subl_take x a b : subl a b -> subl (x :: a) (x :: b).

Lemma subl_refl {A} (l : list A) : subl l l.
Proof. induction l; [apply subl_nil|apply subl_take; assumption]. Qed.

Lemma subl_In {A} (a b : list A) x : subl a b -> In x a -> In x b.
Proof. induction 1; cbn; intuition. Qed.

Lemma subl_NoDup {A} (a b : list A) : subl a b -> NoDup b -> NoDup a.
Proof.
  induction 1; intro Hn; [constructor| |]; inversion Hn; subst; auto.
  constructor; auto. intro Hin. eapply subl_In in Hin; eauto.
Qed.

Lemma subl_app {A} (a b c d : list A) : subl a b -> subl c d -> subl (a ++ c) (b ++ d).
Proof.
  induction 1; cbn; intro H2; [exact H2|apply subl_skip; auto|apply subl_take; auto].
Qed.

Lemma subl_flat_map {A B K} (h : A -> list B) (ka : A -> K) (kb : B -> K) l :
  (forall a, h a = [] \/ exists b, h a = [b] /\ kb b = ka a) ->
  subl (map kb (flat_map h l)) (map ka l).
Proof.
  intro Hh. induction l as [|a r IH]; cbn; [constructor|].
  destruct (Hh a) as [->|[b [-> Hk]]]; cbn.
  - apply subl_skip. exact IH.
  - rewrite Hk. apply subl_take. exact IH.
Qed.

Lemma NoDup_app_disj {A} (a b : list A) x : NoDup (a ++ b) -> In x a -> In x b -> False.
Proof.
  induction a as [|y r IH]; cbn; [tauto|]. intros Hn [->|Hin] Hb; inversion Hn; subst.
  - apply H1. apply in_or_app. right. exact Hb.
  - eapply IH; eauto.
Qed.

Lemma subl_nil_l {A} (b : list A) : subl [] b.
Proof. induction b; [apply subl_nil|apply subl_skip; assumption]. Qed.

Lemma NoDup_app_l {A} (a b : list A) : NoDup (a ++ b) -> NoDup a.
Proof.
  intro H. eapply subl_NoDup; [|exact H]. rewrite <- (app_nil_r a) at 1.
  apply subl_app; [apply subl_refl|apply subl_nil_l].
Qed.

Lemma NoDup_app_r {A} (a b : list A) : NoDup (a ++ b) -> NoDup b.
Proof. induction a; cbn; [auto|]. intro H. inversion H; auto. Qed.

(* ------------------------------------------------------------------ one level of reassembly *)

(* what one executed field contributes: response key, (initial) value, payloads created below it *)
Definition er : Type := (str * json * list payload)%type.
Definition er_key (e : er) : str := fst (fst e).
Definition er_val (e : er) : json := snd (fst e).
Definition er_pls (e : er) : list payload := snd e.

Definition ekvs (E : list er) : list (str * json) := map (fun e => (er_key e, er_val e)) E.
Definition elift (E : list er) : list payload := flat_map (fun e => pre_pls (PKey (er_key e)) (er_pls e)) E.
Definition efin (E : list er) (ms : list json) : list (str * json) := combine (map er_key E) ms.
Definition Asm (e : er) (m : json) : Prop := apply_pls (er_val e) (er_pls e) = Some m.

Lemma ekvs_keys E : map fst (ekvs E) = map er_key E.
Proof. unfold ekvs. rewrite map_map. reflexivity. Qed.

Lemma efin_keys E ms : Forall2 Asm E ms -> map fst (efin E ms) = map er_key E.
Proof. induction 1; cbn; [reflexivity|]. f_equal. exact IHForall2. Qed.

(* the payloads created below the fields of an object update the values of these fields *)
Lemma level_nested E ms : Forall2 Asm E ms -> forall A B,
  NoDup (map fst A ++ map er_key E) ->
  apply_pls (JObj (A ++ ekvs E ++ B)) (elift E) = Some (JObj (A ++ efin E ms ++ B)).
Proof.
  induction 1 as [|e m E ms He HF IH]; intros A B Hn; cbn [elift flat_map ekvs map efin combine app].
  - reflexivity.
  - rewrite apply_pls_app. fold (elift E).
    assert (Hk : ~ In (er_key e) (map fst A)).
    { intro Hin. eapply NoDup_app_disj; [exact Hn|exact Hin|left; reflexivity]. }
    change (map (fun e0 : er => (er_key e0, er_val e0)) E) with (ekvs E).
    rewrite (apply_pls_key (er_key e) A (ekvs E ++ B) (er_pls e) (er_val e) Hk).
    unfold Asm in He. rewrite He.
    change (combine (map er_key E) ms) with (efin E ms).
    specialize (IH (A ++ [(er_key e, m)]) B).
    rewrite <- !app_assoc in IH. cbn [app] in IH. apply IH.
    rewrite map_app. cbn [map fst]. rewrite <- app_assoc. exact Hn.
Qed.

(* a deferred grouped field set: its data is appended to the object, then its nested payloads *)
Definition is_head (P : payload) (E : list er) : Prop :=
  pl_path P = [] /\ pl_data P = Some (ekvs E).

Lemma level_group P E ms A :
  is_head P E -> Forall2 Asm E ms -> NoDup (map fst A ++ map er_key E) ->
  apply_pls (JObj A) (P :: map nest_pl (elift E)) = Some (JObj (A ++ efin E ms)).
Proof.
  intros [Hp Hd] HF Hn. cbn [apply_pls]. unfold apply_pl at 1. rewrite Hd, Hp. cbn [Merge.update_at].
  rewrite merge_into_fresh.
  - rewrite apply_pls_nest. pose proof (level_nested E ms HF A [] Hn) as H.
    rewrite !app_nil_r in H. exact H.
  - rewrite ekvs_keys. eapply NoDup_app_r. exact Hn.
  - intros k Hk Hin. rewrite ekvs_keys in Hk. eapply NoDup_app_disj; eauto.
Qed.

Definition gres : Type := (payload * list er * list json)%type.

Lemma level_groups (GL : list gres) : forall A,
  Forall (fun g => is_head (fst (fst g)) (snd (fst g)) /\ Forall2 Asm (snd (fst g)) (snd g)) GL ->
  NoDup (map fst A ++ flat_map (fun g => map er_key (snd (fst g))) GL) ->
  apply_pls (JObj A) (flat_map (fun g => fst (fst g) :: map nest_pl (elift (snd (fst g)))) GL)
  = Some (JObj (A ++ flat_map (fun g => efin (snd (fst g)) (snd g)) GL)).
Proof.
  induction GL as [|[[P E] ms] r IH]; intros A HF Hn; cbn [flat_map fst snd] in *.
  - rewrite app_nil_r. reflexivity.
  - inversion HF as [|x l [Hh Ha] Hr]; subst. cbn [fst snd] in *.
    change (P :: map nest_pl (elift E) ++ ?x) with ((P :: map nest_pl (elift E)) ++ x).
    rewrite apply_pls_app. rewrite (level_group P E ms A Hh Ha).
    + rewrite IH; [rewrite <- app_assoc; reflexivity|exact Hr|].
      rewrite map_app, (efin_keys _ _ Ha), <- app_assoc. exact Hn.
    + rewrite app_assoc in Hn. eapply NoDup_app_l. exact Hn.
Qed.

(* the same for the items of a list *)
Definition ir : Type := (json * list payload)%type.
Fixpoint ilift (I : list ir) (i : nat) : list payload :=
  match I with
  | [] => []
  | x :: r => pre_pls (PIdx i) (snd x) ++ ilift r (S i)
  end.

Lemma level_items I ms : Forall2 (fun x m => apply_pls (fst x) (snd x) = Some m) I ms -> forall A,
  apply_pls (JList (A ++ map fst I)) (ilift I (length A)) = Some (JList (A ++ ms)).
Proof.
  induction 1 as [|x m I ms Hx HF IH]; intro A; cbn [ilift map].
  - reflexivity.
  - rewrite apply_pls_app, apply_pls_idx, Hx.
    specialize (IH (A ++ [m])). rewrite <- !app_assoc in IH. cbn [app] in IH.
    rewrite app_length in IH. cbn [length] in IH. rewrite Nat.add_1_r in IH. exact IH.
Qed.

(* ------------------------------------------------------------------ the plan is a partition *)

Lemma flat_map_flat_map {A B C} (f : B -> list C) (g : A -> list B) l :
  flat_map f (flat_map g l) = flat_map (fun x => flat_map f (g x)) l.
Proof. induction l; cbn; [reflexivity|]. rewrite flat_map_app. congruence. Qed.

Lemma resolve_to_gfs_gen (l : dgrouped) : forall pre,
  flat_map (resolve (pre ++ l))
    (combine (map N.of_nat (seq (length pre) (length l))) (map (fun e => details_of (snd e)) l)) = l.
Proof.
  induction l as [|x r IH]; intro pre; cbn [length seq map combine flat_map]; [reflexivity|].
  unfold resolve at 1. cbn [fst]. rewrite Nnat.Nat2N.id.
  rewrite nth_error_app2 by apply Nat.le_refl. rewrite Nat.sub_diag. cbn [nth_error app].
  f_equal. specialize (IH (pre ++ [x])). rewrite <- app_assoc in IH. cbn [app] in IH.
  rewrite app_length in IH. cbn [length] in IH. rewrite Nat.add_1_r in IH. exact IH.
Qed.

Lemma resolve_to_gfs dg : flat_map (resolve dg) (to_gfs dg) = dg.
Proof. exact (resolve_to_gfs_gen dg []). Qed.

Lemma flat_map_snd_map {A B C} (h : B -> list C) (l : list (A * B)) :
  flat_map snd (map (fun sg => (fst sg, h (snd sg))) l) = flat_map (fun sg => h (snd sg)) l.
Proof. induction l; cbn; [reflexivity|]. rewrite IHl. reflexivity. Qed.

Theorem plan_of_partition dg parent :
  Permutation (fst (plan_of dg parent) ++ flat_map snd (snd (plan_of dg parent))) dg.
Proof.
  unfold plan_of. cbn [fst snd].
  pose proof (PlanProps.plan_partition (to_gfs dg) parent) as H.
  apply (Permutation_flat_map (resolve dg)) in H. rewrite resolve_to_gfs in H.
  unfold PlanProps.entries in H. rewrite flat_map_app, flat_map_flat_map in H.
  rewrite flat_map_snd_map. exact H.
Qed.

(* ------------------------------------------------------------------ collected keys are distinct *)

Lemma add_dfield_keys k f g :
  map fst (add_dfield k f g) = if mem k (map fst g) then map fst g else map fst g ++ [k].
Proof.
  induction g as [|[k' fs] r IH]; [reflexivity|].
  cbn [add_dfield map fst]. unfold mem in *. cbn [existsb].
  destruct (str_eqb k k') eqn:E; cbn [map fst orb]; [reflexivity|].
  rewrite IH. destruct (existsb (str_eqb k) (map fst r)); reflexivity.
Qed.

Lemma add_dfield_nodup k f g : NoDup (map fst g) -> NoDup (map fst (add_dfield k f g)).
Proof.
  intro H. rewrite add_dfield_keys. destruct (mem k (map fst g)) eqn:E; [exact H|].
  apply nodup_snoc; [exact H|]. apply mem_not_In. exact E.
Qed.

Section DCollectInv.
  Variable s : schema.
  Variable frags : list fragment.
  Variable cv : list (str * value).
  Variable tn : str.
  Variable base : N.
  Variable depth : nat.
  Variable Q : dgrouped -> Prop.
  Hypothesis Qadd : forall k f g, Q g -> Q (add_dfield k f g).

  Lemma dcollect_list_inv rec :
    (forall du sels st st', Q (c_g st) -> rec du sels st = Some st' -> Q (c_g st')) ->
    forall sels du st st', Q (c_g st) ->
      dcollect_list s frags cv tn base depth rec du sels st = Some st' -> Q (c_g st').
  Proof.
    intro Hrec. induction sels as [|sel rest IH]; intros du st st' HQ H; cbn [dcollect_list] in H.
    - inversion H; subst. exact HQ.
    - destruct sel as [al name args dirs sub | name dirs | tc dirs sub].
      + destruct (should_include cv dirs); [|eapply IH; eauto].
        eapply IH; [|exact H]. cbn [c_g]. apply Qadd. exact HQ.
      + destruct (negb (should_include cv dirs)); [eapply IH; eauto|].
        destruct (find_frag name frags) as [fr|]; [|eapply IH; eauto].
        destruct (negb (cond_matches s (fr_cond fr) tn)); [eapply IH; eauto|].
        destruct (defer_active cv dirs) as [lab|], (lookup name (c_vis st)) as [[|]|];
          try (eapply IH; eauto; fail);
          match type of H with
          | match rec ?d ?b ?x with _ => _ end = _ =>
              destruct (rec d b x) as [st1|] eqn:E; [|discriminate];
              eapply IH; [|exact H]; eapply Hrec; [|exact E]; exact HQ
          end.
      + destruct (should_include cv dirs && match tc with Some c => cond_matches s c tn | None => true end);
          [|eapply IH; eauto].
        destruct (defer_active cv dirs) as [lab|];
          match type of H with
          | match rec ?d ?b ?x with _ => _ end = _ =>
              destruct (rec d b x) as [st1|] eqn:E; [|discriminate];
              eapply IH; [|exact H]; eapply Hrec; [|exact E]; exact HQ
          end.
  Qed.

  Lemma dcollect_inv fuel : forall du sels st st', Q (c_g st) ->
    dcollect s frags cv tn base depth fuel du sels st = Some st' -> Q (c_g st').
  Proof.
    induction fuel as [|f IH]; intros du sels st st' HQ H; cbn [dcollect] in H; [discriminate|].
    eapply dcollect_list_inv; eauto.
  Qed.

  Lemma dcollect_srcs_inv fuel srcs : forall st st', Q (c_g st) ->
    dcollect_srcs s frags cv tn base depth fuel srcs st = Some st' -> Q (c_g st').
  Proof.
    induction srcs as [|[du sels] r IH]; intros st st' HQ H; cbn [dcollect_srcs] in H.
    - inversion H; subst. exact HQ.
    - destruct (dcollect s frags cv tn base depth fuel du sels st) as [st1|] eqn:E; [|discriminate].
      eapply IH; [|exact H]. eapply dcollect_inv; eauto.
  Qed.
End DCollectInv.

Lemma dcollect_srcs_nodup s frags cv tn base depth fuel srcs st :
  dcollect_srcs s frags cv tn base depth fuel srcs cs0 = Some st -> NoDup (map fst (c_g st)).
Proof.
  apply (dcollect_srcs_inv s frags cv tn base depth (fun g => NoDup (map fst g))).
  - intros. apply add_dfield_nodup. assumption.
  - constructor.
Qed.

(* ------------------------------------------------------------------ error-free loops *)

Lemma pre_errs_nil seg es : pre_errs seg es = [] -> es = [].
Proof. destruct es; [reflexivity|discriminate]. Qed.

Definition ents (ef : list dfield -> option xfres) (g : dgrouped) : list er :=
  flat_map (fun e => match ef (snd e) with
                     | Some (XRes ((CVal j, _, _), pl, _)) => [(fst e, j, pl)]
                     | _ => []
                     end) g.

Definition eok (ef : list dfield -> option xfres) (e : str * list dfield) : Prop :=
  ef (snd e) = Some XSkip \/ exists j cs pl rv, ef (snd e) = Some (XRes ((CVal j, [], cs), pl, rv)).

Lemma groups_inv ef g : forall r cs pls rv,
  (forall e r cs pl rv, In e g -> ef (snd e) = Some (XRes ((r, [], cs), pl, rv)) -> exists j, r = CVal j) ->
  dexec_groups ef g = Some (r, [], cs, pls, rv) ->
  Forall (eok ef) g /\ r = Some (ekvs (ents ef g)) /\ pls = elift (ents ef g).
Proof.
  induction g as [|[k fs] rest IH]; intros r cs pls rv Hf H; cbn [dexec_groups] in H.
  - inversion H; subst. repeat split. constructor.
  - cbn [ents flat_map snd fst]. fold (ents ef rest).
    destruct (ef fs) as [[|[[[[[j|] es] cs0] pl0] rv0]]|] eqn:Ef; [| | |discriminate].
    + destruct (IH r cs pls rv) as [H1 [H2 H3]]; [|exact H|].
      { intros e r0 cs1 pl1 rv1 Hin. apply Hf. right. exact Hin. }
      split; [constructor; [left; exact Ef|exact H1]|]. split; assumption.
    + destruct (dexec_groups ef rest) as [[[[[r' es'] cs'] pls'] rv']|] eqn:Er; [|discriminate].
      inversion H; subst; clear H.
      match goal with Hx : _ ++ _ = [] |- _ => apply app_eq_nil in Hx as [He1 He2] end.
      apply pre_errs_nil in He1. subst.
      destruct (IH r' cs' pls' rv') as [H1 [H2 H3]]; [|first [exact Er|reflexivity]|].
      { intros e r0 cs1 pl1 rv1 Hin. apply Hf. right. exact Hin. }
      subst. split; [constructor; [right; eauto 6|exact H1]|]. split; reflexivity.
    + inversion H; subst; clear H.
      match goal with Hx : pre_errs _ _ = [] |- _ => apply pre_errs_nil in Hx end. subst.
      destruct (Hf (k, fs) CErr _ _ _ (or_introl eq_refl) Ef) as [j Hj]. discriminate.
Qed.

Lemma groups_intro ef g : Forall (eok ef) g ->
  exists cs rv, dexec_groups ef g = Some (Some (ekvs (ents ef g)), [], cs, elift (ents ef g), rv).
Proof.
  induction 1 as [|[k fs] rest He HF IH]; cbn [dexec_groups ents flat_map fst snd].
  - eexists _, _. reflexivity.
  - fold (ents ef rest). destruct IH as [cs [rv IH]].
    destruct He as [He|[j [cs0 [pl [rv0 He]]]]]; cbn [snd] in He; rewrite He.
    + eexists _, _. exact IH.
    + rewrite IH. cbn. eexists _, _. reflexivity.
Qed.

Definition iok (cf : data -> option xout) (x : data) : Prop :=
  exists j cs pl rv, cf x = Some ((CVal j, [], cs), pl, rv).

Definition irs (cf : data -> option xout) (items : list data) : list ir :=
  flat_map (fun x => match cf x with Some ((CVal j, _, _), pl, _) => [(j, pl)] | _ => [] end) items.

Lemma items_inv cf items : forall i r cs pls rv,
  (forall x r cs pl rv, In x items -> cf x = Some ((r, [], cs), pl, rv) -> exists j, r = CVal j) ->
  dcomplete_items cf items i = Some (r, [], cs, pls, rv) ->
  Forall (iok cf) items /\ r = Some (map fst (irs cf items)) /\ pls = ilift (irs cf items) i.
Proof.
  induction items as [|x rest IH]; intros i r cs pls rv Hf H; cbn [dcomplete_items] in H.
  - inversion H; subst. repeat split. constructor.
  - cbn [irs flat_map]. fold (irs cf rest).
    destruct (cf x) as [[[[[[j|] es] cs0] pl0] rv0]|] eqn:Ef; [| |discriminate].
    + destruct (dcomplete_items cf rest (S i)) as [[[[[r' es'] cs'] pls'] rv']|] eqn:Er; [|discriminate].
      inversion H; subst; clear H.
      match goal with Hx : _ ++ _ = [] |- _ => apply app_eq_nil in Hx as [He1 He2] end.
      apply pre_errs_nil in He1. subst.
      destruct (IH (S i) r' cs' pls' rv') as [H1 [H2 H3]]; [|first [exact Er|reflexivity]|].
      { intros y r0 cs1 pl1 rv1 Hin. apply Hf. right. exact Hin. }
      subst. split; [constructor; [unfold iok; rewrite Ef; eauto 6|exact H1]|]. split; reflexivity.
    + inversion H; subst; clear H.
      match goal with Hx : pre_errs _ _ = [] |- _ => apply pre_errs_nil in Hx end. subst.
      destruct (Hf x CErr _ _ _ (or_introl eq_refl) Ef) as [j Hj]. discriminate.
Qed.

Lemma items_intro cf items : Forall (iok cf) items -> forall i,
  exists cs rv, dcomplete_items cf items i
                = Some (Some (map fst (irs cf items)), [], cs, ilift (irs cf items) i, rv).
Proof.
  induction 1 as [|x rest He HF IH]; intro i; cbn [dcomplete_items irs flat_map].
  - eexists _, _. reflexivity.
  - fold (irs cf rest). destruct (IH (S i)) as [cs [rv IH']].
    destruct He as [j [cs0 [pl [rv0 He]]]]. rewrite He, IH'. cbn. eexists _, _. reflexivity.
Qed.

(* the deferred grouped field sets of one position *)
Lemma deferred_intro ef groups :
  Forall (fun sg => Forall (eok (ef (Plan.ids (fst sg)))) (snd sg)) groups ->
  exists GL rv,
    dexec_deferred ef groups
    = Some (flat_map (fun g : payload * list er => fst g :: map nest_pl (elift (snd g))) GL, rv) /\
    Forall2 (fun sg g => is_head (fst g) (snd g) /\ pl_errs (fst g) = [] /\
                         snd g = ents (ef (Plan.ids (fst sg))) (snd sg)) groups GL.
Proof.
  induction 1 as [|[sdu g] rest Hg HF IH]; cbn [dexec_deferred].
  - exists [], false. split; [reflexivity|constructor].
  - destruct IH as [GL [rv [IH1 IH2]]]. cbn [fst snd] in Hg.
    destruct (groups_intro _ _ Hg) as [cs [rv0 Hgi]]. rewrite Hgi, IH1.
    eexists ((_, ents (ef (Plan.ids sdu)) g) :: GL), _. split.
    + cbn [flat_map fst snd]. reflexivity.
    + constructor; [|exact IH2]. cbn [fst snd]. repeat split.
Qed.

(* ------------------------------------------------------------------ unfolding equations *)

Section Unfold.
  Variable s : schema.
  Variable frags : list fragment.
  Variable cv : list (str * value).
  Variable pl : bool.

  Lemma dexec_sels_S f tn obj srcs parent base depth :
    dexec_sels s frags cv pl (S f) tn obj srcs parent base depth =
    match dcollect_srcs s frags cv tn base depth f srcs cs0 with
    | None => None
    | Some st =>
      let base' := base + N.of_nat (length (c_new st)) in
      let p := if pl then plan_of (c_g st) parent else (c_g st, []) in
      match dexec_groups (dexec_field s frags cv pl f tn obj parent base' depth) (fst p) with
      | None => None
      | Some (None, es, cs, _, rv) => Some ((CErr, es, cs), [], c_rev st || rv)
      | Some (Some kvs, es, cs, pls, rv) =>
        match dexec_deferred (fun par => dexec_field s frags cv pl f tn obj par base' depth) (snd p) with
        | None => None
        | Some (dpls, rv') => Some ((CVal (JObj kvs), es, cs), pls ++ dpls, c_rev st || rv || rv')
        end
      end
    end.
  Proof. reflexivity. Qed.

  Lemma dexec_field_S f tn obj parent base depth fs :
    dexec_field s frags cv pl (S f) tn obj parent base depth fs =
    match fs with
    | [] => Some XSkip
    | d1 :: _ =>
      let f1 := df_fs d1 in
      if str_eqb (fs_name f1) n_typename then Some (XRes ((CVal (JStr tn), [], []), [], false))
      else
        match lookup_field s tn (fs_name f1) with
        | None => Some XSkip
        | Some fd =>
          match coerce_args s cv (f_args fd) (fs_args f1) with
          | None => Some (XRes (catch (f_type fd) (raise_here CauseArgs), [], false))
          | Some args =>
            let d := match lookup (fs_name f1) obj with Some d => d | None => DNull end in
            match dcomplete s frags cv pl f (f_type fd) fs d parent base (S depth) with
            | None => None
            | Some ((r, es, cs), pls, rv) =>
                Some (XRes (xcatch (f_type fd) ((r, es, ([], fs_name f1, args) :: cs), pls, rv)))
            end
          end
        end
    end.
  Proof. reflexivity. Qed.

  Lemma dcomplete_S f t fs d parent base depth :
    dcomplete s frags cv pl (S f) t fs d parent base depth =
    match d with
    | DRaise => Some (raise_here CauseRaise, [], false)
    | _ =>
      match t with
      | TNonNull t' =>
          match dcomplete s frags cv pl f t' fs d parent base depth with
          | None => None
          | Some ((CVal JNull, es, cs), _, rv) => Some ((CErr, es ++ [([], CauseNull)], cs), [], rv)
          | Some x => Some x
          end
      | TList it =>
          match d with
          | DNull => Some ((CVal JNull, [], []), [], false)
          | DList items =>
              match dcomplete_items
                      (fun x => option_map (xcatch it) (dcomplete s frags cv pl f it fs x parent base (S depth)))
                      items O with
              | None => None
              | Some (Some js, es, cs, pls, rv) => Some ((CVal (JList js), es, cs), pls, rv)
              | Some (None, es, cs, _, rv) => Some ((CErr, es, cs), [], rv)
              end
          | _ => Some (raise_here CauseNonList, [], false)
          end
      | TNamed n =>
          match d with
          | DNull => Some ((CVal JNull, [], []), [], false)
          | _ =>
            match lookup_type s n with
            | Some (TObject _ _) => dexec_sels s frags cv pl f n (data_fields d) (srcs_of fs) parent base depth
            | Some (TInterface _) | Some (TUnion _) =>
                match d with
                | DObj rt flds =>
                    if is_object s rt && possible s n rt
                    then dexec_sels s frags cv pl f rt flds (srcs_of fs) parent base depth
                    else Some (raise_here CauseType, [], false)
                | _ => Some (raise_here CauseType, [], false)
                end
            | Some td =>
                match d with
                | DLeaf l =>
                    match complete_leaf td l with
                    | Some j => Some ((CVal j, [], []), [], false)
                    | None => Some (raise_here CauseLeaf, [], false)
                    end
                | _ => Some (raise_here CauseLeaf, [], false)
                end
            | None => Some (raise_here CauseType, [], false)
            end
          end
      end
    end.
  Proof. reflexivity. Qed.
End Unfold.

(* ------------------------------------------------------------------ reassembly *)

(* an error-free execution group value *)
Definition pl_ok (p : payload) : Prop := (exists kvs, pl_data p = Some kvs) /\ pl_errs p = [].

(* ------------------------------------------------------------------ any order of application *)

Lemma apply_pls_core j pls : apply_pls j pls = capplys j (map core pls).
Proof.
  revert j. induction pls as [|p r IH]; intro j; cbn [apply_pls map capplys]; [reflexivity|].
  change (capply j (core p)) with (apply_pl j p). destruct (apply_pl j p); [apply IH|reflexivity].
Qed.

Definition c_ok (c : cpl) : Prop := exists kvs, snd c = Some kvs.

Definition cpre (seg : pathseg) (c : cpl) : cpl := (seg :: fst c, snd c).

Definition cproj_key (k : str) (cs : list cpl) : list cpl :=
  flat_map (fun c => match fst c with
                     | PKey k' :: q => if str_eqb k k' then [(q, snd c)] else []
                     | _ => []
                     end) cs.

Definition cproj_idx (i : nat) (cs : list cpl) : list cpl :=
  flat_map (fun c => match fst c with
                     | PIdx i' :: q => if Nat.eqb i i' then [(q, snd c)] else []
                     | _ => []
                     end) cs.

Definition chd (c : cpl) : list (str * json) :=
  match fst c, snd c with [], Some kvs => kvs | _, _ => [] end.
Definition cheads (cs : list cpl) : list (str * json) := flat_map chd cs.

Lemma upd_key_none k f (kvs : list (str * json)) : ~ In k (map fst kvs) -> Merge.upd_key k f kvs = None.
Proof.
  induction kvs as [|[k' v] r IH]; cbn; [reflexivity|]. intro H.
  destruct (str_eqb k k') eqn:E.
  - apply str_eqb_eq in E. subst. exfalso. apply H. left. reflexivity.
  - rewrite IH; [reflexivity|]. intro Hx. apply H. right. exact Hx.
Qed.

Lemma in_split_first {A} k (kvs : list (str * A)) :
  In k (map fst kvs) -> exists a v b, kvs = a ++ (k, v) :: b /\ ~ In k (map fst a).
Proof.
  induction kvs as [|[k' v] r IH]; cbn; [tauto|]. intro H.
  destruct (str_eqb k k') eqn:E.
  - apply str_eqb_eq in E. subst. exists [], v, r. split; [reflexivity|tauto].
  - destruct H as [H|H]; [subst; rewrite str_eqb_refl in E; discriminate|].
    destruct (IH H) as [a [v0 [b [-> Hn]]]]. exists ((k', v) :: a), v0, b. split; [reflexivity|].
    cbn. intros [Hx|Hx]; [subst; rewrite str_eqb_refl in E; discriminate|tauto].
Qed.

Lemma nodup_keys_in {A} (l : list (str * A)) k v v' :
  NoDup (map fst l) -> In (k, v) l -> In (k, v') l -> v = v'.
Proof.
  induction l as [|[k0 v0] r IH]; cbn; [tauto|]. intros Hn H1 H2. inversion Hn; subst.
  destruct H1 as [H1|H1], H2 as [H2|H2].
  - congruence.
  - inversion H1; subst. exfalso. apply H3. apply in_map_iff. exists (k, v'). split; [reflexivity|exact H2].
  - inversion H2; subst. exfalso. apply H3. apply in_map_iff. exists (k, v). split; [reflexivity|exact H1].
  - eapply IH; eauto.
Qed.

Lemma capply_key k a v b q d :
  ~ In k (map fst a) ->
  capply (JObj (a ++ (k, v) :: b)) (PKey k :: q, d)
  = match capply v (q, d) with Some v' => Some (JObj (a ++ (k, v') :: b)) | None => None end.
Proof.
  intro Hn. unfold capply. cbn [fst snd]. destruct d as [kvs|]; [|reflexivity].
  cbn [Merge.update_at]. rewrite upd_key_at by exact Hn.
  destruct (Merge.update_at q (merge_into kvs) v); reflexivity.
Qed.

(* an object against an arbitrary sequence of payloads: every key's final value is its first value
   with exactly the payloads addressed below that key applied in their order *)
Lemma obj_sim cs : forall kvs r,
  Forall c_ok cs ->
  NoDup (map fst kvs ++ map fst (cheads cs)) ->
  capplys (JObj kvs) cs = Some r ->
  exists kvs_r, r = JObj kvs_r /\
    map fst kvs_r = map fst kvs ++ map fst (cheads cs) /\
    (forall k v0, In (k, v0) kvs -> exists v, In (k, v) kvs_r /\ capplys v0 (cproj_key k cs) = Some v) /\
    (forall a c b k v0, cs = a ++ c :: b -> In (k, v0) (chd c) ->
        exists v, In (k, v) kvs_r /\ capplys v0 (cproj_key k b) = Some v /\ cproj_key k a = []).
Proof.
  induction cs as [|c rest IH]; intros kvs r Hok Hnd H.
  - cbn in H. inversion H; subst. exists kvs. cbn [cheads flat_map map]. rewrite app_nil_r.
    split; [reflexivity|]. split; [reflexivity|]. split.
    + intros k v0 Hin. exists v0. split; [exact Hin|reflexivity].
    + intros a c b k v0 Hs. destruct a; discriminate.
  - inversion Hok as [|x l [dkvs Hd] Hok']; subst. destruct c as [p d]. cbn [snd] in Hd. subst d.
    cbn [capplys] in H.
    destruct p as [|[k'|i'] q].
    + (* a head: its keys are appended *)
      unfold capply in H. cbn [fst snd Merge.update_at] in H.
      cbn [cheads flat_map chd fst snd] in Hnd. fold (cheads rest) in Hnd. rewrite map_app in Hnd.
      rewrite merge_into_fresh in H.
      2:{ apply NoDup_app_r in Hnd. apply NoDup_app_l in Hnd. exact Hnd. }
      2:{ intros k Hk Hin. eapply NoDup_app_disj; [exact Hnd|exact Hin|]. apply in_or_app. left. exact Hk. }
      destruct (IH (kvs ++ dkvs) r Hok') as [kvs_r [-> [Hk [H3 H4]]]]; [|exact H|].
      { rewrite map_app, <- app_assoc. exact Hnd. }
      exists kvs_r. split; [reflexivity|]. split.
      { cbn [cheads flat_map chd fst snd]. fold (cheads rest). rewrite Hk, !map_app, app_assoc. reflexivity. }
      split.
      * intros k v0 Hin. destruct (H3 k v0) as [v [Hv Ha]]; [apply in_or_app; left; exact Hin|].
        exists v. split; [exact Hv|]. exact Ha.
      * intros a c b k v0 Hs Hin. destruct a as [|c0 a'].
        -- cbn in Hs. inversion Hs; subst. cbn [chd fst snd] in Hin.
           destruct (H3 k v0) as [v [Hv Ha]]; [apply in_or_app; right; exact Hin|].
           exists v. split; [exact Hv|]. split; [exact Ha|reflexivity].
        -- cbn in Hs. inversion Hs; subst.
           destruct (H4 a' c b k v0 eq_refl Hin) as [v [Hv [Ha Hp]]].
           exists v. split; [exact Hv|]. split; [exact Ha|]. cbn [cproj_key flat_map fst]. exact Hp.
    + (* below a key *)
      cbn [cheads flat_map chd fst snd app] in Hnd. fold (cheads rest) in Hnd.
      destruct (mem k' (map fst kvs)) eqn:Em.
      2:{ exfalso. apply mem_not_In in Em. unfold capply in H. cbn [fst snd Merge.update_at] in H.
          rewrite upd_key_none in H by exact Em. discriminate. }
      apply mem_In in Em. destruct (in_split_first k' kvs Em) as [a0 [v0' [b0 [-> Hna]]]].
      rewrite capply_key in H by exact Hna.
      destruct (capply v0' (q, Some dkvs)) as [v1|] eqn:E1; [|discriminate].
      assert (Hkeys : map fst (a0 ++ (k', v1) :: b0) = map fst (a0 ++ (k', v0') :: b0)).
      { rewrite !map_app. reflexivity. }
      destruct (IH (a0 ++ (k', v1) :: b0) r Hok') as [kvs_r [-> [Hk [H3 H4]]]]; [|exact H|].
      { rewrite Hkeys. exact Hnd. }
      exists kvs_r. split; [reflexivity|]. split.
      { cbn [cheads flat_map chd fst snd app]. fold (cheads rest). rewrite Hk, Hkeys. reflexivity. }
      assert (Hnk : NoDup (map fst (a0 ++ (k', v0') :: b0))) by (eapply NoDup_app_l; exact Hnd).
      split.
      * intros k v0 Hin. cbn [cproj_key flat_map fst snd]. fold (cproj_key k rest).
        destruct (str_eqb k k') eqn:Ek.
        -- apply str_eqb_eq in Ek. subst k'.
           assert (v0 = v0').
           { eapply nodup_keys_in; [exact Hnk|exact Hin|]. apply in_or_app. right. left. reflexivity. }
           subst v0'.
           destruct (H3 k v1) as [v [Hv Ha]]; [apply in_or_app; right; left; reflexivity|].
           exists v. split; [exact Hv|]. cbn [app capplys]. rewrite E1. exact Ha.
        -- destruct (H3 k v0) as [v [Hv Ha]].
           { apply in_app_or in Hin as [Hin|[Hin|Hin]]; apply in_or_app; [left; exact Hin| |right; right; exact Hin].
             inversion Hin; subst. rewrite str_eqb_refl in Ek. discriminate. }
           exists v. split; [exact Hv|exact Ha].
      * intros a c b k v0 Hs Hin. destruct a as [|c0 a'].
        -- cbn in Hs. inversion Hs; subst. cbn [chd fst snd] in Hin. destruct Hin.
        -- cbn in Hs. inversion Hs; subst.
           destruct (H4 a' c b k v0 eq_refl Hin) as [v [Hv [Ha Hp]]].
           exists v. split; [exact Hv|]. split; [exact Ha|].
           cbn [cproj_key flat_map fst snd]. fold (cproj_key k a'). rewrite Hp.
           destruct (str_eqb k k') eqn:Ek; [|reflexivity]. exfalso.
           apply str_eqb_eq in Ek. subst k'.
           eapply NoDup_app_disj; [exact Hnd|exact Em|].
           unfold cheads. rewrite flat_map_app. cbn [flat_map]. rewrite !map_app. apply in_or_app. right.
           apply in_or_app. left. apply in_map_iff. exists (k, v0). split; [reflexivity|exact Hin].
    + (* an index below an object: the merge fails *)
      unfold capply in H. cbn in H. discriminate.
Qed.

Lemma set_nth_none f (l : list json) i : nth_error l i = None -> Merge.set_nth i f l = None.
Proof.
  revert i. induction l as [|x r IH]; intros [|i]; cbn; try reflexivity; try discriminate.
  intro H. rewrite IH by exact H. reflexivity.
Qed.

Lemma capply_idx a v b q d :
  capply (JList (a ++ v :: b)) (PIdx (length a) :: q, d)
  = match capply v (q, d) with Some v' => Some (JList (a ++ v' :: b)) | None => None end.
Proof.
  unfold capply. cbn [fst snd]. destruct d as [kvs|]; [|reflexivity].
  cbn [Merge.update_at]. rewrite set_nth_at.
  destruct (Merge.update_at q (merge_into kvs) v); reflexivity.
Qed.

Lemma list_sim cs : forall js r,
  Forall c_ok cs -> capplys (JList js) cs = Some r ->
  exists js_r, r = JList js_r /\ length js_r = length js /\
    forall i v0, nth_error js i = Some v0 ->
      exists v, nth_error js_r i = Some v /\ capplys v0 (cproj_idx i cs) = Some v.
Proof.
  induction cs as [|c rest IH]; intros js r Hok H.
  - cbn in H. inversion H; subst. exists js. split; [reflexivity|]. split; [reflexivity|].
    intros i v0 Hn. exists v0. split; [exact Hn|reflexivity].
  - inversion Hok as [|x l [dkvs Hd] Hok']; subst. destruct c as [p d]. cbn [snd] in Hd. subst d.
    cbn [capplys] in H. destruct p as [|[k'|i'] q].
    + unfold capply in H. cbn in H. discriminate.
    + unfold capply in H. cbn in H. discriminate.
    + destruct (nth_error js i') as [v0'|] eqn:En.
      2:{ exfalso. unfold capply in H. cbn [fst snd Merge.update_at] in H.
          rewrite set_nth_none in H by exact En. discriminate. }
      destruct (nth_error_split js i' En) as [a0 [b0 [-> Hl]]]. subst i'.
      rewrite capply_idx in H.
      destruct (capply v0' (q, Some dkvs)) as [v1|] eqn:E1; [|discriminate].
      destruct (IH (a0 ++ v1 :: b0) r Hok' H) as [js_r [-> [Hlen H3]]].
      exists js_r. split; [reflexivity|]. split.
      { rewrite Hlen, !app_length. reflexivity. }
      intros i v0 Hn. cbn [cproj_idx flat_map fst snd]. fold (cproj_idx i rest).
      destruct (Nat.eqb i (length a0)) eqn:Ei.
      * apply Nat.eqb_eq in Ei. subst i.
        rewrite nth_error_app2 in Hn by apply Nat.le_refl. rewrite Nat.sub_diag in Hn. cbn in Hn.
        inversion Hn; subst v0'.
        destruct (H3 (length a0) v1) as [v [Hv Ha]].
        { rewrite nth_error_app2 by apply Nat.le_refl. rewrite Nat.sub_diag. reflexivity. }
        exists v. split; [exact Hv|]. cbn [app capplys]. rewrite E1. exact Ha.
      * apply Nat.eqb_neq in Ei. destruct (H3 i v0) as [v [Hv Ha]]; [|exists v; split; assumption].
        destruct (Nat.lt_ge_cases i (length a0)) as [Hlt|Hge].
        -- rewrite nth_error_app1 in * by exact Hlt. exact Hn.
        -- rewrite nth_error_app2 in * by exact Hge.
           destruct (i - length a0)%nat as [|m] eqn:Em; [lia|]. cbn in *. exact Hn.
Qed.

(* projections commute with permutations *)
Lemma cproj_key_perm k cs cs' : Permutation cs cs' -> Permutation (cproj_key k cs) (cproj_key k cs').
Proof. apply Permutation_flat_map. Qed.
Lemma cproj_idx_perm i cs cs' : Permutation cs cs' -> Permutation (cproj_idx i cs) (cproj_idx i cs').
Proof. apply Permutation_flat_map. Qed.
Lemma cheads_perm cs cs' : Permutation cs cs' -> Permutation (cheads cs) (cheads cs').
Proof. apply Permutation_flat_map. Qed.

(* projections of the canonical payload lists *)
Lemma cproj_key_pre k k' cs : cproj_key k (map (cpre (PKey k')) cs) = if str_eqb k k' then cs else [].
Proof.
  induction cs as [|[p d] r IH]; cbn [map cproj_key flat_map cpre fst snd].
  - destruct (str_eqb k k'); reflexivity.
  - fold (cproj_key k (map (cpre (PKey k')) r)). rewrite IH. destruct (str_eqb k k'); reflexivity.
Qed.

Lemma cproj_idx_pre i i' cs : cproj_idx i (map (cpre (PIdx i')) cs) = if Nat.eqb i i' then cs else [].
Proof.
  induction cs as [|[p d] r IH]; cbn [map cproj_idx flat_map cpre fst snd].
  - destruct (Nat.eqb i i'); reflexivity.
  - fold (cproj_idx i (map (cpre (PIdx i')) r)). rewrite IH. destruct (Nat.eqb i i'); reflexivity.
Qed.

Lemma cheads_pre seg cs : cheads (map (cpre seg) cs) = [].
Proof. induction cs as [|[p d] r IH]; cbn; [reflexivity|]. exact IH. Qed.

Lemma core_pre seg pls : map core (pre_pls seg pls) = map (cpre seg) (map core pls).
Proof. unfold pre_pls. rewrite !map_map. reflexivity. Qed.

Lemma core_nest pls : map core (map nest_pl pls) = map core pls.
Proof. rewrite map_map. reflexivity. Qed.

Lemma Forall2_len {A B} (P : A -> B -> Prop) l l' : Forall2 P l l' -> length l = length l'.
Proof. induction 1; cbn; congruence. Qed.

Definition AnyOrd (j0 : json) (cs : list cpl) (j : json) : Prop :=
  forall cs' m', Permutation cs cs' -> capplys j0 cs' = Some m' -> jeq m' j.

Lemma AnyOrd_nil j : AnyOrd j [] j.
Proof.
  intros cs' m' Hp H. apply Permutation_nil in Hp. subst. cbn in H. inversion H; subst. apply jeq_refl.
Qed.

(* ---- objects ---- *)
Definition celift (E : list er) : list cpl :=
  flat_map (fun e => map (cpre (PKey (er_key e))) (map core (er_pls e))) E.

Lemma core_elift E : map core (elift E) = celift E.
Proof.
  unfold elift, celift. induction E as [|e r IH]; cbn; [reflexivity|].
  rewrite map_app, core_pre, IH. reflexivity.
Qed.

Definition sel (k : str) (e : er) : list cpl := if str_eqb k (er_key e) then map core (er_pls e) else [].

Lemma cproj_key_app k a b : cproj_key k (a ++ b) = cproj_key k a ++ cproj_key k b.
Proof. unfold cproj_key. apply flat_map_app. Qed.

Lemma cproj_key_celift k E : cproj_key k (celift E) = flat_map (sel k) E.
Proof.
  unfold celift. induction E as [|e r IH]; cbn [flat_map]; [reflexivity|].
  rewrite cproj_key_app, IH, cproj_key_pre. reflexivity.
Qed.

Lemma sel_none k E : ~ In k (map er_key E) -> flat_map (sel k) E = [].
Proof.
  induction E as [|e r IH]; cbn [flat_map map]; [reflexivity|]. intro H.
  unfold sel at 1. destruct (str_eqb k (er_key e)) eqn:Ek.
  - apply str_eqb_eq in Ek. exfalso. apply H. left. symmetry. exact Ek.
  - apply IH. intro Hx. apply H. right. exact Hx.
Qed.

Lemma sel_unique e E : NoDup (map er_key E) -> In e E -> flat_map (sel (er_key e)) E = map core (er_pls e).
Proof.
  induction E as [|x r IH]; cbn [flat_map map]; [intros _ []|]. intros Hn [->|Hin]; inversion Hn; subst.
  - unfold sel at 1. rewrite str_eqb_refl. rewrite sel_none by assumption. apply app_nil_r.
  - unfold sel at 1. destruct (str_eqb (er_key e) (er_key x)) eqn:Ek.
    + apply str_eqb_eq in Ek. exfalso. apply H1. rewrite <- Ek. apply in_map. exact Hin.
    + apply IH; assumption.
Qed.

(* the canonical payload list of one object position, as the merge sees it *)
Definition ccanon (E0 : list er) (GL : list (list er)) : list cpl :=
  celift E0 ++ flat_map (fun E => ([], Some (ekvs E)) :: celift E) GL.

Lemma cproj_key_cons_head k d l : cproj_key k (([], d) :: l) = cproj_key k l.
Proof. reflexivity. Qed.

Lemma cproj_key_ccanon k E0 GL : cproj_key k (ccanon E0 GL) = flat_map (sel k) (E0 ++ concat GL).
Proof.
  unfold ccanon. rewrite cproj_key_app, cproj_key_celift, flat_map_app. f_equal.
  induction GL as [|E r IH]; cbn [flat_map concat]; [reflexivity|].
  cbn [app]. rewrite cproj_key_cons_head, cproj_key_app, cproj_key_celift, flat_map_app, IH. reflexivity.
Qed.

Lemma cheads_app a b : cheads (a ++ b) = cheads a ++ cheads b.
Proof. unfold cheads. apply flat_map_app. Qed.

Lemma cheads_celift E : cheads (celift E) = [].
Proof.
  unfold celift. induction E as [|e r IH]; cbn [flat_map]; [reflexivity|].
  rewrite cheads_app, cheads_pre, IH. reflexivity.
Qed.

Lemma cheads_cons c l : cheads (c :: l) = chd c ++ cheads l.
Proof. reflexivity. Qed.

Lemma cheads_ccanon E0 GL : cheads (ccanon E0 GL) = flat_map ekvs GL.
Proof.
  unfold ccanon. rewrite cheads_app, cheads_celift. cbn [app].
  induction GL as [|E r IH]; cbn [flat_map]; [reflexivity|].
  cbn [app]. rewrite cheads_cons, cheads_app, cheads_celift, IH. reflexivity.
Qed.

Lemma c_ok_celift E : Forall pl_ok (elift E) -> Forall c_ok (celift E).
Proof.
  rewrite <- core_elift. intro H. apply Forall_map. eapply Forall_impl; [|exact H].
  intros p [[kvs Hd] _]. exists kvs. exact Hd.
Qed.

Lemma jeq_kvs_pointwise (f : str -> json) l :
  (forall k v, In (k, v) l -> jeq v (f k)) -> jeq_kvs l (map (fun kv => (fst kv, f (fst kv))) l).
Proof.
  induction l as [|[k v] r IH]; intro H; cbn; [constructor|].
  constructor; [apply H; left; reflexivity|apply IH; intros k0 v0 Hin; apply H; right; exact Hin].
Qed.

Lemma lookup_in_nodup {A} k (v : A) l : NoDup (map fst l) -> In (k, v) l -> lookup k l = Some v.
Proof.
  induction l as [|[k0 v0] r IH]; cbn; [tauto|]. intros Hn [H|H]; inversion Hn; subst.
  - inversion H; subst. rewrite str_eqb_refl. reflexivity.
  - destruct (str_eqb k k0) eqn:E; [|apply IH; assumption].
    apply str_eqb_eq in E. subst. exfalso. apply H2. apply in_map_iff. exists (k0, v). split; [reflexivity|exact H].
Qed.

Lemma lookup_some_in {A} k (v : A) l : lookup k l = Some v -> In (k, v) l.
Proof.
  induction l as [|[k0 v0] r IH]; cbn; [discriminate|].
  destruct (str_eqb k k0) eqn:E; [|intro H; right; apply IH; exact H].
  intro H. inversion H; subst. apply str_eqb_eq in E. subst. left. reflexivity.
Qed.

(* an object assembled in ANY applicable order equals the reference up to key order *)
Lemma level_any (E0 : list er) (GL : list (list er)) (refs : list json) :
  let ALL := E0 ++ concat GL in
  NoDup (map er_key ALL) ->
  Forall2 (fun e j => AnyOrd (er_val e) (map core (er_pls e)) j) ALL refs ->
  Forall c_ok (ccanon E0 GL) ->
  forall R, Permutation (combine (map er_key ALL) refs) R ->
  AnyOrd (JObj (ekvs E0)) (ccanon E0 GL) (JObj R).
Proof.
  intros ALL Hnd HF Hok R HR cs' m' Hp H.
  assert (Hlen : length (map er_key ALL) = length refs).
  { rewrite map_length. eapply Forall2_len. exact HF. }
  assert (Hkeys : map fst (combine (map er_key ALL) refs) = map er_key ALL).
  { clear - Hlen. revert refs Hlen. generalize (map er_key ALL) as ks.
    induction ks as [|k r IH]; intros [|j t] Hl; cbn in *; try discriminate; [reflexivity|].
    f_equal. apply IH. lia. }
  (* simulate *)
  assert (Hheads : Permutation (map fst (cheads cs')) (map er_key (concat GL))).
  { eapply Permutation_trans; [apply Permutation_map; apply cheads_perm; apply Permutation_sym; exact Hp|].
    rewrite cheads_ccanon. clear. induction GL as [|E r IH]; cbn; [constructor|].
    rewrite !map_app, ekvs_keys. apply Permutation_app_head. exact IH. }
  destruct (obj_sim cs' (ekvs E0) m') as [kvs_r [-> [Hk [H3 H4]]]].
  - eapply Permutation_Forall; [exact Hp|exact Hok].
  - rewrite ekvs_keys. eapply Permutation_NoDup; [|exact Hnd]. unfold ALL. rewrite map_app.
    apply Permutation_app_head. apply Permutation_sym. exact Hheads.
  - exact H.
  - (* every entry's final value is equal to its reference *)
    assert (Hkr : Permutation (map fst kvs_r) (map er_key ALL)).
    { rewrite Hk, ekvs_keys. unfold ALL. rewrite map_app. apply Permutation_app_head. exact Hheads. }
    assert (Hnr : NoDup (map fst kvs_r)).
    { eapply Permutation_NoDup; [apply Permutation_sym; exact Hkr|exact Hnd]. }
    assert (Hent : forall e j, In (e, j) (combine ALL refs) -> exists v, In (er_key e, v) kvs_r /\ jeq v j).
    { intros e j Hin.
      assert (HeA : In e ALL) by (eapply in_combine_l; exact Hin).
      assert (Hany : AnyOrd (er_val e) (map core (er_pls e)) j).
      { clear - HF Hin. induction HF as [|x y l l' Hxy HF IH]; cbn in Hin; [destruct Hin|].
        destruct Hin as [Hin|Hin]; [inversion Hin; subst; exact Hxy|apply IH; exact Hin]. }
      assert (Hproj : Permutation (map core (er_pls e)) (cproj_key (er_key e) cs')).
      { eapply Permutation_trans; [|apply cproj_key_perm; exact Hp].
        rewrite cproj_key_ccanon. fold ALL. rewrite sel_unique by assumption. apply Permutation_refl. }
      unfold ALL in HeA. apply in_app_or in HeA as [He0|Heg].
      - destruct (H3 (er_key e) (er_val e)) as [v [Hv Ha]].
        { unfold ekvs. apply in_map_iff. exists e. split; [reflexivity|exact He0]. }
        exists v. split; [exact Hv|]. eapply Hany; [exact Hproj|exact Ha].
      - apply in_concat in Heg as [E [HE HeE]].
        assert (Hc : In ([], Some (ekvs E)) cs').
        { eapply Permutation_in; [exact Hp|]. unfold ccanon. apply in_or_app. right.
          apply in_flat_map. exists E. split; [exact HE|left; reflexivity]. }
        apply in_split in Hc as [a [b Hs]].
        destruct (H4 a _ b (er_key e) (er_val e) Hs) as [v [Hv [Ha Hpa]]].
        { cbn [chd fst snd]. unfold ekvs. apply in_map_iff. exists e. split; [reflexivity|exact HeE]. }
        exists v. split; [exact Hv|]. eapply Hany; [|exact Ha].
        eapply Permutation_trans; [exact Hproj|]. rewrite Hs, cproj_key_app, Hpa. cbn [app].
        change (([], Some (ekvs E)) :: b) with ([(@nil pathseg, Some (ekvs E))] ++ b).
        rewrite cproj_key_app. cbn. apply Permutation_refl. }
    set (cr := combine (map er_key ALL) refs) in *.
    set (f := fun k => match lookup k cr with Some j => j | None => JNull end).
    assert (Hncr : NoDup (map fst cr)) by (rewrite Hkeys; exact Hnd).
    apply jeq_obj with (b := map (fun kv => (fst kv, f (fst kv))) kvs_r).
    + apply jeq_kvs_pointwise. intros k v Hin.
      assert (Hka : In k (map er_key ALL)).
      { eapply Permutation_in; [exact Hkr|]. apply in_map_iff. exists (k, v). split; [reflexivity|exact Hin]. }
      apply in_map_iff in Hka as [e [Hke HeA]].
      (* the reference of e *)
      assert (Hj : exists j, In (e, j) (combine ALL refs)).
      { clear - HF HeA. induction HF as [|x y l l' Hxy HF IH]; [destruct HeA|].
        destruct HeA as [->|HeA]; [exists y; left; reflexivity|].
        destruct (IH HeA) as [j Hj]. exists j. right. exact Hj. }
      destruct Hj as [j Hj]. destruct (Hent e j Hj) as [v' [Hv' Hjq]].
      rewrite Hke in Hv'. assert (v' = v) by exact (nodup_keys_in kvs_r k v' v Hnr Hv' Hin). subst v'.
      assert (Hl : lookup k cr = Some j).
      { apply lookup_in_nodup; [exact Hncr|]. unfold cr. rewrite <- Hke.
        clear - Hj. revert refs Hj. induction ALL as [|x l IH]; intros [|y t] Hj; cbn in *; try tauto.
        destruct Hj as [Hj|Hj]; [inversion Hj; subst; left; reflexivity|right; apply IH; exact Hj]. }
      unfold f. rewrite Hl. exact Hjq.
    + eapply Permutation_trans; [|exact HR]. apply NoDup_Permutation.
      * apply (NoDup_map_inv fst). rewrite map_map. cbn [fst]. exact Hnr.
      * apply (NoDup_map_inv fst). exact Hncr.
      * intros [k j]. split.
        -- intro Hin. apply in_map_iff in Hin as [[k0 v0] [Heq Hin]]. cbn [fst] in Heq. inversion Heq; subst.
           assert (Hka : In k (map fst cr)).
           { rewrite Hkeys. eapply Permutation_in; [exact Hkr|].
             apply in_map_iff. exists (k, v0). split; [reflexivity|exact Hin]. }
           apply in_map_iff in Hka as [[k1 j1] [Hk1 Hin1]]. cbn [fst] in Hk1. subst k1.
           unfold f. rewrite (lookup_in_nodup k j1 cr Hncr Hin1). exact Hin1.
        -- intro Hin. apply in_map_iff.
           assert (Hka : In k (map fst kvs_r)).
           { eapply Permutation_in; [apply Permutation_sym; exact Hkr|]. rewrite <- Hkeys.
             apply in_map_iff. exists (k, j). split; [reflexivity|exact Hin]. }
           apply in_map_iff in Hka as [[k1 v1] [Hk1 Hin1]]. cbn [fst] in Hk1. subst k1.
           exists (k, v1). split; [|exact Hin1]. cbn [fst]. unfold f.
           rewrite (lookup_in_nodup k j cr Hncr Hin). reflexivity.
Qed.

(* ---- lists ---- *)
Lemma cproj_idx_app i a b : cproj_idx i (a ++ b) = cproj_idx i a ++ cproj_idx i b.
Proof. unfold cproj_idx. apply flat_map_app. Qed.

Lemma cproj_idx_ilift I : forall i0 i,
  cproj_idx i (map core (ilift I i0))
  = match (if Nat.ltb i i0 then None else nth_error I (i - i0)) with
    | Some x => map core (snd x)
    | None => []
    end.
Proof.
  induction I as [|x r IH]; intros i0 i; cbn [ilift map].
  - cbn [cproj_idx flat_map]. destruct (Nat.ltb i i0); [reflexivity|]. destruct (i - i0)%nat; reflexivity.
  - rewrite map_app, cproj_idx_app, core_pre, cproj_idx_pre, IH.
    destruct (Nat.ltb i i0) eqn:E1.
    + apply Nat.ltb_lt in E1. assert (E2 : Nat.eqb i i0 = false) by (apply Nat.eqb_neq; lia).
      assert (E3 : Nat.ltb i (S i0) = true) by (apply Nat.ltb_lt; lia). rewrite E2, E3. reflexivity.
    + apply Nat.ltb_ge in E1. destruct (Nat.eqb i i0) eqn:E2.
      * apply Nat.eqb_eq in E2. subst i0.
        assert (E3 : Nat.ltb i (S i) = true) by (apply Nat.ltb_lt; lia). rewrite E3, Nat.sub_diag.
        cbn. apply app_nil_r.
      * apply Nat.eqb_neq in E2. assert (E3 : Nat.ltb i (S i0) = false) by (apply Nat.ltb_ge; lia).
        rewrite E3. replace (i - i0)%nat with (S (i - S i0)) by lia. reflexivity.
Qed.

Lemma jeq_items_nth a : forall b, length a = length b ->
  (forall i x y, nth_error a i = Some x -> nth_error b i = Some y -> jeq x y) -> jeq_items a b.
Proof.
  induction a as [|x r IH]; intros [|y t] Hl H; cbn in Hl; try discriminate; constructor.
  - apply (H 0%nat); reflexivity.
  - apply IH; [lia|]. intros i x0 y0 H1 H2. apply (H (S i)); assumption.
Qed.

Lemma Forall2_nth {A B} (P : A -> B -> Prop) l l' : Forall2 P l l' ->
  forall i a b, nth_error l i = Some a -> nth_error l' i = Some b -> P a b.
Proof.
  induction 1 as [|x y l l' Hxy HF IH]; intros [|i] a b H1 H2; cbn in *; try discriminate.
  - inversion H1; inversion H2; subst. exact Hxy.
  - eapply IH; eauto.
Qed.

Lemma level_any_items I refs :
  Forall2 (fun (x : ir) j => AnyOrd (fst x) (map core (snd x)) j) I refs ->
  Forall c_ok (map core (ilift I 0)) ->
  AnyOrd (JList (map fst I)) (map core (ilift I 0)) (JList refs).
Proof.
  intros HF Hok cs' m' Hp H.
  destruct (list_sim cs' (map fst I) m') as [js_r [-> [Hlen H3]]]; [|exact H|].
  { eapply Permutation_Forall; [exact Hp|exact Hok]. }
  constructor. apply jeq_items_nth.
  - rewrite Hlen, map_length. eapply Forall2_len. exact HF.
  - intros i x y Hx Hy.
    assert (Hi : exists xi, nth_error I i = Some xi).
    { destruct (nth_error I i) as [xi|] eqn:E; [eauto|]. exfalso.
      apply nth_error_None in E. rewrite (Forall2_len _ _ _ HF) in E.
      apply nth_error_None in E. congruence. }
    destruct Hi as [xi Hxi].
    destruct (H3 i (fst xi)) as [v [Hv Ha]].
    { apply map_nth_error. exact Hxi. }
    rewrite Hx in Hv. inversion Hv; subst v.
    pose proof (Forall2_nth _ _ _ HF i xi y Hxi Hy) as Hany.
    eapply Hany; [|exact Ha].
    eapply Permutation_trans; [|apply cproj_idx_perm; exact Hp].
    rewrite cproj_idx_ilift. replace (Nat.ltb i 0) with false by (symmetry; apply Nat.ltb_ge; lia).
    rewrite Nat.sub_0_r, Hxi. apply Permutation_refl.
Qed.

(* initial value + payloads reassemble to the reference value: in the order the model lists them, and in
   every other order in which the merge can be carried out *)
Definition Good (j0 : json) (pls : list payload) (j : json) : Prop :=
  Forall pl_ok pls /\ (exists m, apply_pls j0 pls = Some m /\ jeq m j) /\ AnyOrd j0 (map core pls) j.

Lemma Good_refl j : Good j [] j.
Proof.
  split; [constructor|]. split; [exists j; split; [reflexivity|apply jeq_refl]|apply AnyOrd_nil].
Qed.

Lemma Good_null pls j : Good JNull pls j -> j = JNull.
Proof.
  intros [Hok [[m [Ha Hj]] _]]. destruct pls as [|p r].
  - cbn in Ha. inversion Ha; subst. apply jeq_null_l. exact Hj.
  - exfalso. inversion Hok as [|x l [[kvs Hd] _] _]; subst.
    cbn [apply_pls] in Ha. unfold apply_pl in Ha. rewrite Hd in Ha.
    destruct (pl_path p) as [|[k|i] q]; cbn in Ha; discriminate.
Qed.

Lemma pl_ok_pre seg pls : Forall pl_ok pls -> Forall pl_ok (pre_pls seg pls).
Proof. unfold pre_pls. intro H. apply Forall_map. eapply Forall_impl; [|exact H]. intros p Hp. exact Hp. Qed.

Lemma pl_ok_nest pls : Forall pl_ok pls -> Forall pl_ok (map nest_pl pls).
Proof. intro H. apply Forall_map. eapply Forall_impl; [|exact H]. intros p Hp. exact Hp. Qed.

Lemma catch_errs t r es cs : snd (fst (catch t (r, es, cs))) = es.
Proof. destruct r; cbn; [reflexivity|]. destruct (is_nonnull t); reflexivity. Qed.

Definition erel (efp efd : list dfield -> option xfres) (e : str * list dfield) : Prop :=
  (efp (snd e) = Some XSkip /\ efd (snd e) = Some XSkip) \/
  (exists j cs pl rv j0 cs0 pl0 rv0,
     efp (snd e) = Some (XRes ((CVal j, [], cs), pl, rv)) /\
     efd (snd e) = Some (XRes ((CVal j0, [], cs0), pl0, rv0)) /\ Good j0 pl0 j).

Lemma erel_eok efp efd e : erel efp efd e -> eok efd e.
Proof.
  intros [[_ H]|[j [cs [pl [rv [j0 [cs0 [pl0 [rv0 [_ [H _]]]]]]]]]]]; [left; exact H|right; eauto 6].
Qed.

Lemma ents_app ef a b : ents ef (a ++ b) = ents ef a ++ ents ef b.
Proof. unfold ents. apply flat_map_app. Qed.

Lemma ents_keys_subl ef g : subl (map er_key (ents ef g)) (map fst g).
Proof.
  unfold ents. apply subl_flat_map. intros [k fs]. cbn [fst snd].
  destruct (ef fs) as [[|[[[[[j|] es] cs] pl] rv]]|]; auto.
  right. eexists. split; reflexivity.
Qed.

Definition AnyE (e : er) (j : json) : Prop := AnyOrd (er_val e) (map core (er_pls e)) j.

Lemma ents_rel efp efd g : Forall (erel efp efd) g ->
  exists ms, Forall2 Asm (ents efd g) ms /\
             jeq_kvs (efin (ents efd g) ms) (ekvs (ents efp g)) /\
             Forall pl_ok (elift (ents efd g)) /\
             map er_key (ents efd g) = map fst (ekvs (ents efp g)) /\
             Forall2 AnyE (ents efd g) (map snd (ekvs (ents efp g))).
Proof.
  induction 1 as [|[k fs] rest He HF [ms [H1 [H2 [H3 [H4 H5]]]]]]; cbn [ents flat_map fst snd].
  - exists []. repeat split; constructor.
  - fold (ents efd rest). fold (ents efp rest).
    destruct He as [[Hp Hd]|[j [cs [pl [rv [j0 [cs0 [pl0 [rv0 [Hp [Hd [Hok [[m [Hm Hj]] Hany]]]]]]]]]]]]];
      cbn [snd] in Hp, Hd; rewrite Hp, Hd; cbn [app].
    + exists ms. auto.
    + exists (m :: ms). split; [constructor; [exact Hm|exact H1]|]. split.
      { cbn. constructor; assumption. }
      split.
      { cbn [elift flat_map]. apply Forall_app. split; [apply pl_ok_pre; exact Hok|exact H3]. }
      split.
      { cbn [map ekvs er_key fst]. f_equal. exact H4. }
      cbn [map ekvs snd]. constructor; [exact Hany|exact H5].
Qed.

Lemma map_flat_map {A B C} (f : B -> C) (g : A -> list B) l :
  map f (flat_map g l) = flat_map (fun x => map f (g x)) l.
Proof. induction l; cbn; [reflexivity|]. rewrite map_app. congruence. Qed.

Lemma flat_map_map {A B C} (f : B -> list C) (g : A -> B) l :
  flat_map f (map g l) = flat_map (fun x => f (g x)) l.
Proof. induction l; cbn; congruence. Qed.

Lemma deferred_rel efp (efd : list N -> list dfield -> option xfres) groups GL :
  Forall2 (fun sg (g : payload * list er) => is_head (fst g) (snd g) /\ pl_errs (fst g) = [] /\
                       snd g = ents (efd (Plan.ids (fst sg))) (snd sg)) groups GL ->
  Forall (fun sg => Forall (erel efp (efd (Plan.ids (fst sg)))) (snd sg)) groups ->
  exists GL' : list gres,
    map fst GL' = GL /\
    Forall (fun g => is_head (fst (fst g)) (snd (fst g)) /\ Forall2 Asm (snd (fst g)) (snd g)) GL' /\
    jeq_kvs (flat_map (fun g => efin (snd (fst g)) (snd g)) GL')
            (flat_map (fun sg => ekvs (ents efp (snd sg))) groups) /\
    subl (flat_map (fun g => map er_key (snd (fst g))) GL') (flat_map (fun sg => map fst (snd sg)) groups) /\
    Forall pl_ok (flat_map (fun g : payload * list er => fst g :: map nest_pl (elift (snd g))) GL) /\
    map er_key (concat (map snd GL)) = map fst (flat_map (fun sg => ekvs (ents efp (snd sg))) groups) /\
    Forall2 AnyE (concat (map snd GL)) (map snd (flat_map (fun sg => ekvs (ents efp (snd sg))) groups)).
Proof.
  induction 1 as [|[sdu g] [P E] groups GL [Hh [He HE]] HF2 IH]; intro HF.
  - exists []. repeat split; constructor.
  - inversion HF as [|x l Hg Hr]; subst. cbn [fst snd] in *. subst E.
    destruct (IH Hr) as [GL' [G1 [G2 [G3 [G4 [G5 [G6 G7]]]]]]].
    destruct (ents_rel _ _ _ Hg) as [ms [M1 [M2 [M3 [M4 M5]]]]].
    exists ((P, ents (efd (Plan.ids sdu)) g, ms) :: GL'). cbn [map flat_map concat fst snd].
    split; [rewrite G1; reflexivity|].
    split; [constructor; [split; assumption|exact G2]|].
    split; [apply jeq_kvs_app; assumption|].
    split; [apply subl_app; [apply ents_keys_subl|exact G4]|].
    split.
    { constructor.
      + split; [|exact He]. destruct Hh as [_ Hd]. eexists. exact Hd.
      + apply Forall_app. split; [apply pl_ok_nest; exact M3|exact G5]. }
    split.
    { rewrite !map_app, M4, G6. reflexivity. }
    rewrite map_app. apply Forall2_app; assumption.
Qed.

Lemma items_rel (cfp cfd : data -> option xout) items :
  Forall (fun x => exists j cs1 pl1 rv1 j0 cs0 pls rv0,
            cfp x = Some ((CVal j, [], cs1), pl1, rv1) /\
            cfd x = Some ((CVal j0, [], cs0), pls, rv0) /\ Good j0 pls j) items ->
  exists ms, Forall2 (fun (x : ir) m => apply_pls (fst x) (snd x) = Some m) (irs cfd items) ms /\
             jeq_items ms (map fst (irs cfp items)) /\
             (forall i, Forall pl_ok (ilift (irs cfd items) i)) /\
             Forall2 (fun (x : ir) j => AnyOrd (fst x) (map core (snd x)) j) (irs cfd items)
                     (map fst (irs cfp items)).
Proof.
  induction 1 as [|x rest Hx HF IH].
  - exists []. repeat split; constructor.
  - destruct IH as [ms [I1 [I2 [I3 I4]]]].
    destruct Hx as [j [cs1 [pl1 [rv1 [j0 [cs2 [pls [rv2 [Hp [Hd [Hk [[m [Hm Hj]] Hany]]]]]]]]]]]].
    unfold irs. cbn [flat_map]. rewrite Hp, Hd. fold (irs cfd rest). fold (irs cfp rest). cbn [app map fst].
    exists (m :: ms). split; [constructor; [exact Hm|exact I1]|]. split; [constructor; assumption|].
    split.
    + intro i. cbn [ilift snd]. apply Forall_app. split; [apply pl_ok_pre; exact Hk|apply I3].
    + constructor; [exact Hany|exact I4].
Qed.

Lemma combine_fst_snd {A B} (l : list (A * B)) : combine (map fst l) (map snd l) = l.
Proof. induction l as [|[a b] r IH]; cbn; [reflexivity|]. rewrite IH. reflexivity. Qed.

Lemma c_ok_core pls : Forall pl_ok pls -> Forall c_ok (map core pls).
Proof.
  intro H. apply Forall_map. eapply Forall_impl; [|exact H]. intros p [[kvs Hd] _]. exists kvs. exact Hd.
Qed.

Lemma core_canon E0 (GL : list (payload * list er)) :
  Forall (fun g => is_head (fst g) (snd g)) GL ->
  map core (elift E0 ++ flat_map (fun g : payload * list er => fst g :: map nest_pl (elift (snd g))) GL)
  = ccanon E0 (map snd GL).
Proof.
  intro H. unfold ccanon. rewrite map_app, core_elift. f_equal.
  induction H as [|[P E] r [Hp Hd] HF IH]; cbn [flat_map map fst snd]; [reflexivity|].
  cbn [app map]. rewrite map_app, core_nest, core_elift, IH. cbn [fst snd] in Hp, Hd.
  unfold core at 1. rewrite Hp, Hd. reflexivity.
Qed.

Section Reassembly.
  Variable s : schema.
  Variable frags : list fragment.
  Variable cv : list (str * value).

  Definition S_stmt (f : nat) : Prop :=
    forall tn obj srcs S1 S b dp r cs pl rv,
      dexec_sels s frags cv false f tn obj srcs S1 b dp = Some ((r, [], cs), pl, rv) ->
      exists j j0 cs0 pls rv0, r = CVal j /\
        dexec_sels s frags cv true f tn obj srcs S b dp = Some ((CVal j0, [], cs0), pls, rv0) /\
        Good j0 pls j.

  Definition F_stmt (f : nat) : Prop :=
    forall tn obj S1 S b dp fs,
      (dexec_field s frags cv false f tn obj S1 b dp fs = Some XSkip ->
       dexec_field s frags cv true f tn obj S b dp fs = Some XSkip) /\
      (forall r cs pl rv,
         dexec_field s frags cv false f tn obj S1 b dp fs = Some (XRes ((r, [], cs), pl, rv)) ->
         exists j j0 cs0 pls rv0, r = CVal j /\
           dexec_field s frags cv true f tn obj S b dp fs = Some (XRes ((CVal j0, [], cs0), pls, rv0)) /\
           Good j0 pls j).

  Definition C_stmt (f : nat) : Prop :=
    forall t fs d S1 S b dp r cs pl rv,
      dcomplete s frags cv false f t fs d S1 b dp = Some ((r, [], cs), pl, rv) ->
      exists j j0 cs0 pls rv0, r = CVal j /\
        dcomplete s frags cv true f t fs d S b dp = Some ((CVal j0, [], cs0), pls, rv0) /\
        Good j0 pls j.

  Lemma F_erel f tn obj S1 b dp g : F_stmt f ->
    Forall (eok (dexec_field s frags cv false f tn obj S1 b dp)) g ->
    forall S, Forall (erel (dexec_field s frags cv false f tn obj S1 b dp)
                           (dexec_field s frags cv true f tn obj S b dp)) g.
  Proof.
    intros HF Hok S. eapply Forall_impl; [|exact Hok]. intros [k fs] He.
    destruct (HF tn obj S1 S b dp fs) as [Hs Hr].
    destruct He as [He|[j [cs [pl [rv He]]]]]; cbn [snd] in He.
    - left. split; [exact He|apply Hs; exact He].
    - right. destruct (Hr _ _ _ _ He) as [j' [j0 [cs0 [pls [rv0 [Hj [Hd HG]]]]]]].
      inversion Hj; subst. cbn [snd]. eauto 12.
  Qed.

  Lemma step_S f : F_stmt f -> S_stmt (S f).
  Proof.
    intros HF tn obj srcs S1 S b dp r cs pl rv H.
    rewrite dexec_sels_S in H. rewrite dexec_sels_S.
    destruct (dcollect_srcs s frags cv tn b dp f srcs cs0) as [st|] eqn:Ec; [|discriminate].
    cbv zeta in *. cbn [fst snd] in H.
    set (b' := b + N.of_nat (length (c_new st))) in *.
    set (dg := c_g st) in *.
    set (efp := dexec_field s frags cv false f tn obj S1 b' dp) in *.
    assert (Hdg : NoDup (map fst dg)) by (eapply dcollect_srcs_nodup; exact Ec).
    (* the plain run *)
    assert (Hp : Forall (eok efp) dg /\ r = CVal (JObj (ekvs (ents efp dg)))).
    { assert (Hf : forall e r cs pl rv, In e dg -> efp (snd e) = Some (XRes ((r, [], cs), pl, rv)) ->
                                        exists j, r = CVal j).
      { intros e r0 cs1 pl1 rv1 _ He. destruct (HF tn obj S1 S1 b' dp (snd e)) as [_ Hr].
        destruct (Hr _ _ _ _ He) as [j [_ [_ [_ [_ [Hj _]]]]]]. eauto. }
      destruct (dexec_groups efp dg) as [[[[[r' es'] cs'] pls'] rv']|] eqn:Eg; [|discriminate].
      destruct r' as [kvs|].
      - cbn [dexec_deferred] in H. inversion H; subst; clear H.
        destruct (groups_inv efp dg _ _ _ _ Hf Eg) as [H1 [H2 _]]. inversion H2; subst.
        split; [exact H1|reflexivity].
      - inversion H; subst; clear H.
        destruct (groups_inv efp dg _ _ _ _ Hf Eg) as [_ [H2 _]]. discriminate. }
    destruct Hp as [Hok ->].
    (* the incremental run *)
    pose (efd := fun par => dexec_field s frags cv true f tn obj par b' dp).
    assert (Hrel : forall par, Forall (erel efp (efd par)) dg).
    { intro par. apply F_erel; assumption. }
    pose proof (plan_of_partition dg S) as Hperm.
    destruct (plan_of dg S) as [init groups] eqn:Epl. cbn [fst snd] in *.
    assert (Hall : forall par, Forall (erel efp (efd par)) (init ++ flat_map snd groups)).
    { intro par. eapply Permutation_Forall; [apply Permutation_sym; exact Hperm|apply Hrel]. }
    assert (Hinit : Forall (erel efp (efd S)) init).
    { specialize (Hall S). apply Forall_app in Hall. tauto. }
    assert (Hgroups : Forall (fun sg => Forall (erel efp (efd (Plan.ids (fst sg)))) (snd sg)) groups).
    { apply Forall_forall. intros sg Hin. specialize (Hall (Plan.ids (fst sg))).
      apply Forall_app in Hall as [_ Hall]. rewrite Forall_forall in *.
      intros e He. apply Hall. apply in_flat_map. exists sg. split; assumption. }
    destruct (groups_intro (efd S) init) as [cs0 [rv0 Hgi]].
    { eapply Forall_impl; [|exact Hinit]. intros e. apply erel_eok. }
    fold (efd S). rewrite Hgi.
    destruct (deferred_intro efd groups) as [GL [rvd [Hdi HGL]]].
    { eapply Forall_impl; [|exact Hgroups]. intros sg Hsg. eapply Forall_impl; [|exact Hsg].
      intros e. apply erel_eok. }
    change (fun par : list N => dexec_field s frags cv true f tn obj par b' dp) with efd.
    rewrite Hdi.
    destruct (ents_rel _ _ _ Hinit) as [ms0 [M1 [M2 [M3 [M4 M5]]]]].
    destruct (deferred_rel efp efd groups GL HGL Hgroups) as [GL' [G1 [G2 [G3 [G4 [G5 [G6 G7]]]]]]].
    eexists _, _, _, _, _. split; [reflexivity|]. split; [reflexivity|].
    (* keys are distinct across the parts of the plan *)
    assert (Hkeys : NoDup (map er_key (ents (efd S) init) ++
                           flat_map (fun g : gres => map er_key (snd (fst g))) GL')).
    { eapply subl_NoDup; [apply subl_app; [apply ents_keys_subl|exact G4]|].
      assert (Hn : NoDup (map fst (init ++ flat_map snd groups))).
      { eapply Permutation_NoDup; [|exact Hdg]. apply Permutation_map. apply Permutation_sym. exact Hperm. }
      rewrite map_app, map_flat_map in Hn. exact Hn. }
    set (bref := ekvs (ents efp init) ++ flat_map (fun sg => ekvs (ents efp (snd sg))) groups).
    assert (Hbref : Permutation bref (ekvs (ents efp dg))).
    { apply Permutation_trans with (ekvs (ents efp (init ++ flat_map snd groups))).
      - unfold bref. rewrite ents_app. unfold ekvs. rewrite map_app. apply Permutation_app_head.
        unfold ents. rewrite flat_map_flat_map, map_flat_map. apply Permutation_refl.
      - unfold ekvs, ents. apply Permutation_map. apply Permutation_flat_map. exact Hperm. }
    assert (Hallok : Forall pl_ok (elift (ents (efd S) init) ++
                       flat_map (fun g : payload * list er => fst g :: map nest_pl (elift (snd g))) GL)).
    { apply Forall_app. split; [exact M3|exact G5]. }
    split; [exact Hallok|]. split.
    - exists (JObj (efin (ents (efd S) init) ms0 ++ flat_map (fun g : gres => efin (snd (fst g)) (snd g)) GL')).
      split.
      + rewrite apply_pls_app.
        pose proof (level_nested _ _ M1 [] []) as L1. cbn [app map] in L1. rewrite !app_nil_r in L1.
        rewrite L1 by (eapply NoDup_app_l; exact Hkeys).
        rewrite <- G1, flat_map_map. apply level_groups; [exact G2|].
        rewrite (efin_keys _ _ M1). exact Hkeys.
      + apply jeq_obj with (b := bref); [apply jeq_kvs_app; assumption|exact Hbref].
    - (* any applicable order *)
      assert (Hheads : Forall (fun g : payload * list er => is_head (fst g) (snd g)) GL).
      { clear - HGL. induction HGL as [|x y l l' [Hh _] _ IH]; constructor; assumption. }
      rewrite (core_canon _ _ Hheads).
      assert (Hcat : concat (map snd GL) = flat_map (fun g : gres => snd (fst g)) GL').
      { rewrite <- G1, map_map, <- flat_map_concat_map. reflexivity. }
      apply level_any with (refs := map snd (ekvs (ents efp init))
                                    ++ map snd (flat_map (fun sg => ekvs (ents efp (snd sg))) groups)).
      + rewrite map_app, Hcat, map_flat_map. exact Hkeys.
      + apply Forall2_app; assumption.
      + rewrite <- (core_canon _ _ Hheads). apply c_ok_core. exact Hallok.
      + rewrite map_app, M4, G6, <- !map_app. fold bref. rewrite combine_fst_snd. exact Hbref.
  Qed.

  Lemma step_F f : C_stmt f -> F_stmt (S f).
  Proof.
    intros HC tn obj S1 S2 b dp fs. rewrite !dexec_field_S.
    destruct fs as [|d1 fs']; [split; [reflexivity|discriminate]|].
    cbv zeta.
    destruct (str_eqb (fs_name (df_fs d1)) n_typename).
    { split; [discriminate|]. intros r cs pl rv H. inversion H; subst.
      eexists _, _, _, _, _. split; [reflexivity|]. split; [reflexivity|apply Good_refl]. }
    destruct (lookup_field s tn (fs_name (df_fs d1))) as [fd|]; [|split; [reflexivity|discriminate]].
    destruct (coerce_args s cv (f_args fd) (fs_args (df_fs d1))) as [args|].
    2:{ split; [discriminate|]. intros r cs pl rv H. exfalso.
        unfold catch, raise_here in H. destruct (is_nonnull (f_type fd)); inversion H. }
    set (d := match lookup (fs_name (df_fs d1)) obj with Some d => d | None => DNull end).
    split.
    { intro H. destruct (dcomplete s frags cv false f (f_type fd) (d1 :: fs') d S1 b (S dp))
        as [[[[[r es] cs] pls] rv]|]; discriminate. }
    intros r cs pl rv H.
    destruct (dcomplete s frags cv false f (f_type fd) (d1 :: fs') d S1 b (S dp))
      as [[[[[r1 es1] cs1] pls1] rv1]|] eqn:Ecp; [|discriminate].
    assert (He : es1 = []).
    { unfold xcatch, catch in H. destruct r1; [|destruct (is_nonnull (f_type fd))]; inversion H; reflexivity. }
    subst es1.
    destruct (HC _ _ _ _ S2 _ _ _ _ _ _ Ecp) as [j [j0 [cs0 [pls [rv0 [-> [Hd HG]]]]]]].
    rewrite Hd. cbn [xcatch catch] in *. inversion H; subst.
    eexists _, _, _, _, _. split; [reflexivity|]. split; [reflexivity|exact HG].
  Qed.

  Lemma step_C f : C_stmt f -> S_stmt f -> C_stmt (S f).
  Proof.
    intros HC HS t fs d S1 S2 b dp r cs pl rv H.
    rewrite dcomplete_S in H. rewrite dcomplete_S.
    assert (Hraise : forall c x y, Some (raise_here c, x, y) = Some ((r, [], cs), pl, rv) -> False).
    { intros c x y Hx. inversion Hx. }
    (* non-null wrapper *)
    assert (HN : forall t',
      match dcomplete s frags cv false f t' fs d S1 b dp with
      | None => None
      | Some ((CVal JNull, es, cs), _, rv) => Some ((CErr, es ++ [([], CauseNull)], cs), [], rv)
      | Some x => Some x
      end = Some ((r, [], cs), pl, rv) ->
      exists j j0 cs0 pls rv0, r = CVal j /\
        match dcomplete s frags cv true f t' fs d S2 b dp with
        | None => None
        | Some ((CVal JNull, es, cs), _, rv) => Some ((CErr, es ++ [([], CauseNull)], cs), [], rv)
        | Some x => Some x
        end = Some ((CVal j0, [], cs0), pls, rv0) /\ Good j0 pls j).
    { intros t' HH.
      destruct (dcomplete s frags cv false f t' fs d S1 b dp) as [[[[[r1 es1] cs1] pls1] rv1]|] eqn:Ecp;
        [|discriminate].
      assert (Hx : es1 = [] /\ r1 = r /\ r1 <> CVal JNull).
      { destruct r1 as [j1|].
        - destruct j1; try (inversion HH; subst; repeat split; try reflexivity; discriminate).
          exfalso. inversion HH as [[Hr He]]. apply app_eq_nil in He as [_ He]. discriminate.
        - inversion HH; subst. repeat split; try reflexivity; discriminate. }
      destruct Hx as [-> [-> Hnn]].
      destruct (HC _ _ _ _ S2 _ _ _ _ _ _ Ecp) as [j [j0 [cs0 [pls [rv0 [-> [Hd HG]]]]]]].
      rewrite Hd. exists j, j0, cs0, pls, rv0. split; [reflexivity|]. split; [|exact HG].
      destruct j0; try reflexivity. exfalso. apply Hnn. f_equal. apply (Good_null _ _ HG). }
    (* object positions *)
    assert (HO : forall rt flds,
      dexec_sels s frags cv false f rt flds (srcs_of fs) S1 b dp = Some ((r, [], cs), pl, rv) ->
      exists j j0 cs0 pls rv0, r = CVal j /\
        dexec_sels s frags cv true f rt flds (srcs_of fs) S2 b dp = Some ((CVal j0, [], cs0), pls, rv0) /\
        Good j0 pls j).
    { intros rt flds HH. eapply HS. exact HH. }
    assert (Hval : forall j, Some ((CVal j, @nil err, @nil call), @nil payload, false) = Some ((r, [], cs), pl, rv) ->
      exists j' j0 cs0 pls rv0, r = CVal j' /\
        Some ((CVal j, @nil err, @nil call), @nil payload, false) = Some ((CVal j0, [], cs0), pls, rv0) /\ Good j0 pls j').
    { intros j Hx. inversion Hx; subst. eexists _, _, _, _, _. split; [reflexivity|].
      split; [reflexivity|apply Good_refl]. }
    destruct d as [|l|rt flds|items|]; [| | | |exfalso; eapply Hraise; exact H].
    - (* DNull *)
      destruct t as [n|it|t']; [apply Hval; exact H|apply Hval; exact H|apply HN; exact H].
    - (* DLeaf *)
      destruct t as [n|it|t']; [|exfalso; eapply Hraise; exact H|apply HN; exact H].
      destruct (lookup_type s n) as [[sc|vals|ofs ifs|ifs|ms|idefs ioo]|];
        try (apply HO; exact H);
        try (exfalso; eapply Hraise; exact H);
        (destruct (complete_leaf _ l); [apply Hval; exact H|exfalso; eapply Hraise; exact H]).
    - (* DObj *)
      destruct t as [n|it|t']; [|exfalso; eapply Hraise; exact H|apply HN; exact H].
      destruct (lookup_type s n) as [[sc|vals|ofs ifs|ifs|ms|idefs ioo]|];
        try (exfalso; eapply Hraise; exact H).
      + apply HO. exact H.
      + destruct (is_object s rt && possible s n rt); [apply HO; exact H|exfalso; eapply Hraise; exact H].
      + destruct (is_object s rt && possible s n rt); [apply HO; exact H|exfalso; eapply Hraise; exact H].
    - (* DList *)
      destruct t as [n|it|t']; [|clear HN|apply HN; exact H].
      { destruct (lookup_type s n) as [[sc|vals|ofs ifs|ifs|ms|idefs ioo]|];
          first [apply HO; exact H|exfalso; eapply Hraise; exact H]. }
      set (cfp := fun x => option_map (xcatch it) (dcomplete s frags cv false f it fs x S1 b (S dp))) in *.
      set (cfd := fun x => option_map (xcatch it) (dcomplete s frags cv true f it fs x S2 b (S dp))).
      (* one item *)
      assert (Hitem : forall x r0 cs1 pl1 rv1, cfp x = Some ((r0, [], cs1), pl1, rv1) ->
                exists j j0 cs0 pls rv0, r0 = CVal j /\ cfd x = Some ((CVal j0, [], cs0), pls, rv0) /\ Good j0 pls j).
      { intros x r0 cs1 pl1 rv1 Hx. unfold cfp in Hx. unfold cfd.
        destruct (dcomplete s frags cv false f it fs x S1 b (S dp)) as [[[[[r1 es1] cs2] pls1] rv2]|] eqn:Ecp;
          [|discriminate].
        cbn [option_map] in Hx.
        assert (He : es1 = []).
        { unfold xcatch, catch in Hx. destruct r1; [|destruct (is_nonnull it)]; inversion Hx; reflexivity. }
        subst es1.
        destruct (HC _ _ _ _ S2 _ _ _ _ _ _ Ecp) as [j [j0 [cs0 [pls [rv0 [-> [Hd HG]]]]]]].
        rewrite Hd. cbn [option_map xcatch catch] in *. inversion Hx; subst.
        eexists _, _, _, _, _. split; [reflexivity|]. split; [reflexivity|exact HG]. }
      destruct (dcomplete_items cfp items 0) as [[[[[r' es'] cs'] pls'] rv']|] eqn:Ei; [|discriminate].
      assert (He : es' = []) by (destruct r'; inversion H; reflexivity). subst es'.
      destruct (items_inv cfp items 0 r' cs' pls' rv') as [Hok [Hr _]]; [|exact Ei|].
      { intros x r0 cs1 pl1 rv1 _ Hx. destruct (Hitem _ _ _ _ _ Hx) as [j [_ [_ [_ [_ [Hj _]]]]]]. eauto. }
      subst r'. inversion H; subst; clear H.
      (* the incremental run of the items *)
      assert (Hrel : Forall (fun x => exists j cs1 pl1 rv1 j0 cs0 pls rv0,
                               cfp x = Some ((CVal j, [], cs1), pl1, rv1) /\
                               cfd x = Some ((CVal j0, [], cs0), pls, rv0) /\ Good j0 pls j) items).
      { eapply Forall_impl; [|exact Hok]. intros x [j [cs1 [pl1 [rv1 Hx]]]].
        destruct (Hitem _ _ _ _ _ Hx) as [j' [j0 [cs0 [pls [rv0 [Hj [Hd HG]]]]]]]. inversion Hj; subst.
        eauto 12. }
      destruct (items_intro cfd items) with (i := 0%nat) as [cs0 [rv0 Hii]].
      { eapply Forall_impl; [|exact Hrel]. intros x [j [cs1 [pl1 [rv1 [j0 [cs2 [pls [rv2 [_ [Hd _]]]]]]]]]].
        unfold iok. eauto 6. }
      fold cfd. rewrite Hii.
      eexists _, _, _, _, _. split; [reflexivity|]. split; [reflexivity|].
      (* reassembly of the list *)
      destruct (items_rel cfp cfd items Hrel) as [ms [I1 [I2 [I3 I4]]]].
      split; [apply I3|]. split.
      + exists (JList ms). split; [exact (level_items _ _ I1 [])|constructor; exact I2].
      + apply level_any_items; [exact I4|apply c_ok_core; apply I3].
  Qed.

  Theorem reassembly_all : forall f, S_stmt f /\ F_stmt f /\ C_stmt f.
  Proof.
    induction f as [|f [IHs [IHf IHc]]].
    - repeat split; intros; discriminate.
    - split; [apply step_S; exact IHf|]. split; [apply step_F; exact IHc|apply step_C; assumption].
  Qed.
End Reassembly.

(* ------------------------------------------------------------------ the merge oracle of Incr/Merge.v *)

Lemma find_pending_self i p : Merge.find_pending i [(i, p)] = Some p.
Proof. cbn. rewrite N.eqb_refl. reflexivity. Qed.

Lemma apply_payload_merge d i p :
  Merge.apply_payload (d, []) (merge_payload i p)
  = match apply_pl d p with Some d' => Some (d', []) | None => None end.
Proof.
  unfold merge_payload, apply_pl. destruct (pl_data p) as [kvs|]; cbn [Merge.apply_payload Merge.p_pending
    Merge.p_incremental Merge.p_completed app Merge.apply_incrs Merge.apply_incr].
  - rewrite find_pending_self, firstn_skipn.
    change (fun old : json => match old with
                              | JObj _ => Some (Merge.merge 200 old (JObj kvs))
                              | _ => None
                              end) with (merge_into kvs).
    destruct (Merge.update_at (pl_path p) (merge_into kvs) d); [|reflexivity].
    cbn. rewrite N.eqb_refl. reflexivity.
  - cbn. rewrite N.eqb_refl. reflexivity.
Qed.

Lemma apply_payloads_merge ps : forall d i,
  Merge.apply_payloads (d, []) (merge_payloads i ps)
  = match apply_pls d ps with Some d' => Some (d', []) | None => None end.
Proof.
  induction ps as [|p r IH]; intros d i; cbn [merge_payloads Merge.apply_payloads apply_pls]; [reflexivity|].
  rewrite apply_payload_merge. destruct (apply_pl d p); [apply IH|reflexivity].
Qed.

Theorem reassemble_apply_pls j0 ps : reassemble j0 ps = apply_pls j0 ps.
Proof.
  unfold reassemble, Merge.reassemble. rewrite apply_payloads_merge.
  destruct (apply_pls j0 ps); reflexivity.
Qed.

(* nothing is withheld when no execution group failed *)
Lemma deliver_ok pls : Forall pl_ok pls -> deliver pls = pls.
Proof.
  intro H. unfold deliver.
  assert (E : failed_keys pls = []).
  { induction H as [|p r [[kvs Hd] _] _ IH]; cbn; [reflexivity|]. rewrite Hd. exact IH. }
  rewrite E. clear E. induction pls as [|p r IH]; cbn [filter]; [reflexivity|].
  inversion H; subst. rewrite IH by assumption.
  unfold delivered_pl. destruct (pl_data p); [|reflexivity]. destruct (pl_groups p) as [|c gs]; [reflexivity|].
  cbn [existsb]. unfold chain_alive at 1.
  assert (E : existsb (fun n => existsb (gkey_eqb (node_key (pl_path p) n)) []) c = false).
  { induction c; cbn; auto. }
  rewrite E. reflexivity.
Qed.

(* ------------------------------------------------------------------ reassembly of a whole response *)

Theorem reassembly_fuel fuel s d vars root j cs pl rv :
  dexecute_fuel false fuel s d vars root = DResp j [] cs pl rv ->
  exists j0 cs0 pls rv0,
    dexecute_fuel true fuel s d vars root = DResp j0 [] cs0 pls rv0 /\
    Forall pl_ok pls /\
    (exists m, reassemble j0 pls = Some m /\ jeq m j) /\
    (forall pls' m', Permutation pls pls' -> reassemble j0 pls' = Some m' -> jeq m' j).
Proof.
  unfold dexecute_fuel.
  destruct (coerce_variable_values s (d_vars d) vars) as [cv|]; [|discriminate].
  destruct (root_type s (d_kind d)) as [tn|]; [|discriminate].
  destruct (negb (is_object s tn)); [discriminate|].
  set (flds := match root with DObj _ f => f | _ => [] end).
  intro H.
  destruct (dexec_sels s (d_frags d) cv false fuel tn flds [([], d_sels d)] [] 0 0)
    as [[[[[r es] cs1] pls1] rv1]|] eqn:Ep; [|discriminate].
  assert (He : es = []) by (destruct r; inversion H; reflexivity). subst es.
  destruct (reassembly_all s (d_frags d) cv fuel) as [HS _].
  destruct (HS _ _ _ _ [] _ _ _ _ _ _ Ep) as [j' [j0 [cs0 [pls [rv0 [-> [Hd [Hok [[m [Hm Hj]] Hany]]]]]]]]].
  inversion H; subst; clear H. rewrite Hd.
  exists j0, cs0, (deliver pls), rv0. split; [reflexivity|].
  rewrite (deliver_ok _ Hok). split; [exact Hok|]. split.
  - exists m. split; [rewrite reassemble_apply_pls; exact Hm|exact Hj].
  - intros pls' m' Hp Hr. rewrite reassemble_apply_pls, apply_pls_core in Hr.
    eapply Hany; [apply Permutation_map; exact Hp|exact Hr].
Qed.

(* ================================================================== the base executor computes
   Exec/Spec.v's execution of the document with @defer erased *)

Definition erase_fs (f : fieldsel) : fieldsel := mkFS (fs_name f) (fs_args f) (erase_sels (fs_sels f)).
Definition erase_df (f : dfield) : fieldsel := erase_fs (df_fs f).
Definition erase_g (dg : dgrouped) : grouped := map (fun e => (fst e, map erase_df (snd e))) dg.

Lemma erase_g_add k f dg : erase_g (add_dfield k f dg) = add_field k (erase_df f) (erase_g dg).
Proof.
  unfold erase_g. induction dg as [|[k' fs] r IH]; cbn [add_dfield map add_field fst snd]; [reflexivity|].
  destruct (str_eqb k k'); cbn [map fst snd]; [rewrite map_app; reflexivity|]. rewrite IH. reflexivity.
Qed.

Lemma find_dir_erase n ds : str_eqb n n_defer = false -> find_dir n (erase_dirs ds) = find_dir n ds.
Proof.
  intro Hn. induction ds as [|[n' args] r IH]; cbn; [reflexivity|].
  destruct (str_eqb n' n_defer) eqn:E; cbn.
  - apply str_eqb_eq in E. subst n'. rewrite Hn. exact IH.
  - destruct (str_eqb n n'); [reflexivity|exact IH].
Qed.

Lemma should_include_erase cv ds : should_include cv (erase_dirs ds) = should_include cv ds.
Proof. unfold should_include. rewrite !find_dir_erase by reflexivity. reflexivity. Qed.

Lemma find_frag_erase name frags :
  find_frag name (map erase_frag frags) = option_map erase_frag (find_frag name frags).
Proof.
  induction frags as [|fr r IH]; cbn; [reflexivity|].
  destruct (str_eqb name (fr_name fr)); [reflexivity|exact IH].
Qed.

(* the flag "a deferred visit was repeated" is never reset *)
Section RevMono.
  Variable s : schema.
  Variable frags : list fragment.
  Variable cv : list (str * value).
  Variable tn : str.
  Variable base : N.
  Variable depth : nat.

  Lemma dcollect_list_rev rec :
    (forall du sels st st', rec du sels st = Some st' -> c_rev st' = false -> c_rev st = false) ->
    forall sels du st st',
      dcollect_list s frags cv tn base depth rec du sels st = Some st' -> c_rev st' = false -> c_rev st = false.
  Proof.
    intro Hrec. induction sels as [|sel rest IH]; intros du st st' H Hr; cbn [dcollect_list] in H.
    - inversion H; subst. exact Hr.
    - destruct sel as [al name args dirs sub | name dirs | tc dirs sub].
      + destruct (should_include cv dirs); [|eapply IH; eauto].
        apply (IH _ _ _ H) in Hr. exact Hr.
      + destruct (negb (should_include cv dirs)); [eapply IH; eauto|].
        destruct (find_frag name frags) as [fr|]; [|eapply IH; eauto].
        destruct (negb (cond_matches s (fr_cond fr) tn)); [eapply IH; eauto|].
        destruct (defer_active cv dirs) as [lab|], (lookup name (c_vis st)) as [[|]|];
          try (eapply IH; eauto; fail);
          match type of H with
          | match rec ?d ?b ?x with _ => _ end = _ =>
              destruct (rec d b x) as [st1|] eqn:E; [|discriminate];
              apply (IH _ _ _ H) in Hr; apply (Hrec _ _ _ _ E) in Hr; cbn [c_rev] in Hr
          end; try exact Hr.
        * apply orb_false_iff in Hr. tauto.
        * apply orb_false_iff in Hr. tauto.
      + destruct (should_include cv dirs && match tc with Some c => cond_matches s c tn | None => true end);
          [|eapply IH; eauto].
        destruct (defer_active cv dirs) as [lab|];
          match type of H with
          | match rec ?d ?b ?x with _ => _ end = _ =>
              destruct (rec d b x) as [st1|] eqn:E; [|discriminate];
              apply (IH _ _ _ H) in Hr; apply (Hrec _ _ _ _ E) in Hr; exact Hr
          end.
  Qed.

  Lemma dcollect_rev fuel : forall du sels st st',
    dcollect s frags cv tn base depth fuel du sels st = Some st' -> c_rev st' = false -> c_rev st = false.
  Proof.
    induction fuel as [|f IH]; intros du sels st st' H; cbn [dcollect] in H; [discriminate|].
    eapply dcollect_list_rev; eauto.
  Qed.
End RevMono.

Lemma mem_cons x y l : mem x (y :: l) = str_eqb x y || mem x l.
Proof. reflexivity. Qed.

Section CollectErase.
  Variable s : schema.
  Variable frags : list fragment.
  Variable cv : list (str * value).
  Variable tn : str.
  Variable base : N.
  Variable depth : nat.

  Definition noop (name : str) : Prop :=
    match find_frag name frags with
    | None => True
    | Some fr => cond_matches s (fr_cond fr) tn = false
    end.

  (* the collection state of the base executor vs the state of Spec.collect on the erased document:
     the same grouped field set up to erasure, the same visited names up to names whose spread
     contributes nothing *)
  Definition Rst (st : cstate) (ste : list str * grouped) : Prop :=
    snd ste = erase_g (c_g st) /\
    (forall name, lookup name (c_vis st) <> None -> mem name (fst ste) = true) /\
    (forall name, mem name (fst ste) = true -> lookup name (c_vis st) <> None \/ noop name).

  Lemma Rst_mark st v g name :
    Rst st (v, g) -> noop name -> Rst st (name :: v, g).
  Proof.
    intros [R1 [R2 R3]] Hn. split; [exact R1|]. cbn [fst snd] in *. split.
    - intros x Hx. rewrite mem_cons, (R2 x Hx). apply orb_true_r.
    - intros x Hx. rewrite mem_cons in Hx. apply orb_true_iff in Hx as [Hx|Hx].
      + apply str_eqb_eq in Hx. subst. right. exact Hn.
      + apply R3. exact Hx.
  Qed.

  Lemma Rst_visit st v g name b new rv :
    Rst st (v, g) ->
    Rst (mkCS ((name, b) :: c_vis st) (c_g st) new rv) (name :: v, g).
  Proof.
    intros [R1 [R2 R3]]. split; [exact R1|]. cbn [fst snd c_vis c_g] in *. split.
    - intros x Hx. rewrite mem_cons. cbn [lookup] in Hx.
      destruct (str_eqb x name); [reflexivity|]. cbn [orb]. apply R2. exact Hx.
    - intros x Hx. rewrite mem_cons in Hx. cbn [lookup].
      destruct (str_eqb x name); [left; discriminate|]. cbn [orb] in Hx. apply R3. exact Hx.
  Qed.

  Lemma collect_list_rel (recd : duchain -> list selection -> cstate -> option cstate)
        (rece : list selection -> list str * grouped -> option (list str * grouped)) :
    (forall du sels st st' ste, Rst st ste -> recd du sels st = Some st' -> c_rev st' = false ->
        exists ste', rece (erase_sels sels) ste = Some ste' /\ Rst st' ste') ->
    (forall du sels st st', recd du sels st = Some st' -> c_rev st' = false -> c_rev st = false) ->
    forall sels du st st' ste, Rst st ste ->
      dcollect_list s frags cv tn base depth recd du sels st = Some st' -> c_rev st' = false ->
      exists ste', collect_list s (map erase_frag frags) cv tn grouped add_field rece (erase_sels sels) ste = Some ste'
                   /\ Rst st' ste'.
  Proof.
    intros Hrec Hmono. induction sels as [|sel rest IH]; intros du st st' [v g] HR H Hr;
      cbn [dcollect_list erase_sels map] in H |- *.
    - inversion H; subst. eexists. split; [reflexivity|exact HR].
    - fold (erase_sels rest).
      pose proof (fun d x y h => dcollect_list_rev s frags cv tn base depth recd Hmono rest d x y h) as Hm.
      destruct sel as [al name args dirs sub | name dirs | tc dirs sub];
        cbn [erase_sel collect_list fst snd].
      + (* field *)
        destruct (should_include cv dirs); [|eapply IH; eauto].
        eapply IH; [|exact H|exact Hr].
        destruct HR as [R1 [R2 R3]]. split; [|split; assumption].
        cbn [snd c_g] in *. rewrite erase_g_add, R1. reflexivity.
      + (* spread *)
        rewrite should_include_erase.
        destruct (should_include cv dirs); cbn [negb] in *; [|eapply IH; eauto].
        rewrite find_frag_erase.
        destruct (find_frag name frags) as [fr|] eqn:Ef; cbn [option_map].
        2:{ destruct (mem name v) eqn:Em; [eapply IH; eauto|].
            eapply IH; [|exact H|exact Hr]. apply Rst_mark; [exact HR|]. unfold noop. rewrite Ef. exact I. }
        cbn [erase_frag fr_cond fr_sels].
        destruct (cond_matches s (fr_cond fr) tn) eqn:Ecm; cbn [negb] in *.
        2:{ destruct (mem name v) eqn:Em; [eapply IH; eauto|].
            eapply IH; [|exact H|exact Hr]. apply Rst_mark; [exact HR|]. unfold noop. rewrite Ef. exact Ecm. }
        assert (Hvis : lookup name (c_vis st) = None -> mem name v = false).
        { intro Hl. destruct (mem name v) eqn:Em; [|reflexivity]. exfalso.
          destruct HR as [_ [_ R3]]. destruct (R3 name Em) as [Hx|Hx]; [congruence|].
          unfold noop in Hx. rewrite Ef in Hx. congruence. }
        assert (Hvis2 : lookup name (c_vis st) <> None -> mem name v = true).
        { destruct HR as [_ [R2 _]]. apply R2. }
        destruct (defer_active cv dirs) as [lab|], (lookup name (c_vis st)) as [[|]|] eqn:El.
        * rewrite Hvis2 by discriminate. eapply IH; eauto.
        * rewrite Hvis2 by discriminate. eapply IH; eauto.
        * rewrite Hvis by reflexivity.
          destruct (recd _ (fr_sels fr) _) as [st1|] eqn:E1; [|discriminate].
          pose proof (Hm _ _ _ H Hr) as Hr1.
          destruct (Hrec _ _ _ _ (name :: v, g) (Rst_visit st v g name true _ _ HR) E1 Hr1) as [ste1 [He1 HR1]].
          fold (erase_sels (fr_sels fr)). rewrite He1. eapply IH; eauto.
        * (* a deferred visit repeated: excluded *)
          exfalso. destruct (recd _ (fr_sels fr) _) as [st1|] eqn:E1; [|discriminate].
          pose proof (Hm _ _ _ H Hr) as Hr1. pose proof (Hmono _ _ _ _ E1 Hr1) as Hr0.
          cbn [c_rev] in Hr0. apply orb_false_iff in Hr0 as [_ Hr0]. discriminate.
        * rewrite Hvis2 by discriminate. eapply IH; eauto.
        * rewrite Hvis by reflexivity.
          destruct (recd _ (fr_sels fr) _) as [st1|] eqn:E1; [|discriminate].
          pose proof (Hm _ _ _ H Hr) as Hr1.
          destruct (Hrec _ _ _ _ (name :: v, g) (Rst_visit st v g name false _ _ HR) E1 Hr1) as [ste1 [He1 HR1]].
          fold (erase_sels (fr_sels fr)). rewrite He1. eapply IH; eauto.
      + (* inline fragment *)
        rewrite should_include_erase.
        destruct (should_include cv dirs && match tc with Some c => cond_matches s c tn | None => true end);
          [|eapply IH; eauto].
        fold (erase_sels sub).
        destruct (defer_active cv dirs) as [lab|].
        * destruct (recd _ sub _) as [st1|] eqn:E1; [|discriminate].
          pose proof (Hm _ _ _ H Hr) as Hr1.
          assert (HR0 : Rst (mkCS (c_vis st) (c_g st) (c_new st ++ [fresh base depth st lab du]) (c_rev st)) (v, g))
            by exact HR.
          destruct (Hrec _ _ _ _ _ HR0 E1 Hr1) as [ste1 [He1 HR1]].
          rewrite He1. eapply IH; eauto.
        * destruct (recd _ sub _) as [st1|] eqn:E1; [|discriminate].
          pose proof (Hm _ _ _ H Hr) as Hr1.
          destruct (Hrec _ _ _ _ _ HR E1 Hr1) as [ste1 [He1 HR1]].
          rewrite He1. eapply IH; eauto.
  Qed.

  Lemma collect_rel fuel : forall du sels st st' ste, Rst st ste ->
    dcollect s frags cv tn base depth fuel du sels st = Some st' -> c_rev st' = false ->
    exists ste', collect s (map erase_frag frags) cv tn fuel (erase_sels sels) ste = Some ste' /\ Rst st' ste'.
  Proof.
    induction fuel as [|f IH]; intros du sels st st' ste HR H Hr; cbn [dcollect] in H; [discriminate|].
    unfold collect. cbn [collect_gen].
    eapply collect_list_rel; [| |exact HR|exact H|exact Hr].
    - intros du0 sels0 st0 st0' ste0 HR0 H0 Hr0. exact (IH du0 sels0 st0 st0' ste0 HR0 H0 Hr0).
    - intros du0 sels0 st0 st0'. apply dcollect_rev.
  Qed.
End CollectErase.

Lemma collect_list_app s frags cv tn (A : Type) (add : str -> fieldsel -> A -> A) rec a : forall b st,
  collect_list s frags cv tn A add rec (a ++ b) st
  = match collect_list s frags cv tn A add rec a st with
    | Some st1 => collect_list s frags cv tn A add rec b st1
    | None => None
    end.
Proof.
  induction a as [|sel rest IH]; intros b st; cbn [app collect_list]; [reflexivity|].
  destruct sel as [al name args dirs sub | name dirs | tc dirs sub].
  - destruct (should_include cv dirs); apply IH.
  - destruct (negb (should_include cv dirs)); [apply IH|].
    destruct (mem name (fst st)); [apply IH|].
    destruct (find_frag name frags) as [fr|]; [|apply IH].
    destruct (cond_matches s (fr_cond fr) tn); [|apply IH].
    destruct (rec (fr_sels fr) (name :: fst st, snd st)); [apply IH|reflexivity].
  - destruct (should_include cv dirs && match tc with Some c => cond_matches s c tn | None => true end);
      [|apply IH].
    destruct (rec sub st); [apply IH|reflexivity].
Qed.

Lemma dcollect_srcs_rev s frags cv tn base depth fuel srcs : forall st st',
  dcollect_srcs s frags cv tn base depth fuel srcs st = Some st' -> c_rev st' = false -> c_rev st = false.
Proof.
  induction srcs as [|[du sels] r IH]; intros st st' H Hr; cbn [dcollect_srcs] in H.
  - inversion H; subst. exact Hr.
  - destruct (dcollect s frags cv tn base depth fuel du sels st) as [st1|] eqn:E; [|discriminate].
    eapply dcollect_rev; [exact E|]. eapply IH; eauto.
Qed.

Definition merged_erased (srcs : list (duchain * list selection)) : list selection :=
  flat_map (fun x => erase_sels (snd x)) srcs.

Lemma collect_srcs_rel s frags cv tn base depth fuel srcs st st' ste :
  srcs <> [] -> Rst s frags tn st ste ->
  dcollect_srcs s frags cv tn base depth fuel srcs st = Some st' -> c_rev st' = false ->
  exists ste', collect s (map erase_frag frags) cv tn fuel (merged_erased srcs) ste = Some ste' /\
               Rst s frags tn st' ste'.
Proof.
  intros Hne HR H Hr. destruct fuel as [|f].
  - destruct srcs as [|[du sels] r]; [congruence|]. cbn in H. discriminate.
  - clear Hne. unfold collect. cbn [collect_gen]. revert st ste HR H.
    induction srcs as [|[du sels] r IH]; intros st ste HR H; cbn [dcollect_srcs merged_erased flat_map snd] in *.
    + inversion H; subst. eexists. split; [reflexivity|exact HR].
    + destruct (dcollect s frags cv tn base depth (S f) du sels st) as [st1|] eqn:E; [|discriminate].
      pose proof (dcollect_srcs_rev _ _ _ _ _ _ _ _ _ _ H Hr) as Hr1.
      destruct (collect_rel s frags cv tn base depth (S f) du sels st st1 ste HR E Hr1) as [ste1 [He1 HR1]].
      rewrite collect_list_app. unfold collect in He1. cbn [collect_gen] in He1. rewrite He1.
      eapply IH; eassumption.
Qed.

Lemma merged_erased_srcs fs : merged_sels (map erase_df fs) = merged_erased (srcs_of fs).
Proof.
  unfold merged_sels, merged_erased, srcs_of. rewrite !flat_map_map. reflexivity.
Qed.

Lemma groups_plain (efd : list dfield -> option xfres) (efe : list fieldsel -> option fres) dg :
  (forall e, In e dg ->
     (efd (snd e) = Some XSkip -> efe (map erase_df (snd e)) = Some FSkip) /\
     (forall o pl rv, efd (snd e) = Some (XRes (o, pl, rv)) ->
        pl = [] /\ (rv = false -> efe (map erase_df (snd e)) = Some (FRes o)))) ->
  forall r es cs pls rv, dexec_groups efd dg = Some (r, es, cs, pls, rv) ->
    pls = [] /\ (rv = false -> exec_groups efe (erase_g dg) = Some (r, es, cs)).
Proof.
  induction dg as [|[k fs] rest IH]; intros Hf r es cs pls rv H; cbn [dexec_groups erase_g map exec_groups fst snd] in *.
  - inversion H; subst. auto.
  - fold (erase_g rest).
    destruct (Hf (k, fs) (or_introl eq_refl)) as [Hs Hr]. cbn [snd] in Hs, Hr.
    assert (Hf' : forall e, In e rest ->
     (efd (snd e) = Some XSkip -> efe (map erase_df (snd e)) = Some FSkip) /\
     (forall o pl rv, efd (snd e) = Some (XRes (o, pl, rv)) ->
        pl = [] /\ (rv = false -> efe (map erase_df (snd e)) = Some (FRes o)))).
    { intros e He. apply Hf. right. exact He. }
    destruct (efd fs) as [[|[[[[[j|] es0] cs0] pl0] rv0]]|] eqn:Ef; [| | |discriminate].
    + rewrite (Hs eq_refl). apply IH; assumption.
    + destruct (Hr _ _ _ eq_refl) as [-> Hr'].
      destruct (dexec_groups efd rest) as [[[[[r' es'] cs'] pls'] rv']|] eqn:Er; [|discriminate].
      destruct (IH Hf' _ _ _ _ _ eq_refl) as [-> IH'].
      inversion H; subst; clear H. split; [destruct r'; reflexivity|].
      intro Hrv. apply orb_false_iff in Hrv as [-> ->]. rewrite (Hr' eq_refl), (IH' eq_refl). reflexivity.
    + destruct (Hr _ _ _ eq_refl) as [-> Hr']. inversion H; subst; clear H. split; [reflexivity|].
      intros ->. rewrite (Hr' eq_refl). reflexivity.
Qed.

Lemma items_plain (cfd : data -> option xout) (cfe : data -> option out) items :
  (forall x, In x items -> forall o pl rv, cfd x = Some (o, pl, rv) ->
     pl = [] /\ (rv = false -> cfe x = Some o)) ->
  forall i r es cs pls rv, dcomplete_items cfd items i = Some (r, es, cs, pls, rv) ->
    pls = [] /\ (rv = false -> complete_items cfe items i = Some (r, es, cs)).
Proof.
  induction items as [|x rest IH]; intros Hf i r es cs pls rv H; cbn [dcomplete_items complete_items] in *.
  - inversion H; subst. auto.
  - pose proof (Hf x (or_introl eq_refl)) as Hr.
    assert (Hf' : forall y, In y rest -> forall o pl rv, cfd y = Some (o, pl, rv) ->
               pl = [] /\ (rv = false -> cfe y = Some o)).
    { intros y Hy. apply Hf. right. exact Hy. }
    destruct (cfd x) as [[[[[[j|] es0] cs0] pl0] rv0]|] eqn:Ef; [| |discriminate].
    + destruct (Hr _ _ _ eq_refl) as [-> Hr'].
      destruct (dcomplete_items cfd rest (S i)) as [[[[[r' es'] cs'] pls'] rv']|] eqn:Er; [|discriminate].
      destruct (IH Hf' _ _ _ _ _ _ Er) as [-> IH'].
      inversion H; subst; clear H. split; [destruct r'; reflexivity|].
      intro Hrv. apply orb_false_iff in Hrv as [-> ->]. rewrite (Hr' eq_refl), (IH' eq_refl). reflexivity.
    + destruct (Hr _ _ _ eq_refl) as [-> Hr']. inversion H; subst; clear H. split; [reflexivity|].
      intros ->. rewrite (Hr' eq_refl). reflexivity.
Qed.

Section PlainSpec.
  Variable s : schema.
  Variable frags : list fragment.
  Variable cv : list (str * value).
  Let efrags := map erase_frag frags.

  Definition BS (f : nat) : Prop :=
    forall tn obj srcs par b dp o pl rv, srcs <> [] ->
      dexec_sels s frags cv false f tn obj srcs par b dp = Some (o, pl, rv) ->
      pl = [] /\ (rv = false -> exec_sels s efrags cv f tn obj (merged_erased srcs) = Some o).

  Definition BF (f : nat) : Prop :=
    forall tn obj par b dp fs,
      (dexec_field s frags cv false f tn obj par b dp fs = Some XSkip ->
       exec_field s efrags cv f tn obj (map erase_df fs) = Some FSkip) /\
      (forall o pl rv, dexec_field s frags cv false f tn obj par b dp fs = Some (XRes (o, pl, rv)) ->
         pl = [] /\ (rv = false -> exec_field s efrags cv f tn obj (map erase_df fs) = Some (FRes o))).

  Definition BC (f : nat) : Prop :=
    forall t fs d par b dp o pl rv, fs <> [] ->
      dcomplete s frags cv false f t fs d par b dp = Some (o, pl, rv) ->
      pl = [] /\ (rv = false -> complete s efrags cv f t (merged_sels (map erase_df fs)) d = Some o).

  Lemma Rst_init tn : Rst s frags tn cs0 ([], []).
  Proof. split; [reflexivity|]. split; intros name H; [exfalso; apply H; reflexivity|discriminate]. Qed.

  Lemma stepB_S f : BF f -> BS (S f).
  Proof.
    intros HF tn obj srcs par b dp o pl rv Hne H.
    rewrite dexec_sels_S in H. rewrite exec_sels_S.
    destruct (dcollect_srcs s frags cv tn b dp f srcs cs0) as [st|] eqn:Ec; [|discriminate].
    cbv zeta in H. cbn [fst snd dexec_deferred] in H.
    set (b' := b + N.of_nat (length (c_new st))) in *.
    destruct (dexec_groups (dexec_field s frags cv false f tn obj par b' dp) (c_g st))
      as [[[[[r es] cs] pls] rv1]|] eqn:Eg; [|discriminate].
    destruct (groups_plain (dexec_field s frags cv false f tn obj par b' dp)
                (exec_field s efrags cv f tn obj) (c_g st)
                (fun e _ => HF tn obj par b' dp (snd e)) _ _ _ _ _ Eg) as [-> Hg].
    assert (Hcol : c_rev st = false ->
                   exists v, collect s efrags cv tn f (merged_erased srcs) ([], []) = Some (v, erase_g (c_g st))).
    { intro Hr. destruct (collect_srcs_rel s frags cv tn b dp f srcs cs0 st ([], []) Hne (Rst_init tn) Ec Hr)
        as [[v g] [He [R1 _]]]. cbn [snd] in R1. subst g. exists v. exact He. }
    destruct r as [kvs|]; inversion H; subst; clear H.
    - split; [reflexivity|]. intro Hrv. rewrite orb_false_r in Hrv. apply orb_false_iff in Hrv as [Hr1 Hr2].
      destruct (Hcol Hr1) as [v Hv]. unfold efrags in *. rewrite Hv, (Hg Hr2). reflexivity.
    - split; [reflexivity|]. intro Hrv. apply orb_false_iff in Hrv as [Hr1 Hr2].
      destruct (Hcol Hr1) as [v Hv]. unfold efrags in *. rewrite Hv, (Hg Hr2). reflexivity.
  Qed.

  Lemma stepB_F f : BC f -> BF (S f).
  Proof.
    intros HC tn obj par b dp fs. rewrite dexec_field_S, exec_field_S.
    destruct fs as [|d1 fs']; [split; [reflexivity|discriminate]|].
    cbv zeta. cbn [map]. change (fs_name (erase_df d1)) with (fs_name (df_fs d1)).
    change (fs_args (erase_df d1)) with (fs_args (df_fs d1)).
    destruct (str_eqb (fs_name (df_fs d1)) n_typename).
    { split; [discriminate|]. intros o pl rv H. inversion H; subst. auto. }
    destruct (lookup_field s tn (fs_name (df_fs d1))) as [fd|]; [|split; [reflexivity|discriminate]].
    destruct (coerce_args s cv (f_args fd) (fs_args (df_fs d1))) as [args|].
    2:{ split; [discriminate|]. intros o pl rv H. inversion H; subst. auto. }
    set (d := match lookup (fs_name (df_fs d1)) obj with Some d => d | None => DNull end).
    destruct (dcomplete s frags cv false f (f_type fd) (d1 :: fs') d par b (S dp))
      as [[[[[r es] cs] pls] rv1]|] eqn:Ecp; [|split; discriminate].
    split; [discriminate|]. intros o pl rv H.
    assert (Hne : d1 :: fs' <> []) by discriminate.
    destruct (HC _ _ _ _ _ _ _ _ _ Hne Ecp) as [-> Hc].
    inversion H; subst; clear H. split; [destruct r; reflexivity|].
    intros ->. change (erase_df d1 :: map erase_df fs') with (map erase_df (d1 :: fs')).
    rewrite (Hc eq_refl). reflexivity.
  Qed.

  Lemma stepB_C f : BC f -> BS f -> BC (S f).
  Proof.
    intros HC HS t fs d par b dp o pl rv Hne H.
    rewrite dcomplete_S in H. rewrite complete_S.
    assert (Hraise : forall c, Some (raise_here c, @nil payload, false) = Some (o, pl, rv) ->
                     pl = [] /\ (rv = false -> Some (raise_here c) = Some o)).
    { intros c Hx. inversion Hx; subst. auto. }
    assert (Hnull : Some ((CVal JNull, @nil err, @nil call), @nil payload, false) = Some (o, pl, rv) ->
                     pl = [] /\ (rv = false -> Some (CVal JNull, @nil err, @nil call) = Some o)).
    { intros Hx. inversion Hx; subst. auto. }
    assert (HN : forall t',
      match dcomplete s frags cv false f t' fs d par b dp with
      | None => None
      | Some ((CVal JNull, es, cs), _, rv) => Some ((CErr, es ++ [([], CauseNull)], cs), [], rv)
      | Some x => Some x
      end = Some (o, pl, rv) ->
      pl = [] /\ (rv = false ->
        match complete s efrags cv f t' (merged_sels (map erase_df fs)) d with
        | None => None
        | Some (CVal JNull, es, cs) => Some (CErr, es ++ [([], CauseNull)], cs)
        | Some o => Some o
        end = Some o)).
    { intros t' HH.
      destruct (dcomplete s frags cv false f t' fs d par b dp) as [[[[[r1 es1] cs1] pls1] rv1]|] eqn:Ecp;
        [|discriminate].
      destruct (HC _ _ _ _ _ _ _ _ _ Hne Ecp) as [-> Hc].
      destruct r1 as [[| | | | | |]|]; inversion HH; subst; (split; [reflexivity|]);
        intros ->; rewrite (Hc eq_refl); reflexivity. }
    assert (HO : forall rt flds,
      dexec_sels s frags cv false f rt flds (srcs_of fs) par b dp = Some (o, pl, rv) ->
      pl = [] /\ (rv = false -> exec_sels s efrags cv f rt flds (merged_sels (map erase_df fs)) = Some o)).
    { intros rt flds HH. rewrite merged_erased_srcs. eapply HS; [|exact HH].
      destruct fs; [congruence|discriminate]. }
    destruct d as [|l|rt flds|items|]; [| | | |apply Hraise; exact H].
    - destruct t as [n|it|t']; [apply Hnull; exact H|apply Hnull; exact H|apply HN; exact H].
    - destruct t as [n|it|t']; [|apply Hraise; exact H|apply HN; exact H].
      destruct (lookup_type s n) as [[sc|vals|ofs ifs|ifs|ms|idefs ioo]|];
        try (apply HO; exact H);
        try (apply Hraise; exact H);
        (destruct (complete_leaf _ l); [inversion H; subst; auto|apply Hraise; exact H]).
    - destruct t as [n|it|t']; [|apply Hraise; exact H|apply HN; exact H].
      destruct (lookup_type s n) as [[sc|vals|ofs ifs|ifs|ms|idefs ioo]|];
        try (apply Hraise; exact H).
      + apply HO. exact H.
      + destruct (is_object s rt && possible s n rt); [apply HO; exact H|apply Hraise; exact H].
      + destruct (is_object s rt && possible s n rt); [apply HO; exact H|apply Hraise; exact H].
    - destruct t as [n|it|t']; [|clear HN|apply HN; exact H].
      { destruct (lookup_type s n) as [[sc|vals|ofs ifs|ifs|ms|idefs ioo]|];
          first [apply HO; exact H|apply Hraise; exact H]. }
      destruct (dcomplete_items
                  (fun x => option_map (xcatch it) (dcomplete s frags cv false f it fs x par b (S dp))) items 0)
        as [[[[[r es] cs] pls] rv1]|] eqn:Ei; [|discriminate].
      destruct (items_plain
                  (fun x => option_map (xcatch it) (dcomplete s frags cv false f it fs x par b (S dp)))
                  (fun x => option_map (catch it) (complete s efrags cv f it (merged_sels (map erase_df fs)) x))
                  items) with (2 := Ei) as [-> Hi].
      { intros x _ o1 pl1 rv2 Hx.
        destruct (dcomplete s frags cv false f it fs x par b (S dp)) as [[[[[r1 es1] cs1] pls1] rv3]|] eqn:Ecp;
          [|discriminate].
        destruct (HC _ _ _ _ _ _ _ _ _ Hne Ecp) as [-> Hc].
        cbn [option_map xcatch] in Hx. inversion Hx; subst; clear Hx.
        split; [destruct r1; reflexivity|]. intros ->. rewrite (Hc eq_refl). reflexivity. }
      destruct r as [js|]; inversion H; subst; clear H; (split; [reflexivity|]);
        intros ->; rewrite (Hi eq_refl); reflexivity.
  Qed.

  Theorem plain_spec_all : forall f, BS f /\ BF f /\ BC f.
  Proof.
    induction f as [|f [IHs [IHf IHc]]].
    - repeat split; intros; discriminate.
    - split; [apply stepB_S; exact IHf|]. split; [apply stepB_F; exact IHc|apply stepB_C; assumption].
  Qed.
End PlainSpec.

(* ------------------------------------------------------------------ whole responses *)

Lemma sel_depth_erase : forall x, sel_depth (erase_sel x) = sel_depth x.
Proof.
  fix IH 1. intros [al name args dirs sub | name dirs | tc dirs sub]; cbn [erase_sel sel_depth]; [|reflexivity|].
  - f_equal. induction sub as [|y r IHr]; cbn; [reflexivity|]. rewrite IH, IHr. reflexivity.
  - f_equal. induction sub as [|y r IHr]; cbn; [reflexivity|]. rewrite IH, IHr. reflexivity.
Qed.

Lemma sels_depth_erase l : sels_depth (erase_sels l) = sels_depth l.
Proof.
  unfold sels_depth, erase_sels. induction l as [|y r IH]; cbn; [reflexivity|].
  rewrite sel_depth_erase, IH. reflexivity.
Qed.

Lemma default_fuel_erase s d root : default_fuel s (erase_defer d) root = default_fuel s d root.
Proof.
  unfold default_fuel. cbn [erase_defer d_sels d_frags]. rewrite sels_depth_erase. f_equal. f_equal.
  induction (d_frags d) as [|fr r IH]; cbn; [reflexivity|].
  rewrite sels_depth_erase, IH. reflexivity.
Qed.

Theorem plain_is_spec_fuel fuel s d vars root j es cs pl :
  dexecute_fuel false fuel s d vars root = DResp j es cs pl false ->
  pl = [] /\ execute_fuel fuel s (erase_defer d) vars root = Resp j es cs.
Proof.
  unfold dexecute_fuel, execute_fuel. cbn [erase_defer d_vars d_kind d_sels d_frags].
  destruct (coerce_variable_values s (d_vars d) vars) as [cv|]; [|discriminate].
  destruct (root_type s (d_kind d)) as [tn|]; [|discriminate].
  destruct (negb (is_object s tn)); [discriminate|].
  set (flds := match root with DObj _ f => f | _ => [] end).
  intro H.
  destruct (dexec_sels s (d_frags d) cv false fuel tn flds [([], d_sels d)] [] 0 0)
    as [[[o pls] rv]|] eqn:Ep; [|discriminate].
  destruct (plain_spec_all s (d_frags d) cv fuel) as [HS _].
  assert (Hne : [(@nil dunode, d_sels d)] <> []) by discriminate.
  destruct (HS _ _ _ _ _ _ _ _ _ Hne Ep) as [-> He].
  unfold merged_erased in He. cbn [flat_map snd] in He. rewrite app_nil_r in He.
  destruct o as [[[j1|] es1] cs1]; inversion H; subst; clear H; (split; [reflexivity|]);
    rewrite (He eq_refl); reflexivity.
Qed.

(* ================================================================== all @defer disabled: the incremental
   executor is the base executor and delivers no payload *)

Lemma filtered_set_none fs : (forall f, In f fs -> df_du f = []) -> Plan.filtered_set (details_of fs) = [].
Proof.
  intro H. destruct fs as [|f r]; [reflexivity|].
  unfold Plan.filtered_set, details_of. cbn [map]. rewrite (H f (or_introl eq_refl)). reflexivity.
Qed.

Lemma plan_all_initial orig : forall init groups,
  (forall e, In e orig -> Plan.filtered_set (snd e) = []) ->
  Plan.plan orig [] init groups = (init ++ orig, groups).
Proof.
  induction orig as [|[k fs] r IH]; intros init groups H; cbn [Plan.plan].
  - rewrite app_nil_r. reflexivity.
  - pose proof (H (k, fs) (or_introl eq_refl)) as Hk. cbn [snd] in Hk. cbv zeta. rewrite Hk.
    cbn [Plan.ids map Plan.set_eq Plan.subset forallb andb].
    rewrite IH; [rewrite <- app_assoc; reflexivity|]. intros e He. apply H. right. exact He.
Qed.

Definition plain_g (cv : list (str * value)) (dg : dgrouped) : Prop :=
  Forall (fun e => Forall (fun f => df_du f = [] /\ inactive_sels cv (fs_sels (df_fs f)) = true) (snd e)) dg.

Lemma plan_of_plain cv dg : plain_g cv dg -> plan_of dg [] = (dg, []).
Proof.
  intro H. unfold plan_of, Plan.build_execution_plan. rewrite plan_all_initial.
  - cbn [fst snd app map]. rewrite resolve_to_gfs. reflexivity.
  - intros [i ds] He. unfold to_gfs in He. apply in_combine_r in He. apply in_map_iff in He as [e0 [<- He0]].
    cbn [snd]. apply filtered_set_none. intros f Hf. unfold plain_g in H. rewrite Forall_forall in H.
    specialize (H e0 He0). rewrite Forall_forall in H. apply (H f Hf).
Qed.

Lemma add_dfield_plain cv k f dg :
  plain_g cv dg -> df_du f = [] -> inactive_sels cv (fs_sels (df_fs f)) = true -> plain_g cv (add_dfield k f dg).
Proof.
  intros H H1 H2. induction H as [|[k' fs] r He HF IH]; cbn [add_dfield].
  - constructor; [|constructor]. cbn. constructor; [split; assumption|constructor].
  - destruct (str_eqb k k').
    + constructor; [|exact HF]. cbn [snd] in *. apply Forall_app. split; [exact He|].
      constructor; [split; assumption|constructor].
    + constructor; assumption.
Qed.

Lemma find_frag_In name frags fr : find_frag name frags = Some fr -> In fr frags.
Proof.
  induction frags as [|f r IH]; cbn; [discriminate|].
  destruct (str_eqb name (fr_name f)); [intro H; inversion H; left; reflexivity|].
  intro H. right. apply IH. exact H.
Qed.

Section Inactive.
  Variable s : schema.
  Variable frags : list fragment.
  Variable cv : list (str * value).
  Hypothesis Hfrags : forall fr, In fr frags -> inactive_sels cv (fr_sels fr) = true.

  (* collection state without any deferred visit *)
  Definition Ist (st : cstate) : Prop :=
    c_new st = [] /\ c_rev st = false /\ (forall name, lookup name (c_vis st) <> Some true) /\
    plain_g cv (c_g st).

  Section ICollect.
    Variable tn : str.
    Variable base : N.
    Variable depth : nat.

    Lemma dcollect_list_inactive rec :
      (forall sels st st', inactive_sels cv sels = true -> Ist st -> rec [] sels st = Some st' -> Ist st') ->
      forall sels st st', inactive_sels cv sels = true -> Ist st ->
        dcollect_list s frags cv tn base depth rec [] sels st = Some st' -> Ist st'.
    Proof.
      intro Hrec. induction sels as [|sel rest IH]; intros st st' Hin HI H; cbn [dcollect_list] in H.
      - inversion H; subst. exact HI.
      - cbn [inactive_sels forallb] in Hin. apply andb_true_iff in Hin as [Hsel Hrest].
        fold (inactive_sels cv rest) in Hrest.
        destruct sel as [al name args dirs sub | name dirs | tc dirs sub]; cbn [inactive_sel] in Hsel.
        + destruct (should_include cv dirs); [|eapply IH; eauto].
          eapply IH; [exact Hrest| |exact H].
          destruct HI as [I1 [I2 [I3 I4]]]. repeat split; try assumption.
          cbn [c_g]. apply add_dfield_plain; [exact I4|reflexivity|exact Hsel].
        + destruct (negb (should_include cv dirs)); [eapply IH; eauto|].
          destruct (find_frag name frags) as [fr|] eqn:Ef; [|eapply IH; eauto].
          destruct (negb (cond_matches s (fr_cond fr) tn)); [eapply IH; eauto|].
          destruct (defer_active cv dirs); [discriminate|].
          destruct HI as [I1 [I2 [I3 I4]]].
          destruct (lookup name (c_vis st)) as [[|]|] eqn:El;
            [exfalso; apply (I3 name); exact El|eapply IH; eauto; repeat split; assumption|].
          destruct (rec [] (fr_sels fr) _) as [st1|] eqn:E1; [|discriminate].
          eapply IH; [exact Hrest| |exact H]. eapply Hrec; [|  |exact E1].
          * apply Hfrags. eapply find_frag_In. exact Ef.
          * repeat split; cbn [c_new c_rev c_vis c_g]; try assumption.
            -- rewrite I2. reflexivity.
            -- intros x. cbn [lookup]. destruct (str_eqb x name); [discriminate|apply I3].
        + apply andb_true_iff in Hsel as [Hd Hsub]. fold (inactive_sels cv sub) in Hsub.
          destruct (should_include cv dirs && match tc with Some c => cond_matches s c tn | None => true end);
            [|eapply IH; eauto].
          destruct (defer_active cv dirs); [discriminate|].
          destruct (rec [] sub st) as [st1|] eqn:E1; [|discriminate].
          eapply IH; [exact Hrest| |exact H]. exact (Hrec sub st st1 Hsub HI E1).
    Qed.

    Lemma dcollect_inactive fuel : forall sels st st', inactive_sels cv sels = true -> Ist st ->
      dcollect s frags cv tn base depth fuel [] sels st = Some st' -> Ist st'.
    Proof.
      induction fuel as [|f IH]; intros sels st st' Hin HI H; cbn [dcollect] in H; [discriminate|].
      eapply dcollect_list_inactive; eauto.
    Qed.

    Definition plain_srcs (srcs : list (duchain * list selection)) : Prop :=
      Forall (fun x => fst x = [] /\ inactive_sels cv (snd x) = true) srcs.

    Lemma dcollect_srcs_inactive fuel srcs : forall st st', plain_srcs srcs -> Ist st ->
      dcollect_srcs s frags cv tn base depth fuel srcs st = Some st' -> Ist st'.
    Proof.
      induction srcs as [|[du sels] r IH]; intros st st' Hs HI H; cbn [dcollect_srcs] in H.
      - inversion H; subst. exact HI.
      - inversion Hs as [|x l [Hd Hi] Hr]; subst. cbn [fst snd] in *. subst du.
        destruct (dcollect s frags cv tn base depth fuel [] sels st) as [st1|] eqn:E; [|discriminate].
        eapply IH; [exact Hr| |exact H]. eapply dcollect_inactive; eauto.
    Qed.
  End ICollect.

  Lemma Ist_init : Ist cs0.
  Proof. repeat split; try reflexivity; [intros name; discriminate|constructor]. Qed.

  Definition plain_fs (fs : list dfield) : Prop :=
    Forall (fun f => df_du f = [] /\ inactive_sels cv (fs_sels (df_fs f)) = true) fs.

  Lemma plain_srcs_of fs : plain_fs fs -> plain_srcs (srcs_of fs).
  Proof. intro H. unfold plain_srcs, srcs_of. apply Forall_map. exact H. Qed.

  Definition PS (f : nat) : Prop :=
    forall tn obj srcs b dp, plain_srcs srcs ->
      dexec_sels s frags cv true f tn obj srcs [] b dp = dexec_sels s frags cv false f tn obj srcs [] b dp /\
      (forall o pl rv, dexec_sels s frags cv false f tn obj srcs [] b dp = Some (o, pl, rv) -> rv = false).

  Definition PF (f : nat) : Prop :=
    forall tn obj b dp fs, plain_fs fs ->
      dexec_field s frags cv true f tn obj [] b dp fs = dexec_field s frags cv false f tn obj [] b dp fs /\
      (forall o pl rv, dexec_field s frags cv false f tn obj [] b dp fs = Some (XRes (o, pl, rv)) -> rv = false).

  Definition PC (f : nat) : Prop :=
    forall t fs d b dp, plain_fs fs ->
      dcomplete s frags cv true f t fs d [] b dp = dcomplete s frags cv false f t fs d [] b dp /\
      (forall o pl rv, dcomplete s frags cv false f t fs d [] b dp = Some (o, pl, rv) -> rv = false).

  Lemma dexec_groups_ext ef1 ef2 g :
    (forall e, In e g -> ef1 (snd e) = ef2 (snd e)) -> dexec_groups ef1 g = dexec_groups ef2 g.
  Proof.
    induction g as [|[k fs] r IH]; intro H; cbn [dexec_groups]; [reflexivity|].
    pose proof (H (k, fs) (or_introl eq_refl)) as Hk. cbn [snd] in Hk. rewrite Hk.
    rewrite IH; [reflexivity|]. intros e He. apply H. right. exact He.
  Qed.

  Lemma dexec_groups_rv ef g : forall r es cs pls rv,
    (forall e o pl rv, In e g -> ef (snd e) = Some (XRes (o, pl, rv)) -> rv = false) ->
    dexec_groups ef g = Some (r, es, cs, pls, rv) -> rv = false.
  Proof.
    induction g as [|[k fs] rest IH]; intros r es cs pls rv Hf H; cbn [dexec_groups] in H.
    - inversion H; reflexivity.
    - assert (Hf' : forall e o pl rv, In e rest -> ef (snd e) = Some (XRes (o, pl, rv)) -> rv = false).
      { intros e o pl0 rv0 He. apply Hf. right. exact He. }
      destruct (ef fs) as [[|[[[[[j|] es0] cs0] pl0] rv0]]|] eqn:Ef; [| | |discriminate].
      + eapply IH; eauto.
      + pose proof (Hf (k, fs) _ _ _ (or_introl eq_refl) Ef) as ->.
        destruct (dexec_groups ef rest) as [[[[[r' es'] cs'] pls'] rv']|] eqn:Er; [|discriminate].
        inversion H; subst. cbn [orb]. eapply IH; [exact Hf'|]. first [exact Er|reflexivity].
      + pose proof (Hf (k, fs) _ _ _ (or_introl eq_refl) Ef) as ->. inversion H; reflexivity.
  Qed.

  Lemma dcomplete_items_ext cf1 cf2 items : forall i,
    (forall x, In x items -> cf1 x = cf2 x) -> dcomplete_items cf1 items i = dcomplete_items cf2 items i.
  Proof.
    induction items as [|x r IH]; intros i H; cbn [dcomplete_items]; [reflexivity|].
    rewrite (H x (or_introl eq_refl)). rewrite (IH (S i)); [reflexivity|]. intros y Hy. apply H. right. exact Hy.
  Qed.

  Lemma dcomplete_items_rv cf items : forall i r es cs pls rv,
    (forall x o pl rv, In x items -> cf x = Some (o, pl, rv) -> rv = false) ->
    dcomplete_items cf items i = Some (r, es, cs, pls, rv) -> rv = false.
  Proof.
    induction items as [|x rest IH]; intros i r es cs pls rv Hf H; cbn [dcomplete_items] in H.
    - inversion H; reflexivity.
    - assert (Hf' : forall y o pl rv, In y rest -> cf y = Some (o, pl, rv) -> rv = false).
      { intros y o pl0 rv0 Hy. apply Hf. right. exact Hy. }
      destruct (cf x) as [[[[[[j|] es0] cs0] pl0] rv0]|] eqn:Ef; [| |discriminate].
      + pose proof (Hf x _ _ _ (or_introl eq_refl) Ef) as ->.
        destruct (dcomplete_items cf rest (S i)) as [[[[[r' es'] cs'] pls'] rv']|] eqn:Er; [|discriminate].
        inversion H; subst. cbn [orb]. eapply IH; [exact Hf'|exact Er].
      + pose proof (Hf x _ _ _ (or_introl eq_refl) Ef) as ->. inversion H; reflexivity.
  Qed.

  Lemma stepP_S f : PF f -> PS (S f).
  Proof.
    intros HF tn obj srcs b dp Hs. rewrite !dexec_sels_S.
    destruct (dcollect_srcs s frags cv tn b dp f srcs cs0) as [st|] eqn:Ec; [|split; [reflexivity|discriminate]].
    cbv zeta.
    destruct (dcollect_srcs_inactive tn b dp f srcs cs0 st Hs Ist_init Ec) as [I1 [I2 [I3 I4]]].
    rewrite (plan_of_plain cv _ I4). cbn [fst snd].
    set (b' := b + N.of_nat (length (c_new st))).
    assert (Hent : forall e, In e (c_g st) -> plain_fs (snd e)).
    { intros e He. unfold plain_g in I4. rewrite Forall_forall in I4. exact (I4 e He). }
    rewrite (dexec_groups_ext (dexec_field s frags cv true f tn obj [] b' dp)
               (dexec_field s frags cv false f tn obj [] b' dp)).
    2:{ intros e He. apply (HF tn obj b' dp (snd e) (Hent e He)). }
    split; [reflexivity|].
    intros o pl rv H. cbn [dexec_deferred] in H.
    destruct (dexec_groups (dexec_field s frags cv false f tn obj [] b' dp) (c_g st))
      as [[[[[r es] cs] pls] rv1]|] eqn:Eg; [|discriminate].
    assert (Hrv : rv1 = false).
    { eapply dexec_groups_rv; [|exact Eg]. intros e o1 pl1 rv2 He Hx.
      eapply (HF tn obj b' dp (snd e) (Hent e He)). exact Hx. }
    subst rv1. destruct r; inversion H; subst; rewrite I2; reflexivity.
  Qed.

  Lemma stepP_F f : PC f -> PF (S f).
  Proof.
    intros HC tn obj b dp fs Hfs. rewrite !dexec_field_S.
    destruct fs as [|d1 fs']; [split; [reflexivity|discriminate]|].
    cbv zeta.
    destruct (str_eqb (fs_name (df_fs d1)) n_typename).
    { split; [reflexivity|]. intros o pl rv H. inversion H; reflexivity. }
    destruct (lookup_field s tn (fs_name (df_fs d1))) as [fd|]; [|split; [reflexivity|discriminate]].
    destruct (coerce_args s cv (f_args fd) (fs_args (df_fs d1))) as [args|].
    2:{ split; [reflexivity|]. intros o pl rv H. inversion H; reflexivity. }
    destruct (HC (f_type fd) (d1 :: fs')
                (match lookup (fs_name (df_fs d1)) obj with Some d => d | None => DNull end) b (S dp) Hfs) as [He Hr].
    rewrite He. split; [reflexivity|]. intros o pl rv H.
    destruct (dcomplete s frags cv false f (f_type fd) (d1 :: fs') _ [] b (S dp))
      as [[[[[r es] cs] pls] rv1]|] eqn:Ecp; [|discriminate].
    pose proof (Hr _ _ _ eq_refl) as ->. inversion H; reflexivity.
  Qed.

  Lemma stepP_C f : PC f -> PS f -> PC (S f).
  Proof.
    intros HC HS t fs d b dp Hfs. rewrite !dcomplete_S.
    assert (Himm : forall x : xout, snd x = false ->
              Some x = Some x /\ (forall o pl rv, Some x = Some (o, pl, rv) -> rv = false)).
    { intros x Hx. split; [reflexivity|]. intros o pl rv H. inversion H; subst. exact Hx. }
    assert (HN : forall t',
      match dcomplete s frags cv true f t' fs d [] b dp with
      | None => None
      | Some ((CVal JNull, es, cs), _, rv) => Some ((CErr, es ++ [([], CauseNull)], cs), [], rv)
      | Some x => Some x
      end =
      match dcomplete s frags cv false f t' fs d [] b dp with
      | None => None
      | Some ((CVal JNull, es, cs), _, rv) => Some ((CErr, es ++ [([], CauseNull)], cs), [], rv)
      | Some x => Some x
      end /\
      (forall o pl rv,
        match dcomplete s frags cv false f t' fs d [] b dp with
        | None => None
        | Some ((CVal JNull, es, cs), _, rv) => Some ((CErr, es ++ [([], CauseNull)], cs), [], rv)
        | Some x => Some x
        end = Some (o, pl, rv) -> rv = false)).
    { intro t'. destruct (HC t' fs d b dp Hfs) as [He Hr]. rewrite He. split; [reflexivity|].
      intros o pl rv H.
      destruct (dcomplete s frags cv false f t' fs d [] b dp) as [[[[[r1 es1] cs1] pls1] rv1]|] eqn:Ecp;
        [|discriminate].
      pose proof (Hr _ _ _ eq_refl) as ->.
      destruct r1 as [[| | | | | |]|]; inversion H; reflexivity. }
    assert (HO : forall rt flds,
      dexec_sels s frags cv true f rt flds (srcs_of fs) [] b dp
      = dexec_sels s frags cv false f rt flds (srcs_of fs) [] b dp /\
      (forall o pl rv, dexec_sels s frags cv false f rt flds (srcs_of fs) [] b dp = Some (o, pl, rv) -> rv = false)).
    { intros rt flds. apply HS. apply plain_srcs_of. exact Hfs. }
    destruct d as [|l|rt flds|items|]; [| | | |apply Himm; reflexivity].
    - destruct t as [n|it|t']; [apply Himm; reflexivity|apply Himm; reflexivity|apply HN].
    - destruct t as [n|it|t']; [|apply Himm; reflexivity|apply HN].
      destruct (lookup_type s n) as [[sc|vals|ofs ifs|ifs|ms|idefs ioo]|];
        try (apply HO);
        try (apply Himm; reflexivity);
        (destruct (complete_leaf _ l); apply Himm; reflexivity).
    - destruct t as [n|it|t']; [|apply Himm; reflexivity|apply HN].
      destruct (lookup_type s n) as [[sc|vals|ofs ifs|ifs|ms|idefs ioo]|];
        try (apply Himm; reflexivity).
      + apply HO.
      + destruct (is_object s rt && possible s n rt); [apply HO|apply Himm; reflexivity].
      + destruct (is_object s rt && possible s n rt); [apply HO|apply Himm; reflexivity].
    - destruct t as [n|it|t']; [| |apply HN].
      { destruct (lookup_type s n) as [[sc|vals|ofs ifs|ifs|ms|idefs ioo]|];
          first [apply HO|apply Himm; reflexivity]. }
      rewrite (dcomplete_items_ext
                 (fun x => option_map (xcatch it) (dcomplete s frags cv true f it fs x [] b (S dp)))
                 (fun x => option_map (xcatch it) (dcomplete s frags cv false f it fs x [] b (S dp)))).
      2:{ intros x _. destruct (HC it fs x b (S dp) Hfs) as [He _]. rewrite He. reflexivity. }
      split; [reflexivity|]. intros o pl rv H.
      destruct (dcomplete_items _ items 0) as [[[[[r es] cs] pls] rv1]|] eqn:Ei; [|discriminate].
      assert (Hrv : rv1 = false).
      { eapply dcomplete_items_rv; [|exact Ei]. intros x o1 pl1 rv2 _ Hx. cbn beta in Hx.
        destruct (HC it fs x b (S dp) Hfs) as [_ Hr].
        destruct (dcomplete s frags cv false f it fs x [] b (S dp)) as [[[[[r1 es1] cs1] pls1] rv3]|] eqn:Ecp;
          [|cbn in Hx; discriminate].
        pose proof (Hr _ _ _ eq_refl) as ->. cbn [option_map xcatch] in Hx. inversion Hx; reflexivity. }
      subst rv1. destruct r; inversion H; reflexivity.
  Qed.

  Theorem inactive_all : forall f, PS f /\ PF f /\ PC f.
  Proof.
    induction f as [|f [IHs [IHf IHc]]].
    - repeat split; intros; try reflexivity; discriminate.
    - split; [apply stepP_S; exact IHf|]. split; [apply stepP_F; exact IHc|apply stepP_C; assumption].
  Qed.
End Inactive.

Theorem inactive_fuel fuel s d vars root :
  (forall cv, coerce_variable_values s (d_vars d) vars = Some cv -> inactive_doc cv d = true) ->
  dexecute_fuel true fuel s d vars root = dexecute_fuel false fuel s d vars root /\
  (forall j es cs pl rv, dexecute_fuel false fuel s d vars root = DResp j es cs pl rv -> rv = false).
Proof.
  intro Hin. unfold dexecute_fuel.
  destruct (coerce_variable_values s (d_vars d) vars) as [cv|]; [|split; [reflexivity|discriminate]].
  destruct (root_type s (d_kind d)) as [tn|]; [|split; [reflexivity|discriminate]].
  destruct (negb (is_object s tn)); [split; [reflexivity|discriminate]|].
  specialize (Hin cv eq_refl). unfold inactive_doc in Hin. apply andb_true_iff in Hin as [Hs Hf].
  assert (Hfrags : forall fr, In fr (d_frags d) -> inactive_sels cv (fr_sels fr) = true).
  { rewrite forallb_forall in Hf. exact Hf. }
  destruct (inactive_all s (d_frags d) cv Hfrags fuel) as [HS _].
  set (flds := match root with DObj _ f => f | _ => [] end).
  destruct (HS tn flds [([], d_sels d)] 0 0%nat) as [He Hr].
  { constructor; [split; [reflexivity|exact Hs]|constructor]. }
  rewrite He. split; [reflexivity|]. intros j es cs pl rv H.
  destruct (dexec_sels s (d_frags d) cv false fuel tn flds [([], d_sels d)] [] 0 0) as [[[o pls] rv1]|] eqn:E;
    [|discriminate].
  pose proof (Hr _ _ _ eq_refl) as ->. destruct o as [[[j1|] es1] cs1]; inversion H; reflexivity.
Qed.

(* documents without @defer *)
Lemma no_defer_erase ds : no_defer ds = true -> erase_dirs ds = ds.
Proof.
  unfold no_defer, erase_dirs. induction ds as [|d r IH]; cbn [forallb filter]; [reflexivity|].
  intro H. apply andb_true_iff in H as [H1 H2]. rewrite H1, IH by exact H2. reflexivity.
Qed.

Lemma no_defer_find ds : no_defer ds = true -> find_dir n_defer ds = None.
Proof.
  unfold no_defer. induction ds as [|[n args] r IH]; cbn [forallb find_dir fst]; [reflexivity|].
  intro H. apply andb_true_iff in H as [H1 H2]. apply negb_true_iff in H1.
  assert (E : str_eqb n_defer n = false).
  { apply str_eqb_neq. intro Hx. apply str_eqb_neq in H1. apply H1. symmetry. exact Hx. }
  rewrite E. apply IH. exact H2.
Qed.

Lemma defer_free_sel_erase : forall x, defer_free_sel x = true -> erase_sel x = x.
Proof.
  fix IH 1. intros [al name args dirs sub | name dirs | tc dirs sub]; cbn [defer_free_sel erase_sel]; intro H.
  - f_equal. induction sub as [|y r IHr]; cbn in *; [reflexivity|].
    apply andb_true_iff in H as [H1 H2]. rewrite IH, IHr by assumption. reflexivity.
  - rewrite no_defer_erase by exact H. reflexivity.
  - apply andb_true_iff in H as [H0 H]. rewrite no_defer_erase by exact H0. f_equal.
    induction sub as [|y r IHr]; cbn in *; [reflexivity|].
    apply andb_true_iff in H as [H1 H2]. rewrite IH, IHr by assumption. reflexivity.
Qed.

Lemma defer_free_sels_erase l : forallb defer_free_sel l = true -> erase_sels l = l.
Proof.
  unfold erase_sels. induction l as [|y r IH]; cbn; [reflexivity|]. intro H.
  apply andb_true_iff in H as [H1 H2]. rewrite defer_free_sel_erase, IH by assumption. reflexivity.
Qed.

Theorem defer_free_erase d : defer_free d = true -> erase_defer d = d.
Proof.
  destruct d as [k vs sels frs]. unfold defer_free, erase_defer. cbn [d_kind d_vars d_sels d_frags].
  intro H. apply andb_true_iff in H as [H1 H2]. rewrite defer_free_sels_erase by exact H1. f_equal.
  induction frs as [|[n c b] r IH]; cbn in *; [reflexivity|].
  apply andb_true_iff in H2 as [H3 H4]. rewrite IH by exact H4. unfold erase_frag. cbn.
  rewrite defer_free_sels_erase by exact H3. reflexivity.
Qed.

Lemma defer_free_sel_inactive cv : forall x, defer_free_sel x = true -> inactive_sel cv x = true.
Proof.
  fix IH 1. intros [al name args dirs sub | name dirs | tc dirs sub]; cbn [defer_free_sel inactive_sel]; intro H.
  - induction sub as [|y r IHr]; cbn in *; [reflexivity|].
    apply andb_true_iff in H as [H1 H2]. rewrite IH, IHr by assumption. reflexivity.
  - unfold defer_active. rewrite no_defer_find by exact H. reflexivity.
  - apply andb_true_iff in H as [H0 H]. unfold defer_active. rewrite no_defer_find by exact H0. cbn [andb].
    induction sub as [|y r IHr]; cbn in *; [reflexivity|].
    apply andb_true_iff in H as [H1 H2]. rewrite IH, IHr by assumption. reflexivity.
Qed.

Lemma defer_free_inactive cv d : defer_free d = true -> inactive_doc cv d = true.
Proof.
  unfold defer_free, inactive_doc, inactive_sels. intro H. apply andb_true_iff in H as [H1 H2].
  apply andb_true_iff. split.
  - rewrite forallb_forall in *. intros x Hx. apply defer_free_sel_inactive. apply H1. exact Hx.
  - rewrite forallb_forall in *. intros fr Hfr. specialize (H2 fr Hfr).
    rewrite forallb_forall in *. intros x Hx. apply defer_free_sel_inactive. apply H2. exact Hx.
Qed.

(* ------------------------------------------------------------------ a response key with a non-deferred
   occurrence is executed by the initial executor *)
Theorem nondeferred_in_initial dg k fs :
  In (k, fs) dg -> (exists f, In f fs /\ df_du f = []) -> In (k, fs) (fst (plan_of dg [])).
Proof.
  intros Hin [f [Hf Hdu]].
  pose proof (plan_of_partition dg []) as Hp.
  assert (Hin' : In (k, fs) (fst (plan_of dg []) ++ flat_map snd (snd (plan_of dg [])))).
  { eapply Permutation_in; [apply Permutation_sym; exact Hp|exact Hin]. }
  apply in_app_or in Hin' as [H|H]; [exact H|]. exfalso.
  (* it cannot be in a deferred group: its filtered set is empty = the parent set, so the plan keeps
     every entry with these details in the initial part *)
  unfold plan_of in H. cbn [snd] in H. rewrite flat_map_snd_map in H.
  apply in_flat_map in H as [[sdu g] [Hg He]]. cbn [snd] in He.
  apply in_flat_map in He as [[i ds] [Hi Hr]].
  unfold resolve in Hr. cbn [fst] in Hr.
  destruct (nth_error dg (N.to_nat i)) as [x|] eqn:En; [|destruct Hr]. destruct Hr as [Hr|[]]. subst x.
  (* the entry i of the plan's group has the details of (k, fs) *)
  assert (Hds : In (i, ds) (to_gfs dg)).
  { pose proof (PlanProps.plan_partition (to_gfs dg) []) as Hpp.
    eapply Permutation_in; [exact Hpp|]. unfold PlanProps.entries. apply in_or_app. right.
    apply in_flat_map. exists (sdu, g). split; assumption. }
  assert (Hdet : ds = details_of fs).
  { unfold to_gfs in Hds. clear - Hds En.
    assert (G : forall (l : dgrouped) pre, In (i, ds) (combine (map N.of_nat (seq (length pre) (length l)))
                                                  (map (fun e => details_of (snd e)) l)) ->
                nth_error (pre ++ l) (N.to_nat i) = Some (k, fs) -> ds = details_of fs).
    { induction l as [|x r IH]; intros pre H1 H2; cbn in H1; [destruct H1|].
      destruct H1 as [H1|H1].
      - inversion H1; subst. rewrite Nnat.Nat2N.id in H2. rewrite nth_error_app2 in H2 by apply Nat.le_refl.
        rewrite Nat.sub_diag in H2. cbn in H2. inversion H2; subst. reflexivity.
      - apply (IH (pre ++ [x])).
        + rewrite app_length. cbn [length]. rewrite Nat.add_1_r. exact H1.
        + rewrite <- app_assoc. exact H2. }
    exact (G dg [] Hds En). }
  subst ds.
  (* entries with a non-deferred field are initial *)
  pose proof (PlanProps.initial_iff_parent_set (to_gfs dg) []) as Hinit.
  assert (Hfilt : Plan.set_eq (Plan.ids (Plan.filtered_set (details_of fs))) [] = true).
  { rewrite PlanProps.non_deferred_field_empty_set; [reflexivity|].
    unfold details_of. apply in_map_iff. exists f. rewrite Hdu. split; [reflexivity|exact Hf]. }
  (* but the plan's groups only hold entries whose set differs from the parent set *)
  assert (Hgroups : forall orig init groups sdu g e,
            (forall s' g' e', In (s', g') groups -> In e' g' ->
                              Plan.set_eq (Plan.ids (Plan.filtered_set (snd e'))) [] = false) ->
            In (sdu, g) (snd (Plan.plan orig [] init groups)) -> In e g ->
            Plan.set_eq (Plan.ids (Plan.filtered_set (snd e))) [] = false).
  { clear. induction orig as [|[k0 fs0] r IH]; intros init groups sdu g e Hinv H1 H2; cbn [Plan.plan] in H1.
    - eapply Hinv; eauto.
    - cbv zeta in H1. destruct (Plan.set_eq (Plan.ids (Plan.filtered_set fs0)) []) eqn:E.
      + eapply IH; eauto.
      + eapply IH; [|exact H1|exact H2]. clear - Hinv E.
        induction groups as [|[s0 g0] t IHg]; intros s' g' e' H3 H4; cbn [Plan.add_to_group] in H3.
        * destruct H3 as [H3|[]]. inversion H3; subst. destruct H4 as [<-|[]]. exact E.
        * destruct (Plan.set_eq (Plan.ids s0) (Plan.ids (Plan.filtered_set fs0))).
          -- destruct H3 as [H3|H3].
             ++ inversion H3; subst. apply in_app_or in H4 as [H4|[<-|[]]]; [|exact E].
                eapply Hinv; [left; reflexivity|exact H4].
             ++ eapply Hinv; [right; exact H3|exact H4].
          -- destruct H3 as [H3|H3].
             ++ inversion H3; subst. eapply Hinv; [left; reflexivity|exact H4].
             ++ eapply IHg; [|exact H3|exact H4]. intros s1 g1 e1 H5 H6. eapply Hinv; [right; exact H5|exact H6]. }
  specialize (Hgroups (to_gfs dg) [] [] sdu g (i, details_of fs) (fun _ _ _ (H : In _ []) => match H with end) Hg Hi).
  cbn [snd] in Hgroups. congruence.
Qed.

(* ------------------------------------------------------------------ ... and is therefore in the initial
   data of the position (when the runtime type defines the field) *)
Lemma dexec_groups_key ef g : forall kvs es cs pls rv k fs,
  dexec_groups ef g = Some (Some kvs, es, cs, pls, rv) ->
  In (k, fs) g -> ef fs <> Some XSkip -> In k (map fst kvs).
Proof.
  induction g as [|[k0 fs0] rest IH]; intros kvs es cs pls rv k fs H Hin Hns; [destruct Hin|].
  cbn [dexec_groups] in H.
  destruct (ef fs0) as [[|[[[[[j|] es0] cs0] pl0] rv0]]|] eqn:Ef; [| | |discriminate].
  - destruct Hin as [Hin|Hin]; [inversion Hin; subst; congruence|]. eapply IH; eauto.
  - destruct (dexec_groups ef rest) as [[[[[r' es'] cs'] pls'] rv']|] eqn:Er; [|discriminate].
    destruct r' as [kvs'|]; [|discriminate]. inversion H; subst; clear H. cbn [map fst].
    destruct Hin as [Hin|Hin]; [inversion Hin; subst; left; reflexivity|].
    right. eapply IH; eauto.
  - discriminate.
Qed.

Theorem nondeferred_in_initial_data s frags cv f tn obj srcs b dp kvs es cs pls rv st k fs :
  dexec_sels s frags cv true (S f) tn obj srcs [] b dp = Some ((CVal (JObj kvs), es, cs), pls, rv) ->
  dcollect_srcs s frags cv tn b dp f srcs cs0 = Some st ->
  In (k, fs) (c_g st) -> (exists x, In x fs /\ df_du x = []) ->
  dexec_field s frags cv true f tn obj [] (b + N.of_nat (length (c_new st))) dp fs <> Some XSkip ->
  In k (map fst kvs).
Proof.
  intros H Hc Hin Hnd Hns. rewrite dexec_sels_S, Hc in H. cbv zeta in H.
  pose proof (nondeferred_in_initial (c_g st) k fs Hin Hnd) as Hinit.
  destruct (plan_of (c_g st) []) as [init groups]. cbn [fst snd] in *.
  destruct (dexec_groups _ init) as [[[[[r es1] cs1] pls1] rv1]|] eqn:Eg; [|discriminate].
  destruct r as [kvs1|]; [|discriminate].
  destruct (dexec_deferred _ groups) as [[dpls rv2]|]; [|discriminate].
  inversion H; subst; clear H. eapply dexec_groups_key; eauto.
Qed.
