(* C05 - the incremental delivery protocol as an executable validator over abstract payloads.
   Definitions only.  Ids, labels and path keys are numbers; data is not modelled (the clause
   "targets an existing object or list in the data assembled so far" is checked by the harness on
   real payloads only). *)
From GV Require Import Base.Prelude.

Definition memN (k : N) (l : list N) : bool := existsb (N.eqb k) l.

Record pend := mkPend {
  p_id : N;
  p_path : list N;
  p_label : N;
  p_stream : bool;       (* stream (true) or deferred fragment (false) *)
  p_next : nat           (* stream: index of the next expected list item *)
}.

Inductive incr :=
| IDefer (id : N)
| IStream (id : N) (items : list nat).   (* indices of the delivered list items *)

Record payload := mkPayload {
  pl_pending : list pend;
  pl_incr : list incr;
  pl_completed : list N;
  pl_has_next : bool
}.

(* monitor state *)
Record mstate := mkM {
  m_used : list N;                    (* every id announced so far *)
  m_pend : list pend;                 (* currently pending *)
  m_streams : list (list N * nat)     (* every stream announced so far: path, first streamed index *)
}.
Definition m_init : mstate := mkM [] [] [].

(* Path keys: a list index i is the key 2*i, a field name is an odd key. *)

Fixpoint natl_eqb (a b : list nat) : bool :=
  match a, b with
  | [], [] => true
  | x :: a', y :: b' => Nat.eqb x y && natl_eqb a' b'
  | _, _ => false
  end.

Fixpoint prefixb (a b : list N) : bool :=
  match a, b with
  | [], _ => true
  | x :: a', y :: b' => (x =? y) && prefixb a' b'
  | _ :: _, [] => false
  end.

Fixpoint agetN (k : N) (l : list (N * N)) : option N :=
  match l with
  | [] => None
  | (k', v) :: r => if k =? k' then Some v else agetN k r
  end.

(* labels of all enclosing fragments, by the parent table (fuel = table size) *)
Fixpoint ancestors (fuel : nat) (parents : list (N * N)) (l : N) : list N :=
  match fuel with
  | O => []
  | S f => match agetN l parents with
           | Some p => p :: ancestors f parents p
           | None => []
           end
  end.

(* the items of a streamed list from the first streamed index on are delivered by the stream, not
   by the fragment that syntactically encloses the list: such a stream between [qp] and [ap] cuts
   the enclosure *)
Definition cut_by_stream (streams : list (list N * nat)) (qp ap : list N) : bool :=
  existsb (fun st : list N * nat =>
    let '(sp, start) := st in
    prefixb qp sp && prefixb sp ap
    && match nth_error ap (length sp) with
       | Some k => N.even k && (N.of_nat start <=? N.div2 k)
       | None => false
       end) streams.

(* [q] is an announced enclosing fragment of [a] *)
Definition encloses (parents : list (N * N)) (streams : list (list N * nat)) (q a : pend) : bool :=
  negb (p_stream q) && negb (p_stream a)
  && memN (p_label q) (ancestors (S (length parents)) parents (p_label a))
  && prefixb (p_path q) (p_path a)
  && negb (cut_by_stream streams (p_path q) (p_path a)).

Fixpoint find_pend (id : N) (l : list pend) : option pend :=
  match l with
  | [] => None
  | p :: r => if p_id p =? id then Some p else find_pend id r
  end.

Definition remove_pend (id : N) (l : list pend) : list pend :=
  filter (fun p => negb (p_id p =? id)) l.

Fixpoint set_next (id : N) (n : nat) (l : list pend) : list pend :=
  match l with
  | [] => []
  | p :: r => if p_id p =? id
              then mkPend (p_id p) (p_path p) (p_label p) (p_stream p) n :: r
              else p :: set_next id n r
  end.

(* 1. announcements: fresh ids only *)
Fixpoint announce (ps : list pend) (st : mstate) : option mstate :=
  match ps with
  | [] => Some st
  | p :: r => if memN (p_id p) (m_used st) then None
              else announce r (mkM (p_id p :: m_used st) (m_pend st ++ [p])
                                   (if p_stream p then m_streams st ++ [(p_path p, p_next p)]
                                    else m_streams st))
  end.

(* 2. incremental entries: target pending, right kind, stream items contiguous *)
Fixpoint deliver (es : list incr) (pd : list pend) : option (list pend) :=
  match es with
  | [] => Some pd
  | IDefer id :: r =>
      match find_pend id pd with
      | Some p => if p_stream p then None else deliver r pd
      | None => None
      end
  | IStream id items :: r =>
      match find_pend id pd with
      | Some p => if p_stream p && natl_eqb items (seq (p_next p) (length items))
                  then deliver r (set_next id (p_next p + length items) pd) else None
      | None => None
      end
  end.

(* 3. completions: each id pending, once *)
Fixpoint complete (cs : list N) (pd : list pend) : option (list pend) :=
  match cs with
  | [] => Some pd
  | id :: r => match find_pend id pd with
               | Some _ => complete r (remove_pend id pd)
               | None => None
               end
  end.

(* 4. no fragment announced in this payload has an enclosing fragment that is still pending
      after this payload *)
Definition nesting_ok (parents : list (N * N)) (streams : list (list N * nat))
  (announced : list pend) (after : list pend) : bool :=
  forallb (fun a => forallb (fun q => negb (encloses parents streams q a)) after) announced.

Definition mstep (parents : list (N * N)) (st : mstate) (p : payload) : option mstate :=
  match announce (pl_pending p) st with
  | None => None
  | Some st1 =>
    match deliver (pl_incr p) (m_pend st1) with
    | None => None
    | Some pd2 =>
      match complete (pl_completed p) pd2 with
      | None => None
      | Some pd3 =>
        if nesting_ok parents (m_streams st1) (pl_pending p) pd3
        then Some (mkM (m_used st1) pd3 (m_streams st1)) else None
      end
    end
  end.

(* a payload stream: hasNext true on every payload but the last; after the last payload nothing
   is pending.  [vrun] returns the monitor state and whether the stream was closed. *)
Fixpoint vrun (parents : list (N * N)) (st : mstate) (ps : list payload) : option (mstate * bool) :=
  match ps with
  | [] => Some (st, false)
  | p :: rest =>
    match mstep parents st p with
    | None => None
    | Some st' =>
      if pl_has_next p then vrun parents st' rest
      else match rest, m_pend st' with
           | [], [] => Some (st', true)
           | _, _ => None
           end
    end
  end.

(* a complete response *)
Definition valid (parents : list (N * N)) (ps : list payload) : bool :=
  match vrun parents m_init ps with
  | Some (_, closed) => closed
  | None => false
  end.

(* a response that may still be going on *)
Definition valid_prefix (parents : list (N * N)) (ps : list payload) : bool :=
  match vrun parents m_init ps with
  | Some _ => true
  | None => false
  end.
