(* The error clause of C04 for the @defer execution model Incr/DeferExec.v: for ANY request the data
   reassembled from the incremental run is the non-propagating reference with subtrees replaced by null -
   each explained by a reported error at or below - and keys withheld - each belonging to an execution
   group that failed or was not applied. *)
From GV Require Import Base.Prelude Exec.Value Exec.Schema Exec.Spec Exec.SpecProps Incr.DeferExec Incr.DeferExecProps.
From GV Require Incr.Plan Incr.PlanProps Incr.Merge.
From Coq Require Import Permutation.

(* ================================================================== the error clause *)

Fixpoint expl_mono Pe Pw m n (H : expl Pe Pw m n) {struct H} :
  forall (Pe' : path -> Prop) (Pw' : path -> str -> Prop),
    (forall q, Pe q -> Pe' q) -> (forall q k, Pw q k -> Pw' q k) -> expl Pe' Pw' m n.
Proof.
  intros Pe' Pw' He Hw. destruct H as [Pe Pw n Hn| | | | |Pe Pw a b Hl Hi|Pe Pw a b Ha Hb]; try constructor.
  - destruct Hn as [Hn|[q Hq]]; [left; exact Hn|right; exists q; apply He; exact Hq].
  - exact Hl.
  - intros i x y Hx Hy. apply (expl_mono _ _ _ _ (Hi i x y Hx Hy)); intros; [apply He|apply Hw]; assumption.
  - intros k v Hin. destruct (Ha k v Hin) as [w [Hw1 Hw2]]. exists w. split; [exact Hw1|].
    apply (expl_mono _ _ _ _ Hw2); intros; [apply He|apply Hw]; assumption.
  - intros k w Hin. destruct (Hb k w Hin) as [H1|H1]; [left; exact H1|right; apply Hw; exact H1].
Qed.

Lemma expl_null_r Pe Pw m : expl Pe Pw m JNull -> m = JNull.
Proof. intro H. inversion H; reflexivity. Qed.

Lemma expl_leaf Pe Pw td l j : complete_leaf td l = Some j -> expl Pe Pw j j.
Proof.
  destruct td as [[| | | |]|vals| | | |], l; cbn; try discriminate; intro H.
  - destruct (in_int_range z); inversion H; constructor.
  - inversion H; constructor.
  - inversion H; constructor.
  - inversion H; constructor.
  - inversion H; constructor.
  - destruct (mem s vals); inversion H; constructor.
Qed.

Lemma SubPerm_nil {A} (cs : list A) : SubPerm [] cs.
Proof. exists cs. apply Permutation_refl. Qed.

Lemma SubPerm_nil_r {A} (cs' : list A) : SubPerm cs' [] -> cs' = [].
Proof.
  intros [rest H]. apply Permutation_sym, Permutation_nil in H. destruct cs'; [reflexivity|discriminate].
Qed.

Lemma SubPerm_in {A} (cs' cs : list A) x : SubPerm cs' cs -> In x cs' -> In x cs.
Proof. intros [rest H] Hin. eapply Permutation_in; [exact H|]. apply in_or_app. left. exact Hin. Qed.

Lemma SubPerm_flat_map {A B} (f : A -> list B) cs' cs : SubPerm cs' cs -> SubPerm (flat_map f cs') (flat_map f cs).
Proof.
  intros [rest H]. exists (flat_map f rest). rewrite <- flat_map_app. apply Permutation_flat_map. exact H.
Qed.

Lemma SubPerm_NoDup {A B} (f : A -> B) (cs' cs : list A) pre :
  SubPerm cs' cs -> NoDup (pre ++ map f cs) -> NoDup (pre ++ map f cs').
Proof.
  intros [rest H] Hn.
  assert (H1 : NoDup (pre ++ map f (cs' ++ rest))).
  { eapply Permutation_NoDup; [|exact Hn]. apply Permutation_app_head. apply Permutation_map.
    apply Permutation_sym. exact H. }
  rewrite map_app, app_assoc in H1. eapply NoDup_app_l. exact H1.
Qed.

(* ---- objects and lists against arbitrary payload sequences, failed (data-less) entries included ---- *)

Lemma capply_none j p : capply j (p, None) = Some j.
Proof. reflexivity. Qed.

Lemma obj_sim2 cs : forall kvs r,
  NoDup (map fst kvs ++ map fst (cheads cs)) ->
  capplys (JObj kvs) cs = Some r ->
  exists kvs_r, r = JObj kvs_r /\
    map fst kvs_r = map fst kvs ++ map fst (cheads cs) /\
    (forall k v0, In (k, v0) kvs -> exists v, In (k, v) kvs_r /\ capplys v0 (cproj_key k cs) = Some v) /\
    (forall k v0, In (k, v0) (cheads cs) -> exists v, In (k, v) kvs_r /\ capplys v0 (cproj_key k cs) = Some v).
Proof.
  induction cs as [|c rest IH]; intros kvs r Hnd H.
  - cbn in H. inversion H; subst. exists kvs. cbn [cheads flat_map map]. rewrite app_nil_r.
    split; [reflexivity|]. split; [reflexivity|]. split.
    + intros k v0 Hin. exists v0. split; [exact Hin|reflexivity].
    + intros k v0 [].
  - destruct c as [p [dkvs|]].
    2:{ (* a failed execution group: nothing to merge *)
      cbn [capplys] in H. rewrite capply_none in H.
      assert (Hnd' : NoDup (map fst kvs ++ map fst (cheads rest))) by (destruct p; exact Hnd).
      destruct (IH kvs r Hnd' H) as [kvs_r [-> [Hk [H3 H4]]]].
      exists kvs_r. split; [reflexivity|]. split; [destruct p; exact Hk|].
      assert (Hp : forall k v0, capplys v0 (cproj_key k ((p, None) :: rest)) = capplys v0 (cproj_key k rest)).
      { intros k v0. cbn [cproj_key flat_map fst snd]. fold (cproj_key k rest).
        destruct p as [|[k'|i'] q]; try reflexivity. destruct (str_eqb k k'); reflexivity. }
      split; intros k v0 Hin; rewrite Hp; [apply H3; exact Hin|apply H4; destruct p; exact Hin]. }
    cbn [capplys] in H.
    destruct p as [|[k'|i'] q].
    + (* a head: its keys are appended *)
      unfold capply in H. cbn [fst snd Merge.update_at] in H.
      cbn [cheads flat_map chd fst snd] in Hnd. fold (cheads rest) in Hnd. rewrite map_app in Hnd.
      rewrite merge_into_fresh in H.
      2:{ apply NoDup_app_r in Hnd. apply NoDup_app_l in Hnd. exact Hnd. }
      2:{ intros k Hk Hin. eapply NoDup_app_disj; [exact Hnd|exact Hin|]. apply in_or_app. left. exact Hk. }
      destruct (IH (kvs ++ dkvs) r) as [kvs_r [-> [Hk [H3 H4]]]]; [|exact H|].
      { rewrite map_app, <- app_assoc. exact Hnd. }
      exists kvs_r. split; [reflexivity|]. split.
      { cbn [cheads flat_map chd fst snd]. fold (cheads rest). rewrite Hk, !map_app, app_assoc. reflexivity. }
      split.
      * intros k v0 Hin. apply (H3 k v0). apply in_or_app. left. exact Hin.
      * intros k v0 Hin. cbn [cheads flat_map chd fst snd] in Hin. fold (cheads rest) in Hin.
        cbn [cproj_key flat_map fst]. fold (cproj_key k rest).
        apply in_app_or in Hin as [Hin|Hin]; [apply (H3 k v0); apply in_or_app; right; exact Hin|apply H4; exact Hin].
    + (* below a key *)
      cbn [cheads flat_map chd fst snd app] in Hnd. fold (cheads rest) in Hnd.
      destruct (mem k' (map fst kvs)) eqn:Em.
      2:{ exfalso. apply mem_not_In in Em. unfold capply in H. cbn [fst snd Merge.update_at] in H.
          rewrite upd_key_none in H by exact Em. discriminate. }
      apply mem_In in Em. destruct (in_split_first k' kvs Em) as [a0 [v0' [b0 [-> Hna]]]].
      rewrite capply_key in H by exact Hna.
      destruct (capply v0' (q, Some dkvs)) as [v1|] eqn:E1; [|discriminate].
      assert (Hkeys : map fst (a0 ++ (k', v1) :: b0) = map fst (a0 ++ (k', v0') :: b0)).
      { rewrite !map_app. reflexivity. }
      destruct (IH (a0 ++ (k', v1) :: b0) r) as [kvs_r [-> [Hk [H3 H4]]]]; [|exact H|].
      { rewrite Hkeys. exact Hnd. }
      exists kvs_r. split; [reflexivity|]. split.
      { cbn [cheads flat_map chd fst snd app]. fold (cheads rest). rewrite Hk, Hkeys. reflexivity. }
      assert (Hnk : NoDup (map fst (a0 ++ (k', v0') :: b0))) by (eapply NoDup_app_l; exact Hnd).
      split.
      * intros k v0 Hin. cbn [cproj_key flat_map fst snd]. fold (cproj_key k rest).
        destruct (str_eqb k k') eqn:Ek.
        -- apply str_eqb_eq in Ek. subst k'.
           assert (v0 = v0').
           { eapply nodup_keys_in; [exact Hnk|exact Hin|]. apply in_or_app. right. left. reflexivity. }
           subst v0'.
           destruct (H3 k v1) as [v [Hv Ha]]; [apply in_or_app; right; left; reflexivity|].
           exists v. split; [exact Hv|]. cbn [app capplys]. rewrite E1. exact Ha.
        -- destruct (H3 k v0) as [v [Hv Ha]].
           { apply in_app_or in Hin as [Hin|[Hin|Hin]]; apply in_or_app; [left; exact Hin| |right; right; exact Hin].
             inversion Hin; subst. rewrite str_eqb_refl in Ek. discriminate. }
           exists v. split; [exact Hv|exact Ha].
      * intros k v0 Hin. cbn [cheads flat_map chd fst snd app] in Hin. fold (cheads rest) in Hin.
        destruct (H4 k v0 Hin) as [v [Hv Ha]]. exists v. split; [exact Hv|].
        cbn [cproj_key flat_map fst snd]. fold (cproj_key k rest).
        destruct (str_eqb k k') eqn:Ek; [|exact Ha]. exfalso.
        apply str_eqb_eq in Ek. subst k'.
        eapply NoDup_app_disj; [exact Hnd|exact Em|].
        apply in_map_iff. exists (k, v0). split; [reflexivity|exact Hin].
    + unfold capply in H. cbn in H. discriminate.
Qed.

Lemma list_sim2 cs : forall js r,
  capplys (JList js) cs = Some r ->
  exists js_r, r = JList js_r /\ length js_r = length js /\
    forall i v0, nth_error js i = Some v0 ->
      exists v, nth_error js_r i = Some v /\ capplys v0 (cproj_idx i cs) = Some v.
Proof.
  induction cs as [|c rest IH]; intros js r H.
  - cbn in H. inversion H; subst. exists js. split; [reflexivity|]. split; [reflexivity|].
    intros i v0 Hn. exists v0. split; [exact Hn|reflexivity].
  - destruct c as [p [dkvs|]].
    2:{ cbn [capplys] in H. rewrite capply_none in H. destruct (IH js r H) as [js_r [-> [Hl H3]]].
        exists js_r. split; [reflexivity|]. split; [exact Hl|]. intros i v0 Hn.
        destruct (H3 i v0 Hn) as [v [Hv Ha]]. exists v. split; [exact Hv|].
        cbn [cproj_idx flat_map fst snd]. fold (cproj_idx i rest).
        destruct p as [|[k'|i'] q]; try exact Ha. destruct (Nat.eqb i i'); exact Ha. }
    cbn [capplys] in H. destruct p as [|[k'|i'] q].
    + unfold capply in H. cbn in H. discriminate.
    + unfold capply in H. cbn in H. discriminate.
    + destruct (nth_error js i') as [v0'|] eqn:En.
      2:{ exfalso. unfold capply in H. cbn [fst snd Merge.update_at] in H.
          rewrite set_nth_none in H by exact En. discriminate. }
      destruct (nth_error_split js i' En) as [a0 [b0 [-> Hl]]]. subst i'.
      rewrite capply_idx in H.
      destruct (capply v0' (q, Some dkvs)) as [v1|] eqn:E1; [|discriminate].
      destruct (IH (a0 ++ v1 :: b0) r H) as [js_r [-> [Hlen H3]]].
      exists js_r. split; [reflexivity|]. split.
      { rewrite Hlen, !app_length. reflexivity. }
      intros i v0 Hn. cbn [cproj_idx flat_map fst snd]. fold (cproj_idx i rest).
      destruct (Nat.eqb i (length a0)) eqn:Ei.
      * apply Nat.eqb_eq in Ei. subst i.
        rewrite nth_error_app2 in Hn by apply Nat.le_refl. rewrite Nat.sub_diag in Hn. cbn in Hn.
        inversion Hn; subst v0'.
        destruct (H3 (length a0) v1) as [v [Hv Ha]].
        { rewrite nth_error_app2 by apply Nat.le_refl. rewrite Nat.sub_diag. reflexivity. }
        exists v. split; [exact Hv|]. cbn [app capplys]. rewrite E1. exact Ha.
      * apply Nat.eqb_neq in Ei. destruct (H3 i v0) as [v [Hv Ha]]; [|exists v; split; assumption].
        destruct (Nat.lt_ge_cases i (length a0)) as [Hlt|Hge].
        -- rewrite nth_error_app1 in * by exact Hlt. exact Hn.
        -- rewrite nth_error_app2 in * by exact Hge.
           destruct (i - length a0)%nat as [|m] eqn:Em; [lia|]. cbn in *. exact Hn.
Qed.

Lemma in_cproj_key k q d cs : In (q, d) (cproj_key k cs) <-> In (PKey k :: q, d) cs.
Proof.
  unfold cproj_key. rewrite in_flat_map. split.
  - intros [[p d0] [Hin Hx]]. cbn [fst snd] in Hx. destruct p as [|[k'|i'] q']; try destruct Hx.
    destruct (str_eqb k k') eqn:E; [|destruct Hx]. apply str_eqb_eq in E. subst k'.
    destruct Hx as [Hx|[]]. inversion Hx; subst. exact Hin.
  - intro Hin. exists (PKey k :: q, d). split; [exact Hin|]. cbn [fst snd]. rewrite str_eqb_refl. left. reflexivity.
Qed.

Lemma in_cproj_idx i q d cs : In (q, d) (cproj_idx i cs) <-> In (PIdx i :: q, d) cs.
Proof.
  unfold cproj_idx. rewrite in_flat_map. split.
  - intros [[p d0] [Hin Hx]]. cbn [fst snd] in Hx. destruct p as [|[k'|i'] q']; try destruct Hx.
    destruct (Nat.eqb i i') eqn:E; [|destruct Hx]. apply Nat.eqb_eq in E. subst i'.
    destruct Hx as [Hx|[]]. inversion Hx; subst. exact Hin.
  - intro Hin. exists (PIdx i :: q, d). split; [exact Hin|]. cbn [fst snd]. rewrite Nat.eqb_refl. left. reflexivity.
Qed.

(* ---- one object position, errors allowed ---- *)
Definition ent4 : Type := (str * json * list err * list payload)%type.
Definition e4_key (e : ent4) : str := fst (fst (fst e)).
Definition e4_val (e : ent4) : json := snd (fst (fst e)).
Definition e4_errs (e : ent4) : list err := snd (fst e).
Definition e4_pls (e : ent4) : list payload := snd e.
Definition kvs4 (E : list ent4) : list (str * json) := map (fun e => (e4_key e, e4_val e)) E.
Definition lift4 (E : list ent4) : list payload := flat_map (fun e => pre_pls (PKey (e4_key e)) (e4_pls e)) E.
Definition errs4 (E : list ent4) : list err := flat_map (fun e => pre_errs (PKey (e4_key e)) (e4_errs e)) E.

(* an execution group of the position: its value, and the executed fields when it did not fail *)
Definition gr4 : Type := (payload * option (list ent4))%type.
Definition gpls (g : gr4) : list payload :=
  fst g :: match snd g with Some E => map nest_pl (lift4 E) | None => [] end.
Definition canon4 (E0 : list ent4) (GL : list gr4) : list payload := lift4 E0 ++ flat_map gpls GL.

Definition wfg (g : gr4) : Prop :=
  pl_path (fst g) = [] /\
  match snd g with
  | Some E => pl_data (fst g) = Some (kvs4 E) /\ pl_errs (fst g) = errs4 E /\
              subl (map e4_key E) (pl_keys (fst g))
  | None => pl_data (fst g) = None
  end.

Definition sel4 (k : str) (e : ent4) : list cpl := if str_eqb k (e4_key e) then map core (e4_pls e) else [].
Definition proj4 (k : str) (g : gr4) : list cpl :=
  match snd g with Some E => flat_map (sel4 k) E | None => [] end.

Lemma kvs4_keys E : map fst (kvs4 E) = map e4_key E.
Proof. unfold kvs4. rewrite map_map. reflexivity. Qed.

Lemma cproj_key_lift4 k E : cproj_key k (map core (lift4 E)) = flat_map (sel4 k) E.
Proof.
  unfold lift4. induction E as [|e r IH]; cbn [flat_map map]; [reflexivity|].
  rewrite map_app, cproj_key_app, IH, core_pre, cproj_key_pre. reflexivity.
Qed.

Lemma cproj_key_gpls k g : pl_path (fst g) = [] -> cproj_key k (map core (gpls g)) = proj4 k g.
Proof.
  intro Hp. unfold gpls, proj4. cbn [map]. unfold core at 1. rewrite Hp. rewrite cproj_key_cons_head.
  destruct (snd g) as [E|]; [|reflexivity]. rewrite core_nest. apply cproj_key_lift4.
Qed.

Lemma cproj_key_canon4 k E0 GL : Forall wfg GL ->
  cproj_key k (map core (canon4 E0 GL)) = flat_map (sel4 k) E0 ++ flat_map (proj4 k) GL.
Proof.
  intro Hw. unfold canon4. rewrite map_app, cproj_key_app, cproj_key_lift4. f_equal.
  induction Hw as [|g r [Hp _] _ IH]; cbn [flat_map]; [reflexivity|].
  rewrite map_app, cproj_key_app, IH, cproj_key_gpls by exact Hp. reflexivity.
Qed.

Lemma sel4_none k E : ~ In k (map e4_key E) -> flat_map (sel4 k) E = [].
Proof.
  induction E as [|e r IH]; cbn [flat_map map]; [reflexivity|]. intro H.
  unfold sel4 at 1. destruct (str_eqb k (e4_key e)) eqn:Ek.
  - apply str_eqb_eq in Ek. exfalso. apply H. left. symmetry. exact Ek.
  - apply IH. intro Hx. apply H. right. exact Hx.
Qed.

Lemma sel4_unique e E : NoDup (map e4_key E) -> In e E -> flat_map (sel4 (e4_key e)) E = map core (e4_pls e).
Proof.
  induction E as [|x r IH]; cbn [flat_map map]; [intros _ []|]. intros Hn [->|Hin]; inversion Hn; subst.
  - unfold sel4 at 1. rewrite str_eqb_refl. rewrite sel4_none by assumption. apply app_nil_r.
  - unfold sel4 at 1. destruct (str_eqb (e4_key e) (e4_key x)) eqn:Ek.
    + apply str_eqb_eq in Ek. exfalso. apply H1. rewrite <- Ek. apply in_map. exact Hin.
    + apply IH; assumption.
Qed.

Lemma proj4_none k g : wfg g -> ~ In k (pl_keys (fst g)) -> proj4 k g = [].
Proof.
  intros [_ Hw] Hn. unfold proj4. destruct (snd g) as [E|]; [|reflexivity].
  destruct Hw as [_ [_ Hs]]. apply sel4_none. intro Hx. apply Hn. eapply subl_In; eauto.
Qed.

Lemma proj4_all_none k GL : Forall wfg GL -> ~ In k (flat_map (fun g : gr4 => pl_keys (fst g)) GL) ->
  flat_map (proj4 k) GL = [].
Proof.
  induction 1 as [|g r Hg HF IH]; cbn [flat_map]; [reflexivity|]. intro Hn.
  rewrite proj4_none, IH; [reflexivity| |exact Hg|]; intro Hx; apply Hn; apply in_or_app; [right|left]; exact Hx.
Qed.

Lemma proj4_unique GL g E e : Forall wfg GL -> NoDup (flat_map (fun g : gr4 => pl_keys (fst g)) GL) ->
  In g GL -> snd g = Some E -> In e E ->
  flat_map (proj4 (e4_key e)) GL = map core (e4_pls e).
Proof.
  intros Hw. induction Hw as [|g0 r Hg0 HF IH]; intros Hn Hin HE He; [destruct Hin|].
  cbn [flat_map] in *.
  assert (Hkg : In (e4_key e) (pl_keys (fst g))).
  { destruct Hin as [<-|Hin'].
    - destruct Hg0 as [_ Hw0]. rewrite HE in Hw0. destruct Hw0 as [_ [_ Hs]].
      eapply subl_In; [exact Hs|]. apply in_map. exact He.
    - rewrite Forall_forall in HF. destruct (HF g Hin') as [_ Hw0]. rewrite HE in Hw0.
      destruct Hw0 as [_ [_ Hs]]. eapply subl_In; [exact Hs|]. apply in_map. exact He. }
  destruct Hin as [<-|Hin'].
  - rewrite (proj4_all_none _ r HF).
    + rewrite app_nil_r. unfold proj4. rewrite HE. apply sel4_unique; [|exact He].
      destruct Hg0 as [_ Hw0]. rewrite HE in Hw0. destruct Hw0 as [_ [_ Hs]].
      eapply subl_NoDup; [exact Hs|]. eapply NoDup_app_l. exact Hn.
    + intro Hx. eapply NoDup_app_disj; [exact Hn|exact Hkg|exact Hx].
  - rewrite (proj4_none _ g0 Hg0).
    + cbn [app]. apply IH; try assumption. eapply NoDup_app_r. exact Hn.
    + intro Hx. eapply NoDup_app_disj; [exact Hn|exact Hx|].
      apply in_flat_map. exists g. split; assumption.
Qed.

Lemma cheads_lift4 E : cheads (map core (lift4 E)) = [].
Proof.
  unfold lift4. induction E as [|e r IH]; cbn [flat_map map]; [reflexivity|].
  rewrite map_app, cheads_app, core_pre, cheads_pre, IH. reflexivity.
Qed.

Definition hkvs (g : gr4) : list (str * json) := match snd g with Some E => kvs4 E | None => [] end.

Lemma cheads_canon4 E0 GL : Forall wfg GL -> cheads (map core (canon4 E0 GL)) = flat_map hkvs GL.
Proof.
  intro Hw. unfold canon4. rewrite map_app, cheads_app, cheads_lift4. cbn [app].
  induction Hw as [|g r [Hp Hd] _ IH]; cbn [flat_map]; [reflexivity|].
  rewrite map_app, cheads_app, IH. f_equal. unfold gpls, hkvs. cbn [map]. rewrite cheads_cons.
  unfold core at 1, chd. cbn [fst snd]. rewrite Hp.
  destruct (snd g) as [E|].
  - destruct Hd as [Hd _]. rewrite Hd, core_nest, cheads_lift4. apply app_nil_r.
  - rewrite Hd. reflexivity.
Qed.

Lemma hkvs_keys_subl GL : Forall wfg GL ->
  subl (map fst (flat_map hkvs GL)) (flat_map (fun g : gr4 => pl_keys (fst g)) GL).
Proof.
  induction 1 as [|g r [_ Hd] _ IH]; cbn [flat_map map]; [apply subl_nil|].
  rewrite map_app. apply subl_app; [|exact IH]. unfold hkvs.
  destruct (snd g) as [E|]; [|apply subl_nil_l]. destruct Hd as [_ [_ Hs]]. rewrite kvs4_keys. exact Hs.
Qed.

Lemma core_pre_pl seg p : core (pre_pl seg p) = cpre seg (core p).
Proof. reflexivity. Qed.

Lemma in_lift4 E e p : In e E -> In p (e4_pls e) -> In (pre_pl (PKey (e4_key e)) p) (lift4 E).
Proof.
  intros He Hp. unfold lift4. apply in_flat_map. exists e. split; [exact He|].
  unfold pre_pls. apply in_map. exact Hp.
Qed.

Lemma in_errs4 E e x : In e E -> In x (e4_errs e) -> In (PKey (e4_key e) :: fst x) (map fst (errs4 E)).
Proof.
  intros He Hx. apply in_map_iff. exists (PKey (e4_key e) :: fst x, snd x). split; [reflexivity|].
  unfold errs4. apply in_flat_map. exists e. split; [exact He|].
  unfold pre_errs. apply in_map_iff. exists x. split; [reflexivity|exact Hx].
Qed.

(* errors / withheld keys of one field seen from the object *)
Lemma lift0_PErr E0 GL cs' e q : In e E0 ->
  PErr (e4_errs e) (e4_pls e) (cproj_key (e4_key e) cs') q ->
  PErr (errs4 E0) (canon4 E0 GL) cs' (PKey (e4_key e) :: q).
Proof.
  intros He [Hq|[p [x [Hp [Hc [Hxe ->]]]]]].
  - left. apply in_map_iff in Hq as [x [<- Hxin]]. apply in_errs4; assumption.
  - right. exists (pre_pl (PKey (e4_key e)) p), x. split.
    { unfold canon4. apply in_or_app. left. apply in_lift4; assumption. }
    split; [|split; [exact Hxe|reflexivity]].
    rewrite core_pre_pl. destruct (core p) as [pp dd] eqn:Ecp. apply in_cproj_key in Hc. exact Hc.
Qed.

Lemma lift0_PWh E0 GL cs' e q k' : In e E0 ->
  PWh (e4_pls e) (cproj_key (e4_key e) cs') q k' ->
  PWh (canon4 E0 GL) cs' (PKey (e4_key e) :: q) k'.
Proof.
  intros He [p [Hp [Hpath [Hkk Hd]]]]. exists (pre_pl (PKey (e4_key e)) p).
  split; [unfold canon4; apply in_or_app; left; apply in_lift4; assumption|].
  split; [cbn; rewrite Hpath; reflexivity|]. split; [exact Hkk|].
  destruct Hd as [Hd|Hd]; [left; exact Hd|right]. intro Hc. apply Hd.
  rewrite core_pre_pl in Hc. destruct (core p) as [pp dd] eqn:Ecp. apply in_cproj_key. exact Hc.
Qed.

Lemma liftg_in E0 GL g E e p : In g GL -> snd g = Some E -> In e E -> In p (e4_pls e) ->
  In (nest_pl (pre_pl (PKey (e4_key e)) p)) (canon4 E0 GL).
Proof.
  intros Hg HE He Hp. unfold canon4. apply in_or_app. right. apply in_flat_map. exists g. split; [exact Hg|].
  unfold gpls. rewrite HE. right. apply in_map. apply in_lift4; assumption.
Qed.

Lemma liftg_PErr E0 GL cs' g E e q : Forall wfg GL -> In g GL -> snd g = Some E -> In e E ->
  In (core (fst g)) cs' ->
  PErr (e4_errs e) (e4_pls e) (cproj_key (e4_key e) cs') q ->
  PErr (errs4 E0) (canon4 E0 GL) cs' (PKey (e4_key e) :: q).
Proof.
  intros Hw Hg HE He Hcg Hx. rewrite Forall_forall in Hw. destruct (Hw g Hg) as [Hpath Hwg].
  rewrite HE in Hwg. destruct Hwg as [Hd [Hes Hs]].
  destruct Hx as [Hq|[p [x [Hp [Hc [Hxe ->]]]]]].
  - right. apply in_map_iff in Hq as [x [<- Hxin]]. exists (fst g), (PKey (e4_key e) :: fst x, snd x).
    split.
    { unfold canon4. apply in_or_app. right. apply in_flat_map. exists g. split; [exact Hg|left; reflexivity]. }
    split; [exact Hcg|]. split.
    + rewrite Hes. unfold errs4. apply in_flat_map. exists e. split; [exact He|].
      unfold pre_errs. apply in_map_iff. exists x. split; [reflexivity|exact Hxin].
    + rewrite Hpath. reflexivity.
  - right. exists (nest_pl (pre_pl (PKey (e4_key e)) p)), x. split; [eapply liftg_in; eassumption|].
    split; [|split; [exact Hxe|reflexivity]].
    change (core (nest_pl (pre_pl (PKey (e4_key e)) p))) with (cpre (PKey (e4_key e)) (core p)).
    destruct (core p) as [pp dd] eqn:Ecp. apply in_cproj_key in Hc. exact Hc.
Qed.

Lemma liftg_PWh E0 GL cs' g E e q k' : In g GL -> snd g = Some E -> In e E ->
  PWh (e4_pls e) (cproj_key (e4_key e) cs') q k' ->
  PWh (canon4 E0 GL) cs' (PKey (e4_key e) :: q) k'.
Proof.
  intros Hg HE He [p [Hp [Hpp [Hkk Hdd]]]]. exists (nest_pl (pre_pl (PKey (e4_key e)) p)).
  split; [eapply liftg_in; eassumption|].
  split; [cbn; rewrite Hpp; reflexivity|]. split; [exact Hkk|].
  destruct Hdd as [Hdd|Hdd]; [left; exact Hdd|right]. intro Hc. apply Hdd.
  change (core (nest_pl (pre_pl (PKey (e4_key e)) p))) with (cpre (PKey (e4_key e)) (core p)) in Hc.
  destruct (core p) as [pp dd] eqn:Ecp. apply in_cproj_key. exact Hc.
Qed.

(* what applying a sub-multiset of the values of one object position gives *)
Lemma level_setup (E0 : list ent4) (GL : list gr4) cs' m' :
  NoDup (map e4_key E0 ++ flat_map (fun g : gr4 => pl_keys (fst g)) GL) ->
  Forall wfg GL ->
  SubPerm cs' (map core (canon4 E0 GL)) -> capplys (JObj (kvs4 E0)) cs' = Some m' ->
  exists kvs_r, m' = JObj kvs_r /\
    map fst kvs_r = map fst (kvs4 E0) ++ map fst (cheads cs') /\ NoDup (map fst kvs_r) /\
    (forall e, In e E0 -> exists v, In (e4_key e, v) kvs_r /\
        capplys (e4_val e) (cproj_key (e4_key e) cs') = Some v /\
        SubPerm (cproj_key (e4_key e) cs') (map core (e4_pls e))) /\
    (forall g E e, In g GL -> snd g = Some E -> In e E -> In (core (fst g)) cs' ->
        exists v, In (e4_key e, v) kvs_r /\
        capplys (e4_val e) (cproj_key (e4_key e) cs') = Some v /\
        SubPerm (cproj_key (e4_key e) cs') (map core (e4_pls e))) /\
    (forall k v0, In (k, v0) (cheads cs') ->
        exists g E e, In g GL /\ snd g = Some E /\ In e E /\ e4_key e = k /\ e4_val e = v0 /\ In (core (fst g)) cs').
Proof.
  intros Hnd Hw Hsp Hap.
  set (C := map core (canon4 E0 GL)) in *.
  assert (Hheads : SubPerm (cheads cs') (flat_map hkvs GL)).
  { rewrite <- (cheads_canon4 E0 GL Hw). apply SubPerm_flat_map. exact Hsp. }
  assert (Hndh : NoDup (map e4_key E0 ++ map fst (flat_map hkvs GL))).
  { eapply subl_NoDup; [|exact Hnd]. apply subl_app; [apply subl_refl|apply hkvs_keys_subl; exact Hw]. }
  destruct (obj_sim2 cs' (kvs4 E0) m') as [kvs_r [-> [Hk [H3 H4]]]]; [|exact Hap|].
  { rewrite kvs4_keys. eapply SubPerm_NoDup; [exact Hheads|exact Hndh]. }
  assert (Hnr : NoDup (map fst kvs_r)).
  { rewrite Hk, kvs4_keys. eapply SubPerm_NoDup; [exact Hheads|exact Hndh]. }
  (* the payloads below one key, as applied *)
  assert (Hproj0 : forall e, In e E0 -> SubPerm (cproj_key (e4_key e) cs') (map core (e4_pls e))).
  { intros e He. pose proof (SubPerm_flat_map _ _ _ Hsp : SubPerm (cproj_key (e4_key e) cs') (cproj_key (e4_key e) C)) as Hx.
    unfold C in Hx. rewrite (cproj_key_canon4 _ _ _ Hw) in Hx.
    rewrite sel4_unique in Hx; [|eapply NoDup_app_l; exact Hnd|exact He].
    rewrite proj4_all_none in Hx; [rewrite app_nil_r in Hx; exact Hx|exact Hw|].
    intro Hin. eapply NoDup_app_disj; [exact Hnd| |exact Hin]. apply in_map. exact He. }
  assert (Hprojg : forall g E e, In g GL -> snd g = Some E -> In e E ->
                     SubPerm (cproj_key (e4_key e) cs') (map core (e4_pls e))).
  { intros g E e Hg HE He.
    pose proof (SubPerm_flat_map _ _ _ Hsp : SubPerm (cproj_key (e4_key e) cs') (cproj_key (e4_key e) C)) as Hx.
    unfold C in Hx. rewrite (cproj_key_canon4 _ _ _ Hw) in Hx.
    rewrite (proj4_unique GL g E e Hw) in Hx; try assumption; [|eapply NoDup_app_r; exact Hnd].
    rewrite sel4_none in Hx; [exact Hx|].
    intro Hin. eapply NoDup_app_disj; [exact Hnd|exact Hin|].
    apply in_flat_map. exists g. split; [exact Hg|].
    rewrite Forall_forall in Hw. destruct (Hw g Hg) as [_ Hwg]. rewrite HE in Hwg. destruct Hwg as [_ [_ Hs]].
    eapply subl_In; [exact Hs|]. apply in_map. exact He. }
  (* keys brought by an applied head *)
  assert (Hhd : forall k v0, In (k, v0) (cheads cs') ->
            exists g E e, In g GL /\ snd g = Some E /\ In e E /\ e4_key e = k /\ e4_val e = v0 /\ In (core (fst g)) cs').
  { intros k v0 Hin. unfold cheads in Hin. apply in_flat_map in Hin as [c [Hc Hin]].
    pose proof (SubPerm_in _ _ _ Hsp Hc) as HcC. unfold C in HcC. apply in_map_iff in HcC as [p [Hcp Hp]].
    unfold canon4 in Hp. apply in_app_or in Hp as [Hp|Hp].
    - (* a payload below an initial field has a non-empty path *)
      exfalso. unfold lift4 in Hp. apply in_flat_map in Hp as [e [_ Hp]]. unfold pre_pls in Hp.
      apply in_map_iff in Hp as [p0 [<- _]]. subst c. cbn in Hin. exact Hin.
    - apply in_flat_map in Hp as [g [Hg Hp]]. unfold gpls in Hp. destruct Hp as [Hp|Hp].
      + subst p. rewrite Forall_forall in Hw. destruct (Hw g Hg) as [Hpath Hwg].
        subst c. unfold chd, core in Hin. cbn [fst snd] in Hin. rewrite Hpath in Hin.
        destruct (snd g) as [E|] eqn:HE.
        * destruct Hwg as [Hd _]. rewrite Hd in Hin. unfold kvs4 in Hin. apply in_map_iff in Hin as [e [Heq He]].
          inversion Heq; subst. exists g, E, e. repeat split; try assumption; try reflexivity.
        * rewrite Hwg in Hin. destruct Hin.
      + exfalso. destruct (snd g) as [E|]; [|destruct Hp]. apply in_map_iff in Hp as [p1 [<- Hp1]].
        unfold lift4 in Hp1. apply in_flat_map in Hp1 as [e [_ Hp1]]. unfold pre_pls in Hp1.
        apply in_map_iff in Hp1 as [p0 [<- _]]. subst c. cbn in Hin. exact Hin. }
  exists kvs_r. split; [reflexivity|]. split; [exact Hk|]. split; [exact Hnr|]. split; [|split; [|exact Hhd]].
  - intros e He. destruct (H3 (e4_key e) (e4_val e)) as [v [Hv Ha]].
    { unfold kvs4. apply in_map_iff. exists e. split; [reflexivity|exact He]. }
    exists v. split; [exact Hv|]. split; [exact Ha|apply Hproj0; exact He].
  - intros g E e Hg HE He Hcg.
    destruct (H4 (e4_key e) (e4_val e)) as [v [Hv Ha]].
    { unfold cheads. apply in_flat_map. exists (core (fst g)). split; [exact Hcg|].
      rewrite Forall_forall in Hw. destruct (Hw g Hg) as [Hpath Hwg]. rewrite HE in Hwg. destruct Hwg as [Hd _].
      unfold chd, core. cbn [fst snd]. rewrite Hpath, Hd. unfold kvs4. apply in_map_iff. exists e.
      split; [reflexivity|exact He]. }
    exists v. split; [exact Hv|]. split; [exact Ha|eapply Hprojg; eassumption].
Qed.

Lemma level_expl (E0 : list ent4) (GL : list gr4) (kvs_n : list (str * json)) :
  NoDup (map e4_key E0 ++ flat_map (fun g : gr4 => pl_keys (fst g)) GL) ->
  Forall wfg GL ->
  (forall e, In e E0 ->
     exists w, In (e4_key e, w) kvs_n /\ ExplAny (e4_val e) (e4_errs e) (e4_pls e) w) ->
  (forall g E e, In g GL -> snd g = Some E -> In e E ->
     exists w, In (e4_key e, w) kvs_n /\ ExplAny (e4_val e) (e4_errs e) (e4_pls e) w) ->
  (forall k w, In (k, w) kvs_n ->
     In k (map e4_key E0) \/
     exists g, In g GL /\ In k (pl_keys (fst g)) /\ (forall E, snd g = Some E -> In k (map e4_key E))) ->
  NoDup (map fst kvs_n) ->
  ExplAny (JObj (kvs4 E0)) (errs4 E0) (canon4 E0 GL) (JObj kvs_n).
Proof.
  intros Hnd Hw He0 Heg Hcov Hnn cs' m' Hsp Hap.
  set (C := map core (canon4 E0 GL)) in *.
  assert (Hheads : SubPerm (cheads cs') (flat_map hkvs GL)).
  { rewrite <- (cheads_canon4 E0 GL Hw). apply SubPerm_flat_map. exact Hsp. }
  assert (Hndh : NoDup (map e4_key E0 ++ map fst (flat_map hkvs GL))).
  { eapply subl_NoDup; [|exact Hnd]. apply subl_app; [apply subl_refl|apply hkvs_keys_subl; exact Hw]. }
  destruct (obj_sim2 cs' (kvs4 E0) m') as [kvs_r [-> [Hk [H3 H4]]]]; [|exact Hap|].
  { rewrite kvs4_keys. eapply SubPerm_NoDup; [exact Hheads|exact Hndh]. }
  assert (Hnr : NoDup (map fst kvs_r)).
  { rewrite Hk, kvs4_keys. eapply SubPerm_NoDup; [exact Hheads|exact Hndh]. }
  (* the payloads below one key, as applied *)
  assert (Hproj0 : forall e, In e E0 -> SubPerm (cproj_key (e4_key e) cs') (map core (e4_pls e))).
  { intros e He. pose proof (SubPerm_flat_map _ _ _ Hsp : SubPerm (cproj_key (e4_key e) cs') (cproj_key (e4_key e) C)) as Hx.
    unfold C in Hx. rewrite (cproj_key_canon4 _ _ _ Hw) in Hx.
    rewrite sel4_unique in Hx; [|eapply NoDup_app_l; exact Hnd|exact He].
    rewrite proj4_all_none in Hx; [rewrite app_nil_r in Hx; exact Hx|exact Hw|].
    intro Hin. eapply NoDup_app_disj; [exact Hnd| |exact Hin]. apply in_map. exact He. }
  assert (Hprojg : forall g E e, In g GL -> snd g = Some E -> In e E ->
                     SubPerm (cproj_key (e4_key e) cs') (map core (e4_pls e))).
  { intros g E e Hg HE He.
    pose proof (SubPerm_flat_map _ _ _ Hsp : SubPerm (cproj_key (e4_key e) cs') (cproj_key (e4_key e) C)) as Hx.
    unfold C in Hx. rewrite (cproj_key_canon4 _ _ _ Hw) in Hx.
    rewrite (proj4_unique GL g E e Hw) in Hx; try assumption; [|eapply NoDup_app_r; exact Hnd].
    rewrite sel4_none in Hx; [exact Hx|].
    intro Hin. eapply NoDup_app_disj; [exact Hnd|exact Hin|].
    apply in_flat_map. exists g. split; [exact Hg|].
    rewrite Forall_forall in Hw. destruct (Hw g Hg) as [_ Hwg]. rewrite HE in Hwg. destruct Hwg as [_ [_ Hs]].
    eapply subl_In; [exact Hs|]. apply in_map. exact He. }
  (* lifting the explanations of one field to the object *)
  assert (Hlift0 : forall e v w, In e E0 ->
            expl (PErr (e4_errs e) (e4_pls e) (cproj_key (e4_key e) cs'))
                 (PWh (e4_pls e) (cproj_key (e4_key e) cs')) v w ->
            expl (fun q => PErr (errs4 E0) (canon4 E0 GL) cs' (PKey (e4_key e) :: q))
                 (fun q k' => PWh (canon4 E0 GL) cs' (PKey (e4_key e) :: q) k') v w).
  { intros e v w He Hx. eapply expl_mono; [exact Hx| |].
    - intros q [Hq|[p [x [Hp [Hc [Hxe ->]]]]]].
      + left. apply in_map_iff in Hq as [x [<- Hxin]]. apply in_errs4; assumption.
      + right. exists (pre_pl (PKey (e4_key e)) p), x. split.
        { unfold canon4. apply in_or_app. left. apply in_lift4; assumption. }
        split; [|split; [exact Hxe|reflexivity]].
        rewrite core_pre_pl. destruct (core p) as [pp dd] eqn:Ecp. apply in_cproj_key in Hc. exact Hc.
    - intros q k' [p [Hp [Hpath [Hkk Hd]]]]. exists (pre_pl (PKey (e4_key e)) p).
      split; [unfold canon4; apply in_or_app; left; apply in_lift4; assumption|].
      split; [cbn; rewrite Hpath; reflexivity|]. split; [exact Hkk|].
      destruct Hd as [Hd|Hd]; [left; exact Hd|right]. intro Hc. apply Hd.
      rewrite core_pre_pl in Hc. destruct (core p) as [pp dd] eqn:Ecp. apply in_cproj_key. exact Hc. }
  assert (Hliftg : forall g E e v w, In g GL -> snd g = Some E -> In e E -> In (core (fst g)) cs' ->
            expl (PErr (e4_errs e) (e4_pls e) (cproj_key (e4_key e) cs'))
                 (PWh (e4_pls e) (cproj_key (e4_key e) cs')) v w ->
            expl (fun q => PErr (errs4 E0) (canon4 E0 GL) cs' (PKey (e4_key e) :: q))
                 (fun q k' => PWh (canon4 E0 GL) cs' (PKey (e4_key e) :: q) k') v w).
  { intros g E e v w Hg HE He Hcg Hx.
    assert (Hgin : forall p, In p (gpls g) -> In p (canon4 E0 GL)).
    { intros p Hp. unfold canon4. apply in_or_app. right. apply in_flat_map. exists g. split; assumption. }
    rewrite Forall_forall in Hw. destruct (Hw g Hg) as [Hpath Hwg]. rewrite HE in Hwg. destruct Hwg as [Hd [Hes Hs]].
    assert (Hnest : forall p, In p (e4_pls e) -> In (nest_pl (pre_pl (PKey (e4_key e)) p)) (canon4 E0 GL)).
    { intros p Hp. apply Hgin. unfold gpls. rewrite HE. right. apply in_map. apply in_lift4; assumption. }
    eapply expl_mono; [exact Hx| |].
    - intros q [Hq|[p [x [Hp [Hc [Hxe ->]]]]]].
      + right. apply in_map_iff in Hq as [x [<- Hxin]]. exists (fst g), (PKey (e4_key e) :: fst x, snd x).
        split; [apply Hgin; left; reflexivity|]. split; [exact Hcg|]. split.
        * rewrite Hes. unfold errs4. apply in_flat_map. exists e. split; [exact He|].
          unfold pre_errs. apply in_map_iff. exists x. split; [reflexivity|exact Hxin].
        * rewrite Hpath. reflexivity.
      + right. exists (nest_pl (pre_pl (PKey (e4_key e)) p)), x. split; [apply Hnest; exact Hp|].
        split; [|split; [exact Hxe|reflexivity]].
        change (core (nest_pl (pre_pl (PKey (e4_key e)) p))) with (cpre (PKey (e4_key e)) (core p)).
        destruct (core p) as [pp dd] eqn:Ecp. apply in_cproj_key in Hc. exact Hc.
    - intros q k' [p [Hp [Hpp [Hkk Hdd]]]]. exists (nest_pl (pre_pl (PKey (e4_key e)) p)).
      split; [apply Hnest; exact Hp|].
      split; [cbn; rewrite Hpp; reflexivity|]. split; [exact Hkk|].
      destruct Hdd as [Hdd|Hdd]; [left; exact Hdd|right]. intro Hc. apply Hdd.
      change (core (nest_pl (pre_pl (PKey (e4_key e)) p))) with (cpre (PKey (e4_key e)) (core p)) in Hc.
      destruct (core p) as [pp dd] eqn:Ecp. apply in_cproj_key. exact Hc. }
  (* keys brought by an applied head *)
  assert (Hhd : forall k v0, In (k, v0) (cheads cs') ->
            exists g E e, In g GL /\ snd g = Some E /\ In e E /\ e4_key e = k /\ e4_val e = v0 /\ In (core (fst g)) cs').
  { intros k v0 Hin. unfold cheads in Hin. apply in_flat_map in Hin as [c [Hc Hin]].
    pose proof (SubPerm_in _ _ _ Hsp Hc) as HcC. unfold C in HcC. apply in_map_iff in HcC as [p [Hcp Hp]].
    unfold canon4 in Hp. apply in_app_or in Hp as [Hp|Hp].
    - (* a payload below an initial field has a non-empty path *)
      exfalso. unfold lift4 in Hp. apply in_flat_map in Hp as [e [_ Hp]]. unfold pre_pls in Hp.
      apply in_map_iff in Hp as [p0 [<- _]]. subst c. cbn in Hin. exact Hin.
    - apply in_flat_map in Hp as [g [Hg Hp]]. unfold gpls in Hp. destruct Hp as [Hp|Hp].
      + subst p. rewrite Forall_forall in Hw. destruct (Hw g Hg) as [Hpath Hwg].
        subst c. unfold chd, core in Hin. cbn [fst snd] in Hin. rewrite Hpath in Hin.
        destruct (snd g) as [E|] eqn:HE.
        * destruct Hwg as [Hd _]. rewrite Hd in Hin. unfold kvs4 in Hin. apply in_map_iff in Hin as [e [Heq He]].
          inversion Heq; subst. exists g, E, e. repeat split; try assumption; try reflexivity.
        * rewrite Hwg in Hin. destruct Hin.
      + exfalso. destruct (snd g) as [E|]; [|destruct Hp]. apply in_map_iff in Hp as [p1 [<- Hp1]].
        unfold lift4 in Hp1. apply in_flat_map in Hp1 as [e [_ Hp1]]. unfold pre_pls in Hp1.
        apply in_map_iff in Hp1 as [p0 [<- _]]. subst c. cbn in Hin. exact Hin. }
  constructor.
  - intros k v Hin.
    assert (Hkin : In k (map fst kvs_r)) by (apply in_map_iff; exists (k, v); split; [reflexivity|exact Hin]).
    rewrite Hk in Hkin. apply in_app_or in Hkin as [Hkin|Hkin].
    + rewrite kvs4_keys in Hkin. apply in_map_iff in Hkin as [e [Hke He]]. subst k.
      destruct (H3 (e4_key e) (e4_val e)) as [v' [Hv' Ha]].
      { unfold kvs4. apply in_map_iff. exists e. split; [reflexivity|exact He]. }
      assert (v' = v) by exact (nodup_keys_in kvs_r _ v' v Hnr Hv' Hin). subst v'.
      destruct (He0 e He) as [w [Hwn Hany]]. exists w. split; [exact Hwn|].
      apply Hlift0; [exact He|]. apply Hany; [apply Hproj0; exact He|exact Ha].
    + apply in_map_iff in Hkin as [[k0 v0] [Hk0 Hin0]]. cbn [fst] in Hk0. subst k0.
      destruct (Hhd k v0 Hin0) as [g [E [e [Hg [HE [He [Hke [Hve Hcg]]]]]]]]. subst k v0.
      destruct (H4 (e4_key e) (e4_val e) Hin0) as [v' [Hv' Ha]].
      assert (v' = v) by exact (nodup_keys_in kvs_r _ v' v Hnr Hv' Hin). subst v'.
      destruct (Heg g E e Hg HE He) as [w [Hwn Hany]]. exists w. split; [exact Hwn|].
      eapply Hliftg; try eassumption. apply Hany; [eapply Hprojg; eassumption|exact Ha].
  - intros k w Hin.
    destruct (mem k (map fst kvs_r)) eqn:Em.
    { left. apply mem_In in Em. apply in_map_iff in Em as [[k0 v] [Hk0 Hv]]. cbn [fst] in Hk0. subst k0.
      exists v. exact Hv. }
    right. apply mem_not_In in Em.
    destruct (Hcov k w Hin) as [Hk0|[g [Hg [Hkg HgE]]]].
    { exfalso. apply Em. rewrite Hk, kvs4_keys. apply in_or_app. left. exact Hk0. }
    exists (fst g). split.
    { unfold canon4. apply in_or_app. right. apply in_flat_map. exists g. split; [exact Hg|left; reflexivity]. }
    rewrite Forall_forall in Hw. destruct (Hw g Hg) as [Hpath Hwg].
    split; [exact Hpath|]. split; [exact Hkg|].
    destruct (snd g) as [E|] eqn:HE; [|left; exact Hwg].
    right. intro Hc. apply Em. rewrite Hk. apply in_or_app. right.
    destruct Hwg as [Hd _]. specialize (HgE E eq_refl). apply in_map_iff in HgE as [e [Hke He]].
    apply in_map_iff. exists (k, e4_val e). split; [reflexivity|].
    unfold cheads. apply in_flat_map. exists (core (fst g)). split; [exact Hc|].
    unfold chd, core. cbn [fst snd]. rewrite Hpath, Hd. unfold kvs4. apply in_map_iff. exists e.
    split; [rewrite Hke; reflexivity|exact He].
Qed.

(* ---- the errors of the reference are accounted for ---- *)
Lemma hidden_mono q : forall (Pw Pw' : path -> str -> Prop) m,
  (forall q k, Pw q k -> Pw' q k) -> hidden Pw q m -> hidden Pw' q m.
Proof.
  induction q as [|[k|i] r IH]; intros Pw Pw' m Himp H; destruct m; cbn [hidden] in *; try exact H.
  - destruct (lookup k kvs) as [v|]; [|apply Himp; exact H].
    eapply IH; [|exact H]. intros q0 k0. apply Himp.
  - destruct (nth_error l i) as [v|]; [|exact H].
    eapply IH; [|exact H]. intros q0 k0. apply Himp.
Qed.

Lemma errs4_inv Nn x : In x (errs4 Nn) ->
  exists n y, In n Nn /\ In y (e4_errs n) /\ x = (PKey (e4_key n) :: fst y, snd y).
Proof.
  unfold errs4. intro H. apply in_flat_map in H as [n [Hn Hx]]. unfold pre_errs in Hx.
  apply in_map_iff in Hx as [y [<- Hy]]. exists n, y. repeat split; assumption.
Qed.

Lemma nodup_key_eq (Nn : list ent4) n n' : NoDup (map e4_key Nn) -> In n Nn -> In n' Nn -> e4_key n = e4_key n' -> n = n'.
Proof.
  induction Nn as [|x r IH]; [intros _ []|]. cbn [map]. intros Hn H1 H2 Hk. inversion Hn; subst.
  destruct H1 as [->|H1], H2 as [->|H2]; [reflexivity| | |apply IH; assumption]; exfalso; apply H3.
  - rewrite Hk. apply in_map. exact H2.
  - rewrite <- Hk. apply in_map. exact H1.
Qed.

Lemma level_acc (E0 : list ent4) (GL : list gr4) (Nn : list ent4) :
  NoDup (map e4_key E0 ++ flat_map (fun g : gr4 => pl_keys (fst g)) GL) ->
  Forall wfg GL ->
  (forall e n, In e E0 -> In n Nn -> e4_key n = e4_key e ->
     ErrAcc (e4_val e) (e4_errs e) (e4_pls e) (e4_errs n)) ->
  (forall g E e n, In g GL -> snd g = Some E -> In e E -> In n Nn -> e4_key n = e4_key e ->
     ErrAcc (e4_val e) (e4_errs e) (e4_pls e) (e4_errs n)) ->
  (forall n, In n Nn ->
     In (e4_key n) (map e4_key E0) \/
     exists g, In g GL /\ In (e4_key n) (pl_keys (fst g)) /\
               (forall E, snd g = Some E -> In (e4_key n) (map e4_key E))) ->
  ErrAcc (JObj (kvs4 E0)) (errs4 E0) (canon4 E0 GL) (errs4 Nn).
Proof.
  intros Hnd Hw He0 Heg Hcov cs' m' Hsp Hap x Hx.
  destruct (errs4_inv _ _ Hx) as [n [y [Hn [Hy ->]]]]. cbn [fst].
  destruct (level_setup E0 GL cs' m' Hnd Hw Hsp Hap) as [kvs_r [-> [Hk [Hnr [S0 [Sg Shd]]]]]].
  assert (Hwith : forall g, In g GL -> In (e4_key n) (pl_keys (fst g)) ->
                    (forall E, snd g = Some E -> In (e4_key n) (map e4_key E)) ->
                    ~ In (e4_key n) (map fst kvs_r) -> PWh (canon4 E0 GL) cs' [] (e4_key n)).
  { intros g Hg Hkg HgE Hnk. exists (fst g). split.
    { unfold canon4. apply in_or_app. right. apply in_flat_map. exists g. split; [exact Hg|left; reflexivity]. }
    pose proof Hw as Hw'. rewrite Forall_forall in Hw'. destruct (Hw' g Hg) as [Hpath Hwg].
    split; [exact Hpath|]. split; [exact Hkg|].
    destruct (snd g) as [E|] eqn:HE; [|left; exact Hwg].
    right. intro Hc. apply Hnk. specialize (HgE E eq_refl). apply in_map_iff in HgE as [e [Hke He]].
    destruct (Sg g E e Hg HE He Hc) as [v [Hv _]]. apply in_map_iff. exists (e4_key e, v).
    split; [exact Hke|exact Hv]. }
  destruct (mem (e4_key n) (map fst kvs_r)) eqn:Em.
  2:{ (* the key is not there *)
      apply mem_not_In in Em. right. cbn [hidden]. rewrite (lookup_none_notin _ _ Em).
      destruct (Hcov n Hn) as [Hk0|[g [Hg [Hkg HgE]]]].
      - exfalso. apply Em. rewrite Hk, kvs4_keys. apply in_or_app. left. exact Hk0.
      - eapply Hwith; eassumption. }
  apply mem_In in Em. rewrite Hk in Em. apply in_app_or in Em as [Em|Em].
  - (* a field of the initial result *)
    rewrite kvs4_keys in Em. apply in_map_iff in Em as [e [Hke He]].
    destruct (S0 e He) as [v [Hv [Ha Hp]]].
    destruct (He0 e n He Hn (eq_sym Hke) _ _ Hp Ha y Hy) as [Hl|Hr].
    + left. rewrite <- Hke. eapply lift0_PErr; eassumption.
    + right. cbn [hidden]. rewrite <- Hke. rewrite (lookup_in_nodup _ _ _ Hnr Hv).
      eapply hidden_mono; [|exact Hr]. intros q k'. apply lift0_PWh. exact He.
  - (* a field of an applied execution group *)
    apply in_map_iff in Em as [[k0 v0] [Hk0 Hin0]]. cbn [fst] in Hk0.
    destruct (Shd k0 v0 Hin0) as [g [E [e [Hg [HE [He [Hke [_ Hcg]]]]]]]].
    destruct (Sg g E e Hg HE He Hcg) as [v [Hv [Ha Hp]]].
    assert (Hkn : e4_key n = e4_key e) by congruence.
    destruct (Heg g E e n Hg HE He Hn Hkn _ _ Hp Ha y Hy) as [Hl|Hr].
    + left. rewrite Hkn. eapply liftg_PErr; eassumption.
    + right. cbn [hidden]. rewrite Hkn. rewrite (lookup_in_nodup _ _ _ Hnr Hv).
      eapply hidden_mono; [|exact Hr]. intros q k'. eapply liftg_PWh; eassumption.
Qed.

(* ---- one list position, errors allowed ---- *)
Definition it4 : Type := (json * list err * list payload)%type.
Definition i4_val (x : it4) : json := fst (fst x).
Definition i4_errs (x : it4) : list err := snd (fst x).
Definition i4_pls (x : it4) : list payload := snd x.
Definition i4_ir (x : it4) : ir := (i4_val x, i4_pls x).
Definition ilift4 (I : list it4) (i : nat) : list payload := ilift (map i4_ir I) i.
Fixpoint ierrs4 (I : list it4) (i : nat) : list err :=
  match I with
  | [] => []
  | x :: r => pre_errs (PIdx i) (i4_errs x) ++ ierrs4 r (S i)
  end.

Lemma in_ilift4 I : forall i0 n x p, nth_error I n = Some x -> In p (i4_pls x) ->
  In (pre_pl (PIdx (i0 + n)) p) (ilift4 I i0).
Proof.
  unfold ilift4. induction I as [|y r IH]; intros i0 [|n] x p Hn Hp; cbn in Hn; try discriminate.
  - inversion Hn; subst. cbn [map ilift]. apply in_or_app. left. rewrite Nat.add_0_r.
    unfold pre_pls. apply in_map. exact Hp.
  - cbn [map ilift]. apply in_or_app. right. replace (i0 + S n)%nat with (S i0 + n)%nat by lia.
    eapply IH; eassumption.
Qed.

Lemma in_ierrs4 I : forall i0 n x e, nth_error I n = Some x -> In e (i4_errs x) ->
  In (PIdx (i0 + n) :: fst e) (map fst (ierrs4 I i0)).
Proof.
  induction I as [|y r IH]; intros i0 [|n] x e Hn He; cbn in Hn; try discriminate.
  - inversion Hn; subst. cbn [ierrs4]. rewrite map_app. apply in_or_app. left. rewrite Nat.add_0_r.
    apply in_map_iff. exists (PIdx i0 :: fst e, snd e). split; [reflexivity|].
    unfold pre_errs. apply in_map_iff. exists e. split; [reflexivity|exact He].
  - cbn [ierrs4]. rewrite map_app. apply in_or_app. right. replace (i0 + S n)%nat with (S i0 + n)%nat by lia.
    eapply IH; eassumption.
Qed.

Lemma level_expl_items (I : list it4) (refs : list json) :
  Forall2 (fun x w => ExplAny (i4_val x) (i4_errs x) (i4_pls x) w) I refs ->
  ExplAny (JList (map i4_val I)) (ierrs4 I 0) (ilift4 I 0) (JList refs).
Proof.
  intros HF cs' m' Hsp Hap.
  destruct (list_sim2 cs' (map i4_val I) m' Hap) as [js_r [-> [Hlen H3]]].
  constructor.
  - rewrite Hlen, map_length. eapply Forall2_len. exact HF.
  - intros i x y Hx Hy.
    assert (Hi : exists xi, nth_error I i = Some xi).
    { destruct (nth_error I i) as [xi|] eqn:E; [eauto|]. exfalso.
      apply nth_error_None in E. rewrite (Forall2_len _ _ _ HF) in E.
      apply nth_error_None in E. congruence. }
    destruct Hi as [xi Hxi].
    destruct (H3 i (i4_val xi)) as [v [Hv Ha]]; [apply map_nth_error; exact Hxi|].
    rewrite Hx in Hv. inversion Hv; subst v.
    pose proof (Forall2_nth _ _ _ HF i xi y Hxi Hy) as Hany.
    assert (Hproj : SubPerm (cproj_idx i cs') (map core (i4_pls xi))).
    { pose proof (SubPerm_flat_map _ _ _ Hsp : SubPerm (cproj_idx i cs') (cproj_idx i (map core (ilift4 I 0)))) as Hp.
      unfold ilift4 in Hp. rewrite cproj_idx_ilift in Hp.
      replace (Nat.ltb i 0) with false in Hp by (symmetry; apply Nat.ltb_ge; lia).
      rewrite Nat.sub_0_r, (map_nth_error i4_ir _ _ Hxi) in Hp. exact Hp. }
    eapply expl_mono; [exact (Hany _ _ Hproj Ha)| |].
    + intros q [Hq|[p [e [Hp [Hc [He ->]]]]]].
      * left. apply in_map_iff in Hq as [e [<- He]]. exact (in_ierrs4 I 0 i xi e Hxi He).
      * right. exists (pre_pl (PIdx i) p), e. split; [exact (in_ilift4 I 0 i xi p Hxi Hp)|].
        split; [|split; [exact He|reflexivity]].
        rewrite core_pre_pl. destruct (core p) as [pp dd] eqn:Ecp. apply in_cproj_idx in Hc. exact Hc.
    + intros q k' [p [Hp [Hpath [Hkk Hd]]]]. exists (pre_pl (PIdx i) p).
      split; [exact (in_ilift4 I 0 i xi p Hxi Hp)|].
      split; [cbn; rewrite Hpath; reflexivity|]. split; [exact Hkk|].
      destruct Hd as [Hd|Hd]; [left; exact Hd|right]. intro Hc. apply Hd.
      rewrite core_pre_pl in Hc. destruct (core p) as [pp dd] eqn:Ecp. apply in_cproj_idx. exact Hc.
Qed.

Lemma ierrs4_inv Nn : forall i0 x, In x (ierrs4 Nn i0) ->
  exists i n y, nth_error Nn i = Some n /\ In y (i4_errs n) /\ x = (PIdx (i0 + i) :: fst y, snd y).
Proof.
  induction Nn as [|n r IH]; intros i0 x H; cbn [ierrs4] in H; [destruct H|].
  apply in_app_or in H as [H|H].
  - unfold pre_errs in H. apply in_map_iff in H as [y [<- Hy]]. exists 0%nat, n, y.
    rewrite Nat.add_0_r. repeat split; assumption.
  - destruct (IH (S i0) x H) as [i [n' [y [Hn [Hy ->]]]]]. exists (S i), n', y.
    replace (i0 + S i)%nat with (S i0 + i)%nat by lia. repeat split; assumption.
Qed.

Lemma level_acc_items (I : list it4) (Nn : list it4) :
  Forall2 (fun x n => ErrAcc (i4_val x) (i4_errs x) (i4_pls x) (i4_errs n)) I Nn ->
  ErrAcc (JList (map i4_val I)) (ierrs4 I 0) (ilift4 I 0) (ierrs4 Nn 0).
Proof.
  intros HF cs' m' Hsp Hap x Hx.
  destruct (ierrs4_inv Nn 0 x Hx) as [i [n [y [Hn [Hy ->]]]]]. cbn [fst Nat.add].
  destruct (list_sim2 cs' (map i4_val I) m' Hap) as [js_r [-> [Hlen H3]]].
  assert (Hi : exists xi, nth_error I i = Some xi).
  { destruct (nth_error I i) as [xi|] eqn:E; [eauto|]. exfalso.
    apply nth_error_None in E. rewrite (Forall2_len _ _ _ HF) in E.
    apply nth_error_None in E. congruence. }
  destruct Hi as [xi Hxi].
  destruct (H3 i (i4_val xi)) as [v [Hv Ha]]; [apply map_nth_error; exact Hxi|].
  pose proof (Forall2_nth _ _ _ HF i xi n Hxi Hn) as Hacc.
  assert (Hproj : SubPerm (cproj_idx i cs') (map core (i4_pls xi))).
  { pose proof (SubPerm_flat_map _ _ _ Hsp : SubPerm (cproj_idx i cs') (cproj_idx i (map core (ilift4 I 0)))) as Hp.
    unfold ilift4 in Hp. rewrite cproj_idx_ilift in Hp.
    replace (Nat.ltb i 0) with false in Hp by (symmetry; apply Nat.ltb_ge; lia).
    rewrite Nat.sub_0_r, (map_nth_error i4_ir _ _ Hxi) in Hp. exact Hp. }
  destruct (Hacc _ _ Hproj Ha y Hy) as [Hl|Hr].
  - left. destruct Hl as [Hq|[p [e [Hp [Hc [He ->]]]]]].
    + left. apply in_map_iff in Hq as [e [<- He]]. exact (in_ierrs4 I 0 i xi e Hxi He).
    + right. exists (pre_pl (PIdx i) p), e. split; [exact (in_ilift4 I 0 i xi p Hxi Hp)|].
      split; [|split; [exact He|reflexivity]].
      rewrite core_pre_pl. destruct (core p) as [pp dd] eqn:Ecp. apply in_cproj_idx in Hc. exact Hc.
  - right. cbn [hidden]. rewrite Hv. eapply hidden_mono; [|exact Hr].
    intros q k' [p [Hp [Hpath [Hkk Hd]]]]. exists (pre_pl (PIdx i) p).
    split; [exact (in_ilift4 I 0 i xi p Hxi Hp)|].
    split; [cbn; rewrite Hpath; reflexivity|]. split; [exact Hkk|].
    destruct Hd as [Hd|Hd]; [left; exact Hd|right]. intro Hc. apply Hd.
    rewrite core_pre_pl in Hc. destruct (core p) as [pp dd] eqn:Ecp. apply in_cproj_idx. exact Hc.
Qed.

(* both parts of the clause *)
Definition Rel (j0 : json) (es : list err) (pls : list payload) (jn : json) (esn : list err) : Prop :=
  ExplAny j0 es pls jn /\ ErrAcc j0 es pls esn.

Lemma ErrAcc_nil j0 es pls : ErrAcc j0 es pls [].
Proof. intros cs' m' _ _ x []. Qed.

Lemma ErrAcc_null es esn : ErrAcc JNull es [] esn.
Proof.
  intros cs' m' Hsp Ha x Hx. apply SubPerm_nil_r in Hsp. subst. cbn in Ha. inversion Ha; subst.
  right. destruct (fst x); exact I.
Qed.

(* ---- the loops, errors allowed ---- *)
Definition ents4 (ef : list dfield -> option xfres) (g : dgrouped) : list ent4 :=
  flat_map (fun e => match ef (snd e) with
                     | Some (XRes ((CVal j, es, _), pl, _)) => [(fst e, j, es, pl)]
                     | _ => []
                     end) g.

Definition fok (ef : list dfield -> option xfres) (e : str * list dfield) : Prop :=
  ef (snd e) = Some XSkip \/ exists j es cs pl rv, ef (snd e) = Some (XRes ((CVal j, es, cs), pl, rv)).

(* a propagating field error comes with an error and without payloads *)
Definition w1 (x : xout) : Prop :=
  fst (fst (fst (fst x))) = CErr -> snd (fst x) = [] /\ snd (fst (fst (fst x))) <> [].

Lemma pre_errs_nonnil seg es : es <> [] -> pre_errs seg es <> [].
Proof. destruct es; [congruence|discriminate]. Qed.

Lemma groups_gen ef g : forall r es cs pls rv,
  (forall e x, In e g -> ef (snd e) = Some (XRes x) -> w1 x) ->
  dexec_groups ef g = Some (r, es, cs, pls, rv) ->
  match r with
  | Some kvs => kvs = kvs4 (ents4 ef g) /\ es = errs4 (ents4 ef g) /\ pls = lift4 (ents4 ef g) /\
                Forall (fok ef) g
  | None => pls = [] /\ es <> []
  end.
Proof.
  induction g as [|[k fs] rest IH]; intros r es cs pls rv Hw H; cbn [dexec_groups] in H.
  - inversion H; subst. repeat split. constructor.
  - cbn [ents4 flat_map fst snd]. fold (ents4 ef rest).
    assert (Hw' : forall e x, In e rest -> ef (snd e) = Some (XRes x) -> w1 x).
    { intros e x He. apply Hw. right. exact He. }
    destruct (ef fs) as [[|[[[[[j|] es0] cs0] pl0] rv0]]|] eqn:Ef; [| | |discriminate].
    + specialize (IH r es cs pls rv Hw' H). destruct r as [kvs|]; [|exact IH].
      destruct IH as [H1 [H2 [H3 H4]]]. repeat split; try assumption.
      constructor; [left; exact Ef|exact H4].
    + destruct (dexec_groups ef rest) as [[[[[r' es'] cs'] pls'] rv']|] eqn:Er; [|discriminate].
      specialize (IH r' es' cs' pls' rv' Hw'). 
      assert (IH' := IH ltac:(first [exact Er|reflexivity])). clear IH.
      inversion H; subst; clear H. destruct r' as [kvs'|]; cbn [option_map].
      * destruct IH' as [H1 [H2 [H3 H4]]]. subst. repeat split.
        constructor; [right; eauto 8|exact H4].
      * destruct IH' as [H1 H2]. split; [reflexivity|]. intro Hx. apply app_eq_nil in Hx as [_ Hx]. contradiction.
    + inversion H; subst; clear H. split; [reflexivity|].
      destruct (Hw (k, fs) _ (or_introl eq_refl) Ef eq_refl) as [_ Hne]. cbn in Hne.
      apply pre_errs_nonnil. exact Hne.
Qed.

(* the base executor without propagation: no field ever fails *)
Lemma groups_np ef g : forall r es cs pls rv,
  (forall e x, In e g -> ef (snd e) = Some (XRes x) -> exists j, fst (fst (fst (fst x))) = CVal j) ->
  dexec_groups ef g = Some (r, es, cs, pls, rv) ->
  r = Some (kvs4 (ents4 ef g)) /\ Forall (fok ef) g /\ es = errs4 (ents4 ef g).
Proof.
  induction g as [|[k fs] rest IH]; intros r es cs pls rv Hw H; cbn [dexec_groups] in H.
  - inversion H; subst. split; [reflexivity|]. split; [constructor|reflexivity].
  - cbn [ents4 flat_map fst snd]. fold (ents4 ef rest).
    assert (Hw' : forall e x, In e rest -> ef (snd e) = Some (XRes x) -> exists j, fst (fst (fst (fst x))) = CVal j).
    { intros e x He. apply Hw. right. exact He. }
    destruct (ef fs) as [[|[[[[[j|] es0] cs0] pl0] rv0]]|] eqn:Ef; [| | |discriminate].
    + destruct (IH r es cs pls rv Hw' H) as [H1 [H2 H3]]. split; [exact H1|]. split; [|exact H3].
      constructor; [left; exact Ef|exact H2].
    + destruct (dexec_groups ef rest) as [[[[[r' es'] cs'] pls'] rv']|] eqn:Er; [|discriminate].
      specialize (IH r' es' cs' pls' rv' Hw').
      assert (IH' := IH ltac:(first [exact Er|reflexivity])). clear IH. destruct IH' as [-> [H2 ->]].
      inversion H; subst; clear H. split; [reflexivity|]. split; [|reflexivity].
      constructor; [right; eauto 8|exact H2].
    + exfalso. destruct (Hw (k, fs) _ (or_introl eq_refl) Ef) as [j Hj]. discriminate.
Qed.

Lemma ents4_keys_subl ef g : subl (map e4_key (ents4 ef g)) (map fst g).
Proof.
  unfold ents4. apply subl_flat_map. intros [k fs]. cbn [fst snd].
  destruct (ef fs) as [[|[[[[[j|] es] cs] pl] rv]]|]; auto.
  right. eexists. split; reflexivity.
Qed.

Lemma ents4_in ef g e : In e (ents4 ef g) ->
  exists fs cs rv, In (e4_key e, fs) g /\ ef fs = Some (XRes ((CVal (e4_val e), e4_errs e, cs), e4_pls e, rv)).
Proof.
  unfold ents4. intro H. apply in_flat_map in H as [[k fs] [Hin Hx]]. cbn [fst snd] in Hx.
  destruct (ef fs) as [[|[[[[[j|] es] cs] pl] rv]]|] eqn:Ef; cbn in Hx; try contradiction.
  destruct Hx as [<-|[]]. exists fs, cs, rv. split; [exact Hin|exact Ef].
Qed.

Lemma ents4_intro ef g k fs j es cs pl rv :
  In (k, fs) g -> ef fs = Some (XRes ((CVal j, es, cs), pl, rv)) -> In (k, j, es, pl) (ents4 ef g).
Proof.
  intros Hin Ef. unfold ents4. apply in_flat_map. exists (k, fs). split; [exact Hin|].
  cbn [fst snd]. rewrite Ef. left. reflexivity.
Qed.

(* items *)
Definition irs4 (cf : data -> option xout) (items : list data) : list it4 :=
  flat_map (fun x => match cf x with Some ((CVal j, es, _), pl, _) => [(j, es, pl)] | _ => [] end) items.

Lemma items_gen cf items : forall i r es cs pls rv,
  (forall x y, In x items -> cf x = Some y -> w1 y) ->
  dcomplete_items cf items i = Some (r, es, cs, pls, rv) ->
  match r with
  | Some js => js = map i4_val (irs4 cf items) /\ es = ierrs4 (irs4 cf items) i /\
               pls = ilift4 (irs4 cf items) i /\
               Forall (fun x => exists j es cs pl rv, cf x = Some ((CVal j, es, cs), pl, rv)) items
  | None => pls = [] /\ es <> []
  end.
Proof.
  induction items as [|x rest IH]; intros i r es cs pls rv Hw H; cbn [dcomplete_items] in H.
  - inversion H; subst. repeat split. constructor.
  - cbn [irs4 flat_map]. fold (irs4 cf rest).
    assert (Hw' : forall x y, In x rest -> cf x = Some y -> w1 y).
    { intros y z Hy. apply Hw. right. exact Hy. }
    destruct (cf x) as [[[[[[j|] es0] cs0] pl0] rv0]|] eqn:Ef; [| |discriminate].
    + destruct (dcomplete_items cf rest (S i)) as [[[[[r' es'] cs'] pls'] rv']|] eqn:Er; [|discriminate].
      specialize (IH (S i) r' es' cs' pls' rv' Hw' Er).
      inversion H; subst; clear H. destruct r' as [js'|]; cbn [option_map].
      * destruct IH as [H1 [H2 [H3 H4]]]. subst. repeat split. constructor; [eauto 8|exact H4].
      * destruct IH as [H1 H2]. split; [reflexivity|]. intro Hx. apply app_eq_nil in Hx as [_ Hx]. contradiction.
    + inversion H; subst; clear H. split; [reflexivity|].
      destruct (Hw x _ (or_introl eq_refl) Ef eq_refl) as [_ Hne]. cbn in Hne.
      apply pre_errs_nonnil. exact Hne.
Qed.

Lemma items_np cf items : forall i r es cs pls rv,
  (forall x y, In x items -> cf x = Some y -> exists j, fst (fst (fst (fst y))) = CVal j) ->
  dcomplete_items cf items i = Some (r, es, cs, pls, rv) ->
  r = Some (map i4_val (irs4 cf items)) /\
  Forall (fun x => exists j es cs pl rv, cf x = Some ((CVal j, es, cs), pl, rv)) items /\
  es = ierrs4 (irs4 cf items) i.
Proof.
  induction items as [|x rest IH]; intros i r es cs pls rv Hw H; cbn [dcomplete_items] in H.
  - inversion H; subst. split; [reflexivity|]. split; [constructor|reflexivity].
  - cbn [irs4 flat_map]. fold (irs4 cf rest).
    assert (Hw' : forall x y, In x rest -> cf x = Some y -> exists j, fst (fst (fst (fst y))) = CVal j).
    { intros y z Hy. apply Hw. right. exact Hy. }
    destruct (cf x) as [[[[[[j|] es0] cs0] pl0] rv0]|] eqn:Ef; [| |discriminate].
    + destruct (dcomplete_items cf rest (S i)) as [[[[[r' es'] cs'] pls'] rv']|] eqn:Er; [|discriminate].
      destruct (IH (S i) r' es' cs' pls' rv' Hw' Er) as [-> [H2 ->]].
      inversion H; subst; clear H. split; [reflexivity|]. split; [|reflexivity]. constructor; [eauto 8|exact H2].
    + exfalso. destruct (Hw x _ (or_introl eq_refl) Ef) as [j Hj]. discriminate.
Qed.

Lemma deferred_gen ef groups : forall dpls rv,
  (forall sg e x, In sg groups -> In e (snd sg) -> ef (Plan.ids (fst sg)) (snd e) = Some (XRes x) -> w1 x) ->
  dexec_deferred ef groups = Some (dpls, rv) ->
  exists GL : list gr4,
    dpls = flat_map gpls GL /\ Forall wfg GL /\
    Forall2 (fun sg (g : gr4) =>
               pl_keys (fst g) = map fst (snd sg) /\
               match snd g with
               | Some E => E = ents4 (ef (Plan.ids (fst sg))) (snd sg) /\
                           Forall (fok (ef (Plan.ids (fst sg)))) (snd sg)
               | None => True
               end) groups GL.
Proof.
  induction groups as [|[sdu g] rest IH]; intros dpls rv Hw H; cbn [dexec_deferred] in H.
  - inversion H; subst. exists []. repeat split; constructor.
  - destruct (dexec_groups (ef (Plan.ids sdu)) g) as [[[[[r es] cs] pls] rv0]|] eqn:Eg; [|discriminate].
    destruct (dexec_deferred ef rest) as [[pls' rv']|] eqn:Er; [|discriminate].
    destruct (IH pls' rv') as [GL [-> [Hwf HF2]]]; [|reflexivity|].
    { intros sg e x Hsg. apply Hw. right. exact Hsg. }
    pose proof (groups_gen (ef (Plan.ids sdu)) g r es cs pls rv0) as Hg.
    specialize (Hg (fun e x He => Hw (sdu, g) e x (or_introl eq_refl) He) Eg).
    inversion H; subst; clear H. destruct r as [kvs|].
    + destruct Hg as [-> [-> [-> Hok]]].
      exists ((mkPl [] (group_chains sdu g) (Some (kvs4 (ents4 (ef (Plan.ids sdu)) g)))
                    (errs4 (ents4 (ef (Plan.ids sdu)) g)) cs false (map fst g),
               Some (ents4 (ef (Plan.ids sdu)) g)) :: GL).
      split; [reflexivity|]. split.
      * constructor; [|exact Hwf]. split; [reflexivity|]. cbn [fst snd pl_data pl_errs pl_keys].
        repeat split. apply ents4_keys_subl.
      * constructor; [|exact HF2]. cbn [fst snd pl_keys]. split; [reflexivity|]. split; [reflexivity|exact Hok].
    + destruct Hg as [-> Hne].
      exists ((mkPl [] (group_chains sdu g) None es cs false (map fst g), None) :: GL).
      split; [reflexivity|]. split.
      * constructor; [|exact Hwf]. split; reflexivity.
      * constructor; [|exact HF2]. cbn [fst snd pl_keys]. split; [reflexivity|exact I].
Qed.

(* ---- unfolding equations of the generalised executor ---- *)
Section GUnfold.
  Variable np : bool.
  Variable s : schema.
  Variable frags : list fragment.
  Variable cv : list (str * value).
  Variable pl : bool.

  Lemma gexec_sels_S f tn obj srcs parent base depth :
    gexec_sels np s frags cv pl (S f) tn obj srcs parent base depth =
    match dcollect_srcs s frags cv tn base depth f srcs cs0 with
    | None => None
    | Some st =>
      let base' := base + N.of_nat (length (c_new st)) in
      let p := if pl then plan_of (c_g st) parent else (c_g st, []) in
      match dexec_groups (gexec_field np s frags cv pl f tn obj parent base' depth) (fst p) with
      | None => None
      | Some (None, es, cs, _, rv) => Some ((CErr, es, cs), [], c_rev st || rv)
      | Some (Some kvs, es, cs, pls, rv) =>
        match dexec_deferred (fun par => gexec_field np s frags cv pl f tn obj par base' depth) (snd p) with
        | None => None
        | Some (dpls, rv') => Some ((CVal (JObj kvs), es, cs), pls ++ dpls, c_rev st || rv || rv')
        end
      end
    end.
  Proof. reflexivity. Qed.

  Lemma gexec_field_S f tn obj parent base depth fs :
    gexec_field np s frags cv pl (S f) tn obj parent base depth fs =
    match fs with
    | [] => Some XSkip
    | d1 :: _ =>
      let f1 := df_fs d1 in
      if str_eqb (fs_name f1) n_typename then Some (XRes ((CVal (JStr tn), [], []), [], false))
      else
        match lookup_field s tn (fs_name f1) with
        | None => Some XSkip
        | Some fd =>
          match coerce_args s cv (f_args fd) (fs_args f1) with
          | None => Some (XRes (gcatch np (f_type fd) (raise_here CauseArgs), [], false))
          | Some args =>
            let d := match lookup (fs_name f1) obj with Some d => d | None => DNull end in
            match gcomplete np s frags cv pl f (f_type fd) fs d parent base (S depth) with
            | None => None
            | Some ((r, es, cs), pls, rv) =>
                Some (XRes (gxcatch np (f_type fd) ((r, es, ([], fs_name f1, args) :: cs), pls, rv)))
            end
          end
        end
    end.
  Proof. reflexivity. Qed.

  Lemma gcomplete_S f t fs d parent base depth :
    gcomplete np s frags cv pl (S f) t fs d parent base depth =
    match d with
    | DRaise => Some (raise_here CauseRaise, [], false)
    | _ =>
      match t with
      | TNonNull t' =>
          match gcomplete np s frags cv pl f t' fs d parent base depth with
          | None => None
          | Some ((CVal JNull, es, cs), _, rv) => Some ((CErr, es ++ [([], CauseNull)], cs), [], rv)
          | Some x => Some x
          end
      | TList it =>
          match d with
          | DNull => Some ((CVal JNull, [], []), [], false)
          | DList items =>
              match dcomplete_items
                      (fun x => option_map (gxcatch np it) (gcomplete np s frags cv pl f it fs x parent base (S depth)))
                      items O with
              | None => None
              | Some (Some js, es, cs, pls, rv) => Some ((CVal (JList js), es, cs), pls, rv)
              | Some (None, es, cs, _, rv) => Some ((CErr, es, cs), [], rv)
              end
          | _ => Some (raise_here CauseNonList, [], false)
          end
      | TNamed n =>
          match d with
          | DNull => Some ((CVal JNull, [], []), [], false)
          | _ =>
            match lookup_type s n with
            | Some (TObject _ _) => gexec_sels np s frags cv pl f n (data_fields d) (srcs_of fs) parent base depth
            | Some (TInterface _) | Some (TUnion _) =>
                match d with
                | DObj rt flds =>
                    if is_object s rt && possible s n rt
                    then gexec_sels np s frags cv pl f rt flds (srcs_of fs) parent base depth
                    else Some (raise_here CauseType, [], false)
                | _ => Some (raise_here CauseType, [], false)
                end
            | Some td =>
                match d with
                | DLeaf l =>
                    match complete_leaf td l with
                    | Some j => Some ((CVal j, [], []), [], false)
                    | None => Some (raise_here CauseLeaf, [], false)
                    end
                | _ => Some (raise_here CauseLeaf, [], false)
                end
            | None => Some (raise_here CauseType, [], false)
            end
          end
      end
    end.
  Proof. reflexivity. Qed.
End GUnfold.

(* basic explanations *)
Lemma ExplAny_same j : (forall Pe Pw, expl Pe Pw j j) -> ExplAny j [] [] j.
Proof.
  intros H cs' m' Hsp Ha. apply SubPerm_nil_r in Hsp. subst. cbn in Ha. inversion Ha; subst. apply H.
Qed.

Lemma ExplAny_null es jn : es <> [] \/ jn = JNull -> ExplAny JNull es [] jn.
Proof.
  intros H cs' m' Hsp Ha. apply SubPerm_nil_r in Hsp. subst. cbn in Ha. inversion Ha; subst.
  constructor. destruct H as [H| ->]; [|left; reflexivity].
  right. destruct es as [|e r]; [congruence|]. exists (fst e). left. left. reflexivity.
Qed.

Lemma json_null_dec (j : json) : j = JNull \/ j <> JNull.
Proof. destruct j; [left; reflexivity|right; discriminate..]. Qed.

Lemma ExplAny_nonnull j0 es pls jn : ExplAny j0 es pls jn -> j0 <> JNull -> jn <> JNull.
Proof.
  intros H Hn Hj. subst. apply Hn. eapply expl_null_r. apply (H [] j0); [apply SubPerm_nil|reflexivity].
Qed.

Lemma Rel_same j : (forall Pe Pw, expl Pe Pw j j) -> Rel j [] [] j [].
Proof. intro H. split; [apply ExplAny_same; exact H|apply ErrAcc_nil]. Qed.

Lemma Rel_null es jn esn : es <> [] \/ jn = JNull -> Rel JNull es [] jn esn.
Proof. intro H. split; [apply ExplAny_null; exact H|apply ErrAcc_null]. Qed.

Lemma items_rel4 (cfd cfn : data -> option xout) items :
  Forall (fun x => exists j es cs pl rv, cfd x = Some ((CVal j, es, cs), pl, rv)) items ->
  Forall (fun x => exists j es cs pl rv, cfn x = Some ((CVal j, es, cs), pl, rv)) items ->
  (forall x j es cs pl rv jn esn csn pln rvn,
     cfd x = Some ((CVal j, es, cs), pl, rv) -> cfn x = Some ((CVal jn, esn, csn), pln, rvn) ->
     Rel j es pl jn esn) ->
  Forall2 (fun x w => ExplAny (i4_val x) (i4_errs x) (i4_pls x) w) (irs4 cfd items) (map i4_val (irs4 cfn items)) /\
  Forall2 (fun x n => ErrAcc (i4_val x) (i4_errs x) (i4_pls x) (i4_errs n)) (irs4 cfd items) (irs4 cfn items).
Proof.
  intros Hd Hn Hrel. induction items as [|x rest IH]; [split; constructor|].
  inversion Hd as [|x0 l0 [j1 [es1 [cs1 [pl1 [rv1 Hd1]]]]] Hd']; subst.
  inversion Hn as [|x0 l0 [jn1 [esn1 [csn1 [pln1 [rvn1 Hn1]]]]] Hn']; subst.
  destruct (IH Hd' Hn') as [IH1 IH2].
  unfold irs4. cbn [flat_map]. rewrite Hd1, Hn1. fold (irs4 cfd rest). fold (irs4 cfn rest).
  cbn [app map i4_val fst]. destruct (Hrel _ _ _ _ _ _ _ _ _ _ _ Hd1 Hn1) as [R1 R2].
  split; constructor; assumption.
Qed.

Lemma nfield_cval s frags cv pl f tn obj par b dp fs x :
  gexec_field true s frags cv pl f tn obj par b dp fs = Some (XRes x) -> exists j, fst (fst (fst (fst x))) = CVal j.
Proof.
  destruct f as [|f]; [discriminate|]. rewrite gexec_field_S.
  destruct fs as [|d1 fs']; [discriminate|]. cbv zeta.
  destruct (str_eqb (fs_name (df_fs d1)) n_typename); [intro H; inversion H; subst; eexists; reflexivity|].
  destruct (lookup_field s tn (fs_name (df_fs d1))) as [fd|]; [|discriminate].
  destruct (coerce_args s cv (f_args fd) (fs_args (df_fs d1))) as [args|].
  2:{ intro H. inversion H; subst. eexists; reflexivity. }
  destruct (gcomplete true s frags cv pl f (f_type fd) (d1 :: fs') _ par b (S dp)) as [[[[[r es] cs] pls] rv]|];
    [|discriminate].
  intro H. inversion H; subst. destruct r; eexists; reflexivity.
Qed.

Lemma Forall2_in_l {A B} (P : A -> B -> Prop) l l' a : Forall2 P l l' -> In a l -> exists b, In b l' /\ P a b.
Proof.
  induction 1 as [|x y l l' Hxy HF IH]; intro Hin; [destruct Hin|].
  destruct Hin as [<-|Hin]; [exists y; split; [left; reflexivity|exact Hxy]|].
  destruct (IH Hin) as [b0 [Hb Hp]]. exists b0. split; [right; exact Hb|exact Hp].
Qed.

Lemma Forall2_in_r {A B} (P : A -> B -> Prop) l l' b : Forall2 P l l' -> In b l' -> exists a, In a l /\ P a b.
Proof.
  induction 1 as [|x y l l' Hxy HF IH]; intro Hin; [destruct Hin|].
  destruct Hin as [<-|Hin]; [exists x; split; [left; reflexivity|exact Hxy]|].
  destruct (IH Hin) as [a0 [Ha Hp]]. exists a0. split; [right; exact Ha|exact Hp].
Qed.

Section ErrClause.
  Variable s : schema.
  Variable frags : list fragment.
  Variable cv : list (str * value).

  Notation Dsels := (gexec_sels false s frags cv true).
  Notation Dfield := (gexec_field false s frags cv true).
  Notation Dcomp := (gcomplete false s frags cv true).
  Notation Nsels := (gexec_sels true s frags cv false).
  Notation Nfield := (gexec_field true s frags cv false).
  Notation Ncomp := (gcomplete true s frags cv false).

  Definition XS (f : nat) : Prop :=
    forall tn obj srcs S0 S1 b dp r es cs pls rv,
      Dsels f tn obj srcs S0 b dp = Some ((r, es, cs), pls, rv) ->
      (r = CErr -> pls = [] /\ es <> []) /\
      (forall j0, r = CVal j0 -> forall xn, Nsels f tn obj srcs S1 b dp = Some xn ->
         exists jn esn csn pln rvn, xn = ((CVal jn, esn, csn), pln, rvn) /\ Rel j0 es pls jn esn).

  Definition XF (f : nat) : Prop :=
    forall tn obj S0 S1 b dp fs,
      (Dfield f tn obj S0 b dp fs = Some XSkip ->
       forall xn, Nfield f tn obj S1 b dp fs = Some xn -> xn = XSkip) /\
      (forall r es cs pls rv, Dfield f tn obj S0 b dp fs = Some (XRes ((r, es, cs), pls, rv)) ->
         (r = CErr -> pls = [] /\ es <> []) /\
         (forall xn, Nfield f tn obj S1 b dp fs = Some xn ->
            exists jn esn csn pln rvn, xn = XRes ((CVal jn, esn, csn), pln, rvn) /\
              (forall j0, r = CVal j0 -> Rel j0 es pls jn esn))).

  Definition XC (f : nat) : Prop :=
    forall t fs d S0 S1 b dp r es cs pls rv,
      Dcomp f t fs d S0 b dp = Some ((r, es, cs), pls, rv) ->
      (r = CErr -> pls = [] /\ es <> []) /\
      (forall j0, r = CVal j0 -> forall xn, Ncomp f t fs d S1 b dp = Some xn ->
         exists jn esn csn pln rvn, xn = ((CVal jn, esn, csn), pln, rvn) /\ Rel j0 es pls jn esn).

  Lemma stepX_F f : XC f -> XF (S f).
  Proof.
    intros HC tn obj S0 S1 b dp fs. rewrite !gexec_field_S.
    destruct fs as [|d1 fs'].
    { split; [intros _ xn Hn; inversion Hn; reflexivity|discriminate]. }
    cbv zeta.
    destruct (str_eqb (fs_name (df_fs d1)) n_typename).
    { split; [discriminate|]. intros r es cs pls rv H. inversion H; subst. split; [discriminate|].
      intros xn Hn. inversion Hn; subst. eexists _, _, _, _, _. split; [reflexivity|].
      intros j0 Hj. inversion Hj; subst. apply Rel_same. intros; constructor. }
    destruct (lookup_field s tn (fs_name (df_fs d1))) as [fd|].
    2:{ split; [intros _ xn Hn; inversion Hn; reflexivity|discriminate]. }
    destruct (coerce_args s cv (f_args fd) (fs_args (df_fs d1))) as [args|].
    2:{ split; [discriminate|]. intros r es cs pls rv H. unfold gcatch, raise_here in *. cbn [catch catch_np] in *.
        destruct (is_nonnull (f_type fd)); inversion H; subst.
        - split; [intros _; split; [reflexivity|discriminate]|].
          intros xn Hn. inversion Hn; subst. eexists _, _, _, _, _. split; [reflexivity|]. intros j0 Hj. discriminate.
        - split; [discriminate|].
          intros xn Hn. inversion Hn; subst. eexists _, _, _, _, _. split; [reflexivity|].
          intros j0 Hj. inversion Hj; subst. apply Rel_null. left. discriminate. }
    set (d := match lookup (fs_name (df_fs d1)) obj with Some d => d | None => DNull end).
    split.
    { intro H. destruct (Dcomp f (f_type fd) (d1 :: fs') d S0 b (S dp)) as [[[[[r es] cs] pls] rv]|]; discriminate. }
    intros r es cs pls rv H.
    destruct (Dcomp f (f_type fd) (d1 :: fs') d S0 b (S dp)) as [[[[[r1 es1] cs1] pls1] rv1]|] eqn:Ed; [|discriminate].
    destruct (HC _ _ _ _ S1 _ _ _ _ _ _ _ Ed) as [Hw Hx].
    destruct r1 as [j1|].
    - (* a value *)
      cbn [gxcatch gcatch catch] in H. inversion H; subst; clear H. split; [discriminate|].
      intros xn Hn.
      destruct (Ncomp f (f_type fd) (d1 :: fs') d S1 b (S dp)) as [xn'|] eqn:En; [|discriminate].
      destruct (Hx j1 eq_refl xn' eq_refl) as [jn [esn [csn [pln [rvn [-> Hany]]]]]].
      cbn [gxcatch gcatch catch_np] in Hn. inversion Hn; subst.
      eexists _, _, _, _, _. split; [reflexivity|]. intros j0 Hj. inversion Hj; subst. exact Hany.
    - (* a field error: propagated or caught here *)
      destruct (Hw eq_refl) as [-> Hne].
      assert (HN : forall xn, match Ncomp f (f_type fd) (d1 :: fs') d S1 b (S dp) with
                              | Some (r0, es0, cs0, pls0, rv0) =>
                                  Some (XRes (gxcatch true (f_type fd) (r0, es0, ([], fs_name (df_fs d1), args) :: cs0, pls0, rv0)))
                              | None => None
                              end = Some xn ->
                   exists jn esn csn pln rvn, xn = XRes ((CVal jn, esn, csn), pln, rvn)).
      { intros xn Hn. destruct (Ncomp f (f_type fd) (d1 :: fs') d S1 b (S dp)) as [[[[[r0 es0] cs0] pls0] rv0]|];
          [|discriminate].
        cbn [gxcatch gcatch catch_np] in Hn. destruct r0; inversion Hn; subst; eexists _, _, _, _, _; reflexivity. }
      cbn [gxcatch gcatch catch] in H. destruct (is_nonnull (f_type fd)); inversion H; subst; clear H.
      + split; [intros _; split; [reflexivity|exact Hne]|].
        intros xn Hn. destruct (HN xn Hn) as [jn [esn [csn [pln [rvn ->]]]]].
        eexists _, _, _, _, _. split; [reflexivity|]. intros j0 Hj. discriminate.
      + split; [discriminate|].
        intros xn Hn. destruct (HN xn Hn) as [jn [esn [csn [pln [rvn ->]]]]].
        eexists _, _, _, _, _. split; [reflexivity|]. intros j0 Hj. inversion Hj; subst.
        apply Rel_null. left. exact Hne.
  Qed.

  Lemma stepX_C f : XC f -> XS f -> XC (S f).
  Proof.
    intros HC HS t fs d S0 S1 b dp r es cs pls rv H. rewrite gcomplete_S in H. rewrite gcomplete_S.
    (* results without recursion *)
    assert (Hraise : forall c, Some (raise_here c, @nil payload, false) = Some ((r, es, cs), pls, rv) ->
              (r = CErr -> pls = [] /\ es <> []) /\
              (forall j0, r = CVal j0 -> forall xn (_ : Some (raise_here c, @nil payload, false) = Some xn),
                 exists jn esn csn pln rvn, xn = ((CVal jn, esn, csn), pln, rvn) /\ Rel j0 es pls jn esn)).
    { intros c Hx. inversion Hx; subst. split; [intros _; split; [reflexivity|discriminate]|]. intros j0 Hj. discriminate. }
    assert (Hval : forall j, (forall Pe Pw, expl Pe Pw j j) ->
              Some ((CVal j, @nil err, @nil call), @nil payload, false) = Some ((r, es, cs), pls, rv) ->
              (r = CErr -> pls = [] /\ es <> []) /\
              (forall j0, r = CVal j0 -> forall xn (_ : Some ((CVal j, @nil err, @nil call), @nil payload, false) = Some xn),
                 exists jn esn csn pln rvn, xn = ((CVal jn, esn, csn), pln, rvn) /\ Rel j0 es pls jn esn)).
    { intros j Hj Hx. inversion Hx; subst. split; [discriminate|]. intros j0 Hj0 xn Hn. inversion Hj0; inversion Hn; subst.
      eexists _, _, _, _, _. split; [reflexivity|]. apply Rel_same. exact Hj. }
    assert (Hnull : forall Pe Pw, expl Pe Pw JNull JNull) by (intros; constructor; left; reflexivity).
    (* non-null wrapper *)
    assert (HN : forall t',
      match Dcomp f t' fs d S0 b dp with
      | None => None
      | Some ((CVal JNull, es, cs), _, rv) => Some ((CErr, es ++ [([], CauseNull)], cs), [], rv)
      | Some x => Some x
      end = Some ((r, es, cs), pls, rv) ->
      (r = CErr -> pls = [] /\ es <> []) /\
      (forall j0, r = CVal j0 -> forall xn,
         match Ncomp f t' fs d S1 b dp with
         | None => None
         | Some ((CVal JNull, es, cs), _, rv) => Some ((CErr, es ++ [([], CauseNull)], cs), [], rv)
         | Some x => Some x
         end = Some xn ->
         exists jn esn csn pln rvn, xn = ((CVal jn, esn, csn), pln, rvn) /\ Rel j0 es pls jn esn)).
    { intros t' HH.
      destruct (Dcomp f t' fs d S0 b dp) as [[[[[r1 es1] cs1] pls1] rv1]|] eqn:Ed; [|discriminate].
      destruct (HC _ _ _ _ S1 _ _ _ _ _ _ _ Ed) as [Hw Hx].
      destruct r1 as [j1|].
      - destruct (json_null_dec j1) as [->|Hnn].
        + inversion HH; subst. split; [intros _; split; [reflexivity|]|intros j0 Hj; discriminate].
          intro Ha. apply app_eq_nil in Ha as [_ Ha]. discriminate.
        + assert (HH' : Some ((CVal j1, es1, cs1), pls1, rv1) = Some ((r, es, cs), pls, rv))
            by (destruct j1; try exact HH; congruence).
          inversion HH'; subst; clear HH' HH. split; [discriminate|].
          intros j0 Hj xn Hn. inversion Hj; subst j0.
          destruct (Ncomp f t' fs d S1 b dp) as [xn'|] eqn:En; [|discriminate].
          destruct (Hx j1 eq_refl xn' eq_refl) as [jn [esn [csn [pln [rvn [-> Hany]]]]]].
          pose proof (ExplAny_nonnull _ _ _ _ (proj1 Hany) Hnn) as Hjn.
          assert (Hn' : Some ((CVal jn, esn, csn), pln, rvn) = Some xn) by (destruct jn; try exact Hn; congruence).
          inversion Hn'; subst. eexists _, _, _, _, _. split; [reflexivity|exact Hany].
      - inversion HH; subst. split; [exact Hw|]. intros j0 Hj. discriminate. }
    (* objects *)
    assert (HO : forall rt flds,
      Dsels f rt flds (srcs_of fs) S0 b dp = Some ((r, es, cs), pls, rv) ->
      (r = CErr -> pls = [] /\ es <> []) /\
      (forall j0, r = CVal j0 -> forall xn, Nsels f rt flds (srcs_of fs) S1 b dp = Some xn ->
         exists jn esn csn pln rvn, xn = ((CVal jn, esn, csn), pln, rvn) /\ Rel j0 es pls jn esn)).
    { intros rt flds HH. eapply HS. exact HH. }
    destruct d as [|l|rt flds|items|]; [| | | |apply Hraise; exact H].
    - destruct t as [n|it|t']; [apply (Hval JNull Hnull); exact H|apply (Hval JNull Hnull); exact H|apply HN; exact H].
    - destruct t as [n|it|t']; [|apply Hraise; exact H|apply HN; exact H].
      destruct (lookup_type s n) as [[sc|vals|ofs ifs|ifs|ms|idefs ioo]|];
        try (apply HO; exact H);
        try (apply Hraise; exact H);
        (destruct (complete_leaf _ l) as [j|] eqn:El;
         [apply (Hval j); [intros; eapply expl_leaf; exact El|exact H]|apply Hraise; exact H]).
    - destruct t as [n|it|t']; [|apply Hraise; exact H|apply HN; exact H].
      destruct (lookup_type s n) as [[sc|vals|ofs ifs|ifs|ms|idefs ioo]|];
        try (apply Hraise; exact H).
      + apply HO. exact H.
      + destruct (is_object s rt && possible s n rt); [apply HO; exact H|apply Hraise; exact H].
      + destruct (is_object s rt && possible s n rt); [apply HO; exact H|apply Hraise; exact H].
    - destruct t as [n|it|t']; [|clear HN|apply HN; exact H].
      { destruct (lookup_type s n) as [[sc|vals|ofs ifs|ifs|ms|idefs ioo]|];
          first [apply HO; exact H|apply Hraise; exact H]. }
      set (cfd := fun x => option_map (gxcatch false it) (Dcomp f it fs x S0 b (S dp))) in *.
      set (cfn := fun x => option_map (gxcatch true it) (Ncomp f it fs x S1 b (S dp))).
      (* one item *)
      assert (Hitem : forall x y, cfd x = Some y ->
                w1 y /\ (forall xn, cfn x = Some xn ->
                   exists jn esn csn pln rvn, xn = ((CVal jn, esn, csn), pln, rvn) /\
                     (forall j0 es0 cs0 pls0 rv0, y = ((CVal j0, es0, cs0), pls0, rv0) -> Rel j0 es0 pls0 jn esn))).
      { intros x y Hy. unfold cfd in Hy. unfold cfn.
        destruct (Dcomp f it fs x S0 b (S dp)) as [[[[[r1 es1] cs1] pls1] rv1]|] eqn:Ed; [|discriminate].
        destruct (HC _ _ _ _ S1 _ _ _ _ _ _ _ Ed) as [Hw Hx].
        cbn [option_map] in Hy. inversion Hy; subst y; clear Hy.
        assert (HNn : forall xn, option_map (gxcatch true it) (Ncomp f it fs x S1 b (S dp)) = Some xn ->
                      exists jn esn csn pln rvn, xn = ((CVal jn, esn, csn), pln, rvn)).
        { intros xn Hn. destruct (Ncomp f it fs x S1 b (S dp)) as [[[[[r0 es0] cs0] pls0] rv0]|]; [|discriminate].
          cbn [option_map gxcatch gcatch catch_np] in Hn. destruct r0; inversion Hn; subst; eexists _, _, _, _, _; reflexivity. }
        destruct r1 as [j1|].
        - cbn [gxcatch gcatch catch]. split; [intro Hc; discriminate|].
          intros xn Hn. destruct (Ncomp f it fs x S1 b (S dp)) as [xn'|] eqn:En; [|discriminate].
          destruct (Hx j1 eq_refl xn' eq_refl) as [jn [esn [csn [pln [rvn [-> Hany]]]]]].
          cbn [option_map gxcatch gcatch catch_np] in Hn. inversion Hn; subst.
          eexists _, _, _, _, _. split; [reflexivity|]. intros j0 es0 cs0 pls0 rv0 Hy. inversion Hy; subst. exact Hany.
        - destruct (Hw eq_refl) as [-> Hne]. cbn [gxcatch gcatch catch]. destruct (is_nonnull it).
          + split; [intros _; split; [reflexivity|exact Hne]|].
            intros xn Hn. destruct (HNn xn Hn) as [jn [esn [csn [pln [rvn ->]]]]].
            eexists _, _, _, _, _. split; [reflexivity|]. intros j0 es0 cs0 pls0 rv0 Hy. discriminate.
          + split; [intro Hc; discriminate|].
            intros xn Hn. destruct (HNn xn Hn) as [jn [esn [csn [pln [rvn ->]]]]].
            eexists _, _, _, _, _. split; [reflexivity|]. intros j0 es0 cs0 pls0 rv0 Hy. inversion Hy; subst.
            apply Rel_null. left. exact Hne. }
      destruct (dcomplete_items cfd items 0) as [[[[[r' es'] cs'] pls'] rv']|] eqn:Ei; [|discriminate].
      pose proof (items_gen cfd items 0 r' es' cs' pls' rv' (fun x y _ Hy => proj1 (Hitem x y Hy)) Ei) as Hg.
      destruct r' as [js|].
      2:{ destruct Hg as [-> Hne]. inversion H; subst. split; [intros _; split; [reflexivity|exact Hne]|].
          intros j0 Hj. discriminate. }
      destruct Hg as [-> [-> [-> Hok]]]. inversion H; subst; clear H. split; [discriminate|].
      intros j0 Hj xn Hn. inversion Hj; subst j0; clear Hj. fold cfn in Hn.
      destruct (dcomplete_items cfn items 0) as [[[[[rn esn] csn] plsn] rvn]|] eqn:En; [|discriminate].
      destruct (items_np cfn items 0 rn esn csn plsn rvn) as [-> [Hokn ->]]; [|exact En|].
      { intros x y _ Hy. unfold cfn in Hy.
        destruct (Ncomp f it fs x S1 b (S dp)) as [[[[[r0 es0] cs0] pls0] rv0]|]; [|discriminate].
        cbn [option_map gxcatch gcatch catch_np] in Hy. destruct r0; inversion Hy; subst; eexists; reflexivity. }
      inversion Hn; subst. eexists _, _, _, _, _. split; [reflexivity|].
      destruct (items_rel4 cfd cfn items Hok Hokn) as [R1 R2].
      { intros x j1 es1 cs1 pl1 rv1 jn1 esn1 csn1 pln1 rvn1 Hd1 Hn1.
        destruct (Hitem x _ Hd1) as [_ Hx]. destruct (Hx _ Hn1) as [jn2 [esn2 [csn2 [pln2 [rvn2 [Heq Hany]]]]]].
        inversion Heq; subst. eapply Hany. reflexivity. }
      split; [apply level_expl_items; exact R1|apply level_acc_items; exact R2].
  Qed.

  Lemma stepX_S f : XF f -> XS (S f).
  Proof.
    intros HF tn obj srcs S0 S1 b dp r es cs pls rv H. rewrite gexec_sels_S in H.
    destruct (dcollect_srcs s frags cv tn b dp f srcs cs0) as [st|] eqn:Ec; [|discriminate].
    cbv zeta in H.
    set (b' := b + N.of_nat (length (c_new st))) in *.
    set (dg := c_g st) in *.
    assert (Hdg : NoDup (map fst dg)) by (eapply dcollect_srcs_nodup; exact Ec).
    pose (efd := fun par => Dfield f tn obj par b' dp).
    pose (efn := Nfield f tn obj S1 b' dp).
    assert (Hw1 : forall par fs x, efd par fs = Some (XRes x) -> w1 x).
    { intros par fs [[[[r1 es1] cs1] pl1] rv1] Hx. destruct (HF tn obj par S1 b' dp fs) as [_ Hr].
      destruct (Hr _ _ _ _ _ Hx) as [Hw _]. exact Hw. }
    pose proof (plan_of_partition dg S0) as Hperm.
    destruct (plan_of dg S0) as [init groups] eqn:Epl. cbn [fst snd] in *.
    change (gexec_field false s frags cv true f tn obj S0 b' dp) with (efd S0) in H.
    change (fun par : list N => gexec_field false s frags cv true f tn obj par b' dp) with efd in H.
    destruct (dexec_groups (efd S0) init) as [[[[[r0 es0] cs0'] pls0] rv0]|] eqn:Eg; [|discriminate].
    pose proof (groups_gen (efd S0) init r0 es0 cs0' pls0 rv0 (fun e x _ Hx => Hw1 S0 (snd e) x Hx) Eg) as Hg.
    destruct r0 as [kvs0|].
    2:{ destruct Hg as [-> Hne]. inversion H; subst. split; [intros _; split; [reflexivity|exact Hne]|].
        intros j0 Hj. discriminate. }
    destruct Hg as [-> [-> [-> Hok0]]].
    destruct (dexec_deferred efd groups) as [[dpls rv']|] eqn:Ed; [|discriminate].
    destruct (deferred_gen efd groups dpls rv' (fun sg e x _ _ Hx => Hw1 _ _ x Hx) Ed) as [GL [-> [Hwf HF2]]].
    inversion H; subst; clear H. split; [discriminate|].
    intros j0 Hj xn Hn. inversion Hj; subst j0; clear Hj.
    (* the non-propagating base run *)
    rewrite gexec_sels_S, Ec in Hn. cbv zeta in Hn. cbn [fst snd] in Hn.
    fold b' dg in Hn. change (gexec_field true s frags cv false f tn obj S1 b' dp) with efn in Hn.
    destruct (dexec_groups efn dg) as [[[[[rn esn] csn] plsn] rvn]|] eqn:En; [|discriminate].
    destruct (groups_np efn dg rn esn csn plsn rvn) as [-> [Hokn ->]]; [|exact En|].
    { intros e x _ Hx. eapply nfield_cval. exact Hx. }
    cbn [dexec_deferred] in Hn. inversion Hn; subst; clear Hn.
    eexists _, _, _, _, _. split; [reflexivity|].
    (* entries of the plan *)
    assert (Hdgin : forall e, In e (init ++ flat_map snd groups) -> In e dg).
    { intros e He. eapply Permutation_in; [exact Hperm|exact He]. }
    assert (Hin_dg : forall e, In e dg -> In e (init ++ flat_map snd groups)).
    { intros e He. eapply Permutation_in; [apply Permutation_sym; exact Hperm|exact He]. }
    assert (Hnsome : forall k fs, In (k, fs) dg -> fok efn (k, fs)).
    { intros k fs Hin. rewrite Forall_forall in Hokn. apply Hokn. exact Hin. }
    assert (Hnn : NoDup (map e4_key (ents4 efn dg))).
    { eapply subl_NoDup; [apply ents4_keys_subl|exact Hdg]. }
    (* one executed field against its reference *)
    assert (Hent : forall par k fs j1 es1 cs1 pl1 rv1, In (k, fs) dg ->
              efd par fs = Some (XRes ((CVal j1, es1, cs1), pl1, rv1)) ->
              exists n, In n (ents4 efn dg) /\ e4_key n = k /\ Rel j1 es1 pl1 (e4_val n) (e4_errs n)).
    { intros par k fs j1 es1 cs1 pl1 rv1 Hin Hd.
      destruct (HF tn obj par S1 b' dp fs) as [_ Hr]. destruct (Hr _ _ _ _ _ Hd) as [_ Hx].
      destruct (Hnsome k fs Hin) as [Hs|[jn [esn0 [csn0 [pln0 [rvn0 Hs]]]]]]; cbn [snd] in Hs.
      - destruct (Hx _ Hs) as [jn [esn0 [csn0 [pln0 [rvn0 [Hbad _]]]]]]. discriminate.
      - destruct (Hx _ Hs) as [jn' [esn' [csn' [pln' [rvn' [Heq Hany]]]]]]. inversion Heq; subst.
        exists (k, jn', esn', pln'). split; [eapply ents4_intro; eassumption|]. split; [reflexivity|].
        apply Hany. reflexivity. }
    (* a field of the reference is not skipped by the incremental run *)
    assert (Hnoskip : forall par k fs, In k (map e4_key (ents4 efn dg)) -> In (k, fs) dg ->
              fok (efd par) (k, fs) -> In k (map e4_key (ents4 (efd par) [(k, fs)]))).
    { intros par k fs Hw Hin Hfok.
      apply in_map_iff in Hw as [e [Heq He]]. subst k.
      destruct (ents4_in _ _ _ He) as [fs' [csx [rvx [Hin' Hn']]]].
      assert (fs' = fs).
      { clear - Hdg Hin Hin'. induction dg as [|[k0 f0] r IH]; [destruct Hin|]. cbn in Hdg. inversion Hdg; subst.
        destruct Hin as [Hin|Hin], Hin' as [Hin'|Hin'].
        - congruence.
        - inversion Hin; subst. exfalso. apply H1. apply in_map_iff. exists (e4_key e, fs'). split; [reflexivity|exact Hin'].
        - inversion Hin'; subst. exfalso. apply H1. apply in_map_iff. exists (e4_key e, fs). split; [reflexivity|exact Hin].
        - apply IH; assumption. }
      subst fs'. destruct Hfok as [Hs|[j1 [es1 [cs1 [pl1 [rv1 Hs]]]]]]; cbn [snd] in Hs.
      - exfalso. destruct (HF tn obj par S1 b' dp fs) as [Hsk _]. specialize (Hsk Hs _ Hn'). discriminate.
      - unfold ents4. cbn [flat_map fst snd]. rewrite Hs. cbn. left. reflexivity. }
    assert (Hkeysg : flat_map (fun g : gr4 => pl_keys (fst g)) GL = flat_map (fun sg => map fst (snd sg)) groups).
    { clear - HF2. induction HF2 as [|sg g l l' [Hk _] _ IH]; cbn [flat_map]; [reflexivity|]. rewrite Hk, IH. reflexivity. }
    assert (Hndk : NoDup (map e4_key (ents4 (efd S0) init) ++ flat_map (fun g : gr4 => pl_keys (fst g)) GL)).
    { rewrite Hkeysg. eapply subl_NoDup; [apply subl_app; [apply ents4_keys_subl|apply subl_refl]|].
      assert (Hn0 : NoDup (map fst (init ++ flat_map snd groups))).
      { eapply Permutation_NoDup; [|exact Hdg]. apply Permutation_map. apply Permutation_sym. exact Hperm. }
      rewrite map_app, map_flat_map in Hn0. exact Hn0. }
    (* the reference of an executed field *)
    assert (He0 : forall e, In e (ents4 (efd S0) init) ->
              exists n, In n (ents4 efn dg) /\ e4_key n = e4_key e /\
                        Rel (e4_val e) (e4_errs e) (e4_pls e) (e4_val n) (e4_errs n)).
    { intros e He. destruct (ents4_in _ _ _ He) as [fs [csx [rvx [Hin Hd]]]].
      eapply (Hent S0); [|exact Hd]. apply Hdgin. apply in_or_app. left. exact Hin. }
    assert (Heg : forall g E e, In g GL -> snd g = Some E -> In e E ->
              exists n, In n (ents4 efn dg) /\ e4_key n = e4_key e /\
                        Rel (e4_val e) (e4_errs e) (e4_pls e) (e4_val n) (e4_errs n)).
    { intros g E e Hg HE He. destruct (Forall2_in_r _ _ _ _ HF2 Hg) as [sg [Hsg [_ Hm]]].
      rewrite HE in Hm. destruct Hm as [-> _].
      destruct (ents4_in _ _ _ He) as [fs [csx [rvx [Hin Hd]]]].
      eapply (Hent (Plan.ids (fst sg))); [|exact Hd]. apply Hdgin. apply in_or_app. right.
      apply in_flat_map. exists sg. split; assumption. }
    (* every key of the reference is planned *)
    assert (Hcov : forall k, In k (map e4_key (ents4 efn dg)) ->
              In k (map e4_key (ents4 (efd S0) init)) \/
              exists g, In g GL /\ In k (pl_keys (fst g)) /\ (forall E, snd g = Some E -> In k (map e4_key E))).
    { intros k Hw.
      assert (Hkd : exists fs, In (k, fs) dg).
      { apply in_map_iff in Hw as [e [Heq He]]. subst k.
        destruct (ents4_in _ _ _ He) as [fs [_ [_ [Hin _]]]]. exists fs. exact Hin. }
      destruct Hkd as [fs Hin]. apply Hin_dg in Hin as Hin2. apply in_app_or in Hin2 as [Hi|Hi].
      + left. rewrite Forall_forall in Hok0. pose proof (Hnoskip S0 k fs Hw Hin (Hok0 _ Hi)) as Hx.
        apply in_map_iff in Hx as [e [Hke He]]. apply in_map_iff. exists e. split; [exact Hke|].
        unfold ents4 in *. apply in_flat_map in He as [e0 [[<-|[]] He]]. apply in_flat_map. exists (k, fs). split; assumption.
      + right. apply in_flat_map in Hi as [sg [Hsg Hi]].
        destruct (Forall2_in_l _ _ _ _ HF2 Hsg) as [g [Hg [Hk Hm]]]. exists g. split; [exact Hg|]. split.
        * rewrite Hk. apply in_map_iff. exists (k, fs). split; [reflexivity|exact Hi].
        * intros E HE. rewrite HE in Hm. destruct Hm as [-> Hokg]. rewrite Forall_forall in Hokg.
          pose proof (Hnoskip (Plan.ids (fst sg)) k fs Hw Hin (Hokg _ Hi)) as Hx.
          apply in_map_iff in Hx as [e [Hke He]]. apply in_map_iff. exists e. split; [exact Hke|].
          unfold ents4 in *. apply in_flat_map in He as [e0 [[<-|[]] He]]. apply in_flat_map. exists (k, fs). split; assumption. }
    split.
    - apply level_expl; try assumption.
      + intros e He. destruct (He0 e He) as [n [Hn [Hk [R1 _]]]]. exists (e4_val n). split; [|exact R1].
        unfold kvs4. apply in_map_iff. exists n. split; [rewrite Hk; reflexivity|exact Hn].
      + intros g E e Hg HE He. destruct (Heg g E e Hg HE He) as [n [Hn [Hk [R1 _]]]]. exists (e4_val n).
        split; [|exact R1]. unfold kvs4. apply in_map_iff. exists n. split; [rewrite Hk; reflexivity|exact Hn].
      + intros k w Hw. apply Hcov. rewrite <- kvs4_keys. apply in_map_iff. exists (k, w).
        split; [reflexivity|exact Hw].
      + rewrite kvs4_keys. exact Hnn.
    - apply level_acc; try assumption.
      + intros e n He Hn Hk. destruct (He0 e He) as [n' [Hn' [Hk' [_ R2]]]].
        assert (n' = n) by (eapply nodup_key_eq; try eassumption; congruence). subst n'. exact R2.
      + intros g E e n Hg HE He Hn Hk. destruct (Heg g E e Hg HE He) as [n' [Hn' [Hk' [_ R2]]]].
        assert (n' = n) by (eapply nodup_key_eq; try eassumption; congruence). subst n'. exact R2.
      + intros n Hn. apply Hcov. apply in_map. exact Hn.
  Qed.

  Theorem err_clause_all : forall f, XS f /\ XF f /\ XC f.
  Proof.
    induction f as [|f [IHs [IHf IHc]]].
    - repeat split; intros; discriminate.
    - split; [apply stepX_S; exact IHf|]. split; [apply stepX_F; exact IHc|apply stepX_C; assumption].
  Qed.
End ErrClause.

(* ------------------------------------------------------------------ whole responses *)

Theorem err_clause_fuel fuel s d vars root j0 es0 cs0 raw rv jn esn csn pln rvn :
  gexecute_fuel false true fuel s d vars root = DResp j0 es0 cs0 raw rv ->
  gexecute_fuel true false fuel s d vars root = DResp jn esn csn pln rvn ->
  Rel j0 es0 raw jn esn.
Proof.
  unfold gexecute_fuel.
  destruct (coerce_variable_values s (d_vars d) vars) as [cv|]; [|discriminate].
  destruct (root_type s (d_kind d)) as [tn|]; [|discriminate].
  destruct (negb (is_object s tn)); [discriminate|].
  set (flds := match root with DObj _ f => f | _ => [] end).
  intros HD HN.
  destruct (gexec_sels false s (d_frags d) cv true fuel tn flds [([], d_sels d)] [] 0 0)
    as [[[[[r es] cs] pls] rv1]|] eqn:Ed; [|discriminate].
  destruct (err_clause_all s (d_frags d) cv fuel) as [HS _].
  destruct (HS _ _ _ _ [] _ _ _ _ _ _ _ Ed) as [Hw Hx].
  destruct r as [j|].
  - inversion HD; subst; clear HD.
    destruct (gexec_sels true s (d_frags d) cv false fuel tn flds [([], d_sels d)] [] 0 0) as [xn|] eqn:En;
      [|discriminate].
    destruct (Hx j0 eq_refl xn eq_refl) as [jn' [esn' [csn' [pln' [rvn' [-> Hany]]]]]].
    inversion HN; subst. exact Hany.
  - destruct (Hw eq_refl) as [_ Hne]. inversion HD; subst; clear HD.
    apply Rel_null. left. exact Hne.
Qed.

Lemma filter_SubPerm {A} (f : A -> bool) l : SubPerm (filter f l) l.
Proof.
  exists (filter (fun x => negb (f x)) l). induction l as [|x r IH]; cbn; [constructor|].
  destruct (f x); cbn.
  - constructor. exact IH.
  - apply Permutation_sym. apply Permutation_cons_app. apply Permutation_sym. exact IH.
Qed.

Lemma SubPerm_map {A B} (g : A -> B) l' l : SubPerm l' l -> SubPerm (map g l') (map g l).
Proof. intros [rest H]. exists (map g rest). rewrite <- map_app. apply Permutation_map. exact H. Qed.

(* the incremental response is its execution group values filtered by the delivery rule *)
Lemma dexecute_fuel_raw fuel s d vars root :
  dexecute_fuel true fuel s d vars root =
  match gexecute_fuel false true fuel s d vars root with
  | DResp j es cs pls rv => DResp j es cs (deliver pls) rv
  | x => x
  end.
Proof.
  unfold dexecute_fuel, gexecute_fuel.
  destruct (coerce_variable_values s (d_vars d) vars) as [cv|]; [|reflexivity].
  destruct (root_type s (d_kind d)) as [tn|]; [|reflexivity].
  destruct (negb (is_object s tn)); [reflexivity|].
  change (dexec_sels s (d_frags d) cv true) with (gexec_sels false s (d_frags d) cv true).
  destruct (gexec_sels false s (d_frags d) cv true fuel tn _ [([], d_sels d)] [] 0 0)
    as [[[[[[j|] es] cs] pls] rv]|]; reflexivity.
Qed.
