(* C06 - control machines for the stream item queue, the executor's work-finished hook and
   the subscription's aclosing.  Definitions only; proofs in LifecycleProps.v.

   StreamItemQueue (execution/incremental/stream_item_queue.py): control flags and counters only.
   NOT modelled: the bounded entries queue (capacity), hence the producer parked on a full queue and
   _settle_parked; the consumer's batching.  These are explored on the implementation only.
   The machine describes the REPAIRED behaviour for on_abort: every call site goes through [call_cb],
   which calls the callback at most once (flag [cleaned]). *)
From GV Require Import Base.Prelude.

Record qconf := { q_eager : bool; q_has_cb : bool; q_cb_async : bool }.

(* producer task: not created / inside produce() / produce() raised and _run waits for the earlier
   pending items / task finished *)
Inductive prod := PNone | PRun | PFailWait | PDone.

(* asynchronous continuation returned by abort() and not yet run *)
Inductive due := DNone | DCleanup | DSettle.

Record qstate := mkQ {
  q_prod : prod;
  q_cancel_req : bool;      (* producer_task.cancel() requested, task not finished yet *)
  q_aborted : bool;         (* _aborted *)
  q_finished : bool;        (* _finished *)
  q_pending : nat;          (* |_pending_futures| *)
  q_pend_cancelled : bool;  (* the pending futures have been cancelled, not yet discarded *)
  q_cleaned : bool;         (* on_abort call site reached (repaired guard) *)
  q_cb_calls : nat;         (* calls of the on_abort callback = source close calls *)
  q_due : due
}.

Inductive qevent :=
| QStart        (* _start(): eager construction inside a loop, or first consumption *)
| QPushFut      (* producer pushes a still pending item future *)
| QPush         (* producer pushes a settled item *)
| QItemSettle   (* one pending item future settles *)
| QFinish       (* produce() returns *)
| QFail         (* produce() raises *)
| QFailCancelled (* produce() turns the cancellation requested by abort() into an exception
                    (Executor.with_abort_signal raises the abort reason in place of CancelledError) *)
| QAbort        (* abort(reason) *)
| QTick.        (* the event loop runs until nothing is runnable *)

Definition qinit (c : qconf) : qstate :=
  mkQ (if q_eager c then PRun else PNone) false false false 0 false false 0 DNone.

Definition running (s : qstate) : bool :=
  match q_prod s with PNone | PDone => false | _ => true end.

Definition call_cb (c : qconf) (s : qstate) : qstate :=
  if q_cleaned s then s
  else mkQ (q_prod s) (q_cancel_req s) (q_aborted s) (q_finished s) (q_pending s) (q_pend_cancelled s)
           true (if q_has_cb c then S (q_cb_calls s) else q_cb_calls s) (q_due s).

(* the event loop settles everything that is runnable *)
Definition settle (c : qconf) (s : qstate) : qstate :=
  (* 1. a cancelled producer task finishes; cancelled item futures are discarded *)
  let p1 := if q_cancel_req s then PDone else q_prod s in
  let n1 := if q_pend_cancelled s then 0%nat else q_pending s in
  let s1 := mkQ p1 false (q_aborted s) (q_finished s) n1 false (q_cleaned s) (q_cb_calls s) (q_due s) in
  (* 2. _run's failure branch proceeds once the earlier items have settled *)
  let s2 := match q_prod s1, q_pending s1 with
            | PFailWait, O =>
                call_cb c (mkQ PDone false true (q_finished s1) 0 false (q_cleaned s1) (q_cb_calls s1) (q_due s1))
            | _, _ => s1
            end in
  (* 3. the continuation returned by abort() *)
  match q_due s2 with
  | DCleanup =>
      call_cb c (mkQ (q_prod s2) false true (q_finished s2) (q_pending s2) false (q_cleaned s2) (q_cb_calls s2) DNone)
  | DSettle => mkQ (q_prod s2) false (q_aborted s2) (q_finished s2) (q_pending s2) false (q_cleaned s2) (q_cb_calls s2) DNone
  | DNone => s2
  end.

(* abort(reason): (state, returned an awaitable?) *)
Definition do_qabort (c : qconf) (s : qstate) : qstate * bool :=
  if q_aborted s then (s, false)
  else if q_finished s then
    match q_pending s with
    | O => (mkQ (q_prod s) (q_cancel_req s) true true 0 (q_pend_cancelled s) (q_cleaned s) (q_cb_calls s) (q_due s), false)
    | _ => (mkQ (q_prod s) (q_cancel_req s) true true (q_pending s) true (q_cleaned s) (q_cb_calls s) DSettle, true)
    end
  else if running s || negb (Nat.eqb (q_pending s) 0)
  then (mkQ (q_prod s) (running s) true false (q_pending s) (negb (Nat.eqb (q_pending s) 0))
            (q_cleaned s) (q_cb_calls s) DCleanup, true)
  else let s' := call_cb c (mkQ (q_prod s) (q_cancel_req s) true false (q_pending s) (q_pend_cancelled s)
                                (q_cleaned s) (q_cb_calls s) (q_due s)) in
       (s', q_has_cb c && q_cb_async c).

Definition producing (s : qstate) : bool :=
  match q_prod s with PRun => negb (q_cancel_req s) | _ => false end.

(* is the event possible in this state (the harness skips impossible ones) *)
Definition applicable (s : qstate) (e : qevent) : bool :=
  match e with
  | QStart => true
  | QPushFut | QPush | QFinish | QFail => producing s
  | QFailCancelled => match q_prod s with PRun => q_cancel_req s | _ => false end
  | QItemSettle => negb (Nat.eqb (q_pending s) 0) && negb (q_pend_cancelled s)
  | QAbort | QTick => true
  end.

Definition qstep (c : qconf) (s : qstate) (e : qevent) : qstate * bool :=
  if negb (applicable s e) then (s, false) else
  match e with
  | QStart =>
      (match q_prod s with
       | PNone => if q_aborted s then s
                  else mkQ PRun (q_cancel_req s) (q_aborted s) (q_finished s) (q_pending s) (q_pend_cancelled s)
                           (q_cleaned s) (q_cb_calls s) (q_due s)
       | _ => s
       end, false)
  | QPushFut => (mkQ (q_prod s) (q_cancel_req s) (q_aborted s) (q_finished s) (S (q_pending s)) (q_pend_cancelled s)
                     (q_cleaned s) (q_cb_calls s) (q_due s), false)
  | QPush => (s, false)
  | QItemSettle => (mkQ (q_prod s) (q_cancel_req s) (q_aborted s) (q_finished s) (pred (q_pending s))
                        (q_pend_cancelled s) (q_cleaned s) (q_cb_calls s) (q_due s), false)
  | QFinish => (mkQ PDone false (q_aborted s) true (q_pending s) (q_pend_cancelled s)
                    (q_cleaned s) (q_cb_calls s) (q_due s), false)
  | QFail | QFailCancelled =>
      (mkQ PFailWait false (q_aborted s) (q_finished s) (q_pending s) (q_pend_cancelled s)
           (q_cleaned s) (q_cb_calls s) (q_due s), false)
  | QAbort => do_qabort c s
  | QTick => (settle c s, false)
  end.

Fixpoint qrun (c : qconf) (s : qstate) (es : list qevent) : qstate :=
  match es with
  | [] => s
  | e :: es' => qrun c (fst (qstep c s e)) es'
  end.

(* the trace contains an abort or a failure that took effect *)
Definition stopped_early (s : qstate) : bool := q_aborted s && negb (q_finished s).

(* nothing of the queue is left running *)
Definition quiescent (s : qstate) : bool :=
  negb (running s) && Nat.eqb (q_pending s) 0 && match q_due s with DNone => true | _ => false end.

(* acceptance of a trace recorded from a real run: the recording does not show when the event loop ran,
   so before every event the loop may or may not have settled; the set of possible states is tracked *)
Definition due_eqb (a b : due) : bool :=
  match a, b with DNone, DNone | DCleanup, DCleanup | DSettle, DSettle => true | _, _ => false end.
Definition prod_eqb (a b : prod) : bool :=
  match a, b with PNone, PNone | PRun, PRun | PFailWait, PFailWait | PDone, PDone => true | _, _ => false end.
Definition qstate_eqb (a b : qstate) : bool :=
  prod_eqb (q_prod a) (q_prod b) && Bool.eqb (q_cancel_req a) (q_cancel_req b) &&
  Bool.eqb (q_aborted a) (q_aborted b) && Bool.eqb (q_finished a) (q_finished b) &&
  Nat.eqb (q_pending a) (q_pending b) && Bool.eqb (q_pend_cancelled a) (q_pend_cancelled b) &&
  Bool.eqb (q_cleaned a) (q_cleaned b) && Nat.eqb (q_cb_calls a) (q_cb_calls b) && due_eqb (q_due a) (q_due b).

Definition add_state (s : qstate) (l : list qstate) : list qstate :=
  if existsb (qstate_eqb s) l then l else s :: l.

Definition qnext (c : qconf) (ss : list qstate) (e : qevent) : list qstate :=
  fold_right (fun s acc =>
    let acc1 := if applicable s e then add_state (fst (qstep c s e)) acc else acc in
    let s' := settle c s in
    if applicable s' e then add_state (fst (qstep c s' e)) acc1 else acc1) [] ss.

(* ------------------------------------------------------------------------------------------
   Executor bookkeeping for the work-finished hook (executor.py: settle_in_background,
   run_async_work_finished_hook / wait_and_run_hook). *)
Record hstate := mkH {
  h_bg : nat;          (* |background_futures| *)
  h_waiting : nat;     (* wait_and_run_hook tasks alive *)
  h_fired : nat;       (* calls of the hook *)
  h_fired_busy : nat   (* calls of the hook made while background work was outstanding *)
}.

Inductive hevent :=
| HAdd         (* settle_in_background adds a gather future *)
| HSettle      (* one background future settles *)
| HRunHook     (* run_async_work_finished_hook() *)
| HWake.       (* a wait_and_run_hook task is resumed by the loop *)

Definition hinit := mkH 0 0 0 0.

Definition hstep (s : hstate) (e : hevent) : hstate :=
  match e with
  | HAdd => mkH (S (h_bg s)) (h_waiting s) (h_fired s) (h_fired_busy s)
  | HSettle => mkH (pred (h_bg s)) (h_waiting s) (h_fired s) (h_fired_busy s)
  | HRunHook =>
      match h_bg s with
      | O => mkH 0 (h_waiting s) (S (h_fired s)) (h_fired_busy s)            (* synchronous path *)
      | _ => mkH (h_bg s) (S (h_waiting s)) (h_fired s) (h_fired_busy s)     (* wait_and_run_hook *)
      end
  | HWake =>
      match h_waiting s, h_bg s with
      | S w, O => mkH 0 w (S (h_fired s)) (h_fired_busy s)   (* while background_futures: ... ; hook() *)
      | _, _ => s                                            (* keeps waiting *)
      end
  end.

Fixpoint hrun (s : hstate) (es : list hevent) : hstate :=
  match es with [] => s | e :: r => hrun (hstep s e) r end.

Definition count_runhook (es : list hevent) : nat :=
  length (filter (fun e => match e with HRunHook => true | _ => false end) es).

(* the call sites of run_async_work_finished_hook, one list of bookkeeping calls per way an
   operation can end (executor.py execute_operation / build_response; incremental_publisher.py
   _subscribe finally) *)
Inductive path := PathSync | PathAsyncResult | PathAsyncRaise | PathAbortedAtEntry
                | PathAbortedWhilePending | PathIncremental.

Definition path_calls (p : path) : list hevent :=
  match p with
  | PathSync => [HRunHook]                          (* build_response *)
  | PathAsyncResult => [HRunHook]                   (* await_result -> build_response *)
  | PathAsyncRaise => [HRunHook]                    (* await_result except: cancel, hook, raise *)
  | PathAbortedAtEntry => [HRunHook]                (* aborted before execution *)
  | PathAbortedWhilePending => [HAdd; HRunHook]     (* settle_in_background([task]); the task ends in build_response *)
  | PathIncremental => [HRunHook]                   (* _subscribe: finally *)
  end.

(* ------------------------------------------------------------------------------------------
   map_async_iterable / aclosing (async_iterables.py): the mapped generator owns the source. *)
Inductive gstate := GCreated | GSuspended | GClosed.

Record astate := mkA { a_gen : gstate; a_close_calls : nat }.

Inductive aevent :=
| ANextItem      (* anext: the source yields, the callback succeeds, the generator yields *)
| ANextEnd       (* anext: the source is exhausted *)
| ANextRaise     (* anext: the source or the callback raises *)
| AClose.        (* aclose() of the mapped generator *)

Definition ainit := mkA GCreated 0.

Definition astep (s : astate) (e : aevent) : astate :=
  match a_gen s, e with
  | GClosed, _ => s
  | GCreated, AClose => mkA GClosed (a_close_calls s)          (* body never entered: aclosing not entered *)
  | _, ANextItem => mkA GSuspended (a_close_calls s)
  | _, ANextEnd | _, ANextRaise | GSuspended, AClose => mkA GClosed (S (a_close_calls s))   (* __aexit__ *)
  end.

Fixpoint arun (s : astate) (es : list aevent) : astate :=
  match es with [] => s | e :: r => arun (astep s e) r end.

Definition entered (es : list aevent) : bool :=
  match es with
  | [] | AClose :: _ => false
  | _ => true
  end.
