(* C06 - control machines for the stream item queue, the executor's work-finished hook and
   the subscription's aclosing.  Definitions only; proofs in LifecycleProps.v.

   StreamItemQueue (execution/incremental/stream_item_queue.py): control flags, the occupancy of the
   bounded entries queue and the counters.  Steps are "macro" steps: QTick lets the event loop run until
   nothing is runnable.  NOT modelled: the content of the entries (batching, _stopped).  A consumer takes
   entries either explicitly (QDrain, any time) or, when no item future is pending, at every QTick.
   Every call site of on_abort goes through [call_cb] (= _run_on_abort, flag _cleaned). *)
From GV Require Import Base.Prelude.

Record qconf := { q_eager : bool; q_has_cb : bool; q_cb_async : bool; q_cap : nat }.

(* producer task: not created / inside produce() / blocked in push() on the full queue / produce()
   raised and _run waits for the earlier pending items / blocked putting the final entry (END or the
   error) on the full queue / task finished *)
Inductive prod := PNone | PRun | PBlocked | PFailWait | PParked | PDone.

(* asynchronous continuation returned by abort() and not yet run: _cleanup / _settle_parked *)
Inductive due := DNone | DCleanup | DSettle.

Record qstate := mkQ {
  q_prod : prod;
  q_cancel_req : bool;      (* producer_task.cancel() requested, task not finished yet *)
  q_pcancelled : bool;      (* _producer_cancelled *)
  q_parked : bool;          (* _producer_parked *)
  q_aborted : bool;         (* _aborted *)
  q_finished : bool;        (* _finished *)
  q_consuming : bool;       (* batches() is being iterated by a consumer that drains the queue *)
  q_entries : nat;          (* occupancy of the bounded entries queue *)
  q_pending : nat;          (* |_pending_futures| *)
  q_pend_cancelled : bool;  (* the pending futures have been cancelled, not yet discarded *)
  q_cleaned : bool;         (* _cleaned: the abort callback has been run *)
  q_cb_calls : nat;         (* calls of the on_abort callback = source close calls *)
  q_due : due
}.

Inductive qevent :=
| QStart        (* first consumption: _start() and a consumer draining the queue *)
| QPushFut      (* producer pushes a still pending item future *)
| QPush         (* producer pushes a settled item *)
| QItemSettle   (* one pending item future settles *)
| QFinish       (* produce() returns *)
| QFail         (* produce() raises *)
| QFailCancelled (* produce() turns the cancellation requested by abort() into an exception
                    (Executor.with_abort_signal raises the abort reason in place of CancelledError) *)
| QAbort        (* abort(reason) *)
| QTick         (* the event loop runs until nothing is runnable *)
| QDrain.       (* the consumer takes every entry that is in the queue *)

Definition qinit (c : qconf) : qstate :=
  mkQ (if q_eager c then PRun else PNone) false false false false false false 0 0 false false 0 DNone.

Definition running (s : qstate) : bool :=
  match q_prod s with PNone | PDone => false | _ => true end.

(* the queue accepts one more entry (capacity 0 = unbounded, as asyncio.Queue) *)
Definition has_room (c : qconf) (s : qstate) : bool :=
  Nat.eqb (q_cap c) 0 || Nat.ltb (q_entries s) (q_cap c).

(* _run_on_abort: the abort callback runs at most once in the lifetime of the queue *)
Definition call_cb (c : qconf) (s : qstate) : qstate :=
  if q_cleaned s then s
  else mkQ (q_prod s) (q_cancel_req s) (q_pcancelled s) (q_parked s) (q_aborted s) (q_finished s)
           (q_consuming s) (q_entries s) (q_pending s) (q_pend_cancelled s)
           true (if q_has_cb c then S (q_cb_calls s) else q_cb_calls s) (q_due s).

(* put of the final entry (END / error entry): done at once if there is room, else the producer parks *)
Definition put_final (room : bool) (s : qstate) : qstate :=
  if room
  then mkQ PDone (q_cancel_req s) (q_pcancelled s) true (q_aborted s) (q_finished s) (q_consuming s)
           (S (q_entries s)) (q_pending s) (q_pend_cancelled s) (q_cleaned s) (q_cb_calls s) (q_due s)
  else mkQ PParked (q_cancel_req s) (q_pcancelled s) true (q_aborted s) (q_finished s) (q_consuming s)
           (q_entries s) (q_pending s) (q_pend_cancelled s) (q_cleaned s) (q_cb_calls s) (q_due s).

(* 1. a cancelled producer task finishes; cancelled item futures are discarded *)
Definition settle_cancel (s : qstate) : qstate :=
  mkQ (if q_cancel_req s then PDone else q_prod s) false (q_pcancelled s) (q_parked s) (q_aborted s)
      (q_finished s) (q_consuming s) (q_entries s)
      (if q_pend_cancelled s then 0%nat else q_pending s) false (q_cleaned s) (q_cb_calls s) (q_due s).

(* 2. _run's failure branch proceeds once the earlier items have settled: _aborted, callback, final put *)
Definition settle_fail (c : qconf) (s : qstate) : qstate :=
  match q_prod s, q_pending s with
  | PFailWait, O =>
      put_final (has_room c s) (call_cb c (mkQ PFailWait (q_cancel_req s) (q_pcancelled s) (q_parked s) true (q_finished s)
                                  (q_consuming s) (q_entries s) 0 (q_pend_cancelled s) (q_cleaned s)
                                  (q_cb_calls s) (q_due s)))
  | _, _ => s
  end.

(* 3. the continuation returned by abort(): _cleanup cancels a producer that is still running, awaits it
   and runs the callback; _settle_parked only awaits *)
Definition settle_due (c : qconf) (s : qstate) : qstate :=
  match q_due s with
  | DCleanup =>
      call_cb c (mkQ (if running s then PDone else q_prod s) false (running s || q_pcancelled s) (q_parked s) true
                     (q_finished s) (q_consuming s) (q_entries s) 0 false (q_cleaned s)
                     (q_cb_calls s) DNone)
  | DSettle => mkQ (q_prod s) (q_cancel_req s) (q_pcancelled s) (q_parked s) (q_aborted s) (q_finished s)
                   (q_consuming s) (q_entries s) 0 false (q_cleaned s)
                   (q_cb_calls s) DNone
  | DNone => s
  end.

(* 4. a consumer that is not waiting for a pending item drains the queue; a producer blocked on the
   full queue goes on *)
Definition settle_queue (c : qconf) (s : qstate) : qstate :=
  let drains := q_consuming s && Nat.eqb (q_pending s) 0 in
  let e := if drains then 0%nat else q_entries s in
  let room := Nat.eqb (q_cap c) 0 || Nat.ltb e (q_cap c) in
  match q_prod s with
  | PBlocked => if room
                then mkQ PRun (q_cancel_req s) (q_pcancelled s) (q_parked s) (q_aborted s) (q_finished s)
                         (q_consuming s) (if drains then 0%nat else S e) (q_pending s)
                         (q_pend_cancelled s) (q_cleaned s) (q_cb_calls s) (q_due s)
                else s
  | PParked => if room
               then mkQ PDone (q_cancel_req s) (q_pcancelled s) (q_parked s) (q_aborted s) (q_finished s)
                        (q_consuming s) (if drains then 0%nat else S e) (q_pending s)
                        (q_pend_cancelled s) (q_cleaned s) (q_cb_calls s) (q_due s)
               else s
  | _ => mkQ (q_prod s) (q_cancel_req s) (q_pcancelled s) (q_parked s) (q_aborted s) (q_finished s)
             (q_consuming s) e (q_pending s) (q_pend_cancelled s) (q_cleaned s) (q_cb_calls s) (q_due s)
  end.

(* the event loop settles everything that is runnable *)
Definition settle (c : qconf) (s : qstate) : qstate :=
  settle_queue c (settle_due c (settle_fail c (settle_cancel s))).

(* abort(reason): (state, returned an awaitable?) - follows the branches of the method *)
Definition do_qabort (c : qconf) (s : qstate) : qstate * bool :=
  let parked := running s && q_parked s && negb (q_pcancelled s) in
  (* release the producer parked on the back-pressured queue *)
  let cr1 := q_cancel_req s || parked in
  let pc1 := q_pcancelled s || parked in
  if q_aborted s then
    (mkQ (q_prod s) cr1 pc1 (q_parked s) true (q_finished s) (q_consuming s) (q_entries s) (q_pending s)
         (q_pend_cancelled s) (q_cleaned s) (q_cb_calls s)
         (if parked then match q_due s with DNone => DSettle | d => d end else q_due s), parked)
  else if q_finished s then
    if negb parked && Nat.eqb (q_pending s) 0
    then (mkQ (q_prod s) cr1 pc1 (q_parked s) true true (q_consuming s) (q_entries s) (q_pending s)
              (q_pend_cancelled s) (q_cleaned s) (q_cb_calls s) (q_due s), false)
    else (mkQ (q_prod s) cr1 pc1 (q_parked s) true true (q_consuming s) (q_entries s) (q_pending s)
              (negb (Nat.eqb (q_pending s) 0)) (q_cleaned s) (q_cb_calls s) DSettle, true)
  else
    let cancel_now := running s && negb pc1 in
    let cr2 := cr1 || cancel_now in
    let pc2 := pc1 || cancel_now in
    if negb (running s) && Nat.eqb (q_pending s) 0
    then let s' := call_cb c (mkQ (q_prod s) cr2 pc2 (q_parked s) true false (q_consuming s) (q_entries s)
                                  (q_pending s) (q_pend_cancelled s) (q_cleaned s) (q_cb_calls s) (q_due s)) in
         (s', q_has_cb c && q_cb_async c && negb (q_cleaned s))
    else (mkQ (q_prod s) cr2 pc2 (q_parked s) true false (q_consuming s) (q_entries s) (q_pending s)
              (negb (Nat.eqb (q_pending s) 0)) (q_cleaned s) (q_cb_calls s) DCleanup, true).

Definition producing (s : qstate) : bool :=
  match q_prod s with PRun => negb (q_cancel_req s) | _ => false end.

(* is the event possible in this state (the harness skips impossible ones) *)
Definition applicable (s : qstate) (e : qevent) : bool :=
  match e with
  | QStart => true
  | QPushFut | QPush | QFinish | QFail => producing s
  | QFailCancelled => match q_prod s with PRun | PBlocked => q_cancel_req s | _ => false end
  | QItemSettle => negb (Nat.eqb (q_pending s) 0) && negb (q_pend_cancelled s)
  | QDrain => q_consuming s
  | QAbort | QTick => true
  end.

Definition do_push (c : qconf) (s : qstate) (isfut : bool) : qstate :=
  let n := if isfut then S (q_pending s) else q_pending s in
  if has_room c s
  then mkQ PRun (q_cancel_req s) (q_pcancelled s) (q_parked s) (q_aborted s) (q_finished s) (q_consuming s)
           (S (q_entries s)) n (q_pend_cancelled s) (q_cleaned s) (q_cb_calls s) (q_due s)
  else mkQ PBlocked (q_cancel_req s) (q_pcancelled s) (q_parked s) (q_aborted s) (q_finished s) (q_consuming s)
           (q_entries s) n (q_pend_cancelled s) (q_cleaned s) (q_cb_calls s) (q_due s).

Definition qstep (c : qconf) (s : qstate) (e : qevent) : qstate * bool :=
  if negb (applicable s e) then (s, false) else
  match e with
  | QStart =>
      (mkQ (match q_prod s with PNone => if q_aborted s then PNone else PRun | p => p end)
           (q_cancel_req s) (q_pcancelled s) (q_parked s) (q_aborted s) (q_finished s) true (q_entries s)
           (q_pending s) (q_pend_cancelled s) (q_cleaned s) (q_cb_calls s) (q_due s), false)
  | QPushFut => (do_push c s true, false)
  | QPush => (do_push c s false, false)
  | QItemSettle => (mkQ (q_prod s) (q_cancel_req s) (q_pcancelled s) (q_parked s) (q_aborted s) (q_finished s)
                        (q_consuming s) (q_entries s) (pred (q_pending s)) (q_pend_cancelled s) (q_cleaned s)
                        (q_cb_calls s) (q_due s), false)
  | QFinish => (put_final (has_room c s) (mkQ PRun (q_cancel_req s) (q_pcancelled s) (q_parked s) (q_aborted s) true
                                 (q_consuming s) (q_entries s) (q_pending s) (q_pend_cancelled s) (q_cleaned s)
                                 (q_cb_calls s) (q_due s)), false)
  | QFail | QFailCancelled =>
      (mkQ PFailWait false (q_pcancelled s) (q_parked s) (q_aborted s) (q_finished s) (q_consuming s)
           (q_entries s) (q_pending s) (q_pend_cancelled s) (q_cleaned s) (q_cb_calls s) (q_due s), false)
  | QAbort => do_qabort c s
  | QTick => (settle c s, false)
  | QDrain => (mkQ (q_prod s) (q_cancel_req s) (q_pcancelled s) (q_parked s) (q_aborted s) (q_finished s)
                   (q_consuming s) 0 (q_pending s) (q_pend_cancelled s) (q_cleaned s) (q_cb_calls s) (q_due s), false)
  end.

Fixpoint qrun (c : qconf) (s : qstate) (es : list qevent) : qstate :=
  match es with
  | [] => s
  | e :: es' => qrun c (fst (qstep c s e)) es'
  end.

(* the trace contains an abort or a failure that took effect *)
Definition stopped_early (s : qstate) : bool := q_aborted s && negb (q_finished s).

(* nothing of the queue is left running *)
Definition quiescent (s : qstate) : bool :=
  negb (running s) && Nat.eqb (q_pending s) 0 && match q_due s with DNone => true | _ => false end.

(* acceptance of a trace recorded from a real run: the recording does not show when the event loop ran,
   so before every event the loop may or may not have settled; the set of possible states is tracked *)
Definition due_eqb (a b : due) : bool :=
  match a, b with DNone, DNone | DCleanup, DCleanup | DSettle, DSettle => true | _, _ => false end.
Definition prod_eqb (a b : prod) : bool :=
  match a, b with
  | PNone, PNone | PRun, PRun | PBlocked, PBlocked | PFailWait, PFailWait | PParked, PParked | PDone, PDone => true
  | _, _ => false
  end.
Definition qstate_eqb (a b : qstate) : bool :=
  prod_eqb (q_prod a) (q_prod b) && Bool.eqb (q_cancel_req a) (q_cancel_req b) &&
  Bool.eqb (q_pcancelled a) (q_pcancelled b) && Bool.eqb (q_parked a) (q_parked b) &&
  Bool.eqb (q_aborted a) (q_aborted b) && Bool.eqb (q_finished a) (q_finished b) &&
  Bool.eqb (q_consuming a) (q_consuming b) && Nat.eqb (q_entries a) (q_entries b) &&
  Nat.eqb (q_pending a) (q_pending b) && Bool.eqb (q_pend_cancelled a) (q_pend_cancelled b) &&
  Bool.eqb (q_cleaned a) (q_cleaned b) && Nat.eqb (q_cb_calls a) (q_cb_calls b) && due_eqb (q_due a) (q_due b).

Definition add_state (s : qstate) (l : list qstate) : list qstate :=
  if existsb (qstate_eqb s) l then l else s :: l.

Definition qnext (c : qconf) (ss : list qstate) (e : qevent) : list qstate :=
  fold_right (fun s acc =>
    let acc1 := if applicable s e then add_state (fst (qstep c s e)) acc else acc in
    let s' := settle c s in
    if applicable s' e then add_state (fst (qstep c s' e)) acc1 else acc1) [] ss.

(* ------------------------------------------------------------------------------------------
   Executor bookkeeping for the work-finished hook (executor.py: settle_in_background,
   run_async_work_finished_hook / wait_and_run_hook). *)
Record hstate := mkH {
  h_bg : nat;          (* |background_futures| *)
  h_waiting : nat;     (* wait_and_run_hook tasks alive *)
  h_fired : nat;       (* calls of the hook *)
  h_fired_busy : nat   (* calls of the hook made while background work was outstanding *)
}.

Inductive hevent :=
| HAdd         (* settle_in_background adds a gather future *)
| HSettle      (* one background future settles *)
| HRunHook     (* run_async_work_finished_hook() *)
| HWake.       (* a wait_and_run_hook task is resumed by the loop *)

Definition hinit := mkH 0 0 0 0.

Definition hstep (s : hstate) (e : hevent) : hstate :=
  match e with
  | HAdd => mkH (S (h_bg s)) (h_waiting s) (h_fired s) (h_fired_busy s)
  | HSettle => mkH (pred (h_bg s)) (h_waiting s) (h_fired s) (h_fired_busy s)
  | HRunHook =>
      match h_bg s with
      | O => mkH 0 (h_waiting s) (S (h_fired s)) (h_fired_busy s)            (* synchronous path *)
      | _ => mkH (h_bg s) (S (h_waiting s)) (h_fired s) (h_fired_busy s)     (* wait_and_run_hook *)
      end
  | HWake =>
      match h_waiting s, h_bg s with
      | S w, O => mkH 0 w (S (h_fired s)) (h_fired_busy s)   (* while background_futures: ... ; hook() *)
      | _, _ => s                                            (* keeps waiting *)
      end
  end.

Fixpoint hrun (s : hstate) (es : list hevent) : hstate :=
  match es with [] => s | e :: r => hrun (hstep s e) r end.

Definition count_runhook (es : list hevent) : nat :=
  length (filter (fun e => match e with HRunHook => true | _ => false end) es).

(* the call sites of run_async_work_finished_hook, one list of bookkeeping calls per way an
   operation can end (executor.py execute_operation / build_response; incremental_publisher.py
   _subscribe finally) *)
Inductive path := PathSync | PathAsyncResult | PathAsyncRaise | PathAbortedAtEntry
                | PathAbortedWhilePending | PathIncremental.

Definition path_calls (p : path) : list hevent :=
  match p with
  | PathSync => [HRunHook]                          (* build_response *)
  | PathAsyncResult => [HRunHook]                   (* await_result -> build_response *)
  | PathAsyncRaise => [HRunHook]                    (* await_result except: cancel, hook, raise *)
  | PathAbortedAtEntry => [HRunHook]                (* aborted before execution *)
  | PathAbortedWhilePending => [HAdd; HRunHook]     (* settle_in_background([task]); the task ends in build_response *)
  | PathIncremental => [HRunHook]                   (* _subscribe: finally *)
  end.

(* ------------------------------------------------------------------------------------------
   map_async_iterable / aclosing (async_iterables.py): the mapped generator owns the source. *)
Inductive gstate := GCreated | GSuspended | GClosed.

Record astate := mkA { a_gen : gstate; a_close_calls : nat }.

Inductive aevent :=
| ANextItem      (* anext: the source yields, the callback succeeds, the generator yields *)
| ANextEnd       (* anext: the source is exhausted *)
| ANextRaise     (* anext: the source or the callback raises *)
| AClose.        (* aclose() of the mapped generator *)

Definition ainit := mkA GCreated 0.

Definition astep (s : astate) (e : aevent) : astate :=
  match a_gen s, e with
  | GClosed, _ => s
  | GCreated, AClose => mkA GClosed (a_close_calls s)          (* body never entered: aclosing not entered *)
  | _, ANextItem => mkA GSuspended (a_close_calls s)
  | _, ANextEnd | _, ANextRaise | GSuspended, AClose => mkA GClosed (S (a_close_calls s))   (* __aexit__ *)
  end.

Fixpoint arun (s : astate) (es : list aevent) : astate :=
  match es with [] => s | e :: r => arun (astep s e) r end.

Definition entered (es : list aevent) : bool :=
  match es with
  | [] | AClose :: _ => false
  | _ => true
  end.
