(* C05 - the work-queue graph state machine of execution/incremental/work_queue.py.
   Definitions only.  Groups, tasks and streams are numbers; the static description of the work
   (which groups a task belongs to, the work a task result / stream item carries, parents) is the
   environment [env].  Every task computation is a pending future settled by an explicit graph
   event, every stream is a scripted queue driven by explicit events (as the harness drives the real
   WorkQueue).  Python dicts used as ordered sets are lists with add-at-end / remove.
   [_task_failure] emits a failure event for every group of the failed task that has a node, also
   for groups that are not roots (never announced); the publisher drops those. *)
From GV Require Import Base.Prelude Incr.Protocol.

(* ---------------------------------------------------------------- dict / ordered set helpers *)
Fixpoint aget {A} (k : N) (l : list (N * A)) : option A :=
  match l with
  | [] => None
  | (k', v) :: r => if k =? k' then Some v else aget k r
  end.

(* d[k] = v : replace in place or append *)
Fixpoint aset {A} (k : N) (v : A) (l : list (N * A)) : list (N * A) :=
  match l with
  | [] => [(k, v)]
  | (k', v') :: r => if k =? k' then (k, v) :: r else (k', v') :: aset k v r
  end.

Definition adel {A} (k : N) (l : list (N * A)) : list (N * A) :=
  filter (fun p => negb (fst p =? k)) l.

Definition ahas {A} (k : N) (l : list (N * A)) : bool :=
  match aget k l with Some _ => true | None => false end.

Definition sadd (k : N) (l : list N) : list N := if memN k l then l else l ++ [k].
Definition sdel (k : N) (l : list N) : list N := filter (fun x => negb (x =? k)) l.

(* ---------------------------------------------------------------- static work description *)
Record work := mkWork { w_groups : list N; w_tasks : list N; w_streams : list N }.
Definition no_work : work := mkWork [] [] [].

Record env := mkEnv {
  e_parent : list (N * N);          (* group -> parent group (absent: no parent) *)
  e_tgroups : list (N * list N);    (* task -> its groups *)
  e_twork : list (N * work);        (* task -> work carried by its result *)
  e_items : list (N * list work)    (* stream -> work carried by each of its items, in order *)
}.
Definition parent (E : env) (g : N) : option N := agetN g (e_parent E).
Definition tgroups (E : env) (t : N) : list N :=
  match aget t (e_tgroups E) with Some l => l | None => [] end.
Definition twork (E : env) (t : N) : work :=
  match aget t (e_twork E) with Some w => w | None => no_work end.
Definition sitems (E : env) (s : N) : list work :=
  match aget s (e_items E) with Some l => l | None => [] end.

(* ---------------------------------------------------------------- events *)
Inductive gevent :=
| TaskOk (t : N)
| TaskFail (t : N)
| Items (s : N) (n : nat) (stopped : bool)   (* next n items; queue already knows it stopped *)
| StreamOk (s : N)
| StreamFail (s : N).

Inductive wqevent :=
| GroupValues (g : N) (tasks : list N)        (* the values are identified by their tasks *)
| GroupSuccess (g : N) (new_groups new_streams : list N)
| GroupFailure (g : N)
| StreamValues (s : N) (first count : nat) (new_groups new_streams : list N)
| StreamSuccess (s : N)
| StreamFailure (s : N)
| Termination.

(* ---------------------------------------------------------------- graph state *)
Record gnode := mkG { gn_children : list N; gn_tasks : list N; gn_pending : nat }.
(* tn_owed: a group pruned as complete relies on the delivery of the value by another group *)
Record tnode := mkT { tn_done : bool; tn_streams : list N; tn_owed : bool }.

Record state := mkS {
  roots : list N;                 (* _root_groups *)
  rstreams : list N;              (* _root_streams *)
  gnodes : list (N * gnode);      (* _group_nodes *)
  tnodes : list (N * tnode);      (* _task_nodes *)
  stopped : bool;                 (* _stopped *)
  (* environment side: futures and scripted queues *)
  started : list N;               (* tasks whose computation has been started *)
  settled : list N;               (* tasks whose future has settled *)
  sstarted : list N;              (* streams with a pump *)
  sended : list N;                (* streams whose pump has finished *)
  spos : list (N * nat);          (* items already taken from each stream *)
  oof : bool                      (* a fuel-bounded recursion ran out of fuel (never, see props) *)
}.

Definition empty_state : state := mkS [] [] [] [] false [] [] [] [] [] false.

Definition set_roots r (s : state) := mkS r (rstreams s) (gnodes s) (tnodes s) (stopped s) (started s) (settled s) (sstarted s) (sended s) (spos s) (oof s).
Definition set_rstreams r (s : state) := mkS (roots s) r (gnodes s) (tnodes s) (stopped s) (started s) (settled s) (sstarted s) (sended s) (spos s) (oof s).
Definition set_gnodes g (s : state) := mkS (roots s) (rstreams s) g (tnodes s) (stopped s) (started s) (settled s) (sstarted s) (sended s) (spos s) (oof s).
Definition set_tnodes t (s : state) := mkS (roots s) (rstreams s) (gnodes s) t (stopped s) (started s) (settled s) (sstarted s) (sended s) (spos s) (oof s).
Definition set_stopped b (s : state) := mkS (roots s) (rstreams s) (gnodes s) (tnodes s) b (started s) (settled s) (sstarted s) (sended s) (spos s) (oof s).
Definition set_started l (s : state) := mkS (roots s) (rstreams s) (gnodes s) (tnodes s) (stopped s) l (settled s) (sstarted s) (sended s) (spos s) (oof s).
Definition set_settled l (s : state) := mkS (roots s) (rstreams s) (gnodes s) (tnodes s) (stopped s) (started s) l (sstarted s) (sended s) (spos s) (oof s).
Definition set_sstarted l (s : state) := mkS (roots s) (rstreams s) (gnodes s) (tnodes s) (stopped s) (started s) (settled s) l (sended s) (spos s) (oof s).
Definition set_sended l (s : state) := mkS (roots s) (rstreams s) (gnodes s) (tnodes s) (stopped s) (started s) (settled s) (sstarted s) l (spos s) (oof s).
Definition set_spos l (s : state) := mkS (roots s) (rstreams s) (gnodes s) (tnodes s) (stopped s) (started s) (settled s) (sstarted s) (sended s) l (oof s).
Definition set_oof (s : state) := mkS (roots s) (rstreams s) (gnodes s) (tnodes s) (stopped s) (started s) (settled s) (sstarted s) (sended s) (spos s) true.

(* ---------------------------------------------------------------- _add_groups / _add_group *)
(* accumulator: visited, new root groups, group nodes *)
Definition gacc := (list N * list N * list (N * gnode))%type.

Fixpoint add_group (fuel : nat) (E : env) (gset : list N) (ptask : bool) (g : N) (acc : gacc) : gacc :=
  match fuel with
  | O => acc
  | S f =>
    let '(vis, nr, gn) := acc in
    if memN g vis then acc else
    let acc1 : gacc :=
      match parent E g with
      | Some p => if memN p gset then add_group f E gset ptask p (g :: vis, nr, gn)
                  else (g :: vis, nr, gn)
      | None => (g :: vis, nr, gn)
      end in
    let '(vis1, nr1, gn1) := acc1 in
    let gn2 := aset g (mkG [] [] 0) gn1 in
    match parent E g with
    | None => if ptask then (vis1, nr1, gn2) else (vis1, nr1 ++ [g], gn2)
    | Some p =>
        match aget p gn2 with
        | Some pn => (vis1, nr1, aset p (mkG (gn_children pn ++ [g]) (gn_tasks pn) (gn_pending pn)) gn2)
        | None => (vis1, nr1, gn2)
        end
    end
  end.

Definition add_groups (E : env) (gs : list N) (ptask : bool) (gn : list (N * gnode))
  : list N * list (N * gnode) :=
  let '(_, nr, gn') :=
    fold_left (fun acc g => add_group (S (length gs)) E gs ptask g acc) gs ([], [], gn) in
  (nr, gn').

(* ---------------------------------------------------------------- _start_task / _start_group *)
Definition start_task (t : N) (s : state) : state :=
  if ahas t (tnodes s) then s
  else set_started (sadd t (started s)) (set_tnodes (aset t (mkT false [] false) (tnodes s)) s).

Definition start_group (g : N) (s : state) : state :=
  match aget g (gnodes s) with
  | Some n => fold_left (fun s t => start_task t s) (gn_tasks n) s
  | None => s
  end.

Definition start_stream (x : N) (s : state) : state := set_sstarted (sadd x (sstarted s)) s.

(* _start_new_work *)
Definition start_new_work (ngs nss : list N) (s : state) : state :=
  let s1 := fold_left (fun s g => start_group g (set_roots (sadd g (roots s)) s)) ngs s in
  fold_left (fun s x => start_stream x (set_rstreams (sadd x (rstreams s)) s)) nss s1.

(* ---------------------------------------------------------------- _add_task / _add_streams *)
Definition add_task (E : env) (t : N) (s : state) : state :=
  fold_left (fun s g =>
    match aget g (gnodes s) with
    | Some n =>
        let s1 := set_gnodes (aset g (mkG (gn_children n) (sadd t (gn_tasks n)) (S (gn_pending n))) (gnodes s)) s in
        if memN g (roots s1) then start_task t s1 else s1
    | None => s
    end) (tgroups E t) s.

(* returns the new root streams *)
Definition add_streams (ss : list N) (ptask : option N) (s : state) : list N * state :=
  match ptask with
  | None => (ss, s)
  | Some t =>
      match aget t (tnodes s) with
      | Some tn => ([], set_tnodes (aset t (mkT (tn_done tn) (tn_streams tn ++ ss) (tn_owed tn)) (tnodes s)) s)
      | None => ([], s)
      end
  end.

(* _maybe_integrate_work: new root groups, new root streams, state *)
Definition integrate (E : env) (w : work) (ptask : option N) (s : state) : list N * list N * state :=
  let '(nr, gn) :=
    match w_groups w with
    | [] => ([], gnodes s)
    | gs => add_groups E gs (match ptask with Some _ => true | None => false end) (gnodes s)
    end in
  let s1 := fold_left (fun s t => add_task E t s) (w_tasks w) (set_gnodes gn s) in
  let '(ns, s2) := match w_streams w with [] => ([], s1) | ss => add_streams ss ptask s1 end in
  (nr, ns, s2).

(* ---------------------------------------------------------------- _remove_task / _remove_group *)
Definition remove_task (E : env) (t : N) (s : state) : state :=
  let gn := fold_left (fun gn g =>
              match aget g gn with
              | Some n => aset g (mkG (gn_children n) (sdel t (gn_tasks n)) (gn_pending n)) gn
              | None => gn
              end) (tgroups E t) (gnodes s) in
  set_tnodes (adel t (tnodes s)) (set_gnodes gn s).

Fixpoint remove_group (fuel : nat) (E : env) (g : N) (n : gnode) (s : state) : state :=
  match fuel with
  | O => set_oof s
  | S f =>
    let s1 := set_gnodes (adel g (gnodes s)) s in
    let s2 := fold_left (fun s t =>
                if forallb (fun tg => negb (ahas tg (gnodes s))) (tgroups E t)
                then remove_task E t s else s) (gn_tasks n) s1 in
    fold_left (fun s c =>
      match aget c (gnodes s) with
      | Some cn => remove_group f E c cn s
      | None => s
      end) (gn_children n) s2
  end.

Definition remove_group_top (E : env) (g : N) (n : gnode) (s : state) : state :=
  remove_group (S (length (gnodes s))) E g n s.

(* ---------------------------------------------------------------- _collect_completed_tasks *)
(* values (identified by their tasks) and child streams of the completed tasks of a group node;
   the tasks are removed from the graph.  With [orphaned_only], only the tasks that are not shared
   with a group that is still part of the graph (and will deliver them). *)
Definition collect_completed (E : env) (orphaned_only : bool) (n : gnode) (acc : list N * list N * state)
  : list N * list N * state :=
  fold_left (fun (st : list N * list N * state) t =>
    let '(vals, nss, s) := st in
    if orphaned_only && existsb (fun g => ahas g (gnodes s)) (tgroups E t) then
      (* a surviving group shares the task and will deliver its value: remember that the pruned
         group relies on that delivery *)
      match aget t (tnodes s) with
      | Some tn => (vals, nss, set_tnodes (aset t (mkT (tn_done tn) (tn_streams tn) true) (tnodes s)) s)
      | None => st
      end
    else
    match aget t (tnodes s) with
    | Some tn => ((if tn_done tn then vals ++ [t] else vals), nss ++ tn_streams tn, remove_task E t s)
    | None => st
    end) (gn_tasks n) acc.

(* ---------------------------------------------------------------- _prune_empty_groups *)
(* A pruned group that still holds completed tasks hands values and streams to the finishing parent
   ([flush] = called from _finish_group_success): all of them when it has child groups (they are
   delivered before the children are promoted), otherwise only those of tasks that no surviving
   group shares (nobody else would deliver them).
   result: non-empty groups, values, streams, state *)
Fixpoint prune (fuel : nat) (E : env) (flush : bool) (gs : list N)
  (acc : list N * list N * list N * state) : list N * list N * list N * state :=
  match fuel with
  | O => match gs with
         | [] => acc
         | _ => let '(ne, vals, nss, s) := acc in (ne, vals, nss, set_oof s)
         end
  | S f =>
    fold_left (fun (st : list N * list N * list N * state) g =>
      let '(ne, vals, nss, s) := st in
      match aget g (gnodes s) with
      | Some n =>
          match gn_pending n with
          | O =>
              let s1 := set_gnodes (adel g (gnodes s)) s in
              let '(vals1, nss1, s2) :=
                if flush
                then collect_completed E (match gn_children n with [] => true | _ :: _ => false end) n (vals, nss, s1)
                else (vals, nss, s1) in
              prune f E flush (gn_children n) (ne, vals1, nss1, s2)
          | S _ => (ne ++ [g], vals, nss, s)
          end
      | None => st
      end) gs acc
  end.

Definition prune_groups (E : env) (gs : list N) (s : state) : list N * state :=
  let '(ne, _, _, s1) := prune (S (length (gnodes s))) E false gs ([], [], [], s) in (ne, s1).

(* ---------------------------------------------------------------- _finish_group_success *)
(* events, promoted groups, promoted streams, state *)
Definition finish_group_success (E : env) (g : N) (n : gnode) (s : state)
  : list wqevent * list N * list N * state :=
  let s1 := set_gnodes (adel g (gnodes s)) s in
  let '(vals0, nss0, s2) := collect_completed E false n ([], [], s1) in
  let '(ngs, vals, nss, s3) :=
    prune (S (length (gnodes s2))) E true (gn_children n) ([], vals0, nss0, s2) in
  let s4 := set_roots (sdel g (roots s3)) s3 in
  ((match vals with [] => [] | _ => [GroupValues g vals] end) ++ [GroupSuccess g ngs nss], ngs, nss, s4).

(* ---------------------------------------------------------------- _task_success *)
Definition task_success (E : env) (t : N) (s : state) : list wqevent * state :=
  let s0 := set_settled (sadd t (settled s)) s in
  let s1 := match aget t (tnodes s0) with
            | Some tn => set_tnodes (aset t (mkT true (tn_streams tn) (tn_owed tn)) (tnodes s0)) s0
            | None => s0
            end in
  let '(_, _, s2) := integrate E (twork E t) (Some t) s1 in
  (* all counters first (REPAIRED: the code decrements and finishes in one loop, so a child group
     sharing the task with its parent is promoted with a stale counter), then the groups that
     became complete *)
  let s2' :=
    fold_left (fun s g =>
      match aget g (gnodes s) with
      | Some n => set_gnodes (aset g (mkG (gn_children n) (gn_tasks n) (pred (gn_pending n))) (gnodes s)) s
      | None => s
      end) (tgroups E t) s2 in
  let '(evs, ngs, nss, s3) :=
    fold_left (fun (st : list wqevent * list N * list N * state) g =>
      let '(evs, ngs, nss, s) := st in
      match aget g (gnodes s) with
      | Some n =>
          if memN g (roots s) && Nat.eqb (gn_pending n) 0 then
            let '(e, cg, cs, s'') := finish_group_success E g n s in
            (evs ++ e, ngs ++ cg, nss ++ cs, s'')
          else st
      | None => st
      end) (tgroups E t) ([], [], [], s2') in
  (evs, start_new_work ngs nss s3).

(* ---------------------------------------------------------------- _task_failure *)
(* completed values of the failing root group g that a group pruned as complete relied on and that no
   surviving group shares: they are still delivered (REPAIRED: the code dropped them) *)
Definition rescue (E : env) (g : N) (n : gnode) (s : state) : list N * state :=
  fold_left (fun (st : list N * state) t =>
    let '(vals, s) := st in
    match aget t (tnodes s) with
    | Some tn =>
        if tn_owed tn && tn_done tn
           && forallb (fun tg => (tg =? g) || negb (ahas tg (gnodes s))) (tgroups E t)
        then (vals ++ [t], remove_task E t s) else st
    | None => st
    end) (gn_tasks n) ([], s).

(* a failure event for every group of the task that still has a node, root or not *)
Definition task_failure (E : env) (t : N) (s : state) : list wqevent * state :=
  let s0 := set_settled (sadd t (settled s)) s in
  let s1 := set_tnodes (adel t (tnodes s0)) s0 in
  fold_left (fun (st : list wqevent * state) g =>
    let '(evs, s) := st in
    match aget g (gnodes s) with
    | Some n =>
        let '(vals, sr) := if memN g (roots s) then rescue E g n s else ([], s) in
        let n' := match aget g (gnodes sr) with Some m => m | None => n end in
        let s' := remove_group_top E g n' sr in
        (evs ++ (match vals with [] => [] | _ => [GroupValues g vals] end) ++ [GroupFailure g],
         set_roots (sdel g (roots s')) s')
    | None => st
    end) (tgroups E t) ([], s1).

(* ---------------------------------------------------------------- _stream_items *)
Definition stream_pos (x : N) (s : state) : nat :=
  match aget x (spos s) with Some k => k | None => O end.

Definition stream_items (E : env) (x : N) (n : nat) (stop : bool) (s : state) : list wqevent * state :=
  let pos := stream_pos x s in
  let items := firstn n (skipn pos (sitems E x)) in
  let s0 := set_spos (aset x (pos + length items)%nat (spos s)) s in
  let '(ngs, nss, s1) :=
    fold_left (fun (st : list N * list N * state) w =>
      let '(ngs, nss, s) := st in
      let '(ig, is_, s1) := integrate E w None s in
      let '(ne, s2) := prune_groups E ig s1 in
      (ngs ++ ne, nss ++ is_, start_new_work ne is_ s2)) items ([], [], s0) in
  let ev := StreamValues x pos (length items) ngs nss in
  if stop then ([ev; StreamSuccess x], set_rstreams (sdel x (rstreams s1)) s1)
  else ([ev], s1).

(* ---------------------------------------------------------------- _handle_graph_event *)
Definition step (E : env) (s : state) (e : gevent) : state * list wqevent :=
  match e with
  | TaskOk t => let '(evs, s') := task_success E t s in (s', evs)
  | TaskFail t => let '(evs, s') := task_failure E t s in (s', evs)
  | Items x n stop => let '(evs, s') := stream_items E x n stop s in (s', evs)
  | StreamOk x =>
      let s1 := set_sended (sadd x (sended s)) s in
      if memN x (rstreams s1) then (set_rstreams (sdel x (rstreams s1)) s1, [StreamSuccess x])
      else (s1, [])
  | StreamFail x =>
      let s1 := set_sended (sadd x (sended s)) s in
      (set_rstreams (sdel x (rstreams s1)) s1, [StreamFailure x])
  end.

(* WorkQueue(work) followed by the first step of events(): initial groups, initial streams, state *)
Definition init (E : env) (w : work) : list N * list N * state :=
  let '(ng, ns, s1) := integrate E w None empty_state in
  let '(ne, s2) := prune_groups E ng s1 in
  let s3 := set_rstreams ns (set_roots ne s2) in
  let s4 := fold_left (fun s g => start_group g s) ne s3 in
  (ne, ns, fold_left (fun s x => start_stream x s) ns s4).

(* one iteration of the events() loop on a batch of graph events *)
Definition run_batch (E : env) (s : state) (evs : list gevent) : state * list wqevent :=
  if stopped s then (s, []) else
  let '(s1, out) :=
    fold_left (fun (st : state * list wqevent) e =>
      let '(s, out) := st in
      let '(s', o) := step E s e in (s', out ++ o)) evs (s, []) in
  match roots s1, rstreams s1 with
  | [], [] => (set_stopped true s1, out ++ [Termination])
  | _, _ => (s1, out)
  end.

(* batches of work-queue events (empty batches are not yielded) *)
Fixpoint run_batches (E : env) (s : state) (bs : list (list gevent)) : state * list (list wqevent) :=
  match bs with
  | [] => (s, [])
  | b :: r =>
      let '(s1, out) := match b with [] => (s, []) | _ => run_batch E s b end in
      let '(s2, outs) := run_batches E s1 r in
      (s2, match out with [] => outs | _ => out :: outs end)
  end.

(* ---------------------------------------------------------------- enabledness of graph events *)
Definition enabled1 (E : env) (s : state) (e : gevent) : bool :=
  match e with
  | TaskOk t | TaskFail t => memN t (started s) && negb (memN t (settled s))
  | Items x n stop =>
      memN x (sstarted s) && negb (memN x (sended s)) && memN x (rstreams s)
      && Nat.leb 1 n && Nat.leb (stream_pos x s + n) (length (sitems E x))
      && (if stop then Nat.eqb (stream_pos x s + n) (length (sitems E x)) else true)
  | StreamOk x =>
      memN x (sstarted s) && negb (memN x (sended s))
      && Nat.eqb (stream_pos x s) (length (sitems E x))
  | StreamFail x => memN x (sstarted s) && negb (memN x (sended s)) && memN x (rstreams s)
  end.

Fixpoint enabled_seq (E : env) (s : state) (evs : list gevent) : bool :=
  match evs with
  | [] => true
  | e :: r => enabled1 E s e && enabled_seq E (fst (step E s e)) r
  end.

Fixpoint enabled_batches (E : env) (s : state) (bs : list (list gevent)) : bool :=
  match bs with
  | [] => true
  | b :: r =>
      match b with
      | [] => enabled_batches E s r
      | _ => negb (stopped s) && enabled_seq E s b && enabled_batches E (fst (run_batch E s b)) r
      end
  end.
