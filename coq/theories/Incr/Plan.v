(* Model of execution/incremental/build_execution_plan.py. *)
From GV Require Import Base.Prelude.

(* a defer usage: its identity and the identities of its ancestors (nearest first) *)
Record du := mkDu { du_id : N; du_anc : list N }.

Definition mem (x : N) (l : list N) : bool := existsb (N.eqb x) l.

(* field details of one response key: the defer usage of each field node (None = not deferred) *)
Definition details := list (option du).
Definition gfs := list (N * details).     (* grouped field set: response key -> details, in order *)

Fixpoint add_du (d : du) (s : list du) : list du :=
  match s with
  | [] => [d]
  | x :: r => if du_id x =? du_id d then s else x :: add_du d r
  end.

(* None = some field of the group is not deferred *)
Fixpoint collect_dus (fs : details) (acc : list du) : option (list du) :=
  match fs with
  | [] => Some acc
  | None :: _ => None
  | Some d :: r => collect_dus r (add_du d acc)
  end.

Definition ids (s : list du) : list N := map du_id s.

(* remove the usages that have an ancestor in the set *)
Definition filter_anc (s : list du) : list du :=
  filter (fun d => negb (existsb (fun a => mem a (ids s)) (du_anc d))) s.

Definition filtered_set (fs : details) : list du :=
  match collect_dus fs [] with
  | None => []
  | Some s => filter_anc s
  end.

(* RefSet equality: the same elements *)
Definition subset (a b : list N) : bool := forallb (fun x => mem x b) a.
Definition set_eq (a b : list N) : bool := subset a b && subset b a.

Fixpoint add_to_group (s : list du) (k : N) (fs : details) (groups : list (list du * gfs))
  : list (list du * gfs) :=
  match groups with
  | [] => [(s, [(k, fs)])]
  | (s', g) :: r =>
    if set_eq (ids s') (ids s) then (s', g ++ [(k, fs)]) :: r
    else (s', g) :: add_to_group s k fs r
  end.

(* build_execution_plan original parent_set = (initial grouped field set, new sets) *)
Fixpoint plan (orig : gfs) (parent : list N) (init : gfs) (groups : list (list du * gfs))
  : gfs * list (list du * gfs) :=
  match orig with
  | [] => (init, groups)
  | (k, fs) :: r =>
    let s := filtered_set fs in
    if set_eq (ids s) parent then plan r parent (init ++ [(k, fs)]) groups
    else plan r parent init (add_to_group s k fs groups)
  end.

Definition build_execution_plan (orig : gfs) (parent : list N) : gfs * list (list du * gfs) :=
  plan orig parent [] [].
