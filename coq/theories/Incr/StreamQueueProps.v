(* C05 - order law of the stream item queue model. *)
From GV Require Import Base.Prelude Incr.StreamQueue.

(* invariant: delivered ++ terminal ++ still held/queued = pushed *)
Definition sq_inv (s : sq) : Prop :=
  q_delivered s ++ q_term s ++ sq_contents s = q_pushed s.

Lemma gather_split fs q batch b h r st :
  gather fs q batch = (b, h, r, st) ->
  exists extra, b = batch ++ extra /\
    extra ++ (match h with Some e => e :: r | None => r end) = q.
Proof.
  revert batch b h r st. induction q as [|e q IH]; intros batch b h r st H; cbn in H.
  - inversion H; subst. exists []. rewrite app_nil_r. auto.
  - destruct e.
    + apply IH in H as (ex & -> & Hq). exists (EVal v :: ex). rewrite <- app_assoc. cbn. rewrite Hq. auto.
    + destruct (fget k fs).
      * inversion H; subst. exists []. rewrite app_nil_r. auto.
      * apply IH in H as (ex & -> & Hq). exists (EFut k :: ex). rewrite <- app_assoc. cbn. rewrite Hq. auto.
      * inversion H; subst. exists []. rewrite app_nil_r. auto.
    + inversion H; subst. exists []. rewrite app_nil_r. auto.
    + inversion H; subst. exists []. rewrite app_nil_r. auto.
Qed.

Ltac leaf Hi Ht :=
  match goal with H : (_, _) = (_, _) |- _ => inversion H; subst; clear H end;
  cbn; rewrite ?Ht; cbn; rewrite ?app_nil_r in *;
  repeat split; auto;
  try (rewrite <- Hi; rewrite <- ?app_assoc; cbn; reflexivity).

Ltac gleaf G Hi Ht :=
  let ex := fresh "ex" in let Hq := fresh "Hq" in
  match goal with H : (_, _) = (_, _) |- _ => inversion H; subst; clear H end;
  apply gather_split in G as (ex & -> & Hq);
  cbn; rewrite ?Ht; cbn;
  repeat split; auto;
  try (rewrite <- Hi, <- Hq; rewrite <- ?app_assoc; cbn;
       match goal with |- context [match ?hd with Some _ => _ | None => _ end] => destruct hd end; reflexivity).

Lemma try_pull_inv s s' o :
  q_term s = [] -> sq_inv s -> try_pull s = (s', o) ->
  sq_inv s' /\ q_pushed s' = q_pushed s /\
  q_delivered s' = q_delivered s ++ (match o with Some out => out_entries out | None => [] end).
Proof.
  unfold sq_inv, try_pull, sq_contents. intros Ht Hi H. rewrite Ht in Hi. cbn [app] in Hi.
  destruct (q_held s) as [h|] eqn:Hh.
  - destruct h.
    + destruct (gather (q_fut s) (q_entries s) [EVal v]) as [[[b hd] r] st] eqn:G. gleaf G Hi Ht.
    + destruct (fget k (q_fut s)).
      * leaf Hi Ht.
      * destruct (gather (q_fut s) (q_entries s) [EFut k]) as [[[b hd] r] st] eqn:G. gleaf G Hi Ht.
      * leaf Hi Ht.
    + leaf Hi Ht.
    + leaf Hi Ht.
  - destruct (q_entries s) as [|e r0] eqn:He.
    + leaf Hi Ht.
    + destruct e.
      * destruct (gather (q_fut s) r0 [EVal v]) as [[[b hd] r] st] eqn:G. gleaf G Hi Ht.
      * destruct (fget k (q_fut s)).
        -- leaf Hi Ht.
        -- destruct (gather (q_fut s) r0 [EFut k]) as [[[b hd] r] st] eqn:G. gleaf G Hi Ht.
        -- leaf Hi Ht.
      * leaf Hi Ht.
      * leaf Hi Ht.
Qed.

Lemma try_pull_term s s' o :
  try_pull s = (s', o) -> q_closed s' = false -> q_term s' = q_term s.
Proof.
  unfold try_pull. intros H Hc.
  destruct (q_held s) as [h|].
  - destruct h; try destruct (fget k (q_fut s));
      try destruct (gather (q_fut s) (q_entries s) _) as [[[b hd] r] st];
      inversion H; subst; cbn in *; congruence.
  - destruct (q_entries s) as [|e r0]; [inversion H; subst; reflexivity|].
    destruct e; try destruct (fget k (q_fut s));
      try destruct (gather (q_fut s) r0 _) as [[[b hd] r] st];
      inversion H; subst; cbn in *; congruence.
Qed.

Definition sq_ok (s : sq) : Prop := sq_inv s /\ (q_closed s = false -> q_term s = []).

Definition pushed_of (ops : list sqop) : list entry :=
  flat_map (fun op => match op with OpPush e => [e] | _ => [] end) ops.

Lemma resume_ok s s' outs :
  sq_ok s -> resume s = (s', outs) ->
  sq_ok s' /\ q_pushed s' = q_pushed s /\
  q_delivered s' = q_delivered s ++ concat (map out_entries outs).
Proof.
  intros [Hi Ht] H. unfold resume in H.
  destruct (q_waiting s && negb (q_closed s)) eqn:W.
  - apply andb_true_iff in W as [_ W]. apply negb_true_iff in W.
    destruct (try_pull s) as [s1 o] eqn:P.
    pose proof (try_pull_inv _ _ _ (Ht W) Hi P) as (A & B & C).
    pose proof (try_pull_term _ _ _ P) as D.
    destruct o; inversion H; subst; (split; [split; [exact A| intro Hc; rewrite (D Hc); auto]|]);
      split; auto; rewrite C; cbn; rewrite ?app_nil_r; reflexivity.
  - inversion H; subst. cbn. rewrite ?app_nil_r. repeat split; auto.
Qed.

Lemma sq_step_ok s op s' outs :
  sq_ok s -> sq_step s op = (s', outs) ->
  sq_ok s' /\ q_pushed s' = q_pushed s ++ pushed_of [op] /\
  q_delivered s' = q_delivered s ++ concat (map out_entries outs).
Proof.
  intros [Hi Ht] H. destruct op; cbn [sq_step] in H.
  - eapply resume_ok in H as (A & B & C).
    + split; [exact A|]. split; [rewrite B; cbn; rewrite ?app_nil_r; reflexivity | exact C].
    + split; cbn; auto. unfold sq_inv, sq_contents in *. cbn.
      destruct (q_held s); rewrite <- Hi, <- ?app_assoc; cbn; rewrite <- ?app_assoc; reflexivity.
  - eapply resume_ok in H as (A & B & C).
    + split; [exact A|]. split; [rewrite B; cbn; rewrite ?app_nil_r; reflexivity | exact C].
    + split; cbn; auto.
  - destruct (q_closed s || q_waiting s).
    + inversion H; subst. cbn. rewrite ?app_nil_r. repeat split; auto.
    + eapply resume_ok in H as (A & B & C).
      * split; [exact A|]. split; [rewrite B; cbn; rewrite ?app_nil_r; reflexivity | exact C].
      * split; cbn; auto.
Qed.

Lemma sq_run_ok ops : forall s s' outs,
  sq_ok s -> sq_run s ops = (s', outs) ->
  sq_ok s' /\ q_pushed s' = q_pushed s ++ pushed_of ops /\
  q_delivered s' = q_delivered s ++ concat (map out_entries outs).
Proof.
  induction ops as [|op ops IH]; intros s s' outs Hok H; cbn in H.
  - inversion H; subst. cbn. rewrite ?app_nil_r. auto.
  - destruct (sq_step s op) as [s1 o1] eqn:S1. destruct (sq_run s1 ops) as [s2 o2] eqn:S2.
    inversion H; subst; clear H.
    apply (sq_step_ok _ _ _ _ Hok) in S1 as (A & B & C).
    apply (IH _ _ _ A) in S2 as (A2 & B2 & C2).
    split; [exact A2|]. split.
    + rewrite B2, B. cbn. rewrite ?app_nil_r, <- ?app_assoc. reflexivity.
    + rewrite C2, C, map_app, concat_app, <- app_assoc. reflexivity.
Qed.

(* The batches deliver the pushed entries in push order, each exactly once: everything delivered
   so far, then the terminal entry (if the iteration ended), then what the queue still holds, is
   exactly the sequence of pushed entries. *)
Theorem sq_order ops s outs :
  sq_run sq_init ops = (s, outs) ->
  concat (map out_entries outs) ++ q_term s ++ sq_contents s = pushed_of ops.
Proof.
  intro H. assert (Hok : sq_ok sq_init) by (split; reflexivity).
  destruct (sq_run_ok ops _ _ _ Hok H) as ([Hi _] & B & C).
  cbn in B, C. unfold sq_inv in Hi. rewrite C in Hi. rewrite Hi. exact B.
Qed.

(* a failure / the end is reported only after everything pushed before it has been delivered *)
Corollary sq_terminal_after_all ops s outs e :
  sq_run sq_init ops = (s, outs) -> q_term s = [e] ->
  exists rest, pushed_of ops = concat (map out_entries outs) ++ e :: rest.
Proof.
  intros H Ht. apply sq_order in H. rewrite Ht in H. eexists. symmetry. exact H.
Qed.

(* ------------------------------------------------------------------ the bounded queue *)
Lemma push_raw_ok s e : sq_ok s -> sq_ok (push_raw s e) /\ q_pushed (push_raw s e) = q_pushed s ++ [e]
  /\ q_delivered (push_raw s e) = q_delivered s.
Proof.
  intros [Hi Ht]. split; [|split; reflexivity]. split; [|exact Ht].
  unfold sq_inv, sq_contents, push_raw in *. cbn.
  destruct (q_held s); rewrite <- Hi, <- ?app_assoc; cbn; rewrite <- ?app_assoc; reflexivity.
Qed.

Lemma fill_ok cap : forall fuel s w s' w',
  sq_ok s -> fill fuel cap s w = (s', w') ->
  sq_ok s' /\ q_pushed s' ++ w' = q_pushed s ++ w /\ q_delivered s' = q_delivered s.
Proof.
  induction fuel as [|f IH]; intros s w s' w' Hok H; cbn [fill] in H.
  - inversion H; subst. auto.
  - destruct w as [|e w]; [inversion H; subst; auto|].
    destruct (Nat.ltb (length (q_entries s)) cap); [|inversion H; subst; auto].
    destruct (push_raw_ok s e Hok) as (A & B & C).
    destruct (IH _ _ _ _ A H) as (A2 & B2 & C2).
    split; [exact A2|]. split; [rewrite B2, B, <- app_assoc; reflexivity|congruence].
Qed.

Definition b_ok (b : bsq) (pushed delivered : list entry) : Prop :=
  sq_ok (b_q b) /\ q_pushed (b_q b) ++ b_wait b = pushed /\ q_delivered (b_q b) = delivered.

Lemma b_fill_ok b pushed delivered : b_ok b pushed delivered -> b_ok (b_fill b) pushed delivered.
Proof.
  intros (A & B & C). unfold b_fill.
  destruct (fill (length (b_wait b)) (b_cap b) (b_q b) (b_wait b)) as [s w] eqn:F.
  destruct (fill_ok _ _ _ _ _ _ A F) as (A2 & B2 & C2). unfold b_ok. cbn. split; [exact A2|]. split; congruence.
Qed.

Lemma b_step_ok b op b' outs pushed delivered :
  b_ok b pushed delivered -> b_step b op = (b', outs) ->
  b_ok b' (pushed ++ pushed_of [op]) (delivered ++ concat (map out_entries outs)).
Proof.
  intros Hb H. destruct op as [e|k ok|]; cbn [b_step] in H.
  - assert (H1 : b_ok (mkB (b_q b) (b_cap b) (b_wait b ++ [e])) (pushed ++ [e]) delivered).
    { destruct Hb as (A & B & C). unfold b_ok. cbn. split; [exact A|]. split; [rewrite app_assoc, B; reflexivity|exact C]. }
    apply b_fill_ok in H1. set (b1 := b_fill _) in *.
    destruct (resume (b_q b1)) as [s2 o] eqn:R. inversion H; subst; clear H.
    destruct H1 as (A & B & C). destruct (resume_ok _ _ _ A R) as (A2 & B2 & C2).
    cbn [pushed_of flat_map app]. apply b_fill_ok. unfold b_ok. cbn. split; [exact A2|]. split; congruence.
  - destruct (sq_step (b_q b) (OpSettle k ok)) as [s1 o] eqn:S. inversion H; subst; clear H.
    destruct Hb as (A & B & C). destruct (sq_step_ok _ _ _ _ A S) as (A2 & B2 & C2).
    cbn [pushed_of flat_map app] in *. rewrite app_nil_r in *. apply b_fill_ok. unfold b_ok. cbn.
    split; [exact A2|]. split; congruence.
  - destruct (sq_step (b_q b) OpPull) as [s1 o] eqn:S. inversion H; subst; clear H.
    destruct Hb as (A & B & C). destruct (sq_step_ok _ _ _ _ A S) as (A2 & B2 & C2).
    cbn [pushed_of flat_map app] in *. rewrite app_nil_r in *. apply b_fill_ok. unfold b_ok. cbn.
    split; [exact A2|]. split; congruence.
Qed.

Lemma b_run_ok ops : forall b b' outs flags pushed delivered,
  b_ok b pushed delivered -> b_run b ops = (b', outs, flags) ->
  b_ok b' (pushed ++ pushed_of ops) (delivered ++ concat (map out_entries outs)).
Proof.
  induction ops as [|op ops IH]; intros b b' outs flags pushed delivered Hb H; cbn [b_run] in H.
  - inversion H; subst. cbn. rewrite !app_nil_r. exact Hb.
  - destruct (b_step b op) as [b1 o1] eqn:S1. destruct (b_run b1 ops) as [[b2 o2] f2] eqn:S2.
    inversion H; subst; clear H.
    pose proof (b_step_ok _ _ _ _ _ _ Hb S1) as H1. pose proof (IH _ _ _ _ _ _ H1 S2) as H2.
    rewrite map_app, concat_app, app_assoc.
    replace (pushed ++ pushed_of (op :: ops)) with ((pushed ++ pushed_of [op]) ++ pushed_of ops); [exact H2|].
    cbn [pushed_of flat_map]. rewrite app_nil_r, <- app_assoc. reflexivity.
Qed.

(* the order law with back-pressure: for every capacity, delivered ++ terminal ++ held/queued ++
   not yet put by the blocked producer = the pushed entries, in order *)
Theorem bsq_order cap ops b outs flags :
  b_run (bsq_init cap) ops = (b, outs, flags) ->
  concat (map out_entries outs) ++ q_term (b_q b) ++ sq_contents (b_q b) ++ b_wait b = pushed_of ops.
Proof.
  intro H. assert (H0 : b_ok (bsq_init cap) [] []) by (split; [split; reflexivity|split; reflexivity]).
  destruct (b_run_ok ops _ _ _ _ _ _ H0 H) as ([Hi _] & B & C). cbn [app] in B, C.
  unfold sq_inv in Hi. rewrite <- B, <- Hi, C, <- !app_assoc. reflexivity.
Qed.
