From GV Require Import Base.Prelude Incr.Plan.
From Coq Require Import Permutation.

(* all (key, details) entries of a plan, initial first then group by group *)
Definition entries (p : gfs * list (list du * gfs)) : list (N * details) :=
  fst p ++ flat_map snd (snd p).

Lemma add_to_group_entries s k fs groups :
  Permutation (flat_map snd (add_to_group s k fs groups)) (flat_map snd groups ++ [(k, fs)]).
Proof.
  induction groups as [|[s' g] r IH]; cbn; [reflexivity|].
  destruct (set_eq (ids s') (ids s)); cbn.
  - rewrite <- !app_assoc. apply Permutation_app_head. apply Permutation_app_comm.
  - rewrite <- app_assoc. apply Permutation_app_head. exact IH.
Qed.

Lemma plan_entries orig : forall parent init groups,
  Permutation (entries (plan orig parent init groups)) (init ++ flat_map snd groups ++ orig).
Proof.
  induction orig as [|[k fs] r IH]; intros parent init groups; cbn [plan].
  - unfold entries. cbn. rewrite app_nil_r. reflexivity.
  - destruct (set_eq (ids (filtered_set fs)) parent).
    + rewrite IH. rewrite <- app_assoc. apply Permutation_app_head.
      cbn [app]. apply Permutation_middle.
    + rewrite IH. apply Permutation_app_head.
      rewrite add_to_group_entries. rewrite <- app_assoc. reflexivity.
Qed.

(* Partition: every response key of the original grouped field set, with its complete field
   list, occurs exactly once in the plan (the plan's entries are a permutation of the original). *)
Theorem plan_partition orig parent :
  Permutation (entries (build_execution_plan orig parent)) orig.
Proof. unfold build_execution_plan. rewrite plan_entries. reflexivity. Qed.

(* the initial part keeps the original order and contains exactly the keys whose filtered
   defer-usage set equals the parent set *)
Lemma plan_init orig : forall parent init groups,
  fst (plan orig parent init groups)
  = init ++ filter (fun e => set_eq (ids (filtered_set (snd e))) parent) orig.
Proof.
  induction orig as [|[k fs] r IH]; intros parent init groups; cbn [plan filter snd].
  - rewrite app_nil_r. reflexivity.
  - destruct (set_eq (ids (filtered_set fs)) parent).
    + rewrite IH, <- app_assoc. reflexivity.
    + apply IH.
Qed.

Theorem initial_iff_parent_set orig parent :
  fst (build_execution_plan orig parent)
  = filter (fun e => set_eq (ids (filtered_set (snd e))) parent) orig.
Proof. unfold build_execution_plan. rewrite plan_init. reflexivity. Qed.

(* a filtered set contains no usage one of whose ancestors is also in the collected set *)
Theorem filtered_no_ancestor fs s d :
  collect_dus fs [] = Some s -> In d (filtered_set fs) ->
  forall a, In a (du_anc d) -> mem a (ids s) = false.
Proof.
  intros Hc Hin a Ha. unfold filtered_set in Hin. rewrite Hc in Hin.
  unfold filter_anc in Hin. apply filter_In in Hin as [_ Hn].
  apply negb_true_iff in Hn.
  destruct (mem a (ids s)) eqn:E; [|reflexivity].
  assert (existsb (fun a0 => mem a0 (ids s)) (du_anc d) = true); [|congruence].
  apply existsb_exists. exists a. split; assumption.
Qed.

(* a group with a non-deferred field is never deferred: its filtered set is empty *)
Theorem non_deferred_field_empty_set fs : In None fs -> filtered_set fs = [].
Proof.
  unfold filtered_set.
  assert (G : forall acc, In None fs -> collect_dus fs acc = None).
  { induction fs as [|[d|] r IH]; intros acc H; cbn; [destruct H| |reflexivity].
    destruct H as [H|H]; [discriminate|]. apply IH. exact H. }
  intros H. rewrite (G [] H). reflexivity.
Qed.

(* every entry of a new group carries that group's defer-usage set *)
Lemma add_to_group_sets s k fs groups :
  (forall s' g e, In (s', g) groups -> In e g -> set_eq (ids s') (ids (filtered_set (snd e))) = true) ->
  set_eq (ids s) (ids s) = true -> s = filtered_set fs ->
  forall s' g e, In (s', g) (add_to_group s k fs groups) -> In e g ->
    set_eq (ids s') (ids (filtered_set (snd e))) = true.
Proof.
  intros Hinv Hrefl Hs. induction groups as [|[s0 g0] r IH]; cbn; intros s' g e Hin He.
  - destruct Hin as [Hin|[]]. inversion Hin; subst. destruct He as [<-|[]]. cbn. exact Hrefl.
  - destruct (set_eq (ids s0) (ids s)) eqn:E; cbn in Hin.
    + destruct Hin as [Hin|Hin].
      * inversion Hin; subst. apply in_app_or in He as [He|[<-|[]]].
        -- eapply Hinv; [left; reflexivity|exact He].
        -- cbn. exact E.
      * eapply Hinv; [right; exact Hin|exact He].
    + destruct Hin as [Hin|Hin].
      * inversion Hin; subst. eapply Hinv; [left; reflexivity|exact He].
      * eapply IH; eauto. intros s1 g1 e1 H1 H2. eapply Hinv; [right; exact H1|exact H2].
Qed.
