(* C05 - the incremental publisher (incremental_publisher.py): id table and the translation of
   work-queue event batches into payloads.  Definitions only. *)
From GV Require Import Base.Prelude Incr.Protocol Incr.WorkQueue.

(* key of a node in the id table *)
Definition gkey (g : N) : N := 2 * g.
Definition skey (s : N) : N := 2 * s + 1.

Record pub := mkPub { ids : list (N * N); next_id : N }.
Definition pub_init : pub := mkPub [] 0.

(* _ensure_id *)
Definition ensure_id (k : N) (p : pub) : N * pub :=
  match agetN k (ids p) with
  | Some i => (i, p)
  | None => (next_id p, mkPub (ids p ++ [(k, next_id p)]) (next_id p + 1))
  end.

Definition del_id (k : N) (p : pub) : pub :=
  mkPub (filter (fun e => negb (fst e =? k)) (ids p)) (next_id p).

(* path of a group: the chain of its ancestors, outermost first, then itself; the keys are "field
   names" (odd, >= 3 for ids >= 1) in the convention of Protocol.v; a stream lives at [1; name] *)
Definition name_key (n : N) : N := 2 * n + 1.

Fixpoint gpath (fuel : nat) (parents : list (N * N)) (g : N) : list N :=
  match fuel with
  | O => [name_key g]
  | S f => match agetN g parents with
           | Some p => gpath f parents p ++ [name_key g]
           | None => [name_key g]
           end
  end.

Definition group_path (E : env) (g : N) : list N := gpath (length (e_parent E)) (e_parent E) g.
Definition stream_path (s : N) : list N := [1; name_key s].

Definition group_pend (E : env) (i g : N) : pend := mkPend i (group_path E g) g false 0.
Definition stream_pend (i s : N) : pend := mkPend i (stream_path s) s true 0.

(* _to_pending_results *)
Definition to_pending (E : env) (ngs nss : list N) (p : pub) : list pend * pub :=
  let '(l1, p1) :=
    fold_left (fun (st : list pend * pub) g =>
      let '(l, p) := st in let '(i, p') := ensure_id (gkey g) p in (l ++ [group_pend E i g], p')) ngs ([], p) in
  fold_left (fun (st : list pend * pub) s =>
      let '(l, p) := st in let '(i, p') := ensure_id (skey s) p in (l ++ [stream_pend i s], p')) nss (l1, p1).

(* _get_best_id_and_sub_path: the id of the longest-path delivery group of the value that has an id *)
Definition best_id (E : env) (initial_id g t : N) (p : pub) : N :=
  fst (fold_left (fun (st : N * nat) dg =>
         let '(best, maxlen) := st in
         if dg =? g then st else
         match agetN (gkey dg) (ids p) with
         | None => st
         | Some i => let len := length (group_path E dg) in
                     if Nat.ltb maxlen len then (i, len) else st
         end) (tgroups E t) (initial_id, length (group_path E g))).

(* accumulated payload parts *)
Record parts := mkParts { pa_pending : list pend; pa_incr : list incr; pa_completed : list N; pa_has_next : bool }.
Definition parts_init : parts := mkParts [] [] [] true.

(* _handle_work_queue_event *)
Definition handle_event (E : env) (st : pub * parts) (e : wqevent) : pub * parts :=
  let '(p, c) := st in
  match e with
  | GroupValues g ts =>
      let '(i, p1) := ensure_id (gkey g) p in
      (p1, mkParts (pa_pending c) (pa_incr c ++ map (fun t => IDefer (best_id E i g t p1)) ts)
                   (pa_completed c) (pa_has_next c))
  | GroupSuccess g ngs nss =>
      let '(i, p1) := ensure_id (gkey g) p in
      let p2 := del_id (gkey g) p1 in
      let '(pn, p3) := to_pending E ngs nss p2 in
      (p3, mkParts (pa_pending c ++ pn) (pa_incr c) (pa_completed c ++ [i]) (pa_has_next c))
  | GroupFailure g =>
      match agetN (gkey g) (ids p) with
      | None => (p, c)      (* never announced as pending: nothing to complete *)
      | Some i => (del_id (gkey g) p, mkParts (pa_pending c) (pa_incr c) (pa_completed c ++ [i]) (pa_has_next c))
      end
  | StreamValues s first count ngs nss =>
      let '(i, p1) := ensure_id (skey s) p in
      let '(pn, p2) := to_pending E ngs nss p1 in
      (p2, mkParts (pa_pending c ++ pn) (pa_incr c ++ [IStream i (seq first count)])
                   (pa_completed c) (pa_has_next c))
  | StreamSuccess s | StreamFailure s =>
      let '(i, p1) := ensure_id (skey s) p in
      (del_id (skey s) p1, mkParts (pa_pending c) (pa_incr c) (pa_completed c ++ [i]) (pa_has_next c))
  | Termination => (p, mkParts (pa_pending c) (pa_incr c) (pa_completed c) false)
  end.

(* _handle_batch *)
Definition handle_batch (E : env) (p : pub) (b : list wqevent) : pub * payload :=
  let '(p', c) := fold_left (handle_event E) b (p, parts_init) in
  (p', mkPayload (pa_pending c) (pa_incr c) (pa_completed c) (pa_has_next c)).

Fixpoint handle_batches (E : env) (p : pub) (bs : list (list wqevent)) : list payload :=
  match bs with
  | [] => []
  | b :: r => let '(p', pl) := handle_batch E p b in pl :: handle_batches E p' r
  end.

(* build_response + _subscribe: initial payload, then one payload per event batch *)
Definition publish (E : env) (init_groups init_streams : list N) (bs : list (list wqevent)) : list payload :=
  let '(pn, p) := to_pending E init_groups init_streams pub_init in
  mkPayload pn [] [] true :: handle_batches E p bs.

(* the whole pipeline on batches of graph events *)
Definition respond (E : env) (w : work) (bs : list (list gevent)) : list payload :=
  let '(ig, is_, s0) := init E w in
  publish E ig is_ (snd (run_batches E s0 bs)).
