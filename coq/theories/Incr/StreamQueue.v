(* C05 - ordered delivery of StreamItemQueue.batches() (stream_item_queue.py).  Definitions only.
   The asyncio queue is the list of pushed entries not yet taken; item futures settle through
   explicit events; a consumer that is blocked (empty queue or pending head future) resumes as
   soon as a push / settle makes progress possible, as the real consumer task does. *)
From GV Require Import Base.Prelude.

Inductive entry :=
| EVal (v : N)       (* a settled stream item result *)
| EFut (k : N)       (* a stream item future (early execution) *)
| EEnd               (* _END *)
| EErr.              (* _ErrorEntry *)

Inductive fstatus := FPending | FOk | FFail.

Inductive sqop :=
| OpPush (e : entry)
| OpSettle (k : N) (ok : bool)
| OpPull.                          (* the consumer asks for the next batch *)

Inductive sqout :=
| OBatch (es : list entry)
| OFinished
| ORaised.

Record sq := mkSq {
  q_entries : list entry;          (* self._entries *)
  q_held : option entry;           (* held / the head entry being awaited *)
  q_stopped : bool;                (* self._stopped *)
  q_waiting : bool;                (* the consumer is inside anext() *)
  q_closed : bool;                 (* batches() returned or raised *)
  q_fut : list (N * bool);         (* settled futures: ok? *)
  q_pushed : list entry;           (* ghost: everything pushed, in order *)
  q_delivered : list entry;        (* ghost: everything delivered in batches, in order *)
  q_term : list entry              (* ghost: the terminal entry that ended the iteration, if any *)
}.

Definition sq_init : sq := mkSq [] None false false false [] [] [] [].

Fixpoint fget (k : N) (l : list (N * bool)) : fstatus :=
  match l with
  | [] => FPending
  | (k', ok) :: r => if k =? k' then (if ok then FOk else FFail) else fget k r
  end.

(* the inner loop: take further settled entries without waiting.
   result: batch, held entry, remaining queue, stopped *)
Fixpoint gather (fs : list (N * bool)) (q : list entry) (batch : list entry)
  : list entry * option entry * list entry * bool :=
  match q with
  | [] => (batch, None, [], false)
  | e :: r =>
      match e with
      | EEnd => (batch, Some EEnd, r, true)
      | EErr => (batch, Some EErr, r, false)
      | EFut k => match fget k fs with
                  | FOk => gather fs r (batch ++ [e])
                  | _ => (batch, Some e, r, false)
                  end
      | EVal _ => gather fs r (batch ++ [e])
      end
  end.

(* one attempt of the consumer to produce its next result; None = blocked *)
Definition try_pull (s : sq) : sq * option sqout :=
  let '(head, rest) :=
    match q_held s with
    | Some e => (Some e, q_entries s)
    | None => match q_entries s with [] => (None, []) | e :: r => (Some e, r) end
    end in
  let deliver (e : entry) :=
    let '(batch, held, rest', stp) := gather (q_fut s) rest [e] in
    (mkSq rest' held (q_stopped s || stp) false false (q_fut s) (q_pushed s) (q_delivered s ++ batch) (q_term s),
     Some (OBatch batch)) in
  let blocked (h : option entry) (r : list entry) :=
    (mkSq r h (q_stopped s) true false (q_fut s) (q_pushed s) (q_delivered s) (q_term s), None) in
  match head with
  | None => blocked None rest
  | Some e =>
      match e with
      | EEnd => (mkSq rest None true false true (q_fut s) (q_pushed s) (q_delivered s) [e], Some OFinished)
      | EErr => (mkSq rest None (q_stopped s) false true (q_fut s) (q_pushed s) (q_delivered s) [e], Some ORaised)
      | EFut k =>
          match fget k (q_fut s) with
          | FPending => blocked (Some e) rest
          | FFail => (mkSq rest None (q_stopped s) false true (q_fut s) (q_pushed s) (q_delivered s) [e], Some ORaised)
          | FOk => deliver e
          end
      | EVal _ => deliver e
      end
  end.

Definition resume (s : sq) : sq * list sqout :=
  if q_waiting s && negb (q_closed s) then
    match try_pull s with
    | (s', Some o) => (s', [o])
    | (s', None) => (s', [])
    end
  else (s, []).

Definition sq_step (s : sq) (op : sqop) : sq * list sqout :=
  match op with
  | OpPush e =>
      resume (mkSq (q_entries s ++ [e]) (q_held s) (q_stopped s) (q_waiting s) (q_closed s) (q_fut s)
                   (q_pushed s ++ [e]) (q_delivered s) (q_term s))
  | OpSettle k ok =>
      resume (mkSq (q_entries s) (q_held s) (q_stopped s) (q_waiting s) (q_closed s) (q_fut s ++ [(k, ok)])
                   (q_pushed s) (q_delivered s) (q_term s))
  | OpPull =>
      if q_closed s || q_waiting s then (s, [])
      else resume (mkSq (q_entries s) (q_held s) (q_stopped s) true (q_closed s) (q_fut s)
                        (q_pushed s) (q_delivered s) (q_term s))
  end.

Fixpoint sq_run (s : sq) (ops : list sqop) : sq * list sqout :=
  match ops with
  | [] => (s, [])
  | op :: r => let '(s1, o1) := sq_step s op in
               let '(s2, o2) := sq_run s1 r in (s2, o1 ++ o2)
  end.

(* what the queue still holds, in order *)
Definition sq_contents (s : sq) : list entry :=
  match q_held s with Some e => e :: q_entries s | None => q_entries s end.

Definition out_entries (o : sqout) : list entry :=
  match o with OBatch es => es | _ => [] end.

(* ---------------------------------------------------------------- the bounded entries queue *)
(* asyncio.Queue(capacity): a push beyond the capacity blocks the producer (this includes the final
   end / failure marker put by _run: "the finished producer is parked on the full queue").  Entries the
   producer could not put yet wait in [b_wait]; they enter the queue, in order, as soon as the consumer
   has taken entries - but never in the middle of the assembly of a batch. *)
Definition push_raw (s : sq) (e : entry) : sq :=
  mkSq (q_entries s ++ [e]) (q_held s) (q_stopped s) (q_waiting s) (q_closed s) (q_fut s)
       (q_pushed s ++ [e]) (q_delivered s) (q_term s).

Record bsq := mkB { b_q : sq; b_cap : nat; b_wait : list entry }.

Definition bsq_init (cap : nat) : bsq := mkB sq_init cap [].

Fixpoint fill (fuel cap : nat) (s : sq) (wait : list entry) : sq * list entry :=
  match fuel, wait with
  | S f, e :: w => if Nat.ltb (length (q_entries s)) cap then fill f cap (push_raw s e) w else (s, wait)
  | _, _ => (s, wait)
  end.

Definition b_fill (b : bsq) : bsq :=
  let '(s, w) := fill (length (b_wait b)) (b_cap b) (b_q b) (b_wait b) in mkB s (b_cap b) w.

Definition b_step (b : bsq) (op : sqop) : bsq * list sqout :=
  match op with
  | OpPush e =>
      (* the producer puts what fits, a waiting consumer resumes, the producer goes on *)
      let b1 := b_fill (mkB (b_q b) (b_cap b) (b_wait b ++ [e])) in
      let '(s2, o) := resume (b_q b1) in
      (b_fill (mkB s2 (b_cap b) (b_wait b1)), o)
  | _ =>
      let '(s1, o) := sq_step (b_q b) op in
      (b_fill (mkB s1 (b_cap b) (b_wait b)), o)
  end.

(* items (values / item futures) that have been pushed but not delivered yet *)
Definition is_item (e : entry) : bool := match e with EVal _ | EFut _ => true | _ => false end.
Definition outstanding (b : bsq) : nat :=
  length (filter is_item ((match q_held (b_q b) with Some e => [e] | None => [] end)
                          ++ q_entries (b_q b) ++ b_wait b)).

(* outputs, and after every operation: the value of is_stopped() and the number of outstanding items *)
Fixpoint b_run (b : bsq) (ops : list sqop) : bsq * list sqout * list (bool * nat) :=
  match ops with
  | [] => (b, [], [])
  | op :: r => let '(b1, o1) := b_step b op in
               let '(b2, o2, f2) := b_run b1 r in (b2, o1 ++ o2, (q_stopped (b_q b1), outstanding b1) :: f2)
  end.
