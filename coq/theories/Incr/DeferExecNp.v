(* Error propagation disabled for the operation (@experimental_disableErrorPropagation, the `np` mode of
   Incr/DeferExec.v): the incremental run reassembles EXACTLY (up to object key order) to the base executor's
   data, for every request - field errors included: no execution group can fail, every value is delivered. *)
From GV Require Import Base.Prelude Exec.Value Exec.Schema Exec.Spec Exec.SpecProps Incr.DeferExec Incr.DeferExecProps
  Incr.DeferExecErr.
From GV Require Incr.Plan Incr.PlanProps Incr.Merge.
From Coq Require Import Permutation.

Definition pl_dok (p : payload) : Prop := exists kvs, pl_data p = Some kvs.

Definition GoodN (j0 : json) (pls : list payload) (j : json) : Prop :=
  Forall pl_dok pls /\ (exists m, apply_pls j0 pls = Some m /\ jeq m j) /\ AnyOrd j0 (map core pls) j.

Lemma GoodN_refl j : GoodN j [] j.
Proof.
  split; [constructor|]. split; [exists j; split; [reflexivity|apply jeq_refl]|apply AnyOrd_nil].
Qed.

Lemma GoodN_null pls j : GoodN JNull pls j -> j = JNull.
Proof.
  intros [Hok [[m [Ha Hj]] _]]. destruct pls as [|p r].
  - cbn in Ha. inversion Ha; subst. apply jeq_null_l. exact Hj.
  - exfalso. inversion Hok as [|x l [kvs Hd] _]; subst.
    cbn [apply_pls] in Ha. unfold apply_pl in Ha. rewrite Hd in Ha.
    destruct (pl_path p) as [|[k|i] q]; cbn in Ha; discriminate.
Qed.

Lemma apply_pl_nonnull j p j' : apply_pl j p = Some j' -> j <> JNull -> j' <> JNull.
Proof.
  unfold apply_pl. destruct (pl_data p) as [kvs|]; [|intros H; inversion H; auto].
  destruct (pl_path p) as [|[k|i] q]; cbn [Merge.update_at]; intros H Hn.
  - unfold merge_into in H. destruct j; inversion H. discriminate.
  - destruct j; try discriminate. destruct (Merge.upd_key _ _ _); inversion H. discriminate.
  - destruct j; try discriminate. destruct (Merge.set_nth _ _ _); inversion H. discriminate.
Qed.

Lemma apply_pls_nonnull pls : forall j j', apply_pls j pls = Some j' -> j <> JNull -> j' <> JNull.
Proof.
  induction pls as [|p r IH]; intros j j' H Hn; cbn [apply_pls] in H; [inversion H; subst; exact Hn|].
  destruct (apply_pl j p) as [j1|] eqn:E; [|discriminate]. eapply IH; [exact H|]. eapply apply_pl_nonnull; eauto.
Qed.

Lemma GoodN_to_null j0 pls : GoodN j0 pls JNull -> j0 = JNull.
Proof.
  intros [_ [[m [Ha Hj]] _]]. apply jeq_null_r in Hj. subst m.
  destruct (json_null_dec j0) as [H|H]; [exact H|]. exfalso. exact (apply_pls_nonnull _ _ _ Ha H eq_refl).
Qed.

Lemma pl_dok_pre seg pls : Forall pl_dok pls -> Forall pl_dok (pre_pls seg pls).
Proof. unfold pre_pls. intro H. apply Forall_map. eapply Forall_impl; [|exact H]. intros p Hp. exact Hp. Qed.

Lemma pl_dok_nest pls : Forall pl_dok pls -> Forall pl_dok (map nest_pl pls).
Proof. intro H. apply Forall_map. eapply Forall_impl; [|exact H]. intros p Hp. exact Hp. Qed.

Lemma c_ok_core_d pls : Forall pl_dok pls -> Forall c_ok (map core pls).
Proof. intro H. apply Forall_map. eapply Forall_impl; [|exact H]. intros p [kvs Hd]. exists kvs. exact Hd. Qed.

(* the loops when no field can fail *)
Lemma groups_fok_inv ef g : forall r es cs pls rv,
  (forall e x, In e g -> ef (snd e) = Some (XRes x) -> exists j, fst (fst (fst (fst x))) = CVal j) ->
  dexec_groups ef g = Some (r, es, cs, pls, rv) ->
  r = Some (ekvs (ents ef g)) /\ pls = elift (ents ef g) /\ Forall (fok ef) g.
Proof.
  induction g as [|[k fs] rest IH]; intros r es cs pls rv Hw H; cbn [dexec_groups] in H.
  - inversion H; subst. repeat split. constructor.
  - cbn [ents flat_map fst snd]. fold (ents ef rest).
    assert (Hw' : forall e x, In e rest -> ef (snd e) = Some (XRes x) -> exists j, fst (fst (fst (fst x))) = CVal j).
    { intros e x He. apply Hw. right. exact He. }
    destruct (ef fs) as [[|[[[[[j|] es0] cs0] pl0] rv0]]|] eqn:Ef; [| | |discriminate].
    + destruct (IH r es cs pls rv Hw' H) as [H1 [H2 H3]]. repeat split; try assumption.
      constructor; [left; exact Ef|exact H3].
    + destruct (dexec_groups ef rest) as [[[[[r' es'] cs'] pls'] rv']|] eqn:Er; [|discriminate].
      specialize (IH r' es' cs' pls' rv' Hw').
      assert (IH' := IH ltac:(first [exact Er|reflexivity])). clear IH. destruct IH' as [-> [-> H3]].
      inversion H; subst; clear H. repeat split. constructor; [right; eauto 8|exact H3].
    + exfalso. destruct (Hw (k, fs) _ (or_introl eq_refl) Ef) as [j Hj]. discriminate.
Qed.

Lemma groups_fok_intro ef g : Forall (fok ef) g ->
  exists es cs rv, dexec_groups ef g = Some (Some (ekvs (ents ef g)), es, cs, elift (ents ef g), rv).
Proof.
  induction 1 as [|[k fs] rest He HF IH]; cbn [dexec_groups ents flat_map fst snd].
  - eexists _, _, _. reflexivity.
  - fold (ents ef rest). destruct IH as [es [cs [rv IH]]].
    destruct He as [He|[j [es0 [cs0 [pl [rv0 He]]]]]]; cbn [snd] in He; rewrite He.
    + eexists _, _, _. exact IH.
    + rewrite IH. cbn. eexists _, _, _. reflexivity.
Qed.

Lemma deferred_fok_intro ef groups :
  Forall (fun sg => Forall (fok (ef (Plan.ids (fst sg)))) (snd sg)) groups ->
  exists GL rv,
    dexec_deferred ef groups
    = Some (flat_map (fun g : payload * list er => fst g :: map nest_pl (elift (snd g))) GL, rv) /\
    Forall2 (fun sg g => is_head (fst g) (snd g) /\ snd g = ents (ef (Plan.ids (fst sg))) (snd sg)) groups GL.
Proof.
  induction 1 as [|[sdu g] rest Hg HF IH]; cbn [dexec_deferred].
  - exists [], false. split; [reflexivity|constructor].
  - destruct IH as [GL [rv [IH1 IH2]]]. cbn [fst snd] in Hg.
    destruct (groups_fok_intro _ _ Hg) as [es [cs [rv0 Hgi]]]. rewrite Hgi, IH1.
    eexists ((_, ents (ef (Plan.ids sdu)) g) :: GL), _. split.
    + cbn [flat_map fst snd]. reflexivity.
    + constructor; [|exact IH2]. cbn [fst snd]. repeat split.
Qed.

Definition erelN (efp efd : list dfield -> option xfres) (e : str * list dfield) : Prop :=
  (efp (snd e) = Some XSkip /\ efd (snd e) = Some XSkip) \/
  (exists j es cs pl rv j0 es0 cs0 pl0 rv0,
     efp (snd e) = Some (XRes ((CVal j, es, cs), pl, rv)) /\
     efd (snd e) = Some (XRes ((CVal j0, es0, cs0), pl0, rv0)) /\ GoodN j0 pl0 j).

Lemma erelN_fok efp efd e : erelN efp efd e -> fok efd e.
Proof.
  intros [[_ H]|[j [es [cs [pl [rv [j0 [es0 [cs0 [pl0 [rv0 [_ [H _]]]]]]]]]]]]]; [left; exact H|right; eauto 8].
Qed.

Lemma ents_relN efp efd g : Forall (erelN efp efd) g ->
  exists ms, Forall2 Asm (ents efd g) ms /\
             jeq_kvs (efin (ents efd g) ms) (ekvs (ents efp g)) /\
             Forall pl_dok (elift (ents efd g)) /\
             map er_key (ents efd g) = map fst (ekvs (ents efp g)) /\
             Forall2 AnyE (ents efd g) (map snd (ekvs (ents efp g))).
Proof.
  induction 1 as [|[k fs] rest He HF [ms [H1 [H2 [H3 [H4 H5]]]]]]; cbn [ents flat_map fst snd].
  - exists []. repeat split; constructor.
  - fold (ents efd rest). fold (ents efp rest).
    destruct He as [[Hp Hd]|[j [es [cs [pl [rv [j0 [es0 [cs0 [pl0 [rv0 [Hp [Hd [Hok [[m [Hm Hj]] Hany]]]]]]]]]]]]]]];
      cbn [snd] in Hp, Hd; rewrite Hp, Hd; cbn [app].
    + exists ms. auto.
    + exists (m :: ms). split; [constructor; [exact Hm|exact H1]|]. split.
      { cbn. constructor; assumption. }
      split.
      { cbn [elift flat_map]. apply Forall_app. split; [apply pl_dok_pre; exact Hok|exact H3]. }
      split.
      { cbn [map ekvs er_key fst]. f_equal. exact H4. }
      cbn [map ekvs snd]. constructor; [exact Hany|exact H5].
Qed.

Lemma deferred_relN efp (efd : list N -> list dfield -> option xfres) groups GL :
  Forall2 (fun sg (g : payload * list er) => is_head (fst g) (snd g) /\
                       snd g = ents (efd (Plan.ids (fst sg))) (snd sg)) groups GL ->
  Forall (fun sg => Forall (erelN efp (efd (Plan.ids (fst sg)))) (snd sg)) groups ->
  exists GL' : list gres,
    map fst GL' = GL /\
    Forall (fun g => is_head (fst (fst g)) (snd (fst g)) /\ Forall2 Asm (snd (fst g)) (snd g)) GL' /\
    jeq_kvs (flat_map (fun g => efin (snd (fst g)) (snd g)) GL')
            (flat_map (fun sg => ekvs (ents efp (snd sg))) groups) /\
    subl (flat_map (fun g => map er_key (snd (fst g))) GL') (flat_map (fun sg => map fst (snd sg)) groups) /\
    Forall pl_dok (flat_map (fun g : payload * list er => fst g :: map nest_pl (elift (snd g))) GL) /\
    map er_key (concat (map snd GL)) = map fst (flat_map (fun sg => ekvs (ents efp (snd sg))) groups) /\
    Forall2 AnyE (concat (map snd GL)) (map snd (flat_map (fun sg => ekvs (ents efp (snd sg))) groups)).
Proof.
  induction 1 as [|[sdu g] [P E] groups GL [Hh HE] HF2 IH]; intro HF.
  - exists []. repeat split; constructor.
  - inversion HF as [|x l Hg Hr]; subst. cbn [fst snd] in *. subst E.
    destruct (IH Hr) as [GL' [G1 [G2 [G3 [G4 [G5 [G6 G7]]]]]]].
    destruct (ents_relN _ _ _ Hg) as [ms [M1 [M2 [M3 [M4 M5]]]]].
    exists ((P, ents (efd (Plan.ids sdu)) g, ms) :: GL'). cbn [map flat_map concat fst snd].
    split; [rewrite G1; reflexivity|].
    split; [constructor; [split; assumption|exact G2]|].
    split; [apply jeq_kvs_app; assumption|].
    split; [apply subl_app; [apply ents_keys_subl|exact G4]|].
    split.
    { constructor.
      + destruct Hh as [_ Hd]. eexists. exact Hd.
      + apply Forall_app. split; [apply pl_dok_nest; exact M3|exact G5]. }
    split.
    { rewrite !map_app, M4, G6. reflexivity. }
    rewrite map_app. apply Forall2_app; assumption.
Qed.

Lemma items_fok_inv cf items : forall i r es cs pls rv,
  (forall x y, In x items -> cf x = Some y -> exists j, fst (fst (fst (fst y))) = CVal j) ->
  dcomplete_items cf items i = Some (r, es, cs, pls, rv) ->
  r = Some (map fst (irs cf items)) /\ pls = ilift (irs cf items) i /\
  Forall (fun x => exists j es cs pl rv, cf x = Some ((CVal j, es, cs), pl, rv)) items.
Proof.
  induction items as [|x rest IH]; intros i r es cs pls rv Hw H; cbn [dcomplete_items] in H.
  - inversion H; subst. repeat split. constructor.
  - unfold irs. cbn [flat_map]. fold (irs cf rest).
    assert (Hw' : forall x y, In x rest -> cf x = Some y -> exists j, fst (fst (fst (fst y))) = CVal j).
    { intros y z Hy. apply Hw. right. exact Hy. }
    destruct (cf x) as [[[[[[j|] es0] cs0] pl0] rv0]|] eqn:Ef; [| |discriminate].
    + destruct (dcomplete_items cf rest (S i)) as [[[[[r' es'] cs'] pls'] rv']|] eqn:Er; [|discriminate].
      destruct (IH (S i) r' es' cs' pls' rv' Hw' Er) as [-> [-> H3]].
      inversion H; subst; clear H. repeat split. constructor; [eauto 8|exact H3].
    + exfalso. destruct (Hw x _ (or_introl eq_refl) Ef) as [j Hj]. discriminate.
Qed.

Lemma items_fok_intro cf items :
  Forall (fun x => exists j es cs pl rv, cf x = Some ((CVal j, es, cs), pl, rv)) items -> forall i,
  exists es cs rv, dcomplete_items cf items i
                   = Some (Some (map fst (irs cf items)), es, cs, ilift (irs cf items) i, rv).
Proof.
  induction 1 as [|x rest He HF IH]; intro i; cbn [dcomplete_items].
  - eexists _, _, _. reflexivity.
  - unfold irs. cbn [flat_map]. fold (irs cf rest). destruct (IH (S i)) as [es [cs [rv IH']]].
    destruct He as [j [es0 [cs0 [pl [rv0 He]]]]]. rewrite He, IH'. cbn. eexists _, _, _. reflexivity.
Qed.

Lemma items_relN (cfp cfd : data -> option xout) items :
  Forall (fun x => exists j es1 cs1 pl1 rv1 j0 es0 cs0 pls rv0,
            cfp x = Some ((CVal j, es1, cs1), pl1, rv1) /\
            cfd x = Some ((CVal j0, es0, cs0), pls, rv0) /\ GoodN j0 pls j) items ->
  exists ms, Forall2 (fun (x : ir) m => apply_pls (fst x) (snd x) = Some m) (irs cfd items) ms /\
             jeq_items ms (map fst (irs cfp items)) /\
             (forall i, Forall pl_dok (ilift (irs cfd items) i)) /\
             Forall2 (fun (x : ir) j => AnyOrd (fst x) (map core (snd x)) j) (irs cfd items)
                     (map fst (irs cfp items)).
Proof.
  induction 1 as [|x rest Hx HF IH].
  - exists []. repeat split; constructor.
  - destruct IH as [ms [I1 [I2 [I3 I4]]]].
    destruct Hx as [j [es1 [cs1 [pl1 [rv1 [j0 [es2 [cs2 [pls [rv2 [Hp [Hd [Hk [[m [Hm Hj]] Hany]]]]]]]]]]]]]].
    unfold irs. cbn [flat_map]. rewrite Hp, Hd. fold (irs cfd rest). fold (irs cfp rest). cbn [app map fst].
    exists (m :: ms). split; [constructor; [exact Hm|exact I1]|]. split; [constructor; assumption|].
    split.
    + intro i. cbn [ilift snd]. apply Forall_app. split; [apply pl_dok_pre; exact Hk|apply I3].
    + constructor; [exact Hany|exact I4].
Qed.

Section NpReassembly.
  Variable s : schema.
  Variable frags : list fragment.
  Variable cv : list (str * value).

  Notation Psels := (gexec_sels true s frags cv false).
  Notation Pfield := (gexec_field true s frags cv false).
  Notation Pcomp := (gcomplete true s frags cv false).
  Notation Dsels := (gexec_sels true s frags cv true).
  Notation Dfield := (gexec_field true s frags cv true).
  Notation Dcomp := (gcomplete true s frags cv true).

  Definition NS (f : nat) : Prop :=
    forall tn obj srcs S1 S0 b dp r es cs pl rv,
      Psels f tn obj srcs S1 b dp = Some ((r, es, cs), pl, rv) ->
      exists j j0 es0 cs0 pls rv0, r = CVal j /\
        Dsels f tn obj srcs S0 b dp = Some ((CVal j0, es0, cs0), pls, rv0) /\ GoodN j0 pls j.

  Definition NF (f : nat) : Prop :=
    forall tn obj S1 S0 b dp fs,
      (Pfield f tn obj S1 b dp fs = Some XSkip -> Dfield f tn obj S0 b dp fs = Some XSkip) /\
      (forall r es cs pl rv, Pfield f tn obj S1 b dp fs = Some (XRes ((r, es, cs), pl, rv)) ->
         exists j j0 es0 cs0 pls rv0, r = CVal j /\
           Dfield f tn obj S0 b dp fs = Some (XRes ((CVal j0, es0, cs0), pls, rv0)) /\ GoodN j0 pls j).

  Definition NC (f : nat) : Prop :=
    forall t fs d S1 S0 b dp r es cs pl rv,
      Pcomp f t fs d S1 b dp = Some ((r, es, cs), pl, rv) ->
      (r = CErr -> exists es0 cs0 rv0, Dcomp f t fs d S0 b dp = Some ((CErr, es0, cs0), [], rv0)) /\
      (forall j, r = CVal j -> exists j0 es0 cs0 pls rv0,
         Dcomp f t fs d S0 b dp = Some ((CVal j0, es0, cs0), pls, rv0) /\ GoodN j0 pls j).

  Lemma NF_erel f tn obj S1 b dp g : NF f ->
    Forall (fok (Pfield f tn obj S1 b dp)) g ->
    forall S0, Forall (erelN (Pfield f tn obj S1 b dp) (Dfield f tn obj S0 b dp)) g.
  Proof.
    intros HF Hok S0. eapply Forall_impl; [|exact Hok]. intros [k fs] He.
    destruct (HF tn obj S1 S0 b dp fs) as [Hs Hr].
    destruct He as [He|[j [es [cs [pl [rv He]]]]]]; cbn [snd] in He.
    - left. split; [exact He|apply Hs; exact He].
    - right. destruct (Hr _ _ _ _ _ He) as [j' [j0 [es0 [cs0 [pls [rv0 [Hj [Hd HG]]]]]]]].
      inversion Hj; subst. cbn [snd]. eauto 14.
  Qed.

  Lemma stepN_S f : NF f -> NS (S f).
  Proof.
    intros HF tn obj srcs S1 S0 b dp r es cs pl rv H.
    rewrite gexec_sels_S in H. rewrite gexec_sels_S.
    destruct (dcollect_srcs s frags cv tn b dp f srcs cs0) as [st|] eqn:Ec; [|discriminate].
    cbv zeta in *. cbn [fst snd] in H.
    set (b' := b + N.of_nat (length (c_new st))) in *.
    set (dg := c_g st) in *.
    set (efp := Pfield f tn obj S1 b' dp) in *.
    assert (Hdg : NoDup (map fst dg)) by (eapply dcollect_srcs_nodup; exact Ec).
    destruct (dexec_groups efp dg) as [[[[[r' es'] cs'] pls'] rv']|] eqn:Eg; [|discriminate].
    destruct (groups_fok_inv efp dg r' es' cs' pls' rv') as [-> [_ Hok]]; [|exact Eg|].
    { intros e x _ Hx. eapply nfield_cval. exact Hx. }
    cbn [dexec_deferred] in H. inversion H; subst; clear H.
    pose (efd := fun par => Dfield f tn obj par b' dp).
    assert (Hrel : forall par, Forall (erelN efp (efd par)) dg).
    { intro par. apply NF_erel; assumption. }
    pose proof (plan_of_partition dg S0) as Hperm.
    destruct (plan_of dg S0) as [init groups] eqn:Epl. cbn [fst snd] in *.
    assert (Hall : forall par, Forall (erelN efp (efd par)) (init ++ flat_map snd groups)).
    { intro par. eapply Permutation_Forall; [apply Permutation_sym; exact Hperm|apply Hrel]. }
    assert (Hinit : Forall (erelN efp (efd S0)) init).
    { specialize (Hall S0). apply Forall_app in Hall. tauto. }
    assert (Hgroups : Forall (fun sg => Forall (erelN efp (efd (Plan.ids (fst sg)))) (snd sg)) groups).
    { apply Forall_forall. intros sg Hin. specialize (Hall (Plan.ids (fst sg))).
      apply Forall_app in Hall as [_ Hall]. rewrite Forall_forall in *.
      intros e He. apply Hall. apply in_flat_map. exists sg. split; assumption. }
    destruct (groups_fok_intro (efd S0) init) as [es0 [cs0 [rv0 Hgi]]].
    { eapply Forall_impl; [|exact Hinit]. intros e. apply erelN_fok. }
    fold (efd S0). rewrite Hgi.
    destruct (deferred_fok_intro efd groups) as [GL [rvd [Hdi HGL]]].
    { eapply Forall_impl; [|exact Hgroups]. intros sg Hsg. eapply Forall_impl; [|exact Hsg].
      intros e. apply erelN_fok. }
    change (fun par : list N => gexec_field true s frags cv true f tn obj par b' dp) with efd.
    rewrite Hdi.
    destruct (ents_relN _ _ _ Hinit) as [ms0 [M1 [M2 [M3 [M4 M5]]]]].
    destruct (deferred_relN efp efd groups GL HGL Hgroups) as [GL' [G1 [G2 [G3 [G4 [G5 [G6 G7]]]]]]].
    eexists _, _, _, _, _, _. split; [reflexivity|]. split; [reflexivity|].
    assert (Hkeys : NoDup (map er_key (ents (efd S0) init) ++
                           flat_map (fun g : gres => map er_key (snd (fst g))) GL')).
    { eapply subl_NoDup; [apply subl_app; [apply ents_keys_subl|exact G4]|].
      assert (Hn : NoDup (map fst (init ++ flat_map snd groups))).
      { eapply Permutation_NoDup; [|exact Hdg]. apply Permutation_map. apply Permutation_sym. exact Hperm. }
      rewrite map_app, map_flat_map in Hn. exact Hn. }
    set (bref := ekvs (ents efp init) ++ flat_map (fun sg => ekvs (ents efp (snd sg))) groups).
    assert (Hbref : Permutation bref (ekvs (ents efp dg))).
    { apply Permutation_trans with (ekvs (ents efp (init ++ flat_map snd groups))).
      - unfold bref. rewrite ents_app. unfold ekvs. rewrite map_app. apply Permutation_app_head.
        unfold ents. rewrite flat_map_flat_map, map_flat_map. apply Permutation_refl.
      - unfold ekvs, ents. apply Permutation_map. apply Permutation_flat_map. exact Hperm. }
    assert (Hallok : Forall pl_dok (elift (ents (efd S0) init) ++
                       flat_map (fun g : payload * list er => fst g :: map nest_pl (elift (snd g))) GL)).
    { apply Forall_app. split; [exact M3|exact G5]. }
    split; [exact Hallok|]. split.
    - exists (JObj (efin (ents (efd S0) init) ms0 ++ flat_map (fun g : gres => efin (snd (fst g)) (snd g)) GL')).
      split.
      + rewrite apply_pls_app.
        pose proof (level_nested _ _ M1 [] []) as L1. cbn [app map] in L1. rewrite !app_nil_r in L1.
        rewrite L1 by (eapply NoDup_app_l; exact Hkeys).
        rewrite <- G1, flat_map_map. apply level_groups; [exact G2|].
        rewrite (efin_keys _ _ M1). exact Hkeys.
      + apply jeq_obj with (b := bref); [apply jeq_kvs_app; assumption|exact Hbref].
    - assert (Hheads : Forall (fun g : payload * list er => is_head (fst g) (snd g)) GL).
      { clear - HGL. induction HGL as [|x y l l' [Hh _] _ IH]; constructor; assumption. }
      rewrite (core_canon _ _ Hheads).
      assert (Hcat : concat (map snd GL) = flat_map (fun g : gres => snd (fst g)) GL').
      { rewrite <- G1, map_map, <- flat_map_concat_map. reflexivity. }
      apply level_any with (refs := map snd (ekvs (ents efp init))
                                    ++ map snd (flat_map (fun sg => ekvs (ents efp (snd sg))) groups)).
      + rewrite map_app, Hcat, map_flat_map. exact Hkeys.
      + apply Forall2_app; assumption.
      + rewrite <- (core_canon _ _ Hheads). apply c_ok_core_d. exact Hallok.
      + rewrite map_app, M4, G6, <- !map_app. fold bref. rewrite combine_fst_snd. exact Hbref.
  Qed.

  Lemma stepN_F f : NC f -> NF (S f).
  Proof.
    intros HC tn obj S1 S0 b dp fs. rewrite !gexec_field_S.
    destruct fs as [|d1 fs']; [split; [reflexivity|discriminate]|].
    cbv zeta.
    destruct (str_eqb (fs_name (df_fs d1)) n_typename).
    { split; [discriminate|]. intros r es cs pl rv H. inversion H; subst.
      eexists _, _, _, _, _, _. split; [reflexivity|]. split; [reflexivity|apply GoodN_refl]. }
    destruct (lookup_field s tn (fs_name (df_fs d1))) as [fd|]; [|split; [reflexivity|discriminate]].
    destruct (coerce_args s cv (f_args fd) (fs_args (df_fs d1))) as [args|].
    2:{ split; [discriminate|]. intros r es cs pl rv H. cbn [gcatch catch_np raise_here] in *. inversion H; subst.
        eexists _, _, _, _, _, _. split; [reflexivity|]. split; [reflexivity|apply GoodN_refl]. }
    set (d := match lookup (fs_name (df_fs d1)) obj with Some d => d | None => DNull end).
    split.
    { intro H. destruct (Pcomp f (f_type fd) (d1 :: fs') d S1 b (S dp)) as [[[[[r es] cs] pls] rv]|]; discriminate. }
    intros r es cs pl rv H.
    destruct (Pcomp f (f_type fd) (d1 :: fs') d S1 b (S dp)) as [[[[[r1 es1] cs1] pls1] rv1]|] eqn:Ecp; [|discriminate].
    destruct (HC _ _ _ _ S0 _ _ _ _ _ _ _ Ecp) as [Herr Hval].
    destruct r1 as [j1|].
    - destruct (Hval j1 eq_refl) as [j0 [es0 [cs0 [pls [rv0 [Hd HG]]]]]]. rewrite Hd.
      cbn [gxcatch gcatch catch_np] in *. inversion H; subst.
      eexists _, _, _, _, _, _. split; [reflexivity|]. split; [reflexivity|exact HG].
    - destruct (Herr eq_refl) as [es0 [cs0 [rv0 Hd]]]. rewrite Hd.
      cbn [gxcatch gcatch catch_np] in *. inversion H; subst.
      eexists _, _, _, _, _, _. split; [reflexivity|]. split; [reflexivity|apply GoodN_refl].
  Qed.

  Lemma stepN_C f : NC f -> NS f -> NC (S f).
  Proof.
    intros HC HS t fs d S1 S0 b dp r es cs pl rv H. rewrite gcomplete_S in H. rewrite gcomplete_S.
    assert (Hraise : forall c x y, Some (raise_here c, x, y) = Some ((r, es, cs), pl, rv) ->
              (r = CErr -> exists es0 cs0 rv0, Some (raise_here c, @nil payload, false) = Some ((CErr, es0, cs0), [], rv0)) /\
              (forall j, r = CVal j -> exists j0 es0 cs0 pls rv0,
                 Some (raise_here c, @nil payload, false) = Some ((CVal j0, es0, cs0), pls, rv0) /\ GoodN j0 pls j)).
    { intros c x y Hx. inversion Hx; subst. split; [intros _; eexists _, _, _; reflexivity|intros j Hj; discriminate]. }
    assert (Hval : forall j0, Some ((CVal j0, @nil err, @nil call), @nil payload, false) = Some ((r, es, cs), pl, rv) ->
              (r = CErr -> exists es0 cs0 rv0,
                 Some ((CVal j0, @nil err, @nil call), @nil payload, false) = Some ((CErr, es0, cs0), [], rv0)) /\
              (forall j, r = CVal j -> exists j1 es0 cs0 pls rv0,
                 Some ((CVal j0, @nil err, @nil call), @nil payload, false) = Some ((CVal j1, es0, cs0), pls, rv0) /\
                 GoodN j1 pls j)).
    { intros j0 Hx. inversion Hx; subst. split; [discriminate|]. intros j Hj. inversion Hj; subst.
      eexists _, _, _, _, _. split; [reflexivity|apply GoodN_refl]. }
    assert (HN : forall t',
      match Pcomp f t' fs d S1 b dp with
      | None => None
      | Some ((CVal JNull, es, cs), _, rv) => Some ((CErr, es ++ [([], CauseNull)], cs), [], rv)
      | Some x => Some x
      end = Some ((r, es, cs), pl, rv) ->
      (r = CErr -> exists es0 cs0 rv0,
         match Dcomp f t' fs d S0 b dp with
         | None => None
         | Some ((CVal JNull, es, cs), _, rv) => Some ((CErr, es ++ [([], CauseNull)], cs), [], rv)
         | Some x => Some x
         end = Some ((CErr, es0, cs0), [], rv0)) /\
      (forall j, r = CVal j -> exists j0 es0 cs0 pls rv0,
         match Dcomp f t' fs d S0 b dp with
         | None => None
         | Some ((CVal JNull, es, cs), _, rv) => Some ((CErr, es ++ [([], CauseNull)], cs), [], rv)
         | Some x => Some x
         end = Some ((CVal j0, es0, cs0), pls, rv0) /\ GoodN j0 pls j)).
    { intros t' HH.
      destruct (Pcomp f t' fs d S1 b dp) as [[[[[r1 es1] cs1] pls1] rv1]|] eqn:Ecp; [|discriminate].
      destruct (HC _ _ _ _ S0 _ _ _ _ _ _ _ Ecp) as [Herr Hv].
      destruct r1 as [j1|].
      - destruct (Hv j1 eq_refl) as [j0 [es0 [cs0 [pls [rv0 [Hd HG]]]]]]. rewrite Hd.
        destruct (json_null_dec j1) as [->|Hnn].
        + inversion HH; subst. pose proof (GoodN_to_null _ _ HG) as ->.
          split; [intros _; eexists _, _, _; reflexivity|intros j Hj; discriminate].
        + assert (HH' : Some ((CVal j1, es1, cs1), pls1, rv1) = Some ((r, es, cs), pl, rv))
            by (destruct j1; try exact HH; congruence).
          inversion HH'; subst; clear HH' HH. split; [discriminate|].
          intros j Hj. inversion Hj; subst j.
          assert (Hj0 : j0 <> JNull).
          { intro Hx. subst j0. apply Hnn. eapply GoodN_null. exact HG. }
          exists j0, es0, cs0, pls, rv0. split; [destruct j0; try reflexivity; congruence|exact HG].
      - destruct (Herr eq_refl) as [es0 [cs0 [rv0 Hd]]]. rewrite Hd. inversion HH; subst.
        split; [intros _; eexists _, _, _; reflexivity|intros j Hj; discriminate]. }
    assert (HO : forall rt flds,
      Psels f rt flds (srcs_of fs) S1 b dp = Some ((r, es, cs), pl, rv) ->
      (r = CErr -> exists es0 cs0 rv0, Dsels f rt flds (srcs_of fs) S0 b dp = Some ((CErr, es0, cs0), [], rv0)) /\
      (forall j, r = CVal j -> exists j0 es0 cs0 pls rv0,
         Dsels f rt flds (srcs_of fs) S0 b dp = Some ((CVal j0, es0, cs0), pls, rv0) /\ GoodN j0 pls j)).
    { intros rt flds HH. destruct (HS _ _ _ _ S0 _ _ _ _ _ _ _ HH) as [j [j0 [es0 [cs0 [pls [rv0 [-> [Hd HG]]]]]]]].
      split; [discriminate|]. intros j1 Hj. inversion Hj; subst. eauto 8. }
    destruct d as [|l|rt flds|items|]; [| | | |eapply Hraise; exact H].
    - destruct t as [n|it|t']; [apply Hval; exact H|apply Hval; exact H|apply HN; exact H].
    - destruct t as [n|it|t']; [|eapply Hraise; exact H|apply HN; exact H].
      destruct (lookup_type s n) as [[sc|vals|ofs ifs|ifs|ms|idefs ioo]|];
        try (apply HO; exact H);
        try (eapply Hraise; exact H);
        (destruct (complete_leaf _ l); [apply Hval; exact H|eapply Hraise; exact H]).
    - destruct t as [n|it|t']; [|eapply Hraise; exact H|apply HN; exact H].
      destruct (lookup_type s n) as [[sc|vals|ofs ifs|ifs|ms|idefs ioo]|];
        try (eapply Hraise; exact H).
      + apply HO. exact H.
      + destruct (is_object s rt && possible s n rt); [apply HO; exact H|eapply Hraise; exact H].
      + destruct (is_object s rt && possible s n rt); [apply HO; exact H|eapply Hraise; exact H].
    - destruct t as [n|it|t']; [|clear HN|apply HN; exact H].
      { destruct (lookup_type s n) as [[sc|vals|ofs ifs|ifs|ms|idefs ioo]|];
          first [apply HO; exact H|eapply Hraise; exact H]. }
      set (cfp := fun x => option_map (gxcatch true it) (Pcomp f it fs x S1 b (S dp))) in *.
      set (cfd := fun x => option_map (gxcatch true it) (Dcomp f it fs x S0 b (S dp))).
      assert (Hitem : forall x j1 es1 cs1 pl1 rv1, cfp x = Some ((CVal j1, es1, cs1), pl1, rv1) ->
                exists j0 es0 cs0 pls rv0, cfd x = Some ((CVal j0, es0, cs0), pls, rv0) /\ GoodN j0 pls j1).
      { intros x j1 es1 cs1 pl1 rv1 Hx. unfold cfp in Hx. unfold cfd.
        destruct (Pcomp f it fs x S1 b (S dp)) as [[[[[r1 es2] cs2] pls1] rv2]|] eqn:Ecp; [|discriminate].
        destruct (HC _ _ _ _ S0 _ _ _ _ _ _ _ Ecp) as [Herr Hv].
        destruct r1 as [j2|].
        - destruct (Hv j2 eq_refl) as [j0 [es0 [cs0 [pls [rv0 [Hd HG]]]]]]. rewrite Hd.
          cbn [option_map gxcatch gcatch catch_np] in *. inversion Hx; subst. eauto 8.
        - destruct (Herr eq_refl) as [es0 [cs0 [rv0 Hd]]]. rewrite Hd.
          cbn [option_map gxcatch gcatch catch_np] in *. inversion Hx; subst.
          eexists _, _, _, _, _. split; [reflexivity|apply GoodN_refl]. }
      destruct (dcomplete_items cfp items 0) as [[[[[r' es'] cs'] pls'] rv']|] eqn:Ei; [|discriminate].
      destruct (items_fok_inv cfp items 0 r' es' cs' pls' rv') as [-> [_ Hok]]; [|exact Ei|].
      { intros x y _ Hy. unfold cfp in Hy.
        destruct (Pcomp f it fs x S1 b (S dp)) as [[[[[r0 es0] cs0] pls0] rv0]|]; [|discriminate].
        cbn [option_map gxcatch gcatch catch_np] in Hy. destruct r0; inversion Hy; subst; eexists; reflexivity. }
      inversion H; subst; clear H. split; [discriminate|]. intros j Hj. inversion Hj; subst j; clear Hj.
      assert (Hrel : Forall (fun x => exists j es1 cs1 pl1 rv1 j0 es0 cs0 pls rv0,
                               cfp x = Some ((CVal j, es1, cs1), pl1, rv1) /\
                               cfd x = Some ((CVal j0, es0, cs0), pls, rv0) /\ GoodN j0 pls j) items).
      { eapply Forall_impl; [|exact Hok]. intros x [j [es1 [cs1 [pl1 [rv1 Hx]]]]].
        destruct (Hitem _ _ _ _ _ _ Hx) as [j0 [es0 [cs0 [pls [rv0 [Hd HG]]]]]]. eauto 14. }
      destruct (items_fok_intro cfd items) with (i := 0%nat) as [es0 [cs0 [rv0 Hii]]].
      { eapply Forall_impl; [|exact Hrel]. intros x [j [es1 [cs1 [pl1 [rv1 [j0 [es2 [cs2 [pls [rv2 [_ [Hd _]]]]]]]]]]]].
        eauto 8. }
      fold cfd. rewrite Hii.
      eexists _, _, _, _, _. split; [reflexivity|].
      destruct (items_relN cfp cfd items Hrel) as [ms [I1 [I2 [I3 I4]]]].
      split; [apply I3|]. split.
      + exists (JList ms). split; [exact (level_items _ _ I1 [])|constructor; exact I2].
      + apply level_any_items; [exact I4|apply c_ok_core_d; apply I3].
  Qed.

  Theorem np_reassembly_all : forall f, NS f /\ NF f /\ NC f.
  Proof.
    induction f as [|f [IHs [IHf IHc]]].
    - repeat split; intros; discriminate.
    - split; [apply stepN_S; exact IHf|]. split; [apply stepN_F; exact IHc|apply stepN_C; assumption].
  Qed.
End NpReassembly.

Theorem np_reassembly_fuel fuel s d vars root j es cs pl rv :
  gexecute_fuel true false fuel s d vars root = DResp j es cs pl rv ->
  exists j0 es0 cs0 pls rv0,
    gexecute_fuel true true fuel s d vars root = DResp j0 es0 cs0 pls rv0 /\
    Forall pl_dok pls /\
    (exists m, reassemble j0 pls = Some m /\ jeq m j) /\
    (forall pls' m', Permutation pls pls' -> reassemble j0 pls' = Some m' -> jeq m' j).
Proof.
  unfold gexecute_fuel.
  destruct (coerce_variable_values s (d_vars d) vars) as [cv|]; [|discriminate].
  destruct (root_type s (d_kind d)) as [tn|]; [|discriminate].
  destruct (negb (is_object s tn)); [discriminate|].
  set (flds := match root with DObj _ f => f | _ => [] end).
  intro H.
  destruct (gexec_sels true s (d_frags d) cv false fuel tn flds [([], d_sels d)] [] 0 0)
    as [[[[[r es1] cs1] pls1] rv1]|] eqn:Ep; [|discriminate].
  destruct (np_reassembly_all s (d_frags d) cv fuel) as [HS _].
  destruct (HS _ _ _ _ [] _ _ _ _ _ _ _ Ep) as [j' [j0 [es0 [cs0 [pls [rv0 [-> [Hd [Hok [[m [Hm Hj]] Hany]]]]]]]]]].
  inversion H; subst; clear H. rewrite Hd.
  exists j0, es0, cs0, pls, rv0. split; [reflexivity|]. split; [exact Hok|]. split.
  - exists m. split; [rewrite reassemble_apply_pls; exact Hm|exact Hj].
  - intros pls' m' Hp Hr. rewrite reassemble_apply_pls, apply_pls_core in Hr.
    eapply Hany; [apply Permutation_map; exact Hp|exact Hr].
Qed.
