(* C05 - what the executable validator means: the clauses of the property in logical form. *)
From GV Require Import Base.Prelude Incr.Protocol.

Definition announced_ids (ps : list payload) : list N := flat_map (fun p => map p_id (pl_pending p)) ps.
Definition completed_ids (ps : list payload) : list N := flat_map pl_completed ps.

Definition pend_ids (st : mstate) : list N := map p_id (m_pend st).

Record minv (st : mstate) (A C : list N) : Prop := mkMinv {
  mi_used : forall i, In i (m_used st) <-> In i A;
  mi_A : NoDup A;
  mi_C : NoDup C;
  mi_pend : forall i, In i (pend_ids st) <-> In i A /\ ~ In i C;
  mi_CA : forall i, In i C -> In i A
}.

Lemma memN_spec k l : memN k l = true <-> In k l.
Proof.
  unfold memN. split.
  - intro X. apply existsb_exists in X as [x [Hx E]]. apply N.eqb_eq in E. subst. exact Hx.
  - intro X. apply existsb_exists. exists k. split; [exact X|apply N.eqb_refl].
Qed.

Lemma NoDup_snoc {A} (l : list A) x : NoDup l -> ~ In x l -> NoDup (l ++ [x]).
Proof.
  induction 1 as [|y l Hn Hd IH]; cbn; intro Hx.
  - constructor; [intros []|constructor].
  - constructor.
    + intro X. apply in_app_or in X as [X|[X|[]]]; [contradiction|]. subst. apply Hx. left; reflexivity.
    + apply IH. intro X. apply Hx. right. exact X.
Qed.

Lemma announce_inv ps : forall st A C st',
  minv st A C -> announce ps st = Some st' -> minv st' (A ++ map p_id ps) C.
Proof.
  induction ps as [|p ps IH]; intros st A C st' Hi H; cbn [announce map] in *.
  - inversion H; subst. rewrite app_nil_r. exact Hi.
  - destruct (memN (p_id p) (m_used st)) eqn:M; [discriminate|].
    assert (Hn : ~ In (p_id p) A).
    { intro X. apply (mi_used _ _ _ Hi) in X. apply memN_spec in X. congruence. }
    assert (Hi1 : minv (mkM (p_id p :: m_used st) (m_pend st ++ [p])
                          (if p_stream p then m_streams st ++ [(p_path p, p_next p)] else m_streams st))
                       (A ++ [p_id p]) C).
    { destruct Hi as [U NA NC P CA]. constructor; cbn [m_used m_pend]; auto.
      - intro i. cbn [In]. rewrite in_app_iff, U. cbn [In]. tauto.
      - apply NoDup_snoc; assumption.
      - intro i. unfold pend_ids in *. cbn [m_pend]. rewrite map_app, !in_app_iff, P. cbn [map In].
        split.
        + intros [[H1 H2]|[<-|[]]]; [tauto|]. split; [right; left; reflexivity|].
          intro X. apply Hn. exact (CA _ X).
        + intros [[H1|[<-|[]]] H2]; [left; tauto|right; left; reflexivity].
      - intros i X. apply in_or_app. left. exact (CA i X). }
    specialize (IH _ _ _ _ Hi1 H). rewrite <- app_assoc in IH. exact IH.
Qed.

Lemma set_next_ids i n pd : map p_id (set_next i n pd) = map p_id pd.
Proof.
  induction pd as [|p pd IH]; cbn [set_next map]; [reflexivity|].
  destruct (p_id p =? i); cbn [map p_id]; [reflexivity|]. f_equal. exact IH.
Qed.

Lemma deliver_ids es : forall pd pd', deliver es pd = Some pd' -> map p_id pd' = map p_id pd.
Proof.
  induction es as [|e es IH]; intros pd pd' H; cbn [deliver] in H.
  - inversion H; reflexivity.
  - destruct e as [i|i items]; destruct (find_pend i pd) as [q|]; try discriminate.
    + destruct (p_stream q); [discriminate|]. exact (IH _ _ H).
    + destruct (p_stream q && _); [|discriminate]. rewrite (IH _ _ H). apply set_next_ids.
Qed.

Lemma find_pend_some_in i pd q : find_pend i pd = Some q -> In i (map p_id pd).
Proof.
  induction pd as [|p pd IH]; cbn; [discriminate|].
  destruct (p_id p =? i) eqn:E; intro H; [left; apply N.eqb_eq; exact E|right; auto].
Qed.

Lemma remove_pend_ids i pd x : In x (map p_id (remove_pend i pd)) <-> In x (map p_id pd) /\ x <> i.
Proof.
  unfold remove_pend. rewrite !in_map_iff. split.
  - intros (p & <- & Hp). apply filter_In in Hp as [Hp Hn]. apply negb_true_iff, N.eqb_neq in Hn. split; [exists p; auto|exact Hn].
  - intros [(p & <- & Hp) Hn]. exists p. split; [reflexivity|]. apply filter_In. split; [exact Hp|].
    apply negb_true_iff, N.eqb_neq. exact Hn.
Qed.

(* completions: ids(pd) = A - C ; afterwards ids(pd') = A - (C ++ cs) *)
Lemma complete_inv cs : forall pd pd' A C,
  NoDup C -> (forall i, In i (map p_id pd) <-> In i A /\ ~ In i C) -> (forall i, In i C -> In i A) ->
  complete cs pd = Some pd' ->
  NoDup (C ++ cs) /\ (forall i, In i (map p_id pd') <-> In i A /\ ~ In i (C ++ cs)) /\
  (forall i, In i (C ++ cs) -> In i A).
Proof.
  induction cs as [|c cs IH]; intros pd pd' A C NC P CA H; cbn [complete] in H.
  - inversion H; subst. rewrite app_nil_r. auto.
  - destruct (find_pend c pd) as [q|] eqn:F; [|discriminate].
    pose proof (find_pend_some_in _ _ _ F) as Hc. apply P in Hc as [HcA HcC].
    destruct (IH (remove_pend c pd) pd' A (C ++ [c])) as (N1 & P1 & C1).
    + apply NoDup_snoc; assumption.
    + intro i. rewrite remove_pend_ids, P, in_app_iff. cbn [In]. split.
      * intros [[H1 H2] H3]. split; [exact H1|]. intros [X|[X|[]]]; [contradiction|]. subst. apply H3. reflexivity.
      * intros [H1 H2]. split; [split; [exact H1|tauto]|]. intro X. subst. apply H2. right. left. reflexivity.
    + intros i X. apply in_app_or in X as [X|[<-|[]]]; [exact (CA i X)|exact HcA].
    + exact H.
    + rewrite <- app_assoc in N1, P1, C1. cbn [app] in N1, P1, C1. auto.
Qed.

Lemma mstep_inv parents st p st' A C :
  minv st A C -> mstep parents st p = Some st' ->
  minv st' (A ++ map p_id (pl_pending p)) (C ++ pl_completed p).
Proof.
  intros Hi H. unfold mstep in H.
  destruct (announce (pl_pending p) st) as [st1|] eqn:An; [|discriminate].
  destruct (deliver (pl_incr p) (m_pend st1)) as [pd2|] eqn:De; [|discriminate].
  destruct (complete (pl_completed p) pd2) as [pd3|] eqn:Co; [|discriminate].
  destruct (nesting_ok _ _ _ _); [|discriminate]. inversion H; subst st'; clear H.
  pose proof (announce_inv _ _ _ _ _ Hi An) as [U NA NC P CA].
  assert (P2 : forall i, In i (map p_id pd2) <-> In i (A ++ map p_id (pl_pending p)) /\ ~ In i C).
  { intro i. rewrite (deliver_ids _ _ _ De). apply P. }
  destruct (complete_inv _ _ _ _ _ NC P2 CA Co) as (N3 & P3 & C3).
  constructor; cbn [m_used m_pend]; auto.
Qed.

Lemma vrun_inv parents ps : forall st A C st' closed,
  minv st A C -> vrun parents st ps = Some (st', closed) ->
  minv st' (A ++ announced_ids ps) (C ++ completed_ids ps) /\
  (closed = true -> m_pend st' = []) /\
  (* hasNext: true on every payload, except that the last one carries false iff closed *)
  (closed = false -> forallb pl_has_next ps = true) /\
  (closed = true -> exists init last, ps = init ++ [last] /\ forallb pl_has_next init = true /\ pl_has_next last = false).
Proof.
  induction ps as [|p ps IH]; intros st A C st' closed Hi H; cbn [vrun] in H.
  - inversion H; subst. unfold announced_ids, completed_ids. cbn. rewrite !app_nil_r.
    split; [exact Hi|]. split; [discriminate|]. split; [reflexivity|discriminate].
  - destruct (mstep parents st p) as [st1|] eqn:M; [|discriminate].
    pose proof (mstep_inv _ _ _ _ _ _ Hi M) as Hi1.
    unfold announced_ids, completed_ids in *. cbn [flat_map]. rewrite !app_assoc.
    destruct (pl_has_next p) eqn:Hn.
    + destruct (IH _ _ _ _ _ Hi1 H) as (I2 & E2 & T2 & F2).
      split; [exact I2|]. split; [exact E2|]. split.
      * intro Hc. cbn [forallb]. rewrite Hn. exact (T2 Hc).
      * intro Hc. destruct (F2 Hc) as (init & last & -> & Hi' & Hl).
        exists (p :: init), last. split; [reflexivity|]. split; [cbn [forallb]; rewrite Hn; exact Hi'|exact Hl].
    + destruct ps as [|p2 ps]; [|discriminate]. destruct (m_pend st1) eqn:Pe; [|discriminate].
      inversion H; subst. cbn [flat_map]. rewrite !app_nil_r.
      split; [exact Hi1|]. split; [intros _; exact Pe|]. split; [discriminate|].
      intros _. exists [], p. split; [reflexivity|]. split; [reflexivity|exact Hn].
Qed.

Lemma minv_init : minv m_init [] [].
Proof.
  constructor; cbn; try constructor; intros; try tauto.
Qed.

(* every id is announced at most once (never reused), completed at most once, only after having
   been announced *)
Theorem valid_prefix_ids parents ps :
  valid_prefix parents ps = true ->
  NoDup (announced_ids ps) /\ NoDup (completed_ids ps) /\
  (forall i, In i (completed_ids ps) -> In i (announced_ids ps)).
Proof.
  unfold valid_prefix. destruct (vrun parents m_init ps) as [[st c]|] eqn:V; [|discriminate]. intros _.
  destruct (vrun_inv _ _ _ _ _ _ _ minv_init V) as ([U NA NC P CA] & _). cbn [app] in *. auto.
Qed.

(* a complete response: every announced id is completed exactly once, and hasNext is true on every
   payload except the last *)
Theorem valid_complete parents ps :
  valid parents ps = true ->
  NoDup (announced_ids ps) /\ NoDup (completed_ids ps) /\
  (forall i, In i (announced_ids ps) <-> In i (completed_ids ps)) /\
  exists init last, ps = init ++ [last] /\ forallb pl_has_next init = true /\ pl_has_next last = false.
Proof.
  unfold valid. destruct (vrun parents m_init ps) as [[st c]|] eqn:V; [|discriminate]. intro Hc. subst c.
  destruct (vrun_inv _ _ _ _ _ _ _ minv_init V) as ([U NA NC P CA] & E & _ & F). cbn [app] in *.
  split; [exact NA|]. split; [exact NC|]. split; [|exact (F eq_refl)].
  intro i. split; [|apply CA].
  intro Hi. destruct (in_dec N.eq_dec i (completed_ids ps)) as [X|X]; [exact X|exfalso].
  assert (Hp : In i (pend_ids st)) by (apply P; auto).
  unfold pend_ids in Hp. rewrite (E eq_refl) in Hp. exact Hp.
Qed.
