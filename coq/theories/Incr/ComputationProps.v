(* C06 - proofs about the Computation machine. *)
From GV Require Import Base.Prelude Incr.Computation.

(* sanity: behaviour on small traces *)
Example ex_abort_running :
  let c := {| has_on_abort := true; on_abort_async := true |} in
  cobs c cinit [EPrime FnAwaitable; EAbort; ECallback; EAbort; EResult FnValue]
  = [(CPending, RNone); (CRejected, RAwaitable); (CRejected, RNone); (CRejected, RNone); (CRejected, RRaise)].
Proof. reflexivity. Qed.

Example ex_abort_wins_race :
  let c := {| has_on_abort := true; on_abort_async := false |} in
  let s := crun c cinit [EResult FnAwaitable; ESettle SOk; EAbort; ECallback] in
  (status s, runs s, on_abort_calls s) = (CRejected, 1%nat, 1%nat).
Proof. reflexivity. Qed.

(* the invariant carried by every reachable state *)
Definition cinv (s : cstate) : Prop :=
  (runs s <= 1)%nat /\ (status s = CNone -> runs s = 0%nat) /\
  (on_abort_calls s <= 1)%nat /\ (status s = CPending -> on_abort_calls s = 0%nat) /\
  (status s = CNone -> on_abort_calls s = 0%nat).

Lemma cinv_init : cinv cinit.
Proof. unfold cinv, cinit; cbn; repeat split; auto; discriminate. Qed.

Ltac cinv_tac := repeat split; intros; auto; try discriminate; try congruence; try lia.

Lemma cinv_prime o s : cinv s -> cinv (do_prime o s).
Proof.
  destruct s as [st f r a]. unfold cinv, do_prime; cbn. intros (H1 & H2 & H3 & H4 & H5).
  destruct st; cbn; try (cinv_tac; fail).
  specialize (H2 eq_refl). specialize (H5 eq_refl). subst.
  destruct o; cbn; cinv_tac.
Qed.

Lemma cinv_abort c s : cinv s -> cinv (fst (do_abort c s)).
Proof.
  destruct s as [st f r a]. unfold cinv, do_abort; cbn. intros (H1 & H2 & H3 & H4 & H5).
  destruct st; cbn; try (cinv_tac; fail).
  specialize (H4 eq_refl). subst. destruct (has_on_abort c); cbn; cinv_tac.
Qed.

Lemma cinv_settle k s : cinv s -> cinv (do_settle k s).
Proof. destruct s as [st f r a]. unfold cinv, do_settle; cbn. intros H. destruct f; cbn; auto. Qed.

Lemma cinv_callback s : cinv s -> cinv (do_callback s).
Proof.
  destruct s as [st f r a]. unfold cinv, do_callback; cbn. intros (H1 & H2 & H3 & H4 & H5).
  destruct f; cbn; try (cinv_tac; fail).
  destruct st; cbn; try (cinv_tac; fail). destruct k; cinv_tac.
Qed.

Lemma cinv_step c s e : cinv s -> cinv (fst (cstep c s e)).
Proof.
  destruct e; cbn.
  - apply cinv_prime.
  - apply cinv_prime.
  - apply cinv_abort.
  - apply cinv_settle.
  - apply cinv_callback.
Qed.

Lemma cinv_run c es : forall s, cinv s -> cinv (crun c s es).
Proof. induction es as [|e es IH]; cbn; intros s H; auto. apply IH, cinv_step, H. Qed.

(* fn runs at most once, on_abort at most once, on every trace *)
Lemma runs_at_most_once c es : (runs (crun c cinit es) <= 1)%nat.
Proof. apply (cinv_run c es cinit cinv_init). Qed.

Lemma on_abort_at_most_once c es : (on_abort_calls (crun c cinit es) <= 1)%nat.
Proof. apply (cinv_run c es cinit cinv_init). Qed.

(* abort of a settled computation is a no-op *)
Lemma abort_after_settle_noop c s : settled s -> do_abort c s = (s, RNone).
Proof. unfold settled, do_abort. intros [H|H]; rewrite H; reflexivity. Qed.

(* once settled, always settled with the same status: later events never run fn again *)
Lemma runs_frozen_step c s e : status s <> CNone -> runs (fst (cstep c s e)) = runs s.
Proof.
  destruct s as [st f r a]; cbn. intros H.
  destruct e; cbn; unfold do_prime, do_abort, do_settle, do_callback; cbn.
  - destruct st; try reflexivity. congruence.
  - destruct st; try reflexivity. congruence.
  - destruct st; try reflexivity; try congruence. destruct (has_on_abort c); reflexivity.
  - destruct f; reflexivity.
  - destruct f; reflexivity.
Qed.

Lemma status_not_none_step c s e : status s <> CNone -> status (fst (cstep c s e)) <> CNone.
Proof.
  destruct s as [st f r a]; cbn. intros H.
  destruct e; cbn; unfold do_prime, do_abort, do_settle, do_callback; cbn.
  - destruct st; cbn; try congruence; discriminate.
  - destruct st; cbn; try congruence; discriminate.
  - destruct st; cbn; try congruence; try discriminate.
    destruct (has_on_abort c); cbn; discriminate.
  - destruct f; cbn; auto.
  - destruct f; cbn; auto. destruct st; try congruence; try discriminate.
    destruct k; discriminate.
Qed.

Lemma runs_frozen c es : forall s, status s <> CNone -> runs (crun c s es) = runs s.
Proof.
  induction es as [|e es IH]; cbn; intros s H; auto.
  rewrite IH by (apply status_not_none_step, H). apply runs_frozen_step, H.
Qed.

(* abort of an unprimed computation prevents the run for ever *)
Lemma abort_unprimed_prevents_run c es : runs (crun c cinit (EAbort :: es)) = 0%nat.
Proof. cbn. rewrite runs_frozen; cbn; auto; discriminate. Qed.

(* ... and every later result() raises *)
Lemma abort_unprimed_result_raises c o :
  cobs c cinit [EAbort; EResult o] = [(CRejected, RNone); (CRejected, RRaise)].
Proof. destruct o; reflexivity. Qed.

(* abort of a running computation calls on_abort exactly once, whatever follows *)
Lemma on_abort_frozen_step c s e :
  status s <> CNone -> status s <> CPending -> on_abort_calls (fst (cstep c s e)) = on_abort_calls s
  /\ status (fst (cstep c s e)) <> CNone /\ status (fst (cstep c s e)) <> CPending.
Proof.
  destruct s as [st f r a]; cbn. intros H1 H2.
  destruct e; cbn; unfold do_prime, do_abort, do_settle, do_callback; cbn.
  - destruct st; cbn; try congruence; repeat split; auto; discriminate.
  - destruct st; cbn; try congruence; repeat split; auto; discriminate.
  - destruct st; cbn; try congruence; repeat split; auto; discriminate.
  - destruct f; cbn; auto.
  - destruct f; cbn; auto. destruct st; try congruence; repeat split; auto; discriminate.
Qed.

Lemma on_abort_frozen c es : forall s,
  status s <> CNone -> status s <> CPending -> on_abort_calls (crun c s es) = on_abort_calls s.
Proof.
  induction es as [|e es IH]; cbn; intros s H1 H2; auto.
  destruct (on_abort_frozen_step c s e H1 H2) as (A & B & C). rewrite IH; auto.
Qed.

Lemma abort_running_calls_once c es s :
  has_on_abort c = true -> status s = CPending -> cinv s ->
  on_abort_calls (crun c s (EAbort :: es)) = 1%nat.
Proof.
  destruct s as [st f r a]; cbn. intros Hc Hs (_ & _ & _ & H4 & _). cbn in *. subst st.
  unfold do_abort; cbn. rewrite Hc. cbn.
  rewrite on_abort_frozen; cbn; try discriminate. rewrite (H4 eq_refl). reflexivity.
Qed.

(* ---- cancel over a table of computations *)
Lemma abort_nth_length c i : forall tbl, length (abort_nth c i tbl) = length tbl.
Proof. induction i; intros [|s t]; cbn; auto. Qed.

Lemma cancel_length c ids : forall tbl, length (cancel_tasks c ids tbl) = length tbl.
Proof. induction ids as [|i r IH]; cbn; intros; auto. rewrite IH. apply abort_nth_length. Qed.

Definition caborted (s : cstate) : Prop := status s <> CNone /\ status s <> CPending.

Lemma do_abort_aborted c s : caborted (fst (do_abort c s)).
Proof.
  destruct s as [st f r a]. unfold caborted, do_abort; cbn.
  destruct st; cbn; try (split; discriminate).
  destruct (has_on_abort c); cbn; split; discriminate.
Qed.

Lemma do_abort_idem c s : caborted s -> fst (do_abort c s) = s.
Proof.
  destruct s as [st f r a]. unfold caborted, do_abort; cbn. intros [A B].
  destruct st; try congruence; reflexivity.
Qed.

Lemma abort_nth_other c i : forall tbl j d, i <> j -> nth j (abort_nth c i tbl) d = nth j tbl d.
Proof.
  induction i; intros [|s t] j d H; cbn; auto.
  - destruct j; [congruence|reflexivity].
  - destruct j; [reflexivity|]. apply IHi. congruence.
Qed.

Lemma abort_nth_same c i : forall tbl d, (i < length tbl)%nat ->
  nth i (abort_nth c i tbl) d = fst (do_abort c (nth i tbl d)).
Proof.
  induction i; intros [|s t] d H; cbn in *; try lia; auto. apply IHi. lia.
Qed.

(* what one entry of the table looks like after the walk: untouched if not listed, otherwise the
   result of exactly one effective abort *)
Lemma cancel_entry c ids : forall tbl j d, (j < length tbl)%nat ->
  nth j (cancel_tasks c ids tbl) d =
  if existsb (Nat.eqb j) ids then fst (do_abort c (nth j tbl d)) else nth j tbl d.
Proof.
  induction ids as [|i r IH]; cbn; intros tbl j d Hj; auto.
  rewrite IH by (rewrite abort_nth_length; exact Hj).
  destruct (Nat.eqb j i) eqn:E; cbn.
  - apply Nat.eqb_eq in E; subst i. rewrite abort_nth_same by exact Hj.
    rewrite do_abort_idem by apply do_abort_aborted. destruct (existsb _ r); reflexivity.
  - apply Nat.eqb_neq in E. rewrite abort_nth_other by congruence. reflexivity.
Qed.

Lemma cancel_reaches_all c ids tbl j d :
  (j < length tbl)%nat -> In j ids -> cinv (nth j tbl d) ->
  let s := nth j tbl d in let s' := nth j (cancel_tasks c ids tbl) d in
  caborted s' /\ runs s' = runs s /\
  (status s = CPending -> has_on_abort c = true -> on_abort_calls s' = 1%nat) /\
  (status s <> CPending -> on_abort_calls s' = on_abort_calls s).
Proof.
  intros Hj Hin Hinv. cbn. rewrite cancel_entry by exact Hj.
  assert (E : existsb (Nat.eqb j) ids = true).
  { apply existsb_exists. exists j. split; auto. apply Nat.eqb_refl. }
  rewrite E. split; [apply do_abort_aborted|].
  destruct (nth j tbl d) as [st f r a]. destruct Hinv as (_ & _ & _ & H4 & _). cbn in *.
  unfold do_abort; cbn. destruct st; cbn.
  - repeat split; auto; intros; congruence.
  - destruct (has_on_abort c) eqn:Hc; cbn; repeat split; auto; intros; try congruence;
      try (rewrite (H4 eq_refl); reflexivity).
  - repeat split; auto; intros; congruence.
  - repeat split; auto; intros; congruence.
Qed.
