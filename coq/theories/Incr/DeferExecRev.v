(* When does a collection repeat a deferred fragment visit?  [rev] (DeferExec.c_rev) is set exactly when a
   named fragment that was collected through a deferred spread is met again through a non-deferred spread in
   the same selection-set collection (collect_fields.py: visited_fragment_names[frag] is True).  Static
   sufficient condition, proved here: if no fragment name is spread both with an active @defer and without
   one anywhere in the document, no run ever sets the flag. *)
From GV Require Import Base.Prelude Exec.Value Exec.Schema Exec.Spec Exec.SpecProps Incr.DeferExec Incr.DeferExecProps.

Section NoMixed.
  Variable s : schema.
  Variable frags : list fragment.
  Variable cv : list (str * value).
  Variables DN NN : list str.
  Hypothesis Hdisj : forall n, In n DN -> ~ In n NN.

  Definition okS (sels : list selection) : Prop :=
    (forall n, In n (flat_map (spread_names cv true) sels) -> In n DN) /\
    (forall n, In n (flat_map (spread_names cv false) sels) -> In n NN).

  Hypothesis Hfrags : forall fr, In fr frags -> okS (fr_sels fr).

  Lemma okS_cons x r : okS (x :: r) -> okS [x] /\ okS r.
  Proof.
    intros [H1 H2]. split; split; intros n Hn.
    - apply H1. cbn [flat_map] in *. rewrite app_nil_r in Hn. apply in_or_app. left. exact Hn.
    - apply H2. cbn [flat_map] in *. rewrite app_nil_r in Hn. apply in_or_app. left. exact Hn.
    - apply H1. cbn [flat_map]. apply in_or_app. right. exact Hn.
    - apply H2. cbn [flat_map]. apply in_or_app. right. exact Hn.
  Qed.

  Definition okF (f : dfield) : Prop := okS (fs_sels (df_fs f)).

  Definition Cst (st : cstate) : Prop :=
    c_rev st = false /\ (forall name, lookup name (c_vis st) = Some true -> In name DN) /\
    Forall (fun e => Forall okF (snd e)) (c_g st).

  Lemma add_dfield_ok k f g :
    Forall (fun e => Forall okF (snd e)) g -> okF f -> Forall (fun e : str * list dfield => Forall okF (snd e)) (add_dfield k f g).
  Proof.
    intros H Hf. induction H as [|[k' fs] r He HF IH]; cbn [add_dfield].
    - constructor; [|constructor]. cbn. constructor; [exact Hf|constructor].
    - destruct (str_eqb k k').
      + constructor; [|exact HF]. cbn [snd] in *. apply Forall_app. split; [exact He|]. constructor; [exact Hf|constructor].
      + constructor; assumption.
  Qed.

  Section Collect.
    Variable tn : str.
    Variable base : N.
    Variable depth : nat.

    Lemma dcollect_list_nm rec :
      (forall du sels st st', okS sels -> Cst st -> rec du sels st = Some st' -> Cst st') ->
      forall sels du st st', okS sels -> Cst st ->
        dcollect_list s frags cv tn base depth rec du sels st = Some st' -> Cst st'.
    Proof.
      intro Hrec. induction sels as [|sel rest IH]; intros du st st' Hok HC H; cbn [dcollect_list] in H.
      - inversion H; subst. exact HC.
      - destruct (okS_cons _ _ Hok) as [Hx Hrest]. destruct Hx as [Hx1 Hx2]. cbn [flat_map] in Hx1, Hx2.
        rewrite app_nil_r in Hx1, Hx2.
        destruct sel as [al name args dirs sub | name dirs | tc dirs sub]; cbn [spread_names] in Hx1, Hx2.
        + destruct (should_include cv dirs); [|eapply IH; eauto].
          eapply IH; [exact Hrest| |exact H].
          destruct HC as [C1 [C2 C3]]. repeat split; try assumption.
          cbn [c_g]. apply add_dfield_ok; [exact C3|]. split; assumption.
        + destruct (negb (should_include cv dirs)); [eapply IH; eauto|].
          destruct (find_frag name frags) as [fr|] eqn:Ef; [|eapply IH; eauto].
          destruct (negb (cond_matches s (fr_cond fr) tn)); [eapply IH; eauto|].
          pose proof (Hfrags fr (find_frag_In _ _ _ Ef)) as Hbody.
          destruct HC as [C1 [C2 C3]].
          destruct (defer_active cv dirs) as [lab|] eqn:Eda, (lookup name (c_vis st)) as [[|]|] eqn:El;
            try (eapply IH; eauto; repeat split; assumption; fail).
          * (* deferred, first visit *)
            destruct (rec _ (fr_sels fr) _) as [st1|] eqn:E1; [|discriminate].
            eapply IH; [exact Hrest| |exact H]. eapply Hrec; [exact Hbody| |exact E1].
            repeat split; cbn [c_rev c_vis c_g]; try assumption.
            intros x Hl. cbn [lookup] in Hl. destruct (str_eqb x name) eqn:Ex; [|apply C2; exact Hl].
            apply str_eqb_eq in Ex. subst x. apply Hx1. left. reflexivity.
          * (* a non-deferred spread of a fragment collected as deferred: excluded by the condition *)
            exfalso. apply (Hdisj name); [apply C2; exact El|apply Hx2; left; reflexivity].
          * destruct (rec _ (fr_sels fr) _) as [st1|] eqn:E1; [|discriminate].
            eapply IH; [exact Hrest| |exact H]. eapply Hrec; [exact Hbody| |exact E1].
            repeat split; cbn [c_rev c_vis c_g]; try assumption.
            -- rewrite C1. reflexivity.
            -- intros x Hl. cbn [lookup] in Hl. destruct (str_eqb x name); [discriminate|apply C2; exact Hl].
        + destruct (should_include cv dirs && match tc with Some c => cond_matches s c tn | None => true end);
            [|eapply IH; eauto].
          assert (Hsub : okS sub) by (split; assumption).
          destruct HC as [C1 [C2 C3]].
          destruct (defer_active cv dirs) as [lab|];
            match type of H with
            | match rec ?d ?b ?x with _ => _ end = _ =>
                destruct (rec d b x) as [st1|] eqn:E1; [|discriminate];
                eapply IH; [exact Hrest| |exact H]; eapply Hrec; [exact Hsub| |exact E1];
                repeat split; assumption
            end.
    Qed.

    Lemma dcollect_nm fuel : forall du sels st st', okS sels -> Cst st ->
      dcollect s frags cv tn base depth fuel du sels st = Some st' -> Cst st'.
    Proof.
      induction fuel as [|f IH]; intros du sels st st' Hok HC H; cbn [dcollect] in H; [discriminate|].
      eapply dcollect_list_nm; eauto.
    Qed.

    Lemma dcollect_srcs_nm fuel srcs : forall st st', Forall (fun x => okS (snd x)) srcs -> Cst st ->
      dcollect_srcs s frags cv tn base depth fuel srcs st = Some st' -> Cst st'.
    Proof.
      induction srcs as [|[du sels] r IH]; intros st st' Hs HC H; cbn [dcollect_srcs] in H.
      - inversion H; subst. exact HC.
      - inversion Hs as [|x l Hx Hr]; subst. cbn [snd] in Hx.
        destruct (dcollect s frags cv tn base depth fuel du sels st) as [st1|] eqn:E; [|discriminate].
        eapply IH; [exact Hr| |exact H]. eapply dcollect_nm; eauto.
    Qed.
  End Collect.

  Lemma Cst_init : Cst cs0.
  Proof. repeat split; [intros name H; discriminate|constructor]. Qed.

  Definition RS (f : nat) : Prop :=
    forall tn obj srcs par b dp o pl rv, Forall (fun x : duchain * list selection => okS (snd x)) srcs ->
      dexec_sels s frags cv false f tn obj srcs par b dp = Some (o, pl, rv) -> rv = false.
  Definition RF (f : nat) : Prop :=
    forall tn obj par b dp fs o pl rv, Forall okF fs ->
      dexec_field s frags cv false f tn obj par b dp fs = Some (XRes (o, pl, rv)) -> rv = false.
  Definition RC (f : nat) : Prop :=
    forall t fs d par b dp o pl rv, Forall okF fs ->
      dcomplete s frags cv false f t fs d par b dp = Some (o, pl, rv) -> rv = false.

  Lemma srcs_of_ok fs : Forall okF fs -> Forall (fun x : duchain * list selection => okS (snd x)) (srcs_of fs).
  Proof. intro H. unfold srcs_of. apply Forall_map. exact H. Qed.

  Lemma stepR_S f : RF f -> RS (S f).
  Proof.
    intros HF tn obj srcs par b dp o pl rv Hs H. rewrite dexec_sels_S in H.
    destruct (dcollect_srcs s frags cv tn b dp f srcs cs0) as [st|] eqn:Ec; [|discriminate].
    cbv zeta in H. cbn [fst snd dexec_deferred] in H.
    destruct (dcollect_srcs_nm tn b dp f srcs cs0 st Hs Cst_init Ec) as [C1 [_ C3]].
    destruct (dexec_groups _ (c_g st)) as [[[[[r es] cs] pls] rv1]|] eqn:Eg; [|discriminate].
    assert (Hrv : rv1 = false).
    { eapply dexec_groups_rv; [|exact Eg]. intros e o1 pl1 rv2 He Hx.
      rewrite Forall_forall in C3. eapply HF; [exact (C3 e He)|exact Hx]. }
    subst rv1. destruct r; inversion H; subst; rewrite C1; reflexivity.
  Qed.

  Lemma stepR_F f : RC f -> RF (S f).
  Proof.
    intros HC tn obj par b dp fs o pl rv Hfs H. rewrite dexec_field_S in H.
    destruct fs as [|d1 fs']; [discriminate|]. cbv zeta in H.
    destruct (str_eqb (fs_name (df_fs d1)) n_typename); [inversion H; reflexivity|].
    destruct (lookup_field s tn (fs_name (df_fs d1))) as [fd|]; [|discriminate].
    destruct (coerce_args s cv (f_args fd) (fs_args (df_fs d1))) as [args|]; [|inversion H; reflexivity].
    destruct (dcomplete s frags cv false f (f_type fd) (d1 :: fs') _ par b (S dp))
      as [[[[[r es] cs] pls] rv1]|] eqn:Ecp; [|discriminate].
    pose proof (HC _ _ _ _ _ _ _ _ _ Hfs Ecp) as ->. inversion H; reflexivity.
  Qed.

  Ltac imm Himm H := (eapply Himm; [|exact H]; reflexivity).

  Lemma stepR_C f : RC f -> RS f -> RC (S f).
  Proof.
    intros HC HS t fs d par b dp o pl rv Hfs H. rewrite dcomplete_S in H.
    assert (HN : forall t',
      match dcomplete s frags cv false f t' fs d par b dp with
      | None => None
      | Some ((CVal JNull, es, cs), _, rv) => Some ((CErr, es ++ [([], CauseNull)], cs), [], rv)
      | Some x => Some x
      end = Some (o, pl, rv) -> rv = false).
    { intros t' HH. destruct (dcomplete s frags cv false f t' fs d par b dp) as [[[[[r1 es1] cs1] pls1] rv1]|] eqn:Ecp;
        [|discriminate].
      pose proof (HC _ _ _ _ _ _ _ _ _ Hfs Ecp) as ->. destruct r1 as [[| | | | | |]|]; inversion HH; reflexivity. }
    assert (HO : forall rt flds, dexec_sels s frags cv false f rt flds (srcs_of fs) par b dp = Some (o, pl, rv) -> rv = false).
    { intros rt flds HH. eapply HS; [apply srcs_of_ok; exact Hfs|exact HH]. }
    assert (Himm : forall x : xout, snd x = false -> Some x = Some (o, pl, rv) -> rv = false).
    { intros x Hx HH. inversion HH; subst. exact Hx. }
    destruct d as [|l|rt flds|items|]; [| | | |imm Himm H].
    - destruct t as [n|it|t']; [imm Himm H|imm Himm H|exact (HN _ H)].
    - destruct t as [n|it|t']; [|imm Himm H|exact (HN _ H)].
      destruct (lookup_type s n) as [[sc|vals|ofs ifs|ifs|ms|idefs ioo]|];
        try (exact (HO _ _ H));
        try (imm Himm H);
        (destruct (complete_leaf _ l); imm Himm H).
    - destruct t as [n|it|t']; [|imm Himm H|exact (HN _ H)].
      destruct (lookup_type s n) as [[sc|vals|ofs ifs|ifs|ms|idefs ioo]|];
        try (imm Himm H).
      + exact (HO _ _ H).
      + destruct (is_object s rt && possible s n rt); [exact (HO _ _ H)|imm Himm H].
      + destruct (is_object s rt && possible s n rt); [exact (HO _ _ H)|imm Himm H].
    - destruct t as [n|it|t']; [| |exact (HN _ H)].
      { destruct (lookup_type s n) as [[sc|vals|ofs ifs|ifs|ms|idefs ioo]|];
          first [exact (HO _ _ H)|imm Himm H]. }
      destruct (dcomplete_items _ items 0) as [[[[[r es] cs] pls] rv1]|] eqn:Ei; [|discriminate].
      assert (Hrv : rv1 = false).
      { eapply dcomplete_items_rv; [|exact Ei]. intros x o1 pl1 rv2 _ Hx. cbn beta in Hx.
        destruct (dcomplete s frags cv false f it fs x par b (S dp)) as [[[[[r1 es1] cs1] pls1] rv3]|] eqn:Ecp;
          [|cbn in Hx; discriminate].
        pose proof (HC _ _ _ _ _ _ _ _ _ Hfs Ecp) as ->. cbn [option_map xcatch] in Hx. inversion Hx; reflexivity. }
      subst rv1. destruct r; inversion H; reflexivity.
  Qed.

  Theorem no_mixed_all : forall f, RS f /\ RF f /\ RC f.
  Proof.
    induction f as [|f [IHs [IHf IHc]]].
    - repeat split; intros; discriminate.
    - split; [apply stepR_S; exact IHf|]. split; [apply stepR_F; exact IHc|apply stepR_C; assumption].
  Qed.
End NoMixed.

Theorem no_mixed_rev_false fuel s d vars root j es cs pl rv :
  (forall cv, coerce_variable_values s (d_vars d) vars = Some cv -> no_mixed_spreads cv d = true) ->
  dexecute_fuel false fuel s d vars root = DResp j es cs pl rv -> rv = false.
Proof.
  intros Hnm. unfold dexecute_fuel.
  destruct (coerce_variable_values s (d_vars d) vars) as [cv|]; [|discriminate].
  destruct (root_type s (d_kind d)) as [tn|]; [|discriminate].
  destruct (negb (is_object s tn)); [discriminate|].
  specialize (Hnm cv eq_refl). unfold no_mixed_spreads in Hnm. rewrite forallb_forall in Hnm.
  set (DN := doc_spread_names cv true d) in *. set (NN := doc_spread_names cv false d) in *.
  assert (Hdisj : forall n, In n DN -> ~ In n NN).
  { intros n Hn Hn'. specialize (Hnm n Hn). apply negb_true_iff in Hnm. apply mem_not_In in Hnm. contradiction. }
  assert (Hfr : forall fr, In fr (d_frags d) -> okS cv DN NN (fr_sels fr)).
  { intros fr Hfr. split; intros n Hn; unfold DN, NN, doc_spread_names; apply in_or_app; right;
      apply in_flat_map; exists fr; split; assumption. }
  assert (Hroot : okS cv DN NN (d_sels d)).
  { split; intros n Hn; unfold DN, NN, doc_spread_names; apply in_or_app; left; exact Hn. }
  destruct (no_mixed_all s (d_frags d) cv DN NN Hdisj Hfr fuel) as [HS _].
  intro H. set (flds := match root with DObj _ f => f | _ => [] end) in *.
  destruct (dexec_sels s (d_frags d) cv false fuel tn flds [([], d_sels d)] [] 0 0) as [[[o pls] rv1]|] eqn:E;
    [|discriminate].
  assert (rv1 = false).
  { eapply HS; [|exact E]. constructor; [exact Hroot|constructor]. }
  subst rv1. destruct o as [[[j1|] es1] cs1]; inversion H; reflexivity.
Qed.
