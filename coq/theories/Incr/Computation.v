(* C06 - control machine of execution/incremental/computation.py (Computation).
   Definitions only; proofs in ComputationProps.v.

   The machine abstracts the data (value, reason) and keeps the control state:
   _status, the state of the scheduled future, and two counters (calls of fn, calls of on_abort). *)
From GV Require Import Base.Prelude.

Inductive cstatus := CNone | CPending | CFulfilled | CRejected.

(* what fn does when it is called: return a value, return an awaitable, raise *)
Inductive fn_outcome := FnValue | FnAwaitable | FnRaise.

(* how the scheduled future ends: result, exception, cancelled from outside *)
Inductive settle_kind := SOk | SErr | SCancelled.

(* state of the future created by prime(): none / not done / done, done-callback (_settle) not yet
   run / callback has run *)
Inductive fut_state := FNo | FLive | FDone (k : settle_kind) | FFinal.

Inductive cevent :=
| EPrime (o : fn_outcome)      (* prime(); o = behaviour of fn should it be called *)
| EResult (o : fn_outcome)     (* result() *)
| EAbort                       (* abort(reason) *)
| ESettle (k : settle_kind)    (* the environment completes / cancels the future *)
| ECallback.                   (* the event loop runs the done-callback _settle *)

(* what the call returned *)
Inductive cret := RNone | RValue | RRaise | RFuture | RAwaitable.

Record cconf := { has_on_abort : bool; on_abort_async : bool }.

Record cstate := {
  status : cstatus;
  fut : fut_state;
  runs : nat;             (* calls of fn *)
  on_abort_calls : nat    (* calls of the on_abort callback *)
}.

Definition cinit : cstate := {| status := CNone; fut := FNo; runs := 0; on_abort_calls := 0 |}.

Definition do_prime (o : fn_outcome) (s : cstate) : cstate :=
  match status s with
  | CNone =>
      match o with
      | FnValue => {| status := CFulfilled; fut := fut s; runs := S (runs s); on_abort_calls := on_abort_calls s |}
      | FnRaise => {| status := CRejected; fut := fut s; runs := S (runs s); on_abort_calls := on_abort_calls s |}
      | FnAwaitable => {| status := CPending; fut := FLive; runs := S (runs s); on_abort_calls := on_abort_calls s |}
      end
  | _ => s
  end.

Definition result_ret (s : cstate) : cret :=
  match status s with
  | CFulfilled => RValue
  | CRejected => RRaise
  | CPending => RFuture
  | CNone => RNone
  end.

Definition do_abort (c : cconf) (s : cstate) : cstate * cret :=
  match status s with
  | CNone => ({| status := CRejected; fut := fut s; runs := runs s; on_abort_calls := on_abort_calls s |}, RNone)
  | CPending =>
      (* future.cancel(): a live future becomes cancelled, a done one stays as it is *)
      let f := match fut s with FLive => FDone SCancelled | f => f end in
      if has_on_abort c
      then ({| status := CRejected; fut := f; runs := runs s; on_abort_calls := S (on_abort_calls s) |},
            if on_abort_async c then RAwaitable else RNone)
      else ({| status := CRejected; fut := f; runs := runs s; on_abort_calls := on_abort_calls s |}, RNone)
  | _ => (s, RNone)
  end.

Definition do_settle (k : settle_kind) (s : cstate) : cstate :=
  match fut s with
  | FLive => {| status := status s; fut := FDone k; runs := runs s; on_abort_calls := on_abort_calls s |}
  | _ => s
  end.

Definition do_callback (s : cstate) : cstate :=
  match fut s with
  | FDone k =>
      let st := match status s with
                | CPending => match k with SOk => CFulfilled | SErr => CRejected | SCancelled => CRejected end
                | st => st
                end in
      {| status := st; fut := FFinal; runs := runs s; on_abort_calls := on_abort_calls s |}
  | _ => s
  end.

Definition cstep (c : cconf) (s : cstate) (e : cevent) : cstate * cret :=
  match e with
  | EPrime o => (do_prime o s, RNone)
  | EResult o => let s' := do_prime o s in (s', result_ret s')
  | EAbort => do_abort c s
  | ESettle k => (do_settle k s, RNone)
  | ECallback => (do_callback s, RNone)
  end.

Fixpoint crun (c : cconf) (s : cstate) (es : list cevent) : cstate :=
  match es with
  | [] => s
  | e :: es' => crun c (fst (cstep c s e)) es'
  end.

(* observations after every event: (status, return kind) *)
Fixpoint cobs (c : cconf) (s : cstate) (es : list cevent) : list (cstatus * cret) :=
  match es with
  | [] => []
  | e :: es' => let '(s', r) := cstep c s e in (status s', r) :: cobs c s' es'
  end.

Definition settled (s : cstate) : Prop := status s = CFulfilled \/ status s = CRejected.

(* ---- WorkQueue.cancel / Executor.abort over the computations of the started and unstarted tasks:
   every listed task receives abort (a task listed in several groups receives it several times) *)
Fixpoint abort_nth (c : cconf) (i : nat) (tbl : list cstate) : list cstate :=
  match tbl, i with
  | [], _ => []
  | s :: t, O => fst (do_abort c s) :: t
  | s :: t, S j => s :: abort_nth c j t
  end.

Fixpoint cancel_tasks (c : cconf) (ids : list nat) (tbl : list cstate) : list cstate :=
  match ids with
  | [] => tbl
  | i :: r => cancel_tasks c r (abort_nth c i tbl)
  end.
