(* Execution WITH @defer: an executable model of the incremental executor's @defer part
   (execution/collect_fields.py with defer usages, incremental/build_execution_plan.py = Incr/Plan.v,
   incremental/incremental_executor.py: execute_collected_root_fields / execute_collected_subfields /
   collect_execution_groups / execute_execution_group / get_incremental_work).
   Definitions only; properties are in DeferExecProps.v.

   A sibling of Exec/Spec.v's exec_sels / exec_field / complete that shares its helpers
   (coerce_variable_values, coerce_args, should_include, cond_matches, response_key, complete_leaf,
   catch, raise_here, pre_errs, pre_calls, default_fuel, root_type).  What is new:

     dcollect      collect_fields_impl: every collected field carries its defer usage, a chain
                   (the usage, its parent, ...; [] = not deferred); visited fragment names remember
                   whether the visit was deferred (a deferred visit is repeated by a later non-deferred
                   spread - [c_rev] records that this happened)
     plan_of       build_execution_plan (Incr/Plan.v) on the collected set, parent set = the defer
                   usages of the executing (sub-)executor
     dexec_sels    executes the planned initial set and, for every new deferred grouped field set,
                   a sub-executor whose result is a [payload] at the same (relative) path
     payloads      relative paths, prefixed on the way up exactly like error paths; payloads produced
                   under a position that a field error nulls are dropped (get_incremental_work), a
                   deferred set whose own execution propagates an error to its top has no data

   [planning = false] is the base Executor (execute_collected_subfields ignores incremental delivery
   and executes every collected field): the reference the reassembly theorem compares with.

   Fragment: that of Exec/Spec.v plus @defer on inline fragments and fragment spreads (if: literal or
   Boolean variable, label: literal or String variable).  Outside: @stream, fragment arguments,
   a null `if` variable, asynchronous resolvers (completion order is not modelled: the payload list
   is in canonical order), early execution, subscriptions. *)
From GV Require Import Base.Prelude Exec.Value Exec.Schema Exec.Spec.
From GV Require Incr.Plan.

Definition n_defer : str := [100;101;102;101;114].
Definition n_label : str := [108;97;98;101;108].

(* ------------------------------------------------------------------ defer usages *)

(* one DeferUsage object: identity (unique among all usages visible at one position), the depth of
   the response position whose collection created it (= length of its delivery group's path), label *)
Record dunode := mkDN { dn_id : N; dn_depth : nat; dn_label : option str }.

(* FieldDetails.defer_usage with its parent links: nearest first; [] = None *)
Definition duchain := list dunode.

(* the `if` argument of @defer: default true; a variable without a runtime value takes the default *)
Definition defer_if (cv : list (str * value)) (args : list (str * value)) : bool :=
  match lookup n_if args with
  | Some (VBool b) => b
  | Some (VVar x) => match lookup x cv with Some (VBool b) => b | _ => true end
  | _ => true
  end.

Definition defer_label (cv : list (str * value)) (args : list (str * value)) : option str :=
  match lookup n_label args with
  | Some (VStr l) => Some l
  | Some (VVar x) => match lookup x cv with Some (VStr l) => Some l | _ => None end
  | _ => None
  end.

(* get_defer_usage: None = no @defer or disabled by `if`; Some label = an active @defer *)
Definition defer_active (cv : list (str * value)) (ds : list directive) : option (option str) :=
  match find_dir n_defer ds with
  | None => None
  | Some args => if defer_if cv args then Some (defer_label cv args) else None
  end.

(* ------------------------------------------------------------------ collect_fields *)

Record dfield := mkDF { df_fs : fieldsel; df_du : duchain }.
Definition dgrouped := list (str * list dfield).

Fixpoint add_dfield (k : str) (f : dfield) (g : dgrouped) : dgrouped :=
  match g with
  | [] => [(k, [f])]
  | (k', fs) :: r =>
    if str_eqb k k' then (k', fs ++ [f]) :: r else (k', fs) :: add_dfield k f r
  end.

(* collection state: visited fragment names (name -> visited as deferred; first entry wins),
   grouped field set, new defer usages in creation order, "a deferred visit was repeated" *)
Record cstate := mkCS {
  c_vis : list (str * bool); c_g : dgrouped; c_new : list duchain; c_rev : bool }.

Definition cs0 : cstate := mkCS [] [] [] false.

Section DCollect.
  Variable s : schema.
  Variable frags : list fragment.
  Variable cv : list (str * value).
  Variable tn : str.                       (* runtime object type *)
  Variable base : N.                       (* first free defer usage identity *)
  Variable depth : nat.                    (* depth of the position whose fields are collected *)

  Definition fresh (st : cstate) (lab : option str) (du : duchain) : duchain :=
    mkDN (base + N.of_nat (length (c_new st))) depth lab :: du.

  Fixpoint dcollect_list (rec : duchain -> list selection -> cstate -> option cstate)
    (du : duchain) (sels : list selection) (st : cstate) : option cstate :=
    match sels with
    | [] => Some st
    | sel :: rest =>
      match sel with
      | SField al name args dirs sub =>
          if should_include cv dirs
          then dcollect_list rec du rest
                 (mkCS (c_vis st) (add_dfield (response_key al name) (mkDF (mkFS name args sub) du) (c_g st))
                       (c_new st) (c_rev st))
          else dcollect_list rec du rest st
      | SInline tc dirs sub =>
          if should_include cv dirs
             && match tc with Some c => cond_matches s c tn | None => true end
          then
            let '(du', st1) :=
              match defer_active cv dirs with
              | None => (du, st)
              | Some lab =>
                  let nd := fresh st lab du in
                  (nd, mkCS (c_vis st) (c_g st) (c_new st ++ [nd]) (c_rev st))
              end in
            match rec du' sub st1 with
            | None => None
            | Some st' => dcollect_list rec du rest st'
            end
          else dcollect_list rec du rest st
      | SSpread name dirs =>
          if negb (should_include cv dirs) then dcollect_list rec du rest st
          else
            match find_frag name frags with
            | None => dcollect_list rec du rest st
            | Some fr =>
              if negb (cond_matches s (fr_cond fr) tn) then dcollect_list rec du rest st
              else
                match defer_active cv dirs, lookup name (c_vis st) with
                | None, Some false => dcollect_list rec du rest st
                | None, v =>
                    (* not deferred: visited unless already visited as non-deferred; a fragment
                       visited as deferred before is visited again *)
                    let again := match v with Some true => true | _ => false end in
                    match rec du (fr_sels fr)
                            (mkCS ((name, false) :: c_vis st) (c_g st) (c_new st) (c_rev st || again)) with
                    | None => None
                    | Some st' => dcollect_list rec du rest st'
                    end
                | Some _, Some _ => dcollect_list rec du rest st
                | Some lab, None =>
                    let nd := fresh st lab du in
                    match rec nd (fr_sels fr)
                            (mkCS ((name, true) :: c_vis st) (c_g st) (c_new st ++ [nd]) (c_rev st)) with
                    | None => None
                    | Some st' => dcollect_list rec du rest st'
                    end
                end
            end
      end
    end.

  (* fuel bounds the nesting of inline fragments and fragment spreads *)
  Fixpoint dcollect (fuel : nat) (du : duchain) (sels : list selection) (st : cstate)
    : option cstate :=
    match fuel with
    | O => None
    | S f => dcollect_list (dcollect f) du sels st
    end.

  (* collect_subfields: the selection sets of all field details, each under its own defer usage,
     sharing one context (visited names, new usages); the operation's selection set is the single
     source ([], selections) *)
  Fixpoint dcollect_srcs (fuel : nat) (srcs : list (duchain * list selection)) (st : cstate)
    : option cstate :=
    match srcs with
    | [] => Some st
    | (du, sels) :: r =>
      match dcollect fuel du sels st with
      | None => None
      | Some st' => dcollect_srcs fuel r st'
      end
    end.
End DCollect.

Definition srcs_of (fs : list dfield) : list (duchain * list selection) :=
  map (fun f => (df_du f, fs_sels (df_fs f))) fs.

(* ------------------------------------------------------------------ build_execution_plan *)

Definition du_of (ch : duchain) : option Plan.du :=
  match ch with
  | [] => None
  | n :: anc => Some (Plan.mkDu (dn_id n) (map dn_id anc))
  end.

Definition details_of (fs : list dfield) : Plan.details := map (fun f => du_of (df_du f)) fs.

(* Incr/Plan.v keys are numbers: the position of the response key in the grouped field set *)
Definition to_gfs (dg : dgrouped) : Plan.gfs :=
  combine (map N.of_nat (seq 0 (length dg))) (map (fun e => details_of (snd e)) dg).

Definition resolve (dg : dgrouped) (e : N * Plan.details) : dgrouped :=
  match nth_error dg (N.to_nat (fst e)) with Some x => [x] | None => [] end.

Definition plan_of (dg : dgrouped) (parent : list N) : dgrouped * list (list Plan.du * dgrouped) :=
  let p := Plan.build_execution_plan (to_gfs dg) parent in
  (flat_map (resolve dg) (fst p), map (fun sg => (fst sg, flat_map (resolve dg) (snd sg))) (snd p)).

(* the delivery groups of a deferred grouped field set: for each usage of its set the usage (with
   its parent links) as found in the set's own field details *)
Definition chains (g : dgrouped) : list duchain := flat_map (fun e => map df_du (snd e)) g.

Fixpoint find_chain (id : N) (l : list duchain) : option duchain :=
  match l with
  | [] => None
  | [] :: r => find_chain id r
  | (n :: a) :: r => if dn_id n =? id then Some (n :: a) else find_chain id r
  end.

Definition group_chains (sdu : list Plan.du) (g : dgrouped) : list duchain :=
  flat_map (fun d => match find_chain (Plan.du_id d) (chains g) with Some c => [c] | None => [] end) sdu.

(* ------------------------------------------------------------------ results *)

(* the value of one execution group (ExecutionGroupValue): path relative to the current position,
   its delivery groups, the data of its response keys (None: a field error reached the top of the
   group, the delivery groups are completed with errors), its own errors and resolver calls
   (relative to the payload's path) *)
Record payload := mkPl {
  pl_path : path; pl_groups : list duchain; pl_data : option (list (str * json));
  pl_errs : list err; pl_calls : list call;
  pl_nested : bool;        (* produced by the sub-executor of another execution group *)
  pl_keys : list str }.    (* the response keys of its grouped field set *)

Definition pre_pl (seg : pathseg) (p : payload) : payload :=
  mkPl (seg :: pl_path p) (pl_groups p) (pl_data p) (pl_errs p) (pl_calls p) (pl_nested p) (pl_keys p).
Definition nest_pl (p : payload) : payload :=
  mkPl (pl_path p) (pl_groups p) (pl_data p) (pl_errs p) (pl_calls p) true (pl_keys p).
Definition pre_pls (seg : pathseg) (ps : list payload) : list payload := map (pre_pl seg) ps.

(* result, payloads of the execution groups created below, "some collection repeated a deferred visit" *)
Definition xout : Type := (out * list payload * bool)%type.

Definition xcatch (t : ty) (x : xout) : xout :=
  let '(o, pls, rv) := x in
  (catch t o, match o with (CErr, _, _) => [] | _ => pls end, rv).

(* error propagation disabled for the operation (handle_field_error with error_propagation = False):
   a field error is caught at the field / list item where it is raised, whatever the type *)
Definition catch_np (o : out) : out :=
  match o with
  | (CErr, es, cs) => (CVal JNull, es, cs)
  | _ => o
  end.

Definition gcatch (np : bool) (t : ty) (o : out) : out := if np then catch_np o else catch t o.

Definition gxcatch (np : bool) (t : ty) (x : xout) : xout :=
  let '(o, pls, rv) := x in
  (gcatch np t o, match o with (CErr, _, _) => [] | _ => pls end, rv).

Inductive xfres := XSkip | XRes (x : xout).

Definition xgroups_out : Type :=
  (option (list (str * json)) * list err * list call * list payload * bool)%type.

(* execute_fields over a grouped field set; payloads created under fields executed before a
   propagating error are dropped with the position *)
Fixpoint dexec_groups (ef : list dfield -> option xfres) (g : dgrouped) : option xgroups_out :=
  match g with
  | [] => Some (Some [], [], [], [], false)
  | (k, fs) :: rest =>
    match ef fs with
    | None => None
    | Some XSkip => dexec_groups ef rest
    | Some (XRes ((CErr, es, cs), _, rv)) =>
        Some (None, pre_errs (PKey k) es, pre_calls (PKey k) cs, [], rv)
    | Some (XRes ((CVal j, es, cs), pls, rv)) =>
      match dexec_groups ef rest with
      | None => None
      | Some (r, es', cs', pls', rv') =>
          Some (option_map (cons (k, j)) r,
                pre_errs (PKey k) es ++ es', pre_calls (PKey k) cs ++ cs',
                match r with Some _ => pre_pls (PKey k) pls ++ pls' | None => [] end,
                rv || rv')
      end
    end
  end.

Definition xitems_out : Type :=
  (option (list json) * list err * list call * list payload * bool)%type.

Fixpoint dcomplete_items (cf : data -> option xout) (items : list data) (i : nat)
  : option xitems_out :=
  match items with
  | [] => Some (Some [], [], [], [], false)
  | x :: rest =>
    match cf x with
    | None => None
    | Some ((CErr, es, cs), _, rv) => Some (None, pre_errs (PIdx i) es, pre_calls (PIdx i) cs, [], rv)
    | Some ((CVal j, es, cs), pls, rv) =>
      match dcomplete_items cf rest (S i) with
      | None => None
      | Some (r, es', cs', pls', rv') =>
          Some (option_map (cons j) r,
                pre_errs (PIdx i) es ++ es', pre_calls (PIdx i) cs ++ cs',
                match r with Some _ => pre_pls (PIdx i) pls ++ pls' | None => [] end,
                rv || rv')
      end
    end
  end.

(* collect_execution_groups + execute_execution_group: one sub-executor per new deferred grouped
   field set, at the same position; [ef parent] = execute_field of a (sub-)executor whose
   defer_usage_set is [parent] *)
Fixpoint dexec_deferred (ef : list N -> list dfield -> option xfres)
  (groups : list (list Plan.du * dgrouped)) : option (list payload * bool) :=
  match groups with
  | [] => Some ([], false)
  | (sdu, g) :: rest =>
    match dexec_groups (ef (Plan.ids sdu)) g with
    | None => None
    | Some (r, es, cs, pls, rv) =>
      match dexec_deferred ef rest with
      | None => None
      | Some (pls', rv') =>
          Some (mkPl [] (group_chains sdu g) r es cs false (map fst g)
                  :: match r with Some _ => map nest_pl pls | None => [] end ++ pls',
                rv || rv')
      end
    end
  end.

(* ------------------------------------------------------------------ execution *)

Section GExec.
  Variable np : bool.           (* true: error propagation disabled for the operation *)
  Variable s : schema.
  Variable frags : list fragment.
  Variable cv : list (str * value).
  Variable planning : bool.     (* true: IncrementalExecutor; false: the base Executor *)

  (* [parent]: the executor's defer_usage_set ([] for the initial executor); [base]: first free
     defer usage identity; [depth]: length of the response path of the current position *)
  Fixpoint gexec_sels (fuel : nat) (tn : str) (obj : list (str * data))
    (srcs : list (duchain * list selection)) (parent : list N) (base : N) (depth : nat)
    : option xout :=
    match fuel with
    | O => None
    | S f =>
      match dcollect_srcs s frags cv tn base depth f srcs cs0 with
      | None => None
      | Some st =>
        let base' := base + N.of_nat (length (c_new st)) in
        let p := if planning then plan_of (c_g st) parent else (c_g st, []) in
        match dexec_groups (gexec_field f tn obj parent base' depth) (fst p) with
        | None => None
        | Some (None, es, cs, _, rv) => Some ((CErr, es, cs), [], c_rev st || rv)
        | Some (Some kvs, es, cs, pls, rv) =>
          match dexec_deferred (fun par => gexec_field f tn obj par base' depth) (snd p) with
          | None => None
          | Some (dpls, rv') => Some ((CVal (JObj kvs), es, cs), pls ++ dpls, c_rev st || rv || rv')
          end
        end
      end
    end

  with gexec_field (fuel : nat) (tn : str) (obj : list (str * data)) (parent : list N) (base : N)
    (depth : nat) (fs : list dfield) : option xfres :=
    match fuel with
    | O => None
    | S f =>
      match fs with
      | [] => Some XSkip
      | d1 :: _ =>
        let f1 := df_fs d1 in
        if str_eqb (fs_name f1) n_typename then Some (XRes ((CVal (JStr tn), [], []), [], false))
        else
          match lookup_field s tn (fs_name f1) with
          | None => Some XSkip
          | Some fd =>
            match coerce_args s cv (f_args fd) (fs_args f1) with
            | None => Some (XRes (gcatch np (f_type fd) (raise_here CauseArgs), [], false))
            | Some args =>
              let d := match lookup (fs_name f1) obj with Some d => d | None => DNull end in
              match gcomplete f (f_type fd) fs d parent base (S depth) with
              | None => None
              | Some ((r, es, cs), pls, rv) =>
                  Some (XRes (gxcatch np (f_type fd) ((r, es, ([], fs_name f1, args) :: cs), pls, rv)))
              end
            end
          end
      end
    end

  with gcomplete (fuel : nat) (t : ty) (fs : list dfield) (d : data) (parent : list N) (base : N)
    (depth : nat) : option xout :=
    match fuel with
    | O => None
    | S f =>
      match d with
      | DRaise => Some (raise_here CauseRaise, [], false)
      | _ =>
        match t with
        | TNonNull t' =>
            match gcomplete f t' fs d parent base depth with
            | None => None
            | Some ((CVal JNull, es, cs), _, rv) => Some ((CErr, es ++ [([], CauseNull)], cs), [], rv)
            | Some x => Some x
            end
        | TList it =>
            match d with
            | DNull => Some ((CVal JNull, [], []), [], false)
            | DList items =>
                match dcomplete_items
                        (fun x => option_map (gxcatch np it) (gcomplete f it fs x parent base (S depth)))
                        items O with
                | None => None
                | Some (Some js, es, cs, pls, rv) => Some ((CVal (JList js), es, cs), pls, rv)
                | Some (None, es, cs, _, rv) => Some ((CErr, es, cs), [], rv)
                end
            | _ => Some (raise_here CauseNonList, [], false)
            end
        | TNamed n =>
            match d with
            | DNull => Some ((CVal JNull, [], []), [], false)
            | _ =>
              match lookup_type s n with
              | Some (TObject _ _) =>
                  (* complete_object_value does not inspect the value: a value that is not an
                     object has no fields (Exec/Spec.v data_fields) *)
                  gexec_sels f n (data_fields d) (srcs_of fs) parent base depth
              | Some (TInterface _) | Some (TUnion _) =>
                  match d with
                  | DObj rt flds =>
                      if is_object s rt && possible s n rt
                      then gexec_sels f rt flds (srcs_of fs) parent base depth
                      else Some (raise_here CauseType, [], false)
                  | _ => Some (raise_here CauseType, [], false)
                  end
              | Some td =>
                  match d with
                  | DLeaf l =>
                      match complete_leaf td l with
                      | Some j => Some ((CVal j, [], []), [], false)
                      | None => Some (raise_here CauseLeaf, [], false)
                      end
                  | _ => Some (raise_here CauseLeaf, [], false)
                  end
              | None => Some (raise_here CauseType, [], false)
              end
            end
        end
      end
    end.
End GExec.

(* the executors with error propagation (the default) *)
Definition dexec_sels := gexec_sels false.
Definition dexec_field := gexec_field false.
Definition dcomplete := gcomplete false.


(* ------------------------------------------------------------------ delivery
   Which execution group values reach the client (work_queue.py): a failed execution group fails every
   delivery group it belongs to, a failed delivery group takes its whole subtree with it, and a value
   is delivered iff one of its delivery groups survives.  A delivery group is identified by its path
   and the identity of its defer usage.  Without failed execution groups nothing is withheld. *)

Definition seg_eqb (a b : pathseg) : bool :=
  match a, b with
  | PKey x, PKey y => str_eqb x y
  | PIdx i, PIdx j => Nat.eqb i j
  | _, _ => false
  end.

Fixpoint path_eqb (a b : path) : bool :=
  match a, b with
  | [], [] => true
  | x :: a', y :: b' => seg_eqb x y && path_eqb a' b'
  | _, _ => false
  end.

Definition gkey : Type := (path * N)%type.
Definition node_key (p : path) (n : dunode) : gkey := (firstn (dn_depth n) p, dn_id n).
Definition gkey_eqb (a b : gkey) : bool := path_eqb (fst a) (fst b) && (snd a =? snd b).

Definition failed_keys (pls : list payload) : list gkey :=
  flat_map (fun p =>
    match pl_data p with
    | Some _ => []
    | None => flat_map (fun ch => match ch with n :: _ => [node_key (pl_path p) n] | [] => [] end) (pl_groups p)
    end) pls.

Definition chain_alive (dead : list gkey) (p : path) (ch : duchain) : bool :=
  negb (existsb (fun n => existsb (gkey_eqb (node_key p n)) dead) ch).

Definition delivered_pl (dead : list gkey) (p : payload) : bool :=
  match pl_data p, pl_groups p with
  | None, _ => true
  | Some _, [] => true
  | Some _, gs => existsb (chain_alive dead (pl_path p)) gs
  end.

Definition deliver (pls : list payload) : list payload :=
  filter (delivered_pl (failed_keys pls)) pls.

(* ------------------------------------------------------------------ requests *)

Inductive dresponse :=
| DRequestError
| DOutOfFuel
| DResp (data : json) (errors : list err) (calls : list call) (deferred : list payload) (rev : bool).

Definition dexecute_fuel (planning : bool) (fuel : nat) (s : schema) (d : document)
  (vars : list (str * value)) (root : data) : dresponse :=
  match coerce_variable_values s (d_vars d) vars with
  | None => DRequestError
  | Some cv =>
    match root_type s (d_kind d) with
    | None => DRequestError
    | Some tn =>
      if negb (is_object s tn) then DRequestError else
      let flds := match root with DObj _ f => f | _ => [] end in
      match dexec_sels s (d_frags d) cv planning fuel tn flds [([], d_sels d)] [] 0 O with
      | None => DOutOfFuel
      | Some ((CVal j, es, cs), pls, rv) => DResp j es cs (deliver pls) rv
      | Some ((CErr, es, cs), _, rv) => DResp JNull es cs [] rv
      end
    end
  end.

(* the execution group values before the work queue decides which of them are delivered; [np]: the
   operation carries @experimental_disableErrorPropagation *)
Definition gexecute_fuel (np planning : bool) (fuel : nat) (s : schema) (d : document)
  (vars : list (str * value)) (root : data) : dresponse :=
  match coerce_variable_values s (d_vars d) vars with
  | None => DRequestError
  | Some cv =>
    match root_type s (d_kind d) with
    | None => DRequestError
    | Some tn =>
      if negb (is_object s tn) then DRequestError else
      let flds := match root with DObj _ f => f | _ => [] end in
      match gexec_sels np s (d_frags d) cv planning fuel tn flds [([], d_sels d)] [] 0 O with
      | None => DOutOfFuel
      | Some ((CVal j, es, cs), pls, rv) => DResp j es cs pls rv
      | Some ((CErr, es, cs), _, rv) => DResp JNull es cs [] rv
      end
    end
  end.

(* THE entry points: experimental_execute_incrementally, and the same request on the base executor *)
Definition dexecute (s : schema) (d : document) (vars : list (str * value)) (root : data)
  : dresponse := dexecute_fuel true (default_fuel s d root) s d vars root.

Definition dexecute_plain (s : schema) (d : document) (vars : list (str * value)) (root : data)
  : dresponse := dexecute_fuel false (default_fuel s d root) s d vars root.

(* all execution group values of the incremental run, delivered or not *)
Definition dexecute_raw (s : schema) (d : document) (vars : list (str * value)) (root : data)
  : dresponse := gexecute_fuel false true (default_fuel s d root) s d vars root.

(* the non-propagating reference: the base executor with error propagation disabled *)
Definition dexecute_np (s : schema) (d : document) (vars : list (str * value)) (root : data)
  : dresponse := gexecute_fuel true false (default_fuel s d root) s d vars root.

(* the incremental executor with error propagation disabled *)
Definition dexecute_np_incremental (s : schema) (d : document) (vars : list (str * value)) (root : data)
  : dresponse := gexecute_fuel true true (default_fuel s d root) s d vars root.

(* ------------------------------------------------------------------ the reference: @defer erased *)

Definition erase_dirs (ds : list directive) : list directive :=
  filter (fun d => negb (str_eqb (fst d) n_defer)) ds.

Fixpoint erase_sel (x : selection) : selection :=
  match x with
  | SField al name args dirs sub => SField al name args dirs (map erase_sel sub)
  | SSpread name dirs => SSpread name (erase_dirs dirs)
  | SInline tc dirs sub => SInline tc (erase_dirs dirs) (map erase_sel sub)
  end.

Definition erase_sels (l : list selection) : list selection := map erase_sel l.

Definition erase_frag (fr : fragment) : fragment :=
  mkFrag (fr_name fr) (fr_cond fr) (erase_sels (fr_sels fr)).

Definition erase_defer (d : document) : document :=
  mkDoc (d_kind d) (d_vars d) (erase_sels (d_sels d)) (map erase_frag (d_frags d)).

(* ------------------------------------------------------------------ the payloads on the wire
   Each execution group value becomes one subsequent payload of the incremental delivery format
   (Incr/Merge.v): its best delivery group (longest path) is announced pending at that group's path,
   the data is delivered with the remaining sub path, the group is completed. *)
From GV Require Incr.Merge.

Definition best_depth (p : payload) : nat :=
  fold_right (fun c m => Nat.max (match c with n :: _ => dn_depth n | [] => O end) m) O (pl_groups p).

Definition merge_payload (i : N) (p : payload) : Merge.payload :=
  let k := best_depth p in
  match pl_data p with
  | Some kvs =>
      Merge.mkPayload [(i, firstn k (pl_path p))] [Merge.IDefer i (skipn k (pl_path p)) (JObj kvs)] [i]
  | None => Merge.mkPayload [(i, firstn k (pl_path p))] [] [i]
  end.

Fixpoint merge_payloads (i : N) (ps : list payload) : list Merge.payload :=
  match ps with
  | [] => []
  | p :: r => merge_payload i p :: merge_payloads (i + 1) r
  end.

(* client-side reassembly of a whole incremental response by the merge oracle *)
Definition reassemble (j0 : json) (ps : list payload) : option json :=
  Merge.reassemble j0 [] (merge_payloads 0 ps).

(* the same merge, payload by payload, directly on the model's payloads *)
Definition merge_into (kvs : list (str * json)) (old : json) : option json :=
  match old with JObj _ => Some (Merge.merge 200 old (JObj kvs)) | _ => None end.

Definition apply_pl (j : json) (p : payload) : option json :=
  match pl_data p with
  | None => Some j
  | Some kvs => Merge.update_at (pl_path p) (merge_into kvs) j
  end.

Fixpoint apply_pls (j : json) (ps : list payload) : option json :=
  match ps with
  | [] => Some j
  | p :: r => match apply_pl j p with Some j' => apply_pls j' r | None => None end
  end.

(* ------------------------------------------------------------------ equality of response data up
   to the order of object keys (a deferred key necessarily arrives after later non-deferred keys) *)
From Coq Require Import Permutation.

Inductive jeq : json -> json -> Prop :=
| jeq_null : jeq JNull JNull
| jeq_int z : jeq (JInt z) (JInt z)
| jeq_float n d : jeq (JFloat n d) (JFloat n d)
| jeq_str x : jeq (JStr x) (JStr x)
| jeq_bool b : jeq (JBool b) (JBool b)
| jeq_list a b : jeq_items a b -> jeq (JList a) (JList b)
| jeq_obj a b c : jeq_kvs a b -> Permutation b c -> jeq (JObj a) (JObj c)
with jeq_items : list json -> list json -> Prop :=
| jeqi_nil : jeq_items [] []
| jeqi_cons x y a b : jeq x y -> jeq_items a b -> jeq_items (x :: a) (y :: b)
with jeq_kvs : list (str * json) -> list (str * json) -> Prop :=
| jeqk_nil : jeq_kvs [] []
| jeqk_cons k x y a b : jeq x y -> jeq_kvs a b -> jeq_kvs ((k, x) :: a) ((k, y) :: b).

(* ------------------------------------------------------------------ documents whose @defer
   directives are all disabled under the coerced variables (`if: false`, or no @defer at all) *)
Fixpoint inactive_sel (cv : list (str * value)) (x : selection) : bool :=
  match x with
  | SField _ _ _ _ sub => forallb (inactive_sel cv) sub
  | SSpread _ dirs => match defer_active cv dirs with None => true | Some _ => false end
  | SInline _ dirs sub =>
      match defer_active cv dirs with None => true | Some _ => false end && forallb (inactive_sel cv) sub
  end.

Definition inactive_sels (cv : list (str * value)) (l : list selection) : bool :=
  forallb (inactive_sel cv) l.

Definition inactive_doc (cv : list (str * value)) (d : document) : bool :=
  inactive_sels cv (d_sels d) && forallb (fun fr => inactive_sels cv (fr_sels fr)) (d_frags d).

(* documents without any @defer directive *)
Definition no_defer (ds : list directive) : bool := forallb (fun d => negb (str_eqb (fst d) n_defer)) ds.

Fixpoint defer_free_sel (x : selection) : bool :=
  match x with
  | SField _ _ _ _ sub => forallb defer_free_sel sub
  | SSpread _ dirs => no_defer dirs
  | SInline _ dirs sub => no_defer dirs && forallb defer_free_sel sub
  end.

Definition defer_free (d : document) : bool :=
  forallb defer_free_sel (d_sels d) && forallb (fun fr => forallb defer_free_sel (fr_sels fr)) (d_frags d).

(* ------------------------------------------------------------------ the error clause of C04
   "When errors do propagate, the assembled data is that non-propagating reference with some subtrees
   replaced by null and some whole deferred fragments withheld, each withheld one being reported as
   completed with errors." *)

(* what the merge sees of a payload: target path and data *)
Definition cpl : Type := (path * option (list (str * json)))%type.
Definition core (p : payload) : cpl := (pl_path p, pl_data p).

Definition capply (j : json) (c : cpl) : option json :=
  match snd c with
  | None => Some j
  | Some kvs => Merge.update_at (fst c) (merge_into kvs) j
  end.

Fixpoint capplys (j : json) (cs : list cpl) : option json :=
  match cs with
  | [] => Some j
  | c :: r => match capply j c with Some j' => capplys j' r | None => None end
  end.


(* cs' is a sub-multiset of cs, in any order *)
Definition SubPerm {A} (cs' cs : list A) : Prop := exists rest, Permutation (cs' ++ rest) cs.

(* [expl Perr Pwh m n]: m is n with some subtrees replaced by null - only where [Perr] holds of a path
   at or below the null (paths relative to the current position) - and some object keys withheld -
   only keys k with [Pwh [] k] at the object's position *)
Inductive expl : (path -> Prop) -> (path -> str -> Prop) -> json -> json -> Prop :=
| ex_null Pe Pw n : n = JNull \/ (exists q, Pe q) -> expl Pe Pw JNull n
| ex_int Pe Pw z : expl Pe Pw (JInt z) (JInt z)
| ex_float Pe Pw a b : expl Pe Pw (JFloat a b) (JFloat a b)
| ex_str Pe Pw x : expl Pe Pw (JStr x) (JStr x)
| ex_bool Pe Pw b : expl Pe Pw (JBool b) (JBool b)
| ex_list Pe Pw a b :
    length a = length b ->
    (forall i x y, nth_error a i = Some x -> nth_error b i = Some y ->
       expl (fun q => Pe (PIdx i :: q)) (fun q k => Pw (PIdx i :: q) k) x y) ->
    expl Pe Pw (JList a) (JList b)
| ex_obj Pe Pw a b :
    (forall k v, In (k, v) a ->
       exists w, In (k, w) b /\ expl (fun q => Pe (PKey k :: q)) (fun q k' => Pw (PKey k :: q) k') v w) ->
    (forall k w, In (k, w) b -> (exists v, In (k, v) a) \/ Pw [] k) ->
    expl Pe Pw (JObj a) (JObj b).

(* reported errors at a position, given the execution group values [pls] of which the sub-multiset with
   cores [cs'] was applied: the errors [es] of the initial result, and the errors of applied values *)
Definition PErr (es : list err) (pls : list payload) (cs' : list cpl) (q : path) : Prop :=
  In q (map fst es) \/
  exists p e, In p pls /\ In (core p) cs' /\ In e (pl_errs p) /\ q = pl_path p ++ fst e.

(* withheld keys: the keys of execution groups that failed or were not applied *)
Definition PWh (pls : list payload) (cs' : list cpl) (q : path) (k : str) : Prop :=
  exists p, In p pls /\ pl_path p = q /\ In k (pl_keys p) /\ (pl_data p = None \/ ~ In (core p) cs').

(* for every sub-multiset of the execution group values, applied in any order the merge accepts *)
Definition ExplAny (j0 : json) (es : list err) (pls : list payload) (jn : json) : Prop :=
  forall cs' m', SubPerm cs' (map core pls) -> capplys j0 cs' = Some m' ->
    expl (PErr es pls cs') (PWh pls cs') m' jn.

(* [hidden Pw q m]: the position q is not delivered in m - on the way m has a null, or an object lacks
   the next key and that key is withheld *)
Fixpoint hidden (Pw : path -> str -> Prop) (q : path) (m : json) {struct q} : Prop :=
  match m with
  | JNull => True
  | _ =>
    match q with
    | [] => False
    | PKey k :: r =>
        match m with
        | JObj kvs =>
            match lookup k kvs with
            | Some v => hidden (fun q' k' => Pw (PKey k :: q') k') r v
            | None => Pw [] k
            end
        | _ => False
        end
    | PIdx i :: r =>
        match m with
        | JList l =>
            match nth_error l i with
            | Some v => hidden (fun q' k' => Pw (PIdx i :: q') k') r v
            | None => False
            end
        | _ => False
        end
    end
  end.

(* every error [esn] of the non-propagating reference is reported by the incremental run (initial
   result or an applied value) at the same path, or its position is not delivered *)
Definition ErrAcc (j0 : json) (es : list err) (pls : list payload) (esn : list err) : Prop :=
  forall cs' m', SubPerm cs' (map core pls) -> capplys j0 cs' = Some m' ->
    forall x, In x esn -> PErr es pls cs' (fst x) \/ hidden (PWh pls cs') (fst x) m'.

(* ------------------------------------------------------------------ a static condition under which no
   collection repeats a deferred fragment visit ([rev] = false): no fragment name is spread both with an
   active @defer and without one, anywhere in the document *)
Fixpoint spread_names (cv : list (str * value)) (deferred : bool) (x : selection) : list str :=
  match x with
  | SField _ _ _ _ sub => flat_map (spread_names cv deferred) sub
  | SSpread name dirs =>
      match defer_active cv dirs, deferred with
      | Some _, true => [name]
      | None, false => [name]
      | _, _ => []
      end
  | SInline _ _ sub => flat_map (spread_names cv deferred) sub
  end.

Definition doc_spread_names (cv : list (str * value)) (deferred : bool) (d : document) : list str :=
  flat_map (spread_names cv deferred) (d_sels d)
  ++ flat_map (fun fr => flat_map (spread_names cv deferred) (fr_sels fr)) (d_frags d).

Definition no_mixed_spreads (cv : list (str * value)) (d : document) : bool :=
  forallb (fun n => negb (mem n (doc_spread_names cv false d))) (doc_spread_names cv true d).
